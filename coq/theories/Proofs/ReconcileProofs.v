(** C07, reconciliation: the sum of all final account balances equals what the matcher leaves
    unconsumed in the lots.  Combines the conservation theorems of the matcher (MatcherProps:
    every taxable event is covered in full, income events consume nothing, every fraction
    belongs to one event and at most one lot) with [bal_total] (BalanceProofs). *)
From Coq Require Import List ZArith Bool Lia Permutation Sorted ZifyBool.
From RP2V Require Import Base.Prelude Base.Assoc Base.Sorting Base.Dec Base.Time Model.Types Model.Generated Model.Txn
  Model.Matcher Model.MatchSpec Model.MatchWf Model.FracSpec Model.Pipeline Model.Computed Model.ComputedSpec
  Proofs.SortingProofs Proofs.FilterProofs Proofs.MatcherProps Proofs.C03Proofs Proofs.PipelineWf
  Proofs.BalanceProofs Proofs.ComputedProofs Proofs.C07Proofs Proofs.L4Examples Proofs.TransferFee.
Import ListNotations.
Open Scope Z_scope.

(** * grouping a sum by a key *)
Lemma sum_group {A} (key : A -> option Z) (w : A -> Z) (rows : list Z) (l : list A) :
  NoDup rows -> (forall x r, In x l -> key x = Some r -> In r rows) ->
  sumZ (map w (filter (fun x => match key x with Some _ => true | None => false end) l)) =
  sumZ (map (fun r => sumZ (map w (filter (fun x => match key x with Some r' => r' =? r | None => false end) l))) rows).
Proof.
  intros Hnd. induction l as [|x l IH]; intros Hin.
  - cbn [filter map sumZ]. symmetry. apply sumZ_map_zero. reflexivity.
  - assert (IH' := IH (fun y r Hy => Hin y r (or_intror Hy))). clear IH.
    cbn [filter]. destruct (key x) as [r0|] eqn:K.
    + cbn [map sumZ]. rewrite IH'.
      transitivity (sumZ (map (fun r => (if r0 =? r then w x else 0) +
                                        sumZ (map w (filter (fun y => match key y with Some r' => r' =? r | None => false end) l))) rows)).
      * rewrite sumZ_map_add, sum_indicator; [reflexivity|exact Hnd|apply (Hin x r0); [left; reflexivity|exact K]].
      * apply sumZ_map_ext_in. intros r _. destruct (r0 =? r); cbn [map sumZ]; lia.
    + exact IH'.
Qed.

Lemma NoDup_map_inj {A} (f : A -> Z) l a b : NoDup (map f l) -> In a l -> In b l -> f a = f b -> a = b.
Proof.
  induction l as [|x l IH]; intros Hnd Ha Hb Hab; [destruct Ha|].
  cbn [map] in Hnd. inversion Hnd as [|? ? Hni Hnd']; subst.
  destruct Ha as [->|Ha], Hb as [->|Hb]; auto.
  - exfalso. apply Hni. rewrite Hab. apply in_map. exact Hb.
  - exfalso. apply Hni. rewrite <- Hab. apply in_map. exact Ha.
Qed.

(** * the matcher's side *)
Definition has_lot (f : fraction) : bool := match f_lot f with Some _ => true | None => false end.

Section Matcher.
Variables (lots : list intx) (sched : list (Z * meth)) (evs : list event) (fs : list fraction).
Hypothesis WF : wf lots sched evs.
Hypothesis RUN : run_matcher gen_always_repush lots sched evs = Ok fs.

Lemma wf_lot_rows : NoDup (map i_row lots).
Proof. destruct WF as (_ & H & _). exact H. Qed.
Lemma wf_ev_rows : NoDup (map e_row evs).
Proof. destruct WF as (_ & _ & _ & _ & _ & _ & H & _). exact H. Qed.

(** what is taken from all lots together = the fractions that have a lot *)
Lemma lots_taken_total : sumZ (map (fun l => lot_taken fs (i_row l)) lots) = sumZ (map f_amt (filter has_lot fs)).
Proof.
  unfold lot_taken, frac_of_lot, has_lot.
  rewrite (sum_group f_lot f_amt (map i_row lots) fs).
  - rewrite map_map. reflexivity.
  - exact wf_lot_rows.
  - intros f r Hf Hr. apply In_nth_error in Hf. destruct Hf as [k Hk].
    destruct (m_order lots sched evs WF fs RUN k f r Hk Hr) as (e & i & y & m & _ & _ & _ & Hi & Hrow & _).
    rewrite <- Hrow. apply in_map. unfold lotn. apply nth_In. exact Hi.
Qed.

(** the fractions of an event all have a lot, or none has, according to the kind of the event *)
Lemma frac_kind e f : In e evs -> In f fs -> f_ev f = e_row e -> has_lot f = negb (e_earn e).
Proof.
  intros He Hf Hrow.
  destruct (m_only_events lots sched evs WF fs RUN f Hf) as (e' & He' & Hr' & Hiff).
  assert (e' = e) by (apply (NoDup_map_inj e_row evs); [exact wf_ev_rows|exact He'|exact He|congruence]). subst e'.
  unfold has_lot. destruct (f_lot f) as [r|]; destruct (e_earn e); try reflexivity.
  - destruct Hiff as [_ Hiff]. discriminate (Hiff eq_refl).
  - destruct Hiff as [Hiff _]. discriminate (Hiff eq_refl).
Qed.

(** ... = the full amounts of the disposals (income events consume nothing) *)
Lemma with_lot_total : sumZ (map f_amt (filter has_lot fs)) = sumZ (map (fun e => if e_earn e then 0 else e_amt e) evs).
Proof.
  set (key := fun f => if has_lot f then Some (f_ev f) else None).
  rewrite (filter_ext has_lot (fun x => match key x with Some _ => true | None => false end))
    by (intros f; unfold key; destruct (has_lot f); reflexivity).
  rewrite (sum_group key f_amt (map e_row evs) fs).
  - rewrite map_map. apply sumZ_map_ext_in. intros e He.
    destruct (e_earn e) eqn:Earn.
    + rewrite filter_none; [reflexivity|]. intros f Hf. unfold key.
      destruct (has_lot f) eqn:HL; [|reflexivity].
      destruct (Z.eqb_spec (f_ev f) (e_row e)) as [Hrow|_]; [|reflexivity].
      rewrite (frac_kind e f He Hf Hrow), Earn in HL. discriminate HL.
    + rewrite (filter_ext_in _ (frac_of_ev (e_row e))).
      * exact (m_event_covered lots sched evs WF fs RUN e He).
      * intros f Hf. unfold key, frac_of_ev.
        destruct (Z.eqb_spec (f_ev f) (e_row e)) as [Hrow|Hne].
        -- rewrite (frac_kind e f He Hf Hrow), Earn. cbn [negb]. apply Z.eqb_eq. exact Hrow.
        -- destruct (has_lot f); [apply Z.eqb_neq; exact Hne|reflexivity].
  - exact wf_ev_rows.
  - intros f r Hf Hr. unfold key in Hr. destruct (has_lot f); [|discriminate]. injection Hr as <-.
    destruct (m_only_events lots sched evs WF fs RUN f Hf) as (e & He & Hrow & _).
    rewrite <- Hrow. apply in_map. exact He.
Qed.

Lemma unsold_eq : unsold lots fs = sumZ (map i_crypto_in lots) - sumZ (map (fun e => if e_earn e then 0 else e_amt e) evs).
Proof. unfold unsold. rewrite sumZ_map_sub, lots_taken_total, with_lot_total. reflexivity. Qed.

(** the same quantity as the sum of the per-lot remainders of FracSpec.v *)
Lemma unsold_rem_after : unsold lots fs = sumZ (map (rem_after lots fs) (seq 0 (length lots))).
Proof.
  unfold unsold, rem_after, lotn.
  transitivity (sumZ (map (fun l => i_crypto_in l - lot_taken fs (i_row l)) (map (fun i => nth i lots dummy_lot) (seq 0 (length lots))))).
  - f_equal. f_equal. symmetry. clear. induction lots as [|a l IH]; [reflexivity|].
    cbn [length seq map nth]. f_equal. rewrite <- seq_shift, map_map. exact IH.
  - rewrite map_map. reflexivity.
Qed.
End Matcher.

(** * the disposals of a history *)
Lemma filter_true {A} (l : list A) : filter (fun _ => true) l = l.
Proof. induction l as [|x l IH]; cbn [filter]; [reflexivity|f_equal; exact IH]. Qed.

Lemma disposed_total t evs : taxable_events t = Ok evs ->
  sumZ (map (fun e => if e_earn e then 0 else e_amt e) (map event_of evs)) =
  sumZ (map o_crypto_out_with_fee (t_outs t)) + sumZ (map x_crypto_fee (filter intra_is_taxable (t_intras t))).
Proof.
  intros H. rewrite map_map.
  rewrite (sumZ_map_perm _ _ _ (taxable_events_perm t evs H)).
  unfold taxable_unsorted. rewrite !map_app, !sumZ_app, !map_map.
  cbn [event_of e_earn e_amt t_is_earning t_balance_change].
  rewrite (sumZ_map_zero _ (filter in_is_taxable (t_ins t))).
  - unfold out_is_taxable, out_is_earning, intra_is_earning, out_crypto_balance_change, intra_crypto_balance_change.
    rewrite filter_true. reflexivity.
  - intros a Ha. apply filter_In in Ha. destruct Ha as [_ Ha]. unfold in_is_earning. rewrite Ha. reflexivity.
Qed.

Lemma net_total_all t :
  sumZ (map net_of (replay_order t)) =
  sumZ (map i_crypto_in (t_ins t)) - sumZ (map (fun a => x_crypto_sent a - x_crypto_received a) (t_intras t))
  - sumZ (map (fun a => o_crypto_out_no_fee a + o_crypto_fee a) (t_outs t)).
Proof.
  unfold replay_order. rewrite (sumZ_map_perm _ _ _ (sort_by_perm t_us _)).
  rewrite !map_app, !sumZ_app, !map_map. cbn [net_of].
  assert (N : forall {A} (f : A -> Z) l, sumZ (map (fun a => - f a) l) = - sumZ (map f l))
    by (intros A f l; induction l as [|a l IH]; cbn [map sumZ]; lia).
  rewrite N.
  assert (S : sumZ (map (fun a => x_crypto_received a - x_crypto_sent a) (t_intras t)) =
              - sumZ (map (fun a => x_crypto_sent a - x_crypto_received a) (t_intras t)))
    by (induction (t_intras t) as [|a l IH]; cbn [map sumZ]; lia).
  rewrite S. change (fun x : intx => i_crypto_in x) with i_crypto_in. lia.
Qed.

(** * reconciliation *)
(** the core is independent of the transfer-fee rule of the source: it needs every non-zero transfer fee to be a taxable
    event ([no_dust_fee]) *)
Theorem c07_reconciliation_core : forall allow to_day exs hos sched t evs fs bl,
  taxable_events t = Ok evs ->
  wf (t_ins t) sched (map event_of evs) ->
  run_matcher gen_always_repush (t_ins t) sched (map event_of evs) = Ok fs ->
  outs_consistent t -> intras_consistent t -> no_dust_fee t -> no_cut to_day t ->
  balances allow to_day exs hos t = Ok bl ->
  sumZ (map b_final bl) = unsold (t_ins t) fs.
Proof.
  intros allow to_day exs hos sched t evs fs bl HE WF RUN Hout Hintra Hdust Hcut HB.
  destruct (balances_spec _ _ _ _ _ _ HB) as (_ & _ & _ & _ & _ & Htot). rewrite Htot. clear Htot.
  change (shown_txns to_day t) with (take_until txn_day to_day (replay_order t)).
  rewrite (take_until_all txn_day to_day _ Hcut), net_total_all.
  rewrite (unsold_eq _ _ _ _ WF RUN), (disposed_total _ _ HE).
  rewrite (sumZ_map_ext_in o_crypto_out_with_fee (fun a => o_crypto_out_no_fee a + o_crypto_fee a) _ Hout).
  rewrite sumZ_filter_if.
  assert (E : sumZ (map (fun a => if intra_is_taxable a then x_crypto_fee a else 0) (t_intras t)) =
              sumZ (map (fun a => x_crypto_sent a - x_crypto_received a) (t_intras t))).
  { apply sumZ_map_ext_in. intros a Ha. rewrite <- (Hintra a Ha).
    destruct (intra_is_taxable a) eqn:T; [reflexivity|].
    destruct (Z.eq_dec (x_crypto_fee a) 0) as [Hz|Hnz]; [lia|]. rewrite (Hdust a Ha Hnz) in T. discriminate T. }
  rewrite E. lia.
Qed.

(** with the rule of the source (fee > 0 on the grid: [no_dust_fee_of_nonneg]) no hypothesis about dust is left *)
Theorem c07_reconciliation : forall allow to_day exs hos sched t fs bl,
  fractions_of gen_always_repush sched t = Ok fs ->
  (forall evs, taxable_events t = Ok evs -> wf (t_ins t) sched (map event_of evs)) ->
  outs_consistent t -> intras_consistent t -> fees_nonneg t -> no_cut to_day t ->
  balances allow to_day exs hos t = Ok bl ->
  sumZ (map b_final bl) = unsold (t_ins t) fs.
Proof.
  intros allow to_day exs hos sched t fs bl HF HW Hout Hintra Hnn. unfold fractions_of in HF.
  destruct (taxable_events t) as [evs|e] eqn:HE; [|discriminate HF].
  apply (c07_reconciliation_core allow to_day exs hos sched t evs fs bl HE (HW evs eq_refl) HF Hout Hintra (no_dust_fee_of_nonneg t Hnn)).
Qed.

(** for histories that went through the constructors the transfer fees are consistent by construction *)
Lemma mk_intra_consistent r a : mk_intra r = Ok a -> x_crypto_fee a = x_crypto_sent a - x_crypto_received a.
Proof.
  unfold mk_intra. cbv zeta. crunch; intros [= <-]; cbn [x_crypto_fee x_crypto_sent x_crypto_received]; reflexivity.
Qed.

Lemma build_intras_consistent h t : build h = Ok t -> intras_consistent t.
Proof.
  intros Hb a Ha. destruct (in_intra_raw h t Hb a Ha) as (r & _ & Hr). exact (mk_intra_consistent r a Hr).
Qed.

(** end to end: constructors, taxable events, matcher, balances *)
Theorem c07_reconciliation_hist : forall allow to_day exs hos sched h t fs bl,
  build h = Ok t ->
  in_rows_increasing h -> amounts_positive h -> NoDup (map fst sched) ->
  (forall evs, taxable_events t = Ok evs -> hist_same_instant_same_year evs /\ hist_sched_covers sched evs) ->
  fractions_of gen_always_repush sched t = Ok fs ->
  outs_consistent t -> no_cut to_day t ->
  balances allow to_day exs hos t = Ok bl ->
  sumZ (map b_final bl) = unsold (t_ins t) fs.
Proof.
  intros allow to_day exs hos sched h t fs bl Hb Hinc Hpos Hnd Hev HF Hout Hcut HB.
  apply (c07_reconciliation allow to_day exs hos sched t fs bl HF); auto.
  - intros evs HE. destruct (Hev evs HE) as [H1 H2]. exact (pipeline_wf h sched t evs Hb HE Hinc Hpos H1 H2 Hnd).
  - exact (build_intras_consistent h t Hb).
  - exact (built_fee_nonneg h t Hb).
Qed.

(** * non-vacuity: history A of L4Examples.v (two exchanges, two holders, a fee-bearing transfer, income) meets every
    hypothesis of the end-to-end theorem; both sides are 2.8 coins *)
Lemma same_offset_same_year evs : (forall e, In e evs -> off_s (t_ts e) = 0) -> hist_same_instant_same_year evs.
Proof.
  intros H e e' He He' Hus. unfold t_us in Hus. pose proof (H e He) as H1. pose proof (H e' He') as H2.
  destruct (t_ts e) as [u o], (t_ts e') as [u' o']. cbn [utc_us off_s] in *. subst. reflexivity.
Qed.

Example hA_rows_increasing : in_rows_increasing hA.
Proof. intros i j d Hij. cbn [hA h_ins length] in *. destruct i as [|[|[|i]]], j as [|[|[|j]]]; cbn; lia. Qed.
Example hA_amounts_positive : amounts_positive hA.
Proof. intros r Hr. cbn [hA h_ins In] in Hr. repeat (destruct Hr as [<-|Hr]; [reflexivity|]). destruct Hr. Qed.
Example hA_events_ok : forall evs, taxable_events tA = Ok evs -> hist_same_instant_same_year evs /\ hist_sched_covers schedA evs.
Proof.
  intros evs HE. vm_compute in HE. injection HE as <-. split.
  - apply same_offset_same_year. intros e He. cbn [In] in He. repeat (destruct He as [<-|He]; [reflexivity|]). destruct He.
  - intros e He. exists 1970, Fifo. split; [left; reflexivity|]. cbn [In] in He.
    repeat (destruct He as [<-|He]; [vm_compute; discriminate|]). destruct He.
Qed.
Example tA_outs_consistent : outs_consistent tA.
Proof. intros a Ha. cbn [tA t_outs In] in Ha. repeat (destruct Ha as [<-|Ha]; [reflexivity|]). destruct Ha. Qed.
Example tA_fees_nonneg : fees_nonneg tA.
Proof. intros a Ha. cbn [tA t_intras In] in Ha. repeat (destruct Ha as [<-|Ha]; [vm_compute; discriminate|]). destruct Ha. Qed.
Example tA_no_cut : no_cut 100000 tA.
Proof.
  intros x Hx. vm_compute in Hx. repeat (destruct Hx as [<-|Hx]; [vm_compute; discriminate|]). destruct Hx.
Qed.
Example tA_holders_ok : holders_ok tA.
Proof.
  intros x Hx. vm_compute in Hx.
  repeat (destruct Hx as [<-|Hx]; [cbn [txn_holders_ok i_holder o_holder x_from_holder x_to_holder]; unfold holder_ok; lia|]). destruct Hx.
Qed.
Example tA_balances : balances false 100000 exsA hosA tA = Ok (cd_balances cdA).
Proof. vm_compute. reflexivity. Qed.

Example c07_reconciliation_instance : sumZ (map b_final (cd_balances cdA)) = unsold (t_ins tA) fsA.
Proof.
  apply (c07_reconciliation_hist false 100000 exsA hosA schedA hA tA fsA (cd_balances cdA)).
  - exact tA_built.
  - exact hA_rows_increasing.
  - exact hA_amounts_positive.
  - repeat constructor. intros [].
  - exact hA_events_ok.
  - exact fsA_matched.
  - exact tA_outs_consistent.
  - exact tA_no_cut.
  - exact tA_balances.
Qed.
Example c07_reconciliation_value : unsold (t_ins tA) fsA = 28 * U / 10 /\ holder_total 0 (cd_balances cdA) = 18 * U / 10 /\
  holder_total 1 (cd_balances cdA) = U.
Proof. vm_compute. repeat split; reflexivity. Qed.

(** * the hypotheses are needed *)
(** finding F8 (repaired): under the rule `fiat value of the fee > 0 at 13 decimals` a transfer fee of 1e-11 coins at
    price 1e-8 (worth 1e-19 < 5e-14) was not a taxable event, and the lots kept what the balances had lost.  Stated on the
    pipeline under that explicit rule ([fractions_of_by intra_is_taxable_fiat]); history [hDust] of Proofs/TransferFee.v *)
Theorem c07_reconciliation_dust_refuted : exists h sched t fs bl,
  build h = Ok t /\ fractions_of_by intra_is_taxable_fiat gen_always_repush sched t = Ok fs /\
  balances false 100000 exsA hosA t = Ok bl /\
  outs_consistent t /\ intras_consistent t /\ fees_nonneg t /\ no_cut 100000 t /\
  sumZ (map b_final bl) = unsold (t_ins t) fs - 1.
Proof.
  destruct (build hDust) as [t|] eqn:B; [|vm_compute in B; discriminate B].
  destruct (fractions_of_by intra_is_taxable_fiat gen_always_repush schedA t) as [fs|] eqn:F;
    [|vm_compute in B; injection B as <-; vm_compute in F; discriminate F].
  destruct (balances false 100000 exsA hosA t) as [bl|] eqn:L; [|vm_compute in B; injection B as <-; vm_compute in L; discriminate L].
  exists hDust, schedA, t, fs, bl. split; [exact B|]. split; [exact F|]. split; [exact L|].
  vm_compute in B. injection B as <-. vm_compute in F. injection F as <-. vm_compute in L. injection L as <-.
  split; [intros a []|]. split; [intros a [<-|[]]; reflexivity|]. split; [intros a [<-|[]]; vm_compute; discriminate|].
  split; [intros x Hx; vm_compute in Hx; repeat (destruct Hx as [<-|Hx]; [vm_compute; discriminate|]); destruct Hx|].
  vm_compute. reflexivity.
Qed.

(** the same history under the rule of the source reconciles: the fee is taken from the lot *)
Definition fsDust : list fraction :=
  Eval vm_compute in match fractions_of gen_always_repush schedA tDust with Ok fs => fs | Err _ => [] end.
Definition blDust : list balance :=
  Eval vm_compute in match balances false 100000 exsA hosA tDust with Ok bl => bl | Err _ => [] end.
Example c07_dust_fee_reconciles_now :
  build hDust = Ok tDust /\ fractions_of gen_always_repush schedA tDust = Ok fsDust /\ balances false 100000 exsA hosA tDust = Ok blDust /\
  map (fun f => (f_ev f, f_lot f, f_amt f)) fsDust = [(2, Some 1, 1)] /\
  sumZ (map b_final blDust) = unsold (t_ins tDust) fsDust /\ unsold (t_ins tDust) fsDust = 1 * U - 1.
Proof. vm_compute. repeat split; reflexivity. Qed.

(** a supplied crypto_out_with_fee that is not amount + fee is what the matcher consumes, while the balances use amount + fee *)
Definition hIncons : hist :=
  {| h_ins := [ r_in 1 18000 0 0 BUY (100 * U) (5 * U) ];
     h_outs := [ {| ro_row := 2; ro_ts := noon 18010; ro_exch := 0; ro_holder := 0; ro_type := SELL; ro_spot := 100 * U;
                    ro_crypto_out_no_fee := 1 * U; ro_crypto_fee := 0; ro_crypto_out_with_fee := Some (2 * U);
                    ro_fiat_out_no_fee := None; ro_fiat_fee := None |} ];
     h_intras := [] |}.
Theorem c07_reconciliation_needs_consistent_outs : exists h sched t fs bl,
  build h = Ok t /\ fractions_of gen_always_repush sched t = Ok fs /\ balances false 100000 exsA hosA t = Ok bl /\
  fees_nonneg t /\ no_cut 100000 t /\ sumZ (map b_final bl) <> unsold (t_ins t) fs.
Proof.
  destruct (build hIncons) as [t|] eqn:B; [|vm_compute in B; discriminate B].
  destruct (fractions_of gen_always_repush schedA t) as [fs|] eqn:F; [|vm_compute in B; injection B as <-; vm_compute in F; discriminate F].
  destruct (balances false 100000 exsA hosA t) as [bl|] eqn:L; [|vm_compute in B; injection B as <-; vm_compute in L; discriminate L].
  exists hIncons, schedA, t, fs, bl. split; [exact B|]. split; [exact F|]. split; [exact L|].
  vm_compute in B. injection B as <-. vm_compute in F. injection F as <-. vm_compute in L. injection L as <-.
  split; [intros a []|].
  split; [intros x Hx; vm_compute in Hx; repeat (destruct Hx as [<-|Hx]; [vm_compute; discriminate|]); destruct Hx|].
  vm_compute. discriminate.
Qed.
