(** C11 (b): a rendered data row of a valid typed source row parses to the constructor applied to the
    row's own field values -- whatever the column layout and the junk. *)
From RP2V Require Import Base.Prelude Base.Time Base.Dec Base.Sorting Model.Types Model.Generated Model.Txn Model.Parser Model.Render
  Proofs.ParserLookup.
Open Scope Z_scope.

Lemma args_of_mapped h fc f : mapped h f = true -> args_of h fc f = ACell (fc f).
Proof. unfold args_of. intros ->. reflexivity. Qed.

Lemma notes_ok_args' h f fc : notes_cell_ok (fc f) = true -> notes_ok (args_of h fc f) = true.
Proof. unfold args_of, notes_cell_ok. destruct (mapped h f); auto. Qed.

Lemma optional_num_cell o : oden_ok o = true -> optional_num (ACell (onum_cell o)) = Ok (option_map conv o).
Proof.
  unfold optional_num. destruct o as [q|]; simpl; [|reflexivity]. unfold den_ok. intro H. apply Z.ltb_lt in H.
  destruct (snd q <=? 0) eqn:E2; [apply Z.leb_le in E2; lia|]. reflexivity.
Qed.

Ltac split_ands H :=
  repeat match type of H with (_ && _ = true) => let H2 := fresh "Hk" in apply andb_true_iff in H; destruct H as [H H2] end.

Lemma create_in_render cfg asset ai rowno w s junk r :
  wf_header (pc_in cfg) w -> (forall f, In f gen_in_mandatory -> mapped (pc_in cfg) f = true) ->
  str_index asset (pc_assets cfg) 0 = Some ai -> srow_ok (SIn s) = true -> raw_of_in cfg rowno s = Some r ->
  create_in cfg rowno (render_row (pc_in cfg) w (in_cell asset s) junk) = Ok r.
Proof.
  intros WF M A OK R. unfold create_in. rewrite row_not_too_short by assumption. unfold create_in_args.
  rewrite !(get_arg_render _ _ _ _ _ WF).
  rewrite (args_of_mapped _ _ 0), (args_of_mapped _ _ 1), (args_of_mapped _ _ 2), (args_of_mapped _ _ 3), (args_of_mapped _ _ 4),
    (args_of_mapped _ _ 5), (args_of_mapped _ _ 6) by (apply M; cbv; tauto).
  change (in_cell asset s 0) with (CStr (si_ts s)). change (in_cell asset s 1) with (CStr asset).
  change (in_cell asset s 2) with (CStr (si_exch s)). change (in_cell asset s 3) with (CStr (si_holder s)).
  change (in_cell asset s 4) with (CStr (si_type s)). change (in_cell asset s 5) with (num_cell (si_spot s)).
  change (in_cell asset s 6) with (num_cell (si_cin s)).
  simpl in OK. split_ands OK.
  unfold raw_of_in in R.
  destruct (res_ts cfg (si_ts s)) as [ts|] eqn:E1; [|discriminate].
  destruct (res_exch cfg (si_exch s)) as [ex|] eqn:E2; [|discriminate].
  destruct (res_holder cfg (si_holder s)) as [ho|] eqn:E3; [|discriminate].
  destruct (ttype_of_str (si_type s)) as [ty|] eqn:E4; [|discriminate].
  inversion R; subst r; clear R.
  rewrite (ts_arg_str _ _ _ E1), (member_arg_str _ _ _ A), (member_arg_str _ _ _ E2), (member_arg_str _ _ _ E3), (ttype_arg_str _ _ E4).
  rewrite !mandatory_num_cell by assumption.
  rewrite (optional_num_args _ 7 (si_cfee s)), (optional_num_args _ 8 (si_f1 s)), (optional_num_args _ 9 (si_f2 s)),
    (optional_num_args _ 10 (si_f3 s)) by (assumption || reflexivity).
  rewrite notes_ok_args' by assumption. reflexivity.
Qed.

Lemma create_out_render cfg asset ai rowno w s junk r :
  wf_header (pc_out cfg) w -> (forall f, In f gen_out_mandatory -> mapped (pc_out cfg) f = true) ->
  str_index asset (pc_assets cfg) 0 = Some ai -> srow_ok (SOut s) = true -> raw_of_out cfg rowno s = Some r ->
  create_out cfg rowno (render_row (pc_out cfg) w (out_cell asset s) junk) = Ok r.
Proof.
  intros WF M A OK R. unfold create_out. rewrite row_not_too_short by assumption. unfold create_out_args.
  rewrite !(get_arg_render _ _ _ _ _ WF).
  rewrite (args_of_mapped _ _ 0), (args_of_mapped _ _ 1), (args_of_mapped _ _ 2), (args_of_mapped _ _ 3), (args_of_mapped _ _ 4),
    (args_of_mapped _ _ 5), (args_of_mapped _ _ 6), (args_of_mapped _ _ 7) by (apply M; cbv; tauto).
  change (out_cell asset s 0) with (CStr (so_ts s)). change (out_cell asset s 1) with (CStr asset).
  change (out_cell asset s 2) with (CStr (so_exch s)). change (out_cell asset s 3) with (CStr (so_holder s)).
  change (out_cell asset s 4) with (CStr (so_type s)). change (out_cell asset s 5) with (num_cell (so_spot s)).
  change (out_cell asset s 6) with (num_cell (so_nofee s)). change (out_cell asset s 7) with (num_cell (so_fee s)).
  simpl in OK. split_ands OK.
  unfold raw_of_out in R.
  destruct (res_ts cfg (so_ts s)) as [ts|] eqn:E1; [|discriminate].
  destruct (res_exch cfg (so_exch s)) as [ex|] eqn:E2; [|discriminate].
  destruct (res_holder cfg (so_holder s)) as [ho|] eqn:E3; [|discriminate].
  destruct (ttype_of_str (so_type s)) as [ty|] eqn:E4; [|discriminate].
  inversion R; subst r; clear R.
  rewrite (ts_arg_str _ _ _ E1), (member_arg_str _ _ _ A), (member_arg_str _ _ _ E2), (member_arg_str _ _ _ E3), (ttype_arg_str _ _ E4).
  rewrite !mandatory_num_cell by assumption.
  rewrite (optional_num_args _ 8 (so_w s)), (optional_num_args _ 9 (so_f1 s)), (optional_num_args _ 10 (so_f2 s))
    by (assumption || reflexivity).
  rewrite notes_ok_args' by assumption. reflexivity.
Qed.

Lemma create_intra_render cfg asset ai rowno w s junk r :
  wf_header (pc_intra cfg) w -> (forall f, In f gen_intra_mandatory -> mapped (pc_intra cfg) f = true) ->
  str_index asset (pc_assets cfg) 0 = Some ai -> srow_ok (SIntra s) = true -> raw_of_intra cfg rowno s = Some r ->
  create_intra cfg rowno (render_row (pc_intra cfg) w (intra_cell asset s) junk) = Ok r.
Proof.
  intros WF M A OK R. unfold create_intra. rewrite row_not_too_short by assumption. unfold create_intra_args.
  rewrite !(get_arg_render _ _ _ _ _ WF).
  rewrite (args_of_mapped _ _ 0), (args_of_mapped _ _ 1), (args_of_mapped _ _ 2), (args_of_mapped _ _ 3), (args_of_mapped _ _ 4),
    (args_of_mapped _ _ 5), (args_of_mapped _ _ 6), (args_of_mapped _ _ 7), (args_of_mapped _ _ 8) by (apply M; cbv; tauto).
  change (intra_cell asset s 0) with (CStr (sx_ts s)). change (intra_cell asset s 1) with (CStr asset).
  change (intra_cell asset s 2) with (CStr (sx_fe s)). change (intra_cell asset s 3) with (CStr (sx_fh s)).
  change (intra_cell asset s 4) with (CStr (sx_te s)). change (intra_cell asset s 5) with (CStr (sx_th s)).
  change (intra_cell asset s 6) with (onum_cell (sx_spot s)). change (intra_cell asset s 7) with (num_cell (sx_sent s)).
  change (intra_cell asset s 8) with (num_cell (sx_recv s)).
  simpl in OK. split_ands OK.
  unfold raw_of_intra in R.
  destruct (res_ts cfg (sx_ts s)) as [ts|] eqn:E1; [|discriminate].
  destruct (res_exch cfg (sx_fe s)) as [fe|] eqn:E2; [|discriminate].
  destruct (res_holder cfg (sx_fh s)) as [fh|] eqn:E3; [|discriminate].
  destruct (res_exch cfg (sx_te s)) as [te|] eqn:E4; [|discriminate].
  destruct (res_holder cfg (sx_th s)) as [th|] eqn:E5; [|discriminate].
  inversion R; subst r; clear R.
  rewrite (ts_arg_str _ _ _ E1), (member_arg_str _ _ _ A), (member_arg_str _ _ _ E2), (member_arg_str _ _ _ E3),
    (member_arg_str _ _ _ E4), (member_arg_str _ _ _ E5).
  rewrite optional_num_cell by assumption.
  rewrite !mandatory_num_cell by assumption.
  rewrite notes_ok_args' by assumption.
  simpl. reflexivity.
Qed.
