(** Auxiliary lemmas for the properties of the greedy matching specification:
    the key order, the selection function [best], sums over lot indices. *)
From Coq Require Import ZifyBool.
From RP2V Require Import Base.Prelude Base.Time Base.Dec Model.Types Model.Generated
  Model.Matcher Model.MatchSpec Model.MatchWf Model.FracSpec.
Open Scope Z_scope.

(** * key_ltb is a strict total order *)
Lemma key_ltb_irrefl k : key_ltb k k = false.
Proof. destruct k as [[a b] c]. unfold key_ltb. lia. Qed.

Lemma key_ltb_trans a b c : key_ltb a b = true -> key_ltb b c = true -> key_ltb a c = true.
Proof.
  destruct a as [[a1 a2] a3], b as [[b1 b2] b3], c as [[c1 c2] c3]. unfold key_ltb. lia.
Qed.

Lemma key_ltb_total a b : a <> b -> key_ltb a b = false -> key_ltb b a = true.
Proof.
  destruct a as [[a1 a2] a3], b as [[b1 b2] b3]. unfold key_ltb. intros Hne Hab.
  destruct (Z.eq_dec a1 b1) as [E1|N1]; [|lia].
  destruct (Z.eq_dec a2 b2) as [E2|N2]; [|lia].
  destruct (Z.eq_dec a3 b3) as [E3|N3]; [|lia].
  exfalso; apply Hne; congruence.
Qed.

(** * generic sums *)
Lemma sumZ_map_ext {A} (f g : A -> Z) l :
  (forall j, In j l -> f j = g j) -> sumZ (map f l) = sumZ (map g l).
Proof. intros H. rewrite (map_ext_in f g l H). reflexivity. Qed.

Lemma sumZ_map_change (l : list nat) (f g : nat -> Z) i :
  NoDup l -> In i l -> (forall j, j <> i -> f j = g j) ->
  sumZ (map g l) = sumZ (map f l) - f i + g i.
Proof.
  intros Hnd. induction Hnd as [|a l Hna Hnd IH]; intros Hin Hfg; [destruct Hin|].
  cbn [map sumZ]. destruct Hin as [->|Hin].
  - rewrite (sumZ_map_ext g f l); [lia|].
    intros j Hj. symmetry. apply Hfg. intros ->. contradiction.
  - rewrite IH by assumption. rewrite (Hfg a); [lia|]. intros ->. contradiction.
Qed.

Lemma sumZ_map_ge0 {A} (f : A -> Z) l : (forall j, In j l -> 0 <= f j) -> 0 <= sumZ (map f l).
Proof.
  induction l as [|a l IH]; intros H; cbn [map sumZ]; [lia|].
  assert (0 <= f a) by (apply H; left; reflexivity).
  assert (0 <= sumZ (map f l)) by (apply IH; intros j Hj; apply H; right; exact Hj). lia.
Qed.

Lemma sumZ_map_le0 {A} (f : A -> Z) l : (forall j, In j l -> f j <= 0) -> sumZ (map f l) <= 0.
Proof.
  induction l as [|a l IH]; intros H; cbn [map sumZ]; [lia|].
  assert (f a <= 0) by (apply H; left; reflexivity).
  assert (sumZ (map f l) <= 0) by (apply IH; intros j Hj; apply H; right; exact Hj). lia.
Qed.

Lemma sumZ_map_le_len {A} (f : A -> Z) l : (forall j, In j l -> f j <= 1) -> sumZ (map f l) <= Z.of_nat (length l).
Proof.
  induction l as [|a l IH]; intros H; cbn [map sumZ length]; [lia|].
  assert (f a <= 1) by (apply H; left; reflexivity).
  assert (sumZ (map f l) <= Z.of_nat (length l)) by (apply IH; intros j Hj; apply H; right; exact Hj). lia.
Qed.

Lemma sumZ_map_le_elem (l : list nat) (f : nat -> Z) i :
  NoDup l -> In i l -> (forall j, In j l -> 0 <= f j) -> f i <= sumZ (map f l).
Proof.
  intros Hnd Hin Hpos.
  pose (g := fun j => if Nat.eqb j i then 0 else f j).
  assert (Hc : sumZ (map g l) = sumZ (map f l) - f i + g i).
  { apply sumZ_map_change; auto. intros j Hj. unfold g. destruct (Nat.eqb_spec j i); congruence. }
  assert (Hg : 0 <= sumZ (map g l)).
  { apply sumZ_map_ge0. intros j Hj. unfold g. destruct (Nat.eqb j i); [lia|auto]. }
  assert (g i = 0) by (unfold g; rewrite Nat.eqb_refl; reflexivity). lia.
Qed.

Lemma sumZ_rev l : sumZ (rev l) = sumZ l.
Proof. induction l as [|a l IH]; cbn [rev sumZ]; [reflexivity|]. rewrite sumZ_app, IH. cbn [sumZ]. lia. Qed.

Lemma map_nth_seq {A B} (G : A -> B) (l : list A) d :
  map (fun i => G (nth i l d)) (seq 0 (length l)) = map G l.
Proof.
  induction l as [|a l IH]; [reflexivity|].
  cbn [length seq map nth]. f_equal. rewrite <- seq_shift, map_map. exact IH.
Qed.

Lemma sumZ_filter {A} (p : A -> bool) (g : A -> Z) l :
  sumZ (map (fun x => if p x then g x else 0) l) = sumZ (map g (filter p l)).
Proof.
  induction l as [|a l IH]; [reflexivity|]. cbn [map sumZ filter].
  destruct (p a); cbn [map sumZ]; lia.
Qed.

Lemma app_eq_len {A} (a b x y : list A) : length a = length b -> a ++ x = b ++ y -> a = b /\ x = y.
Proof.
  revert b; induction a as [|h a IH]; intros [|h' b] Hl H; cbn in *; try discriminate; auto.
  injection H as -> H. destruct (IH b) as [-> ->]; auto.
Qed.

(** * the method in force exists when the schedule covers the year *)
Lemma meth_for_some s y : forall b,
  (b <> None \/ exists y0 m, In (y0, m) s /\ y0 <= y) -> meth_for s y b <> None.
Proof.
  induction s as [|[y0 m] r IH]; intros b H; cbn [meth_for].
  - destruct H as [H|(y1 & m1 & [] & _)]; exact H.
  - apply IH. destruct H as [H|(y1 & m1 & [E|Hin] & Hle)].
    + left. destruct (y0 <=? y); [|exact H]. destruct b as [[b0 mb]|]; [|discriminate].
      destruct (b0 <? y0); discriminate.
    + injection E as -> ->. left. destruct (y1 <=? y) eqn:E1; [|lia].
      destruct b as [[b0 mb]|]; [|discriminate]. destruct (b0 <? y1); discriminate.
    + right. exists y1, m1. auto.
Qed.

(** * lots *)
Section Lots.
Variable lots : list intx.
Hypothesis Hrows : NoDup (map i_row lots).

Lemma row_inj i j : (i < length lots)%nat -> (j < length lots)%nat ->
  i_row (lotn lots i) = i_row (lotn lots j) -> i = j.
Proof.
  intros Hi Hj H. unfold lotn in H.
  rewrite <- !(map_nth i_row) in H.
  eapply (proj1 (NoDup_nth (map i_row lots) (i_row dummy_lot))); eauto; rewrite map_length; assumption.
Qed.

Lemma rank_inj m i j : (i < length lots)%nat -> (j < length lots)%nat ->
  spec_rank lots m i = spec_rank lots m j -> i = j.
Proof.
  intros Hi Hj H. unfold spec_rank in H. cbv zeta in H.
  destruct m; injection H; intros; try lia; apply row_inj; auto; lia.
Qed.

Definition availb (t : Z) (rem : list Z) (i : nat) : bool :=
  (lot_us lots i <=? t) && (nth i rem 0 >? 0).

Definition best_inv (m : meth) (t : Z) (rem : list Z) (i : nat) (b : option nat) : Prop :=
  match b with
  | None => forall j, (j < i)%nat -> availb t rem j = false
  | Some b0 => (b0 < i)%nat /\ availb t rem b0 = true /\
               forall j, (j < i)%nat -> availb t rem j = true ->
                         key_ltb (spec_rank lots m j) (spec_rank lots m b0) = false
  end.

Lemma best_aux_spec m t rem : forall k i b,
  best_inv m t rem i b -> best_inv m t rem (i + k) (best_aux lots m t rem i k b).
Proof.
  induction k as [|k IH]; intros i b Hb; cbn [best_aux].
  - rewrite Nat.add_0_r. exact Hb.
  - replace (i + S k)%nat with (S i + k)%nat by lia. apply IH.
    change ((lot_us lots i <=? t) && (nth i rem 0 >? 0)) with (availb t rem i).
    destruct (availb t rem i) eqn:Ei.
    + destruct b as [b0|].
      * destruct Hb as (Hlt & Hav & Hmin).
        destruct (key_ltb (spec_rank lots m i) (spec_rank lots m b0)) eqn:Ek.
        -- split; [lia|]. split; [exact Ei|]. intros j Hj Hja.
           destruct (Nat.eq_dec j i) as [->|Hne]; [apply key_ltb_irrefl|].
           destruct (key_ltb (spec_rank lots m j) (spec_rank lots m i)) eqn:Eji; [|reflexivity].
           rewrite <- (Hmin j); [|lia|exact Hja]. symmetry. eapply key_ltb_trans; eauto.
        -- split; [lia|]. split; [exact Hav|]. intros j Hj Hja.
           destruct (Nat.eq_dec j i) as [->|Hne]; [exact Ek|]. apply Hmin; [lia|exact Hja].
      * split; [lia|]. split; [exact Ei|]. intros j Hj Hja.
        destruct (Nat.eq_dec j i) as [->|Hne]; [apply key_ltb_irrefl|].
        rewrite Hb in Hja by lia. discriminate.
    + destruct b as [b0|].
      * destruct Hb as (Hlt & Hav & Hmin). split; [lia|]. split; [exact Hav|]. intros j Hj Hja.
        destruct (Nat.eq_dec j i) as [->|Hne]; [congruence|]. apply Hmin; [lia|exact Hja].
      * intros j Hj. destruct (Nat.eq_dec j i) as [->|Hne]; [exact Ei|]. apply Hb; lia.
Qed.

Lemma availb_true t rem i : availb t rem i = true <-> lot_us lots i <= t /\ 0 < nth i rem 0.
Proof. unfold availb. lia. Qed.

Lemma best_some m t rem i : best lots m t rem = Some i ->
  (i < length lots)%nat /\ lot_us lots i <= t /\ 0 < nth i rem 0 /\
  forall j, (j < length lots)%nat -> j <> i -> lot_us lots j <= t -> 0 < nth j rem 0 ->
            key_ltb (spec_rank lots m i) (spec_rank lots m j) = true.
Proof.
  intros H. unfold best in H.
  assert (Hs := best_aux_spec m t rem (length lots) 0 None). rewrite H in Hs. cbn [Nat.add] in Hs.
  destruct Hs as (Hlt & Hav & Hmin); [intros j Hj; lia|].
  apply availb_true in Hav. destruct Hav as [Ha1 Ha2].
  repeat split; auto. intros j Hj Hne Hjt Hjr.
  apply key_ltb_total.
  - intros E. apply Hne. eapply rank_inj; eauto.
  - apply Hmin; [exact Hj|]. apply availb_true. auto.
Qed.

Lemma best_none m t rem : best lots m t rem = None ->
  forall j, (j < length lots)%nat -> lot_us lots j <= t -> nth j rem 0 <= 0.
Proof.
  intros H. unfold best in H.
  assert (Hs := best_aux_spec m t rem (length lots) 0 None). rewrite H in Hs. cbn [Nat.add] in Hs.
  intros j Hj Hjt. assert (Hf : availb t rem j = false) by (apply Hs; [intros j' Hj'; lia|exact Hj]).
  unfold availb in Hf. lia.
Qed.

(** * sums over lot indices *)
Definition idx : list nat := seq 0 (length lots).

Lemma idx_nodup : NoDup idx.
Proof. apply seq_NoDup. Qed.
Lemma idx_in i : In i idx <-> (i < length lots)%nat.
Proof. unfold idx. rewrite in_seq. lia. Qed.

(** total remaining balance of the lots acquired at or before t *)
Definition asum (rem : list Z) (t : Z) : Z :=
  sumZ (map (fun i => if lot_us lots i <=? t then nth i rem 0 else 0) idx).
(** number of lots available at t *)
Definition cnt (rem : list Z) (t : Z) : Z :=
  sumZ (map (fun i => if availb t rem i then 1 else 0) idx).

Lemma asum_upd rem t i v : length rem = length lots -> (i < length lots)%nat -> lot_us lots i <= t ->
  asum (upd rem i v) t = asum rem t - nth i rem 0 + v.
Proof.
  intros Hl Hi Ht. unfold asum.
  rewrite (sumZ_map_change idx (fun i => if lot_us lots i <=? t then nth i rem 0 else 0)
             (fun j => if lot_us lots j <=? t then nth j (upd rem i v) 0 else 0) i).
  - rewrite nth_upd_same by lia. destruct (lot_us lots i <=? t) eqn:E; lia.
  - apply idx_nodup.
  - apply idx_in; exact Hi.
  - intros j Hj. rewrite nth_upd_other by congruence. reflexivity.
Qed.

Lemma cnt_upd_nonpos rem t i v : length rem = length lots -> (i < length lots)%nat ->
  availb t rem i = true -> v <= 0 -> cnt (upd rem i v) t = cnt rem t - 1.
Proof.
  intros Hl Hi Ha Hv. unfold cnt.
  rewrite (sumZ_map_change idx (fun j => if availb t rem j then 1 else 0)
             (fun j => if availb t (upd rem i v) j then 1 else 0) i).
  - rewrite Ha. unfold availb at 2. rewrite nth_upd_same by lia.
    destruct ((lot_us lots i <=? t) && (v >? 0)) eqn:E; lia.
  - apply idx_nodup.
  - apply idx_in; exact Hi.
  - intros j Hj. unfold availb. rewrite nth_upd_other by congruence. reflexivity.
Qed.

Lemma cnt_pos rem t i : (i < length lots)%nat -> availb t rem i = true -> 1 <= cnt rem t.
Proof.
  intros Hi Ha. unfold cnt.
  assert (H := sumZ_map_le_elem idx (fun j => if availb t rem j then 1 else 0) i idx_nodup).
  cbv beta in H. rewrite Ha in H. apply H; [apply idx_in; exact Hi|].
  intros j _. destruct (availb t rem j); lia.
Qed.

Lemma cnt_le rem t : cnt rem t <= Z.of_nat (length lots).
Proof.
  unfold cnt. replace (length lots) with (length idx) by apply seq_length.
  apply sumZ_map_le_len. intros j _. destruct (availb t rem j); lia.
Qed.

Lemma asum_nonneg rem t : (forall i, (i < length lots)%nat -> 0 <= nth i rem 0) -> 0 <= asum rem t.
Proof.
  intros H. unfold asum. apply sumZ_map_ge0. intros j Hj. apply idx_in in Hj.
  destruct (lot_us lots j <=? t); [auto|lia].
Qed.

Lemma asum_nonpos rem t :
  (forall i, (i < length lots)%nat -> lot_us lots i <= t -> nth i rem 0 <= 0) -> asum rem t <= 0.
Proof.
  intros H. unfold asum. apply sumZ_map_le0. intros j Hj. apply idx_in in Hj.
  destruct (lot_us lots j <=? t) eqn:E; [apply H; lia|lia].
Qed.

Lemma asum_elem_le rem t i : (forall i, (i < length lots)%nat -> 0 <= nth i rem 0) ->
  (i < length lots)%nat -> lot_us lots i <= t -> nth i rem 0 <= asum rem t.
Proof.
  intros Hpos Hi Ht. unfold asum.
  assert (H := sumZ_map_le_elem idx (fun i => if lot_us lots i <=? t then nth i rem 0 else 0) i idx_nodup).
  cbv beta in H. destruct (lot_us lots i <=? t) eqn:E; [|lia]. apply H; [apply idx_in; exact Hi|].
  intros j Hj. apply idx_in in Hj. destruct (lot_us lots j <=? t); [auto|lia].
Qed.

Lemma asum_all rem t : (forall i, (i < length lots)%nat -> lot_us lots i <= t) ->
  asum rem t = sumZ (map (fun i => nth i rem 0) idx).
Proof.
  intros H. unfold asum. apply sumZ_map_ext. intros j Hj. apply idx_in in Hj.
  specialize (H j Hj). destruct (lot_us lots j <=? t) eqn:E; lia.
Qed.

Lemma asum_init t : asum (map i_crypto_in lots) t = have lots t.
Proof.
  unfold asum, have, idx.
  rewrite <- (sumZ_filter (fun l => utc_us (i_ts l) <=? t) i_crypto_in lots).
  rewrite <- (map_nth_seq (fun x => if utc_us (i_ts x) <=? t then i_crypto_in x else 0) lots dummy_lot).
  apply sumZ_map_ext. intros j Hj. apply in_seq in Hj.
  unfold lot_us, lotn. destruct (utc_us (i_ts (nth j lots dummy_lot)) <=? t); [|reflexivity].
  change 0 with (i_crypto_in dummy_lot). apply map_nth.
Qed.

Lemma nth_init i : nth i (map i_crypto_in lots) 0 = i_crypto_in (lotn lots i).
Proof. change 0 with (i_crypto_in dummy_lot). apply map_nth. Qed.

End Lots.

Lemma cnt_nonneg lots rem t : 0 <= cnt lots rem t.
Proof. unfold cnt. apply sumZ_map_ge0. intros j _. destruct (availb lots t rem j); lia. Qed.
