(** Source tie of abstract_entry_set.py: the tables read from `EntrySetIterator` and `AbstractEntrySet.duplicate` / `__iter__` on
    this run (Model/GeneratedTie.v, fragment entry_set), interpreted by Model/EntrySetGen.v, give the hand-written window
    functions of Model/Computed.v that every theorem about filtered views is stated on.

    The lemmas are about the tables generated from the CURRENT source.  The scripts compute with the tables but never mention
    their text: a rewrite that keeps the meaning (`not d < from_date` for `d >= from_date`, the date bound to a local first,
    bounds precomputed as `datetime.combine(to_date, time.max)` and compared with the wall-clock time, the two bound assignments
    of `duplicate` swapped) still compiles; an edit that compares another date of the entry (UTC day, instants), cuts off the
    sub-second tail of the last day, checks the from-date only on the leading entries, swaps stop and skip, or lets
    `duplicate` keep a stale sort makes a lemma below stop compiling, and with it the property files that cite it
    (C03, C10, C13, C14). *)
From Coq Require Import List ZArith Bool Lia.
From RP2V Require Import Base.Prelude Base.Time Base.Dec Base.Sorting Base.Assoc Model.Types Model.Generated Model.GeneratedTie
  Model.Txn Model.Matcher Model.Pipeline Model.Computed Model.EntrySetGen.
Import ListNotations.
Open Scope Z_scope.

(** the three outcomes of the hand-written [iter_window] for one entry: the to-date test comes first and STOPS (finding F9:
    the list is sorted by instant, the test is on the local day), the from-date test only skips *)
Definition window_decide (from_ to_ day : Z) : it_action :=
  if to_ <? day then IA_stop else if from_ <=? day then IA_return else IA_skip.

(** all comparisons as propositions; a day number is the quotient of its time line by the length of a day, so a test against a
    precomputed datetime bound is decided by linear arithmetic over quotient and remainder *)
Ltac window_arith :=
  repeat match goal with
         | H : (_ <? _) = true |- _ => apply Z.ltb_lt in H
         | H : (_ <? _) = false |- _ => apply Z.ltb_ge in H
         | H : (_ <=? _) = true |- _ => apply Z.leb_le in H
         | H : (_ <=? _) = false |- _ => apply Z.leb_gt in H
         end;
  unfold local_day, US_PER_DAY in *;
  repeat match goal with
         | H : context [?a / 86400000000] |- _ =>
           let q := fresh "q" in let r := fresh "r" in
           pose proof (Z_div_mod_eq_full a 86400000000); pose proof (Z.mod_pos_bound a 86400000000 eq_refl);
           set (q := a / 86400000000) in *; set (r := a mod 86400000000) in *; clearbody q r
         end;
  lia.

Lemma it_decide_agrees from_ to_ (t : tstamp) : it_decide from_ to_ t = window_decide from_ to_ (local_day t).
Proof.
  unfold window_decide.
  cbv [it_decide it_decide_list gen_it_tests gen_it_fallthrough it_cond_holds it_cmp_holds it_key_val it_bound_val it_which_val].
  repeat match goal with
         | |- context [if ?c then _ else _] => let E := fresh "E" in destruct c eqn:E
         end; try reflexivity; exfalso; window_arith.
Qed.

(** the skipping loop of `__init__`, if there is one, must be the identity on every list (it is not when it tests the
    from-date: local days are not monotone along a list sorted by instant) *)
Lemma it_prelude_identity {A} (ts : A -> tstamp) from_ to_ (l : list A) :
  match gen_it_prelude with None => l | Some c => it_skip_leading ts from_ to_ c l end = l.
Proof. reflexivity. Qed.

Theorem iter_window_gen_agrees {A} (ts : A -> tstamp) from_ to_ (l : list A) :
  iter_window_gen ts from_ to_ l = iter_window (fun x => local_day (ts x)) from_ to_ l.
Proof.
  unfold iter_window_gen. rewrite it_prelude_identity.
  induction l as [|x r IH]; [reflexivity|].
  cbn [it_run iter_window]. rewrite it_decide_agrees, IH. unfold window_decide.
  destruct (to_ <? local_day (ts x)); [reflexivity|]. destruct (from_ <=? local_day (ts x)); reflexivity.
Qed.

(** loops that only have the to-date test (`take_until`) see the window with no lower bound: same stop *)
Lemma take_until_is_window {A} (day : A -> Z) from_ to_ (l : list A) :
  (forall x, In x l -> from_ <= day x) -> iter_window day from_ to_ l = take_until day to_ l.
Proof.
  induction l as [|x r IH]; intros H; [reflexivity|].
  cbn [iter_window take_until]. destruct (to_ <? day x); [reflexivity|].
  assert (E : (from_ <=? day x) = true) by (apply Z.leb_le, H; left; reflexivity).
  rewrite E, IH; [reflexivity|]. intros y Hy. apply H. right. exact Hy.
Qed.

(** the list is sorted by the instant (aware datetimes), as [Sorting]/[Pipeline] assume *)
Lemma es_sort_key_is_instant (t : tstamp) : it_key_val gen_es_sort_key t = utc_us t.
Proof. reflexivity. Qed.

(** ---------- duplicate: new bounds, and ALWAYS re-sorted under the new to-date, whatever the state of the original *)
Lemma duplicate_gen_agrees from_arg to_arg (st : es_state) :
  duplicate_gen from_arg to_arg st = {| es_from := from_arg; es_to := to_arg; es_sorted := true; es_derived_to := Some to_arg |}.
Proof. destruct st as [f t [|] d]; reflexivity. Qed.

Lemma iter_keeps_sorted_state (st : es_state) : es_sorted st = true -> iter_state_gen st = st.
Proof. destruct st as [f t s d]; cbn; intros ->; reflexivity. Qed.

(** what a loop over `s.duplicate(from_date, to_date)` sees: the window of the hand model, with the derived fields (fraction
    numbering) recomputed under the window's to-date -- [numbering to_day] in [Computed.compute] *)
Theorem window_view_gen_agrees {A} (ts : A -> tstamp) from_arg to_arg (st : es_state) (l : list A) :
  window_view_gen ts from_arg to_arg st l = (iter_window (fun x => local_day (ts x)) from_arg to_arg l, Some to_arg).
Proof.
  unfold window_view_gen. rewrite duplicate_gen_agrees, iter_keeps_sorted_state by reflexivity.
  cbn [es_from es_to es_derived_to]. rewrite iter_window_gen_agrees. reflexivity.
Qed.

(** the statements the property files cite *)
Definition entry_window_agrees : Prop :=
  (forall (A : Type) (ts : A -> tstamp) from_ to_ (l : list A),
     iter_window_gen ts from_ to_ l = iter_window (fun x => local_day (ts x)) from_ to_ l) /\
  (forall t, it_key_val gen_es_sort_key t = utc_us t).
Lemma entry_window_gen_agrees : entry_window_agrees.
Proof. exact (conj (fun A => @iter_window_gen_agrees A) es_sort_key_is_instant). Qed.

Definition window_copy_agrees : Prop :=
  forall (A : Type) (ts : A -> tstamp) from_arg to_arg (st : es_state) (l : list A),
    window_view_gen ts from_arg to_arg st l = (iter_window (fun x => local_day (ts x)) from_arg to_arg l, Some to_arg).
Lemma window_copy_gen_agrees : window_copy_agrees.
Proof. exact (fun A => @window_view_gen_agrees A). Qed.

(** non-vacuity / F9 on the table: two entries sorted by instant, the first one written with +14:00 falls on the next local
    day; with that day excluded the traversal STOPS there and the second entry (inside the window) is never seen *)
Example window_stops_at_first_late_local_day :
  let a := {| utc_us := 86400000000 - 3600000000; off_s := 50400 |} in     (* 1970-01-01T23:00Z written as 1970-01-02T13:00+14:00 *)
  let b := {| utc_us := 86400000000 - 1800000000; off_s := 0 |} in         (* 1970-01-01T23:30Z *)
  iter_window_gen (fun t => t) 0 0 [a; b] = [] /\ iter_window_gen (fun t => t) 0 0 [b] = [b].
Proof. split; reflexivity. Qed.
