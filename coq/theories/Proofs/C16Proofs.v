(** Proofs for C16 over the control-flow model of a run (repair-independent lemmas: Proofs/RunLemmas.v). *)
From Coq Require Import Permutation.
From RP2V Require Import Base.Prelude Base.Sorting Model.Types.
From RP2V Require Import Model.Generated Model.MainRun Proofs.RunLemmas.
Open Scope Z_scope.

(** ---- finite facts about the regenerated tables (decided by computation) *)
Definition country_langs_from_inventory (c : country) : list str :=
  flat_map (fun e => match e with (d, stem, _) =>
    if str_eqb d (country_iso c) then
      flat_map (fun g => let p := gen_template g ++ [c_us] in
                         if str_eqb (firstn (length p) stem) p then [skipn (length p) stem] else []) all_gens
    else [] end) template_inventory.

(** every language for which a country ships at least one template is shipped completely: catalogue present,
    and a usable template (with its legend sheet) for every generator of the country *)
Definition templates_complete : bool :=
  forallb (fun c => forallb (shipped c) (country_langs_from_inventory c)) all_countries.

Lemma templates_complete_ok : templates_complete = true.
Proof. vm_compute. reflexivity. Qed.

Lemma shipped_template c lang g :
  shipped c lang = true -> In g (country_generators c) -> template_usable c g lang = true /\ str_in lang locale_inventory = true.
Proof.
  unfold shipped. intros H Hg. apply andb_true_iff in H as [H1 H2].
  rewrite forallb_forall in H2. auto.
Qed.

Lemma template_usable_exists c g lang : template_usable c g lang = true -> template_exists c g lang = true.
Proof. unfold template_usable, template_exists. destruct (template_entry c g lang) as [[[? ?] ?]|]; auto. Qed.

Theorem template_exists_all : forall c lang g,
  In lang (country_langs_from_inventory c) -> In g (country_generators c) ->
  template_exists c g lang = true /\ template_usable c g lang = true /\ In lang locale_inventory.
Proof.
  intros c lang g Hl Hg.
  pose proof templates_complete_ok as H. unfold templates_complete in H.
  rewrite forallb_forall in H. specialize (H c (all_countries_in c)).
  rewrite forallb_forall in H. specialize (H lang Hl).
  destruct (shipped_template c lang g H Hg) as [H1 H2].
  split; [apply template_usable_exists; exact H1|]. split; auto. apply str_in_In; exact H2.
Qed.

(** every country other than JP ships its default language; JP does not (finding F6) *)
Lemma default_language_shipped : forall c, c <> JP -> shipped c (country_default_language c) = true.
Proof. intros [] H; try congruence; vm_compute; reflexivity. Qed.

Lemma jp_default_language_not_shipped : shipped JP (country_default_language JP) = false.
Proof. vm_compute. reflexivity. Qed.

(** every country ships at least one language *)
Lemma some_language_shipped : forall c, exists lang, shipped c lang = true.
Proof.
  intros c. assert (H : existsb (shipped c) locale_inventory = true) by (destruct c; vm_compute; reflexivity).
  apply existsb_exists in H as [l [_ Hl]]. eauto.
Qed.

(** the repairs the statement relies on are present in the tree the tables were generated from *)
Lemma single_schedule_any_year : gen_single_schedule_any_year = true.
Proof. reflexivity. Qed.
Lemma summary_link_guarded : gen_summary_link_guarded = true.
Proof. reflexivity. Qed.

(** the transaction types a taxable event can have (everything except BUY) *)
Definition taxable_types : list ttype :=
  [AIRDROP; DONATE; FEE; GIFT; HARDFORK; INCOME; INTEREST; LOST; MINING; MOVE; SELL; STAKING; WAGES].
Lemma us_types_cover : forallb (fun t => ttype_in t tax_us_types) taxable_types = true.
Proof. vm_compute. reflexivity. Qed.
Lemma ie_types_cover : forallb (fun t => ttype_in t tax_ie_types) taxable_types = true.
Proof. vm_compute. reflexivity. Qed.

Lemma default_method_is_plugin c : str_in (meth_name (country_default_method c)) method_plugins = true.
Proof. destruct c; vm_compute; reflexivity. Qed.

(** ---- the run *)
Definition expected_label (c : country) (o : options) (cf : config) : str :=
  match o_method o, cf_sched cf with
  | Some m, _ => m
  | None, [] => meth_name (country_default_method c)
  | None, [(_, m)] => m
  | None, _ => s_mixed
  end.

Record supported (c : country) (o : options) : Prop := {
  sup_method : match o_method o with Some m => str_in m (accepted_method_names c) = true | None => True end;
  sup_lang : shipped c (language c o) = true;
  sup_window : o_from o <= o_to o;
  sup_plugin : o_plugin o = false }.

Definition asset_valid (o : options) (inp : list asset_facts) (a : str) : Prop :=
  exists f, facts_of inp a = Some f /\ af_present f = true /\ (o_neg o = true \/ af_negative f = false)
            /\ Forall (fun t => In t taxable_types) (af_event_types f).

Record valid_run (c : country) (o : options) (cf : config) (inp : list asset_facts) : Prop := {
  val_one_source : o_method o = None \/ cf_sched cf = [];
  val_sched_names : Forall (fun e => str_in (snd e) method_plugins = true) (cf_sched cf);
  val_assets : Forall (asset_valid o inp) (assets_to_process o cf) }.

(** the conditions under which the code as it is aborts although options and input are fine
    (known findings F7 and F12; F6 is the statement that JP's default language is not shipped) *)
Record known_conditions_absent (c : country) (o : options) (cf : config) (inp : list asset_facts) : Prop := {
  kc_jp_window : ~ (c = JP /\ o_from o <> MIN_DAY /\ o_to o <> MAX_DAY);
  kc_holders : Forall (fun f => af_holders f <= 21) (processed_facts o cf inp) }.

Lemma schedule_ok c o cf : (o_method o = None \/ cf_sched cf = []) ->
  exists s, schedule c o cf = SchedOk s /\ s <> [] /\ method_label s = Some (expected_label c o cf) /\
            (Forall (fun e => str_in (snd e) method_plugins = true) (cf_sched cf) ->
             match o_method o with Some m => str_in m method_plugins = true | None => True end ->
             forallb (fun e => str_in (snd e) method_plugins) s = true).
Proof.
  intros H. unfold schedule, expected_label, method_label. rewrite single_schedule_any_year.
  destruct (o_method o) as [m|] eqn:Em; destruct (cf_sched cf) as [|[y n] t] eqn:Es.
  - eexists; split; [reflexivity|]. split; [congruence|]. split; [reflexivity|]. intros _ Hm. cbn [forallb snd]. rewrite Hm; reflexivity.
  - destruct H; congruence.
  - eexists; split; [reflexivity|]. split; [congruence|]. split; [reflexivity|]. intros _ _. cbn [forallb snd].
    rewrite default_method_is_plugin; reflexivity.
  - eexists; split; [reflexivity|]. split; [congruence|]. split.
    + destruct t as [|[? ?] ?]; reflexivity.
    + intros HF _. apply forallb_forall. rewrite Forall_forall in HF. exact HF.
Qed.

Lemma run_generators_ok c o lang s inp label : forall gs written,
  undiscovered c = [] ->
  (forall g, In g gs -> run_generator c o lang s inp g = Some (output_name o label g)) ->
  run_generators c o lang s inp gs written = (0, written ++ map (output_name o label) gs).
Proof.
  induction gs as [|g gs IH]; intros written Hu H; simpl.
  - rewrite Hu, app_nil_r; reflexivity.
  - rewrite (H g (or_introl eq_refl)). rewrite IH; auto.
    + rewrite <- app_assoc; reflexivity.
    + intros g' Hg'; apply H; right; exact Hg'.
Qed.

Lemma types_covered_ok types f : forallb (fun t => ttype_in t types) taxable_types = true ->
  Forall (fun t => In t taxable_types) (af_event_types f) -> types_covered types f = true.
Proof.
  intros Hc Hf. unfold types_covered. apply forallb_forall. intros t Ht.
  rewrite forallb_forall in Hc. apply Hc. rewrite Forall_forall in Hf. auto.
Qed.

Lemma run_eq c o cf inp s :
  match o_method o with Some m => negb (str_in m (accepted_method_names c)) | None => false end = false ->
  str_in (language c o) locale_inventory = true -> (o_to o <? o_from o) = false -> schedule c o cf = SchedOk s ->
  forallb (fun e => str_in (snd e) method_plugins) s = true -> o_plugin o = false ->
  forallb (asset_computes o inp) (assets_to_process o cf) = true ->
  run c o cf inp = run_generators c o (language c o) s (processed_facts o cf inp) (discovery c) [].
Proof.
  intros H0 H1 H2 H3 H4 H5 H6. unfold run. cbv zeta. rewrite H0, H1, H2, H3, H4, H5, H6. reflexivity.
Qed.

Theorem run_total : forall c o cf inp,
  supported c o -> valid_run c o cf inp -> known_conditions_absent c o cf inp ->
  run c o cf inp = (0, map (output_name o (expected_label c o cf)) (discovery c)).
Proof.
  intros c o cf inp [Hm Hl Hw Hp] [H1 H2 H3] [K1 K2].
  destruct (discovery_spec c) as [Hd [Hu _]].
  destruct (schedule_ok c o cf H1) as [s [Hs [Hne [Hlab Hnames]]]].
  assert (Hbad : match o_method o with Some m => negb (str_in m (accepted_method_names c)) | None => false end = false).
  { destruct (o_method o); auto. rewrite Hm; reflexivity. }
  assert (Hloc : str_in (language c o) locale_inventory = true).
  { unfold shipped in Hl. apply andb_true_iff in Hl as [? _]; auto. }
  assert (Hwin : (o_to o <? o_from o) = false) by (apply Z.ltb_ge; lia).
  assert (Hnm : forallb (fun e => str_in (snd e) method_plugins) s = true).
  { apply Hnames; auto. destruct (o_method o) as [m|]; auto. unfold accepted_method_names in Hm. apply str_in_filter in Hm; exact Hm. }
  assert (Hassets : forallb (asset_computes o inp) (assets_to_process o cf) = true).
  { apply forallb_forall. intros a Ha. rewrite Forall_forall in H3. destruct (H3 a Ha) as [f [Hf [Hpres [Hneg _]]]].
    unfold asset_computes. rewrite Hf, Hpres. destruct Hneg as [-> | ->]; simpl; auto. apply orb_true_r. }
  rewrite (run_eq c o cf inp s Hbad Hloc Hwin Hs Hnm Hp Hassets).
  rewrite (run_generators_ok c o (language c o) s (processed_facts o cf inp) (expected_label c o cf)); auto.
  intros g Hg. unfold run_generator.
  assert (Hjp : (gen_eqb g GTaxJP && gen_jp_rejects_from_and_to && negb (o_from o =? MIN_DAY) && negb (o_to o =? MAX_DAY))%bool = false).
  { destruct (gen_eqb g GTaxJP) eqn:Eg; [|reflexivity].
    apply gen_eqb_eq in Eg; subst g.
    assert (c = JP). { apply Hd in Hg. destruct c; simpl in Hg; intuition congruence. }
    destruct (o_from o =? MIN_DAY) eqn:E1; [destruct gen_jp_rejects_from_and_to; reflexivity|].
    destruct (o_to o =? MAX_DAY) eqn:E2; [destruct gen_jp_rejects_from_and_to; reflexivity|].
    exfalso; apply K1. apply Z.eqb_neq in E1, E2. auto. }
  rewrite Hjp.
  destruct (shipped_template c (language c o) g Hl (proj1 (Hd g) Hg)) as [Ht _].
  rewrite Ht, Hlab. simpl negb. cbv iota.
  assert (Hfail : generator_fails_on_input g (processed_facts o cf inp) = false).
  { assert (Hfacts : forall f, In f (processed_facts o cf inp) -> Forall (fun t => In t taxable_types) (af_event_types f)).
    { intros f Hf. apply filter_map_in in Hf as [a [Ha Hfa]]. rewrite Forall_forall in H3.
      destruct (H3 a Ha) as [f' [Hf' [_ [_ Hty]]]]. congruence. }
    destruct g; cbn [generator_fails_on_input]; auto.
    - apply not_true_is_false. intros Hex.
      apply existsb_exists in Hex as [f [Hf Hx]]. rewrite Forall_forall in K2. specialize (K2 f Hf).
      rewrite summary_link_guarded in Hx. cbn [negb andb orb] in Hx.
      apply Z.ltb_lt in Hx. lia.
    - apply negb_false_iff, forallb_forall. intros f Hf. apply types_covered_ok; [apply us_types_cover|auto].
    - apply negb_false_iff, forallb_forall. intros f Hf. apply types_covered_ok; [apply ie_types_cover|auto]. }
  rewrite Hfail. reflexivity.
Qed.

(** every configured report is among the files written *)
Corollary run_total_all_reports : forall c o cf inp g,
  supported c o -> valid_run c o cf inp -> known_conditions_absent c o cf inp -> In g (country_generators c) ->
  fst (run c o cf inp) = 0 /\ In (output_name o (expected_label c o cf) g) (snd (run c o cf inp)).
Proof.
  intros c o cf inp g Hs Hv Hk Hg. rewrite (run_total c o cf inp Hs Hv Hk). simpl. split; auto.
  apply in_map. apply (proj1 (discovery_spec c)). exact Hg.
Qed.

(** non-vacuity: default options of rp2_us on a one-asset input meet all hypotheses *)
Example run_total_example :
  supported US opts0 /\ valid_run US opts0 cfg0 [facts0] /\ known_conditions_absent US opts0 cfg0 [facts0].
Proof.
  split; [|split].
  - constructor; [exact I | vm_compute; reflexivity | unfold opts0, MIN_DAY, MAX_DAY; simpl; lia | reflexivity].
  - constructor; simpl; auto. constructor; [|constructor]. exists facts0. repeat split; auto.
    constructor; [|constructor]. simpl; auto 20.
  - constructor; simpl.
    + intros [H _]; discriminate.
    + constructor; [|constructor]. simpl; lia.
Qed.

(** F6: rp2_jp with default options: exit 1, nothing written *)
Lemma run_refuted_jp_default_language : run JP opts0 cfg0 [facts0] = (1, []).
Proof. vm_compute. reflexivity. Qed.

(** F7: rp2_jp -g en -f .. -t ..: exit 1 after two reports were written *)
Lemma run_refuted_jp_from_and_to :
  exists files, run JP {| o_method := None; o_lang := Some s_en; o_from := 18628; o_to := 18992; o_asset := None; o_neg := false;
                          o_prefix := []; o_plugin := false |} cfg0 [facts0] = (1, files) /\ length files = 2%nat.
Proof. eexists; split; [vm_compute; reflexivity|reflexivity]. Qed.

(** F12: 22 holders with balances: the full report fails after open_positions was written *)
Lemma run_refuted_22_holders :
  exists files, run US opts0 cfg0 [{| af_name := btc; af_present := true; af_negative := false; af_event_types := [];
                                       af_hidden_year := false; af_holders := 22 |}] = (1, files) /\ length files = 1%nat.
Proof. eexists; split; [vm_compute; reflexivity|reflexivity]. Qed.

(** negative balances need -n *)
Lemma run_negative_needs_n :
  run US opts0 cfg0 [{| af_name := btc; af_present := true; af_negative := true; af_event_types := [SELL];
                        af_hidden_year := false; af_holders := 1 |}] = (1, []).
Proof. vm_compute. reflexivity. Qed.

(** what the modelled code does where a repair is absent (vacuous once the repair is in the tree):
    F10 single-entry schedule not keyed 1970, F2 from-date hiding every detail row of a summary year,
    F4 LOST under rp2_ie *)
Lemma run_without_f10_repair : gen_single_schedule_any_year = false ->
  run US opts0 {| cf_assets := [btc]; cf_sched := [(2019, meth_name Hifo)] |} [facts0] = (1, []).
Proof. intros H. vm_compute in H. first [discriminate H | vm_compute; reflexivity]. Qed.

Lemma run_without_f2_repair : gen_summary_link_guarded = false ->
  exists files, run US {| o_method := None; o_lang := None; o_from := 18779; o_to := MAX_DAY; o_asset := None; o_neg := false;
                          o_prefix := []; o_plugin := false |} cfg0
                    [{| af_name := btc; af_present := true; af_negative := false; af_event_types := [];
                        af_hidden_year := true; af_holders := 1 |}] = (1, files) /\ length files = 1%nat.
Proof. intros H. vm_compute in H. first [discriminate H | eexists; split; [vm_compute; reflexivity|reflexivity]]. Qed.

Lemma run_without_f4_repair : ttype_in LOST tax_ie_types = false ->
  exists files, run IE opts0 cfg0 [{| af_name := btc; af_present := true; af_negative := false; af_event_types := [LOST];
                                      af_hidden_year := false; af_holders := 1 |}] = (1, files) /\ length files = 2%nat.
Proof. intros H. vm_compute in H. first [discriminate H | eexists; split; [vm_compute; reflexivity|reflexivity]]. Qed.

