(** Concrete inputs for the capacity bound (finding F12) and the legend (finding F10), decided by [vm_compute]. *)
From RP2V Require Import Base.Prelude Base.Time Base.Dec Base.Sorting Base.Assoc Model.Types Model.Generated Model.Txn
  Model.Matcher Model.Pipeline Model.Computed Model.Grid Model.ReportInput Model.FullReport
  Proofs.FullReportLayout Proofs.FullReportProofs Proofs.FullReportWitness.
Open Scope Z_scope.

(** F10 *)
Lemma f10_key_error : legend_methods as_published [(2019, Hifo)] = RKeyError.
Proof. reflexivity. Qed.

(** F12: one holder more than [max_holders] (= 21 for MIN_ROWS = 40) overflows the Tax sheet, [max_holders] fit *)
Lemma f12_overflow fl : full_report fl wenv (w_holders (S (Z.to_nat max_holders))) = RIndexError.
Proof. destruct fl as [[|] [|] [|]]; vm_compute; reflexivity. Qed.
Lemma f12_fits : exists l, full_report fixed_flags wenv (w_holders (Z.to_nat max_holders)) = ROk l /\ length l = 4%nat.
Proof. eexists. split; [vm_compute; reflexivity|reflexivity]. Qed.

