(** The fraction labels "k/n" the report prints are the (index, count) that GainLossSet's numbering assigns:
    ties [cd_evfrac] / [cd_lotfrac] of [Computed.compute] (and with them the rows of the gain/loss detail table)
    to [Computed.numbering] over the fractions dated up to the to-date. *)
From RP2V Require Import Base.Prelude Base.Time Base.Dec Base.Sorting Base.Assoc Model.Types Model.Generated Model.Txn
  Model.Matcher Model.Pipeline Model.Computed Model.Grid Model.ReportInput Model.FullReport
  Proofs.FullReportLayout Proofs.FullReportProofs Proofs.FullReportCompute.
Open Scope Z_scope.

Lemma fold_num_err l e : fold_left num_step l (Err e) = Err e.
Proof. induction l as [|g t IH]; simpl; auto. Qed.

Lemma num_step_lengths s g s' : num_step (Ok s) g = Ok s' ->
  length (n_ev_fraction s') = S (length (n_ev_fraction s)) /\ length (n_lot_fraction s') = S (length (n_lot_fraction s)).
Proof.
  unfold num_step. intro H.
  destruct (if n_ev_amt s + g_amt g =? t_balance_change (g_ev g) then _ else _) as [[[a b] c]|]; [|discriminate].
  destruct (g_lot g) as [l|].
  - destruct (if aget_d 0 (i_row l) (n_lot_amt s) + g_amt g =? in_crypto_balance_change l then _ else _) as [[[x y] z]|]; [|discriminate].
    inversion H; subst; simpl. rewrite !app_length. simpl. lia.
  - inversion H; subst; simpl. rewrite !app_length. simpl. lia.
Qed.

Lemma fold_num_lengths : forall l s s', fold_left num_step l (Ok s) = Ok s' ->
  length (n_ev_fraction s') = (length (n_ev_fraction s) + length l)%nat /\
  length (n_lot_fraction s') = (length (n_lot_fraction s) + length l)%nat.
Proof.
  induction l as [|g t IH]; intros s s' H; cbn [fold_left] in H.
  - inversion H; subst. simpl. lia.
  - destruct (num_step (Ok s) g) as [s1|e] eqn:E; [|rewrite fold_num_err in H; discriminate].
    destruct (num_step_lengths _ _ _ E) as [A B]. destruct (IH _ _ H) as [C D]. simpl length. lia.
Qed.

Lemma numbering_lengths to_day gls evf lotf evt lott : numbering to_day gls = Ok (evf, lotf, evt, lott) ->
  length evf = length (take_until g_day to_day gls) /\ length lotf = length (take_until g_day to_day gls).
Proof.
  unfold numbering. intro H.
  destruct (fold_left num_step (take_until g_day to_day gls) (Ok num_init)) as [s|e] eqn:E; [|discriminate].
  destruct (fold_num_lengths _ _ _ E) as [A B]. simpl in A, B.
  destruct (match n_last_with_lot s with Some g => _ | None => _ end); [|discriminate].
  destruct (merge_totals _ _); [|discriminate]. inversion H; subst. auto.
Qed.

Section W.
Context {A B : Type} (day : A -> Z) (from_ to_ : Z).
Lemma iter_window_fst_combine : forall (a : list A) (b : list B), (length a <= length b)%nat ->
  map fst (iter_window (fun x : A * B => day (fst x)) from_ to_ (combine a b)) = iter_window day from_ to_ a.
Proof.
  induction a as [|x a IH]; intros [|y b] H; simpl in *; try reflexivity; try lia.
  destruct (to_ <? day x); [reflexivity|]. destruct (from_ <=? day x); simpl; [f_equal|]; apply IH; lia.
Qed.
Lemma iter_window_cut : forall l, iter_window day from_ to_ (take_until day to_ l) = iter_window day from_ to_ l.
Proof.
  induction l as [|x l IH]; simpl; [reflexivity|]. destruct (to_ <? day x) eqn:E; [reflexivity|].
  simpl. rewrite E. destruct (from_ <=? day x); [f_equal|]; exact IH.
Qed.
End W.

Lemma combine_map3 {X A B C} (f : X -> A) (g : X -> B) (h : X -> C) : forall l,
  combine (map f l) (combine (map g l) (map h l)) = map (fun x => (f x, (g x, h x))) l.
Proof. induction l as [|x l IH]; simpl; [reflexivity|]. f_equal. exact IH. Qed.

Lemma nth_error_combine {A B} : forall (a : list A) (b : list B) p x y,
  nth_error (combine a b) p = Some (x, y) -> nth_error a p = Some x /\ nth_error b p = Some y.
Proof.
  induction a as [|a0 a IH]; intros [|b0 b] [|p] x y H; simpl in *; try discriminate.
  - inversion H; subst; auto.
  - apply IH; exact H.
Qed.

Lemma nth_error_map_some {A B} (f : A -> B) : forall l j y, nth_error (map f l) j = Some y ->
  exists x, nth_error l j = Some x /\ y = f x.
Proof.
  induction l as [|a l IH]; intros [|j] y H; simpl in *; try discriminate.
  - inversion H; subst. eexists; split; reflexivity.
  - apply IH; exact H.
Qed.

(** the row of the j-th fraction shown carries, as event label, (index, count) = (position-th entry of numbering's
    per-fraction event indices, numbering's total for that event), where [position] is where the fraction sits in the
    list of all fractions dated up to the to-date; likewise for the lot *)
Theorem labels_are_numbering period from_day to_day allow exs hos t fs c :
  compute period from_day to_day allow exs hos t fs = Ok c ->
  exists evf lotf evt lott,
    numbering to_day (cd_all_gls c) = Ok (evf, lotf, evt, lott) /\
    forall j d, nth_error (drows c) j = Some d ->
      exists p, nth_error (take_until g_day to_day (cd_all_gls c)) p = Some (fst d) /\
                nth_error evf p = Some (fst (fst (snd d))) /\
                snd (fst (snd d)) = aget_d O (t_row (g_ev (fst d))) evt /\
                snd (snd d) = match g_lot (fst d), nth_error lotf p with
                              | Some l, Some (Some i) => Some (i, aget_d O (i_row l) lott)
                              | _, _ => None
                              end.
Proof.
  unfold compute. intro H.
  destruct (taxable_events t); [|discriminate].
  destruct (resolve_all _ _ _) as [gls0|]; [|discriminate].
  set (gls := sort_by (fun g => t_us (g_ev g)) gls0) in *.
  destruct (numbering to_day gls) as [[[[evf lotf] evt] lott]|] eqn:EN; [|discriminate].
  destruct (yearly_list _ _ _ _); [|discriminate].
  destruct (balances _ _ _ _ _); [|discriminate].
  destruct (price_per_unit _ _); [|discriminate].
  destruct (fold_left _ _ _); [|discriminate].
  inversion H; subst c; clear H. cbn [cd_all_gls].
  exists evf, lotf, evt, lott. split; [exact EN|].
  destruct (numbering_lengths _ _ _ _ _ _ EN) as [L1 L2].
  set (cut := take_until g_day to_day gls) in *.
  set (lab := combine cut (combine evf lotf)).
  set (flab := iter_window (fun x : gl * (nat * option nat) => g_day (fst x)) from_day to_day lab).
  assert (Hfst : iter_window g_day from_day to_day gls = map fst flab).
  { unfold flab, lab. rewrite iter_window_fst_combine; [unfold cut; rewrite iter_window_cut; reflexivity|].
    rewrite combine_length. rewrite L1, L2. rewrite Nat.min_id. lia. }
  unfold drows. cbn [cd_gls cd_evfrac cd_lotfrac]. fold cut. fold lab. fold flab. rewrite Hfst.
  rewrite (combine_map3 fst (fun x : gl * (nat * option nat) => nat_pair_of evt (t_row (g_ev (fst x))) (fst (snd x)))
             (fun x : gl * (nat * option nat) => match g_lot (fst x), snd (snd x) with
                                                 | Some l, Some i => Some (i, aget_d O (i_row l) lott)
                                                 | _, _ => None end) flab).
  intros j d Hj. apply nth_error_map_some in Hj. destruct Hj as [[g [i li]] [Hx ->]].
  apply nth_error_In in Hx. unfold flab in Hx. apply iter_window_in in Hx.
  apply In_nth_error in Hx. destruct Hx as [p Hp]. exists p. unfold lab in Hp.
  apply nth_error_combine in Hp. destruct Hp as [P1 P2]. apply nth_error_combine in P2. destruct P2 as [P2 P3].
  cbn [fst snd]. split; [exact P1|]. split; [exact P2|]. split; [reflexivity|].
  rewrite P3. destruct (g_lot g); [destruct li|]; reflexivity.
Qed.
