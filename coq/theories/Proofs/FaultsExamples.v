(** Non-vacuity of the position theorems of C12 on the concrete sheet of ParserExample.v. *)
From RP2V Require Import Base.Prelude Base.Time Base.Dec Base.Sorting Model.Types Model.Generated Model.Txn Model.Parser Model.Render
  Model.ConfigModel Proofs.ParserLookup Proofs.ParserRows Proofs.ParserSheet Proofs.ParserExample Proofs.FaultsCtor Proofs.FaultsSheet
  Proofs.FaultsPositions Proofs.FaultsConfig.
Open Scope Z_scope.

Definition ex_first : list block := firstn 1 ex_blocks.            (* the OUT table *)
Definition ex_acc : acc := Eval vm_compute in match expect_blocks ex_cfg (acc0 0) 1 ex_first with Ok a => a | Err _ => acc0 0 end.

Lemma ex_first_wf : wf_blocks ex_cfg ex_asset 1 ex_first.
Proof. simpl. split; [solve_block | exact I]. Qed.

(** row 2 of the IN table (after a valid row 1) names an exchange that is not configured: column 1 holds the exchange *)
Definition ex_bad_row : list cell :=
  upd (render_row (pc_in ex_cfg) 11 (in_cell ex_asset ex_in2) ex_junk) 1 (CStr [78; 111; 119; 104; 101; 114; 101]).

Example fault_in_rendered_sheet_nonvacuous :
  is_err (parse_sheet ex_cfg ex_asset 0
            (flat_map (render_block ex_cfg ex_asset) ex_first ++ [] ++ [[CStr [73; 78]]; ex_hdr]
             ++ render_data ex_cfg ex_asset TabIn 11 [(SIn ex_in1, ex_junk)] ++ ex_bad_row :: [[CStr TABLE_END]])).
Proof.
  assert (EX : exists a1, expect_rows ex_cfg ex_acc (1 + blocks_len ex_first + 0 + 2) [(SIn ex_in1, ex_junk)] = Ok a1)
    by (vm_compute; eexists; reflexivity).
  destruct EX as [a1 E1].
  apply (fault_in_rendered_sheet ex_cfg ex_asset 0 0 ex_first ex_acc TabIn [] [CStr [73; 78]] ex_hdr 11 [(SIn ex_in1, ex_junk)] a1
           ex_bad_row [[CStr TABLE_END]]).
  - vm_compute; reflexivity.
  - exact ex_first_wf.
  - simpl. repeat constructor; simpl; intuition discriminate.
  - vm_compute; reflexivity.
  - vm_compute; reflexivity.
  - intros b [<-|[]]. discriminate.
  - intros r [].
  - vm_compute; reflexivity.
  - vm_compute; reflexivity.
  - vm_compute; reflexivity.
  - solve_header.
  - solve_mand.
  - solve_rows.
  - solve_rows.
  - exact E1.
  - vm_compute; reflexivity.
  - left. intro rowno. unfold create_err. left.
    assert (RS : row_too_short (pc_in ex_cfg) ex_bad_row = false) by (vm_compute; reflexivity).
    unfold create_in. cbv zeta. rewrite RS.
    apply (create_in_args_bad ex_cfg rowno _ 2). right. right. left. split; [reflexivity|].
    unfold ex_bad_row. rewrite (get_arg_upd (pc_in ex_cfg) _ 1 _ 2); [| vm_compute; reflexivity | rewrite length_render_row; lia].
    apply member_arg_unknown. vm_compute. reflexivity.
Qed.

(** a second, EMPTY OUT table after an OUT table; and (below) after an OUT table that is itself empty *)
Example repeated_table_rejected_nonvacuous :
  is_err (parse_sheet ex_cfg ex_asset 0 (flat_map (render_block ex_cfg ex_asset) ex_first ++ [[CEmpty]] ++ [CStr [79; 117; 116]] :: [])).
Proof.
  apply (repeated_table_rejected ex_cfg ex_asset 0 0 ex_first ex_acc TabOut [[CEmpty]] [CStr [79; 117; 116]] []).
  - vm_compute; reflexivity.
  - exact ex_first_wf.
  - simpl. repeat constructor; simpl; intuition discriminate.
  - vm_compute; reflexivity.
  - eexists. split; [left; reflexivity|]. reflexivity.
  - intros r [<-|[]]. reflexivity.
  - vm_compute; reflexivity.
Qed.

(** the F11 shape itself: the first OUT table has NO data rows, a second OUT keyword follows -- rejected *)
Definition ex_empty_out : list block :=
  [ {| b_tab := TabOut; b_gap := []; b_kw := [CStr [79; 85; 84]]; b_hdr := ex_hdr; b_rows := []; b_end := [CStr TABLE_END]; b_width := 10 |} ].

Lemma ex_empty_out_wf : wf_blocks ex_cfg ex_asset 1 ex_empty_out.
Proof. simpl. split; [solve_block | exact I]. Qed.

Example repeated_after_empty_table_nonvacuous :
  is_err (parse_sheet ex_cfg ex_asset 0 (flat_map (render_block ex_cfg ex_asset) ex_empty_out ++ [] ++ [CStr [79; 85; 84]] :: [ex_hdr])).
Proof.
  apply (repeated_table_rejected ex_cfg ex_asset 0 0 ex_empty_out (acc0 0) TabOut [] [CStr [79; 85; 84]] [ex_hdr]).
  - vm_compute; reflexivity.
  - exact ex_empty_out_wf.
  - simpl. repeat constructor; simpl; intuition discriminate.
  - reflexivity.
  - eexists. split; [left; reflexivity|]. reflexivity.
  - intros r [].
  - vm_compute; reflexivity.
Qed.

(** a header section whose third line re-uses column 1 *)
Example header_fault_nonvacuous :
  is_err (validate_header TabOut ([([116; 105; 109; 101; 115; 116; 97; 109; 112], [48]); ([97; 115; 115; 101; 116], [49])]
                                  ++ ([104; 111; 108; 100; 101; 114], [32; 49]) :: [([110; 111; 116; 101; 115], [57])])).
Proof.
  eapply header_fault_at_any_position.
  - vm_compute. reflexivity.
  - right. exists 1. split; [vm_compute; reflexivity|]. right. left. vm_compute. reflexivity.
Qed.

Example no_report_nonvacuous :
  forall back, fst (front_end ES {| op_method := Some [108; 105; 102; 111]; op_from_day := 0; op_to_day := 10; op_asset := None |}
                              [] [] (fun _ => None) back) <> 0
               /\ snd (front_end ES {| op_method := Some [108; 105; 102; 111]; op_from_day := 0; op_to_day := 10; op_asset := None |}
                                 [] [] (fun _ => None) back) = [].
Proof. intro back. apply no_report_on_rejection. left. vm_compute. discriminate. Qed.
