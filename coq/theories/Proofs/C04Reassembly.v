(** C04, re-assembly in decimal arithmetic: the computed pieces add back to the whole up to an explicit bound.
    1. closed-form bound for a left-to-right 31-digit sum ([dsum]): n * 1e-30 * (sum of magnitudes);
    2. the computed pro-rated figures r_i = (F * x_i) / A of parts x_i > 0 that sum to A:
       exact rational sum of the r_i within 1.1e-30 * |F| of F (whatever n), their 31-digit sum within n * 2.2e-30 * |F|;
    3. instances: the proceeds of an event's fractions, the cost basis of a fully consumed lot's fractions. *)
From Coq Require Import List ZArith Bool Lia QArith Qabs Lqa.
From RP2V Require Import Base.Prelude Base.Dec Base.Time Model.Types Model.Generated Model.Txn Model.Matcher Model.Pipeline Model.Computed
  Model.ComputedSpec Model.NumberSpec Proofs.DecProofs Proofs.C04Proofs Proofs.FiatSumProofs.
Import ListNotations.
Local Open Scope Q_scope.

(** * 1. closed form for the rounding error of [dsum] *)
Fixpoint qabs_sum (l : list dec) : Q := match l with [] => 0 | x :: t => Qabs (to_q x) + qabs_sum t end.
Definition nq (n : nat) : Q := inject_Z (Z.of_nat n).

Lemma nq_S n : nq (S n) == nq n + 1.
Proof. unfold nq. rewrite Nat2Z.inj_succ. unfold Z.succ. rewrite inject_Z_plus. reflexivity. Qed.
Lemma nq_nonneg n : 0 <= nq n.
Proof. unfold nq. change 0 with (inject_Z 0). rewrite <- Zle_Qle. apply Nat2Z.is_nonneg. Qed.
Lemma qabs_sum_nonneg l : 0 <= qabs_sum l.
Proof. induction l as [|x l IH]; cbn [qabs_sum]; [lra|]. pose proof (Qabs_nonneg (to_q x)). lra. Qed.

Lemma partial_mag_closed : forall l s m P, 0 <= m -> 0 <= P ->
  2 * (m + nq (length l)) * EPS <= 1 -> Qabs (to_q s) <= (1 + 2 * m * EPS) * P ->
  partial_mag s l <= nq (length l) * (2 * (P + qabs_sum l)).
Proof.
  induction l as [|x l IH]; intros s m P Hm HP Hbud Hs; cbn [partial_mag length qabs_sum] in *.
  - change (nq 0) with 0. lra.
  - rewrite nq_S in *. pose proof (nq_nonneg (length l)) as Hn. pose proof (qabs_sum_nonneg l) as HA.
    pose proof (Qabs_nonneg (to_q x)) as Hx. pose proof EPS_nonneg as He.
    set (e := EPS) in *. set (n := nq (length l)) in *. set (ax := Qabs (to_q x)) in *. set (A := qabs_sum l) in *.
    assert (Hme : 2 * m * e <= 1) by nra.
    assert (Hsx : Qabs (to_q s + to_q x) <= (1 + 2 * m * e) * P + ax).
    { eapply Qle_trans; [apply Qabs_triangle|]. fold ax. lra. }
    assert (Hsx2 : Qabs (to_q s + to_q x) <= 2 * (P + ax)) by nra.
    (* the rounded partial sum *)
    pose proof (dadd_error s x) as Hd.
    assert (Hs' : Qabs (to_q (dadd s x)) <= (1 + 2 * (m + 1) * e) * (P + ax)).
    { assert (T : Qabs (to_q (dadd s x)) <= Qabs (to_q s + to_q x) + Qabs (to_q (dadd s x) - (to_q s + to_q x))).
      { assert (E : to_q (dadd s x) == (to_q s + to_q x) + (to_q (dadd s x) - (to_q s + to_q x))) by ring.
        rewrite E at 1. apply Qabs_triangle. }
      fold e in Hd. set (u := Qabs (to_q s + to_q x)) in *. set (d := Qabs (to_q (dadd s x) - (to_q s + to_q x))) in *.
      pose proof (Qabs_nonneg (to_q s + to_q x)) as Hu. fold u in Hu.
      assert (U1 : Qabs (to_q (dadd s x)) <= (1 + e) * u) by lra.
      assert (U2 : (1 + e) * u <= (1 + e) * ((1 + 2 * m * e) * P + ax)).
      { rewrite !(Qmult_comm (1 + e)). apply Qmult_le_compat_r; lra. }
      assert (K1 : 0 <= e * P) by (apply Qmult_le_0_compat; lra).
      assert (K3 : 0 <= (e * P) * (1 - 2 * m * e)) by (apply Qmult_le_0_compat; lra).
      assert (K4 : 0 <= m * e) by (apply Qmult_le_0_compat; lra).
      assert (K5 : 0 <= (m * e) * ax) by (apply Qmult_le_0_compat; lra).
      assert (K6 : 0 <= e * ax) by (apply Qmult_le_0_compat; lra).
      assert (E3 : (1 + 2 * (m + 1) * e) * (P + ax) - (1 + e) * ((1 + 2 * m * e) * P + ax) == (e * P) * (1 - 2 * m * e) + 2 * ((m * e) * ax) + e * ax) by ring.
      assert (U3 : (1 + e) * ((1 + 2 * m * e) * P + ax) <= (1 + 2 * (m + 1) * e) * (P + ax)) by lra.
      lra. }
    assert (IHs := IH (dadd s x) (m + 1) (P + ax) ltac:(lra) ltac:(lra) ltac:(fold n; fold e; lra) Hs'). fold n A in IHs.
    assert (G : n * (2 * (P + ax + A)) == n * (2 * (P + (ax + A)))) by ring.
    nra.
Qed.

(** the sum the code computes against the exact sum of the same values: n * 1e-30 * (sum of magnitudes), n <= 1e30 *)
Theorem dsum_error_closed l : 2 * nq (length l) * EPS <= 1 ->
  Qabs (to_q (dsum l) - qsum l) <= nq (length l) * (2 * EPS) * qabs_sum l.
Proof.
  intros Hb. eapply Qle_trans; [apply dsum_error|].
  assert (H := partial_mag_closed l dzero 0 0 ltac:(lra) ltac:(lra) ltac:(lra) ltac:(rewrite to_q_dzero; cbn; lra)).
  pose proof EPS_nonneg. pose proof (nq_nonneg (length l)). pose proof (qabs_sum_nonneg l).
  set (pm := partial_mag dzero l) in *. set (n := nq (length l)) in *. set (A := qabs_sum l) in *. nra.
Qed.

Lemma Qmult_le_l c a b : 0 <= c -> a <= b -> c * a <= c * b.
Proof. intros Hc H. rewrite (Qmult_comm c a), (Qmult_comm c b). apply Qmult_le_compat_r; assumption. Qed.

(** * 2. parts of a whole, pro-rated *)
Definition C11 : Q := 11 # (10 ^ 31).      (* 1.1e-30: the accuracy of one pro-rated figure (C04_proceeds_accuracy) *)

Lemma grid_ratio x A : (A <> 0)%Z -> to_q (of_grid x) / to_q (of_grid A) == inject_Z x / inject_Z A.
Proof.
  intros HA. unfold of_grid. rewrite !to_q_mk. field. split; [apply inject_Z_nz; exact HA|apply tenp_nz].
Qed.

Lemma inject_pos z : (0 < z)%Z -> 0 < inject_Z z.
Proof. intros H. change 0 with (inject_Z 0). rewrite <- Zlt_Qlt. exact H. Qed.

(** one pro-rated figure: within C11 of qF * w, w = x / A > 0 *)
Lemma prorate_one F x A r : (0 < x)%Z -> (0 < A)%Z -> ddiv (dmul F (of_grid x)) (of_grid A) = Some r ->
  let w := inject_Z x / inject_Z A in
  0 < w /\ Qabs (to_q r - to_q F * w) <= C11 * (Qabs (to_q F) * w).
Proof.
  intros Hx HA H w. pose proof (muldiv_error _ _ _ _ H) as E.
  assert (Hw : 0 < w) by (unfold w; apply Qlt_shift_div_l; [apply inject_pos; exact HA|rewrite Qmult_0_l; apply inject_pos; exact Hx]).
  split; [exact Hw|].
  assert (R : to_q F * to_q (of_grid x) / to_q (of_grid A) == to_q F * w).
  { unfold w. rewrite <- (grid_ratio x A) by lia. unfold Qdiv. ring. }
  rewrite R in E. rewrite Qabs_Qmult in E. rewrite (Qabs_pos w) in E by lra. exact E.
Qed.

Fixpoint wsum (A : Z) (xs : list Z) : Q := match xs with [] => 0 | x :: t => inject_Z x / inject_Z A + wsum A t end.
Lemma wsum_total A xs : (A <> 0)%Z -> wsum A xs == inject_Z (sumZ xs) / inject_Z A.
Proof.
  intros HA. induction xs as [|x xs IH]; cbn [wsum sumZ].
  - unfold Qdiv. change (inject_Z 0) with 0. ring.
  - rewrite IH, inject_Z_plus. field. apply inject_Z_nz. exact HA.
Qed.

Definition prorated (F : dec) (A : Z) (x : Z) (r : dec) : Prop := (0 < x)%Z /\ ddiv (dmul F (of_grid x)) (of_grid A) = Some r.

Lemma prorate_sums F A xs rs : (0 < A)%Z -> Forall2 (prorated F A) xs rs ->
  0 <= wsum A xs /\
  Qabs (qsum rs - to_q F * wsum A xs) <= C11 * (Qabs (to_q F) * wsum A xs) /\
  qabs_sum rs <= (1 + C11) * (Qabs (to_q F) * wsum A xs).
Proof.
  intros HA. induction 1 as [|x r xs rs [Hx Hr] HF IH]; cbn [wsum qsum qabs_sum].
  - split; [lra|]. split.
    + assert (E : 0 - to_q F * 0 == 0) by ring. rewrite E. cbn. assert (E2 : C11 * (Qabs (to_q F) * 0) == 0) by ring. rewrite E2. lra.
    + assert (E2 : (1 + C11) * (Qabs (to_q F) * 0) == 0) by ring. rewrite E2. lra.
  - destruct IH as (W0 & S1 & S2). destruct (prorate_one F x A r Hx HA Hr) as [Hw E1]. cbv zeta in E1.
    set (w := inject_Z x / inject_Z A) in *. set (W := wsum A xs) in *. set (f := Qabs (to_q F)) in *.
    pose proof (Qabs_nonneg (to_q F)) as Hf. fold f in Hf.
    split; [lra|]. split.
    + assert (E : to_q r + qsum rs - to_q F * (w + W) == (to_q r - to_q F * w) + (qsum rs - to_q F * W)) by ring.
      rewrite E. eapply Qle_trans; [apply Qabs_triangle|].
      assert (E2 : C11 * (f * (w + W)) == C11 * (f * w) + C11 * (f * W)) by ring. rewrite E2. lra.
    + assert (T : Qabs (to_q r) <= Qabs (to_q F * w) + Qabs (to_q r - to_q F * w)).
      { assert (E : to_q r == to_q F * w + (to_q r - to_q F * w)) by ring. rewrite E at 1. apply Qabs_triangle. }
      rewrite Qabs_Qmult, (Qabs_pos w) in T by lra. fold f in T.
      assert (E2 : (1 + C11) * (f * (w + W)) == (f * w + C11 * (f * w)) + (1 + C11) * (f * W)) by ring. rewrite E2. lra.
Qed.

(** the pieces add back to the whole: exact rational sum of the computed decimals *)
Theorem prorate_reassembly_q F A xs rs : (0 < A)%Z -> sumZ xs = A -> Forall2 (prorated F A) xs rs ->
  Qabs (qsum rs - to_q F) <= C11 * Qabs (to_q F) /\ qabs_sum rs <= (1 + C11) * Qabs (to_q F).
Proof.
  intros HA Hs HF. destruct (prorate_sums F A xs rs HA HF) as (_ & S1 & S2).
  assert (W1 : wsum A xs == 1).
  { rewrite wsum_total, Hs by lia. field. apply inject_Z_nz. lia. }
  rewrite W1 in S1, S2. rewrite !Qmult_1_r in *. split; assumption.
Qed.

(** ... and the 31-digit left-to-right sum of the computed decimals: n * 2.2e-30 * |F| *)
Definition C22 : Q := 22 # (10 ^ 31).
Theorem prorate_reassembly_dec F A xs rs : (0 < A)%Z -> sumZ xs = A -> Forall2 (prorated F A) xs rs ->
  2 * nq (length rs) * EPS <= 1 ->
  Qabs (to_q (dsum rs) - to_q F) <= nq (length rs) * C22 * Qabs (to_q F).
Proof.
  intros HA Hs HF Hb. destruct (prorate_reassembly_q F A xs rs HA Hs HF) as [S1 S2].
  pose proof (dsum_error_closed rs Hb) as D.
  assert (Hn : 1 <= nq (length rs)).
  { destruct HF as [|x r xs rs _ _]; [exfalso; cbn [sumZ] in Hs; lia|]. cbn [length]. rewrite nq_S. pose proof (nq_nonneg (length rs)). lra. }
  assert (E : to_q (dsum rs) - to_q F == (to_q (dsum rs) - qsum rs) + (qsum rs - to_q F)) by ring.
  rewrite E. eapply Qle_trans; [apply Qabs_triangle|].
  pose proof (Qabs_nonneg (to_q F)) as Hf. pose proof (qabs_sum_nonneg rs) as HA0.
  set (f := Qabs (to_q F)) in *. set (n := nq (length rs)) in *. set (M := qabs_sum rs) in *.
  set (d1 := Qabs (to_q (dsum rs) - qsum rs)) in *. set (d2 := Qabs (qsum rs - to_q F)) in *.
  assert (K1 : n * (2 * EPS) * M <= n * (2 * EPS) * ((1 + C11) * f)).
  { apply Qmult_le_l; [|exact S2]. pose proof EPS_nonneg. apply Qmult_le_0_compat; lra. }
  assert (K2 : C11 * f <= n * (C11 * f)).
  { assert (0 <= C11 * f) by (apply Qmult_le_0_compat; [discriminate|exact Hf]).
    assert (E2 : n * (C11 * f) == C11 * f + (n - 1) * (C11 * f)) by ring. rewrite E2.
    assert (0 <= (n - 1) * (C11 * f)) by (apply Qmult_le_0_compat; lra). lra. }
  assert (K3 : n * (2 * EPS) * ((1 + C11) * f) + n * (C11 * f) == n * ((2 * EPS * (1 + C11) + C11) * f)) by ring.
  assert (K4 : 2 * EPS * (1 + C11) + C11 <= C22) by (vm_compute; discriminate).
  assert (K5 : n * ((2 * EPS * (1 + C11) + C11) * f) <= n * (C22 * f)).
  { apply Qmult_le_l; [lra|]. apply Qmult_le_compat_r; assumption. }
  assert (K6 : n * C22 * f == n * (C22 * f)) by ring. rewrite K6. lra.
Qed.

(** * 3. an event's fractions, a fully consumed lot's fractions *)
From RP2V Require Import Proofs.NumberingProofs Proofs.L4Examples.
Local Open Scope Q_scope.

Lemma ddiv_grid_some n A : (A <> 0)%Z -> exists r, ddiv n (of_grid A) = Some r.
Proof.
  intros HA. destruct (ddiv n (of_grid A)) as [r|] eqn:E; [exists r; reflexivity|].
  apply ddiv_none in E. cbn [of_grid fst] in E. contradiction.
Qed.

Lemma prorated_map (fig : gl -> option dec) F A b : (A <> 0)%Z ->
  (forall g, In g b -> (0 < g_amt g)%Z /\ fig g = ddiv (dmul F (of_grid (g_amt g))) (of_grid A)) ->
  Forall2 (prorated F A) (map g_amt b) (map (fun g => odflt (fig g)) b).
Proof.
  intros HA H. induction b as [|g b IH]; cbn [map]; constructor.
  - destruct (H g (or_introl eq_refl)) as [Hp Hf]. split; [exact Hp|].
    destruct (ddiv_grid_some (dmul F (of_grid (g_amt g))) A HA) as (r & Hr). rewrite Hf, Hr. reflexivity.
  - apply IH. intros x Hx. apply H. right. exact Hx.
Qed.

Section Whole.
Variables (F : dec) (A : Z) (fig : gl -> option dec) (b : list gl).
Hypothesis Hne : b <> [].
Hypothesis Hb : forall g, In g b -> (0 < g_amt g)%Z /\ fig g = ddiv (dmul F (of_grid (g_amt g))) (of_grid A).
Hypothesis Hsum : amt_sum b = A.
Let rs := map (fun g => odflt (fig g)) b.

Lemma whole_pos : (0 < A)%Z.
Proof. rewrite <- Hsum. apply amt_sum_pos; [exact Hne|]. intros g Hg. apply Hb. exact Hg. Qed.

Theorem whole_reassembly :
  Qabs (qsum rs - to_q F) <= C11 * Qabs (to_q F) /\
  (2 * nq (length b) * EPS <= 1 -> Qabs (to_q (dsum rs) - to_q F) <= nq (length b) * C22 * Qabs (to_q F)).
Proof.
  pose proof whole_pos as HA.
  assert (HF : Forall2 (prorated F A) (map g_amt b) rs) by (apply prorated_map; [lia|exact Hb]).
  split.
  - destruct (prorate_reassembly_q F A (map g_amt b) rs HA Hsum HF) as [H1 _]. exact H1.
  - intros Hn. replace (length b) with (length rs) in * by (unfold rs; apply map_length).
    exact (prorate_reassembly_dec F A (map g_amt b) rs HA Hsum HF Hn).
Qed.
End Whole.

(** the proceeds of the fractions of one taxable event add back to the event's taxable fiat value *)
Theorem proceeds_reassembly : forall e b, b <> [] ->
  (forall g, In g b -> g_ev g = e /\ (0 < g_amt g)%Z) -> amt_sum b = t_balance_change e ->
  let rs := map (fun g => odflt (g_proceeds g)) b in
  let Fq := to_q (t_fiat_taxable e) in
  Qabs (qsum rs - Fq) <= C11 * Qabs Fq /\
  (2 * nq (length b) * EPS <= 1 -> Qabs (to_q (dsum rs) - Fq) <= nq (length b) * C22 * Qabs Fq).
Proof.
  intros e b Hne Hb Hsum. cbv zeta. apply (whole_reassembly (t_fiat_taxable e) (t_balance_change e) g_proceeds b Hne); [|exact Hsum].
  intros g Hg. destruct (Hb g Hg) as [He Hp]. split; [exact Hp|]. unfold g_proceeds. rewrite He. reflexivity.
Qed.

(** the cost bases of the fractions of a fully consumed lot add back to the lot's cost including fee *)
Theorem cost_reassembly : forall a b, b <> [] ->
  (forall g, In g b -> g_lot g = Some a /\ (0 < g_amt g)%Z) -> amt_sum b = i_crypto_in a ->
  let rs := map (fun g => odflt (g_cost g)) b in
  let Cq := to_q (i_fiat_in_with_fee a) in
  Qabs (qsum rs - Cq) <= C11 * Qabs Cq /\
  (2 * nq (length b) * EPS <= 1 -> Qabs (to_q (dsum rs) - Cq) <= nq (length b) * C22 * Qabs Cq).
Proof.
  intros a b Hne Hb Hsum. cbv zeta. apply (whole_reassembly (i_fiat_in_with_fee a) (i_crypto_in a) g_cost b Hne); [|exact Hsum].
  intros g Hg. destruct (Hb g Hg) as [Ha Hp]. split; [exact Hp|]. unfold g_cost. rewrite Ha. reflexivity.
Qed.

(** * non-vacuity: history A of L4Examples.v.  The sale of row 5 (8.1 coins) is split over the lots of rows 1 and 2;
    the lot of row 1 (10 coins) is fully consumed by the sales of rows 4 and 5 *)
Definition ev5_fracs : list gl := [nth 2 glsA gl_dflt; nth 3 glsA gl_dflt].
Definition lot1_fracs : list gl := [nth 1 glsA gl_dflt; nth 2 glsA gl_dflt].
Example proceeds_instance := proceeds_reassembly (g_ev (nth 2 glsA gl_dflt)) ev5_fracs ltac:(discriminate)
  ltac:(intros g [<-|[<-|[]]]; vm_compute; split; reflexivity) ltac:(vm_compute; reflexivity).
Example cost_instance := cost_reassembly (match g_lot (nth 1 glsA gl_dflt) with Some a => a | None => intx_dflt end) lot1_fracs ltac:(discriminate)
  ltac:(intros g [<-|[<-|[]]]; vm_compute; split; reflexivity) ltac:(vm_compute; reflexivity).
Example reassembly_budget : 2 * nq 2 * EPS <= 1.
Proof. vm_compute. discriminate. Qed.
(** the sale is worth 8 x 160 = 1280 and the lot cost 10 x 100 = 1000: here the decimal sums are exact *)
Example reassembly_values :
  to_q (dsum (map (fun g => odflt (g_proceeds g)) ev5_fracs)) == 1280 /\ to_q (dsum (map (fun g => odflt (g_cost g)) lot1_fracs)) == 1000.
Proof. vm_compute. split; reflexivity. Qed.
