(** Source tie of computed_data.py: running sums.
    For the tables generated from the CURRENT source (Model/GeneratedTie.v, fragment computed; interpreters in Model/ComputedGen.v).
    One file per concern, so that an edit of the source breaks exactly the lemmas about what it changed and the property
    files that cite them.  Overview: Proofs/ComputedGenProofs.v. *)
From Coq Require Import List ZArith Bool Lia.
From RP2V Require Import Base.Prelude Base.Time Base.Dec Base.Sorting Base.Assoc Model.Types Model.Generated Model.GeneratedTie
  Model.Txn Model.Matcher Model.Pipeline Model.Computed Model.ComputedGen.
Import ListNotations.
Open Scope Z_scope.

(** ---------- running sums (the columns "running sum" of the full report, cd_*_running of [compute]) *)
Lemma run_in_gen_agrees from_day to_day (ins : list intx) : run_in_gen from_day to_day ins = running i_crypto_in 0 ins.
Proof. reflexivity. Qed.
Lemma run_in_fee_gen_agrees from_day to_day (ins : list intx) : run_in_fee_gen from_day to_day ins = running i_crypto_fee 0 ins.
Proof. reflexivity. Qed.
Lemma run_out_gen_agrees from_day to_day (outs : list outtx) : run_out_gen from_day to_day outs = running o_crypto_out_no_fee 0 outs.
Proof. reflexivity. Qed.
Lemma run_out_fee_gen_agrees from_day to_day (outs : list outtx) : run_out_fee_gen from_day to_day outs = running o_crypto_fee 0 outs.
Proof. reflexivity. Qed.
Lemma run_intra_fee_gen_agrees from_day to_day (xs : list intratx) : run_intra_fee_gen from_day to_day xs = running x_crypto_fee 0 xs.
Proof. reflexivity. Qed.
Lemma run_gl_gen_agrees from_day to_day (gls : list gl) : run_gl_gen from_day to_day gls = running g_amt 0 gls.
Proof. reflexivity. Qed.

Definition running_sums_agree : Prop :=
  (forall from_day to_day ins, run_in_gen from_day to_day ins = running i_crypto_in 0 ins) /\
  (forall from_day to_day ins, run_in_fee_gen from_day to_day ins = running i_crypto_fee 0 ins) /\
  (forall from_day to_day outs, run_out_gen from_day to_day outs = running o_crypto_out_no_fee 0 outs) /\
  (forall from_day to_day outs, run_out_fee_gen from_day to_day outs = running o_crypto_fee 0 outs) /\
  (forall from_day to_day xs, run_intra_fee_gen from_day to_day xs = running x_crypto_fee 0 xs) /\
  (forall from_day to_day gls, run_gl_gen from_day to_day gls = running g_amt 0 gls).
Lemma running_sums_gen_agree : running_sums_agree.
Proof.
  exact (conj run_in_gen_agrees (conj run_in_fee_gen_agrees (conj run_out_gen_agrees (conj run_out_fee_gen_agrees
        (conj run_intra_fee_gen_agrees run_gl_gen_agrees))))).
Qed.
