(** Concrete inputs of the full-report model: the replays of findings F2, F3, F10, F12 (refutations of the
    properties for the generator as published) and their counterparts for the repaired behaviour,
    all decided by [vm_compute]. *)
From RP2V Require Import Base.Prelude Base.Time Base.Dec Base.Sorting Base.Assoc Model.Types Model.Generated Model.Txn
  Model.Matcher Model.Pipeline Model.Computed Model.Grid Model.ReportInput Model.FullReport
  Proofs.FullReportLayout Proofs.FullReportProofs Proofs.FullReportCompute.
Open Scope Z_scope.

Definition U : Z := 100000000000.                    (* 1.0 on the 1e-11 grid *)
Definition day_us (d : Z) : Z := d * 86400000000.
Definition D2020_01_01 : Z := 18262.
Definition D2021_01_01 : Z := 18628.
Definition D2021_02_01 : Z := 18659.
Definition D2021_03_01 : Z := 18687.
Definition D2021_06_01 : Z := 18779.

Definition w_in (row day holder : Z) : intx :=
  {| i_row := row; i_ts := {| utc_us := day_us day; off_s := 0 |}; i_exch := 0; i_holder := holder; i_type := BUY;
     i_spot := 100 * U; i_crypto_in := 2 * U; i_crypto_fee := 0;
     i_fiat_in_no_fee := (200, 0); i_fiat_in_with_fee := (200, 0); i_fiat_fee := dzero |}.
Definition w_out (row day : Z) : outtx :=
  {| o_row := row; o_ts := {| utc_us := day_us day; off_s := 0 |}; o_exch := 0; o_holder := 0; o_type := SELL;
     o_spot := 200 * U; o_crypto_out_no_fee := U; o_crypto_fee := 0; o_crypto_out_with_fee := U;
     o_fiat_out_no_fee := (200, 0); o_fiat_fee := dzero; o_fiat_out_with_fee := (200, 0) |}.

Definition wenv : fenv :=
  {| fe_texts := []; fe_legend_rows := 110; fe_legend_cols := 3; fe_summary_rows := 3; fe_summary_cols := 9; fe_extra := [] |}.
Definition s_AAA : str := [65; 65; 65].
Definition s_BBB : str := [66; 66; 66].
Definition s_BTC : str := [66; 84; 67].
Definition winput (from_day : Z) (holders : list str) (sched : list (Z * meth)) (assets : list rasset) : rinput :=
  {| rp_country := US; rp_period := 365; rp_from := from_day; rp_to := MAX_DAY; rp_allow := false;
     rp_exchanges := [[67]]; rp_holders := holders; rp_sched := sched; rp_assets := assets |}.

(** F2: BUY 2 on 2020-01-01, SELL 1 on 2021-03-01, from-date 2021-06-01 *)
Definition w_f2 : rinput :=
  winput D2021_06_01 [[66]] [(1970, Fifo)]
    [{| ra_name := s_BTC; ra_txs := {| t_ins := [w_in 3 D2020_01_01 0]; t_outs := [w_out 9 D2021_03_01]; t_intras := [] |};
        ra_fracs := [{| f_ev := 9; f_lot := Some 3; f_amt := U |}] |}].

(** F3: assets AAA and BBB share the row numbers 3, 4, 9; from-date 2021-01-01 hides each asset's 2020 lot, which in
    BBB is row 4 -- the row number of AAA's visible lot *)
Definition w_f3 : rinput :=
  winput D2021_01_01 [[66]] [(1970, Fifo)]
    [{| ra_name := s_AAA;
        ra_txs := {| t_ins := [w_in 3 D2020_01_01 0; w_in 4 D2021_02_01 0]; t_outs := [w_out 9 D2021_03_01]; t_intras := [] |};
        ra_fracs := [{| f_ev := 9; f_lot := Some 3; f_amt := U |}] |};
     {| ra_name := s_BBB;
        ra_txs := {| t_ins := [w_in 4 D2020_01_01 0; w_in 3 D2021_02_01 0]; t_outs := [w_out 9 D2021_03_01]; t_intras := [] |};
        ra_fracs := [{| f_ev := 9; f_lot := Some 4; f_amt := U |}] |}].

(** F12: n holders, one BUY each *)
Definition w_holders (n : nat) : rinput :=
  winput MIN_DAY (map (fun k => [72; 48 + Z.of_nat k / 10; 48 + Z.of_nat k mod 10]) (seq 0 n)) [(1970, Fifo)]
    [{| ra_name := s_BTC;
        ra_txs := {| t_ins := map (fun k => w_in (3 + Z.of_nat k) (D2020_01_01 + Z.of_nat k) (Z.of_nat k)) (seq 0 n); t_outs := []; t_intras := [] |};
        ra_fracs := [] |}].

Definition as_published : fflags := {| ff_clears := false; ff_guarded := false; ff_single_by_value := false |}.
Definition only_clear_missing : fflags := {| ff_clears := false; ff_guarded := true; ff_single_by_value := true |}.

Definition sheet_named (n : str) (r : fres (list sheetw)) : list cellw :=
  match r with
  | ROk l => match find (fun s => str_eqb (sw_name s) n) l with Some s => sw_writes s | None => [] end
  | _ => []
  end.
Definition ts_of_day (d : Z) : tstamp := {| utc_us := day_us d; off_s := 0 |}.
Definition n_BBB_inout : str := s_BBB ++ [32; 73; 110; 45; 79; 117; 116].
Definition n_BBB_tax : str := s_BBB ++ [32; 84; 97; 120].

(** layout-independent observations on a report: a linked timestamp cell of the Tax sheet whose target row of the
    In-Out sheet shows (column 1) another timestamp; number of linked cells *)
Definition is_link (w : cellw) : bool := match cw_val w with PLink _ _ _ => true | _ => false end.
Definition link_mismatch (io : list cellw) (w : cellw) : bool :=
  match cw_val w with
  | PLink _ r (PTs t) => match cell_at io (r - 1) 1 with PTs t' => negb (utc_us t =? utc_us t') | _ => true end
  | _ => false
  end.
Definition has_stale_link (r : fres (list sheetw)) (tax io : str) : bool :=
  existsb (link_mismatch (sheet_named io r)) (sheet_named tax r).
Definition n_links (r : fres (list sheetw)) (sheet : str) : nat := length (filter is_link (sheet_named sheet r)).
Definition shows_int (z : Z) (w : cellw) : bool := match cw_val w with PInt v => v =? z | _ => false end.

(** F3 on the generator as published: in "BBB Tax" the acquired-lot cells of BBB's only gain/loss row (the lot of
    2020-01-01, input row 4, hidden by the window) link to the row of "BBB In-Out" that AAA's visible lot (also input
    row 4) was written on -- and that row of BBB's sheet shows the lot of 2021-02-01 *)
Lemma f3_stale_link : has_stale_link (full_report only_clear_missing wenv w_f3) n_BBB_tax n_BBB_inout = true.
Proof. vm_compute. reflexivity. Qed.
(** with the dictionary emptied per asset: the event cells are still linked (to rows showing the event), the hidden lot's are not *)
Lemma f3_repaired :
  has_stale_link (full_report fixed_flags wenv w_f3) n_BBB_tax n_BBB_inout = false /\
  (0 < n_links (full_report fixed_flags wenv w_f3) n_BBB_tax < n_links (full_report only_clear_missing wenv w_f3) n_BBB_tax)%nat.
Proof. split; [vm_compute; reflexivity|vm_compute; lia]. Qed.

(** F2: the unguarded (asset, year) lookup fails; guarded, the Summary line of 2021 is written without links *)
Lemma f2_key_error : full_report {| ff_clears := true; ff_guarded := false; ff_single_by_value := true |} wenv w_f2 = RKeyError.
Proof. vm_compute. reflexivity. Qed.
Lemma f2_repaired :
  existsb (shows_int 2021) (sheet_named gen_full_msg_summary (full_report fixed_flags wenv w_f2)) = true /\
  n_links (full_report fixed_flags wenv w_f2) gen_full_msg_summary = 0%nat.
Proof. split; vm_compute; reflexivity. Qed.

(** non-vacuity of the hypotheses of the link theorems: asset BBB of the F3 input (from-date 2021-01-01) *)
Definition x_BBB : option actx :=
  match computed_all w_f3 (rp_assets w_f3) with
  | Ok [_; (a, c)] => Some {| ac_idx := 1; ac_name := ra_name a; ac_txs := ra_txs a; ac_c := c; ac_extra := [] |}
  | _ => None
  end.
Example link_hypotheses_nonvacuous : exists x, x_BBB = Some x /\
  vis_rows x = [3; 9] /\ all_rows (ac_txs x) = [4; 3; 9] /\
  (exists r, shown_at x (TOut (w_out 9 D2021_03_01)) r) /\ (exists r, shown_at x (TIn (w_in 3 D2021_02_01 0)) r) /\
  ~ In (w_in 4 D2020_01_01 0) (cd_ins (ac_c x)) /\ In (w_in 4 D2020_01_01 0) (t_ins (ac_txs x)) /\
  map g_year (cd_gls (ac_c x)) = [2021] /\
  compute (rp_period w_f3) (rp_from w_f3) (rp_to w_f3) false (rp_exchanges w_f3) (rp_holders w_f3) (ac_txs x)
          [{| f_ev := 9; f_lot := Some 4; f_amt := U |}] = Ok (ac_c x).
Proof.
  eexists. split; [vm_compute; reflexivity|].
  split; [vm_compute; reflexivity|]. split; [vm_compute; reflexivity|].
  split; [eexists; exists 0%nat; split; [vm_compute; reflexivity|reflexivity]|].
  split; [eexists; exists 0%nat; split; [vm_compute; reflexivity|reflexivity]|].
  split; [vm_compute; intros [H|[]]; discriminate|]. split; [left; reflexivity|].
  split; vm_compute; reflexivity.
Qed.
