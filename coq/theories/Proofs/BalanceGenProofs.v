(** The update program read from balance.py on this run (Model/GeneratedTie.v), executed by the interpreter of
    Model/BalanceGen.v, IS the hand-written replay of Model/Computed.v.

    These lemmas are about the program generated from the CURRENT source: when balance.py is edited so that the
    generated program means something else (other fields, other dictionaries, reads moved before stores, the cut on
    another date or as `continue`, another concatenation order), they stop compiling, and the property files that
    cite them (C07, C08) report a broken proof obligation.  This file: one transaction ([bal_step], cited by C08 and C07);
    Proofs/BalanceGenReplay.v: the list the loop walks and the whole of BalanceSet.__init__ (cited by C07).  The scripts compute with the generated tables but do not
    mention their text, so rewrites that leave the meaning alone (two stores to different dictionaries swapped, a
    sum bound to a local first) keep compiling. *)
From Coq Require Import List ZArith Bool Lia.
From RP2V Require Import Base.Prelude Base.Time Base.Dec Base.Sorting Base.Assoc Model.Types Model.Generated Model.GeneratedTie
  Model.Txn Model.Matcher Model.Pipeline Model.Computed Model.BalanceGen.
Import ListNotations.
Open Scope Z_scope.

(** what the generated expressions amount to, as plain arithmetic *)
Lemma sub_sub_add (a b c : Z) : a - b - c = a - (b + c).
Proof. lia. Qed.
Lemma add_add_assoc (a b c : Z) : a + b + c = a + (b + c).
Proof. lia. Qed.

Ltac bal_norm :=
  cbv [bal_step_gen gen_bal_program bal_blocks bal_kind_eqb bal_kind_of bal_run bal_eval bal_acct bal_set bal_get
       bal_field_val Nat.eqb t_balance_change t_crypto_taxable];
  cbv [bal_step add_to];
  cbn [bs_acq bs_sent bs_recv bs_final];
  repeat rewrite sub_sub_add; repeat rewrite add_add_assoc; repeat rewrite Z.add_0_l; repeat rewrite Z.add_0_r.

(** one transaction: all blocks of the loop body = bal_step *)
Lemma bal_step_gen_agrees (allow : bool) (st : result balst) (t : txn) : bal_step_gen allow st t = bal_step allow st t.
Proof.
  destruct st as [s|e].
  2:{ destruct t; reflexivity. }
  destruct t as [a|a|a]; bal_norm.
  - reflexivity.
  - destruct (goes_negative _ && negb allow); reflexivity.
  - destruct (goes_negative _ && negb allow); reflexivity.
Qed.

(** non-vacuity / sequential semantics: a transfer of 7 units from account (1, 2) to itself, sent 7, received 6.
    The program read from the source leaves 9 on an account that held 10 (debit, then credit on the debited value);
    the "read both, then store both" variant of the same statements would leave 16. *)
Example self_transfer_sequential :
  let x := {| x_row := 5; x_ts := {| utc_us := 0; off_s := 0 |}; x_from_exch := 1; x_from_holder := 2; x_to_exch := 1; x_to_holder := 2;
              x_spot := 0; x_crypto_sent := 7; x_crypto_received := 6; x_crypto_fee := 1; x_fiat_fee := dzero |} in
  let s0 := {| bs_acq := [(acct_key 1 2, 10)]; bs_sent := []; bs_recv := []; bs_final := [(acct_key 1 2, (1, 2, 10))] |} in
  (match bal_step_gen false (Ok s0) (TIntra x) with Ok s => bs_final s | Err _ => [] end) = [(acct_key 1 2, (1, 2, 9))] /\
  (match bal_run false (TIntra x) s0 (fun _ => 0)
           [BS_let 0 (BE_sub (BE_get BD_final BA_from) (BE_field BF_crypto_sent));
            BS_let 1 (BE_add (BE_get BD_final BA_to) (BE_field BF_crypto_received));
            BS_store BD_final BA_from (BE_local 0); BS_store BD_final BA_to (BE_local 1)]
   with Ok s => bs_final s | Err _ => [] end) = [(acct_key 1 2, (1, 2, 16))].
Proof. split; vm_compute; reflexivity. Qed.
