(** Open positions: the decimal cost-basis weights of the "Asset" sheet add up to 1 within an explicit bound.
    Assembles the pieces of Proofs/OpenPosArith.v: the exact identity (weights sum to 1 over Q), the accuracy of one row's
    weight (three roundings, [row_figures_accuracy]) and the accuracy of the decimal sums that enter it -- the grand total
    ([fp_total]: one running decimal sum over the counted lots of ALL assets) and the per-asset costs (one decimal sum per
    asset over its own counted lots).  Both approximate the same exact sum, each within [E n], n = number of counted lots. *)
From Coq Require Import ZArith Bool Lia QArith Qabs Qpower Qfield Lqa List.
From RP2V Require Import Base.Prelude Base.Time Base.Dec Base.Assoc Model.Types Model.Generated Model.Txn Model.Pipeline
  Model.Computed Model.Grid Model.ReportInput Model.OpenPos Proofs.DecProofs Proofs.C04Proofs Proofs.AssocProofs Proofs.OpenPosProofs
  Proofs.OpenPosArith Proofs.OpenPosExamples.
Import ListNotations.
Local Open Scope Q_scope.

(** * 1. over Q: weights that are accurate row by row, totals that are accurate, add up to almost 1 *)
(** decimal values [fst] that approximate non-negative exact values [snd] within a relative [e]: so do the sums *)
Lemma sum_rel_bound {A} (f g : A -> Q) e : forall (l : list A),
  (forall x, In x l -> 0 <= g x /\ Qabs (f x - g x) <= e * g x) ->
  0 <= sumQ (map g l) /\ Qabs (sumQ (map f l) - sumQ (map g l)) <= e * sumQ (map g l).
Proof.
  induction l as [|x l IH]; intros H; cbn [map sumQ].
  - split; [lra|]. assert (X : 0 - 0 == 0) by ring. rewrite X. cbn. lra.
  - destruct (H x (or_introl eq_refl)) as [Hq Hw].
    destruct IH as [I1 I2]; [intros p Hp; apply H; right; exact Hp|].
    apply abs_le in Hw. apply abs_le in I2. split; [lra|]. apply abs_le.
    assert (X : e * (g x + sumQ (map g l)) == e * g x + e * sumQ (map g l)) by ring. rewrite X. split; lra.
Qed.

Lemma sumQ_map_scale {A} (f : A -> Q) k l : sumQ (map (fun x => k * f x) l) == k * sumQ (map f l).
Proof. induction l as [|x l IH]; cbn [map sumQ]; [ring|rewrite IH; ring]. Qed.

Section Abstract.
(** an asset: its (decimal) cost C and its rows (balance b >= 0, decimal weight w); T: the (decimal) grand total; U: the exact
    value both T and the sum of the asset costs approximate *)
Variables (assets : list (Q * list (Q * Q))) (T U e1 e2 e3 : Q).
Hypothesis HC : forall a, In a assets -> 0 <= fst a.
Hypothesis Hb : forall a row, In a assets -> In row (snd a) -> 0 <= fst row.
Hypothesis Hbeta : forall a, In a assets -> 0 < sumQ (map fst (snd a)).
Hypothesis HU : 0 < U.
Hypothesis He1 : 0 <= e1.
Hypothesis He3 : 0 <= e3.
Hypothesis He2 : e2 < 1.
Hypothesis HT : Qabs (T - U) <= e2 * U.
Hypothesis HS : Qabs (sumQ (map fst assets) - U) <= e1 * U.
Hypothesis Hw : forall a row, In a assets -> In row (snd a) ->
  Qabs (snd row - fst a / sumQ (map fst (snd a)) * fst row / T) <= e3 * Qabs (fst a / sumQ (map fst (snd a)) * fst row / T).

Lemma T_pos : 0 < T.
Proof. apply abs_le in HT. nra. Qed.

Definition exact_w (a : Q * list (Q * Q)) (row : Q * Q) : Q := fst a / sumQ (map fst (snd a)) * fst row / T.

Lemma exact_w_nonneg a row : In a assets -> In row (snd a) -> 0 <= exact_w a row.
Proof.
  intros Ha Hr. unfold exact_w. pose proof (HC a Ha). pose proof (Hb a row Ha Hr). pose proof (Hbeta a Ha). pose proof T_pos.
  apply Qle_shift_div_l; [assumption|]. assert (X : 0 * T == 0) by ring. rewrite X.
  apply Qmult_le_0_compat; [|assumption]. apply Qle_shift_div_l; [assumption|]. lra.
Qed.

(** the exact weights of the rows of one asset add up to cost / total *)
Lemma asset_exact_sum a : In a assets -> sumQ (map (exact_w a) (snd a)) == fst a / T.
Proof.
  intros Ha. pose proof (Hbeta a Ha) as Hbe. pose proof T_pos as HTp.
  assert (E : sumQ (map (exact_w a) (snd a)) == (fst a / sumQ (map fst (snd a)) / T) * sumQ (map fst (snd a))).
  { rewrite <- sumQ_map_scale. apply sumQ_ext. intros row _. unfold exact_w. field. split; lra. }
  rewrite E. field. split; lra.
Qed.

Definition all_w : list Q := flat_map (fun a => map snd (snd a)) assets.

Lemma rows_bound : forall l, (forall a, In a l -> In a assets) ->
  0 <= sumQ (map (fun a => fst a / T) l) /\
  Qabs (sumQ (flat_map (fun a => map snd (snd a)) l) - sumQ (map (fun a => fst a / T) l)) <= e3 * sumQ (map (fun a => fst a / T) l).
Proof.
  induction l as [|a l IH]; intros Hsub; cbn [flat_map map sumQ].
  - split; [lra|]. assert (X : 0 - 0 == 0) by ring. rewrite X. cbn. lra.
  - assert (Ha : In a assets) by (apply Hsub; left; reflexivity).
    destruct IH as [I1 I2]; [intros x Hx; apply Hsub; right; exact Hx|].
    destruct (sum_rel_bound (@snd Q Q) (exact_w a) e3 (snd a)) as [S1 S2].
    { intros row Hrow. pose proof (exact_w_nonneg a row Ha Hrow) as Hn. split; [exact Hn|].
      pose proof (Hw a row Ha Hrow) as H. fold (exact_w a row) in H. rewrite (abs_of_nonneg _ Hn) in H. exact H. }
    rewrite (asset_exact_sum a Ha) in S1, S2.
    rewrite sumQ_app. apply abs_le in S2. apply abs_le in I2. split; [lra|]. apply abs_le.
    assert (X : e3 * (fst a / T + sumQ (map (fun a0 => fst a0 / T) l)) == e3 * (fst a / T) + e3 * sumQ (map (fun a0 => fst a0 / T) l)) by ring.
    rewrite X. split; lra.
Qed.

Theorem weights_close : Qabs (sumQ all_w - 1) * (1 - e2) <= e3 * (1 + e1) + e1 + e2.
Proof.
  pose proof T_pos as HTp. destruct (rows_bound assets (fun a H => H)) as [R1 R2]. fold all_w in R2.
  assert (ES : sumQ (map (fun a => fst a / T) assets) == sumQ (map fst assets) / T).
  { unfold Qdiv. rewrite <- sumQ_scale, map_map. reflexivity. }
  rewrite ES in R1, R2. set (S := sumQ (map fst assets)) in *. set (W := sumQ all_w) in *.
  apply abs_le in HT. apply abs_le in HS. apply abs_le in R2.
  (* r = S / T *)
  set (r := S / T) in *. assert (Er : r * T == S) by (unfold r; field; lra).
  assert (Hr1 : r * ((1 - e2) * U) <= (1 + e1) * U) by nra.
  assert (Hd : (r - 1) * T == S - T) by (rewrite <- Er; ring).
  (* |W - 1| <= e3 r + |r - 1| ; multiply by T >= (1 - e2) U *)
  assert (B1 : (W - 1) * T <= e3 * S + (S - T)) by nra.
  assert (B2 : - (e3 * S + (T - S)) <= (W - 1) * T) by nra.
  assert (HSle : S <= (1 + e1) * U) by lra. assert (HSge : (1 - e1) * U <= S) by lra.
  assert (K : Qabs (W - 1) * ((1 - e2) * U) <= (e3 * (1 + e1) + e1 + e2) * U).
  { assert (HA : 0 <= Qabs (W - 1)) by apply Qabs_nonneg.
    assert (HTU : (1 - e2) * U <= T) by lra.
    assert (K1 : Qabs (W - 1) * ((1 - e2) * U) <= Qabs (W - 1) * T).
    { rewrite (Qmult_comm (Qabs (W - 1)) ((1 - e2) * U)), (Qmult_comm (Qabs (W - 1)) T). apply Qmult_le_compat_r; assumption. }
    assert (K2 : Qabs (W - 1) * T <= (e3 * (1 + e1) + e1 + e2) * U).
    { assert (HT0 : 0 <= T) by lra. rewrite <- (abs_of_nonneg T HT0) at 1. rewrite <- Qabs_Qmult. apply abs_le. split; nra. }
    lra. }
  assert (K' : (Qabs (W - 1) * (1 - e2)) * U <= (e3 * (1 + e1) + e1 + e2) * U) by lra.
  apply (Qmult_le_r _ _ U HU). exact K'.
Qed.
End Abstract.

(** [E n] = (1 + EPS)^n - 1 is at most 2 n EPS as long as n EPS <= 1/2 (EPS = 5e-31: for up to 10^30 roundings) *)
Lemma E_linear : forall n, inject_Z (Z.of_nat n) * EPS <= 1 # 2 -> E n <= 2 * inject_Z (Z.of_nat n) * EPS.
Proof.
  induction n as [|n IH]; intros H; [cbn [E]; change (inject_Z (Z.of_nat 0)) with 0; lra|].
  rewrite Nat2Z.inj_succ in *. unfold Z.succ in *. rewrite inject_Z_plus in *. change (inject_Z 1) with 1 in *.
  pose proof EPS_pos. assert (Hn : 0 <= inject_Z (Z.of_nat n)) by (change 0 with (inject_Z 0); rewrite <- Zle_Qle; lia).
  assert (H' : inject_Z (Z.of_nat n) * EPS <= 1 # 2) by nra. specialize (IH H'). cbn [E]. pose proof (E_nonneg n). nra.
Qed.

(** * 2. the model: rows of the "Asset" sheet *)
Lemma fold_flat_map {A B C} (f : A -> C -> A) (g : B -> list C) : forall l acc,
  fold_left f (flat_map g l) acc = fold_left (fun a b => fold_left f (g b) a) l acc.
Proof. induction l as [|b l IH]; intros acc; cbn [flat_map fold_left]; [reflexivity|]. rewrite fold_left_app. apply IH. Qed.

Lemma flat_map_length_le {A B} (g : A -> list B) l x : In x l -> (length (g x) <= length (flat_map g l))%nat.
Proof.
  induction l as [|y l IH]; intros H; [destruct H|]. cbn [flat_map]. rewrite app_length. destruct H as [->|H]; [lia|]. specialize (IH H). lia.
Qed.

(** the decimal lot costs that count (> 0 at 13 decimals), asset by asset, lot by lot: what both sums run over *)
Definition counted_costs (c : computed) : list dec := map (lot_unrealised c) (counted_lots c).
Definition all_counted (cs : list computed) : list dec := flat_map counted_costs cs.

Lemma counted_costs_pos c d : In d (counted_costs c) -> 0 < to_q d.
Proof.
  unfold counted_costs, counted_lots. intros H. apply in_map_iff in H as (l & <- & Hl). apply filter_In in Hl as [_ Hl]. apply counted_pos. exact Hl.
Qed.

(** a decimal sum (from 0) of positive decimals vs their exact sum *)
Lemma dsum_accuracy (l : list dec) : (forall d, In d l -> 0 < to_q d) ->
  0 <= sumQ (map to_q l) /\
  Qabs (to_q (fold_left dadd l dzero) - sumQ (map to_q l)) <= E (length l) * sumQ (map to_q l).
Proof.
  intros Hp.
  pose proof (dadd_fold_rel (map (fun d => (d, to_q d)) l) dzero 0 0) as G.
  rewrite fold_left_map' in G. cbn [fst] in G. rewrite map_length, map_map in G. cbn [snd plus] in G.
  assert (X0 : 0 + sumQ (map to_q l) == sumQ (map to_q l)) by ring. rewrite X0 in G.
  split.
  - apply sumQ_nonneg. intros x Hx. apply in_map_iff in Hx as (d & <- & Hd). apply Qlt_le_weak, Hp, Hd.
  - replace (fold_left dadd l dzero) with (fold_left (fun a d => dadd a d) l dzero) by reflexivity. apply G; [lra| |].
    + rewrite to_q_dzero. assert (X : 0 - 0 == 0) by ring. rewrite X. cbn. lra.
    + intros p Hin. apply in_map_iff in Hin as (d & <- & Hd). cbn [fst snd]. split; [apply Qlt_le_weak, Hp, Hd|].
      assert (X : to_q d - to_q d == 0) by ring. rewrite X. cbn. lra.
Qed.

Lemma asset_cost_fold c : asset_cost_of c = fold_left dadd (counted_costs c) dzero.
Proof. unfold asset_cost_of, counted_costs. rewrite cost_fold_filter. fold (counted_lots c). rewrite fold_left_map'. reflexivity. Qed.

Lemma unlisted_no_costs c : asset_listed c = false -> counted_costs c = [].
Proof.
  unfold asset_listed, counted_costs, counted_lots. intros H. replace (filter (lot_counted c) (cd_ins c)) with (@nil intx); [reflexivity|].
  symmetry. induction (cd_ins c) as [|l ls IH]; [reflexivity|]. cbn [existsb filter] in *. apply orb_false_iff in H as [H1 H2]. rewrite H1. apply IH. exact H2.
Qed.

Lemma to_q_grid_add a b : to_q (of_grid (a + b)) == to_q (of_grid a) + to_q (of_grid b).
Proof. unfold of_grid. rewrite !to_q_mk, inject_Z_plus. ring. Qed.
Lemma to_q_grid_nonneg a : (0 <= a)%Z -> 0 <= to_q (of_grid a).
Proof.
  intros H. unfold of_grid. rewrite to_q_mk. apply Qmult_le_0_compat; [change 0 with (inject_Z 0); rewrite <- Zle_Qle; exact H|].
  apply Qlt_le_weak. apply Qpower_0_lt. reflexivity.
Qed.
Lemma total_balance_q : forall (hb : assoc Z) z,
  to_q (of_grid (fold_left (fun acc kv => (acc + snd kv)%Z) hb z)) == to_q (of_grid z) + sumQ (map (fun kv => to_q (of_grid (snd kv))) hb).
Proof.
  induction hb as [|kv hb IH]; intros z; cbn [fold_left map sumQ]; [ring|]. rewrite IH, to_q_grid_add. ring.
Qed.

Lemma sum_grid l : sumQ (map (fun z => to_q (of_grid z)) l) == to_q (of_grid (sumZ l)).
Proof.
  induction l as [|z l IH]; cbn [map sumQ sumZ]; [reflexivity|]. rewrite IH, to_q_grid_add. reflexivity.
Qed.

Lemma sumZ_nonneg l : (forall x, In x l -> (0 <= x)%Z) -> (0 <= sumZ l)%Z.
Proof.
  induction l as [|x l IH]; intros H; cbn [sumZ]; [lia|]. pose proof (H x (or_introl eq_refl)).
  assert (0 <= sumZ l)%Z by (apply IH; intros y Hy; apply H; right; exact Hy). lia.
Qed.

Section Model.
Context (i : rinput) (inp : str) (cs : list computed) (s : fpass).
Hypothesis Hf : first_pass cs = Ok s.
Hypothesis Hne : fp_costs s <> [].
(** every listed asset has an account with a positive balance (C15_listed_has_balance / C15_listed_has_balance_from_rows) *)
Hypothesis Hbal : forall a c, nth_error cs a = Some c -> asset_listed c = true -> pos_balances c <> [].

Definition n_counted : nat := length (all_counted cs).
Definition U_exact : Q := sumQ (map to_q (all_counted cs)).

Lemma total_is_sum : fp_total s = fold_left dadd (all_counted cs) dzero.
Proof.
  destruct (first_pass_spec cs s Hf) as (_ & _ & _ & _ & _ & Ht). rewrite Ht. unfold all_counted. rewrite fold_flat_map.
  clear. generalize dzero. induction cs as [|c l IH]; intros acc; cbn [fold_left]; [reflexivity|]. rewrite IH. f_equal.
  rewrite cost_fold_filter. fold (counted_lots c). unfold counted_costs. rewrite fold_left_map'. reflexivity.
Qed.

Lemma all_counted_pos d : In d (all_counted cs) -> 0 < to_q d.
Proof. unfold all_counted. intros H. apply in_flat_map in H as (c & _ & Hd). exact (counted_costs_pos c d Hd). Qed.

Lemma total_accuracy : 0 <= U_exact /\ Qabs (to_q (fp_total s) - U_exact) <= E n_counted * U_exact.
Proof. rewrite total_is_sum. exact (dsum_accuracy (all_counted cs) all_counted_pos). Qed.

Lemma U_exact_split : forall l, sumQ (map to_q (flat_map counted_costs l)) == sumQ (map (fun c => sumQ (map to_q (counted_costs c))) l).
Proof. induction l as [|c l IH]; cbn [flat_map map sumQ]; [reflexivity|]. rewrite map_app, sumQ_app, IH. reflexivity. Qed.

(** the sum of the listed assets' decimal costs vs the exact sum of all counted lot costs *)
Lemma costs_accuracy : forall l k, (forall c, In c l -> In c cs) ->
  0 <= sumQ (map (fun c => sumQ (map to_q (counted_costs c))) l) /\
  Qabs (sumQ (map (fun ac : Z * dec => to_q (snd ac)) (entries cost_opt (number_from k l))) - sumQ (map (fun c => sumQ (map to_q (counted_costs c))) l))
  <= E n_counted * sumQ (map (fun c => sumQ (map to_q (counted_costs c))) l).
Proof.
  induction l as [|c l IH]; intros k Hsub; cbn [number_from entries flat_map map sumQ fst snd].
  - split; [lra|]. assert (X : 0 - 0 == 0) by ring. rewrite X. cbn. lra.
  - destruct (IH (k + 1)%Z) as [I1 I2]; [intros x Hx; apply Hsub; right; exact Hx|]. fold (entries cost_opt (number_from (k + 1) l)).
    rewrite map_app, sumQ_app. destruct (dsum_accuracy (counted_costs c) (counted_costs_pos c)) as [D1 D2].
    assert (Hn : (length (counted_costs c) <= n_counted)%nat) by (apply flat_map_length_le; apply Hsub; left; reflexivity).
    pose proof (E_mono _ _ Hn) as Em. pose proof (E_nonneg (length (counted_costs c))) as En.
    unfold cost_opt at 1. destruct (asset_listed c) eqn:El; cbn [opt_entry map sumQ snd].
    + rewrite asset_cost_fold. apply abs_le in D2. apply abs_le in I2. split; [lra|]. apply abs_le.
      set (Uc := sumQ (map to_q (counted_costs c))) in *. set (Ur := sumQ (map (fun c0 => sumQ (map to_q (counted_costs c0))) l)) in *.
      assert (X : E n_counted * (Uc + Ur) == E n_counted * Uc + E n_counted * Ur) by ring. rewrite X.
      assert (Y : E (length (counted_costs c)) * Uc <= E n_counted * Uc) by (apply Qmult_le_compat_r; assumption). split; lra.
    + rewrite (unlisted_no_costs c El). cbn [map sumQ]. apply abs_le in I2. split; [lra|]. apply abs_le.
      set (Ur := sumQ (map (fun c0 => sumQ (map to_q (counted_costs c0))) l)) in *.
      assert (X : E n_counted * (0 + Ur) == E n_counted * Ur) by ring. rewrite X. split; lra.
Qed.

Lemma sum_costs_accuracy : Qabs (sumQ (map (fun ac : Z * dec => to_q (snd ac)) (fp_costs s)) - U_exact) <= E n_counted * U_exact.
Proof.
  destruct (first_pass_spec cs s Hf) as (_ & Hc & _). rewrite Hc. unfold U_exact, all_counted. rewrite U_exact_split.
  exact (proj2 (costs_accuracy cs 0 (fun c H => H))).
Qed.

Lemma U_exact_pos : 0 < U_exact.
Proof.
  destruct (total_cost_positive cs s Hf Hne) as [P _]. destruct total_accuracy as [U0 UT]. apply abs_le in UT.
  destruct (Qlt_le_dec 0 U_exact) as [H|H]; [exact H|]. assert (E0 : U_exact == 0) by lra. rewrite E0 in UT. lra.
Qed.

(** one sheet: per listed asset a list of rows ([envs]); a row carries a balance >= 0 and the decimal weight computed from it;
    the balances of an asset's rows add up to the asset's total balance (the divisor of its per-unit cost) *)
Section Sheet.
Variable envs : Z * dec -> list rowenv.
Hypothesis rows_ok : forall ac e, In ac (fp_costs s) -> In e (envs ac) ->
  (0 <= re_bal e)%Z /\ re_weight e = weight_of s (gen_op_row_cost (re_bal e) (unit_of s ac)).
Hypothesis rows_total : forall ac, In ac (fp_costs s) -> sumZ (map re_bal (envs ac)) = total_balance (hb_of s (fst ac)).

Definition q_rows (ac : Z * dec) : list (Q * Q) := map (fun e => (to_q (of_grid (re_bal e)), to_q (re_weight e))) (envs ac).
Definition q_assets : list (Q * list (Q * Q)) := map (fun ac => (to_q (snd ac), q_rows ac)) (fp_costs s).

Lemma all_w_rows : all_w q_assets = map (fun e => to_q (re_weight e)) (flat_map envs (fp_costs s)).
Proof.
  unfold all_w, q_assets. generalize (fp_costs s) as l0. intro l0. induction l0 as [|ac l IH]; cbn [map flat_map]; [reflexivity|].
  rewrite map_app, IH. f_equal. cbn [snd]. unfold q_rows. rewrite map_map. reflexivity.
Qed.

Lemma listed_asset_facts ac : In ac (fp_costs s) ->
  0 <= to_q (snd ac) /\ (0 < total_balance (hb_of s (fst ac)))%Z /\
  sumQ (map fst (q_rows ac)) == to_q (of_grid (total_balance (hb_of s (fst ac)))).
Proof.
  intros Hin. destruct (costs_In cs s Hf ac Hin) as (c & _ & Hn & Hl & Hcost & _).
  destruct (asset_ok_of cs s Hf ac c Hin Hn (Hbal _ _ Hn Hl)) as (_ & _ & _ & _ & Hpos).
  split; [rewrite Hcost; unfold asset_cost_of; apply cost_fold_nonneg; rewrite to_q_dzero; lra|]. split; [exact Hpos|].
  rewrite <- (rows_total ac Hin). unfold q_rows. rewrite map_map. cbn [fst]. rewrite <- (map_map re_bal (fun z => to_q (of_grid z))). apply sum_grid.
Qed.

(** the combined inequality: with n = number of counted lots of all assets (each a lot with unsold cost > 0),
      | sum of the weights of the sheet - 1 | * (1 - E n) <= E (n + 3) + E n *)
Theorem sheet_weights_close : E n_counted < 1 ->
  Qabs (sumQ (map (fun e => to_q (re_weight e)) (flat_map envs (fp_costs s))) - 1) * (1 - E n_counted)
  <= E (n_counted + 3) + E n_counted.
Proof.
  intros Hlt. rewrite <- all_w_rows. destruct total_accuracy as [_ HT]. destruct (total_cost_positive cs s Hf Hne) as [_ Hnz].
  pose proof (E_nonneg n_counted) as En. pose proof (E_nonneg 3) as E3.
  assert (HS : Qabs (sumQ (map fst q_assets) - U_exact) <= E n_counted * U_exact).
  { unfold q_assets. rewrite map_map. cbn [fst]. exact sum_costs_accuracy. }
  pose proof (weights_close q_assets (to_q (fp_total s)) U_exact (E n_counted) (E n_counted) (E 3)) as W.
  assert (Em : E (n_counted + 3) == E 3 * (1 + E n_counted) + E n_counted).
  { pose proof (E_mul n_counted 3). lra. }
  rewrite Em. apply W; clear W; try assumption; try exact U_exact_pos.
  - intros a Ha. unfold q_assets in Ha. apply in_map_iff in Ha as (ac & <- & Hac). cbn [fst]. exact (proj1 (listed_asset_facts ac Hac)).
  - intros a row Ha Hrow. unfold q_assets in Ha. apply in_map_iff in Ha as (ac & <- & Hac). cbn [snd] in Hrow.
    unfold q_rows in Hrow. apply in_map_iff in Hrow as (e & <- & He). cbn [fst].
    apply to_q_grid_nonneg. exact (proj1 (rows_ok ac e Hac He)).
  - intros a Ha. unfold q_assets in Ha. apply in_map_iff in Ha as (ac & <- & Hac). cbn [snd].
    destruct (listed_asset_facts ac Hac) as (_ & Hpos & ->). unfold of_grid. rewrite to_q_mk.
    apply Qmult_lt_0_compat; [change 0 with (inject_Z 0); rewrite <- Zlt_Qlt; exact Hpos|apply Qpower_0_lt; reflexivity].
  - intros a row Ha Hrow. unfold q_assets in Ha. apply in_map_iff in Ha as (ac & <- & Hac). cbn [fst snd] in *.
    destruct (listed_asset_facts ac Hac) as (_ & Hpos & Eb). rewrite Eb.
    unfold q_rows in Hrow. apply in_map_iff in Hrow as (e & <- & He). cbn [fst snd].
    destruct (rows_ok ac e Hac He) as [_ Ew0]. rewrite Ew0.
    set (B := total_balance (hb_of s (fst ac))) in *.
    assert (Hu : exists u, gen_op_unit_cost (snd ac) B = Some u).
    { destruct (gen_op_unit_cost (snd ac) B) as [u|] eqn:Eu; [eauto|]. exfalso. unfold gen_op_unit_cost, odiv in Eu. apply ddiv_none in Eu.
      cbn [of_grid fst] in Eu. lia. }
    destruct Hu as (u & Eu). assert (Euo : unit_of s ac = u) by (unfold unit_of; fold B; rewrite Eu; reflexivity). rewrite Euo.
    assert (Hwt : exists w, gen_op_weight (gen_op_row_cost (re_bal e) u) (fp_total s) = Some w).
    { destruct (gen_op_weight (gen_op_row_cost (re_bal e) u) (fp_total s)) as [w|] eqn:Ew; [eauto|]. exfalso. unfold gen_op_weight, odiv in Ew.
      apply ddiv_none in Ew. exact (Hnz Ew). }
    destruct Hwt as (w & Ew). unfold weight_of. rewrite Ew.
    exact (proj2 (proj2 (row_figures_accuracy (snd ac) (fp_total s) B (re_bal e) u w Eu Ew))).
Qed.

(** explicit: up to n counted lots with n * 5e-31 <= 1/4, the weights add up to 1 within (8 n + 12) * 5e-31 *)
Corollary sheet_weights_close_explicit : inject_Z (Z.of_nat n_counted) * EPS <= 1 # 4 ->
  Qabs (sumQ (map (fun e => to_q (re_weight e)) (flat_map envs (fp_costs s))) - 1)
  <= (8 * inject_Z (Z.of_nat n_counted) + 12) * EPS.
Proof.
  intros Hn. pose proof EPS_pos as Hp. set (n := inject_Z (Z.of_nat n_counted)) in *.
  assert (Hn0 : 0 <= n) by (unfold n; change 0 with (inject_Z 0); rewrite <- Zle_Qle; lia).
  assert (L1 : E n_counted <= 2 * n * EPS) by (apply E_linear; fold n; lra).
  assert (L2 : E (n_counted + 3) <= 2 * (n + 3) * EPS).
  { pose proof (E_linear (n_counted + 3)) as L. rewrite Nat2Z.inj_add, inject_Z_plus in L. fold n in L. change (inject_Z (Z.of_nat 3)) with 3 in L.
    apply L. assert (3 * EPS <= 1 # 4) by (unfold EPS; discriminate). lra. }
  assert (Hlt : E n_counted < 1) by lra.
  pose proof (sheet_weights_close Hlt) as W. set (A := Qabs _) in *.
  assert (HA : 0 <= A) by apply Qabs_nonneg.
  assert (H12 : (1 # 2) <= 1 - E n_counted) by lra.
  assert (W2 : A * (1 # 2) <= A * (1 - E n_counted)).
  { rewrite (Qmult_comm A (1 # 2)), (Qmult_comm A (1 - E n_counted)). apply Qmult_le_compat_r; assumption. }
  lra.
Qed.
End Sheet.

(** ** the "Asset" sheet: one row per holder with a counted balance *)
Lemma holder_rows_ok ac e : In ac (fp_costs s) -> In e (holder_envs_of i inp s ac) ->
  (0 <= re_bal e)%Z /\ re_weight e = weight_of s (gen_op_row_cost (re_bal e) (unit_of s ac)).
Proof.
  intros Hin He. unfold holder_envs_of in He. apply in_map_iff in He as ([h v] & <- & Hkv). cbn [re_bal re_weight data_env' fst snd]. split; [|reflexivity].
  destruct (costs_In cs s Hf ac Hin) as (c & _ & Hn & Hl & _).
  destruct (asset_ok_of cs s Hf ac c Hin Hn (Hbal _ _ Hn Hl)) as (_ & _ & Hhb & _). rewrite Hhb in Hkv.
  destruct (holder_table_spec (pos_balances c)) as (_ & _ & Hv). rewrite (Hv h v Hkv).
  apply sumZ_nonneg. intros x Hx. apply in_map_iff in Hx as (b & <- & Hb). apply filter_In in Hb as [Hb _].
  unfold pos_balances in Hb. apply filter_In in Hb as [_ Hb]. pose proof (bal_counted_pos b Hb). lia.
Qed.
Lemma holder_rows_total ac : In ac (fp_costs s) -> sumZ (map re_bal (holder_envs_of i inp s ac)) = total_balance (hb_of s (fst ac)).
Proof.
  intros _. unfold holder_envs_of, total_balance. rewrite map_map. cbn [re_bal data_env'].
  generalize (hb_of s (fst ac)) as hb. intro hb. rewrite <- (Z.add_0_l (sumZ _)). generalize 0%Z as z.
  induction hb as [|kv hb IH]; intros z; cbn [map sumZ fold_left]; [lia|]. rewrite <- IH. lia.
Qed.

Theorem weights_sum_close_to_one : E n_counted < 1 ->
  Qabs (sumQ (map (fun e => to_q (re_weight e)) (flat_map (holder_envs_of i inp s) (fp_costs s))) - 1) * (1 - E n_counted)
  <= E (n_counted + 3) + E n_counted.
Proof. exact (sheet_weights_close (holder_envs_of i inp s) holder_rows_ok holder_rows_total). Qed.
Corollary weights_sum_close_to_one_explicit : inject_Z (Z.of_nat n_counted) * EPS <= 1 # 4 ->
  Qabs (sumQ (map (fun e => to_q (re_weight e)) (flat_map (holder_envs_of i inp s) (fp_costs s))) - 1)
  <= (8 * inject_Z (Z.of_nat n_counted) + 12) * EPS.
Proof. exact (sheet_weights_close_explicit (holder_envs_of i inp s) holder_rows_ok holder_rows_total). Qed.

(** ** the "Asset - Exchange" sheet: one row per counted (exchange, holder) account, provided the accounts of the balance table are
    pairwise distinct (the model, like the code, keeps the FIRST entry of a repeated account: then the rows would not add up) *)
Hypothesis Hacct : forall a c, nth_error cs a = Some c -> asset_listed c = true -> NoDup (map acct (pos_balances c)).

Lemma exch_rows_bal ac : map re_bal (exch_envs_of i inp s ac) = map (fun t : Z * Z * Z => snd t) (rows_of_heb (heb_of s (fst ac))).
Proof.
  unfold exch_envs_of, rows_of_heb. generalize (heb_of s (fst ac)) as heb. intro heb.
  induction heb as [|hx heb IH]; cbn [flat_map map]; [reflexivity|]. rewrite !map_app, IH. f_equal. rewrite !map_map. reflexivity.
Qed.
Lemma exch_rows_perm ac : In ac (fp_costs s) -> exists c, hb_of s (fst ac) = holder_table (pos_balances c) /\
  Permutation.Permutation (map re_bal (exch_envs_of i inp s ac)) (map b_final (pos_balances c)).
Proof.
  intros Hin. destruct (costs_In cs s Hf ac Hin) as (c & _ & Hn & Hl & _).
  destruct (asset_ok_of cs s Hf ac c Hin Hn (Hbal _ _ Hn Hl)) as (_ & _ & Hhb & Hheb & _). exists c. split; [exact Hhb|].
  rewrite exch_rows_bal, Hheb. destruct (exch_table_spec (pos_balances c) (Hacct _ _ Hn Hl)) as [_ P].
  apply (Permutation.Permutation_map (fun t : Z * Z * Z => snd t)) in P. rewrite map_map in P. exact P.
Qed.
Lemma sumZ_perm l l' : Permutation.Permutation l l' -> sumZ l = sumZ l'.
Proof. induction 1; cbn [sumZ]; lia. Qed.

Lemma exch_rows_ok ac e : In ac (fp_costs s) -> In e (exch_envs_of i inp s ac) ->
  (0 <= re_bal e)%Z /\ re_weight e = weight_of s (gen_op_row_cost (re_bal e) (unit_of s ac)).
Proof.
  intros Hin He. split.
  - destruct (exch_rows_perm ac Hin) as (c & _ & P). assert (Hb : In (re_bal e) (map re_bal (exch_envs_of i inp s ac))) by (apply in_map; exact He).
    apply (Permutation.Permutation_in _ P) in Hb. apply in_map_iff in Hb as (b & <- & Hb).
    unfold pos_balances in Hb. apply filter_In in Hb as [_ Hb]. pose proof (bal_counted_pos b Hb). lia.
  - unfold exch_envs_of in He. apply in_flat_map in He as (hx & _ & He). apply in_map_iff in He as (eb & <- & _). reflexivity.
Qed.
Lemma exch_rows_total ac : In ac (fp_costs s) -> sumZ (map re_bal (exch_envs_of i inp s ac)) = total_balance (hb_of s (fst ac)).
Proof.
  intros Hin. destruct (exch_rows_perm ac Hin) as (c & Hhb & P). rewrite (sumZ_perm _ _ P), Hhb, total_balance_holder_table. reflexivity.
Qed.

Theorem exch_weights_sum_close_to_one : E n_counted < 1 ->
  Qabs (sumQ (map (fun e => to_q (re_weight e)) (flat_map (exch_envs_of i inp s) (fp_costs s))) - 1) * (1 - E n_counted)
  <= E (n_counted + 3) + E n_counted.
Proof. exact (sheet_weights_close (exch_envs_of i inp s) exch_rows_ok exch_rows_total). Qed.
Corollary exch_weights_sum_close_to_one_explicit : inject_Z (Z.of_nat n_counted) * EPS <= 1 # 4 ->
  Qabs (sumQ (map (fun e => to_q (re_weight e)) (flat_map (exch_envs_of i inp s) (fp_costs s))) - 1)
  <= (8 * inject_Z (Z.of_nat n_counted) + 12) * EPS.
Proof. exact (sheet_weights_close_explicit (exch_envs_of i inp s) exch_rows_ok exch_rows_total). Qed.
End Model.

(** * 3. non-vacuity: the three-asset example of Proofs/OpenPosExamples.v (AAA with two lots and a transfer, BBB, CCC sold out) *)
Example ex_weights : exists s, first_pass ex_cs = Ok s /\ fp_costs s <> [] /\ n_counted ex_cs = 3%nat /\
  Qabs (sumQ (map (fun e => to_q (re_weight e)) (flat_map (holder_envs_of ex_i [] s) (fp_costs s))) - 1) <= (8 * 3 + 12) * EPS /\
  Qabs (sumQ (map (fun e => to_q (re_weight e)) (flat_map (exch_envs_of ex_i [] s) (fp_costs s))) - 1) <= (8 * 3 + 12) * EPS.
Proof.
  destruct (first_pass ex_cs) as [s|] eqn:Ef; [|vm_compute in Ef; discriminate Ef].
  assert (Hne : fp_costs s <> []).
  { assert (Ef' := Ef). vm_compute in Ef'. inversion Ef'. discriminate. }
  assert (Hbal : forall a c, nth_error ex_cs a = Some c -> asset_listed c = true -> pos_balances c <> []).
  { intros a c Hn Hl. destruct a as [|[|[|a]]]; cbn in Hn; try (destruct a; discriminate Hn); inversion Hn; subst c;
      try (vm_compute in Hl; discriminate Hl); vm_compute; discriminate. }
  assert (Hacct : forall a c, nth_error ex_cs a = Some c -> asset_listed c = true -> NoDup (map acct (pos_balances c))).
  { intros a c Hn Hl. destruct a as [|[|[|a]]]; cbn in Hn; try (destruct a; discriminate Hn); inversion Hn; subst c;
      try (vm_compute in Hl; discriminate Hl); vm_compute; repeat constructor; cbn; intuition discriminate. }
  assert (En : n_counted ex_cs = 3%nat) by (vm_compute; reflexivity).
  assert (Hs : inject_Z (Z.of_nat (n_counted ex_cs)) * EPS <= 1 # 4) by (rewrite En; unfold EPS; discriminate).
  exists s. split; [reflexivity|]. split; [exact Hne|]. split; [exact En|]. split.
  - pose proof (weights_sum_close_to_one_explicit ex_i [] ex_cs s Ef Hne Hbal Hs) as W. rewrite En in W. exact W.
  - pose proof (exch_weights_sum_close_to_one_explicit ex_i [] ex_cs s Ef Hne Hbal Hacct Hs) as W. rewrite En in W. exact W.
Qed.
