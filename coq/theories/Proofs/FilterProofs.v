(** Property "date filters only hide rows": the window iterators of Computed.v
    ([iter_window], [take_until]) are filters on date-sorted lists, and always
    produce sub-lists of rows that are inside the window. *)
From Coq Require Import List ZArith Bool Lia Sorted ZifyBool.
From RP2V Require Import Base.Prelude Model.Computed.
Import ListNotations.
Open Scope Z_scope.

Definition day_sorted {A} (day : A -> Z) (l : list A) : Prop :=
  StronglySorted (fun a b => day a <= day b) l.

Section Filter.
Context {A : Type} (day : A -> Z).

Lemma day_sorted_inv x l : day_sorted day (x :: l) -> day_sorted day l /\ Forall (fun b => day x <= day b) l.
Proof. intros H. inversion H; subst. split; assumption. Qed.

Lemma filter_nil_above (p : A -> bool) l : Forall (fun x => p x = false) l -> filter p l = [].
Proof.
  induction 1 as [|x l Hx _ IH]; simpl; [reflexivity|]. rewrite Hx. exact IH.
Qed.

Lemma take_until_filter : forall to_ l, day_sorted day l ->
  take_until day to_ l = filter (fun x => day x <=? to_) l.
Proof.
  intros to_ l. induction l as [|x l IH]; intros Hs; [reflexivity|].
  apply day_sorted_inv in Hs. destruct Hs as [Hs Hall].
  cbn [take_until filter].
  destruct (to_ <? day x) eqn:E.
  - assert (Hx : (day x <=? to_) = false) by lia. rewrite Hx.
    symmetry. apply filter_nil_above.
    eapply Forall_impl; [|exact Hall]. cbv beta. intros b Hb. lia.
  - assert (Hx : (day x <=? to_) = true) by lia. rewrite Hx.
    f_equal. apply IH. exact Hs.
Qed.

Lemma iter_window_filter : forall from_ to_ l, day_sorted day l ->
  iter_window day from_ to_ l = filter (fun x => (from_ <=? day x) && (day x <=? to_)) l.
Proof.
  intros from_ to_ l. induction l as [|x l IH]; intros Hs; [reflexivity|].
  apply day_sorted_inv in Hs. destruct Hs as [Hs Hall].
  cbn [iter_window filter].
  destruct (to_ <? day x) eqn:E.
  - assert (Hx : ((from_ <=? day x) && (day x <=? to_)) = false) by lia. rewrite Hx.
    symmetry. apply filter_nil_above.
    eapply Forall_impl; [|exact Hall]. cbv beta. intros b Hb. lia.
  - destruct (from_ <=? day x) eqn:E2.
    + assert (Hx : (true && (day x <=? to_)) = true) by lia. rewrite Hx.
      f_equal. apply IH. exact Hs.
    + cbn [andb]. apply IH. exact Hs.
Qed.

Lemma iter_window_sublist : forall from_ to_ l x,
  In x (iter_window day from_ to_ l) -> In x l /\ from_ <= day x <= to_.
Proof.
  intros from_ to_ l x. induction l as [|y l IH]; cbn [iter_window]; intros H; [destruct H|].
  destruct (to_ <? day y) eqn:E; [destruct H|].
  destruct (from_ <=? day y) eqn:E2.
  - destruct H as [H|H].
    + subst y. split; [left; reflexivity|lia].
    + destruct (IH H) as [H1 H2]. split; [right; exact H1|exact H2].
  - destruct (IH H) as [H1 H2]. split; [right; exact H1|exact H2].
Qed.

Lemma iter_window_incl_filter : forall from_ to_ l,
  exists rest, filter (fun x => (from_ <=? day x) && (day x <=? to_)) l = iter_window day from_ to_ l ++ rest.
Proof.
  intros from_ to_ l. induction l as [|y l IH]; cbn [iter_window filter].
  - exists []. reflexivity.
  - destruct (to_ <? day y) eqn:E.
    + eexists. cbn [app]. reflexivity.
    + destruct IH as [rest IH]. exists rest.
      destruct (from_ <=? day y) eqn:E2.
      * assert (Hx : (true && (day y <=? to_)) = true) by lia. rewrite Hx.
        cbn [app]. f_equal. exact IH.
      * cbn [andb]. exact IH.
Qed.

Lemma take_until_prefix : forall to_ l, exists rest, l = take_until day to_ l ++ rest.
Proof.
  intros to_ l. induction l as [|y l IH]; cbn [take_until].
  - exists []. reflexivity.
  - destruct (to_ <? day y).
    + exists (y :: l). reflexivity.
    + destruct IH as [rest IH]. exists rest. cbn [app]. f_equal. exact IH.
Qed.

(** additional facts used elsewhere: what is shown by [take_until] is in the list and not after [to_];
    [iter_window] is [take_until] followed by the lower-bound filter (no sortedness needed) *)
Lemma take_until_in : forall to_ l x, In x (take_until day to_ l) -> In x l /\ day x <= to_.
Proof.
  intros to_ l x. induction l as [|y l IH]; cbn [take_until]; intros H; [destruct H|].
  destruct (to_ <? day y) eqn:E; [destruct H|].
  destruct H as [H|H].
  - subst y. split; [left; reflexivity|lia].
  - destruct (IH H) as [H1 H2]. split; [right; exact H1|exact H2].
Qed.

Lemma iter_window_take_until : forall from_ to_ l,
  iter_window day from_ to_ l = filter (fun x => from_ <=? day x) (take_until day to_ l).
Proof.
  intros from_ to_ l. induction l as [|y l IH]; cbn [iter_window take_until filter]; [reflexivity|].
  destruct (to_ <? day y); [reflexivity|]. cbn [filter].
  destruct (from_ <=? day y); [f_equal|]; exact IH.
Qed.
End Filter.

(** sortedness is needed: days [1; 5; 2], window [0, 3] *)
Example iter_window_needs_sorted :
  exists l, iter_window (fun x => x) 0 3 l <> filter (fun x => (0 <=? x) && (x <=? 3)) l.
Proof. exists [1; 5; 2]. vm_compute. discriminate. Qed.

