(** Proofs for C17: order independence of the per-asset pipeline (rows permuted inside the tables,
    pairwise distinct instants), the artificial-id counter only renames artificial (FEE) rows, and
    the places where a Python set reaches the output go through a sort with an injective key. *)
From Coq Require Import Permutation Sorted.
From RP2V Require Import Base.Prelude Base.Time Base.Dec.
From RP2V Require Import Base.Sorting Model.Types Model.Generated.
From RP2V Require Import Model.Txn Model.Matcher Model.MatchSpec.
From RP2V Require Import Model.Pipeline Model.Parser Model.Computed.
From RP2V Require Import Model.MainRun Proofs.SortingProofs Proofs.PipelineWf.
From RP2V Require Import Proofs.BalanceProofs Proofs.YearlyProofs Proofs.RunLemmas.
Open Scope Z_scope.

(** * 1. permuting the rows of the tables *)

Lemma map_result_perm {A B} (f : A -> result B) : forall l l', Permutation l l' ->
  forall ys, map_result f l = Ok ys -> exists ys', map_result f l' = Ok ys' /\ Permutation ys ys'.
Proof.
  induction 1 as [|x l l' HP IH|x y l|l l' l'' HP1 IH1 HP2 IH2]; intros ys H.
  - exists ys; split; [exact H|apply Permutation_refl].
  - simpl in *. destruct (f x) as [b|]; [|discriminate].
    destruct (map_result f l) as [zs|] eqn:E; [|discriminate]. injection H as <-.
    destruct (IH zs eq_refl) as [zs' [-> HP']]. exists (b :: zs'); split; [reflexivity|apply perm_skip; exact HP'].
  - simpl in *. destruct (f y) as [b|]; [|discriminate]. destruct (f x) as [a|]; [|discriminate].
    destruct (map_result f l) as [zs|]; [|discriminate]. injection H as <-.
    exists (a :: b :: zs); split; [reflexivity|apply perm_swap].
  - destruct (IH1 ys H) as [ys' [H' P']]. destruct (IH2 ys' H') as [ys'' [H'' P'']].
    exists ys''; split; [exact H''|eapply Permutation_trans; eassumption].
Qed.

Lemma has_dup_false_NoDup l : has_dup l = false <-> NoDup l.
Proof.
  induction l as [|x l IH]; simpl.
  - split; [constructor|reflexivity].
  - rewrite orb_false_iff, IH. split.
    + intros [H1 H2]. constructor; auto. intros Hin.
      assert (existsb (Z.eqb x) l = true) by (apply existsb_exists; exists x; split; [exact Hin|apply Z.eqb_refl]). congruence.
    + intros H. inversion H as [|? ? Hn Hd]; subst. split; auto.
      apply not_true_is_false. intros He. apply existsb_exists in He as [y [Hy Hxy]]. apply Z.eqb_eq in Hxy. subst y. auto.
Qed.

Lemma has_dup_perm l l' : Permutation l l' -> has_dup l = has_dup l'.
Proof.
  intros HP. destruct (has_dup l) eqn:E, (has_dup l') eqn:E'; auto.
  - apply has_dup_false_NoDup in E'. apply (Permutation_NoDup (Permutation_sym HP)) in E'.
    apply has_dup_false_NoDup in E'. congruence.
  - apply has_dup_false_NoDup in E. apply (Permutation_NoDup HP) in E.
    apply has_dup_false_NoDup in E. congruence.
Qed.

Lemma mk_out_ts r a : mk_out r = Ok a -> o_ts a = ro_ts r /\ o_row a = ro_row r.
Proof. unfold mk_out. cbv zeta. crunch; intros [= <-]; cbn; auto. Qed.
Lemma mk_intra_ts r a : mk_intra r = Ok a -> x_ts a = rx_ts r /\ x_row a = rx_row r.
Proof. unfold mk_intra. cbv zeta. crunch; intros [= <-]; cbn; auto. Qed.

Definition hist_perm (h h' : hist) : Prop :=
  Permutation (h_ins h) (h_ins h') /\ Permutation (h_outs h) (h_outs h') /\ Permutation (h_intras h) (h_intras h').

Definition distinct_instants (h : hist) : Prop :=
  NoDup (map (fun r => utc_us (ri_ts r)) (h_ins h)) /\
  NoDup (map (fun r => utc_us (ro_ts r)) (h_outs h)) /\
  NoDup (map (fun r => utc_us (rx_ts r)) (h_intras h)).

Lemma hist_perm_sym h h' : hist_perm h h' -> hist_perm h' h.
Proof. intros (A & B & C); repeat split; apply Permutation_sym; assumption. Qed.

Lemma distinct_instants_perm h h' : hist_perm h h' -> distinct_instants h -> distinct_instants h'.
Proof.
  intros (A & B & C) (D & E & F). repeat split.
  - eapply Permutation_NoDup; [apply Permutation_map; exact A|exact D].
  - eapply Permutation_NoDup; [apply Permutation_map; exact B|exact E].
  - eapply Permutation_NoDup; [apply Permutation_map; exact C|exact F].
Qed.

(** the constructed, time-sorted transaction sets do not depend on the order of the rows *)
Theorem build_perm_invariant : forall h h' t,
  hist_perm h h' -> distinct_instants h -> build h = Ok t -> build h' = Ok t.
Proof.
  intros h h' t (PI & PO & PX) (DI & DO & DX) H. unfold build in *.
  destruct (map_result mk_in (h_ins h)) as [ins|] eqn:Ei; [|discriminate].
  destruct (map_result mk_out (h_outs h)) as [outs|] eqn:Eo; [|discriminate].
  destruct (map_result mk_intra (h_intras h)) as [intras|] eqn:Ex; [|discriminate].
  destruct (map_result_perm mk_in _ _ PI _ Ei) as [ins' [-> Pi]].
  destruct (map_result_perm mk_out _ _ PO _ Eo) as [outs' [-> Po]].
  destruct (map_result_perm mk_intra _ _ PX _ Ex) as [intras' [-> Px]].
  rewrite <- (has_dup_perm _ _ (Permutation_map i_row Pi)), <- (has_dup_perm _ _ (Permutation_map o_row Po)),
          <- (has_dup_perm _ _ (Permutation_map x_row Px)).
  destruct (has_dup (map i_row ins) || has_dup (map o_row outs) || has_dup (map x_row intras)); [discriminate|].
  destruct ins as [|i0 ins0] eqn:Eins; [discriminate|].
  destruct ins' as [|i0' ins0'] eqn:Eins'; [apply Permutation_sym, Permutation_nil in Pi; discriminate|].
  rewrite <- Eins in *. rewrite <- Eins' in *. injection H as <-. f_equal.
  assert (Ki : map in_us ins = map (fun r => utc_us (ri_ts r)) (h_ins h)).
  { apply (map_result_map mk_in (fun r => utc_us (ri_ts r)) in_us); [|exact Ei].
    intros x y Hxy. destruct (mk_in_fields _ _ Hxy) as (_ & Hts & _). unfold in_us. rewrite Hts. reflexivity. }
  assert (Ko : map out_us outs = map (fun r => utc_us (ro_ts r)) (h_outs h)).
  { apply (map_result_map mk_out (fun r => utc_us (ro_ts r)) out_us); [|exact Eo].
    intros x y Hxy. destruct (mk_out_ts _ _ Hxy) as (Hts & _). unfold out_us. rewrite Hts. reflexivity. }
  assert (Kx : map intra_us intras = map (fun r => utc_us (rx_ts r)) (h_intras h)).
  { apply (map_result_map mk_intra (fun r => utc_us (rx_ts r)) intra_us); [|exact Ex].
    intros x y Hxy. destruct (mk_intra_ts _ _ Hxy) as (Hts & _). unfold intra_us. rewrite Hts. reflexivity. }
  rewrite (sort_by_perm_distinct in_us ins ins' Pi) by (rewrite Ki; exact DI).
  rewrite (sort_by_perm_distinct out_us outs outs' Po) by (rewrite Ko; exact DO).
  rewrite (sort_by_perm_distinct intra_us intras intras' Px) by (rewrite Kx; exact DX).
  reflexivity.
Qed.

(** the whole per-asset pipeline up to the gain/loss fractions *)
Definition pipeline (always_repush : bool) (sched : list (Z * meth)) (h : hist) : result (txs * list txn * list fraction) :=
  match build h with
  | Err e => Err e
  | Ok t => match taxable_events t with
            | Err e => Err e
            | Ok evs => match run_matcher always_repush (t_ins t) sched (map event_of evs) with
                        | Err e => Err e
                        | Ok fs => Ok (t, evs, fs)
                        end
            end
  end.

Lemma pipeline_fractions b sched h t evs fs : pipeline b sched h = Ok (t, evs, fs) -> fractions_of b sched t = Ok fs.
Proof.
  unfold pipeline, fractions_of. destruct (build h) as [t'|]; [|discriminate].
  destruct (taxable_events t') as [evs'|] eqn:E; [|discriminate].
  destruct (run_matcher b (t_ins t') sched (map event_of evs')) as [fs'|] eqn:R; [|discriminate].
  intros [= <- <- <-]. rewrite E. exact R.
Qed.

Theorem pipeline_perm_invariant : forall b sched h h',
  hist_perm h h' -> distinct_instants h ->
  (forall r, pipeline b sched h = Ok r <-> pipeline b sched h' = Ok r) /\
  ((exists e, pipeline b sched h = Err e) <-> (exists e, pipeline b sched h' = Err e)).
Proof.
  intros b sched h h' HP HD.
  assert (Hb : forall t, build h = Ok t <-> build h' = Ok t).
  { intros t; split; intros H.
    - eapply build_perm_invariant; eassumption.
    - eapply build_perm_invariant; [apply hist_perm_sym; exact HP|eapply distinct_instants_perm; eassumption|exact H]. }
  assert (Hcase : (exists t, build h = Ok t /\ build h' = Ok t) \/ ((exists e, build h = Err e) /\ (exists e', build h' = Err e'))).
  { destruct (build h) as [t|e] eqn:E.
    - left. exists t. split; [reflexivity|]. apply (Hb t). reflexivity.
    - right. split; [eauto|]. destruct (build h') as [t'|e'] eqn:E'; [|eauto].
      assert (X : Err e = Ok t') by (apply (Hb t'); reflexivity). discriminate X. }
  assert (Hr : forall r, pipeline b sched h = Ok r <-> pipeline b sched h' = Ok r).
  { intros r. unfold pipeline. destruct Hcase as [[t [-> ->]]|[[e ->] [e' ->]]]; [tauto|split; discriminate]. }
  split; [exact Hr|].
  split; intros [e He].
  - destruct (pipeline b sched h') as [r|e'] eqn:E; [|eauto].
    assert (X : pipeline b sched h = Ok r) by (apply (Hr r); reflexivity). congruence.
  - destruct (pipeline b sched h) as [r|e'] eqn:E; [|eauto].
    assert (X : pipeline b sched h' = Ok r) by (apply (Hr r); reflexivity). congruence.
Qed.

(** * 2. the artificial-id counter only renames the artificial rows *)

Definition shift_out (d : Z) (o : outtx) : outtx :=
  {| o_row := o_row o + d; o_ts := o_ts o; o_exch := o_exch o; o_holder := o_holder o; o_type := o_type o;
     o_spot := o_spot o; o_crypto_out_no_fee := o_crypto_out_no_fee o; o_crypto_fee := o_crypto_fee o;
     o_crypto_out_with_fee := o_crypto_out_with_fee o; o_fiat_out_no_fee := o_fiat_out_no_fee o;
     o_fiat_fee := o_fiat_fee o; o_fiat_out_with_fee := o_fiat_out_with_fee o |}.

Definition map_res {A B} (f : A -> B) (r : result A) : result B := match r with Ok x => Ok (f x) | Err e => Err e end.

Lemma fee_out_shift a id d : fee_out a (id + d) = map_res (shift_out d) (fee_out a id).
Proof.
  unfold fee_out, mk_out. cbv zeta. cbn [ro_row ro_ts ro_exch ro_holder ro_type ro_spot ro_crypto_out_no_fee ro_crypto_fee
    ro_crypto_out_with_fee ro_fiat_out_no_fee ro_fiat_fee].
  repeat match goal with |- context [if ?c then _ else _] => destruct c; cbn [map_res]; try reflexivity end.
Qed.

(** ids below the counter's start value [c0] are the artificial ones; sheet rows are numbered from 1 >= c0 *)
Definition shift_row (d c0 r : Z) : Z := if r <? c0 then r + d else r.
Definition shift_meta (d c0 : Z) (m : list (Z * arg * arg)) : list (Z * arg * arg) :=
  map (fun e => match e with (r, a, b) => (shift_row d c0 r, a, b) end) m.

Definition shift_state (d c0 : Z) (s : pstate) : pstate :=
  {| ps_cur := ps_cur s; ps_count := ps_count s; ps_ins := ps_ins s; ps_outs := ps_outs s; ps_intras := ps_intras s;
     ps_art := map (shift_out d) (ps_art s); ps_counter := ps_counter s + d;
     ps_meta := shift_meta d c0 (ps_meta s); ps_seen := ps_seen s |}.

Lemma shift_row_real d c0 r : c0 <= r -> shift_row d c0 r = r.
Proof. intros H. unfold shift_row. destruct (r <? c0) eqn:E; auto. apply Z.ltb_lt in E. lia. Qed.
Lemma shift_row_art d c0 r : r < c0 -> shift_row d c0 r = r + d.
Proof. intros H. unfold shift_row. destruct (r <? c0) eqn:E; auto. apply Z.ltb_ge in E. lia. Qed.

Lemma data_row_shift d c0 cfg asset s t rowno row :
  ps_counter s <= c0 -> c0 <= rowno ->
  data_row cfg asset (shift_state d c0 s) t rowno row = map_res (shift_state d c0) (data_row cfg asset s t rowno row).
Proof.
  intros Hc Hr. destruct t; unfold data_row, bind; cbv zeta.
  - destruct (create_in cfg rowno row) as [r|]; [|reflexivity].
    destruct (mk_in r) as [a|]; [|reflexivity].
    destruct (negb (asset_is cfg (pc_in cfg) row asset)); [reflexivity|].
    destruct (0 <? i_crypto_fee a).
    + destruct (split_in a) as [a'|]; [|reflexivity].
      cbn [ps_counter shift_state]. replace (ps_counter s + d - 1) with (ps_counter s - 1 + d) by lia.
      rewrite fee_out_shift. destruct (fee_out a (ps_counter s - 1)) as [o|]; [|reflexivity].
      cbn [map_res]. unfold shift_state, upd_state. cbn [ps_cur ps_count ps_ins ps_outs ps_intras ps_art ps_counter ps_meta ps_seen].
      unfold shift_meta. rewrite !map_app. cbn [map].
      rewrite (shift_row_real d c0 rowno Hr), (shift_row_art d c0 (ps_counter s - 1)) by lia. reflexivity.
    + cbn [map_res]. unfold shift_state, upd_state. cbn [ps_cur ps_count ps_ins ps_outs ps_intras ps_art ps_counter ps_meta ps_seen].
      unfold shift_meta. rewrite !map_app. cbn [map]. rewrite (shift_row_real d c0 rowno Hr). reflexivity.
  - destruct (create_out cfg rowno row) as [r|]; [|reflexivity].
    destruct (mk_out r) as [a|]; [|reflexivity].
    destruct (negb (asset_is cfg (pc_out cfg) row asset)); [reflexivity|].
    cbn [map_res]. unfold shift_state, upd_state. cbn [ps_cur ps_count ps_ins ps_outs ps_intras ps_art ps_counter ps_meta ps_seen].
    unfold shift_meta. rewrite !map_app. cbn [map]. rewrite (shift_row_real d c0 rowno Hr). reflexivity.
  - destruct (create_intra cfg rowno row) as [r|]; [|reflexivity].
    destruct (mk_intra r) as [a|]; [|reflexivity].
    destruct (negb (asset_is cfg (pc_intra cfg) row asset)); [reflexivity|].
    cbn [map_res]. unfold shift_state, upd_state. cbn [ps_cur ps_count ps_ins ps_outs ps_intras ps_art ps_counter ps_meta ps_seen].
    unfold shift_meta. rewrite !map_app. cbn [map]. rewrite (shift_row_real d c0 rowno Hr). reflexivity.
Qed.

Lemma data_row_counter cfg asset s t rowno row s' : data_row cfg asset s t rowno row = Ok s' -> ps_counter s' <= ps_counter s.
Proof.
  destruct t; unfold data_row, bind; cbv zeta.
  - destruct (create_in cfg rowno row) as [r|]; [|discriminate].
    destruct (mk_in r) as [a|]; [|discriminate].
    destruct (negb (asset_is cfg (pc_in cfg) row asset)); [discriminate|].
    destruct (0 <? i_crypto_fee a).
    + destruct (split_in a) as [a'|]; [|discriminate].
      destruct (fee_out a (ps_counter s - 1)) as [o|]; [|discriminate]. intros [= <-]. cbn. lia.
    + intros [= <-]. cbn. lia.
  - destruct (create_out cfg rowno row) as [r|]; [|discriminate].
    destruct (mk_out r) as [a|]; [|discriminate].
    destruct (negb (asset_is cfg (pc_out cfg) row asset)); [discriminate|]. intros [= <-]. cbn. lia.
  - destruct (create_intra cfg rowno row) as [r|]; [|discriminate].
    destruct (mk_intra r) as [a|]; [|discriminate].
    destruct (negb (asset_is cfg (pc_intra cfg) row asset)); [discriminate|]. intros [= <-]. cbn. lia.
Qed.

Ltac bad_scrut s row :=
  destruct (match ps_cur s with
            | Some _ => (match table_of_cell (nth 0 row CEmpty) with Some _ => true | None => false end) || is_empty_cell (nth 0 row CEmpty)
            | None => is_table_end (nth 0 row CEmpty) || (negb (is_empty_cell (nth 0 row CEmpty)) &&
                      (match table_of_cell (nth 0 row CEmpty) with Some _ => false | None => true end))
            end).

Lemma row_step_counter rem cfg asset s rowno row s' : row_step_gen rem cfg asset s rowno row = Ok s' -> ps_counter s' <= ps_counter s.
Proof.
  unfold row_step_gen. cbv zeta. bad_scrut s row; [discriminate|].
  destruct (table_of_cell (nth 0 row CEmpty)) as [t|].
  - destruct (repeated_table rem s t); [discriminate|]. intros [= <-]. cbn. lia.
  - destruct (is_table_end (nth 0 row CEmpty)); [intros [= <-]; cbn; lia|].
    destruct (ps_cur s) as [t|]; [|intros [= <-]; cbn; lia].
    destruct (ps_count s =? 1).
    + destruct (constructs cfg t rowno row); [discriminate|]. intros [= <-]. cbn. lia.
    + destruct (data_row cfg asset s t rowno row) as [s1|] eqn:E; [|discriminate].
      intros [= <-]. cbn. eapply data_row_counter; exact E.
Qed.

Lemma row_step_shift rem d c0 cfg asset s rowno row :
  ps_counter s <= c0 -> c0 <= rowno ->
  row_step_gen rem cfg asset (shift_state d c0 s) rowno row = map_res (shift_state d c0) (row_step_gen rem cfg asset s rowno row).
Proof.
  intros Hc Hr. unfold row_step_gen. cbv zeta. cbn [ps_cur ps_count shift_state].
  bad_scrut s row; [reflexivity|].
  destruct (table_of_cell (nth 0 row CEmpty)) as [t|].
  - assert (Hse : repeated_table rem (shift_state d c0 s) t = repeated_table rem s t) by (destruct rem, t; reflexivity).
    rewrite Hse. destruct (repeated_table rem s t); reflexivity.
  - destruct (is_table_end (nth 0 row CEmpty)); [reflexivity|].
    destruct (ps_cur s) as [t|]; [|reflexivity].
    destruct (ps_count s =? 1).
    + destruct (constructs cfg t rowno row); reflexivity.
    + rewrite data_row_shift by assumption. destruct (data_row cfg asset s t rowno row) as [s'|]; reflexivity.
Qed.

Lemma parse_rows_shift rem d c0 cfg asset : forall rows s rowno,
  ps_counter s <= c0 -> c0 <= rowno ->
  parse_rows_gen rem cfg asset (shift_state d c0 s) rowno rows = map_res (shift_state d c0) (parse_rows_gen rem cfg asset s rowno rows).
Proof.
  induction rows as [|r rows IH]; intros s rowno Hc Hr; simpl; [reflexivity|].
  rewrite row_step_shift by assumption.
  destruct (row_step_gen rem cfg asset s rowno r) as [s'|] eqn:E; simpl; [|reflexivity].
  apply IH; [|lia]. apply row_step_counter in E. lia.
Qed.

(** the parse result with its artificial FEE rows kept apart *)
Record parts := { pp_ins : list intx; pp_outs : list outtx; pp_art : list outtx; pp_intras : list intratx; pp_counter : Z;
                  pp_meta : list (Z * arg * arg) }.
Definition merge (p : parts) : parsed :=
  {| pa_ins := pp_ins p; pa_outs := pp_outs p ++ pp_art p; pa_intras := pp_intras p; pa_counter := pp_counter p; pa_meta := pp_meta p |}.
Definition shift_parts (d c0 : Z) (p : parts) : parts :=
  {| pp_ins := pp_ins p; pp_outs := pp_outs p; pp_art := map (shift_out d) (pp_art p); pp_intras := pp_intras p;
     pp_counter := pp_counter p + d; pp_meta := shift_meta d c0 (pp_meta p) |}.
Definition init_state (counter : Z) : pstate :=
  {| ps_cur := None; ps_count := 0; ps_ins := []; ps_outs := []; ps_intras := []; ps_art := []; ps_counter := counter;
     ps_meta := []; ps_seen := [] |}.
Definition parse_parts_gen (rem : bool) (cfg : pcfg) (asset : str) (counter : Z) (rows : list (list cell)) : result parts :=
  match str_index asset (pc_assets cfg) 0 with
  | None => Err EValue
  | Some _ =>
    match parse_rows_gen rem cfg asset (init_state counter) 1 rows with
    | Err e => Err e
    | Ok s => match ps_cur s with
              | Some _ => Err EValue
              | None => match ps_ins s with
                        | [] => Err EValue
                        | _ => Ok {| pp_ins := ps_ins s; pp_outs := ps_outs s; pp_art := ps_art s; pp_intras := ps_intras s;
                                     pp_counter := ps_counter s; pp_meta := ps_meta s |}
                        end
              end
    end
  end.
Definition parse_parts := parse_parts_gen gen_parser_remembers_tables.

Lemma parse_sheet_parts_gen rem cfg asset counter rows :
  parse_sheet_gen rem cfg asset counter rows = map_res merge (parse_parts_gen rem cfg asset counter rows).
Proof.
  unfold parse_sheet_gen, parse_parts_gen, init_state. destruct (str_index asset (pc_assets cfg) 0); [|reflexivity].
  destruct (parse_rows_gen rem cfg asset _ 1 rows) as [s|]; [|reflexivity].
  destruct (ps_cur s); [reflexivity|]. destruct (ps_ins s); reflexivity.
Qed.

Theorem parse_parts_counter : forall rem cfg asset c d rows, c <= 1 ->
  parse_parts_gen rem cfg asset (c + d) rows = map_res (shift_parts d c) (parse_parts_gen rem cfg asset c rows).
Proof.
  intros rem cfg asset c d rows Hc. unfold parse_parts_gen.
  destruct (str_index asset (pc_assets cfg) 0); [|reflexivity].
  change (init_state (c + d)) with (shift_state d c (init_state c)).
  rewrite parse_rows_shift by (cbn; lia). destruct (parse_rows_gen rem cfg asset (init_state c) 1 rows) as [s|]; [|reflexivity].
  cbn [map_res shift_state ps_cur ps_ins]. destruct (ps_cur s); [reflexivity|].
  destruct (ps_ins s); reflexivity.
Qed.

(** parsing a sheet with another value of the counter (which starts at 0 and only decreases, so c <= 1 = the first sheet
    row) gives the same transactions, except that the artificial FEE out-transactions -- and their entries in the
    row-id -> (unique id, notes) table -- carry ids shifted by the same amount; success and failure coincide *)
Theorem counter_only_renames_artificial_ids : forall cfg asset c d rows, c <= 1 ->
  match parse_sheet cfg asset c rows with
  | Err e => parse_sheet cfg asset (c + d) rows = Err e
  | Ok p => exists real arts,
      pa_outs p = real ++ arts /\
      parse_sheet cfg asset (c + d) rows =
        Ok {| pa_ins := pa_ins p; pa_outs := real ++ map (shift_out d) arts; pa_intras := pa_intras p; pa_counter := pa_counter p + d;
              pa_meta := shift_meta d c (pa_meta p) |}
  end.
Proof.
  intros cfg asset c d rows Hc. unfold parse_sheet. rewrite !parse_sheet_parts_gen, parse_parts_counter by exact Hc.
  destruct (parse_parts_gen gen_parser_remembers_tables cfg asset c rows) as [p|e]; cbn [map_res]; [|reflexivity].
  exists (pp_outs p), (pp_art p). split; reflexivity.
Qed.

(** artificial ids lie below the counter's start value and are pairwise distinct *)
Lemma fee_out_row a id o : fee_out a id = Ok o -> o_row o = id.
Proof. unfold fee_out. intros H. apply mk_out_ts in H as [_ H]. exact H. Qed.

Lemma NoDup_app_one {A} (l : list A) x : NoDup l -> ~ In x l -> NoDup (l ++ [x]).
Proof.
  intros Hn Hx. apply NoDup_rev in Hn. rewrite <- (rev_involutive (l ++ [x])). apply NoDup_rev.
  rewrite rev_app_distr. simpl. constructor; [rewrite <- in_rev; exact Hx|exact Hn].
Qed.

Definition art_inv (c0 : Z) (s : pstate) : Prop :=
  ps_counter s <= c0 /\ Forall (fun o => ps_counter s <= o_row o < c0) (ps_art s) /\ NoDup (map o_row (ps_art s)).

Lemma data_row_art c0 cfg asset s t rowno row s' :
  art_inv c0 s -> data_row cfg asset s t rowno row = Ok s' -> art_inv c0 s'.
Proof.
  intros (Hc & Hf & Hn). destruct t; unfold data_row, bind; cbv zeta.
  - destruct (create_in cfg rowno row) as [r|]; [|discriminate].
    destruct (mk_in r) as [a|]; [|discriminate].
    destruct (negb (asset_is cfg (pc_in cfg) row asset)); [discriminate|].
    destruct (0 <? i_crypto_fee a).
    + destruct (split_in a) as [a'|]; [|discriminate].
      destruct (fee_out a (ps_counter s - 1)) as [o|] eqn:Eo; [|discriminate].
      intros [= <-]. apply fee_out_row in Eo. unfold art_inv, upd_state. cbn [ps_counter ps_art]. split; [lia|]. split.
      * apply Forall_app; split; [|constructor; [lia|constructor]].
        eapply Forall_impl; [|exact Hf]. cbv beta. intros; lia.
      * rewrite map_app. simpl. apply NoDup_app_one; [exact Hn|].
        intros Hin. apply in_map_iff in Hin as [o' [Ho' Hin]]. rewrite Forall_forall in Hf. specialize (Hf o' Hin). lia.
    + intros [= <-]. unfold art_inv, upd_state; cbn [ps_counter ps_art]; auto.
  - destruct (create_out cfg rowno row) as [r|]; [|discriminate].
    destruct (mk_out r) as [a|]; [|discriminate].
    destruct (negb (asset_is cfg (pc_out cfg) row asset)); [discriminate|].
    intros [= <-]. unfold art_inv, upd_state; cbn [ps_counter ps_art]; auto.
  - destruct (create_intra cfg rowno row) as [r|]; [|discriminate].
    destruct (mk_intra r) as [a|]; [|discriminate].
    destruct (negb (asset_is cfg (pc_intra cfg) row asset)); [discriminate|].
    intros [= <-]. unfold art_inv, upd_state; cbn [ps_counter ps_art]; auto.
Qed.

Lemma row_step_art rem c0 cfg asset s rowno row s' :
  art_inv c0 s -> row_step_gen rem cfg asset s rowno row = Ok s' -> art_inv c0 s'.
Proof.
  intros Hi. unfold row_step_gen. cbv zeta. bad_scrut s row; [discriminate|].
  destruct (table_of_cell (nth 0 row CEmpty)) as [t|].
  - destruct (repeated_table rem s t); [discriminate|]. intros [= <-]. exact Hi.
  - destruct (is_table_end (nth 0 row CEmpty)); [intros [= <-]; exact Hi|].
    destruct (ps_cur s) as [t|]; [|intros [= <-]; exact Hi].
    destruct (ps_count s =? 1).
    + destruct (constructs cfg t rowno row); [discriminate|]. intros [= <-]. exact Hi.
    + destruct (data_row cfg asset s t rowno row) as [s1|] eqn:E; [|discriminate].
      intros [= <-]. change (art_inv c0 s1). eapply data_row_art; eassumption.
Qed.

Lemma parse_rows_art rem c0 cfg asset : forall rows s rowno s',
  art_inv c0 s -> parse_rows_gen rem cfg asset s rowno rows = Ok s' -> art_inv c0 s'.
Proof.
  induction rows as [|r rows IH]; intros s rowno s' Hi; simpl.
  - intros [= <-]; exact Hi.
  - destruct (row_step_gen rem cfg asset s rowno r) as [s1|] eqn:E; [|discriminate].
    intros H. eapply IH; [|exact H]. eapply row_step_art; eassumption.
Qed.

(** artificial ids lie strictly below the counter's start value (so they are negative when it starts at or
    below zero, as Configuration's counter does) and are pairwise distinct *)
Theorem artificial_ids_below_counter : forall cfg asset c rows p,
  parse_parts cfg asset c rows = Ok p ->
  pp_counter p <= c /\ Forall (fun o => pp_counter p <= o_row o < c) (pp_art p) /\ NoDup (map o_row (pp_art p)).
Proof.
  intros cfg asset c rows p. unfold parse_parts, parse_parts_gen.
  destruct (str_index asset (pc_assets cfg) 0); [|discriminate].
  destruct (parse_rows_gen gen_parser_remembers_tables cfg asset (init_state c) 1 rows) as [s|] eqn:E; [|discriminate].
  assert (Hi : art_inv c s).
  { eapply parse_rows_art; [|exact E]. unfold art_inv, init_state; cbn. split; [lia|]. split; constructor. }
  destruct (ps_cur s); [discriminate|]. destruct (ps_ins s); [discriminate|].
  intros [= <-]. exact Hi.
Qed.

(** * 3. where a Python set reaches the output it is sorted with an injective key *)

Lemma str_leb_refl a : str_leb a a = true.
Proof. induction a as [|x a IH]; simpl; auto. rewrite Z.ltb_irrefl. exact IH. Qed.

Lemma str_leb_antisym : forall a b, str_leb a b = true -> str_leb b a = true -> a = b.
Proof.
  induction a as [|x a IH]; intros [|y b]; cbn [str_leb]; try congruence.
  destruct (x <? y) eqn:E1; destruct (y <? x) eqn:E2; try congruence.
  - apply Z.ltb_lt in E1, E2. lia.
  - intros H1 H2. apply Z.ltb_ge in E1, E2. assert (x = y) by lia. subst y. f_equal. apply IH; assumption.
Qed.

Section SortedUnique.
Context {A : Type} (R : A -> A -> Prop).
Hypothesis R_antisym : forall a b, R a b -> R b a -> a = b.
Hypothesis R_refl : forall a, R a a.

Lemma sorted_perm_unique : forall l l', StronglySorted R l -> StronglySorted R l' -> Permutation l l' -> l = l'.
Proof.
  induction l as [|x l IH]; intros l' Hs Hs' HP.
  - apply Permutation_nil in HP. symmetry; exact HP.
  - destruct l' as [|x' l']; [apply Permutation_sym, Permutation_nil in HP; discriminate|].
    inversion Hs as [|? ? Hsl Hall]; subst. inversion Hs' as [|? ? Hsl' Hall']; subst.
    assert (x = x').
    { assert (Hx : In x (x' :: l')) by (eapply Permutation_in; [exact HP|left; reflexivity]).
      assert (Hx' : In x' (x :: l)) by (eapply Permutation_in; [apply Permutation_sym; exact HP|left; reflexivity]).
      rewrite Forall_forall in Hall, Hall'.
      destruct Hx as [->|Hx]; [reflexivity|]. destruct Hx' as [->|Hx']; [reflexivity|].
      apply R_antisym; [apply Hall; exact Hx'|apply Hall'; exact Hx]. }
    subst x'. f_equal. apply IH; auto. eapply Permutation_cons_inv; exact HP.
Qed.
End SortedUnique.

(** the configured assets are a set: whatever order they are iterated in, the run processes them in
    the same (sorted) order *)
Theorem assets_order_independent : forall l l', Permutation l l' -> sort_leb str_leb l = sort_leb str_leb l'.
Proof.
  intros l l' HP.
  apply (sorted_perm_unique (fun a b => str_leb a b = true)).
  - intros a b; apply str_leb_antisym.
  - apply sort_leb_sorted; [apply str_leb_total|apply str_leb_trans].
  - apply sort_leb_sorted; [apply str_leb_total|apply str_leb_trans].
  - eapply Permutation_trans; [apply sort_leb_perm|].
    eapply Permutation_trans; [exact HP|apply Permutation_sym, sort_leb_perm].
Qed.

Theorem run_config_order_independent : forall c o cf cf' inp,
  Permutation (cf_assets cf) (cf_assets cf') -> cf_sched cf = cf_sched cf' -> MainRun.run c o cf inp = MainRun.run c o cf' inp.
Proof.
  intros c o cf cf' inp HP Hs.
  assert (Ha : assets_to_process o cf = assets_to_process o cf').
  { unfold assets_to_process. destruct (o_asset o); [reflexivity|]. apply assets_order_independent; exact HP. }
  unfold MainRun.run, schedule, processed_facts. rewrite Ha, Hs. reflexivity.
Qed.

(** the yearly summary lines are collected in a set and then sorted by a key that is injective on
    (year, type, long/short): any iteration order of the set gives the same list *)
Theorem yearly_lines_order_independent : forall period gls m l',
  lines period gls = Ok m -> Permutation (map snd m) l' ->
  sort_by (fun l => - yline_key l) l' = sort_by (fun l => - yline_key l) (map snd m).
Proof.
  intros period gls m l' Hm HP. symmetry. apply sort_by_perm_distinct; [exact HP|].
  rewrite <- (map_map yline_key Z.opp). apply FinFun.Injective_map_NoDup.
  - intros a b Hab. lia.
  - rewrite (lines_values_keys _ _ _ Hm). apply (yearly_lines_spec _ _ _ Hm).
Qed.

(** non-vacuity: a two-row history whose rows are swapped *)
Definition ex_ts (u : Z) : tstamp := {| utc_us := u; off_s := 0 |}.
Definition ex_in (row u : Z) : raw_in :=
  {| ri_row := row; ri_ts := ex_ts u; ri_exch := 0; ri_holder := 0; ri_type := BUY; ri_spot := 100; ri_crypto_in := 5;
     ri_crypto_fee := None; ri_fiat_in_no_fee := None; ri_fiat_in_with_fee := None; ri_fiat_fee := None |}.
Definition ex_h : hist := {| h_ins := [ex_in 3 1000; ex_in 4 2000]; h_outs := []; h_intras := [] |}.
Definition ex_h' : hist := {| h_ins := [ex_in 4 2000; ex_in 3 1000]; h_outs := []; h_intras := [] |}.
Example perm_example : hist_perm ex_h ex_h' /\ distinct_instants ex_h /\ (exists t, build ex_h = Ok t) /\ build ex_h = build ex_h'.
Proof.
  split; [|split; [|split]].
  - repeat split; simpl; [apply perm_swap|apply Permutation_refl|apply Permutation_refl].
  - repeat split; simpl; repeat constructor; simpl; intuition discriminate.
  - eexists. vm_compute. reflexivity.
  - vm_compute. reflexivity.
Qed.

(** * 4. the matcher treats the row id of an event as an opaque label *)
Section EventRenaming.
Variable rho : Z -> Z.
Variable ar : bool.
Variable lots : list intx.

Definition ren_ev (e : event) : event :=
  {| e_row := rho (e_row e); e_us := e_us e; e_year := e_year e; e_earn := e_earn e; e_amt := e_amt e |}.
Definition ren_frac (f : fraction) : fraction :=
  {| f_ev := rho (f_ev f); f_lot := f_lot f; f_amt := f_amt f |}.
Definition ren_nxt (n : nxt) : nxt :=
  match n with Done => Done | Next s evs e l ea la => Next s (map ren_ev evs) (ren_ev e) l ea la end.

Lemma lot_for_event_ren s e a b : lot_for_event ar lots s (ren_ev e) a b = lot_for_event ar lots s e a b.
Proof. reflexivity. Qed.

Lemma next_event_ren s evs cur cl ea la :
  next_event ar lots s (map ren_ev evs) (option_map ren_ev cur) cl ea la = map_res ren_nxt (next_event ar lots s evs cur cl ea la).
Proof.
  unfold next_event. destruct evs as [|ne rest]; [reflexivity|]. cbn [map]. cbv zeta.
  destruct cur as [ce|]; cbn [option_map]; [|reflexivity].
  change (e_us (ren_ev ce)) with (e_us ce). change (e_us (ren_ev ne)) with (e_us ne). change (e_amt (ren_ev ne)) with (e_amt ne).
  destruct (e_us ce <? e_us ne); [|reflexivity].
  rewrite lot_for_event_ren.
  destruct (lot_for_event ar lots _ ne (e_amt ne) _) as [[[[s2 i] x] a]|]; reflexivity.
Qed.

Lemma next_event_and_lot_ren s evs cur cl ea la :
  next_event_and_lot ar lots s (map ren_ev evs) (option_map ren_ev cur) cl ea la =
  map_res ren_nxt (next_event_and_lot ar lots s evs cur cl ea la).
Proof.
  unfold next_event_and_lot. rewrite next_event_ren.
  destruct (next_event ar lots s evs cur cl ea la) as [[|s1 rest ne nl nea nla]|]; cbn [map_res ren_nxt]; try reflexivity.
  destruct (opt_lot_eq lots cl nl); [|reflexivity].
  rewrite lot_for_event_ren. destruct (lot_for_event ar lots s1 ne nea nla) as [[[[s2 i] x] a]|]; reflexivity.
Qed.

Lemma mk_frac_ren e l x : mk_frac lots (ren_ev e) l x = ren_frac (mk_frac lots e l x).
Proof. reflexivity. Qed.

Lemma loop_ren : forall f s evs e l ea la out,
  loop ar lots f s (map ren_ev evs) (ren_ev e) l ea la (map ren_frac out) =
  map_res (map ren_frac) (loop ar lots f s evs e l ea la out).
Proof.
  induction f as [|f IH]; intros s evs e l ea la out; [reflexivity|].
  cbn [loop]. cbv zeta beta. destruct l as [li|]; [|reflexivity].
  destruct ((ea <? 0) || (la <? 0)); [reflexivity|].
  change (e_earn (ren_ev e)) with (e_earn e).
  assert (Hcont : forall r out',
    match map_res ren_nxt r with
    | Err x => Err x
    | Ok Done => Ok (rev (map ren_frac out'))
    | Ok (Next s' evs' e' l' ea' la') => loop ar lots f s' evs' e' l' ea' la' (map ren_frac out')
    end = map_res (map ren_frac) match r with
                                 | Err x => Err x
                                 | Ok Done => Ok (rev out')
                                 | Ok (Next s' evs' e' l' ea' la') => loop ar lots f s' evs' e' l' ea' la' out'
                                 end).
  { intros [[|s' evs' e' l' ea' la']|x] out'; cbn [map_res ren_nxt]; [rewrite map_rev; reflexivity|apply IH|reflexivity]. }
  change (Some (ren_ev e)) with (option_map ren_ev (Some e)).
  destruct (e_earn e).
  - destruct (ea <=? 0); [reflexivity|].
    rewrite mk_frac_ren, next_event_ren. apply (Hcont _ (mk_frac lots e None ea :: out)).
  - destruct (ea =? la).
    + destruct (ea <=? 0); [reflexivity|].
      rewrite mk_frac_ren, next_event_and_lot_ren. apply (Hcont _ (mk_frac lots e (Some li) ea :: out)).
    + destruct (ea <? la).
      * destruct (ea <=? 0); [reflexivity|].
        rewrite mk_frac_ren, next_event_ren. apply (Hcont _ (mk_frac lots e (Some li) ea :: out)).
      * destruct (la <=? 0); [reflexivity|].
        rewrite lot_for_event_ren. destruct (lot_for_event ar lots s e ea la) as [[[[s' i] ea'] la']|]; [|reflexivity].
        rewrite mk_frac_ren. apply (IH s' evs e (Some i) ea' la' (mk_frac lots e (Some li) la :: out)).
Qed.

(** renaming the row ids of the taxable events (e.g. the artificial ids of fee events, which depend on the
    counter and hence on the assets processed before) renames them in the fractions and changes nothing else *)
Theorem matcher_event_renaming : forall sched evs,
  run_matcher ar lots sched (map ren_ev evs) = map_res (map ren_frac) (run_matcher ar lots sched evs).
Proof.
  intros sched evs. unfold run_matcher. destruct lots as [|l0 lr] eqn:El; [reflexivity|]. rewrite <- El.
  pose proof (next_event_and_lot_ren (Matcher.init_state lots sched) evs None None 0 0) as H. cbn [option_map] in H. rewrite H. clear H.
  destruct (next_event_and_lot ar lots (Matcher.init_state lots sched) evs None None 0 0) as [[|s evs' e l ea la]|]; cbn [map_res ren_nxt]; try reflexivity.
  unfold run_fuel. rewrite map_length. change (@nil fraction) with (map ren_frac []). apply loop_ren.
Qed.
End EventRenaming.

(** * 5. renaming the ids of out-transactions (the artificial FEE rows are out-transactions) end to end:
      transaction sets -> taxable events -> fractions *)
Section OutRenaming.
Variable rho : Z -> Z.

Definition ren_out (o : outtx) : outtx :=
  {| o_row := rho (o_row o); o_ts := o_ts o; o_exch := o_exch o; o_holder := o_holder o; o_type := o_type o;
     o_spot := o_spot o; o_crypto_out_no_fee := o_crypto_out_no_fee o; o_crypto_fee := o_crypto_fee o;
     o_crypto_out_with_fee := o_crypto_out_with_fee o; o_fiat_out_no_fee := o_fiat_out_no_fee o;
     o_fiat_fee := o_fiat_fee o; o_fiat_out_with_fee := o_fiat_out_with_fee o |}.
Definition ren_txs (t : txs) : txs := {| t_ins := t_ins t; t_outs := map ren_out (t_outs t); t_intras := t_intras t |}.
Definition ren_txn (x : txn) : txn := match x with TOut o => TOut (ren_out o) | _ => x end.

Lemma sort_by_ext {A} (k1 k2 : A -> Z) : (forall x, k1 x = k2 x) -> forall l, sort_by k1 l = sort_by k2 l.
Proof.
  intros He. assert (Hi : forall x l, insert_by k1 x l = insert_by k2 x l).
  { intros x l; induction l as [|y l IH]; simpl; auto. rewrite !He, IH. reflexivity. }
  induction l as [|x l IH]; simpl; auto. rewrite IH. apply Hi.
Qed.

Lemma filter_map_comm {A B} (f : A -> B) (p : B -> bool) (q : A -> bool) : (forall x, p (f x) = q x) ->
  forall l, filter p (map f l) = map f (filter q l).
Proof. intros H; induction l as [|x l IH]; simpl; auto. rewrite H. destruct (q x); simpl; rewrite IH; reflexivity. Qed.

Lemma taxable_unsorted_ren t : taxable_unsorted (ren_txs t) = map ren_txn (taxable_unsorted t).
Proof.
  unfold taxable_unsorted, ren_txs. cbn [t_ins t_outs t_intras].
  rewrite (filter_map_comm ren_out out_is_taxable out_is_taxable) by reflexivity.
  rewrite !map_app, !map_map. reflexivity.
Qed.

Lemma NoDup_map_inj_on {A B} (f : A -> B) l : (forall x y, In x l -> In y l -> f x = f y -> x = y) -> NoDup l -> NoDup (map f l).
Proof.
  induction l as [|x l IH]; intros Hinj Hn; simpl; [constructor|].
  inversion Hn as [|? ? Hx Hl]; subst. constructor.
  - intros Hin. apply in_map_iff in Hin as [y [Hy Hin]]. assert (y = x) by (apply Hinj; simpl; auto). subst y. auto.
  - apply IH; auto. intros a b Ha Hb; apply Hinj; simpl; auto.
Qed.

Variable t : txs.
(** the renaming leaves the rows of acquisitions and transfers alone and is injective on the rows present *)
Hypothesis rho_ins : forall a, In a (t_ins t) -> rho (i_row a) = i_row a.
Hypothesis rho_intras : forall a, In a (t_intras t) -> rho (x_row a) = x_row a.
Hypothesis rho_inj : forall x y, In x (map t_row (taxable_unsorted t)) -> In y (map t_row (taxable_unsorted t)) -> rho x = rho y -> x = y.

Lemma taxable_in x : In x (taxable_unsorted t) ->
  match x with TIn a => In a (t_ins t) | TOut a => In a (t_outs t) | TIntra a => In a (t_intras t) end.
Proof.
  unfold taxable_unsorted. rewrite !in_app_iff, !in_map_iff. intros [[a [<- H]]|[[a [<- H]]|[a [<- H]]]]; apply filter_In in H; tauto.
Qed.

Lemma t_row_ren x : In x (taxable_unsorted t) -> t_row (ren_txn x) = rho (t_row x).
Proof.
  intros H. apply taxable_in in H. destruct x as [a|a|a]; cbn [ren_txn t_row].
  - symmetry; apply rho_ins; exact H.
  - reflexivity.
  - symmetry; apply rho_intras; exact H.
Qed.

Lemma event_of_ren x : In x (taxable_unsorted t) -> event_of (ren_txn x) = ren_ev rho (event_of x).
Proof.
  intros H. unfold event_of, ren_ev. cbn [e_row e_us e_year e_earn e_amt]. rewrite (t_row_ren x H).
  destruct x; reflexivity.
Qed.

Theorem fractions_out_renaming : forall b sched,
  fractions_of b sched (ren_txs t) = map_res (map (ren_frac rho)) (fractions_of b sched t).
Proof.
  intros b sched. unfold fractions_of, taxable_events. rewrite taxable_unsorted_ren.
  assert (Hrows : map t_row (map ren_txn (taxable_unsorted t)) = map rho (map t_row (taxable_unsorted t))).
  { rewrite !map_map. apply map_ext_in. intros x Hx. apply t_row_ren; exact Hx. }
  rewrite Hrows.
  assert (Hdup : has_dup (map rho (map t_row (taxable_unsorted t))) = has_dup (map t_row (taxable_unsorted t))).
  { destruct (has_dup (map t_row (taxable_unsorted t))) eqn:E.
    - apply not_false_is_true. intros F. apply has_dup_false_NoDup in F. apply NoDup_map_inv in F.
      apply has_dup_false_NoDup in F. congruence.
    - apply has_dup_false_NoDup. apply NoDup_map_inj_on; [exact rho_inj|]. apply has_dup_false_NoDup; exact E. }
  rewrite Hdup. destruct (has_dup (map t_row (taxable_unsorted t))); [reflexivity|].
  rewrite sort_by_map. rewrite (sort_by_ext (fun b0 => t_us (ren_txn b0)) t_us) by (intros [a|a|a]; reflexivity).
  assert (Hev : map event_of (map ren_txn (sort_by t_us (taxable_unsorted t))) =
                map (ren_ev rho) (map event_of (sort_by t_us (taxable_unsorted t)))).
  { rewrite !map_map. apply map_ext_in. intros x Hx. apply event_of_ren. apply (proj1 (sort_by_in t_us x (taxable_unsorted t))). exact Hx. }
  rewrite Hev. cbn [t_ins ren_txs]. apply matcher_event_renaming.
Qed.
End OutRenaming.
