(** What the full-report theorems need from [Computed.compute]: the window's lists are sub-lists of the asset's
    transactions / fractions (sizes, distinct row numbers), so the hypotheses of Proofs/FullReportProofs.v hold for
    every ComputedData the pipeline produces. *)
From RP2V Require Import Base.Prelude Base.Time Base.Dec Base.Sorting Base.Assoc Model.Types Model.Generated Model.Txn
  Model.Matcher Model.Pipeline Model.Computed Model.Grid Model.ReportInput Model.FullReport Proofs.AssocProofs
  Proofs.FullReportLayout Proofs.FullReportProofs.
Open Scope Z_scope.

Section Window.
Context {A : Type} (day : A -> Z) (from_ to_ : Z).

Lemma iter_window_length : forall l, (length (iter_window day from_ to_ l) <= length l)%nat.
Proof.
  induction l as [|x t IH]; simpl; auto. destruct (to_ <? day x); simpl; [lia|].
  destruct (from_ <=? day x); simpl; lia.
Qed.

Lemma iter_window_in : forall l x, In x (iter_window day from_ to_ l) -> In x l.
Proof.
  induction l as [|y t IH]; simpl; intros x H; [contradiction|].
  destruct (to_ <? day y); [contradiction|]. destruct (from_ <=? day y); [destruct H as [->|H]|]; auto.
Qed.

Lemma iter_window_map_nodup {B} (f : A -> B) : forall l, NoDup (map f l) -> NoDup (map f (iter_window day from_ to_ l)).
Proof.
  induction l as [|y t IH]; simpl; intro H; [constructor|]. inversion H as [|? ? Hni Hnd]; subst.
  destruct (to_ <? day y); [constructor|]. destruct (from_ <=? day y); simpl; auto.
  constructor; auto. intro Hin. apply Hni. apply in_map_iff in Hin. destruct Hin as [z [E Hz]].
  apply in_map_iff. exists z. split; [exact E|]. apply iter_window_in. exact Hz.
Qed.
End Window.

(** what [compute] puts into the window fields *)
Lemma compute_fields period from_day to_day allow exs hos t fs c :
  compute period from_day to_day allow exs hos t fs = Ok c ->
  cd_ins c = iter_window (fun a => local_day (i_ts a)) from_day to_day (t_ins t) /\
  cd_outs c = iter_window (fun a => local_day (o_ts a)) from_day to_day (t_outs t) /\
  cd_intras c = iter_window (fun a => local_day (x_ts a)) from_day to_day (t_intras t) /\
  cd_gls c = iter_window g_day from_day to_day (cd_all_gls c).
Proof.
  unfold compute. intro H.
  destruct (taxable_events t); [|discriminate].
  destruct (resolve_all _ _ _); [|discriminate].
  destruct (numbering _ _) as [[[[evf lotf] evt] lott]|]; [|discriminate].
  destruct (yearly_list _ _ _ _); [|discriminate].
  destruct (balances _ _ _ _ _); [|discriminate].
  destruct (price_per_unit _ _); [|discriminate].
  destruct (fold_left _ _ _); [|discriminate].
  inversion H; subst c; clear H. simpl. repeat split.
Qed.

Definition all_rows (t : txs) : list Z := map i_row (t_ins t) ++ map o_row (t_outs t) ++ map x_row (t_intras t).

Lemma nodup_app_intro {A} (a b : list A) : NoDup a -> NoDup b -> (forall x, In x a -> ~ In x b) -> NoDup (a ++ b).
Proof.
  induction a as [|x a IH]; simpl; intros Ha Hb Hd; [exact Hb|]. inversion Ha; subst.
  constructor.
  - intro Hin. apply in_app_or in Hin. destruct Hin as [Hin|Hin]; [contradiction|]. apply (Hd x); [left; reflexivity|exact Hin].
  - apply IH; auto.
Qed.

Lemma map_window_in {A} (day : A -> Z) (f : A -> Z) from_ to_ l z :
  In z (map f (iter_window day from_ to_ l)) -> In z (map f l).
Proof. intro H. apply in_map_iff in H. destruct H as [y [E Hy]]. apply in_map_iff. exists y. split; [exact E|eapply iter_window_in; exact Hy]. Qed.

Section FromCompute.
Variables (period from_day to_day : Z) (allow : bool) (exs hos : list str) (fs : list fraction) (x : actx).
Hypothesis Hc : compute period from_day to_day allow exs hos (ac_txs x) fs = Ok (ac_c x).

(** row numbers are distinct within an asset (the parser numbers the rows of one sheet; artificial fee
    transactions get fresh negative ids): then so are those of the transactions shown *)
Lemma compute_vis_nodup : NoDup (all_rows (ac_txs x)) -> NoDup (vis_rows x).
Proof.
  destruct (compute_fields _ _ _ _ _ _ _ _ _ Hc) as (A & B & C & _). unfold all_rows, vis_rows. rewrite A, B, C. intro H.
  pose proof (nodup_app_l _ _ H) as N1. pose proof (nodup_app_r _ _ H) as N23.
  pose proof (nodup_app_l _ _ N23) as N2. pose proof (nodup_app_r _ _ N23) as N3.
  apply nodup_app_intro; [apply iter_window_map_nodup; exact N1| |].
  - apply nodup_app_intro; [apply iter_window_map_nodup; exact N2|apply iter_window_map_nodup; exact N3|].
    intros z Hz Hz'. apply (nodup_app_disj _ _ z N23); eapply map_window_in; eassumption.
  - intros z Hz Hz'. apply (nodup_app_disj _ _ z H); [eapply map_window_in; exact Hz|].
    apply in_app_or in Hz'. apply in_or_app. destruct Hz' as [Hz'|Hz']; [left|right]; eapply map_window_in; exact Hz'.
Qed.

(** a lot of the asset that the window hides has none of the row numbers shown *)
Lemma compute_hidden_lot l : NoDup (all_rows (ac_txs x)) -> In l (t_ins (ac_txs x)) -> ~ In l (cd_ins (ac_c x)) ->
  ~ In (i_row l) (vis_rows x).
Proof.
  destruct (compute_fields _ _ _ _ _ _ _ _ _ Hc) as (A & B & C & _). unfold all_rows, vis_rows. rewrite B, C. intros H Hl Hh Hin.
  apply in_app_or in Hin. destruct Hin as [Hin|Hin].
  - apply in_map_iff in Hin. destruct Hin as [l' [E Hl']]. apply Hh.
    assert (In l' (t_ins (ac_txs x))) by (rewrite A in Hl'; eapply iter_window_in; exact Hl').
    assert (l' = l); [|subst; exact Hl'].
    pose proof (nodup_app_l _ _ H) as N1. clear - N1 E Hl H0.
    induction (t_ins (ac_txs x)) as [|a t IH]; [contradiction|]. simpl in N1. inversion N1; subst.
    destruct Hl as [->|Hl], H0 as [->|H0]; auto.
    + exfalso. apply H2. rewrite <- E. apply in_map. exact H0.
    + exfalso. apply H2. rewrite E. apply in_map. exact Hl.
  - apply (nodup_app_disj _ _ (i_row l) H); [apply in_map; exact Hl|].
    apply in_app_or in Hin. apply in_or_app. destruct Hin as [Hin|Hin]; [left|right]; eapply map_window_in; exact Hin.
Qed.
End FromCompute.

Lemma hidden_lot_no_link fl env inp x lm0 j d f l period from_day to_day allow exs hos fs : ff_clears fl = true ->
  compute period from_day to_day allow exs hos (ac_txs x) fs = Ok (ac_c x) -> NoDup (all_rows (ac_txs x)) ->
  g_lot (fst d) = Some l -> In l (t_ins (ac_txs x)) -> ~ In l (cd_ins (ac_c x)) ->
  det_field env inp x (lm_after fl x lm0) j d L_lot f = det_field env inp x [] j d L_none f.
Proof.
  intros Hcl Hc Hnd Hl Hin Hh. apply (lot_no_link fl env inp x lm0 Hcl j d f l Hl). eapply compute_hidden_lot; eassumption.
Qed.
