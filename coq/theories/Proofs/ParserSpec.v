(** C11: facts about the expected transactions -- exactness of the numeric conversion, one transaction per
    row in row order (nothing skipped or duplicated), and the crypto-fee split. *)
From RP2V Require Import Base.Prelude Base.Time Base.Dec Base.Sorting Model.Types Model.Generated Model.Txn Model.Parser Model.Render
  Proofs.DecProofs Proofs.ParserNum Proofs.ParserLookup Proofs.ParserRows Proofs.ParserSheet.
Open Scope Z_scope.

(** ---------- numeric conversion *)
Lemma rhe_div_unique N d u s : 0 < d -> 2 * Z.abs (N - u * d) < d -> rhe_div N d s = u.
Proof.
  intros Hd H. pose proof (rhe_div_half N d s Hd) as K.
  set (r := rhe_div N d s) in *.
  assert (Z.abs ((r - u) * d) < d) by lia.
  destruct (Z.eq_dec r u) as [|NE]; [assumption|].
  exfalso. assert (1 <= Z.abs (r - u)) by lia. rewrite Z.abs_mul in H0. rewrite (Z.abs_eq d) in H0 by lia. nia.
Qed.

(** a double within (strictly) 5e-12 of the 11-decimal number u * 1e-11 is read as exactly u *)
Lemma num11_exact n d u : 0 < d -> 2 * Z.abs (n * 10 ^ 11 - u * d) < d -> num11 n d = u.
Proof. intros. rewrite num11_unfold. apply rhe_div_unique; assumption. Qed.

(** binary64 doubles below 2^16 = 65536 (> 2^52 * 1e-11 = 45035.99...) have ulp <= 2^-37: the double nearest to a decimal
    lies within 2^-38 of it, and 2^-38 < 5e-12, so 11-decimal numbers below that bound survive the float round trip *)
Lemma num11_exact_double n d u : 0 < d -> Z.abs (n * 10 ^ 11 - u * d) * 2 ^ 38 <= 10 ^ 11 * d -> num11 n d = u.
Proof.
  intros Hd H. apply num11_exact; [assumption|].
  assert (2 * 10 ^ 11 < 2 ^ 38) by (vm_compute; reflexivity).
  assert (0 <= Z.abs (n * 10 ^ 11 - u * d)) by lia. nia.
Qed.

(** ---------- fields of constructed transactions *)
Ltac crack H :=
  repeat match type of H with
         | context [if ?b then _ else _] => destruct b eqn:?; try discriminate
         | context [match ?x with _ => _ end] => destruct x eqn:?; try discriminate
         end.

Lemma mk_in_fields r a : mk_in r = Ok a ->
  i_row a = ri_row r /\ i_ts a = ri_ts r /\ i_exch a = ri_exch r /\ i_holder a = ri_holder r /\ i_type a = ri_type r /\
  i_spot a = ri_spot r /\ i_crypto_in a = ri_crypto_in r /\ 0 < ri_spot r /\ 0 <= i_crypto_fee a /\
  i_crypto_fee a = (if truthy (ri_crypto_fee r) then match ri_crypto_fee r with Some v => v | None => 0 end else 0).
Proof.
  unfold mk_in. intro H.
  destruct (ri_spot r <? 0) eqn:S0; [discriminate|].
  destruct (negb (ttype_eqb (ri_type r) STAKING) && (ri_crypto_in r <=? 0)); [discriminate|].
  set (cfee := if truthy (ri_crypto_fee r) then match ri_crypto_fee r with Some v => v | None => 0 end else 0) in *.
  destruct (cfee <? 0) eqn:C0; [discriminate|].
  match type of H with (if ?b then _ else _) = _ => destruct b; [discriminate|] end.
  destruct (ri_spot r =? 0) eqn:S1; [discriminate|].
  apply Z.ltb_ge in S0. apply Z.eqb_neq in S1. apply Z.ltb_ge in C0.
  crack H; inversion H; subst; simpl; repeat split; auto; lia.
Qed.

Lemma mk_out_fields r a : mk_out r = Ok a ->
  o_row a = ro_row r /\ o_ts a = ro_ts r /\ o_exch a = ro_exch r /\ o_holder a = ro_holder r /\ o_type a = ro_type r /\
  o_spot a = ro_spot r /\ o_crypto_out_no_fee a = ro_crypto_out_no_fee r /\ o_crypto_fee a = ro_crypto_fee r.
Proof. unfold mk_out. intro H. crack H; inversion H; subst; simpl; repeat split; auto. Qed.

Lemma mk_intra_fields r a : mk_intra r = Ok a ->
  x_row a = rx_row r /\ x_ts a = rx_ts r /\ x_crypto_sent a = rx_crypto_sent r /\ x_crypto_received a = rx_crypto_received r /\
  x_crypto_fee a = rx_crypto_sent r - rx_crypto_received r.
Proof. unfold mk_intra. intro H. crack H; inversion H; subst; simpl; repeat split; auto. Qed.

Lemma split_in_fields a a' : split_in a = Ok a' ->
  i_row a' = i_row a /\ i_ts a' = i_ts a /\ i_exch a' = i_exch a /\ i_holder a' = i_holder a /\ i_type a' = i_type a /\
  i_spot a' = i_spot a /\ i_crypto_in a' = i_crypto_in a /\ i_crypto_fee a' = 0 /\
  i_fiat_in_no_fee a' = i_fiat_in_no_fee a /\ i_fiat_in_with_fee a' = i_fiat_in_with_fee a /\
  (fst (i_fiat_fee a) <> 0 -> i_fiat_fee a' = i_fiat_fee a).
Proof.
  unfold split_in. intro H. crack H; inversion H; subst; simpl; repeat split; auto.
  - intro N. apply Z.eqb_eq in Heqb2. contradiction.
Qed.

Lemma fee_type_allowed : out_type_allowed FEE = true.
Proof. vm_compute. reflexivity. Qed.

(** the artificial fee-only disposal always constructs, and is what the property text says *)
Lemma fee_out_spec a id : 0 < i_spot a -> 0 < i_crypto_fee a ->
  exists o, fee_out a id = Ok o /\ o_row o = id /\ o_ts o = i_ts a /\ o_exch o = i_exch a /\ o_holder o = i_holder a /\
            o_type o = FEE /\ o_spot o = i_spot a /\ o_crypto_out_no_fee o = 0 /\ o_crypto_fee o = i_crypto_fee a /\
            o_crypto_out_with_fee o = i_crypto_fee a /\ o_fiat_fee o = dmul (g (i_crypto_fee a)) (g (i_spot a)).
Proof.
  intros S F. unfold fee_out, mk_out. simpl.
  destruct (i_spot a <? 0) eqn:E1; [apply Z.ltb_lt in E1; lia|].
  change (ttype_eqb FEE FEE) with true. cbv iota.
  destruct (i_crypto_fee a <=? 0) eqn:E2; [apply Z.leb_le in E2; lia|].
  simpl. try rewrite fee_type_allowed. simpl.
  eexists. split; [reflexivity|]. simpl. repeat split; auto.
Qed.

(** crypto-fee split: acquisition + artificial fee-only disposal at the same instant; coin flow and cost basis preserved *)
Theorem crypto_fee_split raw tx tx' o id cfee :
  mk_in raw = Ok tx -> ri_crypto_fee raw = Some cfee -> 0 < cfee ->
  split_in tx = Ok tx' -> fee_out tx id = Ok o ->
  (* the acquisition keeps its row, instant, account, type, amount; the crypto fee has moved to the disposal *)
  i_row tx' = ri_row raw /\ i_ts tx' = ri_ts raw /\ i_exch tx' = ri_exch raw /\ i_holder tx' = ri_holder raw /\ i_type tx' = ri_type raw /\
  i_crypto_in tx' = ri_crypto_in raw /\ i_crypto_fee tx' = 0 /\
  (* fee-only disposal at the same instant and account, with the artificial id *)
  o_row o = id /\ o_ts o = ri_ts raw /\ o_exch o = ri_exch raw /\ o_holder o = ri_holder raw /\ o_type o = FEE /\
  o_crypto_out_no_fee o = 0 /\ o_crypto_fee o = cfee /\ o_spot o = ri_spot raw /\
  (* coin flow: crypto_in - fee *)
  i_crypto_in tx' - o_crypto_out_with_fee o = ri_crypto_in raw - cfee /\
  (* cost basis: unchanged by the split; fiat value of the fee = crypto_fee * spot on both halves *)
  i_fiat_in_with_fee tx' = i_fiat_in_with_fee tx /\ i_fiat_in_no_fee tx' = i_fiat_in_no_fee tx /\
  o_fiat_fee o = dmul (g cfee) (g (ri_spot raw)).
Proof.
  intros K C P S F.
  destruct (mk_in_fields _ _ K) as (R1 & R2 & R3 & R4 & R5 & R6 & R7 & R8 & R9 & R10).
  assert (CF : i_crypto_fee tx = cfee).
  { rewrite R10, C. unfold truthy. destruct (cfee =? 0) eqn:E; [apply Z.eqb_eq in E; lia|]. reflexivity. }
  destruct (split_in_fields _ _ S) as (S1 & S2 & S3 & S4 & S5 & S6 & S7 & S8 & S9 & S10 & _).
  destruct (fee_out_spec tx id) as (o' & FO & O1 & O2 & O3 & O4 & O5 & O6 & O7 & O8 & O9 & O10); [lia|lia|].
  rewrite FO in F. inversion F; subst o'.
  repeat split; try congruence.
Qed.

(** when neither fiat amount is supplied the cost basis is crypto_in * spot + crypto_fee * spot (31-digit decimal arithmetic) *)
Lemma crypto_fee_cost_basis raw tx cfee :
  mk_in raw = Ok tx -> ri_crypto_fee raw = Some cfee -> 0 < cfee -> ri_fiat_in_no_fee raw = None -> ri_fiat_in_with_fee raw = None ->
  i_fiat_in_with_fee tx = dadd (dmul (g (ri_crypto_in raw)) (g (ri_spot raw))) (dmul (g cfee) (g (ri_spot raw))).
Proof.
  intros K C P N1 N2. unfold mk_in in K. rewrite C, N1, N2 in K.
  assert (T : truthy (Some cfee) = true) by (unfold truthy; destruct (cfee =? 0) eqn:E; [apply Z.eqb_eq in E; lia|reflexivity]).
  rewrite T in K. crack K; inversion K; subst; reflexivity.
Qed.

(** ---------- one transaction per data row, in row order *)
Fixpoint zseq (start : Z) (n : nat) : list Z := match n with O => [] | S k => start :: zseq (start + 1) k end.

Definition rows_of_tab (t : table) (rows : list (srow * (nat -> cell))) : nat :=
  length (filter (fun rj => tab_code (srow_tab (fst rj)) =? tab_code t) rows).

Lemma expect_row_rows cfg a a' rowno r : expect_row cfg a rowno r = Ok a' ->
  match r with
  | SIn _ => map i_row (a_ins a') = map i_row (a_ins a) ++ [rowno] /\ a_outs a' = a_outs a /\ a_intras a' = a_intras a
  | SOut _ => a_ins a' = a_ins a /\ map o_row (a_outs a') = map o_row (a_outs a) ++ [rowno] /\ a_intras a' = a_intras a
  | SIntra _ => a_ins a' = a_ins a /\ a_outs a' = a_outs a /\ map x_row (a_intras a') = map x_row (a_intras a) ++ [rowno]
  end.
Proof.
  intro E. destruct r as [s|s|s]; simpl in E.
  - destruct (raw_of_in cfg rowno s) as [raw|] eqn:R; [|discriminate].
    assert (RR : ri_row raw = rowno). { unfold raw_of_in in R. crack R. inversion R. reflexivity. }
    destruct (mk_in raw) as [tx|] eqn:K; simpl bind in E; [|discriminate].
    destruct (mk_in_fields _ _ K) as (R1 & _).
    destruct (0 <? i_crypto_fee tx).
    + destruct (split_in tx) as [tx'|] eqn:S; simpl bind in E; [|discriminate].
      destruct (fee_out tx (a_counter a - 1)); simpl bind in E; [|discriminate].
      destruct (split_in_fields _ _ S) as (S1 & _).
      inversion E; subst; simpl. rewrite map_app. simpl. repeat split; congruence.
    + inversion E; subst; simpl. rewrite map_app. simpl. repeat split; congruence.
  - destruct (raw_of_out cfg rowno s) as [raw|] eqn:R; [|discriminate].
    assert (RR : ro_row raw = rowno). { unfold raw_of_out in R. crack R. inversion R. reflexivity. }
    destruct (mk_out raw) as [tx|] eqn:K; simpl bind in E; [|discriminate].
    destruct (mk_out_fields _ _ K) as (R1 & _).
    inversion E; subst; simpl. rewrite map_app. simpl. repeat split; congruence.
  - destruct (raw_of_intra cfg rowno s) as [raw|] eqn:R; [|discriminate].
    assert (RR : rx_row raw = rowno). { unfold raw_of_intra in R. crack R. inversion R. reflexivity. }
    destruct (mk_intra raw) as [tx|] eqn:K; simpl bind in E; [|discriminate].
    destruct (mk_intra_fields _ _ K) as (R1 & _).
    inversion E; subst; simpl. rewrite map_app. simpl. repeat split; congruence.
Qed.

(** row numbers of the data rows of a table: the sets hold exactly one transaction per row, in row order *)
Definition tab_rows (a : acc) (t : table) : list Z :=
  match t with TabIn => map i_row (a_ins a) | TabOut => map o_row (a_outs a) | TabIntra => map x_row (a_intras a) end.

Lemma expect_rows_rownos cfg t : forall rows a a' rowno,
  (forall rj, In rj rows -> srow_tab (fst rj) = t) ->
  expect_rows cfg a rowno rows = Ok a' ->
  tab_rows a' t = tab_rows a t ++ zseq rowno (length rows) /\
  (forall t', t' <> t -> tab_rows a' t' = tab_rows a t').
Proof.
  induction rows as [|rj rows IH]; intros a a' rowno T E; simpl in E.
  - inversion E; subst. simpl. rewrite app_nil_r. auto.
  - destruct (expect_row cfg a rowno (fst rj)) as [a1|] eqn:E1; [|discriminate].
    destruct (IH a1 a' (rowno + 1)) as [I1 I2]; auto. { intros; apply T; right; assumption. }
    pose proof (expect_row_rows _ _ _ _ _ E1) as R.
    pose proof (T rj (or_introl eq_refl)) as Tj.
    split.
    + rewrite I1. simpl zseq. destruct (fst rj); simpl in Tj; subst t; simpl in *; destruct R as (A & B & C);
        rewrite ?A, ?B, ?C, <- ?app_assoc; reflexivity.
    + intros t' N. rewrite (I2 t' N). destruct (fst rj); simpl in Tj; subst t; destruct t'; simpl in *; destruct R as (A & B & C);
        try congruence.
Qed.

Fixpoint data_rownos (t : table) (rowno : Z) (blocks : list block) : list Z :=
  match blocks with
  | [] => []
  | b :: rest =>
    (if tab_code (b_tab b) =? tab_code t then zseq (rowno + Z.of_nat (length (b_gap b)) + 2) (length (b_rows b)) else [])
    ++ data_rownos t (rowno + block_len b) rest
  end.

Lemma expect_blocks_rownos cfg asset : forall blocks a a' rowno t,
  wf_blocks cfg asset rowno blocks -> expect_blocks cfg a rowno blocks = Ok a' ->
  tab_rows a' t = tab_rows a t ++ data_rownos t rowno blocks.
Proof.
  induction blocks as [|b blocks IH]; intros a a' rowno t W E; simpl in E.
  - inversion E; subst. simpl. rewrite app_nil_r. reflexivity.
  - destruct (expect_rows cfg a (rowno + Z.of_nat (length (b_gap b)) + 2) (b_rows b)) as [a1|] eqn:E1; [|discriminate].
    simpl in W. destruct W as [Wb W].
    rewrite (IH a1 a' _ t W E). simpl data_rownos. rewrite app_assoc. f_equal.
    assert (TT : forall rj, In rj (b_rows b) -> srow_tab (fst rj) = b_tab b).
    { intros rj Hr. destruct Wb as [_ _ _ _ _ _ WT _ _]. apply (WT rj Hr). }
    destruct (expect_rows_rownos cfg (b_tab b) (b_rows b) a a1 _ TT E1) as [I1 I2].
    destruct (tab_code (b_tab b) =? tab_code t) eqn:C.
    + apply Z.eqb_eq in C. apply tab_code_inj in C. subst t. exact I1.
    + rewrite app_nil_r. apply I2. intro Heq. subst t. rewrite Z.eqb_refl in C. discriminate.
Qed.

(** no row skipped, none read twice, order preserved: the row ids of each parsed set are exactly the sheet rows of
    that table's data rows, in sheet order (the OUT set is followed by the artificial fee disposals) *)
Theorem parsed_rows_are_sheet_rows cfg asset counter blocks p :
  wf_blocks cfg asset 1 blocks -> expected cfg counter blocks = Ok p ->
  map i_row (pa_ins p) = data_rownos TabIn 1 blocks /\
  (exists art, pa_outs p = firstn (length (data_rownos TabOut 1 blocks)) (pa_outs p) ++ art /\
               map o_row (firstn (length (data_rownos TabOut 1 blocks)) (pa_outs p)) = data_rownos TabOut 1 blocks) /\
  map x_row (pa_intras p) = data_rownos TabIntra 1 blocks.
Proof.
  intros W E. unfold expected in E.
  destruct (expect_blocks cfg (acc0 counter) 1 blocks) as [a|] eqn:EB; [|discriminate]. inversion E; subst p; clear E.
  pose proof (expect_blocks_rownos cfg asset blocks _ _ 1 TabIn W EB) as RI.
  pose proof (expect_blocks_rownos cfg asset blocks _ _ 1 TabOut W EB) as RO.
  pose proof (expect_blocks_rownos cfg asset blocks _ _ 1 TabIntra W EB) as RX.
  simpl in RI, RO, RX. simpl. repeat split; auto.
  exists (a_art a).
  assert (L : length (data_rownos TabOut 1 blocks) = length (a_outs a)) by (rewrite <- RO, map_length; reflexivity).
  rewrite L, firstn_app, Nat.sub_diag, firstn_all. simpl. rewrite app_nil_r. auto.
Qed.

(** the parameter tables of the constructors, as translated from the source, are the ones the model's field ids assume *)
Lemma source_tables :
  gen_in_mandatory = [0; 1; 2; 3; 4; 5; 6] /\ gen_in_numeric = [5; 6; 7; 8; 9; 10] /\ length gen_in_fields = 13%nat /\
  gen_out_mandatory = [0; 1; 2; 3; 4; 5; 6; 7] /\ gen_out_numeric = [5; 6; 7; 8; 9; 10] /\ length gen_out_fields = 13%nat /\
  gen_intra_mandatory = [0; 1; 2; 3; 4; 5; 6; 7; 8] /\ gen_intra_numeric = [6; 7; 8] /\ length gen_intra_fields = 11%nat.
Proof. repeat split; reflexivity. Qed.

(** the one way the split can fail (finding F15): the second construction of the acquisition receives the derived fiat
    values explicitly and rejects a value that is zero at 13 decimals -- 1e-8 coins at a price of 1e-6 with a fee of 1e-11 *)
Lemma dust_split_refuted :
  exists raw tx, mk_in raw = Ok tx /\ 0 < i_crypto_fee tx /\ ri_fiat_in_no_fee raw = None /\ split_in tx = Err EValue /\
                 mk_in {| ri_row := ri_row raw; ri_ts := ri_ts raw; ri_exch := ri_exch raw; ri_holder := ri_holder raw; ri_type := ri_type raw;
                          ri_spot := ri_spot raw; ri_crypto_in := ri_crypto_in raw; ri_crypto_fee := None; ri_fiat_in_no_fee := None;
                          ri_fiat_in_with_fee := None; ri_fiat_fee := None |} <> Err EValue.
Proof.
  exists {| ri_row := 4; ri_ts := {| utc_us := 0; off_s := 0 |}; ri_exch := 0; ri_holder := 0; ri_type := BUY; ri_spot := 100000;
            ri_crypto_in := 1000; ri_crypto_fee := Some 1; ri_fiat_in_no_fee := None; ri_fiat_in_with_fee := None; ri_fiat_fee := None |}.
  eexists. split; [vm_compute; reflexivity|]. repeat split; try (vm_compute; reflexivity). vm_compute. discriminate.
Qed.

(** and the only one: when the derived fiat values are positive at 13 decimals the split succeeds *)
Lemma split_in_ok a :
  dgtb (i_fiat_in_no_fee a) dzero = true -> dgtb (i_fiat_in_with_fee a) dzero = true -> dgeb (i_fiat_fee a) dzero = true ->
  exists a', split_in a = Ok a'.
Proof.
  unfold split_in, dgtb, dgeb, dltb, deqb, dlt, dge, dgt, deq, optb. intros H1 H2 H3.
  destruct (cmp13 (i_fiat_in_no_fee a) dzero) as [r1|]; simpl in *; [|discriminate].
  destruct (cmp13 (i_fiat_in_with_fee a) dzero) as [r2|]; simpl in *; [|discriminate].
  destruct (cmp13 (i_fiat_fee a) dzero) as [r3|]; simpl in *; [|discriminate].
  assert (r1 >=? 0 = true) by (apply Z.geb_le; apply Z.gtb_lt in H1; lia).
  assert (r1 =? 0 = false) by (apply Z.eqb_neq; apply Z.gtb_lt in H1; lia).
  assert (r2 >=? 0 = true) by (apply Z.geb_le; apply Z.gtb_lt in H2; lia).
  assert (r2 =? 0 = false) by (apply Z.eqb_neq; apply Z.gtb_lt in H2; lia).
  rewrite H, H0, H4, H5, H3. simpl. eexists. reflexivity.
Qed.

(** ---------- documented defaults of empty optional cells (docs/input_files.md) *)
Lemma in_defaults r a : mk_in r = Ok a ->
  (ri_crypto_fee r = None -> i_crypto_fee a = 0) /\
  (ri_crypto_fee r = None -> ri_fiat_fee r = None -> i_fiat_fee a = g 0) /\
  (forall c, ri_crypto_fee r = Some c -> 0 < c -> i_fiat_fee a = dmul (g c) (g (ri_spot r))) /\
  (ri_fiat_in_no_fee r = None -> i_fiat_in_no_fee a = dmul (g (ri_crypto_in r)) (g (ri_spot r))) /\
  (forall v, ri_fiat_in_no_fee r = Some v -> i_fiat_in_no_fee a = g v) /\
  (ri_fiat_in_with_fee r = None -> i_fiat_in_with_fee a = dadd (i_fiat_in_no_fee a) (i_fiat_fee a)) /\
  (forall v, ri_fiat_in_with_fee r = Some v -> i_fiat_in_with_fee a = g v).
Proof.
  unfold mk_in. intro H.
  destruct (ri_spot r <? 0); [discriminate|].
  destruct (negb (ttype_eqb (ri_type r) STAKING) && (ri_crypto_in r <=? 0)); [discriminate|].
  destruct (ri_crypto_fee r) as [c|] eqn:C; destruct (ri_fiat_fee r) as [f|] eqn:F;
    destruct (ri_fiat_in_no_fee r) as [n|] eqn:N; destruct (ri_fiat_in_with_fee r) as [w|] eqn:W;
    unfold truthy in H; crack H; inversion H; subst; simpl;
    repeat split; intros; try discriminate; try reflexivity;
    repeat match goal with K : Some _ = Some _ |- _ => inversion K; clear K; subst end; try reflexivity;
    try (match goal with K : (?c =? 0) = true |- _ => apply Z.eqb_eq in K; lia end);
    try (match goal with K : negb (?c =? 0) = false |- _ => apply negb_false_iff in K; apply Z.eqb_eq in K; lia end).
Qed.

Lemma out_defaults r a : mk_out r = Ok a ->
  (ro_crypto_out_with_fee r = None -> o_crypto_out_with_fee a = ro_crypto_out_no_fee r + ro_crypto_fee r) /\
  (forall v, ro_crypto_out_with_fee r = Some v -> o_crypto_out_with_fee a = v) /\
  (ro_fiat_out_no_fee r = None -> o_fiat_out_no_fee a = dmul (g (ro_crypto_out_no_fee r)) (g (ro_spot r))) /\
  (forall v, ro_fiat_out_no_fee r = Some v -> o_fiat_out_no_fee a = g v) /\
  (ro_fiat_fee r = None -> o_fiat_fee a = dmul (g (ro_crypto_fee r)) (g (ro_spot r))) /\
  (forall v, ro_fiat_fee r = Some v -> o_fiat_fee a = g v) /\
  o_fiat_out_with_fee a = dadd (o_fiat_out_no_fee a) (o_fiat_fee a).
Proof.
  unfold mk_out. intro H.
  destruct (ro_crypto_out_with_fee r) as [w|] eqn:W; destruct (ro_fiat_out_no_fee r) as [n|] eqn:N; destruct (ro_fiat_fee r) as [f|] eqn:F;
    crack H; inversion H; subst; simpl; repeat split; intros; try discriminate; try reflexivity;
    repeat match goal with K : Some _ = Some _ |- _ => inversion K; clear K; subst end; reflexivity.
Qed.

Lemma intra_defaults r a : mk_intra r = Ok a ->
  (rx_spot r = None -> x_spot a = 0) /\ (forall v, rx_spot r = Some v -> x_spot a = v) /\
  x_fiat_fee a = dmul (g (rx_crypto_sent r - rx_crypto_received r)) (g (x_spot a)).
Proof.
  unfold mk_intra. intro H.
  destruct (rx_spot r) as [v|] eqn:S; crack H; inversion H; subst; simpl; repeat split; intros; try discriminate; try reflexivity;
    repeat match goal with K : Some _ = Some _ |- _ => inversion K; clear K; subst end;
    repeat match goal with K : Ok _ = Ok _ |- _ => inversion K; clear K; subst end; try reflexivity;
    try (match goal with K : (?c =? 0) = true |- _ => apply Z.eqb_eq in K; congruence end).
Qed.
