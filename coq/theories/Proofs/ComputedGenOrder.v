(** Source tie of computed_data.py: order of the filtered views, re-sort of a duplicate.
    For the tables generated from the CURRENT source (Model/GeneratedTie.v, fragment computed; interpreters in Model/ComputedGen.v).
    One file per concern, so that an edit of the source breaks exactly the lemmas about what it changed and the property
    files that cite them.  Overview: Proofs/ComputedGenProofs.v. *)
From Coq Require Import List ZArith Bool Lia.
From RP2V Require Import Base.Prelude Base.Time Base.Dec Base.Sorting Base.Assoc Model.Types Model.Generated Model.GeneratedTie
  Model.Txn Model.Matcher Model.Pipeline Model.Computed Model.ComputedGen.
Import ListNotations.
Open Scope Z_scope.

(** ---------- structure that is not modelled both ways: flags in the style of [gen_full_clears_row_map].
    [compute] numbers the fractions of the window with the window's to-date ([numbering to_day]): that is what
    `AbstractEntrySet.duplicate` obtains by re-sorting its copy unconditionally (`_force_sort`; the numbering dictionaries are
    shared with the unfiltered set and are recomputed by `GainLossSet._sort_entries` under the copy's to-date).  With
    `_check_sort` the copy of an already sorted set keeps the numbering of the unfiltered set; that variant is not modelled,
    hence a flag and not an agreement lemma.  The order flag records that both `duplicate` calls precede the yearly summary
    (which iterates, hence sorts, the unfiltered set); it only matters together with the first. *)
Lemma code_duplicate_force_sorts : gen_duplicate_force_sorts = true.
Proof. reflexivity. Qed.
Lemma code_cd_duplicate_before_yearly : gen_cd_duplicate_before_yearly = true.
Proof. reflexivity. Qed.
