(** Prefix stability of the greedy matcher specification: lots and events dated
    strictly after an instant [T] never change what [spec_run] computes for the
    events at or before [T].

    Structure:
    - fuel independence of [consume] (no well-formedness needed: every step either
      ends the event or zeroes one positive remainder);
    - [best] over [lots ++ lots2] with remainders [rem ++ rem2] equals [best] over
      [lots] with [rem] at any instant [<= T];
    - [spec_events] generalised over [rem]/[out] through the state-returning twin
      [spec_state]. *)
From Coq Require Import List ZArith Bool Lia ZifyBool.
From RP2V Require Import Base.Prelude Base.Time Base.Dec Model.Types Model.Generated
  Model.Matcher Model.MatchSpec Model.MatchWf.
Import ListNotations.
Open Scope Z_scope.

(** * Facts about one lot list *)
Section One.
Variable lots : list intx.
Variable sched : list (Z * meth).

(** ** unfolding lemmas (avoid [simpl] on the big fixpoints) *)

Lemma best_aux_S m t rem i n bst :
  best_aux lots m t rem i (S n) bst =
  best_aux lots m t rem (S i) n
    (if (lot_us lots i <=? t) && (nth i rem 0 >? 0)
     then match bst with
          | None => Some i
          | Some b => if key_ltb (spec_rank lots m i) (spec_rank lots m b) then Some i else bst
          end
     else bst).
Proof. reflexivity. Qed.

Lemma consume_S f m e left rem out :
  consume lots (S f) m e left rem out =
  if left <=? 0 then Ok (rem, out) else
    match best lots m (e_us e) rem with
    | None => Err EExhausted
    | Some i =>
      consume lots f m e (left - Z.min left (nth i rem 0))
        (upd rem i (nth i rem 0 - Z.min left (nth i rem 0)))
        (mk_frac lots e (Some i) (Z.min left (nth i rem 0)) :: out)
    end.
Proof. reflexivity. Qed.

Lemma spec_events_cons e r rem out :
  spec_events lots sched (e :: r) rem out =
  if e_earn e then spec_events lots sched r rem (mk_frac lots e None (e_amt e) :: out)
  else match meth_for sched (e_year e) None with
       | None => Err ENoMethod
       | Some (_, m) =>
         match consume lots (S (length lots)) m e (e_amt e) rem out with
         | Err x => Err x
         | Ok (rem', out') => spec_events lots sched r rem' out'
         end
       end.
Proof. reflexivity. Qed.

(** ** [best] only returns lots with a positive remainder *)

Lemma best_aux_pos m t rem : forall n i bst r,
  (forall b, bst = Some b -> nth b rem 0 > 0) ->
  best_aux lots m t rem i n bst = Some r -> nth r rem 0 > 0.
Proof.
  induction n as [|n IH]; intros i bst r Hb H.
  - apply Hb, H.
  - rewrite best_aux_S in H. eapply IH; [|exact H].
    intros b Eb.
    destruct ((lot_us lots i <=? t) && (nth i rem 0 >? 0)) eqn:Eok; [|apply Hb, Eb].
    apply andb_prop in Eok. destruct Eok as [_ Epos].
    destruct bst as [b0|].
    + destruct (key_ltb (spec_rank lots m i) (spec_rank lots m b0)).
      * injection Eb as <-. lia.
      * apply Hb, Eb.
    + injection Eb as <-. lia.
Qed.

Lemma best_pos m t rem i : best lots m t rem = Some i -> nth i rem 0 > 0.
Proof.
  unfold best. apply best_aux_pos. intros b Hb; discriminate Hb.
Qed.

Lemma nth_pos_lt (rem : list Z) i : nth i rem 0 > 0 -> (i < length rem)%nat.
Proof.
  intros H. destruct (Nat.lt_ge_cases i (length rem)) as [Hlt|Hge]; auto.
  rewrite nth_overflow in H by exact Hge. lia.
Qed.

(** ** fuel independence *)

Definition npos (rem : list Z) : nat := length (filter (fun z => z >? 0) rem).

Lemma npos_le_length rem : (npos rem <= length rem)%nat.
Proof.
  unfold npos. induction rem as [|h t IH]; simpl; [lia|].
  destruct (h >? 0); simpl; lia.
Qed.

Lemma npos_upd_zero : forall rem i, nth i rem 0 > 0 -> S (npos (upd rem i 0)) = npos rem.
Proof.
  unfold npos. induction rem as [|h t IH]; intros i H.
  - destruct i; simpl in H; lia.
  - destruct i as [|j]; simpl in H |- *.
    + destruct (h >? 0) eqn:E; [reflexivity | lia].
    + destruct (h >? 0); simpl; rewrite <- (IH j H); reflexivity.
Qed.

(** more fuel never changes a result other than "out of fuel" *)
Lemma consume_mono m e : forall f f' left rem out,
  (f <= f')%nat -> consume lots f m e left rem out <> Err EOutOfFuel ->
  consume lots f' m e left rem out = consume lots f m e left rem out.
Proof.
  induction f as [|f IH]; intros f' left rem out Hle Hne.
  - exfalso. apply Hne. reflexivity.
  - destruct f' as [|f']; [lia|].
    rewrite consume_S in Hne. rewrite !consume_S.
    destruct (left <=? 0); [reflexivity|].
    destruct (best lots m (e_us e) rem) as [i|]; [|reflexivity].
    apply IH; [lia | exact Hne].
Qed.

(** any fuel above the number of positive remainders suffices *)
Lemma consume_no_oof m e : forall f left rem out,
  (npos rem < f)%nat -> consume lots f m e left rem out <> Err EOutOfFuel.
Proof.
  induction f as [|f IH]; intros left rem out Hf; [lia|].
  rewrite consume_S. destruct (left <=? 0) eqn:El; [discriminate|].
  destruct (best lots m (e_us e) rem) as [i|] eqn:Eb; [|discriminate].
  pose proof (best_pos _ _ _ _ Eb) as Hi.
  pose proof (npos_upd_zero rem i Hi) as Hn.
  destruct (Z.le_gt_cases (nth i rem 0) left) as [Hle|Hgt].
  - rewrite Z.min_r by lia. rewrite (Z.sub_diag (nth i rem 0)). apply IH. lia.
  - rewrite Z.min_l by lia. rewrite (Z.sub_diag left).
    destruct f as [|f']; [lia|].
    rewrite consume_S. change (0 <=? 0) with true. cbv iota. discriminate.
Qed.

Lemma consume_fuel m e f left rem out :
  (length rem < f)%nat ->
  consume lots f m e left rem out = consume lots (S (length rem)) m e left rem out.
Proof.
  intros Hf. pose proof (npos_le_length rem) as Hn.
  apply consume_mono; [lia|]. apply consume_no_oof. lia.
Qed.

(** ** what [consume] produces *)

Lemma consume_out m e : forall f left rem out rem' out',
  consume lots f m e left rem out = Ok (rem', out') ->
  length rem' = length rem /\
  exists o2, out' = o2 ++ out /\ forall fr, In fr o2 -> f_ev fr = e_row e.
Proof.
  induction f as [|f IH]; intros left rem out rem' out' H.
  - discriminate H.
  - rewrite consume_S in H. destruct (left <=? 0).
    + injection H as <- <-. split; [reflexivity|].
      exists []. split; [reflexivity|]. intros fr [].
    + destruct (best lots m (e_us e) rem) as [i|]; [|discriminate H].
      apply IH in H. destruct H as [Hl [o2 [-> Ho2]]].
      rewrite upd_length in Hl. split; [exact Hl|].
      exists (o2 ++ [mk_frac lots e (Some i) (Z.min left (nth i rem 0))]).
      split; [rewrite <- app_assoc; reflexivity|].
      intros fr Hin. apply in_app_or in Hin. destruct Hin as [Hin|[<-|[]]].
      * apply Ho2, Hin.
      * reflexivity.
Qed.

(** ** the state-returning twin of [spec_events] *)

Fixpoint spec_state (evs : list event) (rem : list Z) (out : list fraction)
  : result (list Z * list fraction) :=
  match evs with
  | [] => Ok (rem, out)
  | e :: r =>
    if e_earn e then spec_state r rem (mk_frac lots e None (e_amt e) :: out)
    else match meth_for sched (e_year e) None with
         | None => Err ENoMethod
         | Some (_, m) =>
           match consume lots (S (length lots)) m e (e_amt e) rem out with
           | Err x => Err x
           | Ok (rem', out') => spec_state r rem' out'
           end
         end
  end.

Lemma spec_state_cons e r rem out :
  spec_state (e :: r) rem out =
  if e_earn e then spec_state r rem (mk_frac lots e None (e_amt e) :: out)
  else match meth_for sched (e_year e) None with
       | None => Err ENoMethod
       | Some (_, m) =>
         match consume lots (S (length lots)) m e (e_amt e) rem out with
         | Err x => Err x
         | Ok (rem', out') => spec_state r rem' out'
         end
       end.
Proof. reflexivity. Qed.

Lemma spec_events_app evs2 : forall evs rem out,
  spec_events lots sched (evs ++ evs2) rem out =
  match spec_state evs rem out with
  | Ok (r, o) => spec_events lots sched evs2 r o
  | Err x => Err x
  end.
Proof.
  induction evs as [|e r IH]; intros rem out.
  - reflexivity.
  - rewrite <- app_comm_cons, spec_events_cons, spec_state_cons.
    destruct (e_earn e); [apply IH|].
    destruct (meth_for sched (e_year e) None) as [[y m]|]; [|reflexivity].
    destruct (consume lots (S (length lots)) m e (e_amt e) rem out) as [[r' o']|x];
      [apply IH | reflexivity].
Qed.

Lemma spec_events_state evs rem out :
  spec_events lots sched evs rem out =
  match spec_state evs rem out with
  | Ok (r, o) => Ok (rev o)
  | Err x => Err x
  end.
Proof.
  rewrite <- (app_nil_r evs) at 1. rewrite spec_events_app.
  destruct (spec_state evs rem out) as [[r o]|x]; reflexivity.
Qed.

(** the output of [spec_events] extends [rev out] with fractions of the processed events *)
Lemma spec_events_out : forall evs rem out fs,
  spec_events lots sched evs rem out = Ok fs ->
  exists fs2, fs = rev out ++ fs2 /\
    forall fr, In fr fs2 -> exists e, In e evs /\ e_row e = f_ev fr.
Proof.
  induction evs as [|e r IH]; intros rem out fs H.
  - simpl in H. injection H as <-. exists []. split; [symmetry; apply app_nil_r|].
    intros fr [].
  - rewrite spec_events_cons in H. destruct (e_earn e).
    + apply IH in H. destruct H as [fs2 [-> Hf]].
      exists (mk_frac lots e None (e_amt e) :: fs2). split.
      * simpl rev. rewrite <- app_assoc. reflexivity.
      * intros fr [<-|Hin].
        -- exists e. split; [left; reflexivity | reflexivity].
        -- destruct (Hf fr Hin) as [e' [He' Hr]]. exists e'. split; [right; exact He' | exact Hr].
    + destruct (meth_for sched (e_year e) None) as [[y m]|]; [|discriminate H].
      destruct (consume lots (S (length lots)) m e (e_amt e) rem out) as [[r' o']|x] eqn:Ec;
        [|discriminate H].
      apply consume_out in Ec. destruct Ec as [_ [o2 [-> Ho2]]].
      apply IH in H. destruct H as [fs2 [-> Hf]].
      exists (rev o2 ++ fs2). split.
      * rewrite rev_app_distr, <- app_assoc. reflexivity.
      * intros fr Hin. apply in_app_or in Hin. destruct Hin as [Hin|Hin].
        -- exists e. split; [left; reflexivity|].
           symmetry. apply Ho2. apply in_rev. exact Hin.
        -- destruct (Hf fr Hin) as [e' [He' Hr]]. exists e'. split; [right; exact He' | exact Hr].
Qed.

(** [EOutOfFuel] is a pure model artefact: the specification never returns it
    (no well-formedness needed) *)
Lemma spec_events_no_oof : forall evs rem out, length rem = length lots ->
  spec_events lots sched evs rem out <> Err EOutOfFuel.
Proof.
  induction evs as [|e r IH]; intros rem out Hlen.
  - discriminate.
  - rewrite spec_events_cons. destruct (e_earn e); [apply IH, Hlen|].
    destruct (meth_for sched (e_year e) None) as [[y m]|]; [|discriminate].
    destruct (consume lots (S (length lots)) m e (e_amt e) rem out) as [[r' o']|x] eqn:Ec.
    + apply IH. apply consume_out in Ec. destruct Ec as [Hl _]. lia.
    + intros H. injection H as ->. revert Ec. apply consume_no_oof.
      pose proof (npos_le_length rem). lia.
Qed.

Lemma spec_run_no_oof evs : spec_run lots sched evs <> Err EOutOfFuel.
Proof. unfold spec_run. apply spec_events_no_oof, map_length. Qed.

End One.

(** * Extending the lot list with lots acquired after [T] *)
Section Prefix.
Variables lots lots2 : list intx.
Variable sched : list (Z * meth).
Variable T : Z.
Hypothesis Hlots2 : forall l, In l lots2 -> T < utc_us (i_ts l).

Notation L := (lots ++ lots2).

Lemma lotn_app_l i : (i < length lots)%nat -> lotn L i = lotn lots i.
Proof. intros H. unfold lotn. apply app_nth1, H. Qed.

Lemma lot_us_app_l i : (i < length lots)%nat -> lot_us L i = lot_us lots i.
Proof. intros H. unfold lot_us. rewrite lotn_app_l by exact H. reflexivity. Qed.

Lemma lot_us_app_r i : (length lots <= i < length L)%nat -> T < lot_us L i.
Proof.
  intros H. unfold lot_us, lotn. rewrite app_length in H. rewrite app_nth2 by lia.
  apply Hlots2, nth_In. lia.
Qed.

Lemma spec_rank_app m i : (i < length lots)%nat -> spec_rank L m i = spec_rank lots m i.
Proof. intros H. unfold spec_rank. rewrite lotn_app_l by exact H. reflexivity. Qed.

Lemma mk_frac_app e i x : (i < length lots)%nat -> mk_frac L e (Some i) x = mk_frac lots e (Some i) x.
Proof. intros H. unfold mk_frac. simpl option_map. rewrite lotn_app_l by exact H. reflexivity. Qed.

Lemma upd_app_l {A} : forall (a b : list A) i x, (i < length a)%nat -> upd (a ++ b) i x = upd a i x ++ b.
Proof.
  induction a as [|h t IH]; intros b i x H; simpl in H; [lia|].
  destruct i as [|j]; simpl; [reflexivity|]. rewrite IH by lia. reflexivity.
Qed.

(** ** [best] ignores the added lots at instants [<= T] *)

Lemma best_aux_split (ls : list intx) m t rem : forall a b i bst,
  best_aux ls m t rem i (a + b) bst
  = best_aux ls m t rem (i + a) b (best_aux ls m t rem i a bst).
Proof.
  induction a as [|a IH]; intros b i bst.
  - rewrite Nat.add_0_r. reflexivity.
  - change (S a + b)%nat with (S (a + b)). rewrite !best_aux_S, IH.
    replace (S i + a)%nat with (i + S a)%nat by lia. reflexivity.
Qed.

Lemma best_aux_unavail (ls : list intx) m t rem : forall b i bst,
  (forall j, (i <= j < i + b)%nat -> t < lot_us ls j) ->
  best_aux ls m t rem i b bst = bst.
Proof.
  induction b as [|b IH]; intros i bst H; [reflexivity|].
  rewrite best_aux_S.
  replace (lot_us ls i <=? t) with false by (specialize (H i); lia).
  rewrite andb_false_l. apply IH. intros j Hj. apply H. lia.
Qed.

Lemma best_aux_app m t rem rem2 : length rem = length lots ->
  forall a i bst, (i + a <= length lots)%nat ->
  (forall b, bst = Some b -> (b < length lots)%nat) ->
  best_aux L m t (rem ++ rem2) i a bst = best_aux lots m t rem i a bst.
Proof.
  intros Hlen. induction a as [|a IH]; intros i bst Hia Hb; [reflexivity|].
  assert (Hi : (i < length lots)%nat) by lia.
  rewrite !best_aux_S.
  rewrite (lot_us_app_l i Hi), (app_nth1 rem rem2 0) by lia.
  rewrite (spec_rank_app m i Hi).
  destruct bst as [b|].
  - rewrite (spec_rank_app m b) by (apply Hb; reflexivity).
    apply IH; [lia|]. intros b' Hb'.
    destruct ((lot_us lots i <=? t) && (nth i rem 0 >? 0)); [|apply Hb, Hb'].
    destruct (key_ltb (spec_rank lots m i) (spec_rank lots m b)); [|apply Hb, Hb'].
    injection Hb' as <-. exact Hi.
  - apply IH; [lia|]. intros b' Hb'.
    destruct ((lot_us lots i <=? t) && (nth i rem 0 >? 0)); [|discriminate Hb'].
    injection Hb' as <-. exact Hi.
Qed.

Lemma best_app m t rem rem2 : t <= T -> length rem = length lots ->
  best L m t (rem ++ rem2) = best lots m t rem.
Proof.
  intros Ht Hlen. unfold best. rewrite app_length, best_aux_split.
  rewrite (best_aux_app m t rem rem2 Hlen (length lots) 0%nat None)
    by (try lia; intros b Hb; discriminate Hb).
  apply best_aux_unavail. intros j Hj.
  assert (T < lot_us L j) by (apply lot_us_app_r; rewrite app_length; lia). lia.
Qed.

(** ** [consume] and [spec_state] on the extended input *)

Definition lift2 (rem2 : list Z) (r : result (list Z * list fraction)) : result (list Z * list fraction) :=
  match r with
  | Ok (rm, o) => Ok (rm ++ rem2, o)
  | Err x => Err x
  end.

Lemma consume_app m e rem2 : e_us e <= T ->
  forall f left rem out, length rem = length lots ->
  consume L f m e left (rem ++ rem2) out = lift2 rem2 (consume lots f m e left rem out).
Proof.
  intros He. induction f as [|f IH]; intros left rem out Hlen; [reflexivity|].
  rewrite !consume_S, (best_app m (e_us e) rem rem2 He Hlen).
  destruct (left <=? 0); [reflexivity|].
  destruct (best lots m (e_us e) rem) as [i|] eqn:Eb; [|reflexivity].
  assert (Hi : (i < length lots)%nat).
  { rewrite <- Hlen. apply nth_pos_lt. eapply best_pos; exact Eb. }
  rewrite (app_nth1 rem rem2 0) by lia.
  rewrite upd_app_l by lia. rewrite (mk_frac_app e i _ Hi).
  apply IH. rewrite upd_length. exact Hlen.
Qed.

Lemma spec_state_app rem2 : forall evs, (forall e, In e evs -> e_us e <= T) ->
  forall rem out, length rem = length lots ->
  spec_state L sched evs (rem ++ rem2) out = lift2 rem2 (spec_state lots sched evs rem out).
Proof.
  induction evs as [|e r IH]; intros Hev rem out Hlen; [reflexivity|].
  assert (He : e_us e <= T) by (apply Hev; left; reflexivity).
  assert (Hr : forall e', In e' r -> e_us e' <= T) by (intros e' H'; apply Hev; right; exact H').
  rewrite !spec_state_cons.
  change (mk_frac L e None (e_amt e)) with (mk_frac lots e None (e_amt e)).
  destruct (e_earn e); [apply IH; assumption|].
  destruct (meth_for sched (e_year e) None) as [[y m]|]; [|reflexivity].
  rewrite (consume_app m e rem2 He _ _ _ _ Hlen).
  rewrite (consume_fuel lots m e (S (length L))) by (rewrite app_length; lia).
  rewrite Hlen.
  destruct (consume lots (S (length lots)) m e (e_amt e) rem out) as [[r' o']|x] eqn:Ec;
    [|reflexivity].
  simpl lift2. apply IH; [exact Hr|].
  apply consume_out in Ec. destruct Ec as [Hl _]. lia.
Qed.

(** ** the generalised statement: no well-formedness is needed, nor the bounds on
    [lots] and [evs2]; only "[evs] at or before [T]" and "[lots2] after [T]" *)
Theorem spec_prefix_stable_gen : forall evs evs2,
  (forall e, In e evs -> e_us e <= T) ->
  match spec_run lots sched evs with
  | Ok fs1 =>
    match spec_run L sched (evs ++ evs2) with
    | Ok fs => exists fs2, fs = fs1 ++ fs2 /\
                 (forall f, In f fs2 -> exists e, In e evs2 /\ e_row e = f_ev f)
    | Err _ => True
    end
  | Err x => spec_run L sched (evs ++ evs2) = Err x
  end.
Proof.
  intros evs evs2 Hev. unfold spec_run.
  rewrite map_app, spec_events_app.
  rewrite (spec_state_app (map i_crypto_in lots2) evs Hev) by apply map_length.
  rewrite (spec_events_state lots sched evs).
  destruct (spec_state lots sched evs (map i_crypto_in lots) []) as [[r o]|x]; simpl lift2.
  - destruct (spec_events L sched evs2 (r ++ map i_crypto_in lots2) o) as [fs|x] eqn:E; [|exact I].
    apply spec_events_out in E. destruct E as [fs2 [-> Hf]].
    exists fs2. split; [reflexivity | exact Hf].
  - reflexivity.
Qed.

End Prefix.

(** * The statement as requested *)
Theorem spec_prefix_stable : forall lots lots2 sched evs evs2 T,
  (forall e, In e evs -> e_us e <= T) -> (forall e, In e evs2 -> T < e_us e) ->
  (forall l, In l lots -> utc_us (i_ts l) <= T) -> (forall l, In l lots2 -> T < utc_us (i_ts l)) ->
  wf (lots ++ lots2) sched (evs ++ evs2) ->
  match spec_run lots sched evs with
  | Ok fs1 => match spec_run (lots ++ lots2) sched (evs ++ evs2) with
              | Ok fs => exists fs2, fs = fs1 ++ fs2 /\ (forall f, In f fs2 -> exists e, In e evs2 /\ e_row e = f_ev f)
              | Err _ => True          (* the continuation itself may overspend *)
              end
  | Err x => spec_run (lots ++ lots2) sched (evs ++ evs2) = Err x
  end.
Proof.
  intros lots lots2 sched evs evs2 T Hev _ _ Hl2 _.
  apply (spec_prefix_stable_gen lots lots2 sched T Hl2 evs evs2 Hev).
Qed.

