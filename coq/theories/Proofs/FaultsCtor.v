(** C12, constructor level: every contradiction the property text lists makes the constructor fail. *)
From RP2V Require Import Base.Prelude Base.Time Base.Dec Base.Sorting Model.Types Model.Generated Model.Txn.
Open Scope Z_scope.

Definition is_err {A} (r : result A) : Prop := match r with Err _ => True | Ok _ => False end.

Lemma is_err_bind {A B} (r : result A) (f : A -> result B) : is_err r -> is_err (bind r f).
Proof. destruct r; simpl; [intros []|auto]. Qed.

(** follow the control flow of a model function until it returns *)
Ltac chase :=
  repeat match goal with
         | |- is_err (Err _) => exact I
         | |- is_err (bind ?r _) => let E := fresh "E" in destruct r eqn:E; simpl bind
         | |- is_err (if ?b then _ else _) => let E := fresh "E" in destruct b eqn:E
         | |- is_err (match ?x with _ => _ end) => let E := fresh "E" in destruct x eqn:E
         end.

Ltac b2p :=
  repeat match goal with
         | H : (_ && _) = true |- _ => apply andb_true_iff in H; destruct H
         | H : (_ || _) = false |- _ => apply orb_false_iff in H; destruct H
         | H : negb _ = true |- _ => apply negb_true_iff in H
         | H : negb _ = false |- _ => apply negb_false_iff in H
         | H : (_ <? _) = true |- _ => apply Z.ltb_lt in H
         | H : (_ <? _) = false |- _ => apply Z.ltb_ge in H
         | H : (_ <=? _) = true |- _ => apply Z.leb_le in H
         | H : (_ <=? _) = false |- _ => apply Z.leb_gt in H
         | H : (_ =? _) = true |- _ => apply Z.eqb_eq in H
         | H : (_ =? _) = false |- _ => apply Z.eqb_neq in H
         end.

Ltac hyps :=
  repeat match goal with
         | H : (if ?b then _ else _) = _ |- _ => let E := fresh "E" in destruct b eqn:E; try discriminate
         | H : (match ?x with _ => _ end) = _ |- _ => let E := fresh "E" in destruct x eqn:E; try discriminate
         end.

(** ---------- transaction type not allowed in its table: 14 types x 3 tables *)
Lemma in_types_exact t : in_type_allowed t = true <->
  In t [AIRDROP; BUY; DONATE; GIFT; HARDFORK; INCOME; INTEREST; MINING; STAKING; WAGES].
Proof.
  destruct t; vm_compute; split; intro H; try reflexivity; try discriminate; auto 15;
    repeat (destruct H as [H|H]; [discriminate|]); contradiction.
Qed.

Lemma out_types_exact t : out_type_allowed t = true <-> In t [DONATE; FEE; GIFT; LOST; SELL; STAKING].
Proof.
  destruct t; vm_compute; split; intro H; try reflexivity; try discriminate; auto 15;
    repeat (destruct H as [H|H]; [discriminate|]); contradiction.
Qed.

Lemma mk_in_type_not_allowed r : in_type_allowed (ri_type r) = false -> is_err (mk_in r).
Proof. intro H. unfold mk_in. chase; b2p; congruence. Qed.

Lemma mk_out_type_not_allowed r : out_type_allowed (ro_type r) = false -> is_err (mk_out r).
Proof. intro H. unfold mk_out. chase; b2p; congruence. Qed.

(** a transfer has no type field at all: raw_intra carries none and the constructed transaction is always a MOVE *)
Lemma intra_always_move a : t_type (TIntra a) = MOVE.
Proof. reflexivity. Qed.

(** ---------- non-positive amounts, zero / negative spot price, both fee kinds: acquisitions *)
Lemma neq_ttype_eqb a b : a <> b -> ttype_eqb a b = false.
Proof. intro N. destruct (ttype_eqb a b) eqn:K; [apply ttype_eqb_eq in K; contradiction|reflexivity]. Qed.

Lemma mk_in_nonpositive_amount r : ri_type r <> STAKING -> ri_crypto_in r <= 0 -> is_err (mk_in r).
Proof.
  intros T H. unfold mk_in. rewrite (neq_ttype_eqb _ _ T). simpl negb.
  destruct (ri_crypto_in r <=? 0) eqn:K; [|b2p; lia]. simpl andb. chase.
Qed.

Lemma mk_in_negative_spot r : ri_spot r < 0 -> is_err (mk_in r).
Proof. intro H. unfold mk_in. chase; b2p; lia. Qed.

Lemma mk_in_zero_spot r : ri_spot r = 0 -> is_err (mk_in r).
Proof. intro H. unfold mk_in. chase; b2p; lia. Qed.

Lemma mk_in_negative_crypto_fee r v : ri_crypto_fee r = Some v -> v < 0 -> is_err (mk_in r).
Proof.
  intros C H. unfold mk_in. rewrite C. unfold truthy.
  destruct (v =? 0) eqn:V; [b2p; lia|]. simpl negb. cbv iota.
  chase; b2p; lia.
Qed.

Lemma mk_in_negative_fiat_fee r v : ri_fiat_fee r = Some v -> v < 0 -> is_err (mk_in r).
Proof.
  intros C H. unfold mk_in. rewrite C. unfold truthy at 2.
  destruct (v =? 0) eqn:V; [b2p; lia|]. simpl negb. cbv iota.
  chase; b2p; lia.
Qed.

Lemma mk_in_both_fees r c f : ri_crypto_fee r = Some c -> ri_fiat_fee r = Some f -> is_err (mk_in r).
Proof. intros C F. unfold mk_in. rewrite C, F. chase. Qed.

Lemma mk_in_nonpositive_fiat_in_no_fee r v : ri_fiat_in_no_fee r = Some v -> v <= 0 -> is_err (mk_in r).
Proof. intros C H. unfold mk_in. rewrite C. chase; hyps; b2p; try lia; try discriminate. Qed.

Lemma mk_in_nonpositive_fiat_in_with_fee r v : ri_fiat_in_with_fee r = Some v -> v <= 0 -> is_err (mk_in r).
Proof. intros C H. unfold mk_in. rewrite C. chase; hyps; b2p; try lia; try discriminate. Qed.

(** ---------- disposals *)
Lemma mk_out_negative_spot r : ro_spot r < 0 -> is_err (mk_out r).
Proof. intro H. unfold mk_out. chase; b2p; lia. Qed.

Lemma mk_out_zero_spot r : ro_type r <> FEE -> ro_spot r = 0 -> is_err (mk_out r).
Proof. intros T H. unfold mk_out. rewrite (neq_ttype_eqb _ _ T). chase; b2p; lia. Qed.

Lemma mk_out_nonpositive_amount r : ro_type r <> FEE -> ro_crypto_out_no_fee r <= 0 -> is_err (mk_out r).
Proof. intros T H. unfold mk_out. rewrite (neq_ttype_eqb _ _ T). chase; b2p; lia. Qed.

Lemma mk_out_negative_fee r : ro_crypto_fee r < 0 -> is_err (mk_out r).
Proof. intro H. unfold mk_out. destruct (ttype_eqb (ro_type r) FEE); chase; b2p; lia. Qed.

Lemma mk_out_fee_typed_nonpositive_fee r : ro_type r = FEE -> ro_crypto_fee r <= 0 -> is_err (mk_out r).
Proof. intros T H. unfold mk_out. rewrite T. change (ttype_eqb FEE FEE) with true. chase; b2p; lia. Qed.

Lemma mk_out_fee_typed_with_amount r : ro_type r = FEE -> ro_crypto_out_no_fee r <> 0 -> is_err (mk_out r).
Proof. intros T H. unfold mk_out. rewrite T. change (ttype_eqb FEE FEE) with true. chase; b2p; lia. Qed.

Lemma mk_out_nonpositive_with_fee r v : ro_crypto_out_with_fee r = Some v -> v <= 0 -> is_err (mk_out r).
Proof. intros C H. unfold mk_out. rewrite C. chase; hyps; b2p; try lia; try discriminate. Qed.

Lemma mk_out_nonpositive_fiat_out_no_fee r v : ro_fiat_out_no_fee r = Some v -> v <= 0 -> is_err (mk_out r).
Proof. intros C H. unfold mk_out. rewrite C. chase; hyps; b2p; try lia; try discriminate. Qed.

Lemma mk_out_negative_fiat_fee r v : ro_fiat_fee r = Some v -> v < 0 -> is_err (mk_out r).
Proof. intros C H. unfold mk_out. rewrite C. chase; hyps; b2p; try lia; try discriminate. Qed.

(** ---------- transfers *)
Lemma mk_intra_nonpositive_sent r : rx_crypto_sent r <= 0 -> is_err (mk_intra r).
Proof. intro H. unfold mk_intra. chase; b2p; lia. Qed.

Lemma mk_intra_negative_received r : rx_crypto_received r < 0 -> is_err (mk_intra r).
Proof. intro H. unfold mk_intra. chase; b2p; lia. Qed.

Lemma mk_intra_received_more_than_sent r : rx_crypto_sent r < rx_crypto_received r -> is_err (mk_intra r).
Proof. intro H. unfold mk_intra. chase; hyps; b2p; try lia; try discriminate. Qed.

Lemma mk_intra_fee_without_spot r :
  rx_crypto_sent r <> rx_crypto_received r -> (rx_spot r = None \/ rx_spot r = Some 0) -> is_err (mk_intra r).
Proof.
  intros N [S|S]; unfold mk_intra; rewrite S; chase; hyps; b2p; try lia; try discriminate.
Qed.

Lemma mk_intra_negative_spot r v : rx_spot r = Some v -> v < 0 -> is_err (mk_intra r).
Proof.
  intros S H. unfold mk_intra. rewrite S. chase; hyps; b2p; try lia; try discriminate;
    repeat match goal with K : Ok _ = Ok _ |- _ => inversion K; clear K end; subst; b2p; lia.
Qed.

(** what is NOT a fault (so that the lemmas above demand no more than the property): a non-positive staking
    acquisition, a fee-typed disposal without spot price, a fee-less transfer without spot price *)
Example staking_may_be_negative :
  exists a, mk_in {| ri_row := 3; ri_ts := {| utc_us := 0; off_s := 0 |}; ri_exch := 0; ri_holder := 0; ri_type := STAKING;
                     ri_spot := 100; ri_crypto_in := -5; ri_crypto_fee := None; ri_fiat_in_no_fee := None;
                     ri_fiat_in_with_fee := None; ri_fiat_fee := None |} = Ok a.
Proof. eexists. vm_compute. reflexivity. Qed.

Example fee_typed_needs_no_spot :
  exists a, mk_out {| ro_row := 3; ro_ts := {| utc_us := 0; off_s := 0 |}; ro_exch := 0; ro_holder := 0; ro_type := FEE;
                      ro_spot := 0; ro_crypto_out_no_fee := 0; ro_crypto_fee := 7; ro_crypto_out_with_fee := None;
                      ro_fiat_out_no_fee := None; ro_fiat_fee := None |} = Ok a.
Proof. eexists. vm_compute. reflexivity. Qed.

Example feeless_transfer_needs_no_spot :
  exists a, mk_intra {| rx_row := 3; rx_ts := {| utc_us := 0; off_s := 0 |}; rx_from_exch := 0; rx_from_holder := 0; rx_to_exch := 1;
                        rx_to_holder := 0; rx_spot := None; rx_crypto_sent := 9; rx_crypto_received := 9 |} = Ok a.
Proof. eexists. vm_compute. reflexivity. Qed.
