(** The tables read from computed_data.py on this run (Model/GeneratedTie.v, fragment computed), interpreted by
    Model/ComputedGen.v, give the hand-written aggregation functions of Model/Computed.v.

    The lemmas are about the tables generated from the CURRENT source: an edit of computed_data.py that changes which
    set a loop iterates, drops or changes a to-date cut, accumulates another attribute, changes the yearly key or the
    year filter makes the corresponding lemma stop compiling; the property files that cite it (C06, C09, C10, C13, C15)
    then report a broken proof obligation.
    The lemmas live in one file per concern (ComputedGenRunning / Yearly / Sold / Price / Order); this file only combines
    them into the statements C09 and C10 cite. *)
From Coq Require Import List ZArith Bool Lia.
From RP2V Require Import Base.Prelude Base.Time Base.Dec Base.Sorting Base.Assoc Model.Types Model.Generated Model.GeneratedTie
  Model.Txn Model.Matcher Model.Pipeline Model.Computed Model.ComputedGen
  Proofs.ComputedGenRunning Proofs.ComputedGenYearly Proofs.ComputedGenSold Proofs.ComputedGenPrice Proofs.ComputedGenOrder.
Import ListNotations.
Open Scope Z_scope.

(** what each property cites *)
Definition window_aggregates_agree : Prop :=
  (forall period from_day to_day gls, yearly_list_gen period from_day to_day gls = yearly_list period to_day (year_of_day from_day) gls) /\
  (forall from_day to_day gls,
     sold_pct_gen from_day to_day gls = fold_left (sold_pct_add from_day to_day) (iter_window g_day from_day to_day gls) (Ok [])) /\
  (forall from_day to_day ins, price_per_unit_gen from_day to_day ins = price_per_unit to_day ins).
Lemma window_aggregates_gen_agree : window_aggregates_agree.
Proof. exact (conj yearly_list_gen_agrees (conj sold_pct_gen_agrees price_per_unit_gen_agrees)). Qed.

Definition window_views_agree : Prop :=
  window_aggregates_agree /\ gen_duplicate_force_sorts = true /\ gen_cd_duplicate_before_yearly = true.
Lemma window_views_gen_agree : window_views_agree.
Proof. exact (conj window_aggregates_gen_agree (conj code_duplicate_force_sorts code_cd_duplicate_before_yearly)). Qed.
