(** Numeric conversion of the ODS parser: f"{value:.11f}" = exact half-even rounding of the
    double's binary value to 11 decimals. *)
From RP2V Require Import Base.Prelude Base.Dec Model.Types Model.Generated Model.Txn Model.Parser Proofs.DecProofs.
Open Scope Z_scope.

(** the translated format precision is the one the property speaks about *)
Lemma fmt_decimals_is_11 : gen_fmt_decimals = 11.
Proof. reflexivity. Qed.

Lemma num11_unfold n d : num11 n d = rhe_div (n * 10 ^ 11) d false.
Proof. unfold num11. rewrite fmt_decimals_is_11. change (11 <=? 11) with true. cbv iota. unfold pow10. change (11 - 11) with 0. change (10 ^ 0) with 1. apply Z.mul_1_r. Qed.

(** |num11 q - q| <= 5e-12, stated without division: 2 * |num11 * den - num * 1e11| <= den *)
Lemma num11_accuracy n d : 0 < d -> 2 * Z.abs (num11 n d * d - n * 10 ^ 11) <= d.
Proof. intro H. rewrite num11_unfold. apply rhe_div_half; assumption. Qed.

(** a value that already lies on the 1e-11 grid is returned unchanged *)
Lemma num11_grid u d : 0 < d -> forall n, n * 10 ^ 11 = u * d -> num11 n d = u.
Proof. intros H n E. rewrite num11_unfold, E. apply rhe_div_exact; assumption. Qed.
