(** Totality of the computation ("ComputedData exists").  [compute] (Model/Computed.v) is a chain of stages, each of which
    can fail; on the output of the matcher for a history built by the constructors every stage but the balance guard
    succeeds, for every date window:

      taxable_events   Err EDup only on duplicate row ids -- excluded because the matcher ran ([fractions_of] = Ok)
      resolve_all      fails only if a fraction names an unknown event / lot -- the matcher names only its inputs
      numbering        [matcher_numbering_total] (NumberingLift.v)
      yearly_list      [c06_figures_defined]: the divisors are the event's / lot's amount, positive on a built history
      balances         [c08_only_error]: only ENegBalance, only without -n, exactly on an overdraft
      price_per_unit   divisor = total crypto_in of a non-empty list of positive amounts (empty list: Ok 0)
      sold_pct_add     divisor = the lot's amount

    so [compute] = Err e implies e = ENegBalance (never EInternal / EValue / EDup), and that happens exactly on an
    overdraft without -n.  Lifted to [compute_tax] (the matcher itself fails only with EExhausted, exactly when the lots
    run out: [m_total], [m_fails_iff]) and to the multi-asset [computed_all] of the report input. *)
From Coq Require Import List ZArith Bool Lia Permutation Sorted ZifyBool.
From RP2V Require Import Base.Prelude Base.Assoc Base.Sorting Base.Dec Base.Time Model.Types Model.Generated Model.Txn
  Model.Matcher Model.MatchSpec Model.MatchWf Model.FracSpec Model.Pipeline Model.Computed Model.ComputedSpec Model.NumberSpec
  Model.TotalSpec Model.ReportInput.
From RP2V Require Import Proofs.SortingProofs Proofs.FilterProofs Proofs.DecProofs Proofs.ComputedProofs Proofs.NumberingProofs
  Proofs.NumberingLift Proofs.MatcherProps Proofs.C03Proofs Proofs.PipelineWf Proofs.C06Proofs Proofs.C08Proofs
  Proofs.C08Compute Proofs.PriceProofs.
Import ListNotations.
Open Scope Z_scope.

(** * 1. what the constructors guarantee about amounts: only STAKING can be non-positive *)
Lemma mk_in_positive r a : mk_in r = Ok a -> ri_type r <> STAKING -> 0 < ri_crypto_in r.
Proof.
  unfold mk_in. cbv zeta. intros H Hty.
  destruct (ri_spot r <? 0); [discriminate|].
  destruct (negb (ttype_eqb (ri_type r) STAKING) && (ri_crypto_in r <=? 0)) eqn:E; [discriminate|].
  apply andb_false_iff in E. destruct E as [E|E]; [|lia].
  exfalso. apply negb_false_iff in E. apply Hty. apply ttype_eqb_eq. exact E.
Qed.

Lemma built_amounts_positive h t : build h = Ok t -> no_nonpositive_staking h -> amounts_positive h.
Proof.
  intros Hb Hs r Hr.
  destruct (build_inv _ _ Hb) as (ins & outs & intras & E1 & _).
  destruct (ttype_eqb (ri_type r) STAKING) eqn:Ety; [apply ttype_eqb_eq in Ety; exact (Hs r Hr Ety)|].
  assert (Hty : ri_type r <> STAKING) by (intros Heq; apply ttype_eqb_eq in Heq; congruence).
  assert (Hmk : exists a, mk_in r = Ok a).
  { clear -E1 Hr. revert ins E1. induction (h_ins h) as [|x l IH]; intros ins E1; [destruct Hr|].
    cbn [map_result] in E1. destruct (mk_in x) as [b|] eqn:Ex; [|discriminate].
    destruct (map_result mk_in l) as [ys|] eqn:El; [|discriminate].
    destruct Hr as [->|Hr]; [exists b; exact Ex|exact (IH Hr ys eq_refl)]. }
  destruct Hmk as (a & Hmk). exact (mk_in_positive _ _ Hmk Hty).
Qed.

(** * 2. [resolve_all] succeeds when every fraction names an event and (if any) a lot of the input *)
Lemma find_ev_some evs r : In r (map t_row evs) -> exists e, find_ev evs r = Some e.
Proof.
  intros H. apply in_map_iff in H. destruct H as (x & Hx & Hin). unfold find_ev.
  destruct (find (fun t => t_row t =? r) evs) as [e|] eqn:F; [exists e; reflexivity|].
  exfalso. pose proof (find_none _ _ F x Hin) as Hn. cbv beta in Hn. lia.
Qed.
Lemma find_lot_some lots r : In r (map i_row lots) -> exists a, find_lot lots r = Some a.
Proof.
  intros H. apply in_map_iff in H. destruct H as (x & Hx & Hin). unfold find_lot.
  destruct (find (fun t => i_row t =? r) lots) as [e|] eqn:F; [exists e; reflexivity|].
  exfalso. pose proof (find_none _ _ F x Hin) as Hn. cbv beta in Hn. lia.
Qed.

Lemma resolve_all_some evs lots : forall fs,
  (forall f, In f fs -> In (f_ev f) (map t_row evs) /\ forall r, f_lot f = Some r -> In r (map i_row lots)) ->
  exists gls, resolve_all evs lots fs = Some gls.
Proof.
  induction fs as [|f fs IH]; intros H; cbn [resolve_all]; [eexists; reflexivity|].
  destruct (H f (or_introl eq_refl)) as [He Hl].
  destruct IH as (gs & ->); [intros f' Hf'; apply H; right; exact Hf'|].
  unfold resolve. destruct (find_ev_some _ _ He) as (e & ->).
  destruct (f_lot f) as [r|]; [|eexists; reflexivity].
  destruct (find_lot_some _ _ (Hl r eq_refl)) as (a & ->). eexists. reflexivity.
Qed.

(** the matcher names only events and lots it was given *)
Lemma matcher_fractions_resolve sched t evs fs :
  taxable_events t = Ok evs -> wf (t_ins t) sched (map event_of evs) ->
  fractions_of gen_always_repush sched t = Ok fs ->
  exists gls, resolve_all evs (t_ins t) fs = Some gls.
Proof.
  intros HE WF HFR. unfold fractions_of in HFR. rewrite HE in HFR.
  apply resolve_all_some. intros f Hf. split.
  - destruct (m_only_events _ _ _ WF fs HFR f Hf) as (e & He & Hr & _).
    apply in_map_iff in He. destruct He as (x & <- & Hx). cbn [event_of e_row] in Hr. rewrite <- Hr. apply in_map. exact Hx.
  - intros r Hl. destruct (In_nth_error _ _ Hf) as (k & Hk).
    destruct (m_order _ _ _ WF fs HFR k f r Hk Hl) as (e & i & y & m & _ & _ & _ & Hi & Hrow & _).
    rewrite <- Hrow. apply in_map. unfold lotn. apply nth_In. exact Hi.
Qed.

(** * 3. the divisions *)
Lemma ddiv_grid_defined a c : c <> 0 -> ddiv a (of_grid c) <> None.
Proof. intros Hc H. apply ddiv_none in H. cbn [of_grid fst] in H. exact (Hc H). Qed.

Lemma figures_defined (g : gl) :
  t_balance_change (g_ev g) <> 0 -> (forall a, g_lot g = Some a -> i_crypto_in a <> 0) ->
  g_proceeds g <> None /\ g_cost g <> None /\ g_gain g <> None.
Proof.
  intros He Hl.
  assert (P : g_proceeds g <> None) by (unfold g_proceeds, gl_proceeds, odiv; apply ddiv_grid_defined; exact He).
  assert (C : g_cost g <> None).
  { unfold g_cost, gl_cost_basis. destruct (g_lot g) as [a|]; [|discriminate].
    unfold odiv. apply ddiv_grid_defined. exact (Hl a eq_refl). }
  split; [exact P|]. split; [exact C|].
  unfold g_gain, gl_gain. fold (g_proceeds g) (g_cost g).
  destruct (g_proceeds g); [|congruence]. destruct (g_cost g); [|congruence]. discriminate.
Qed.

Lemma sumZ_pos {A} (f : A -> Z) l : l <> [] -> (forall a, In a l -> 0 < f a) -> 0 < sumZ (map f l).
Proof.
  destruct l as [|x l]; [congruence|]. intros _ H. cbn [map sumZ].
  assert (0 <= sumZ (map f l)).
  { clear -H. induction l as [|y l IH]; cbn [map sumZ]; [lia|].
    assert (0 < f y) by (apply H; right; left; reflexivity).
    assert (0 <= sumZ (map f l)); [|lia]. apply IH. intros a [<-|Ha]; apply H; [left; reflexivity|right; right; exact Ha]. }
  specialize (H x (or_introl eq_refl)). lia.
Qed.

(** average price: defined whenever the acquisitions are positive; 0 when none is dated up to the to-date *)
Theorem price_total to_day ins : (forall a, In a ins -> 0 < i_crypto_in a) -> exists d, price_per_unit to_day ins = Ok d.
Proof.
  intros Hpos. unfold price_per_unit.
  destruct (take_until (fun a => local_day (i_ts a)) to_day ins) as [|a l] eqn:E; cbv zeta; [eexists; reflexivity|].
  rewrite fold_add_sum. cbn [Z.add].
  assert (Hc : sumZ (map i_crypto_in (a :: l)) <> 0).
  { assert (0 < sumZ (map i_crypto_in (a :: l))); [|lia]. apply sumZ_pos; [discriminate|].
    intros x Hx. apply Hpos. rewrite <- E in Hx. apply (take_until_in _ _ _ _ Hx). }
  destruct (ddiv _ (of_grid (sumZ (map i_crypto_in (a :: l))))) as [q|] eqn:D; [eexists; reflexivity|].
  exfalso. exact (ddiv_grid_defined _ _ Hc D).
Qed.

Theorem price_before_first_acquisition to_day ins :
  (forall a, In a ins -> to_day < local_day (i_ts a)) -> price_per_unit to_day ins = Ok dzero.
Proof.
  intros H. unfold price_per_unit. destruct ins as [|a l]; [reflexivity|]. cbn [take_until].
  assert (E : (to_day <? local_day (i_ts a)) = true) by (specialize (H a (or_introl eq_refl)); lia). rewrite E. reflexivity.
Qed.

(** sold percentage of the lots *)
Lemma sold_total from_day to_day l : (forall g a, In g l -> g_lot g = Some a -> i_crypto_in a <> 0) ->
  forall m, exists m', fold_left (sold_pct_add from_day to_day) l (Ok m) = Ok m'.
Proof.
  induction l as [|g l IH]; intros H m; cbn [fold_left]; [eexists; reflexivity|].
  assert (Hl : forall g' a, In g' l -> g_lot g' = Some a -> i_crypto_in a <> 0) by (intros g' a Hg'; apply H; right; exact Hg').
  unfold sold_pct_add at 2. destruct (g_lot g) as [a|] eqn:L; [|exact (IH Hl m)].
  destruct ((local_day (i_ts a) <? from_day) || (to_day <? local_day (i_ts a))); [exact (IH Hl m)|].
  unfold gl_lot_pct, odiv. change (in_crypto_balance_change a) with (i_crypto_in a).
  destruct (ddiv (of_grid (g_amt g)) (of_grid (i_crypto_in a))) as [p|] eqn:D; [exact (IH Hl _)|].
  exfalso. exact (ddiv_grid_defined _ _ (H g a (or_introl eq_refl) L) D).
Qed.

(** * 4. the stages composed: [compute] succeeds whenever the balance replay does *)
Section Stages.
Variables (period from_day to_day : Z) (allow : bool) (exs hos : list str) (t : txs) (fs : list fraction).
Variables (evs : list txn) (gls0 : list gl).
Hypothesis HE : taxable_events t = Ok evs.
Hypothesis HR : resolve_all evs (t_ins t) fs = Some gls0.
Let gls := sort_by (fun g => t_us (g_ev g)) gls0.
Hypothesis HN : exists nb, numbering to_day gls = Ok nb.
Hypothesis Hev : forall g, In g gls0 -> t_balance_change (g_ev g) <> 0.
Hypothesis Hlot : forall g a, In g gls0 -> g_lot g = Some a -> i_crypto_in a <> 0.
Hypothesis Hins : forall a, In a (t_ins t) -> 0 < i_crypto_in a.

Lemma compute_of_balances bl : balances allow to_day exs hos t = Ok bl ->
  exists cd, compute period from_day to_day allow exs hos t fs = Ok cd.
Proof.
  intros HB. unfold compute. rewrite HE, HR. fold gls.
  destruct HN as ([[[evf lotf] evt] lott] & ->).
  assert (HY : exists yl, yearly_list period to_day (year_of_day from_day) gls = Ok yl).
  { apply c06_figures_defined. intros g Hg. apply (take_until_in g_day) in Hg. destruct Hg as [Hg _].
    unfold gls in Hg. apply sort_by_in in Hg. apply figures_defined; [exact (Hev g Hg)|intros a; exact (Hlot g a Hg)]. }
  destruct HY as (yl & ->). rewrite HB.
  destruct (price_total to_day (t_ins t) Hins) as (ppu & ->).
  match goal with |- exists cd, match ?X with _ => _ end = _ => assert (HS : exists sold, X = Ok sold) end.
  { apply (sold_total from_day to_day (iter_window g_day from_day to_day gls)).
    intros g a Hg. rewrite iter_window_take_until in Hg. apply filter_In in Hg. destruct Hg as [Hg _].
    apply (take_until_in g_day) in Hg. destruct Hg as [Hg _]. unfold gls in Hg. apply sort_by_in in Hg. exact (Hlot g a Hg). }
  destruct HS as (sold & ->). eexists. reflexivity.
Qed.

Lemma compute_err_of_balances e : balances allow to_day exs hos t = Err e ->
  compute period from_day to_day allow exs hos t fs = Err e.
Proof.
  intros HB. unfold compute. rewrite HE, HR. fold gls.
  destruct HN as ([[[evf lotf] evt] lott] & ->).
  assert (HY : exists yl, yearly_list period to_day (year_of_day from_day) gls = Ok yl).
  { apply c06_figures_defined. intros g Hg. apply (take_until_in g_day) in Hg. destruct Hg as [Hg _].
    unfold gls in Hg. apply sort_by_in in Hg. apply figures_defined; [exact (Hev g Hg)|intros a; exact (Hlot g a Hg)]. }
  destruct HY as (yl & ->). rewrite HB. reflexivity.
Qed.
End Stages.

(** * 4b. a successful run of the matcher has only positive event amounts (the loop's own type checks), so a history
    the matcher accepted contains no STAKING acquisition of a non-positive amount (it would be an income event) *)
Section MatcherPositive.
Variables (ar : bool) (lots : list intx).

Lemma next_event_shape s evs cur cl ea la s' evs' e' l' ea' la' :
  next_event ar lots s evs cur cl ea la = Ok (Next s' evs' e' l' ea' la') -> evs = e' :: evs' /\ ea' = e_amt e'.
Proof.
  unfold next_event. destruct evs as [|ne rest]; [discriminate|].
  destruct cur as [ce|].
  - destruct (e_us ce <? e_us ne).
    + destruct (lot_for_event ar lots _ ne (e_amt ne) _) as [[[[s2 i] x] a]|]; [|discriminate]. intros [= <- <- <- <- <- <-]. auto.
    + intros [= <- <- <- <- <- <-]. auto.
  - intros [= <- <- <- <- <- <-]. auto.
Qed.

Lemma next_event_and_lot_shape s evs cur cl ea la s' evs' e' l' ea' la' :
  next_event_and_lot ar lots s evs cur cl ea la = Ok (Next s' evs' e' l' ea' la') -> evs = e' :: evs' /\ ea' = e_amt e'.
Proof.
  unfold next_event_and_lot. destruct (next_event ar lots s evs cur cl ea la) as [[|s1 rest ne nl nea nla]|] eqn:E; try discriminate.
  destruct (next_event_shape _ _ _ _ _ _ _ _ _ _ _ _ E) as [-> ->].
  destruct (opt_lot_eq lots cl nl).
  - destruct (lot_for_event ar lots s1 ne (e_amt ne) nla) as [[[[s2 i] x] a]|]; [|discriminate]. intros [= <- <- <- <- <- <-]. auto.
  - intros [= <- <- <- <- <- <-]. auto.
Qed.

Lemma loop_positive : forall fuel s evs e l ea la out fs,
  loop ar lots fuel s evs e l ea la out = Ok fs -> 0 < ea /\ forall e', In e' evs -> 0 < e_amt e'.
Proof.
  induction fuel as [|f IH]; intros s evs e l ea la out fs H; cbn [loop] in H; [discriminate|].
  destruct l as [li|]; [|discriminate].
  destruct ((ea <? 0) || (la <? 0)) eqn:E0; [discriminate|].
  assert (Hcont : forall r out', match r with
                                 | Err x => Err x
                                 | Ok Done => Ok (rev out')
                                 | Ok (Next s' evs' e' l' ea' la') => loop ar lots f s' evs' e' l' ea' la' out'
                                 end = Ok fs ->
                  (forall s' evs' e' l' ea' la', r = Ok (Next s' evs' e' l' ea' la') -> evs = e' :: evs' /\ ea' = e_amt e') ->
                  (r = Ok Done -> evs = []) ->
                  forall e', In e' evs -> 0 < e_amt e').
  { intros r out' Hr Hshape Hdone. destruct r as [[|s' evs' e' l' ea' la']|x]; [| |discriminate].
    - rewrite (Hdone eq_refl). intros e' [].
    - destruct (Hshape _ _ _ _ _ _ eq_refl) as [-> ->]. destruct (IH _ _ _ _ _ _ _ _ Hr) as [H1 H2].
      intros e'' [<-|Hin]; [exact H1|exact (H2 e'' Hin)]. }
  assert (Hdone1 : forall cur cl a b, next_event ar lots s evs cur cl a b = Ok Done -> evs = []).
  { intros cur cl a b. unfold next_event. destruct evs as [|ne rest]; [reflexivity|].
    destruct cur as [ce|]; [destruct (e_us ce <? e_us ne); [destruct (lot_for_event ar lots _ ne _ _) as [[[[? ?] ?] ?]|]|]|]; discriminate. }
  assert (Hdone2 : forall cur cl a b, next_event_and_lot ar lots s evs cur cl a b = Ok Done -> evs = []).
  { intros cur cl a b. unfold next_event_and_lot. destruct (next_event ar lots s evs cur cl a b) as [[|s1 rest ne nl nea nla]|] eqn:E; try discriminate.
    - intros _. exact (Hdone1 _ _ _ _ E).
    - destruct (opt_lot_eq lots cl nl); [destruct (lot_for_event ar lots s1 ne nea nla) as [[[[? ?] ?] ?]|]|]; discriminate. }
  destruct (e_earn e).
  - destruct (ea <=? 0) eqn:E1; [discriminate|]. split; [lia|].
    eapply Hcont; [exact H| |apply Hdone1]. intros; eapply next_event_shape; eassumption.
  - destruct (ea =? la) eqn:E2.
    + destruct (ea <=? 0) eqn:E1; [discriminate|]. split; [lia|].
      eapply Hcont; [exact H| |apply Hdone2]. intros; eapply next_event_and_lot_shape; eassumption.
    + destruct (ea <? la) eqn:E3.
      * destruct (ea <=? 0) eqn:E1; [discriminate|]. split; [lia|].
        eapply Hcont; [exact H| |apply Hdone1]. intros; eapply next_event_shape; eassumption.
      * destruct (la <=? 0) eqn:E1; [discriminate|]. split; [lia|].
        destruct (lot_for_event ar lots s e ea la) as [[[[s' i] ea'] la']|]; [|discriminate].
        exact (proj2 (IH _ _ _ _ _ _ _ _ H)).
Qed.

Theorem matcher_ok_events_positive sched evs fs :
  run_matcher ar lots sched evs = Ok fs -> forall e, In e evs -> 0 < e_amt e.
Proof.
  unfold run_matcher. destruct lots as [|l0 lr] eqn:EL; [discriminate|]. rewrite <- EL.
  destruct (next_event_and_lot ar lots (init_state lots sched) evs None None 0 0) as [[|s evs' e l ea la]|] eqn:E; [| |discriminate].
  - intros _ e He. exfalso. revert E. unfold next_event_and_lot, next_event. destruct evs as [|ne rest]; [destruct He|].
    destruct (opt_lot_eq lots None None); [destruct (lot_for_event ar lots _ ne _ _) as [[[[? ?] ?] ?]|]|]; discriminate.
  - intros H. destruct (next_event_and_lot_shape _ _ _ _ _ _ _ _ _ _ _ _ E) as [-> ->].
    destruct (loop_positive _ _ _ _ _ _ _ _ _ H) as [H1 H2]. intros e' [<-|Hin]; [exact H1|exact (H2 e' Hin)].
Qed.
End MatcherPositive.

Lemma map_result_forward {A B} (f : A -> result B) : forall l l' x,
  map_result f l = Ok l' -> In x l -> exists y, f x = Ok y /\ In y l'.
Proof.
  induction l as [|a l IH]; intros l' x H Hx; [destruct Hx|].
  cbn [map_result] in H. destruct (f a) as [b|] eqn:Ea; [|discriminate].
  destruct (map_result f l) as [ys|] eqn:El; [|discriminate]. injection H as <-.
  destruct Hx as [->|Hx]; [exists b; split; [exact Ea|left; reflexivity]|].
  destruct (IH ys x eq_refl Hx) as (y & Hy & Hin). exists y. split; [exact Hy|right; exact Hin].
Qed.

(** a history on which the matcher succeeded has no non-positive STAKING acquisition *)
Theorem matched_no_nonpositive_staking sched h t fs :
  build h = Ok t -> fractions_of gen_always_repush sched t = Ok fs -> no_nonpositive_staking h.
Proof.
  intros Hb HFR r Hr Hty.
  destruct (build_inv _ _ Hb) as (ins & outs & intras & E1 & _ & _ & _ & _ & T1 & _).
  destruct (map_result_forward mk_in _ _ r E1 Hr) as (a & Hmk & Ha).
  destruct (mk_in_fields _ _ Hmk) as (_ & _ & Hc & Ht).
  unfold fractions_of in HFR. destruct (taxable_events t) as [evs|] eqn:HE; [|discriminate].
  assert (Hin : In (TIn a) evs).
  { apply (taxable_events_iff t evs (TIn a) HE). left. exists a. split; [reflexivity|]. split; [rewrite T1; apply sort_by_in; exact Ha|].
    rewrite Ht, Hty. reflexivity. }
  pose proof (matcher_ok_events_positive _ _ _ _ _ HFR (event_of (TIn a)) (in_map event_of _ _ Hin)) as Hp.
  cbn [event_of e_amt] in Hp. rewrite change_TIn, Hc in Hp. exact Hp.
Qed.

(** * 5. matcher outputs on built histories *)
(** a history built by the constructors, in sheet order, without non-positive STAKING, whose events satisfy the two
    restrictions of the matcher theorems (F13: one instant, one local year; the schedule covers every event year) -- the
    hypotheses of C01 / C02 / [pipeline_wf] -- and the fractions the matcher produced for it *)
Record built_history (sched : list (Z * meth)) (h : hist) (t : txs) : Prop := {
  bh_build : build h = Ok t;
  bh_rows : in_rows_increasing h;
  bh_staking : no_nonpositive_staking h;
  bh_events : forall evs, taxable_events t = Ok evs -> hist_same_instant_same_year evs /\ hist_sched_covers sched evs;
  bh_sched : NoDup (map fst sched) }.
(** with the matcher's output in hand [no_nonpositive_staking] is not a hypothesis: the matcher rejects such histories
    ([matched_no_nonpositive_staking]) *)
Record matched_history (sched : list (Z * meth)) (h : hist) (t : txs) (fs : list fraction) : Prop := {
  mh_build : build h = Ok t;
  mh_rows : in_rows_increasing h;
  mh_events : forall evs, taxable_events t = Ok evs -> hist_same_instant_same_year evs /\ hist_sched_covers sched evs;
  mh_sched : NoDup (map fst sched);
  mh_match : fractions_of gen_always_repush sched t = Ok fs }.

Lemma matched_built sched h t fs : matched_history sched h t fs -> built_history sched h t.
Proof. intros [Hb Hr He Hs Hm]. constructor; try assumption. exact (matched_no_nonpositive_staking sched h t fs Hb Hm). Qed.
Lemma built_matched sched h t fs : built_history sched h t -> fractions_of gen_always_repush sched t = Ok fs -> matched_history sched h t fs.
Proof. intros [Hb Hr _ He Hs] Hm. constructor; assumption. Qed.

Lemma built_wf sched h t evs : built_history sched h t -> taxable_events t = Ok evs -> wf (t_ins t) sched (map event_of evs).
Proof.
  intros [Hb Hinc Hs Hevs Hnd] HE. destruct (Hevs evs HE) as [Hy Hc].
  exact (pipeline_wf h sched t evs Hb HE Hinc (built_amounts_positive h t Hb Hs) Hy Hc Hnd).
Qed.

Lemma fractions_events sched t fs : fractions_of gen_always_repush sched t = Ok fs -> exists evs, taxable_events t = Ok evs.
Proof. unfold fractions_of. destruct (taxable_events t) as [evs|]; [exists evs; reflexivity|discriminate]. Qed.

Section Matched.
Variables (sched : list (Z * meth)) (h : hist) (t : txs) (fs : list fraction).
Hypothesis MH : matched_history sched h t fs.

(** every stage but the balance replay succeeds: [compute] returns whatever [balances] decides *)
Theorem compute_follows_balances : forall period from_day to_day allow exs hos,
  match balances allow to_day exs hos t with
  | Ok _ => exists cd, compute period from_day to_day allow exs hos t fs = Ok cd
  | Err e => compute period from_day to_day allow exs hos t fs = Err e
  end.
Proof.
  intros period from_day to_day allow exs hos. pose proof (matched_built _ _ _ _ MH) as BH. pose proof (mh_match _ _ _ _ MH) as HFR.
  destruct (fractions_events _ _ _ HFR) as (evs & HE). pose proof (built_wf _ _ _ _ BH HE) as WF.
  destruct (matcher_fractions_resolve _ _ _ _ HE WF HFR) as (gls0 & HR).
  assert (HA : all_fractions t fs = Some (sort_by (fun g => t_us (g_ev g)) gls0)) by (unfold all_fractions; rewrite HE, HR; reflexivity).
  assert (HN : exists nb, numbering to_day (sort_by (fun g => t_us (g_ev g)) gls0) = Ok nb).
  { destruct (matcher_numbering_total _ _ _ _ _ to_day HE WF HFR HA) as (evt & lott & HNum & _). eexists. exact HNum. }
  pose proof WF as (_ & _ & Hlp & _ & _ & Hep & _).
  assert (Hins : forall a, In a (t_ins t) -> 0 < i_crypto_in a).
  { intros a Ha. destruct (In_nth _ _ dummy_lot Ha) as (i & Hi & Hnth). specialize (Hlp i Hi). unfold lotn in Hlp. rewrite Hnth in Hlp. exact Hlp. }
  pose proof (resolve_all_forall2 _ _ _ _ HR) as HF.
  assert (Hev : forall g, In g gls0 -> t_balance_change (g_ev g) <> 0).
  { intros g Hg. pose proof (resolve_all_in _ _ _ _ HR g Hg) as Hin.
    specialize (Hep (event_of (g_ev g)) (in_map event_of _ _ Hin)). cbn [event_of e_amt] in Hep. lia. }
  assert (Hlot : forall g a, In g gls0 -> g_lot g = Some a -> i_crypto_in a <> 0).
  { intros g a Hg Ha. destruct (Forall2_in_r _ _ _ g HF Hg) as (f & Hf & Hrf).
    pose proof (resolve_lot _ _ _ _ Hrf) as Hl. destruct (f_lot f) as [r|]; [|congruence].
    destruct Hl as (a' & Ha' & Hin & _). rewrite Ha in Ha'. injection Ha' as <-. specialize (Hins a Hin). lia. }
  destruct (balances allow to_day exs hos t) as [bl|e] eqn:HB.
  - exact (compute_of_balances period from_day to_day allow exs hos t fs evs gls0 HE HR HN Hev Hlot Hins bl HB).
  - exact (compute_err_of_balances period from_day to_day allow exs hos t fs evs gls0 HE HR HN Hev Hlot e HB).
Qed.

(** ComputedData exists, for every window: with -n always, without -n when no debit overdraws its account *)
Theorem compute_total : forall period from_day to_day allow exs hos,
  allow = true \/ (holders_ok t /\ never_overdrawn to_day t) ->
  exists cd, compute period from_day to_day allow exs hos t fs = Ok cd.
Proof.
  intros period from_day to_day allow exs hos Hg.
  pose proof (compute_follows_balances period from_day to_day allow exs hos) as H.
  destruct (balances allow to_day exs hos t) as [bl|e] eqn:HB; [exact H|]. exfalso.
  destruct (c08_only_error _ _ _ _ _ _ HB) as [-> ->]. destruct Hg as [Hg|[Hok Hno]]; [discriminate Hg|].
  apply (c08_rejected_iff to_day exs hos t Hok) in HB. destruct HB as (p & x & r & Hs & Hov). exact (Hno p x r Hs Hov).
Qed.

Corollary compute_total_allow : forall period from_day to_day exs hos,
  exists cd, compute period from_day to_day true exs hos t fs = Ok cd.
Proof. intros. apply compute_total. left. reflexivity. Qed.

(** the only error is the negative-balance error, only without -n: never EInternal (a division, an unresolved
    fraction), EValue (a numbering sanity check) or EDup *)
Theorem compute_only_error : forall period from_day to_day allow exs hos e,
  compute period from_day to_day allow exs hos t fs = Err e -> e = ENegBalance /\ allow = false.
Proof.
  intros period from_day to_day allow exs hos e H.
  pose proof (compute_follows_balances period from_day to_day allow exs hos) as HF.
  destruct (balances allow to_day exs hos t) as [bl|e'] eqn:HB.
  - destruct HF as (cd & HF). rewrite HF in H. discriminate H.
  - rewrite HF in H. injection H as <-. exact (c08_only_error _ _ _ _ _ _ HB).
Qed.

(** exactly when: Err ENegBalance iff some debit overdraws its account and -n is not given; otherwise a result, the
    same with and without -n *)
Theorem compute_err_exact : forall period from_day to_day exs hos, holders_ok t ->
  (exists cd, compute period from_day to_day true exs hos t fs = Ok cd /\
     (never_overdrawn to_day t -> compute period from_day to_day false exs hos t fs = Ok cd)) /\
  (forall allow, compute period from_day to_day allow exs hos t fs = Err ENegBalance <-> allow = false /\ some_overdraft to_day t) /\
  (forall allow, (exists cd, compute period from_day to_day allow exs hos t fs = Ok cd) <-> allow = true \/ never_overdrawn to_day t).
Proof.
  intros period from_day to_day exs hos Hok.
  destruct (compute_total period from_day to_day true exs hos (or_introl eq_refl)) as (cd & HT).
  destruct (compute_rejects_overdraft period from_day to_day exs hos t fs cd Hok HT) as [Hiff Hno].
  split; [exists cd; split; [exact HT|exact Hno]|]. split.
  - intros allow. split.
    + intros H. destruct (compute_only_error _ _ _ _ _ _ _ H) as [_ ->]. split; [reflexivity|]. apply Hiff. exact H.
    + intros [-> Hov]. apply Hiff. exact Hov.
  - intros allow. split.
    + intros (cd' & H). destruct allow; [left; reflexivity|right].
      intros p x r Hs Hov. assert (HX : compute period from_day to_day false exs hos t fs = Err ENegBalance) by (apply Hiff; exists p, x, r; auto).
      rewrite HX in H. discriminate H.
    + intros [->|Hn]; [exists cd; exact HT|]. destruct allow; [exists cd; exact HT|exists cd; exact (Hno Hn)].
Qed.
End Matched.

(** * 6. matching + aggregation: [compute_tax] on a built history *)
Section Built.
Variables (sched : list (Z * meth)) (h : hist) (t : txs) (evs : list txn).
Hypothesis BH : built_history sched h t.
Hypothesis HE : taxable_events t = Ok evs.       (* row ids distinct across the three tables *)

Lemma built_matcher_outcome :
  (exists fs, fractions_of gen_always_repush sched t = Ok fs /\ ~ lots_exhausted t evs) \/
  (fractions_of gen_always_repush sched t = Err EExhausted /\ lots_exhausted t evs).
Proof.
  pose proof (built_wf _ _ _ _ BH HE) as WF. unfold fractions_of. rewrite HE.
  destruct (m_total _ _ _ WF) as [(fs & Hfs)|Hx].
  - left. exists fs. split; [exact Hfs|]. intros Hex. apply (m_fails_iff _ _ _ WF) in Hex. rewrite Hfs in Hex. discriminate Hex.
  - right. split; [exact Hx|]. apply (m_fails_iff _ _ _ WF). exact Hx.
Qed.

(** the whole computation fails in exactly two ways: the lots run out (EExhausted -- rp2's "Total in-transaction crypto
    value < total taxable crypto value"), or an account is overdrawn without -n (ENegBalance); otherwise ComputedData exists *)
Theorem compute_tax_outcome : forall period from_day to_day allow exs hos, holders_ok t ->
  (compute_tax period from_day to_day allow exs hos sched t = Err EExhausted <-> lots_exhausted t evs) /\
  (compute_tax period from_day to_day allow exs hos sched t = Err ENegBalance <->
     ~ lots_exhausted t evs /\ allow = false /\ some_overdraft to_day t) /\
  ((exists cd, compute_tax period from_day to_day allow exs hos sched t = Ok cd) <->
     ~ lots_exhausted t evs /\ (allow = true \/ never_overdrawn to_day t)) /\
  (forall e, compute_tax period from_day to_day allow exs hos sched t = Err e -> e = EExhausted \/ e = ENegBalance).
Proof.
  intros period from_day to_day allow exs hos Hok. unfold compute_tax.
  destruct built_matcher_outcome as [(fs & HFR & Hne)|[HFR Hex]]; rewrite HFR.
  - assert (MH : matched_history sched h t fs) by (apply built_matched; assumption).
    destruct (compute_err_exact sched h t fs MH period from_day to_day exs hos Hok) as (_ & Hneg & Hok').
    split; [|split; [|split]].
    + split; [intros H; destruct (compute_only_error sched h t fs MH _ _ _ _ _ _ _ H) as [H' _]; discriminate H'|intros H; contradiction].
    + rewrite (Hneg allow). tauto.
    + rewrite (Hok' allow). tauto.
    + intros e H. right. exact (proj1 (compute_only_error sched h t fs MH _ _ _ _ _ _ _ H)).
  - split; [|split; [|split]].
    + tauto.
    + split; [discriminate|tauto].
    + split; [intros (cd & H); discriminate H|tauto].
    + intros e [= <-]. left. reflexivity.
Qed.

Corollary compute_tax_total : forall period from_day to_day allow exs hos,
  ~ lots_exhausted t evs -> allow = true \/ (holders_ok t /\ never_overdrawn to_day t) ->
  exists cd, compute_tax period from_day to_day allow exs hos sched t = Ok cd.
Proof.
  intros period from_day to_day allow exs hos Hne Hg. unfold compute_tax.
  destruct built_matcher_outcome as [(fs & HFR & _)|[_ Hex]]; [|contradiction]. rewrite HFR.
  apply (compute_total sched h t fs); [apply built_matched; assumption|exact Hg].
Qed.
End Built.

(** * 7. the multi-asset report input: ComputedData exists for every asset *)
(** the asset's transactions were built from rows and its fractions are the matcher's output under the run's schedule *)
Definition asset_from_rows (i : rinput) (a : rasset) : Prop :=
  exists h, matched_history (rp_sched i) h (ra_txs a) (ra_fracs a).
(** ... and -n is given or the asset is never overdrawn up to the to-date *)
Definition asset_guard_passes (i : rinput) (a : rasset) : Prop :=
  rp_allow i = true \/ (holders_ok (ra_txs a) /\ never_overdrawn (rp_to i) (ra_txs a)).
Definition input_from_rows (i : rinput) : Prop :=
  forall a, In a (rp_assets i) -> asset_from_rows i a /\ asset_guard_passes i a.

Lemma computed_all_each i : forall l, (forall a, In a l -> exists c, computed_of i a = Ok c) -> exists cs, computed_all i l = Ok cs /\ map fst cs = l.
Proof.
  induction l as [|a l IH]; intros H; cbn [computed_all]; [exists []; split; reflexivity|].
  destruct (H a (or_introl eq_refl)) as (c & ->). destruct IH as (r & -> & Hr); [intros b Hb; apply H; right; exact Hb|].
  eexists. split; [reflexivity|]. cbn [map fst]. rewrite Hr. reflexivity.
Qed.

Theorem computed_of_total i a : asset_from_rows i a -> asset_guard_passes i a -> exists c, computed_of i a = Ok c.
Proof. intros (h & MH) Hg. unfold computed_of. exact (compute_total _ h _ _ MH _ _ _ _ _ _ Hg). Qed.

Theorem computed_all_total i : input_from_rows i ->
  exists cs, computed_all i (rp_assets i) = Ok cs /\ map fst cs = rp_assets i.
Proof. intros H. apply computed_all_each. intros a Ha. destruct (H a Ha) as [H1 H2]. exact (computed_of_total i a H1 H2). Qed.

Lemma computed_all_err i : forall l e, computed_all i l = Err e -> exists a, In a l /\ computed_of i a = Err e.
Proof.
  induction l as [|a l IH]; intros e H; cbn [computed_all] in H; [discriminate|].
  destruct (computed_of i a) as [c|e0] eqn:E.
  - destruct (computed_all i l) as [r|e1] eqn:El; [discriminate|]. injection H as <-.
    destruct (IH e1 eq_refl) as (b & Hb & Hx). exists b. split; [right; exact Hb|exact Hx].
  - injection H as <-. exists a. split; [left; reflexivity|exact E].
Qed.

(** and exactly when it does not: only the negative-balance error, only without -n, because an asset is overdrawn *)
Theorem computed_all_only_error i e :
  (forall a, In a (rp_assets i) -> asset_from_rows i a /\ holders_ok (ra_txs a)) ->
  computed_all i (rp_assets i) = Err e ->
  e = ENegBalance /\ rp_allow i = false /\ exists a, In a (rp_assets i) /\ some_overdraft (rp_to i) (ra_txs a).
Proof.
  intros H HX. destruct (computed_all_err i _ _ HX) as (a & Ha & Hc). destruct (H a Ha) as [(h & MH) Hok].
  unfold computed_of in Hc. destruct (compute_only_error _ h _ _ MH _ _ _ _ _ _ _ Hc) as [-> Hallow].
  split; [reflexivity|]. split; [exact Hallow|]. exists a. split; [exact Ha|].
  destruct (compute_err_exact _ h _ _ MH (rp_period i) (rp_from i) (rp_to i) (rp_exchanges i) (rp_holders i) Hok) as (_ & Hneg & _).
  apply (Hneg (rp_allow i)) in Hc. apply Hc.
Qed.
