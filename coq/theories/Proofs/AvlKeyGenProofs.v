(** Source tie of the two order keys of the lot matcher: the AVL key of accounting_engine.py and the heap key of the
    feature-based accounting methods, as read from the source on this run (Model/GeneratedTie.v, fragment avl_key; interpreter
    Model/AvlKeyGen.v).

    For the tables of the CURRENT source:
    - the key inserted for a lot ranks as (instant in microseconds, row) - [Matcher.to_index_aux] picks the greatest such pair;
    - a lot is at or below the key looked up for a taxable event iff its instant is <= the event's instant, provided its row
      has at most `width` digits (0 <= row <= 10^width - 1, the number the max disambiguator spells) - [Matcher.to_index_aux]'s
      test `xt <=? t`;
    - the compared values of `sort_key`, in the field order of the NamedTuple, are the triple [Generated.meth_sort_key].
    The scripts compute with the tables and never mention their text.  Formatting the wall-clock time instead of the UTC
    instant, dropping `%f`, padding the id on the other side, reordering the fields of `AcquiredLotSortKey` make a lemma stop
    compiling (C01, C02, C09, C16, C17 cite them).

    Trusted (stated, not proved): that strings built from fixed-width, zero-filled decimal fields listed from the most to the
    least significant one compare like the tuple of numbers, and that for years 1000..9999 the calendar fields of a UTC
    datetime are monotone in the instant - i.e. that [avl_key_gen] orders like [ak_num_key].  The witnesses at the end check
    this reading on the string level (with the calendar of Base/Time.v) for the cases the seeded changes are about. *)
From Coq Require Import List ZArith Bool Lia.
From RP2V Require Import Base.Prelude Base.Time Base.Dec Model.Types Model.Generated Model.GeneratedTie Model.Matcher Model.AvlKeyGen.
Import ListNotations.
Open Scope Z_scope.

(** ---------- insertion key = (instant, row) *)
Lemma ak_num_key_agrees (t : tstamp) (row : Z) : ak_num_key t row = Some (utc_us t, row).
Proof. unfold ak_num_key; cbn. rewrite Z.div_1_r. reflexivity. Qed.

Lemma ak_inserted_agrees (l : intx) : ak_inserted l = Some (utc_us (i_ts l), i_row l).
Proof. unfold ak_inserted; cbn. rewrite Z.div_1_r. reflexivity. Qed.

(** the max disambiguator spells the greatest id of `width` digits *)
Lemma ak_max_num_is_bound : ak_max_num = 10 ^ gen_ak_width - 1 /\ Z.of_nat (length gen_ak_max_disambiguator) = gen_ak_width.
Proof. split; reflexivity. Qed.

Lemma ak_looked_up_agrees (te : tstamp) : ak_looked_up te = Some (utc_us te, ak_max_num).
Proof. unfold ak_looked_up, ak_num_lookup_key; cbn. rewrite Z.div_1_r. reflexivity. Qed.

(** ---------- lookup = "lots acquired at or before the event" *)
Theorem ak_visible_agrees (l : intx) (te : tstamp) :
  0 <= i_row l <= ak_max_num -> ak_visible l te = Some (utc_us (i_ts l) <=? utc_us te).
Proof.
  intros H. unfold ak_visible. rewrite ak_inserted_agrees, ak_looked_up_agrees. f_equal.
  unfold pair_leb; cbn [fst snd].
  destruct (utc_us (i_ts l) <? utc_us te) eqn:E1, (utc_us (i_ts l) =? utc_us te) eqn:E2, (i_row l <=? ak_max_num) eqn:E3,
           (utc_us (i_ts l) <=? utc_us te) eqn:E4; try reflexivity; exfalso;
    repeat match goal with
           | H : (_ <? _) = true |- _ => apply Z.ltb_lt in H | H : (_ <? _) = false |- _ => apply Z.ltb_ge in H
           | H : (_ <=? _) = true |- _ => apply Z.leb_le in H | H : (_ <=? _) = false |- _ => apply Z.leb_gt in H
           | H : (_ =? _) = true |- _ => apply Z.eqb_eq in H | H : (_ =? _) = false |- _ => apply Z.eqb_neq in H
           end; lia.
Qed.

(** the comparison [to_index_aux] makes between the best lot so far (bt, br) and a candidate (xt, xr) is the strict order of
    the inserted keys *)
Theorem ak_order_agrees (a b : intx) :
  match ak_inserted a, ak_inserted b with
  | Some ka, Some kb => Some (pair_ltb ka kb)
  | _, _ => None
  end = Some ((utc_us (i_ts a) <? utc_us (i_ts b)) || ((utc_us (i_ts a) =? utc_us (i_ts b)) && (i_row a <? i_row b))).
Proof. rewrite !ak_inserted_agrees. reflexivity. Qed.

Definition avl_key_agrees : Prop :=
  (forall l, ak_inserted l = Some (utc_us (i_ts l), i_row l)) /\
  (forall l te, 0 <= i_row l <= ak_max_num -> ak_visible l te = Some (utc_us (i_ts l) <=? utc_us te)) /\
  ak_max_num = 10 ^ gen_ak_width - 1.
Lemma avl_key_gen_agrees : avl_key_agrees.
Proof. exact (conj ak_inserted_agrees (conj ak_visible_agrees (proj1 ak_max_num_is_bound))). Qed.

(** ---------- heap key *)
Theorem sk_key_gen_agrees (m : meth) (l : intx) : meth_kind m = Feature -> sk_key_gen m l = Some (meth_sort_key m l).
Proof. destruct m; intros H; try discriminate H; reflexivity. Qed.

(** ---------- the string reading, on witnesses (years 1000..9999, ids of at most `width` digits) *)
Definition w_ts (us off : Z) : tstamp := {| utc_us := us; off_s := off |}.
(** 2021-03-04T05:06:07.000008Z *)
Definition w_us : Z := 1614834367000008.

(** the text of a key (non-vacuity of the string interpreter): 21 characters of time, the separator, the padded id *)
Example ak_witness_shape :
  Z.of_nat (length (avl_key_gen (w_ts w_us 0) (dec_str 9))) = Z.of_nat (length (flat_map (ak_part_str 0) gen_ak_format)) + Z.of_nat (length gen_ak_sep) + gen_ak_width.
Proof. vm_compute. reflexivity. Qed.

(** same instant, rows 9 and 10: 9 first (padding in front; padded behind, "9000.." > "1000..") *)
Example ak_witness_rows :
  str_leb (avl_key_gen (w_ts w_us 0) (dec_str 9)) (avl_key_gen (w_ts w_us 0) (dec_str 10)) = true /\
  str_leb (avl_key_gen (w_ts w_us 0) (dec_str 10)) (avl_key_gen (w_ts w_us 0) (dec_str 9)) = false.
Proof. split; vm_compute; reflexivity. Qed.

(** one microsecond apart within a second, the later lot has the smaller row: the earlier instant first (needs %f) *)
Example ak_witness_subsecond :
  str_leb (avl_key_gen (w_ts w_us 0) (dec_str 7)) (avl_key_gen (w_ts (w_us + 1) 0) (dec_str 3)) = true /\
  str_leb (avl_key_gen (w_ts (w_us + 1) 0) (dec_str 3)) (avl_key_gen (w_ts w_us 0) (dec_str 7)) = false.
Proof. split; vm_compute; reflexivity. Qed.

(** the earlier instant written with +09:00 shows a later wall clock than the later instant written with -05:00: still first *)
Example ak_witness_offsets :
  str_leb (avl_key_gen (w_ts w_us 32400) (dec_str 5)) (avl_key_gen (w_ts (w_us + 60000000) (-18000)) (dec_str 4)) = true /\
  str_leb (avl_key_gen (w_ts (w_us + 60000000) (-18000)) (dec_str 4)) (avl_key_gen (w_ts w_us 32400) (dec_str 5)) = false.
Proof. split; vm_compute; reflexivity. Qed.

(** lookup: a lot at the event's instant is found whatever its row (<= 12 digits), also when the event is written with another
    offset; a lot one microsecond later is not *)
Example ak_witness_lookup :
  str_leb (avl_key_gen (w_ts w_us 0) (dec_str 999999999999)) (avl_lookup_key_gen (w_ts w_us 7200)) = true /\
  str_leb (avl_key_gen (w_ts (w_us + 1) 0) (dec_str 1)) (avl_lookup_key_gen (w_ts w_us 7200)) = false.
Proof. split; vm_compute; reflexivity. Qed.

(** ---------- the lookup as a whole: [Matcher.to_index] *)
Definition best_of (b : option (nat * Z * Z)) : ti_best := match b with Some (i, bt, br) => Some (i, (bt, br)) | None => None end.
Lemma to_index_gen_aux_agrees (te : tstamp) (l : list intx) :
  Forall (fun x => 0 <= i_row x <= ak_max_num) l ->
  forall i best, to_index_gen_aux te l i (best_of best) = Some (best_of (to_index_aux (utc_us te) l i best)).
Proof.
  induction 1 as [|x r Hx Hr IH]; intros i best; [reflexivity|].
  cbn [to_index_gen_aux to_index_aux]. rewrite (ak_visible_agrees x te Hx), ak_inserted_agrees.
  destruct (utc_us (i_ts x) <=? utc_us te).
  - destruct best as [[[bi bt] br]|]; cbn [best_of].
    + unfold pair_ltb; cbn [fst snd].
      destruct ((bt <? utc_us (i_ts x)) || (bt =? utc_us (i_ts x)) && (br <? i_row x));
        [exact (IH (S i) (Some (i, utc_us (i_ts x), i_row x))) | exact (IH (S i) (Some (bi, bt, br)))].
    + exact (IH (S i) (Some (i, utc_us (i_ts x), i_row x))).
  - exact (IH (S i) best).
Qed.

Theorem to_index_gen_agrees (lots : list intx) (te : tstamp) :
  Forall (fun x => 0 <= i_row x <= ak_max_num) lots -> to_index_gen lots te = Some (to_index lots (utc_us te)).
Proof.
  intros H. unfold to_index_gen, to_index. pose proof (to_index_gen_aux_agrees te lots H O None) as E. cbn [best_of] in E. rewrite E.
  destruct (to_index_aux (utc_us te) lots 0 None) as [[[i bt] br]|]; reflexivity.
Qed.

(** ---------- the statements the property files cite *)
Definition lot_order_keys_agree : Prop :=
  (forall m l, meth_kind m = Feature -> sk_key_gen m l = Some (meth_sort_key m l)) /\
  (forall lots te, Forall (fun x => 0 <= i_row x <= ak_max_num) lots -> to_index_gen lots te = Some (to_index lots (utc_us te))).
Lemma lot_order_keys_gen_agree : lot_order_keys_agree.
Proof. exact (conj sk_key_gen_agrees to_index_gen_agrees). Qed.

Definition order_keys_depend_on_instant_and_row : Prop :=
  (forall l, ak_inserted l = Some (utc_us (i_ts l), i_row l)) /\
  (forall te, ak_looked_up te = Some (utc_us te, ak_max_num)) /\
  (forall m l, meth_kind m = Feature -> sk_key_gen m l = Some (meth_sort_key m l)).
Lemma order_keys_gen_depend_on_instant_and_row : order_keys_depend_on_instant_and_row.
Proof. exact (conj ak_inserted_agrees (conj ak_looked_up_agrees sk_key_gen_agrees)). Qed.
