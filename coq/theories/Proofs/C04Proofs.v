(** C04: proceeds, cost basis and gain of every fraction. *)
From RP2V Require Import Base.Prelude Base.Time Base.Dec Model.Types Model.Generated Model.Txn Proofs.DecProofs.
From Coq Require Import QArith Qabs.
Open Scope Z_scope.

(** the formulas the code computes (multiply first, divide last) *)
Lemma proceeds_formula ev amt :
  gl_proceeds ev amt = ddiv (dmul (t_fiat_taxable ev) (of_grid amt)) (of_grid (t_balance_change ev)).
Proof. reflexivity. Qed.
Lemma cost_formula ev l amt :
  gl_cost_basis ev (Some l) amt = ddiv (dmul (i_fiat_in_with_fee l) (of_grid amt)) (of_grid (i_crypto_in l)).
Proof. reflexivity. Qed.
Lemma cost_income ev amt : gl_cost_basis ev None amt = Some dzero.
Proof. reflexivity. Qed.
Lemma gain_formula ev lot amt :
  gl_gain ev lot amt = olift2 dsub (gl_proceeds ev amt) (gl_cost_basis ev lot amt).
Proof. reflexivity. Qed.

(** the taxable fiat value per class of event *)
Lemma taxable_value_out a :
  t_fiat_taxable (TOut a) = if ttype_eqb (o_type a) FEE then o_fiat_fee a else o_fiat_out_no_fee a.
Proof. reflexivity. Qed.
Lemma taxable_value_intra a : t_fiat_taxable (TIntra a) = x_fiat_fee a.
Proof. reflexivity. Qed.
Lemma taxable_value_income a : is_earn_type (i_type a) = true -> t_fiat_taxable (TIn a) = i_fiat_in_with_fee a.
Proof. intro H. cbn. unfold in_fiat_taxable_amount, in_is_taxable. rewrite H. reflexivity. Qed.
(** the amount the event is pro-rated over: the total outgoing amount *)
Lemma prorate_base :
  (forall a, t_balance_change (TOut a) = o_crypto_out_with_fee a) /\
  (forall a, t_balance_change (TIntra a) = x_crypto_fee a) /\
  (forall a, t_balance_change (TIn a) = i_crypto_in a).
Proof. repeat split. Qed.

(** accuracy: each of proceeds and cost basis is within 1.1e-30 (relative) of the exact rational value *)
Lemma proceeds_accuracy ev amt r : gl_proceeds ev amt = Some r ->
  (Qabs (to_q r - to_q (t_fiat_taxable ev) * to_q (of_grid amt) / to_q (of_grid (t_balance_change ev)))
   <= (11 # (10 ^ 31)) * Qabs (to_q (t_fiat_taxable ev) * to_q (of_grid amt) / to_q (of_grid (t_balance_change ev))))%Q.
Proof. rewrite proceeds_formula. apply muldiv_error. Qed.
Lemma cost_accuracy ev l amt r : gl_cost_basis ev (Some l) amt = Some r ->
  (Qabs (to_q r - to_q (i_fiat_in_with_fee l) * to_q (of_grid amt) / to_q (of_grid (i_crypto_in l)))
   <= (11 # (10 ^ 31)) * Qabs (to_q (i_fiat_in_with_fee l) * to_q (of_grid amt) / to_q (of_grid (i_crypto_in l))))%Q.
Proof. rewrite cost_formula. apply muldiv_error. Qed.
(** gain is the correctly rounded difference of the two *)
Lemma gain_accuracy ev lot amt p c gn :
  gl_proceeds ev amt = Some p -> gl_cost_basis ev lot amt = Some c -> gl_gain ev lot amt = Some gn ->
  (Qabs (to_q gn - (to_q p - to_q c)) <= EPS * Qabs (to_q p - to_q c))%Q.
Proof.
  intros Hp Hc. rewrite gain_formula, Hp, Hc. cbn [olift2]. intros [= <-]. apply dsub_error.
Qed.

(** the pieces add back to the whole, in exact arithmetic: sum_i F*x_i/A = F when sum_i x_i = A *)
Fixpoint sumQ (l : list Q) : Q := match l with [] => 0%Q | x :: t => (x + sumQ t)%Q end.
Lemma reassembly_exact (F A : Q) (xs : list Q) :
  (~ A == 0 -> sumQ xs == A -> sumQ (map (fun x => F * x / A) xs) == F)%Q.
Proof.
  intros HA Hs.
  assert (G : (sumQ (map (fun x => F * x / A) xs) == F * sumQ xs / A)%Q).
  { clear Hs. induction xs as [|x xs IH]; cbn [map sumQ].
    - field. exact HA.
    - rewrite IH. field. exact HA. }
  rewrite G, Hs. field. exact HA.
Qed.

(** exchange-supplied fiat values are used in place of amount x spot price *)
Ltac crunch H :=
  repeat match type of H with
         | context [if ?c then _ else _] => destruct c eqn:?; try discriminate H
         | context [match ?c with _ => _ end] => destruct c eqn:?; try discriminate H
         end.

Lemma out_supplied_wins r o :
  mk_out r = Ok o ->
  (forall v, ro_fiat_out_no_fee r = Some v -> o_fiat_out_no_fee o = of_grid v) /\
  (forall v, ro_fiat_fee r = Some v -> o_fiat_fee o = of_grid v) /\
  (forall v, ro_crypto_out_with_fee r = Some v -> o_crypto_out_with_fee o = v) /\
  (ro_fiat_out_no_fee r = None -> o_fiat_out_no_fee o = dmul (of_grid (ro_crypto_out_no_fee r)) (of_grid (ro_spot r))) /\
  (ro_fiat_fee r = None -> o_fiat_fee o = dmul (of_grid (ro_crypto_fee r)) (of_grid (ro_spot r))) /\
  (ro_crypto_out_with_fee r = None -> o_crypto_out_with_fee o = ro_crypto_out_no_fee r + ro_crypto_fee r).
Proof.
  unfold mk_out, g. intro H.
  destruct (ro_crypto_out_with_fee r) as [w|] eqn:Ew;
  destruct (ro_fiat_out_no_fee r) as [n|] eqn:En;
  destruct (ro_fiat_fee r) as [f|] eqn:Ef;
  crunch H; injection H as <-; cbn; repeat split; intros; congruence.
Qed.

Lemma in_supplied_wins r a :
  mk_in r = Ok a ->
  (forall v, ri_fiat_in_with_fee r = Some v -> i_fiat_in_with_fee a = of_grid v) /\
  (forall v, ri_fiat_in_no_fee r = Some v -> i_fiat_in_no_fee a = of_grid v) /\
  (ri_fiat_in_no_fee r = None -> i_fiat_in_no_fee a = dmul (of_grid (ri_crypto_in r)) (of_grid (ri_spot r))) /\
  (ri_fiat_in_with_fee r = None -> i_fiat_in_with_fee a = dadd (i_fiat_in_no_fee a) (i_fiat_fee a)).
Proof.
  unfold mk_in, g. intro H.
  destruct (ri_fiat_in_no_fee r) as [n|] eqn:En;
  destruct (ri_fiat_in_with_fee r) as [w|] eqn:Ew;
  destruct (ri_crypto_fee r) as [cf|] eqn:Ecf;
  destruct (ri_fiat_fee r) as [ff|] eqn:Eff;
  crunch H; injection H as <-; cbn; repeat split; intros; congruence.
Qed.

(** no binary floating point: 31-digit decimal context with the FloatOperation trap armed *)
Lemma decimal_context : gen_prec = PREC /\ gen_float_trap = true /\ gen_crypto_decimals = CRYPTO_DECIMALS.
Proof. repeat split. Qed.
