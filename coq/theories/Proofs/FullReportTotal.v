(** The full report is produced (no IndexError / KeyError) for every input whose ComputedData exists, while at most
    [max_holders] holders have a balance and the template holds the input-independent cells ([fenv_fits]); the invariant
    that makes it so for the Summary sheet: the next free row never exceeds the capacity, which grows by the number of
    yearly lines of each asset ([append_rows]).  (Section A of Proofs/RunCompose.v, moved here unchanged so that the
    full-report property files can use it without depending on the other report models; RunCompose.v re-exports it.) *)
From RP2V Require Import Base.Prelude Base.Time Base.Dec Base.Sorting Base.Assoc Model.Types Model.Generated Model.Txn
  Model.Matcher Model.Pipeline Model.Computed Model.Grid Model.ReportInput Model.FullReport.
From RP2V Require Import Proofs.FullReportLayout Proofs.FullReportProofs Proofs.FullReportCompute Proofs.FullReportCapacity
  Proofs.FullReportWitness.
Open Scope Z_scope.

(** * A. the full report is produced *)
(** ComputedData of every asset, in the order of the assets (same statement as JpProofs.computed_all_fst, repeated here so that
    this file depends on the full-report model only) *)
Lemma computed_all_split i l0 : forall l, computed_all i l0 = Ok l ->
  map fst l = l0 /\ forall a c, In (a, c) l -> computed_of i a = Ok c.
Proof.
  induction l0 as [|a t IH]; intros l H; cbn [computed_all] in H.
  - inversion H; subst. split; [reflexivity|]. intros ? ? [].
  - destruct (computed_of i a) as [c|] eqn:Ec; [|discriminate].
    destruct (computed_all i t) as [r|] eqn:Er; [|discriminate]. inversion H; subst.
    destruct (IH r eq_refl) as [H1 H2]. split; [cbn [map fst]; rewrite H1; reflexivity|].
    intros a' c' [Heq|Hin]; [inversion Heq; subst; exact Ec|apply H2; exact Hin].
Qed.

Definition cell_fits (rows cols : Z) (rc : Z * Z) : bool :=
  (0 <=? fst rc) && (fst rc <? rows) && (0 <=? snd rc) && (snd rc <? cols).
Definition positions (ws : list cellw) : list (Z * Z) := map (fun w => (cw_row w, cw_col w)) ws.

Lemma in_cap_positions rows cols ws : forallb (in_cap rows cols) ws = forallb (cell_fits rows cols) (positions ws).
Proof. unfold positions. induction ws as [|w ws IH]; cbn [map forallb]; [reflexivity|]. rewrite IH. reflexivity. Qed.

Definition blank_input : rinput :=
  {| rp_country := US; rp_period := 0; rp_from := 0; rp_to := 0; rp_allow := false; rp_exchanges := []; rp_holders := [];
     rp_sched := []; rp_assets := [] |}.

(** the template of the generation language is large enough for what is written whatever the input: the Legend page with its
    three variable cells, the Summary header, the Summary columns *)
Definition fenv_fits (env : fenv) : bool :=
  forallb (cell_fits (fe_legend_rows env) (fe_legend_cols env)) (positions (FullReport.legend_writes blank_input []))
  && forallb (cell_fits (fe_summary_rows env) (fe_summary_cols env)) (positions (fst (fill_header 0 gen_full_hdr_sum)))
  && (gen_header_height <=? fe_summary_rows env)
  && forallb (fun x : fcol => (0 <=? col_of x) && (col_of x <? fe_summary_cols env)) gen_full_cols_sum.

Lemma legend_positions inp m : positions (FullReport.legend_writes inp m) = positions (FullReport.legend_writes blank_input []).
Proof. unfold FullReport.legend_writes, positions. rewrite !map_app. reflexivity. Qed.

Section FullTotal.
Variables (env : fenv) (inp : rinput).
Hypothesis Hfits : fenv_fits env = true.

Definition sum_inv (st : gstate) : Prop := 0 <= gs_srow st <= gs_scap st.

Lemma summary_writes_fit x ym r scap : 0 <= r -> r + Z.of_nat (length (cd_yearly (ac_c x))) <= scap ->
  forallb (in_cap scap (fe_summary_cols env)) (summary_writes env x ym r) = true.
Proof.
  intros Hr Hs. apply forallb_forall. intros w Hw. unfold summary_writes in Hw.
  destruct (table_rows_only _ _ _ _ _ _ Hw) as (j & t & c & lk & f & Hn & Hin & ->).
  assert (Hj : (j < length (cd_yearly (ac_c x)))%nat) by (apply nth_error_Some; congruence).
  unfold fenv_fits in Hfits. apply andb_true_iff in Hfits as [_ Hc]. rewrite forallb_forall in Hc.
  specialize (Hc _ Hin). unfold col_of in Hc. cbn [fst] in Hc. apply andb_true_iff in Hc as [C1 C2].
  unfold in_cap. cbn [cw cw_row cw_col]. rewrite C1, C2.
  replace (0 <=? r + Z.of_nat j) with true by (symmetry; apply Z.leb_le; lia).
  replace (r + Z.of_nat j <? scap) with true by (symmetry; apply Z.ltb_lt; lia). reflexivity.
Qed.

Lemma gen_asset_total x st period from_day to_day allow exs hos fs :
  compute period from_day to_day allow exs hos (ac_txs x) fs = Ok (ac_c x) ->
  Z.of_nat (length (holder_totals inp (cd_balances (ac_c x)))) <= max_holders ->
  sum_inv st -> exists st', FullReport.gen_asset code_flags env inp x st = ROk st' /\ sum_inv st'.
Proof.
  intros Hc Hh [I1 I2]. unfold FullReport.gen_asset.
  rewrite (inout_capacity env inp x _ _ _ _ _ _ _ Hc). cbn [negb].
  rewrite (tax_capacity env inp x _ _ _ _ _ _ _ _ Hc Hh). cbn [negb].
  rewrite (summary_no_key_error code_flags x _ eq_refl).
  rewrite summary_writes_fit by lia. cbn [negb].
  eexists. split; [reflexivity|]. unfold sum_inv. cbn [gs_srow gs_scap]. lia.
Qed.

Lemma gen_assets_total : forall l aidx ex st,
  (forall a c, In (a, c) l -> computed_of inp a = Ok c /\ Z.of_nat (length (holder_totals inp (cd_balances c))) <= max_holders) ->
  sum_inv st -> exists st', FullReport.gen_assets code_flags env inp aidx l ex st = ROk st'.
Proof.
  induction l as [|[a c] l IH]; intros aidx ex st H I; cbn [FullReport.gen_assets]; [eexists; reflexivity|].
  destruct (H a c (or_introl eq_refl)) as [Hc Hh].
  set (x := {| ac_idx := aidx; ac_name := ra_name a; ac_txs := ra_txs a; ac_c := c; ac_extra := hd [] ex |}).
  destruct (gen_asset_total x st _ _ _ _ _ _ _ Hc Hh I) as (st1 & E1 & I1). rewrite E1.
  apply IH; [|exact I1]. intros a' c' Hin. apply H. right. exact Hin.
Qed.

Theorem full_report_total acs :
  computed_all inp (rp_assets inp) = Ok acs ->
  (forall ac, In ac acs -> Z.of_nat (length (holder_totals inp (cd_balances (snd ac)))) <= max_holders) ->
  exists sheets, full_report code_flags env inp = ROk sheets.
Proof.
  intros HC HH. unfold full_report. rewrite HC.
  destruct (legend_methods_ok code_flags (rp_sched inp) eq_refl) as (m & Hm & _). rewrite Hm.
  pose proof Hfits as F. unfold fenv_fits in F.
  apply andb_true_iff in F as [F F4]. apply andb_true_iff in F as [F F3]. apply andb_true_iff in F as [F1 F2].
  rewrite in_cap_positions, legend_positions, F1. cbn [negb].
  destruct (fill_header 0 gen_full_hdr_sum) as [hw srow] eqn:EH.
  assert (Hs : srow = gen_header_height) by (pose proof (fill_header_snd 0 gen_full_hdr_sum) as S; rewrite EH in S; exact S).
  cbn [fst] in F2. rewrite in_cap_positions, F2. cbn [negb].
  destruct (computed_all_split inp _ _ HC) as [_ HA].
  destruct (gen_assets_total acs 0 (fe_extra env)
              {| gs_lm := []; gs_srow := srow; gs_scap := fe_summary_rows env; gs_sheets := []; gs_sum := hw |}) as (st & E).
  - intros a c Hin. split; [apply HA; exact Hin|]. exact (HH (a, c) Hin).
  - unfold sum_inv. cbn [gs_srow gs_scap]. subst srow. apply Z.leb_le in F3. change gen_header_height with 3 in *. lia.
  - rewrite E. eexists. reflexivity.
Qed.
End FullTotal.

Example wenv_fits : fenv_fits wenv = true.
Proof. vm_compute. reflexivity. Qed.
