(** The in-lot sold percentage (ComputedData.__init__): per acquired lot dated inside the window, the 31-digit
    left-to-right sum of amount / lot amount over the SHOWN fractions taken from that lot. *)
From Coq Require Import List ZArith Bool Lia ZifyBool.
From RP2V Require Import Base.Prelude Base.Assoc Base.Dec Base.Time Model.Types Model.Generated Model.Txn Model.Matcher Model.Pipeline Model.Computed
  Model.ComputedSpec Model.NumberSpec Proofs.AssocProofs Proofs.FilterProofs Proofs.ComputedProofs Proofs.L4Examples.
Import ListNotations.
Open Scope Z_scope.

(** fraction [g] is taken from the lot with row [r], and that lot is dated inside the window *)
Definition sold_from (from_day to_day r : Z) (g : gl) : bool :=
  match g_lot g with
  | Some a => (i_row a =? r) && negb ((in_day a <? from_day) || (to_day <? in_day a))
  | None => false
  end.
Definition lot_pct (g : gl) : dec := odflt (gl_lot_pct (g_ev g) (g_lot g) (g_amt g)).

Definition sold_run (from_day to_day : Z) (l : list gl) : result (assoc dec) := fold_left (sold_pct_add from_day to_day) l (Ok []).

Lemma sold_run_snoc from_day to_day l g : sold_run from_day to_day (l ++ [g]) = sold_pct_add from_day to_day (sold_run from_day to_day l) g.
Proof. unfold sold_run. rewrite fold_left_app. reflexivity. Qed.

Lemma dsum_snoc_map (l : list gl) g : dsum (map lot_pct (l ++ [g])) = dadd (dsum (map lot_pct l)) (lot_pct g).
Proof. unfold dsum. rewrite map_app, fold_left_app. reflexivity. Qed.

Theorem sold_pct_spec : forall from_day to_day l m, sold_run from_day to_day l = Ok m ->
  forall r, aget r m = match filter (sold_from from_day to_day r) l with
                       | [] => None
                       | mine => Some (dsum (map lot_pct mine))
                       end.
Proof.
  intros from_day to_day l. induction l as [|g l IH] using rev_ind; intros m H r.
  - unfold sold_run in H. cbn [fold_left] in H. injection H as <-. reflexivity.
  - rewrite sold_run_snoc in H. destruct (sold_run from_day to_day l) as [m0|e] eqn:E; [|discriminate].
    specialize (IH m0 eq_refl). rewrite filter_app. cbn [filter]. unfold sold_pct_add in H. unfold sold_from at 2.
    destruct (g_lot g) as [a|] eqn:Ha.
    + change (local_day (i_ts a)) with (in_day a) in H.
      destruct ((in_day a <? from_day) || (to_day <? in_day a)) eqn:W.
      * injection H as <-. rewrite andb_false_r, app_nil_r. apply IH.
      * destruct (gl_lot_pct (g_ev g) (Some a) (g_amt g)) as [p|] eqn:P; [|discriminate]. injection H as <-.
        rewrite aget_aset. rewrite (Z.eqb_sym (i_row a) r). destruct (r =? i_row a) eqn:Er; cbn [andb negb].
        -- assert (r = i_row a) by lia. subst r. unfold aget_d. rewrite (IH (i_row a)).
           destruct (filter (sold_from from_day to_day (i_row a)) l) as [|g0 l'].
           ++ cbn [app map]. unfold dsum, lot_pct. cbn [fold_left]. rewrite Ha, P. reflexivity.
           ++ cbn [app]. f_equal. change (g0 :: l' ++ [g]) with ((g0 :: l') ++ [g]). rewrite (dsum_snoc_map (g0 :: l') g).
              f_equal. unfold lot_pct. rewrite Ha, P. reflexivity.
        -- rewrite app_nil_r. apply IH.
    + injection H as <-. rewrite app_nil_r. apply IH.
Qed.

(** in a run of [compute] *)
Theorem compute_sold_pct : forall period from_day to_day allow exs hos t fs cd,
  compute period from_day to_day allow exs hos t fs = Ok cd ->
  forall r, aget r (cd_sold_pct cd) = match filter (sold_from from_day to_day r) (cd_gls cd) with
                                      | [] => None
                                      | mine => Some (dsum (map lot_pct mine))
                                      end.
Proof.
  intros period from_day to_day allow exs hos t fs cd. unfold compute.
  destruct (taxable_events t) as [evs|e]; [|discriminate].
  destruct (resolve_all evs (t_ins t) fs) as [gls0|]; [|discriminate].
  destruct (numbering to_day _) as [[[[evf lotf] evt] lott]|e]; [|discriminate].
  destruct (yearly_list period to_day _ _) as [yl|e]; [|discriminate].
  destruct (balances allow to_day exs hos t) as [bl|e]; [|discriminate].
  destruct (price_per_unit to_day (t_ins t)) as [ppu|e]; [|discriminate].
  destruct (fold_left (sold_pct_add from_day to_day) _ (Ok [])) as [sold|e] eqn:S; [|discriminate].
  intros [= <-]. cbn [cd_sold_pct cd_gls]. apply sold_pct_spec. exact S.
Qed.

(** history A, window 2020-05-01 .. 2020-07-07: the lot of row 3 (interest, inside the window) has no fraction; the lots of
    rows 1 and 2 are dated before the window and are skipped *)
Example sold_pct_window : cd_sold_pct cdA_win = [] /\ map fst (cd_sold_pct cdA) = [1; 2].
Proof. vm_compute. split; reflexivity. Qed.
Example sold_pct_instance := compute_sold_pct _ _ _ _ _ _ _ _ _ cdA_ok.
