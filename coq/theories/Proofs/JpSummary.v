(** The yearly summary sheets: self.__year_row_offset / creation on first use, one line per
    emission (asset-year) in generation order, the totals line pushed down by every later line. *)
From Coq Require Import List ZArith Bool Lia Permutation ZifyBool.
From RP2V Require Import Base.Prelude Base.Time Base.Dec Base.Sorting Base.Assoc Model.Types Model.Generated Model.Txn
  Model.Pipeline Model.Computed Model.Grid Model.ReportInput Model.JpReport Proofs.AssocProofs Proofs.JpOps Proofs.JpSheet.
Import ListNotations.
Open Scope Z_scope.

(** ---------- finite facts about the tables read from the source *)
Lemma jp_line_nodup : nodupb (map fst gen_jp_summary_line) = true.
Proof. vm_compute. reflexivity. Qed.
Lemma jp_line_bounds : forallb (fun x => (0 <=? fst x) && (fst x <? gen_jp_tmpl_summary_cols) && (fst x <? 1024)) gen_jp_summary_line = true.
Proof. vm_compute. reflexivity. Qed.
Lemma jp_totals_bounds :
  forallb (fun x => let '(dr, c, _) := x in
                    (0 <=? dr) && (gen_jp_summary_start + dr <? gen_jp_tmpl_summary_rows) && (0 <=? c) && (c <? gen_jp_tmpl_summary_cols) && (c <? 1024))
          gen_jp_summary_totals = true.
Proof. vm_compute. reflexivity. Qed.
Lemma jp_summary_labels_bounds :
  forallb (fun rc => (0 <=? fst rc) && (fst rc <? gen_jp_tmpl_summary_rows) && (0 <=? snd rc) && (snd rc <? gen_jp_tmpl_summary_cols))
          gen_jp_tmpl_summary_cells = true.
Proof. vm_compute. reflexivity. Qed.
Lemma jp_summary_start_ok : 0 <= gen_jp_summary_start < gen_jp_tmpl_summary_rows.
Proof. vm_compute. split; congruence. Qed.

(** the summary lines start right under the header: the rows around the start row are blank in the template and the
    totals line (start + 2) carries the template's label *)
Lemma jp_summary_layout_fits_template :
  forallb (fun rc => negb ((gen_jp_summary_start - 1 <=? fst rc) && (fst rc <=? gen_jp_summary_start + 1))) gen_jp_tmpl_summary_cells = true /\
  has_label gen_jp_tmpl_summary_cells (gen_jp_summary_start + 2) 0 = true /\
  has_label gen_jp_tmpl_summary_cells (gen_jp_summary_start - 2) 0 = true.
Proof. vm_compute. repeat split; reflexivity. Qed.

Section Summary.
Variable lang : Z.
Variable yg : bool.
Variable exs : list str.

Notation line_cells := (line_cells lang yg exs).
Notation totals_cells := (totals_cells lang yg exs).
Notation step_ops := (step_ops lang yg exs).

Fixpoint sum_ops_from (off : Z) (es : list emission) : list op :=
  match es with [] => [] | e :: t => step_ops e off ++ sum_ops_from (off + 1) t end.
Definition spec_ops (es : list emission) : list op := labels gen_jp_tmpl_summary_cells ++ sum_ops_from gen_jp_summary_start es.

Lemma sum_ops_from_app a : forall off b,
  sum_ops_from off (a ++ b) = sum_ops_from off a ++ sum_ops_from (off + Z.of_nat (length a)) b.
Proof.
  induction a as [|e a IH]; intros off b; cbn [app sum_ops_from length].
  - replace (off + Z.of_nat 0) with off by lia. reflexivity.
  - rewrite IH, <- app_assoc. replace (off + 1 + Z.of_nat (length a)) with (off + Z.of_nat (S (length a))) by lia. reflexivity.
Qed.

(** ---------- what summary_step appends *)
Lemma step_appends st e :
  let y := em_year e in
  let offm := if amem y (ss_off st) then ss_off st else aset y gen_jp_summary_start (ss_off st) in
  let off := aget_d 0 y offm in
  let sheets := if off =? gen_jp_summary_start then aset y (labels gen_jp_tmpl_summary_cells) (ss_sheets st) else ss_sheets st in
  summary_step lang yg exs st e =
  {| ss_off := aset y (off + 1) offm; ss_sheets := aset y (aget_d [] y sheets ++ step_ops e off) sheets |}.
Proof. reflexivity. Qed.

Notation yof y := (fun e : emission => em_year e =? y).

Definition inv (pre : list emission) (st : sumst) : Prop :=
  forall y, let es := filter (yof y) pre in
    (es = [] -> aget y (ss_off st) = None /\ aget y (ss_sheets st) = None) /\
    (es <> [] -> aget y (ss_off st) = Some (gen_jp_summary_start + Z.of_nat (length es)) /\ aget y (ss_sheets st) = Some (spec_ops es)).

Lemma inv_step pre st e : inv pre st -> inv (pre ++ [e]) (summary_step lang yg exs st e).
Proof.
  intros I y. cbv zeta. rewrite step_appends. cbv zeta. cbn [ss_off ss_sheets].
  rewrite filter_app. cbn [filter].
  specialize (I y) as Iy. cbv zeta in Iy.
  destruct (em_year e =? y) eqn:Ey.
  - assert (em_year e = y) by lia. subst y. clear Ey.
    destruct (filter (yof (em_year e)) pre) as [|x es] eqn:F.
    + destruct Iy as [[O S] _]; [reflexivity|].
      assert (M : amem (em_year e) (ss_off st) = false) by (unfold amem; rewrite O; reflexivity).
      rewrite M. cbn [app]. split; [discriminate|intros _].
      rewrite aget_d_aset, Z.eqb_refl, Z.eqb_refl. rewrite !aget_aset_same. cbn [length].
      split; [f_equal; lia|]. f_equal. rewrite aget_d_aset, Z.eqb_refl.
      unfold spec_ops. cbn [sum_ops_from]. rewrite app_nil_r. reflexivity.
    + destruct Iy as [_ [O S]]; [discriminate|].
      assert (M : amem (em_year e) (ss_off st) = true) by (unfold amem; rewrite O; reflexivity).
      rewrite M. split; [intros H; destruct es; discriminate|intros _].
      assert (Hoff : aget_d 0 (em_year e) (ss_off st) = gen_jp_summary_start + Z.of_nat (length (x :: es)))
        by (unfold aget_d; rewrite O; reflexivity).
      rewrite !Hoff.
      assert (Hne : (gen_jp_summary_start + Z.of_nat (length (x :: es)) =? gen_jp_summary_start) = false) by (cbn [length]; lia).
      rewrite Hne. rewrite !aget_aset_same. unfold aget_d. rewrite S.
      split; [f_equal; rewrite app_length; cbn [length]; lia|]. f_equal.
      unfold spec_ops. rewrite sum_ops_from_app, <- app_assoc. cbn [sum_ops_from]. rewrite app_nil_r. reflexivity.
  - rewrite app_nil_r. assert (Hne : y <> em_year e) by lia.
    rewrite !(aget_aset_other y (em_year e)) by exact Hne.
    assert (A1 : aget y (if amem (em_year e) (ss_off st) then ss_off st else aset (em_year e) gen_jp_summary_start (ss_off st)) = aget y (ss_off st)).
    { destruct (amem (em_year e) (ss_off st)); [reflexivity|apply aget_aset_other; exact Hne]. }
    rewrite A1.
    match goal with |- context [aget y (if ?c then aset _ _ ?m else ?m)] =>
      assert (A2 : aget y (if c then aset (em_year e) (labels gen_jp_tmpl_summary_cells) m else m) = aget y m)
        by (destruct c; [apply aget_aset_other; exact Hne|reflexivity]) end.
    rewrite A2. exact Iy.
Qed.

Lemma inv_fold l : forall pre st, inv pre st -> inv (pre ++ l) (fold_left (summary_step lang yg exs) l st).
Proof.
  induction l as [|e l IH]; intros pre st H; cbn [fold_left]; [rewrite app_nil_r; exact H|].
  replace (pre ++ e :: l) with ((pre ++ [e]) ++ l) by (rewrite <- app_assoc; reflexivity).
  apply IH. apply inv_step. exact H.
Qed.

Lemma summary_state_inv ems : inv ems (summary_state lang yg exs ems).
Proof.
  unfold summary_state. apply (inv_fold ems [] {| ss_off := []; ss_sheets := [] |}).
  intros y. cbn. split; [auto|congruence].
Qed.

Lemma step_keys_nodup st e : NoDup (map fst (ss_sheets st)) -> NoDup (map fst (ss_sheets (summary_step lang yg exs st e))).
Proof.
  intros H. rewrite step_appends. cbv zeta. cbn [ss_sheets]. apply aset_NoDup.
  match goal with |- context [if ?c then _ else _] => destruct c end; [apply aset_NoDup|]; exact H.
Qed.

Lemma summary_keys_nodup ems : NoDup (map fst (ss_sheets (summary_state lang yg exs ems))).
Proof.
  assert (G : forall l st, NoDup (map fst (ss_sheets st)) -> NoDup (map fst (ss_sheets (fold_left (summary_step lang yg exs) l st)))).
  { induction l as [|e l IH]; intros st H; cbn [fold_left]; [exact H|]. apply IH, step_keys_nodup, H. }
  apply G. constructor.
Qed.

(** one summary sheet per year that has an emission, holding exactly the operations of those emissions *)
Lemma summary_sheet_of_year ems y ops :
  In (y, ops) (ss_sheets (summary_state lang yg exs ems)) <->
  filter (yof y) ems <> [] /\ ops = spec_ops (filter (yof y) ems).
Proof.
  pose proof (summary_state_inv ems y) as I. cbv zeta in I. destruct I as [I0 I1]. split.
  - intros H. apply (In_aget _ _ _ (summary_keys_nodup ems)) in H.
    destruct (filter (yof y) ems) as [|x es] eqn:F.
    + destruct I0 as [_ S]; [reflexivity|]. congruence.
    + destruct I1 as [_ S]; [discriminate|]. split; [discriminate|congruence].
  - intros [Hne ->]. destruct (I1 Hne) as [_ S]. apply aget_In. exact S.
Qed.

(** ---------- final positions within a summary sheet *)
Lemma step_ops_ins e off i : In (OIns i) (step_ops e off) -> i = off.
Proof.
  unfold JpReport.step_ops. cbn [app In]. intros [H|H]; [inversion H; reflexivity|].
  apply in_app_iff in H. destruct H as [H|H]; apply in_map_iff in H; destruct H as [w [H _]]; discriminate.
Qed.

Lemma sum_ops_ins es : forall off i, In (OIns i) (sum_ops_from off es) -> off <= i.
Proof.
  induction es as [|e t IH]; intros off i H; cbn [sum_ops_from] in H; [contradiction|].
  apply in_app_iff in H. destruct H as [H|H]; [apply step_ops_ins in H; lia|apply IH in H; lia].
Qed.

Lemma line_cells_pos e off w : In w (line_cells e off) -> cw_row w = off /\ 0 <= cw_col w < gen_jp_tmpl_summary_cols /\ cw_col w < 1024.
Proof.
  unfold JpReport.line_cells. intros H. apply in_map_iff in H. destruct H as [x [<- Hin]]. cbn [cw_row cw_col cw].
  pose proof (forallb_In _ _ _ jp_line_bounds Hin) as B. cbn beta in B. lia.
Qed.

Lemma totals_cells_pos e off w : In w (totals_cells e off) ->
  off <= cw_row w /\ cw_row w - off + gen_jp_summary_start < gen_jp_tmpl_summary_rows /\ 0 <= cw_col w < gen_jp_tmpl_summary_cols /\ cw_col w < 1024.
Proof.
  unfold JpReport.totals_cells. intros H. apply in_map_iff in H. destruct H as [[[dr c] v] [<- Hin]]. cbn [cw_row cw_col cw].
  pose proof (forallb_In _ _ _ jp_totals_bounds Hin) as B. cbn beta iota in B. lia.
Qed.

Lemma line_cells_nodup e off : NoDup (map wkey (line_cells e off)).
Proof.
  unfold JpReport.line_cells. rewrite map_map. rewrite (map_ext _ (fun x => cell_key off (fst x))) by (intros; reflexivity).
  rewrite <- (map_map fst (cell_key off)). apply NoDup_map_shift; [unfold cell_key; intros; lia|].
  apply nodupb_sound, jp_line_nodup.
Qed.

Lemma resolve_step e off X :
  (forall i, In (OIns i) X -> off < i) ->
  resolve_ops (step_ops e off ++ X) =
  line_cells e off ++ map (shift_by X) (totals_cells e (off + 1)) ++ resolve_ops X.
Proof.
  intros HX. unfold JpReport.step_ops. rewrite <- app_assoc. cbn [app resolve_ops].
  rewrite resolve_ops_app, resolve_writes, resolve_ops_app, resolve_writes. f_equal.
  rewrite <- (map_id (line_cells e off)) at 2. apply map_ext_in. intros w Hw.
  destruct (line_cells_pos _ _ _ Hw) as [Hr _]. unfold shift_by. rewrite Hr, final_row_no_shift.
  - rewrite <- Hr. apply cw_eta.
  - intros i Hi. apply in_app_iff in Hi. destruct Hi as [Hi|Hi]; [|apply HX; exact Hi].
    apply in_map_iff in Hi. destruct Hi as [w' [Hi _]]. discriminate.
Qed.

Lemma sum_resolved_pos es : forall off w, In w (resolve_ops (sum_ops_from off es)) -> off <= cw_row w /\ 0 <= cw_col w < 1024.
Proof.
  induction es as [|e t IH]; intros off w H; cbn [sum_ops_from] in H; [contradiction|].
  rewrite resolve_step in H by (intros i Hi; apply sum_ops_ins in Hi; lia).
  apply in_app_iff in H. destruct H as [H|H]; [apply line_cells_pos in H; lia|].
  apply in_app_iff in H. destruct H as [H|H]; [|apply IH in H; lia].
  apply in_map_iff in H. destruct H as [w' [<- H]]. apply totals_cells_pos in H. unfold shift_by. cbn [cw_row cw_col cw].
  pose proof (final_row_bounds (cw_row w') (sum_ops_from (off + 1) t)). lia.
Qed.

(** line j of a summary sheet: every cell of it is what the sheet finally shows *)
Lemma sum_line_cell es : forall off j e A w, nth_error es j = Some e -> In w (line_cells e (off + Z.of_nat j)) ->
  cell_at (A ++ resolve_ops (sum_ops_from off es)) (cw_row w) (cw_col w) = cw_val w.
Proof.
  induction es as [|e0 t IH]; intros off j e A w Hj Hw; [destruct j; discriminate|].
  cbn [sum_ops_from]. rewrite resolve_step by (intros i Hi; apply sum_ops_ins in Hi; lia).
  destruct j as [|j]; cbn [nth_error] in Hj.
  - inversion Hj; subst e0. replace (off + Z.of_nat 0) with off in Hw by lia.
    apply cell_at_block; [exact Hw|apply line_cells_nodup|].
    destruct (line_cells_pos _ _ _ Hw) as [Hr Hc].
    intros w' Hw' E. unfold wkey in E. apply in_app_iff in Hw'. destruct Hw' as [Hw'|Hw'].
    + apply in_map_iff in Hw'. destruct Hw' as [w2 [<- H2]]. apply totals_cells_pos in H2. unfold shift_by in E. cbn [cw_row cw_col cw] in E.
      pose proof (final_row_bounds (cw_row w2) (sum_ops_from (off + 1) t)). apply cell_key_inj in E; lia.
    + apply sum_resolved_pos in Hw'. apply cell_key_inj in E; lia.
  - rewrite !app_assoc. rewrite <- app_assoc with (l := A).
    replace (off + Z.of_nat (S j)) with (off + 1 + Z.of_nat j) in Hw by lia.
    exact (IH (off + 1) j e _ w Hj Hw).
Qed.

(** capacity *)
Lemma sum_ops_bounded es : forall off R,
  0 <= off -> off - gen_jp_summary_start + gen_jp_tmpl_summary_rows <= R -> gen_jp_summary_start <= off ->
  ops_bounded R gen_jp_tmpl_summary_cols (sum_ops_from off es).
Proof.
  pose proof jp_summary_start_ok as S0.
  induction es as [|e t IH]; intros off R H0 HR HS; cbn [sum_ops_from]; [exact I|].
  apply ops_bounded_app. split.
  - unfold JpReport.step_ops. cbn [app ops_bounded]. split; [lia|]. apply ops_bounded_app. split; apply ops_bounded_writes, Forall_forall; intros w Hw.
    + apply line_cells_pos in Hw. lia.
    + apply totals_cells_pos in Hw. rewrite count_ins_writes. lia.
  - unfold JpReport.step_ops. rewrite count_ins_app, count_ins_writes. cbn [count_ins]. rewrite count_ins_writes.
    apply IH; lia.
Qed.

Lemma spec_ops_bounded es : ops_bounded gen_jp_tmpl_summary_rows gen_jp_tmpl_summary_cols (spec_ops es).
Proof.
  pose proof jp_summary_start_ok as S0.
  unfold spec_ops. apply ops_bounded_app. split.
  - unfold labels. rewrite <- (map_map (fun rc => cw (fst rc) (snd rc) PLabel) OW). apply ops_bounded_writes, Forall_forall.
    intros w Hw. apply in_map_iff in Hw. destruct Hw as [rc [<- Hin]]. cbn [cw_row cw_col cw].
    pose proof (forallb_In _ _ rc jp_summary_labels_bounds Hin) as B. cbn beta in B. lia.
  - unfold labels. rewrite <- (map_map (fun rc => cw (fst rc) (snd rc) PLabel) OW), count_ins_writes.
    apply sum_ops_bounded; lia.
Qed.

Lemma summary_sheets_ok ems s : In s (summary_sheets lang yg exs ems) -> sheet_ok s = true.
Proof.
  unfold summary_sheets. intros H. apply in_map_iff in H. destruct H as [[y ops] [<- Hin]]. cbn [fst snd].
  apply summary_sheet_of_year in Hin. destruct Hin as [_ ->]. apply sheet_of_ok, spec_ops_bounded.
Qed.
End Summary.
