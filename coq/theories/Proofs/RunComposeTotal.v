(** C16 composition without the assumption "ComputedData exists for every asset": the compute stage of a run is total on
    an input whose assets were built from rows and matched (Proofs/ComputeTotal.v), so the composed run theorem of
    Proofs/RunCompose.v holds with hypotheses about the INPUT only.  Non-vacuity: the two-asset input [ex2_i]
    (Proofs/RunComposeExamples.v), whose raw rows are decoded from [ex2_code]. *)
From Coq Require Import List ZArith Bool Lia.
From RP2V Require Import Base.Prelude Base.Time Base.Dec Base.Sorting Base.Assoc Model.Types Model.Generated Model.Txn
  Model.Matcher Model.MatchSpec Model.Pipeline Model.Computed Model.ComputedSpec Model.TotalSpec Model.Codec Model.Grid Model.ReportInput
  Model.FullReport Model.TaxReport Model.OpenPos Model.JpReport Model.MainRun Model.RunCompose.
From RP2V Require Import Proofs.PipelineWf Proofs.FullReportProofs Proofs.FullReportWitness Proofs.TaxReportProofs Proofs.RunLemmas
  Proofs.C16Proofs Proofs.RunCompose Proofs.RunComposeExamples Proofs.L4Examples Proofs.ComputeTotal Proofs.ComputeTotalExamples.
Import ListNotations.
Open Scope Z_scope.

(** [valid_run'] from the rows *)
Theorem valid_run_of_rows c o cf i :
  run_matches c o cf i -> (o_method o = None \/ cf_sched cf = []) ->
  Forall (fun e => str_in (snd e) method_plugins = true) (cf_sched cf) ->
  input_from_rows i -> valid_run' c o cf i.
Proof.
  intros M V1 V2 HR. constructor; try assumption.
  destruct (computed_all_total i HR) as (cs & HC & _). exists cs. exact HC.
Qed.

(** Main statement, composed, from the input: options / configuration and rinput describe the same run; -m and
    [accounting_methods] not both given; schedule entries name existing methods; every asset's transactions were built by the
    constructors from sheet rows (in sheet order; events of one instant in one local year; the schedule covers every event
    year, distinct years), its fractions are the matcher's output, and -n is given or no debit overdraws its account up to
    the to-date; the per-report conditions [reports_ok_hyps].  Then the run exits 0 with exactly the expected files and the
    modelled generators produce exactly those reports. *)
Theorem run_total_of_models_from_rows : forall c o cf v i,
  supported c o -> run_matches c o cf i -> (o_method o = None \/ cf_sched cf = []) ->
  Forall (fun e => str_in (snd e) method_plugins = true) (cf_sched cf) ->
  input_from_rows i -> reports_ok_hyps v i ->
  run c o cf (inp_of_rinput i) = (0, map (output_name o (expected_label c o cf)) (discovery c)) /\
  exists l, run_reports c v i = Ok l /\ map fst l = discovery c /\
            map (fun gs => output_name o (expected_label c o cf) (fst gs)) l = snd (run c o cf (inp_of_rinput i)).
Proof.
  intros c o cf v i Hs M V1 V2 HR H. exact (run_total_of_models c o cf v i Hs (valid_run_of_rows c o cf i M V1 V2 HR) H).
Qed.

(** every configured report is produced, in order, none fails *)
Theorem reports_all_produced_from_rows : forall v i,
  input_from_rows i -> reports_ok_hyps v i ->
  exists l, run_reports (rp_country i) v i = Ok l /\ map fst l = discovery (rp_country i) /\
            forall g sheets, In (g, sheets) l -> run_gen v i g = inl sheets.
Proof. intros v i HR H. destruct (computed_all_total i HR) as (cs & HC & _). exact (run_reports_total v i cs HC H). Qed.

(** MainRun's compute stage on the derived facts *)
Theorem asset_stage_from_rows c o cf i : run_matches c o cf i -> input_from_rows i ->
  forallb (asset_computes o (inp_of_rinput i)) (assets_to_process o cf) = true.
Proof.
  intros M HR. apply (assets_stage_iff c o cf i M). destruct (computed_all_total i HR) as (cs & HC & _). exists cs. exact HC.
Qed.

(** and when the compute stage does fail on assets built from rows, it is the negative-balance error of an overdrawn asset,
    without -n: [run_reports] then returns that error and no generator runs *)
Theorem run_reports_compute_stage_error c v i e :
  (forall a, In a (rp_assets i) -> asset_from_rows i a /\ holders_ok (ra_txs a)) ->
  computed_all i (rp_assets i) = Err e ->
  run_reports c v i = Err ENegBalance /\ e = ENegBalance /\ rp_allow i = false /\
  exists a, In a (rp_assets i) /\ some_overdraft (rp_to i) (ra_txs a).
Proof.
  intros H HX. destruct (computed_all_only_error i e H HX) as (-> & Ha & Hex).
  split; [unfold run_reports; rewrite HX; reflexivity|]. auto.
Qed.

(** * the two-asset report input [ex2_i] = decoding of [ex2_code]: the raw rows of its assets *)
Definition rd_rasset_raw : rd (str * hist * list fraction) := fun s =>
  match rd_str s with
  | None => None
  | Some (name, s1) =>
    match rd_hist s1 with
    | None => None
    | Some (h, s2) => match rd_list rd_frac s2 with None => None | Some (fs, s3) => Some ((name, h, fs), s3) end
    end
  end.
Definition rd_raw_assets : rd (list (str * hist * list fraction)) := fun s =>
  match s with
  | _ :: _ :: _ :: _ :: _ :: s0 =>
    match rd_list rd_str s0 with None => None | Some (_, s1) =>
    match rd_list rd_str s1 with None => None | Some (_, s2) =>
    match rd_list rd_sched_entry s2 with None => None | Some (_, s3) => rd_list rd_rasset_raw s3
    end end end
  | _ => None
  end.
Definition ex2_raw : list (str * hist * list fraction) :=
  Eval vm_compute in match rd_raw_assets ex2_code with Some (l, _) => l | None => [] end.
Definition ex2_hists : list hist := map (fun x => snd (fst x)) ex2_raw.

Example ex2_raw_shape : map (fun x => fst (fst x)) ex2_raw = [s_AAA; s_BBB] /\
  map (fun x => (length (h_ins (snd (fst x))), length (h_outs (snd (fst x))), length (snd x))) ex2_raw = [(1, 1, 1); (2, 1, 2)]%nat.
Proof. vm_compute. split; reflexivity. Qed.

(** each asset of [ex2_i] is the build of its decoded rows, and its fractions (in the check: the implementation's own) are
    what the model's matcher produces under the run's schedule *)
Definition asset_checks (i : rinput) (ha : hist * rasset) : Prop :=
  build (fst ha) = Ok (ra_txs (snd ha)) /\
  fractions_of gen_always_repush (rp_sched i) (ra_txs (snd ha)) = Ok (ra_fracs (snd ha)) /\
  matched_history_b (rp_sched i) (fst ha) (ra_txs (snd ha)) (ra_fracs (snd ha)) = true /\
  holders_ok_b (ra_txs (snd ha)) = true /\
  exists bl, balances false (rp_to i) [] [] (ra_txs (snd ha)) = Ok bl.

Lemma input_from_rows_check i hs : length hs = length (rp_assets i) ->
  (forall ha, In ha (combine hs (rp_assets i)) -> asset_checks i ha) -> input_from_rows i.
Proof.
  intros Hlen H a Ha. destruct (In_nth _ _ a Ha) as (n & Hn & Hnth).
  assert (Hin : In (nth n hs (mkh [] []), a) (combine hs (rp_assets i))).
  { rewrite <- Hnth. rewrite <- (combine_nth hs (rp_assets i) n (mkh [] []) a Hlen). apply nth_In. rewrite combine_length. lia. }
  destruct (H _ Hin) as (Hb & Hf & Hm & Hh & Hbal). cbn [fst snd] in *.
  pose proof (holders_ok_check _ Hh) as Hok. split.
  - eexists. exact (matched_history_check _ _ _ _ Hb Hf Hm).
  - right. split; [exact Hok|exact (never_overdrawn_check _ _ Hok Hbal)].
Qed.

Example ex2_from_rows : input_from_rows ex2_i.
Proof.
  apply (input_from_rows_check ex2_i ex2_hists); [reflexivity|].
  intros ha Hin. vm_compute in Hin.
  repeat (destruct Hin as [<-|Hin]; [repeat split; try (vm_compute; reflexivity); eexists; vm_compute; reflexivity|]). destruct Hin.
Qed.
Example ex2_ie_from_rows : input_from_rows ex2_ie.
Proof. exact ex2_from_rows. Qed.

(** the composed statement from the rows is not vacuous: rp2_us, default options, both assets configured *)
Example ex2_run_total_from_rows :
  input_from_rows ex2_i /\ reports_ok_hyps (wv 0) ex2_i /\
  exists files l, run US opts0 cfg2 (inp_of_rinput ex2_i) = (0, files) /\ length files = 3%nat /\
                  run_reports US (wv 0) ex2_i = Ok l /\ map fst l = discovery US.
Proof.
  split; [exact ex2_from_rows|]. split; [exact (proj2 ex2_us_hyps)|].
  destruct ex2_run_matches as (S & M & V1 & V2).
  destruct (run_total_of_models_from_rows US opts0 cfg2 (wv 0) ex2_i S M V1 V2 ex2_from_rows (proj2 ex2_us_hyps)) as (R & l & E1 & E2 & _).
  eexists. exists l. split; [exact R|]. split; [reflexivity|]. split; assumption.
Qed.

(** the compute stage rejecting an overdrawn asset: [hB'] (buy 1 on E0, buy 5 on E1, sell 2 from E0) as the only asset *)
Definition exB_i : rinput :=
  {| rp_country := US; rp_period := 365; rp_from := ReportInput.MIN_DAY; rp_to := ReportInput.MAX_DAY; rp_allow := false;
     rp_exchanges := exsA; rp_holders := hosA; rp_sched := schedA;
     rp_assets := [{| ra_name := s_AAA; ra_txs := tB'; ra_fracs := fsB' |}] |}.
Example exB_rejected : exists e, computed_all exB_i (rp_assets exB_i) = Err e /\ run_reports US (wv 0) exB_i = Err ENegBalance.
Proof.
  assert (HX : computed_all exB_i (rp_assets exB_i) = Err ENegBalance) by (vm_compute; reflexivity).
  exists ENegBalance. split; [exact HX|].
  refine (proj1 (run_reports_compute_stage_error US (wv 0) exB_i ENegBalance _ HX)).
  intros a [<-|[]]. split; [exists hB'; exact hB'_matched|exact tB'_holders_ok].
Qed.
