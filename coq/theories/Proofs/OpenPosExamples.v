(** Non-vacuity: concrete inputs (decoded from the integer encoding the harness uses) on which the
    hypotheses of the C15 theorems hold and the conclusions are visible by computation; and the
    witness of the KeyError (an asset whose lots keep an amount that no account holds, on explicitly given fractions). *)
From Coq Require Import QArith.
From RP2V Require Import Base.Prelude Base.Time Base.Dec Base.Assoc Model.Types Model.Generated Model.Txn Model.Pipeline
  Model.Computed Model.Grid Model.ReportInput Model.OpenPos Proofs.DecProofs Proofs.OpenPosProofs Proofs.OpenPosArith.
Open Scope Z_scope.

(** AAA: BUY 2 @100 + fee 5 (E0/H0), BUY 3 @120 (E1/H1), MOVE 1 E0/H0 -> E1/H0, SELL 0.5 (E0/H0), SELL 1 + fee 0.01 (E1/H1), FIFO;
    BBB: INTEREST 3 @7 (E0/H1); CCC: BUY 1 @9, SELL 1 (fully sold).  US, en, no dates. *)
Definition ex_args : list Z :=
  [0; 365; 0; 2932896; 0; 2; 2; 69; 48; 2; 69; 49; 2; 2; 72; 48; 2; 72; 49; 1; 1970; 0; 3; 3; 65; 65; 65; 2; 3; 1577836800000000; 0; 0; 0; 1; 10000000000000; 200000000000; 0; 0; 0; 0; 0; 0; 1; 500000000000; 4; 1578268800000000; 0; 1; 1; 1; 12000000000000; 300000000000; 0; 0; 0; 0; 0; 0; 0; 0; 2; 8; 1579564800000000; 0; 0; 0; 11; 15000000000000; 50000000000; 0; 0; 0; 0; 0; 0; 0; 9; 1580428800000000; 0; 1; 1; 11; 16000000000000; 100000000000; 1000000000; 0; 0; 0; 0; 0; 0; 1; 13; 1578700800000000; 0; 0; 0; 1; 0; 0; 0; 100000000000; 100000000000; 2; 8; 1; 3; 50000000000; 9; 1; 3; 101000000000; 3; 66; 66; 66; 1; 3; 1577923200000000; 0; 0; 1; 7; 700000000000; 300000000000; 0; 0; 0; 0; 0; 0; 0; 0; 0; 0; 1; 3; 0; 0; 300000000000; 3; 67; 67; 67; 1; 3; 1578009600000000; 0; 0; 0; 1; 900000000000; 100000000000; 0; 0; 0; 0; 0; 0; 0; 0; 1; 8; 1581292800000000; 0; 0; 0; 11; 900000000000; 100000000000; 0; 0; 0; 0; 0; 0; 0; 0; 1; 8; 1; 3; 100000000000].

Definition no_input : rinput :=
  {| rp_country := US; rp_period := 0; rp_from := 0; rp_to := 0; rp_allow := false; rp_exchanges := []; rp_holders := [];
     rp_sched := []; rp_assets := [] |}.
Definition ex_i : rinput := Eval vm_compute in match rd_rinput ex_args with Some (Ok i, _) => i | _ => no_input end.
Definition ex_cs : list computed :=
  Eval vm_compute in match computed_all ex_i (rp_assets ex_i) with Ok l => map snd l | Err _ => [] end.

Example ex_decodes : rd_rinput ex_args = Some (Ok ex_i, []) /\ length (rp_assets ex_i) = 3%nat /\
  computed_all ex_i (rp_assets ex_i) = Ok (combine (rp_assets ex_i) ex_cs).
Proof. vm_compute. repeat split; reflexivity. Qed.

(** first pass: AAA and BBB are listed (CCC is fully sold); balances per holder and per (holder, exchange) *)
Example ex_first_pass : exists s, first_pass ex_cs = Ok s /\
  map fst (fp_costs s) = [0; 1] /\
  aget 0 (fp_hbal s) = Some [(0, 150000000000); (1, 199000000000)] /\
  aget 0 (fp_hebal s) = Some [(0, [(0, 50000000000); (1, 100000000000)]); (1, [(1, 199000000000)])] /\
  aget 2 (fp_hbal s) = None /\ fp_holders s = [0; 1].
Proof. eexists. vm_compute. repeat split; reflexivity. Qed.

(** the report: 3 sheets, all writes inside the capacity, balances in the balance columns, CCC absent *)
Example ex_report : exists sa se si, open_positions 0 ex_i = Ok [sa; se; si] /\
  sheet_ok sa = true /\ sheet_ok se = true /\ sheet_ok si = true /\
  sw_rows sa = 9 /\ sw_rows se = 10 /\ sw_rows si = 5 /\
  cell_at (sw_writes sa) 3 0 = PStr [65; 65; 65] /\ cell_at (sw_writes sa) 3 2 = PNum (of_grid 150000000000) /\
  cell_at (sw_writes sa) 4 2 = PNum (of_grid 199000000000) /\ cell_at (sw_writes sa) 5 0 = PStr [66; 66; 66] /\
  cell_at (sw_writes sa) 5 2 = PNum (of_grid 300000000000) /\ cell_at (sw_writes sa) 6 2 = PEmpty /\
  cell_at (sw_writes se) 4 3 = PNum (of_grid 100000000000) /\ cell_at (sw_writes se) 6 2 = PStr [69; 48].
Proof. do 3 eexists. vm_compute. repeat split; reflexivity. Qed.

(** the hypotheses of the accuracy / conservation theorems hold for the first asset of the example *)
Example ex_op_wf : exists c rest, ex_cs = c :: rest /\ op_wf 0 2932896 c /\ asset_listed c = true /\
  length (cd_gls c) = 2%nat /\ pos_balances c <> [] /\
  sumZ (map b_final (cd_balances c)) = sumZ (map (remaining (cd_gls c)) (cd_ins c)).
Proof.
  eexists. eexists. split; [reflexivity|]. split.
  - constructor.
    + vm_compute. repeat constructor; cbn; intuition congruence.
    + intros l [<-|[<-|[]]]; vm_compute; reflexivity.
    + intros l [<-|[<-|[]]]; vm_compute; discriminate.
    + intros l [<-|[<-|[]]]; vm_compute; reflexivity.
    + intros g l [<-|[<-|[]]]; vm_compute; intros H; injection H as <-; auto.
    + intros g [<-|[<-|[]]]; vm_compute; discriminate.
    + intros l [<-|[<-|[]]]; vm_compute; discriminate.
    + vm_compute. reflexivity.
  - vm_compute. repeat split; try reflexivity. discriminate.
Qed.

(** KeyError: BUY 1 AAA @100 (H0); MOVE 1 -> 0.99999999999 to H1, fee valued at price 1e-8; SELL 0.99999999999 (H1); the
    fractions are part of the input and contain the sale only (what the matcher produced before the repair of finding F8, when
    a transfer fee worth < 5e-14 was not a taxable event; with the repaired rule the matcher takes the fee from the lot and
    this state cannot arise from these rows).  The lot keeps 1e-11 (cost 1e-9 > 0), every balance is 0. *)
Definition keyerror_args : list Z :=
  [0; 365; 0; 2932896; 0; 1; 2; 69; 48; 2; 2; 72; 48; 2; 72; 49; 1; 1970; 0; 2; 3; 65; 65; 65; 1; 3; 1577836800000000; 0; 0; 0; 1; 10000000000000; 100000000000; 0; 0; 0; 0; 0; 0; 0; 0; 1; 8; 1579564800000000; 0; 0; 1; 11; 20000000000000; 99999999999; 0; 0; 0; 0; 0; 0; 0; 1; 13; 1578700800000000; 0; 0; 0; 0; 1; 1; 1000; 100000000000; 99999999999; 1; 8; 1; 3; 99999999999; 3; 66; 66; 66; 1; 3; 1577836800000000; 0; 0; 0; 1; 5000000000000; 200000000000; 0; 0; 0; 0; 0; 0; 0; 0; 0; 0; 0].

Definition key_i : rinput := Eval vm_compute in match rd_rinput keyerror_args with Some (Ok i, _) => i | _ => no_input end.
Definition key_acs : list (rasset * computed) :=
  Eval vm_compute in match computed_all key_i (rp_assets key_i) with Ok l => l | Err _ => [] end.

Example keyerror_witness : exists c rest,
  rd_rinput keyerror_args = Some (Ok key_i, []) /\ computed_all key_i (rp_assets key_i) = Ok key_acs /\ map snd key_acs = c :: rest /\
  asset_listed c = true /\ pos_balances c = [] /\
  map (remaining (cd_gls c)) (cd_ins c) = [1] /\ map b_final (cd_balances c) = [0; 0] /\
  open_positions_gen false 0 key_i (map snd key_acs) = Err EInternal.
Proof. eexists. eexists. split; [vm_compute; reflexivity|]. split; [vm_compute; reflexivity|]. split; [reflexivity|]. vm_compute. repeat split; reflexivity. Qed.

(** with the repair between the passes the same input yields the report: BBB's row, AAA left out, weight 1 *)
Example keyerror_repaired : exists sa se si,
  open_positions_gen true 0 key_i (map snd key_acs) = Ok [sa; se; si] /\
  sw_rows sa = 5 /\ cell_at (sw_writes sa) 3 0 = PStr [66; 66; 66] /\ cell_at (sw_writes sa) 3 2 = PNum (of_grid 200000000000) /\
  dsame (match cell_at (sw_writes sa) 3 5 with PNum d => d | _ => dzero end) (1, 0) = true.
Proof. do 3 eexists. vm_compute. repeat split; reflexivity. Qed.
