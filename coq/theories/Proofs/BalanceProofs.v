(** Properties "account balances equal the flows" and "overdrawn histories are rejected
    unless allowed": specification of [bal_step] / [balances] / [goes_negative] of Computed.v. *)
From Coq Require Import List ZArith Bool Lia Permutation Sorted ZifyBool.
From RP2V Require Import Base.Prelude Base.Assoc Base.Sorting Base.Dec Base.Time Model.Types Model.Generated
  Model.Pipeline Model.Computed Proofs.SortingProofs Proofs.AssocProofs Proofs.FilterProofs.
Import ListNotations.
Open Scope Z_scope.

(** * the tolerance test *)
Lemma gen_mask : gen_balance_mask_digits = 10.
Proof. reflexivity. Qed.

(** round-half-even of bal/10 is zero exactly on [-5, 5] *)
Lemma rhe_div_10_zero bal : rhe_div bal 10 false = 0 <-> -5 <= bal <= 5.
Proof.
  unfold rhe_div. cbv zeta.
  pose proof (Z.div_mod (Z.abs bal) 10 ltac:(lia)) as Hdm.
  pose proof (Z.mod_pos_bound (Z.abs bal) 10 ltac:(lia)) as Hb.
  assert (Hq : 0 <= Z.abs bal / 10) by (apply Z.div_pos; lia).
  revert Hdm Hb Hq.
  generalize (Z.abs bal / 10) as q. generalize (Z.abs bal mod 10) as r. intros r q Hdm Hb Hq.
  cbn [orb].
  destruct (2 * r >? 10) eqn:E1; cbn [orb].
  - destruct (bal <? 0) eqn:E2; lia.
  - destruct (2 * r =? 10) eqn:E2; cbn [andb].
    + destruct (Z.odd q) eqn:E3.
      * assert (Hq0 : q <> 0) by (intros Hq0; rewrite Hq0 in E3; discriminate E3).
        destruct (bal <? 0) eqn:E4; lia.
      * destruct (bal <? 0) eqn:E4; lia.
    + destruct (bal <? 0) eqn:E3; lia.
Qed.

Lemma ndigits_0 : ndigits 0 = 0.
Proof. reflexivity. Qed.

Lemma goes_negative_unfold bal :
  goes_negative bal =
  if ndigits (rhe_div bal 10 false) >? PREC then bal <? 0
  else negb (rhe_div bal 10 false =? 0) && (bal <? 0).
Proof.
  unfold goes_negative. rewrite gen_mask. unfold quant, of_grid.
  change (- (10) <=? -11) with false. cbv iota.
  change (pow10 (- (10) - -11)) with 10.
  destruct (ndigits (rhe_div bal 10 false) >? PREC); reflexivity.
Qed.

(** on the 1e-11 grid the tolerance test is: more than half of 1e-10 below zero
    (holds for every integer, the size hypothesis of the next lemma is not needed) *)
Lemma goes_negative_iff_gen : forall bal, goes_negative bal = true <-> bal < -5.
Proof.
  intros bal. rewrite goes_negative_unfold.
  pose proof (rhe_div_10_zero bal) as Hz.
  destruct (ndigits (rhe_div bal 10 false) >? PREC) eqn:En.
  - assert (Hnz : rhe_div bal 10 false <> 0).
    { intros H0. rewrite H0, ndigits_0 in En. discriminate En. }
    split; intros H; lia.
  - destruct (rhe_div bal 10 false =? 0) eqn:E0; cbn [negb andb]; split; intros H; lia.
Qed.

Lemma goes_negative_iff : forall bal, Z.abs bal < 10 ^ 29 -> (goes_negative bal = true <-> bal < -5).
Proof. intros bal _. apply goes_negative_iff_gen. Qed.

Lemma goes_negative_false_iff bal : goes_negative bal = false <-> -5 <= bal.
Proof.
  pose proof (goes_negative_iff_gen bal) as H. destruct (goes_negative bal); split; intros H1; try lia; try discriminate.
Qed.

Lemma goes_negative_nonneg bal : 0 <= bal -> goes_negative bal = false.
Proof. intros H. apply goes_negative_false_iff. lia. Qed.

(** * the replay *)
Definition empty_state : balst := {| bs_acq := []; bs_sent := []; bs_recv := []; bs_final := [] |}.
Definition run (allow : bool) (l : list txn) : result balst := fold_left (bal_step allow) l (Ok empty_state).

(** flows of the account key k, by direct sums *)
Definition acq_of (k : Z) (t : txn) : Z :=
  match t with TIn a => if acct_key (i_exch a) (i_holder a) =? k then i_crypto_in a else 0 | _ => 0 end.
Definition sent_of (k : Z) (t : txn) : Z :=
  match t with
  | TOut a => if acct_key (o_exch a) (o_holder a) =? k then o_crypto_out_no_fee a + o_crypto_fee a else 0
  | TIntra a => if acct_key (x_from_exch a) (x_from_holder a) =? k then x_crypto_sent a else 0
  | _ => 0
  end.
Definition recv_of (k : Z) (t : txn) : Z :=
  match t with
  | TIntra a => if acct_key (x_to_exch a) (x_to_holder a) =? k then x_crypto_received a else 0
  | _ => 0
  end.
(** the account is credited or debited by t *)
Definition touches (k : Z) (t : txn) : bool :=
  match t with
  | TIn a => acct_key (i_exch a) (i_holder a) =? k
  | TOut a => acct_key (o_exch a) (o_holder a) =? k
  | TIntra a => (acct_key (x_from_exch a) (x_from_holder a) =? k) || (acct_key (x_to_exch a) (x_to_holder a) =? k)
  end.

(** one step = an unconditional update + a check *)
Definition bal_next (s : balst) (t : txn) : balst :=
  match t with
  | TIn a =>
    let k := acct_key (i_exch a) (i_holder a) in
    {| bs_acq := add_to k (i_crypto_in a) (bs_acq s); bs_sent := bs_sent s; bs_recv := bs_recv s;
       bs_final := aset k (i_exch a, i_holder a, fin_get k (bs_final s) + i_crypto_in a) (bs_final s) |}
  | TIntra a =>
    let kf := acct_key (x_from_exch a) (x_from_holder a) in
    let kt := acct_key (x_to_exch a) (x_to_holder a) in
    let f1 := aset kf (x_from_exch a, x_from_holder a, fin_get kf (bs_final s) - x_crypto_sent a) (bs_final s) in
    let f2 := aset kt (x_to_exch a, x_to_holder a, fin_get kt f1 + x_crypto_received a) f1 in
    {| bs_acq := bs_acq s; bs_sent := add_to kf (x_crypto_sent a) (bs_sent s);
       bs_recv := add_to kt (x_crypto_received a) (bs_recv s); bs_final := f2 |}
  | TOut a =>
    let k := acct_key (o_exch a) (o_holder a) in
    let debit := o_crypto_out_no_fee a + o_crypto_fee a in
    let f1 := aset k (o_exch a, o_holder a, fin_get k (bs_final s) - debit) (bs_final s) in
    {| bs_acq := bs_acq s; bs_sent := add_to k debit (bs_sent s); bs_recv := bs_recv s; bs_final := f1 |}
  end.

(** the balance that is tested after t (the debited account's) *)
Definition debited_balance (s : balst) (t : txn) : option Z :=
  match t with
  | TIn _ => None
  | TOut a => Some (fin_get (acct_key (o_exch a) (o_holder a)) (bs_final s) - (o_crypto_out_no_fee a + o_crypto_fee a))
  | TIntra a =>
    let kf := acct_key (x_from_exch a) (x_from_holder a) in let kt := acct_key (x_to_exch a) (x_to_holder a) in
    Some (fin_get kf (bs_final s) - x_crypto_sent a + (if kf =? kt then x_crypto_received a else 0))
  end.
Definition bal_check (s : balst) (t : txn) : bool :=
  match debited_balance s t with Some b => goes_negative b | None => false end.

Lemma fin_get_aset k k' e h v m : fin_get k (aset k' (e, h, v) m) = if k =? k' then v else fin_get k m.
Proof. unfold fin_get. rewrite aget_aset. destruct (k =? k'); reflexivity. Qed.

Lemma aget_d_add_to k k' v m : aget_d 0 k (add_to k' v m) = aget_d 0 k m + (if k' =? k then v else 0).
Proof.
  unfold add_to. rewrite aget_d_aset.
  destruct (Z.eqb_spec k k') as [->|Hne].
  - rewrite Z.eqb_refl. reflexivity.
  - destruct (Z.eqb_spec k' k) as [Heq|_]; [congruence|lia].
Qed.

Lemma bal_step_eq allow s t :
  bal_step allow (Ok s) t = if bal_check s t && negb allow then Err ENegBalance else Ok (bal_next s t).
Proof.
  destruct t as [a|a|a]; unfold bal_check; cbn [bal_step bal_next debited_balance]; cbv zeta.
  - reflexivity.
  - rewrite fin_get_aset, Z.eqb_refl. reflexivity.
  - rewrite !fin_get_aset, Z.eqb_refl.
    rewrite (Z.eqb_sym (acct_key (x_to_exch a) (x_to_holder a))).
    destruct (Z.eqb_spec (acct_key (x_from_exch a) (x_from_holder a)) (acct_key (x_to_exch a) (x_to_holder a))) as [Heq|Hne].
    + rewrite <- Heq. reflexivity.
    + rewrite Z.add_0_r. reflexivity.
Qed.

Ltac eqb_cases :=
  repeat match goal with |- context [?a =? ?b] => destruct (Z.eqb_spec a b) end.

Lemma next_acq s t k : aget_d 0 k (bs_acq (bal_next s t)) = aget_d 0 k (bs_acq s) + acq_of k t.
Proof.
  destruct t as [a|a|a]; cbn [bal_next bs_acq acq_of]; cbv zeta; cbn [bs_acq].
  - apply aget_d_add_to.
  - lia.
  - lia.
Qed.

Lemma next_sent s t k : aget_d 0 k (bs_sent (bal_next s t)) = aget_d 0 k (bs_sent s) + sent_of k t.
Proof.
  destruct t as [a|a|a]; cbn [bal_next bs_sent sent_of]; cbv zeta; cbn [bs_sent].
  - lia.
  - apply aget_d_add_to.
  - apply aget_d_add_to.
Qed.

Lemma next_recv s t k : aget_d 0 k (bs_recv (bal_next s t)) = aget_d 0 k (bs_recv s) + recv_of k t.
Proof.
  destruct t as [a|a|a]; cbn [bal_next bs_recv recv_of]; cbv zeta; cbn [bs_recv].
  - lia.
  - lia.
  - apply aget_d_add_to.
Qed.

Lemma next_fin s t k :
  fin_get k (bs_final (bal_next s t)) = fin_get k (bs_final s) + acq_of k t + recv_of k t - sent_of k t.
Proof.
  destruct t as [a|a|a]; cbn [bal_next bs_final acq_of recv_of sent_of]; cbv zeta; cbn [bs_final];
    rewrite !fin_get_aset.
  - generalize (acct_key (i_exch a) (i_holder a)) as K. intros K.
    eqb_cases; subst; lia.
  - generalize (acct_key (o_exch a) (o_holder a)) as K. intros K.
    eqb_cases; subst; lia.
  - generalize (acct_key (x_from_exch a) (x_from_holder a)) as KF.
    generalize (acct_key (x_to_exch a) (x_to_holder a)) as KT. intros KT KF.
    eqb_cases; subst; lia.
Qed.

Lemma next_mem s t k : amem k (bs_final (bal_next s t)) = amem k (bs_final s) || touches k t.
Proof.
  destruct t as [a|a|a]; cbn [bal_next bs_final touches]; cbv zeta; cbn [bs_final];
    rewrite !amem_aset.
  - generalize (acct_key (i_exch a) (i_holder a)) as K. intros K.
    eqb_cases; destruct (amem k (bs_final s)); cbn [orb]; try reflexivity; congruence.
  - generalize (acct_key (o_exch a) (o_holder a)) as K. intros K.
    eqb_cases; destruct (amem k (bs_final s)); cbn [orb]; try reflexivity; congruence.
  - generalize (acct_key (x_from_exch a) (x_from_holder a)) as KF.
    generalize (acct_key (x_to_exch a) (x_to_holder a)) as KT. intros KT KF.
    eqb_cases; destruct (amem k (bs_final s)); cbn [orb]; try reflexivity; congruence.
Qed.

Lemma next_nodup s t : NoDup (map fst (bs_final s)) -> NoDup (map fst (bs_final (bal_next s t))).
Proof.
  intros H. destruct t as [a|a|a]; cbn [bal_next bs_final]; cbv zeta; cbn [bs_final];
    repeat apply aset_NoDup; exact H.
Qed.

Lemma run_snoc allow l t : run allow (l ++ [t]) = bal_step allow (run allow l) t.
Proof. unfold run. rewrite fold_left_app. reflexivity. Qed.

Lemma bal_step_err allow e t : bal_step allow (Err e) t = Err e.
Proof. reflexivity. Qed.

Lemma fold_bal_step_err allow e l : fold_left (bal_step allow) l (Err e) = Err e.
Proof. induction l as [|t l IH]; [reflexivity|]. cbn [fold_left]. rewrite bal_step_err. exact IH. Qed.

Lemma run_app allow p r : run allow (p ++ r) = fold_left (bal_step allow) r (run allow p).
Proof. unfold run. apply fold_left_app. Qed.

Lemma run_snoc_ok allow l t s : run allow (l ++ [t]) = Ok s ->
  exists s0, run allow l = Ok s0 /\ s = bal_next s0 t /\ bal_check s0 t && negb allow = false.
Proof.
  rewrite run_snoc. destruct (run allow l) as [s0|e]; [|discriminate].
  rewrite bal_step_eq. destruct (bal_check s0 t && negb allow) eqn:E; [discriminate|].
  intros H. injection H as H. exists s0. auto.
Qed.

Theorem bal_run_spec : forall allow l s, run allow l = Ok s ->
  NoDup (map fst (bs_final s)) /\
  forall k, aget_d 0 k (bs_acq s) = sumZ (map (acq_of k) l) /\
            aget_d 0 k (bs_sent s) = sumZ (map (sent_of k) l) /\
            aget_d 0 k (bs_recv s) = sumZ (map (recv_of k) l) /\
            fin_get k (bs_final s) = sumZ (map (acq_of k) l) + sumZ (map (recv_of k) l) - sumZ (map (sent_of k) l) /\
            (amem k (bs_final s) = true <-> exists t, In t l /\ touches k t = true).
Proof.
  intros allow l. induction l as [|t l IH] using rev_ind; intros s H.
  - unfold run in H. cbn [fold_left] in H. injection H as H. subst s.
    split; [constructor|]. intros k. repeat split; try reflexivity.
    + discriminate.
    + intros (t & [] & _).
  - apply run_snoc_ok in H. destruct H as (s0 & H0 & Hs & _). subst s.
    destruct (IH s0 H0) as [Hnd Hk]. clear IH.
    split; [apply next_nodup; exact Hnd|].
    intros k. destruct (Hk k) as (HA & HS & HR & HF & HM).
    rewrite !map_app, !sumZ_app. cbn [map sumZ].
    rewrite next_acq, next_sent, next_recv, next_fin, next_mem.
    repeat split; try lia.
    + intros H. apply orb_true_iff in H. destruct H as [H|H].
      * apply HM in H. destruct H as (t' & Hin & Ht'). exists t'. split; [apply in_or_app; left; exact Hin|exact Ht'].
      * exists t. split; [apply in_or_app; right; left; reflexivity|exact H].
    + intros (t' & Hin & Ht'). apply orb_true_iff. apply in_app_or in Hin. destruct Hin as [Hin|[Hin|[]]].
      * left. apply HM. exists t'. auto.
      * right. subst t'. exact Ht'.
Qed.

(** allowed negative balances: never rejected *)
Theorem bal_run_allow : forall l, exists s, run true l = Ok s.
Proof.
  induction l as [|t l IH] using rev_ind.
  - exists empty_state. reflexivity.
  - destruct IH as [s IH]. rewrite run_snoc, IH, bal_step_eq.
    cbn [negb]. rewrite andb_false_r. eexists. reflexivity.
Qed.

(** the only possible error *)
Theorem bal_run_only_negbal_gen : forall allow l e, run allow l = Err e -> e = ENegBalance.
Proof.
  intros allow l e. induction l as [|t l IH] using rev_ind; [discriminate|].
  rewrite run_snoc. destruct (run allow l) as [s0|e0].
  - rewrite bal_step_eq. destruct (bal_check s0 t && negb allow); [congruence|discriminate].
  - rewrite bal_step_err. intros H. injection H as H. subst e0. apply IH. reflexivity.
Qed.

Theorem bal_run_only_negbal : forall l e, run false l = Err e -> e = ENegBalance.
Proof. apply bal_run_only_negbal_gen. Qed.

(** as long as nothing is rejected the two modes compute the same state *)
Lemma run_false_true l s : run false l = Ok s -> run true l = Ok s.
Proof.
  revert s. induction l as [|t l IH] using rev_ind; intros s H; [exact H|].
  apply run_snoc_ok in H. destruct H as (s0 & H0 & Hs & _). subst s.
  rewrite run_snoc, (IH s0 H0), bal_step_eq. cbn [negb]. rewrite andb_false_r. reflexivity.
Qed.


(** * rejection *)
Definition reject_cond (s : balst) (t : txn) : Prop :=
  match t with
  | TIn _ => False
  | TOut a => goes_negative (fin_get (acct_key (o_exch a) (o_holder a)) (bs_final s) - (o_crypto_out_no_fee a + o_crypto_fee a)) = true
  | TIntra a => let kf := acct_key (x_from_exch a) (x_from_holder a) in let kt := acct_key (x_to_exch a) (x_to_holder a) in
                goes_negative (fin_get kf (bs_final s) - x_crypto_sent a + (if kf =? kt then x_crypto_received a else 0)) = true
  end.

Lemma bal_check_cond s t : bal_check s t = true <-> reject_cond s t.
Proof.
  destruct t as [a|a|a]; unfold bal_check; cbn [debited_balance reject_cond]; cbv zeta.
  - split; [discriminate|intros []].
  - reflexivity.
  - reflexivity.
Qed.

Lemma run_mid allow p t r : run allow (p ++ t :: r) = fold_left (bal_step allow) r (bal_step allow (run allow p) t).
Proof. change (t :: r) with ([t] ++ r). rewrite app_assoc, run_app, run_snoc. reflexivity. Qed.

(** the first rejected transaction: everything before it is accepted *)
Theorem bal_run_reject_first : forall l,
  (run false l = Err ENegBalance) <->
  exists p t r s, l = p ++ t :: r /\ run false p = Ok s /\ reject_cond s t.
Proof.
  intros l. split.
  - induction l as [|t l IH] using rev_ind; [discriminate|].
    rewrite run_snoc. destruct (run false l) as [s0|e0] eqn:E.
    + rewrite bal_step_eq. destruct (bal_check s0 t) eqn:Ec; cbn [negb andb]; [|discriminate].
      intros _. exists l, t, [], s0. split; [reflexivity|]. split; [exact E|].
      apply bal_check_cond. exact Ec.
    + rewrite bal_step_err. intros H. destruct (IH H) as (p & t' & r & s & Hl & Hp & Hc).
      exists p, t', (r ++ [t]), s. split; [|auto]. rewrite Hl, <- app_assoc. reflexivity.
  - intros (p & t & r & s & Hl & Hp & Hc). subst l.
    rewrite run_mid, Hp, bal_step_eq.
    apply bal_check_cond in Hc. rewrite Hc. cbn [negb andb]. apply fold_bal_step_err.
Qed.

(** rejection is exactly: some debit leaves the debited account's running balance
    "negative beyond tolerance" (running balances as replayed without the check) *)
Theorem bal_run_reject_iff : forall l,
  (run false l = Err ENegBalance) <->
  exists p t r s, l = p ++ t :: r /\ run true p = Ok s /\
     match t with
     | TIn _ => False
     | TOut a => goes_negative (fin_get (acct_key (o_exch a) (o_holder a)) (bs_final s) - (o_crypto_out_no_fee a + o_crypto_fee a)) = true
     | TIntra a => let kf := acct_key (x_from_exch a) (x_from_holder a) in let kt := acct_key (x_to_exch a) (x_to_holder a) in
                   goes_negative (fin_get kf (bs_final s) - x_crypto_sent a + (if kf =? kt then x_crypto_received a else 0)) = true
     end.
Proof.
  intros l. change (run false l = Err ENegBalance <->
    exists p t r s, l = p ++ t :: r /\ run true p = Ok s /\ reject_cond s t). split.
  - intros H. apply bal_run_reject_first in H. destruct H as (p & t & r & s & Hl & Hp & Hc).
    exists p, t, r, s. split; [exact Hl|]. split; [apply run_false_true; exact Hp|exact Hc].
  - intros (p & t & r & s & Hl & Hp & Hc). subst l. rewrite run_mid.
    destruct (run false p) as [s'|e] eqn:E.
    + apply run_false_true in E. rewrite Hp in E. injection E as E. subst s'.
      rewrite bal_step_eq. apply bal_check_cond in Hc. rewrite Hc. cbn [negb andb]. apply fold_bal_step_err.
    + apply bal_run_only_negbal in E. subst e. rewrite bal_step_err. apply fold_bal_step_err.
Qed.

(** with the numeric reading of the tolerance: a debit is rejected iff it leaves less than -5 grid units *)
Corollary bal_run_reject_num : forall l,
  (run false l = Err ENegBalance) <->
  exists p t r s b, l = p ++ t :: r /\ run true p = Ok s /\ debited_balance s t = Some b /\ b < -5.
Proof.
  intros l. rewrite bal_run_reject_iff. split.
  - intros (p & t & r & s & Hl & Hp & Hc). destruct t as [a|a|a]; [destruct Hc| |];
      apply goes_negative_iff_gen in Hc; eexists p, _, r, s, _; (split; [exact Hl|]); (split; [exact Hp|]);
      (split; [reflexivity|exact Hc]).
  - intros (p & t & r & s & b & Hl & Hp & Hb & Hlt). exists p, t, r, s. split; [exact Hl|]. split; [exact Hp|].
    apply goes_negative_iff_gen in Hlt.
    destruct t as [a|a|a]; cbn [debited_balance] in Hb; [discriminate| |]; injection Hb as Hb; subst b; exact Hlt.
Qed.

(** [first_negative] reports the debited account of that first transaction *)
Lemma first_negative_spec : forall l st,
  match first_negative false st l with
  | None => exists s, fold_left (bal_step false) l (Ok st) = Ok s
  | Some (ex, ho) =>
      exists p t r s, l = p ++ t :: r /\ fold_left (bal_step false) p (Ok st) = Ok s /\ reject_cond s t /\
        match t with TIn _ => False | TOut a => ex = o_exch a /\ ho = o_holder a
                   | TIntra a => ex = x_from_exch a /\ ho = x_from_holder a end
  end.
Proof.
  induction l as [|t l IH]; intros st; cbn [first_negative].
  - exists st. reflexivity.
  - rewrite bal_step_eq. cbn [negb]. rewrite andb_true_r.
    destruct (bal_check st t) eqn:Ec.
    + apply bal_check_cond in Ec.
      destruct t as [a|a|a]; [destruct Ec| |].
      * exists [], (TOut a), l, st. repeat split; auto.
      * exists [], (TIntra a), l, st. repeat split; auto.
    + specialize (IH (bal_next st t)).
      destruct (first_negative false (bal_next st t) l) as [[ex ho]|].
      * destruct IH as (p & t' & r & s & Hl & Hp & Hc & Ht').
        exists (t :: p), t', r, s. split; [rewrite Hl; reflexivity|]. split; [|auto].
        cbn [fold_left]. rewrite bal_step_eq, Ec. exact Hp.
      * destruct IH as [s Hs]. exists s. cbn [fold_left]. rewrite bal_step_eq, Ec. exact Hs.
Qed.

(** * totals *)
Definition fin3 (kv : Z * (Z * Z * Z)) : Z := let '(_, (_, _, v)) := kv in v.
Definition net_of (t : txn) : Z :=
  match t with TIn a => i_crypto_in a | TOut a => - (o_crypto_out_no_fee a + o_crypto_fee a)
             | TIntra a => x_crypto_received a - x_crypto_sent a end.

Lemma total_aset k e h v m : sumZ (map fin3 (aset k (e, h, v) m)) = sumZ (map fin3 m) - fin_get k m + v.
Proof.
  unfold fin_get. induction m as [|[k' [[e' h'] v']] m IH]; cbn [aset aget map sumZ fin3].
  - lia.
  - destruct (k =? k') eqn:E; cbn [map sumZ fin3]; [lia|rewrite IH; lia].
Qed.

Lemma next_total s t : sumZ (map fin3 (bs_final (bal_next s t))) = sumZ (map fin3 (bs_final s)) + net_of t.
Proof.
  destruct t as [a|a|a]; cbn [bal_next bs_final net_of]; cbv zeta; cbn [bs_final]; rewrite !total_aset; lia.
Qed.

(** the total of all final balances = everything acquired minus everything that left (fees of transfers included) *)
Theorem bal_total : forall allow l s, run allow l = Ok s ->
  sumZ (map (fun kv => let '(_, (_, _, v)) := kv in v) (bs_final s)) =
  sumZ (map (fun t => match t with TIn a => i_crypto_in a | TOut a => - (o_crypto_out_no_fee a + o_crypto_fee a)
                                 | TIntra a => x_crypto_received a - x_crypto_sent a end) l).
Proof.
  intros allow l. change (forall s, run allow l = Ok s -> sumZ (map fin3 (bs_final s)) = sumZ (map net_of l)).
  induction l as [|t l IH] using rev_ind; intros s H.
  - unfold run in H. cbn [fold_left] in H. injection H as H. subst s. reflexivity.
  - apply run_snoc_ok in H. destruct H as (s0 & H0 & Hs & _). subst s.
    rewrite next_total, (IH s0 H0), map_app, sumZ_app. cbn [map sumZ]. lia.
Qed.

(** * account keys *)
Lemma acct_key_inj ex ho ex' ho' : 0 <= ho < 100000 -> 0 <= ho' < 100000 ->
  acct_key ex ho = acct_key ex' ho' -> ex = ex' /\ ho = ho'.
Proof. unfold acct_key. lia. Qed.

(** for holders in range, comparing keys is comparing (exchange, holder) pairs *)
Lemma acct_key_eqb ex ho ex' ho' : 0 <= ho < 100000 -> 0 <= ho' < 100000 ->
  (acct_key ex ho =? acct_key ex' ho') = (ex =? ex') && (ho =? ho').
Proof. unfold acct_key. intros H H'. lia. Qed.

(** every entry of [bs_final] is stored under the key of the (exchange, holder) pair it carries *)
Definition key_ok (kv : Z * (Z * Z * Z)) : Prop := let '(k, (ex, ho, _)) := kv in k = acct_key ex ho.

Lemma Forall_aset {V} (P : Z * V -> Prop) k v (m : assoc V) : Forall P m -> P (k, v) -> Forall P (aset k v m).
Proof.
  rewrite !Forall_forall. intros Hm Hkv x Hx. apply In_aset in Hx. destruct Hx as [Hx|Hx]; [subst x; exact Hkv|auto].
Qed.

Lemma next_key_ok s t : Forall key_ok (bs_final s) -> Forall key_ok (bs_final (bal_next s t)).
Proof.
  intros H. destruct t as [a|a|a]; cbn [bal_next bs_final]; cbv zeta; cbn [bs_final];
    repeat (apply Forall_aset; [|reflexivity]); exact H.
Qed.

Lemma run_key_ok allow l : forall s, run allow l = Ok s -> Forall key_ok (bs_final s).
Proof.
  induction l as [|t l IH] using rev_ind; intros s H.
  - unfold run in H. cbn [fold_left] in H. injection H as H. subst s. constructor.
  - apply run_snoc_ok in H. destruct H as (s0 & H0 & Hs & _). subst s. apply next_key_ok, IH, H0.
Qed.

(** * the stable sort by a boolean order *)
Section SortLebProofs.
Context {A : Type} (leb : A -> A -> bool).

Lemma insert_leb_perm x l : Permutation (insert_leb leb x l) (x :: l).
Proof.
  induction l as [|y l IH]; cbn [insert_leb]; [apply Permutation_refl|].
  destruct (leb x y); [apply Permutation_refl|].
  eapply Permutation_trans; [apply perm_skip; exact IH|apply perm_swap].
Qed.

Lemma sort_leb_perm l : Permutation (sort_leb leb l) l.
Proof.
  induction l as [|x l IH]; cbn [sort_leb]; [apply Permutation_refl|].
  eapply Permutation_trans; [apply insert_leb_perm|apply perm_skip; exact IH].
Qed.

Lemma sort_leb_in x l : In x (sort_leb leb l) <-> In x l.
Proof.
  split; apply Permutation_in; [apply sort_leb_perm|apply Permutation_sym, sort_leb_perm].
Qed.

Hypothesis leb_total : forall a b, leb a b = false -> leb b a = true.
Hypothesis leb_trans : forall a b c, leb a b = true -> leb b c = true -> leb a c = true.

Lemma insert_leb_sorted x l :
  StronglySorted (fun a b => leb a b = true) l -> StronglySorted (fun a b => leb a b = true) (insert_leb leb x l).
Proof.
  induction 1 as [|y l Hs IH Hall]; cbn [insert_leb].
  - constructor; constructor.
  - destruct (leb x y) eqn:E.
    + constructor; [constructor; assumption|].
      constructor; [exact E|]. eapply Forall_impl; [|exact Hall]. cbv beta. intros z Hz. eapply leb_trans; eassumption.
    + constructor; [exact IH|].
      rewrite Forall_forall in *. intros z Hz.
      apply (Permutation_in _ (insert_leb_perm x l)) in Hz. destruct Hz as [Hz|Hz].
      * subst z. apply leb_total. exact E.
      * apply Hall. exact Hz.
Qed.

Lemma sort_leb_sorted l : StronglySorted (fun a b => leb a b = true) (sort_leb leb l).
Proof. induction l as [|x l IH]; cbn [sort_leb]; [constructor|apply insert_leb_sorted; exact IH]. Qed.
End SortLebProofs.

Lemma str_leb_total : forall a b, str_leb a b = false -> str_leb b a = true.
Proof.
  induction a as [|x a IH]; intros [|y b]; cbn [str_leb]; try congruence.
  destruct (x <? y) eqn:E1; [discriminate|]. destruct (y <? x) eqn:E2; [reflexivity|].
  intros H. apply IH. exact H.
Qed.

Lemma str_leb_trans : forall a b c, str_leb a b = true -> str_leb b c = true -> str_leb a c = true.
Proof.
  induction a as [|x a IH]; intros [|y b] [|z c]; cbn [str_leb]; try congruence.
  destruct (x <? y) eqn:E1.
  - intros _. destruct (y <? z) eqn:E2.
    + intros _. assert (Hxz : (x <? z) = true) by lia. rewrite Hxz. reflexivity.
    + destruct (z <? y) eqn:E3; [discriminate|]. intros _.
      assert (Hxz : (x <? z) = true) by lia. rewrite Hxz. reflexivity.
  - destruct (y <? x) eqn:E2; [discriminate|]. intros Hab.
    destruct (y <? z) eqn:E3.
    + intros _. assert (Hxz : (x <? z) = true) by lia. rewrite Hxz. reflexivity.
    + destruct (z <? y) eqn:E4; [discriminate|]. intros Hbc.
      assert (Hxz : (x <? z) = false) by lia. assert (Hzx : (z <? x) = false) by lia.
      rewrite Hxz, Hzx. eapply IH; eassumption.
Qed.

(** * the balance list *)
Definition all_txns (t : txs) : list txn :=
  sort_by t_us (map TIn (t_ins t) ++ map TIntra (t_intras t) ++ map TOut (t_outs t)).
Definition shown_txns (to_day : Z) (t : txs) : list txn :=
  take_until (fun x => local_day (t_ts x)) to_day (all_txns t).
Definition raw_balances (s : balst) : list balance :=
  map (fun kv => let '(k, (ex, ho, v)) := kv in
                 {| b_exch := ex; b_holder := ho; b_final := v; b_acquired := aget_d 0 k (bs_acq s);
                    b_sent := aget_d 0 k (bs_sent s); b_received := aget_d 0 k (bs_recv s) |}) (bs_final s).
Definition name_leb (exs hos : list str) (a b : balance) : bool :=
  str_leb (acct_name exs hos (b_exch a) (b_holder a)) (acct_name exs hos (b_exch b) (b_holder b)).
Definition bkey (b : balance) : Z := acct_key (b_exch b) (b_holder b).

Lemma balances_eq allow to_day exs hos t :
  balances allow to_day exs hos t =
  match run allow (shown_txns to_day t) with
  | Err e => Err e
  | Ok s => Ok (sort_leb (name_leb exs hos) (raw_balances s))
  end.
Proof. reflexivity. Qed.

Lemma raw_balances_keys allow l s : run allow l = Ok s -> map bkey (raw_balances s) = map fst (bs_final s).
Proof.
  intros H. pose proof (run_key_ok allow l s H) as Hk. rewrite Forall_forall in Hk.
  unfold raw_balances. rewrite map_map. apply map_ext_in.
  intros [k [[ex ho] v]] Hin. specialize (Hk _ Hin). cbn [key_ok] in Hk. cbn [fst]. unfold bkey. cbn [b_exch b_holder].
  symmetry. exact Hk.
Qed.

Lemma raw_balances_spec allow l s b : run allow l = Ok s -> In b (raw_balances s) ->
  amem (bkey b) (bs_final s) = true /\
  b_final b = fin_get (bkey b) (bs_final s) /\ b_acquired b = aget_d 0 (bkey b) (bs_acq s) /\
  b_sent b = aget_d 0 (bkey b) (bs_sent s) /\ b_received b = aget_d 0 (bkey b) (bs_recv s).
Proof.
  intros H Hin. pose proof (run_key_ok allow l s H) as Hk. rewrite Forall_forall in Hk.
  destruct (bal_run_spec allow l s H) as [Hnd _].
  unfold raw_balances in Hin. apply in_map_iff in Hin. destruct Hin as ([k [[ex ho] v]] & Hb & Hin).
  specialize (Hk _ Hin). cbn [key_ok] in Hk. subst b. unfold bkey. cbn [b_exch b_holder b_final b_acquired b_sent b_received].
  rewrite <- Hk. pose proof (In_aget _ _ _ Hnd Hin) as Hget.
  unfold amem, fin_get. rewrite Hget. auto.
Qed.

Theorem balances_ok_iff : forall allow to_day exs hos t,
  (exists bl, balances allow to_day exs hos t = Ok bl) <-> (exists s, run allow (shown_txns to_day t) = Ok s).
Proof.
  intros. rewrite balances_eq. destruct (run allow (shown_txns to_day t)) as [s|e].
  - split; intros _; eexists; reflexivity.
  - split; intros [x Hx]; discriminate Hx.
Qed.

Theorem balances_err_iff : forall allow to_day exs hos t e,
  balances allow to_day exs hos t = Err e <-> run allow (shown_txns to_day t) = Err e.
Proof.
  intros. rewrite balances_eq. destruct (run allow (shown_txns to_day t)) as [s|e0].
  - split; discriminate.
  - split; intros H; injection H as H; subst; reflexivity.
Qed.

(** one record per touched account (none for the others), carrying the four flow figures of that
    account over the transactions up to [to_day]; sorted by account name *)
Theorem balances_spec : forall allow to_day exs hos t bl,
  balances allow to_day exs hos t = Ok bl ->
  let l := shown_txns to_day t in
  (exists s, run allow l = Ok s /\ Permutation bl (raw_balances s)) /\
  NoDup (map bkey bl) /\
  (forall k, (exists b, In b bl /\ bkey b = k) <-> (exists x, In x l /\ touches k x = true)) /\
  (forall b, In b bl ->
     b_acquired b = sumZ (map (acq_of (bkey b)) l) /\
     b_sent b = sumZ (map (sent_of (bkey b)) l) /\
     b_received b = sumZ (map (recv_of (bkey b)) l) /\
     b_final b = b_acquired b + b_received b - b_sent b) /\
  StronglySorted (fun a b => name_leb exs hos a b = true) bl /\
  sumZ (map b_final bl) = sumZ (map net_of l).
Proof.
  intros allow to_day exs hos t bl H l. rewrite balances_eq in H. fold l in H.
  destruct (run allow l) as [s|e] eqn:E; [|discriminate H]. injection H as H.
  assert (Hperm : Permutation bl (raw_balances s)) by (subst bl; apply sort_leb_perm).
  destruct (bal_run_spec allow l s E) as [Hnd Hk].
  pose proof (raw_balances_keys allow l s E) as Hkeys.
  split; [exists s; split; [reflexivity|exact Hperm]|].
  split.
  { apply (Permutation_NoDup (l := map bkey (raw_balances s))).
    - apply Permutation_sym, Permutation_map, Hperm.
    - rewrite Hkeys. exact Hnd. }
  split.
  { intros k. destruct (Hk k) as (_ & _ & _ & _ & HM). rewrite <- HM, amem_true_iff, <- Hkeys. split.
    - intros (b & Hb & Hkb). subst k. apply in_map. apply (Permutation_in _ Hperm). exact Hb.
    - intros Hin. apply in_map_iff in Hin. destruct Hin as (b & Hkb & Hb). exists b. split; [|exact Hkb].
      apply (Permutation_in _ (Permutation_sym Hperm)). exact Hb. }
  split.
  { intros b Hb. apply (Permutation_in _ Hperm) in Hb.
    destruct (raw_balances_spec allow l s b E Hb) as (_ & HF & HA & HS & HR).
    destruct (Hk (bkey b)) as (KA & KS & KR & KF & _).
    rewrite HF, HA, HS, HR. repeat split; lia. }
  split.
  { subst bl. apply sort_leb_sorted.
    - intros a b. unfold name_leb. apply str_leb_total.
    - intros a b c. unfold name_leb. apply str_leb_trans. }
  { assert (Ht : sumZ (map fin3 (bs_final s)) = sumZ (map net_of l)) by (exact (bal_total allow l s E)).
    rewrite <- Ht.
    assert (Hraw : map b_final (raw_balances s) = map fin3 (bs_final s)).
    { unfold raw_balances. rewrite map_map. apply map_ext. intros [k [[ex ho] v]]. reflexivity. }
    rewrite <- Hraw. clear -Hperm. induction Hperm; cbn [map sumZ]; lia. }
Qed.

(** two records of the list never describe the same (exchange, holder) account *)
Corollary balances_accounts_distinct : forall allow to_day exs hos t bl,
  balances allow to_day exs hos t = Ok bl -> NoDup (map (fun b => (b_exch b, b_holder b)) bl).
Proof.
  intros allow to_day exs hos t bl H. destruct (balances_spec _ _ _ _ _ _ H) as (_ & Hnd & _).
  apply (NoDup_map_inv (fun p => acct_key (fst p) (snd p))). rewrite map_map. exact Hnd.
Qed.

