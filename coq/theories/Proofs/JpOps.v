(** Sheet operations of Model/JpReport.v: where a write ends up after later row insertions,
    which write a cell finally shows ([cell_at] = the last write), capacity. *)
From Coq Require Import List ZArith Bool Lia Permutation ZifyBool.
From RP2V Require Import Base.Prelude Base.Assoc Proofs.AssocProofs Model.Types Model.Grid Model.JpReport.
Import ListNotations.
Open Scope Z_scope.

(** ---------- lists *)
Lemma nodup_app {A} (a b : list A) :
  NoDup a -> NoDup b -> (forall x, In x a -> ~ In x b) -> NoDup (a ++ b).
Proof.
  induction a as [|x a IH]; simpl; intros Ha Hb Hd; [exact Hb|].
  inversion Ha; subst. constructor.
  - rewrite in_app_iff. intros [H|H]; [tauto|]. exact (Hd x (or_introl eq_refl) H).
  - apply IH; auto.
Qed.

Fixpoint nodupb (l : list Z) : bool :=
  match l with [] => true | x :: t => negb (existsb (Z.eqb x) t) && nodupb t end.
Lemma nodupb_sound l : nodupb l = true -> NoDup l.
Proof.
  induction l as [|x t IH]; simpl; intros H; [constructor|].
  apply andb_true_iff in H. destruct H as [H1 H2]. constructor; [|auto].
  intros Hin. apply negb_true_iff in H1.
  assert (existsb (Z.eqb x) t = true) by (apply existsb_exists; exists x; split; [exact Hin|apply Z.eqb_refl]).
  congruence.
Qed.

Lemma NoDup_map_shift (f : Z -> Z) (l : list Z) :
  (forall a b, f a = f b -> a = b) -> NoDup l -> NoDup (map f l).
Proof.
  intros Hinj. induction 1 as [|x l Hx Hl IH]; simpl; constructor; auto.
  rewrite in_map_iff. intros [y [Hy Hin]]. apply Hinj in Hy. subst. tauto.
Qed.

(** ---------- final positions *)
Lemma final_row_app r a b : final_row r (a ++ b) = final_row (final_row r a) b.
Proof. revert r; induction a as [|[i|w] a IH]; intros r; simpl; auto. Qed.

Lemma count_ins_app a b : count_ins (a ++ b) = count_ins a + count_ins b.
Proof. induction a as [|[i|w] a IH]; cbn [count_ins app]; lia. Qed.

Lemma count_ins_nonneg a : 0 <= count_ins a.
Proof. induction a as [|[i|w] a IH]; cbn [count_ins]; lia. Qed.

Lemma final_row_bounds r later : r <= final_row r later <= r + count_ins later.
Proof.
  revert r; induction later as [|[i|w] t IH]; intros r; cbn [final_row count_ins]; [lia| |apply IH].
  pose proof (count_ins_nonneg t).
  destruct (i <=? r); [specialize (IH (r + 1))|specialize (IH r)]; lia.
Qed.

Lemma final_row_no_shift r later : (forall i, In (OIns i) later -> r < i) -> final_row r later = r.
Proof.
  revert r; induction later as [|[i|w] t IH]; intros r H; simpl; auto.
  - assert (r < i) by (apply H; left; reflexivity).
    destruct (i <=? r) eqn:E; [lia|]. apply IH. intros j Hj. apply H. right. exact Hj.
  - apply IH. intros j Hj. apply H. right. exact Hj.
Qed.

Lemma final_row_writes r ws : final_row r (map OW ws) = r.
Proof. apply final_row_no_shift. intros i H. apply in_map_iff in H. destruct H as [w [H _]]. discriminate. Qed.

Lemma count_ins_writes ws : count_ins (map OW ws) = 0.
Proof. induction ws; simpl; auto. Qed.

Lemma resolve_writes ws : resolve_ops (map OW ws) = ws.
Proof.
  induction ws as [|w ws IH]; simpl; auto. rewrite IH, final_row_writes. destruct w; reflexivity.
Qed.

Definition shift_by (b : list op) (w : cellw) : cellw := cw (final_row (cw_row w) b) (cw_col w) (cw_val w).

Lemma resolve_ops_app a b : resolve_ops (a ++ b) = map (shift_by b) (resolve_ops a) ++ resolve_ops b.
Proof.
  induction a as [|[i|w] a IH]; simpl; auto.
  rewrite IH. unfold shift_by at 2. simpl. rewrite final_row_app. reflexivity.
Qed.

Lemma resolve_ops_app_writes a ws : resolve_ops (a ++ map OW ws) = resolve_ops a ++ ws.
Proof.
  rewrite resolve_ops_app, resolve_writes. f_equal.
  rewrite <- (map_id (resolve_ops a)) at 2. apply map_ext. intros [r c v]. unfold shift_by. simpl.
  rewrite final_row_writes. reflexivity.
Qed.

(** ---------- the last write wins *)
Definition wkey (w : cellw) : Z := cell_key (cw_row w) (cw_col w).

Lemma cell_key_inj r c r' c' : 0 <= c < 1024 -> 0 <= c' < 1024 -> cell_key r c = cell_key r' c' -> r = r' /\ c = c'.
Proof. unfold cell_key. lia. Qed.

Notation cstep := (fun (m : assoc payload) (w : cellw) => aset (cell_key (cw_row w) (cw_col w)) (cw_val w) m).

Lemma aget_fold_other k ws : forall m,
  (forall w, In w ws -> wkey w <> k) -> aget k (fold_left cstep ws m) = aget k m.
Proof.
  induction ws as [|w ws IH]; intros m H; cbn [fold_left]; auto.
  rewrite IH by (intros w' Hw'; apply H; right; exact Hw').
  apply aget_aset_other. intro E. apply (H w); [left; reflexivity|]. unfold wkey. congruence.
Qed.

(** a write of the block [C] (pairwise distinct cells) that nothing written later touches *)
Lemma cell_at_block A C B w :
  In w C -> NoDup (map wkey C) -> (forall w', In w' B -> wkey w' <> wkey w) ->
  cell_at (A ++ C ++ B) (cw_row w) (cw_col w) = cw_val w.
Proof.
  intros Hin Hnd HB. unfold cell_at, final_cells, aget_d.
  apply in_split in Hin. destruct Hin as [C1 [C2 ->]].
  rewrite !fold_left_app. cbn [fold_left].
  rewrite aget_fold_other by exact HB.
  rewrite aget_fold_other.
  - rewrite aget_aset_same. reflexivity.
  - intros w' Hw' E. rewrite map_app in Hnd. cbn [map] in Hnd. apply NoDup_remove_2 in Hnd.
    apply Hnd. rewrite in_app_iff. right. change (wkey w' = wkey w) in E. rewrite <- E. apply in_map. exact Hw'.
Qed.

Lemma cell_at_block_end A C w :
  In w C -> NoDup (map wkey C) -> cell_at (A ++ C) (cw_row w) (cw_col w) = cw_val w.
Proof.
  intros H1 H2. rewrite <- (app_nil_r C). apply cell_at_block; auto.
Qed.

(** ---------- capacity *)
Fixpoint ops_bounded (R C : Z) (ops : list op) : Prop :=
  match ops with
  | [] => True
  | OIns i :: t => 0 <= i < R /\ ops_bounded (R + 1) C t
  | OW w :: t => (0 <= cw_row w < R /\ 0 <= cw_col w < C) /\ ops_bounded R C t
  end.

Lemma ops_bounded_app R C a b : ops_bounded R C (a ++ b) <-> ops_bounded R C a /\ ops_bounded (R + count_ins a) C b.
Proof.
  revert R; induction a as [|[i|w] a IH]; intros R; simpl.
  - replace (R + 0) with R by lia. tauto.
  - rewrite IH. replace (R + 1 + count_ins a) with (R + (1 + count_ins a)) by lia. tauto.
  - rewrite IH. tauto.
Qed.

Lemma ops_bounded_writes R C ws :
  ops_bounded R C (map OW ws) <-> Forall (fun w => 0 <= cw_row w < R /\ 0 <= cw_col w < C) ws.
Proof.
  induction ws as [|w ws IH]; simpl; [split; auto|]. rewrite IH. split.
  - intros [H1 H2]. constructor; auto.
  - intros H. inversion H; subst. auto.
Qed.

Lemma ops_bounded_forall R C ops :
  ops_bounded R C ops ->
  Forall (fun w => (0 <= cw_row w < R + count_ins ops) /\ (0 <= cw_col w < C)) (resolve_ops ops).
Proof.
  revert R; induction ops as [|[i|w] t IH]; intros R H; cbn [ops_bounded resolve_ops count_ins] in *.
  - constructor.
  - destruct H as [_ H]. specialize (IH _ H). eapply Forall_impl; [|exact IH]. cbn beta. intros w Hw. lia.
  - destruct H as [[Hr Hc] H]. constructor.
    + cbn [cw cw_row cw_col]. pose proof (final_row_bounds (cw_row w) t). lia.
    + apply IH. exact H.
Qed.

Lemma sheet_of_ok name R C ops : ops_bounded R C ops -> sheet_ok (sheet_of name R C ops) = true.
Proof.
  intros H. apply ops_bounded_forall in H. unfold sheet_ok, sheet_of. cbn [sw_writes].
  apply forallb_forall. intros w Hw. rewrite Forall_forall in H. specialize (H w Hw).
  unfold in_capacity. cbn [sw_rows sw_cols]. lia.
Qed.
