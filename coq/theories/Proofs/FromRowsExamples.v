(** Non-vacuity of the "from the rows" statements (Proofs/FromRows.v): concrete raw histories (history A and B of
    Proofs/L4Examples.v and variants) meet their hypotheses; every instance is evaluated by the kernel. *)
From Coq Require Import List ZArith Bool Lia Sorted ZifyBool.
From RP2V Require Import Base.Prelude Base.Assoc Base.Sorting Base.Dec Base.Time Model.Types Model.Generated Model.Txn
  Model.Matcher Model.MatchSpec Model.MatchWf Model.FracSpec Model.Pipeline Model.Computed Model.ComputedSpec Model.StabilitySpec
  Model.TotalSpec Model.FromRowsSpec.
From RP2V Require Import Proofs.C03Proofs Proofs.PipelineWf Proofs.L4Examples Proofs.NumberingExamples Proofs.C09Examples
  Proofs.ComputeTotal Proofs.ComputeTotalExamples Proofs.FromRows.
Import ListNotations.
Open Scope Z_scope.

(** * checkers *)
Definition built_history_b (sched : list (Z * meth)) (h : hist) (t : txs) : bool :=
  match taxable_events t with
  | Ok evs => all_lt (map ri_row (h_ins h)) && staking_ok_b h && same_year_b evs && sched_covers_b sched evs && negb (has_dup (map fst sched))
  | Err _ => false
  end.
Lemma built_history_check sched h t : build h = Ok t -> built_history_b sched h t = true -> built_history sched h t.
Proof.
  intros Hb H. unfold built_history_b in H. destruct (taxable_events t) as [evs|] eqn:HE; [|discriminate].
  rewrite !andb_true_iff in H. destruct H as ((((H1 & H2) & H3) & H4) & H5).
  constructor; [exact Hb|exact (rows_increasing_check h H1)|exact (staking_check h H2)| |apply has_dup_false_NoDup; apply negb_true_iff; exact H5].
  intros evs' HE'. rewrite HE in HE'. injection HE' as <-. split; [exact (same_year_check evs H3)|exact (sched_covers_check sched evs H4)].
Qed.
Definition distinct_row_ids_b (h : hist) : bool :=
  negb (has_dup (map ri_row (h_ins h) ++ map ro_row (h_outs h) ++ map rx_row (h_intras h))).
Lemma distinct_row_ids_check h : distinct_row_ids_b h = true -> distinct_row_ids h.
Proof. intros H. apply has_dup_false_NoDup. apply negb_true_iff. exact H. Qed.

(** * history A under FIFO: C01 / C02 from the rows *)
Example hA_built : built_history schedA hA tA.
Proof. exact (matched_built _ _ _ _ hA_matched). Qed.
Example hA_distinct : distinct_row_ids hA.
Proof. apply distinct_row_ids_check. vm_compute. reflexivity. Qed.

Example hA_order := order_from_rows schedA hA tA hA_built fsA fsA_matched.
Example hA_positive := positive_from_rows schedA hA tA hA_built fsA fsA_matched.
Example hA_covered := event_covered_from_rows schedA hA tA hA_built fsA evsA fsA_matched evsA_ok.
Example hA_not_overspent := no_lot_overspent_from_rows schedA hA tA hA_built fsA fsA_matched.
Example hA_belong := fractions_belong_from_rows schedA hA tA hA_built fsA evsA fsA_matched evsA_ok.
Example hA_outcome := outcome_from_rows schedA hA tA hA_built hA_distinct.

(** * history A under HIFO: the first sale (row 4, day 18400) takes the 200-priced lot of row 2 although the lot of row 1
    is older; the big sale of row 5 exhausts row 2, then the 150-priced income lot of row 3, then row 1 *)
Definition schedH : list (Z * meth) := [(1970, Hifo)].
Definition fsA_hifo : list fraction :=
  Eval vm_compute in match fractions_of gen_always_repush schedH tA with Ok fs => fs | Err _ => [] end.
Example fsA_hifo_matched : fractions_of gen_always_repush schedH tA = Ok fsA_hifo.
Proof. vm_compute. reflexivity. Qed.
Example fsA_hifo_shape : map (fun f => (f_ev f, f_lot f)) fsA_hifo =
  [(3, None); (4, Some 2); (5, Some 2); (5, Some 3); (5, Some 1); (6, Some 1); (7, Some 1); (8, Some 1)].
Proof. vm_compute. reflexivity. Qed.
Example hA_built_hifo : built_history schedH hA tA.
Proof. apply built_history_check; [exact tA_built|vm_compute; reflexivity]. Qed.
Example hA_hifo_order := order_from_rows schedH hA tA hA_built_hifo fsA_hifo fsA_hifo_matched.
(** the instance for the second fraction (event row 4, lot row 2) says something: the lot is ranked before the older lot of
    row 1, which has unconsumed balance at that point *)
Example hA_hifo_second_fraction :
  exists f, nth_error fsA_hifo 1 = Some f /\ f_lot f = Some 2 /\
  exists a b, In a (t_ins tA) /\ In b (t_ins tA) /\ i_row a = 2 /\ i_row b = 1 /\ 0 < lot_balance (firstn 1 fsA_hifo) b /\
              in_us b < in_us a /\ ranks_before Hifo a b.
Proof.
  eexists. split; [reflexivity|]. split; [reflexivity|].
  exists (nth 1 (t_ins tA) intx_dflt), (nth 0 (t_ins tA) intx_dflt).
  split; [right; left; reflexivity|]. split; [left; reflexivity|]. vm_compute. repeat split; try reflexivity. left. reflexivity.
Qed.

(** * history B (buy 1, sell 2, buy 5): the lots run out at the sale -- the failing prefix is exhibited *)
Example hB_built : built_history schedA hB tB.
Proof. apply built_history_check; [exact tB_built|vm_compute; reflexivity]. Qed.
Example hB_distinct : distinct_row_ids hB.
Proof. apply distinct_row_ids_check. vm_compute. reflexivity. Qed.
Example hB_fails_with_prefix :
  fractions_of gen_always_repush schedA tB = Err EExhausted /\
  exists evs p x r, taxable_events tB = Ok evs /\ evs = p ++ x :: r /\ t_is_earning x = false /\ acquired_by tB (t_us x) < disposed (p ++ [x]).
Proof.
  destruct (outcome_from_rows schedA hB tB hB_built hB_distinct) as (evs & HE & _ & Hiff).
  split; [exact (proj1 tB_exhausted)|]. destruct (proj1 Hiff (proj1 tB_exhausted)) as (p & x & r & H). exists evs, p, x, r. tauto.
Qed.

(** * C09 from the rows: history A without / with its 2021 sale (row 8) *)
Example hA'_built : built_history schedA hA' tA'.
Proof. apply built_history_check; [exact tA'_built|vm_compute; reflexivity]. Qed.
Example hA_extends_hA' : rows_extend_after T500 hA' hA.
Proof. repeat split; vm_compute; reflexivity. Qed.
Example hA_prefix_instance := prefix_stable_from_rows T500 schedA hA' tA' hA tA hA'_built hA_built hA_extends_hA' hA_distinct.
Example hA_later_rows_instance :=
  later_rows_change_nothing T500 365 (-100000) 100000 false false exsA hosA schedA hA' tA' hA tA cdA'_all cdA
    hA'_built hA_built hA_extends_hA' hA_distinct cdA'_all_ok cdA_tax.
(** the extension is real: the later run has one more fraction *)
Example hA_prefix_real : exists fs', fractions_of gen_always_repush schedA tA' = Ok fs' /\ length fs' = 6%nat /\ length fsA = 7%nat.
Proof. eexists. vm_compute. repeat split; reflexivity. Qed.

(** * sell-all from the rows: after history A 2.8 coins remain; a final sale of exactly 2.8 coins (row 9, day 18800) succeeds and
    leaves every acquisition exactly exhausted *)
Definition r_final : raw_out := r_out 9 18800 0 0 SELL (300 * U) (28 * U / 10) 0.
Definition tA_all : txs :=
  Eval vm_compute in match build (with_final_out hA r_final) with Ok t => t | Err _ => {| t_ins := []; t_outs := []; t_intras := [] |} end.
Example tA_all_built : build (with_final_out hA r_final) = Ok tA_all.
Proof. vm_compute. reflexivity. Qed.
Definition o_final : outtx := Eval vm_compute in match mk_out r_final with Ok o => o | Err _ => outtx_dflt end.
Example hA_sell_all :
  t_ins tA_all = t_ins tA /\
  exists fs', fractions_of gen_always_repush schedA tA_all = Ok (fsA ++ fs') /\ forall a, In a (t_ins tA_all) -> lot_balance (fsA ++ fs') a = 0.
Proof.
  apply (sell_all_from_rows schedA hA tA fsA r_final tA_all o_final hA_built fsA_matched).
  - apply built_history_check; [exact tA_all_built|vm_compute; reflexivity].
  - apply distinct_row_ids_check. vm_compute. reflexivity.
  - repeat split; intros r Hr; vm_compute in Hr; repeat (destruct Hr as [<-|Hr]; [vm_compute; reflexivity|]); destruct Hr.
  - vm_compute. reflexivity.
  - vm_compute. reflexivity.
Qed.

Example hA_from_rows_nonvacuous :
  built_history schedA hA tA /\ built_history schedH hA tA /\ fractions_of gen_always_repush schedH tA = Ok fsA_hifo /\
  exists f, nth_error fsA_hifo 1 = Some f /\ f_lot f = Some 2 /\
  exists a b, In a (t_ins tA) /\ In b (t_ins tA) /\ i_row a = 2 /\ i_row b = 1 /\ 0 < lot_balance (firstn 1 fsA_hifo) b /\
              in_us b < in_us a /\ ranks_before Hifo a b.
Proof. exact (conj hA_built (conj hA_built_hifo (conj fsA_hifo_matched hA_hifo_second_fraction))). Qed.

Example c02_from_rows_nonvacuous :
  built_history schedA hA tA /\ distinct_row_ids hA /\ fractions_of gen_always_repush schedA tA = Ok fsA /\
  (built_history schedA hB tB /\ distinct_row_ids hB /\ fractions_of gen_always_repush schedA tB = Err EExhausted /\
   exists evs p x r, taxable_events tB = Ok evs /\ evs = p ++ x :: r /\ t_is_earning x = false /\ acquired_by tB (t_us x) < disposed (p ++ [x])) /\
  (t_ins tA_all = t_ins tA /\
   exists fs', fractions_of gen_always_repush schedA tA_all = Ok (fsA ++ fs') /\ forall a, In a (t_ins tA_all) -> lot_balance (fsA ++ fs') a = 0).
Proof.
  split; [exact hA_built|]. split; [exact hA_distinct|]. split; [exact fsA_matched|]. split; [|exact hA_sell_all].
  split; [exact hB_built|]. split; [exact hB_distinct|]. exact hB_fails_with_prefix.
Qed.

Example c09_from_rows_nonvacuous :
  built_history schedA hA' tA' /\ built_history schedA hA tA /\ rows_extend_after T500 hA' hA /\ distinct_row_ids hA /\
  exists fs', fractions_of gen_always_repush schedA tA' = Ok fs' /\ length fs' = 6%nat /\ length fsA = 7%nat.
Proof. exact (conj hA'_built (conj hA_built (conj hA_extends_hA' (conj hA_distinct hA_prefix_real)))). Qed.
