(** The invariant of the greedy matching specification and its preservation by
    [consume] and by the event loop. *)
From Coq Require Import ZifyBool.
From RP2V Require Import Base.Prelude Base.Time Base.Dec Model.Types Model.Generated
  Model.Matcher Model.MatchSpec Model.MatchWf Model.FracSpec Proofs.SpecAux.
Open Scope Z_scope.

(** * sums of fractions *)
Lemma lot_taken_app fs gs r : lot_taken (fs ++ gs) r = lot_taken fs r + lot_taken gs r.
Proof. unfold lot_taken. rewrite filter_app, map_app, sumZ_app. reflexivity. Qed.

Lemma ev_taken_app fs gs r : ev_taken (fs ++ gs) r = ev_taken fs r + ev_taken gs r.
Proof. unfold ev_taken. rewrite filter_app, map_app, sumZ_app. reflexivity. Qed.

Lemma lot_taken_single f r : lot_taken [f] r = if frac_of_lot r f then f_amt f else 0.
Proof. unfold lot_taken. cbn [filter]. destruct (frac_of_lot r f); cbn [map sumZ]; lia. Qed.

Lemma lot_taken_nonneg fs r : (forall f, In f fs -> 0 < f_amt f) -> 0 <= lot_taken fs r.
Proof.
  intros H. unfold lot_taken. apply sumZ_map_ge0. intros f Hf. apply filter_In in Hf.
  destruct Hf as [Hf _]. specialize (H f Hf). lia.
Qed.

Lemma filter_ev_all r fs : (forall f, In f fs -> f_ev f = r) -> filter (frac_of_ev r) fs = fs.
Proof.
  induction fs as [|a fs IH]; intros H; [reflexivity|]. cbn [filter]. unfold frac_of_ev at 1.
  rewrite (H a) by (left; reflexivity). rewrite Z.eqb_refl. f_equal. apply IH.
  intros f Hf. apply H. right. exact Hf.
Qed.

Lemma filter_ev_none r fs : (forall f, In f fs -> f_ev f <> r) -> filter (frac_of_ev r) fs = [].
Proof.
  induction fs as [|a fs IH]; intros H; [reflexivity|]. cbn [filter]. unfold frac_of_ev at 1.
  destruct (Z.eqb_spec (f_ev a) r) as [E|_]; [exfalso; apply (H a); [left; reflexivity|exact E]|].
  apply IH. intros f Hf. apply H. right. exact Hf.
Qed.

Section Run.
Variable lots : list intx.
Variable sched : list (Z * meth).

(** the event loop of the specification, returning the final state *)
Fixpoint run_st (evs : list event) (rem : list Z) (out : list fraction) : result (list Z * list fraction) :=
  match evs with
  | [] => Ok (rem, out)
  | e :: r =>
    if e_earn e then run_st r rem (mk_frac lots e None (e_amt e) :: out)
    else match meth_for sched (e_year e) None with
         | None => Err ENoMethod
         | Some (_, m) =>
           match consume lots (S (length lots)) m e (e_amt e) rem out with
           | Err x => Err x
           | Ok (rem', out') => run_st r rem' out'
           end
         end
  end.

Lemma spec_events_run_st evs : forall rem out,
  spec_events lots sched evs rem out =
  match run_st evs rem out with Ok (_, o) => Ok (rev o) | Err x => Err x end.
Proof.
  induction evs as [|e r IH]; intros rem out; cbn [spec_events run_st]; [reflexivity|].
  destruct (e_earn e); [apply IH|].
  destruct (meth_for sched (e_year e) None) as [[y m]|]; [|reflexivity].
  destruct (consume lots (S (length lots)) m e (e_amt e) rem out) as [[rem' out']|x]; [apply IH|reflexivity].
Qed.

Lemma run_st_app a b : forall rem out,
  run_st (a ++ b) rem out =
  match run_st a rem out with Ok (r, o) => run_st b r o | Err x => Err x end.
Proof.
  induction a as [|e r IH]; intros rem out; cbn [app run_st]; [reflexivity|].
  destruct (e_earn e); [apply IH|].
  destruct (meth_for sched (e_year e) None) as [[y m]|]; [|reflexivity].
  destruct (consume lots (S (length lots)) m e (e_amt e) rem out) as [[rem' out']|x]; [apply IH|reflexivity].
Qed.

Variable evs : list event.
Hypothesis WF : wf lots sched evs.

Lemma wf_rows : NoDup (map i_row lots).
Proof. apply WF. Qed.

(** the state [rem] mirrors the fractions emitted so far *)
Definition St (fs : list fraction) (rem : list Z) : Prop :=
  length rem = length lots /\
  forall i, (i < length lots)%nat -> nth i rem 0 = rem_after lots fs i /\ 0 <= nth i rem 0.

(** what is known about a fraction [f] emitted after the fractions [pfx] *)
Definition Good (pfx : list fraction) (f : fraction) : Prop :=
  0 < f_amt f /\
  exists e, In e evs /\ e_row e = f_ev f /\
    match f_lot f with
    | None => e_earn e = true
    | Some lr => e_earn e = false /\ exists i y m,
        (i < length lots)%nat /\ i_row (lotn lots i) = lr /\
        meth_for sched (e_year e) None = Some (y, m) /\
        lot_us lots i <= e_us e /\
        f_amt f <= rem_after lots pfx i /\
        (forall j, (j < length lots)%nat -> j <> i -> lot_us lots j <= e_us e ->
                   0 < rem_after lots pfx j ->
                   key_ltb (spec_rank lots m i) (spec_rank lots m j) = true)
    end.

Definition Hist (fs : list fraction) : Prop :=
  forall k f, nth_error fs k = Some f -> Good (firstn k fs) f.

Lemma Hist_nil : Hist [].
Proof. intros [|k] f H; discriminate. Qed.

Lemma Hist_snoc fs f : Hist fs -> Good fs f -> Hist (fs ++ [f]).
Proof.
  intros HH HG k g Hk. destruct (lt_dec k (length fs)) as [Hlt|Hge].
  - rewrite nth_error_app1 in Hk by exact Hlt. rewrite firstn_app.
    replace (k - length fs)%nat with 0%nat by lia. cbn [firstn]. rewrite app_nil_r. apply HH. exact Hk.
  - rewrite nth_error_app2 in Hk by lia.
    destruct (k - length fs)%nat as [|k'] eqn:Ek.
    + injection Hk as <-. rewrite firstn_app, Ek. cbn [firstn]. rewrite app_nil_r.
      rewrite firstn_all2 by lia. exact HG.
    + destruct k'; discriminate.
Qed.

Lemma rem_after_snoc_lot fs e i x j : (i < length lots)%nat -> (j < length lots)%nat ->
  rem_after lots (fs ++ [mk_frac lots e (Some i) x]) j =
  rem_after lots fs j - (if Nat.eqb j i then x else 0).
Proof.
  intros Hi Hj. unfold rem_after. rewrite lot_taken_app, lot_taken_single.
  unfold frac_of_lot, mk_frac. cbn [f_lot option_map f_amt].
  destruct (Nat.eqb_spec j i) as [->|Hne].
  - rewrite Z.eqb_refl. lia.
  - destruct (Z.eqb_spec (i_row (lotn lots i)) (i_row (lotn lots j))) as [E|_]; [|lia].
    exfalso. apply Hne. symmetry. apply (row_inj lots wf_rows); auto.
Qed.

Lemma rem_after_snoc_none fs e x j :
  rem_after lots (fs ++ [mk_frac lots e None x]) j = rem_after lots fs j.
Proof.
  unfold rem_after. rewrite lot_taken_app, lot_taken_single.
  unfold frac_of_lot, mk_frac. cbn [f_lot option_map]. lia.
Qed.

Lemma St_take fs rem e i x : St fs rem -> (i < length lots)%nat -> x <= nth i rem 0 ->
  St (fs ++ [mk_frac lots e (Some i) x]) (upd rem i (nth i rem 0 - x)).
Proof.
  intros [Hl Hs] Hi Hx. split; [rewrite upd_length; exact Hl|]. intros j Hj.
  rewrite rem_after_snoc_lot by assumption. destruct (Hs j Hj) as [Hj1 Hj2].
  destruct (Nat.eqb_spec j i) as [->|Hne].
  - rewrite nth_upd_same by lia. lia.
  - rewrite nth_upd_other by congruence. lia.
Qed.

Lemma St_none fs rem e x : St fs rem -> St (fs ++ [mk_frac lots e None x]) rem.
Proof.
  intros [Hl Hs]. split; [exact Hl|]. intros j Hj. rewrite rem_after_snoc_none. apply Hs. exact Hj.
Qed.

(** * consume *)
Lemma consume_spec e y m :
  In e evs -> e_earn e = false -> meth_for sched (e_year e) None = Some (y, m) ->
  forall fuel left rem out,
  St (rev out) rem -> Hist (rev out) -> 0 <= left ->
  (if left <=? 0 then 0 else cnt lots rem (e_us e)) < Z.of_nat fuel ->
  match consume lots fuel m e left rem out with
  | Ok (rem', out') =>
      exists new, out' = rev new ++ out /\ St (rev out') rem' /\ Hist (rev out') /\
        (forall f, In f new -> f_ev f = e_row e) /\
        sumZ (map f_amt new) = left /\
        (forall t, e_us e <= t -> asum lots rem' t = asum lots rem t - left)
  | Err x => x = EExhausted /\ asum lots rem (e_us e) < left
  end.
Proof.
  intros He Hearn Hm. induction fuel as [|fuel IH]; intros left rem out HSt HH Hleft Hfuel.
  - exfalso. assert (Hc := cnt_nonneg lots rem (e_us e)). destruct (left <=? 0); lia.
  - cbn [consume]. destruct (left <=? 0) eqn:El.
    + exists []. cbn [rev app map sumZ]. split; [reflexivity|]. split; [exact HSt|].
      split; [exact HH|]. split; [intros f []|]. split; [lia|]. intros t _. lia.
    + destruct (best lots m (e_us e) rem) as [i|] eqn:Eb.
      * apply (best_some lots wf_rows) in Eb. destruct Eb as (Hi & Hit & Hir & Hmin).
        set (x := Z.min left (nth i rem 0)).
        set (f := mk_frac lots e (Some i) x).
        assert (Hx1 : 0 < x) by (unfold x; lia).
        assert (Hx2 : x <= left) by (unfold x; lia).
        assert (Hx3 : x <= nth i rem 0) by (unfold x; lia).
        assert (Hlen : length rem = length lots) by apply HSt.
        assert (Hav : availb lots (e_us e) rem i = true) by (apply availb_true; auto).
        specialize (IH (left - x) (upd rem i (nth i rem 0 - x)) (f :: out)).
        cbn [rev] in IH.
        assert (HSt2 : St (rev out ++ [f]) (upd rem i (nth i rem 0 - x))) by (apply St_take; auto).
        assert (HH2 : Hist (rev out ++ [f])).
        { apply Hist_snoc; [exact HH|]. split; [exact Hx1|]. exists e. split; [exact He|].
          split; [reflexivity|]. unfold f, mk_frac. cbn [f_lot option_map f_amt].
          split; [exact Hearn|]. exists i, y, m. destruct HSt as [_ Hs].
          repeat split; auto.
          - rewrite <- (proj1 (Hs i Hi)). exact Hx3.
          - intros j Hj Hne Hjt Hjr. apply Hmin; auto. rewrite (proj1 (Hs j Hj)). exact Hjr. }
        assert (Hfuel2 : (if left - x <=? 0 then 0 else cnt lots (upd rem i (nth i rem 0 - x)) (e_us e))
                         < Z.of_nat fuel).
        { destruct (left - x <=? 0) eqn:E2.
          - assert (Hc := cnt_pos lots rem (e_us e) i Hi Hav). lia.
          - rewrite (cnt_upd_nonpos lots rem (e_us e) i) by (auto; lia). lia. }
        specialize (IH HSt2 HH2 ltac:(lia) Hfuel2).
        destruct (consume lots fuel m e (left - x) (upd rem i (nth i rem 0 - x)) (f :: out))
          as [[rem' out']|err].
        -- destruct IH as (new & Hout & HSt' & HH' & Hev & Hsum & Hasum).
           exists (f :: new). cbn [rev]. rewrite <- app_assoc. cbn [app].
           split; [exact Hout|]. split; [exact HSt'|]. split; [exact HH'|].
           split; [intros g [<-|Hg]; [reflexivity|apply Hev; exact Hg]|].
           split; [cbn [map sumZ]; rewrite Hsum; unfold f, mk_frac; cbn [f_amt]; lia|].
           intros t Ht. rewrite Hasum by exact Ht.
           rewrite (asum_upd lots rem t i) by (auto; lia). lia.
        -- destruct IH as [-> Hlt]. split; [reflexivity|].
           rewrite (asum_upd lots rem (e_us e) i) in Hlt by (auto; lia). lia.
      * split; [reflexivity|].
        assert (Hn := asum_nonpos lots rem (e_us e) (best_none lots m (e_us e) rem Eb)). lia.
Qed.

(** * the event loop *)
Definition dsum (l : list event) : Z := sumZ (map e_amt (filter (fun e => negb (e_earn e)) l)).

Lemma dsum_snoc l e : dsum (l ++ [e]) = dsum l + (if e_earn e then 0 else e_amt e).
Proof.
  unfold dsum. rewrite filter_app, map_app, sumZ_app. cbn [filter].
  destruct (e_earn e); cbn [negb map sumZ]; lia.
Qed.

Record Inv (pre : list event) (fs : list fraction) (rem : list Z) : Prop := {
  inv_st : St fs rem;
  inv_hist : Hist fs;
  inv_rows : forall f, In f fs -> In (f_ev f) (map e_row pre);
  inv_cov : forall e, In e pre -> ev_taken fs (e_row e) = e_amt e;
  inv_earn : forall e, In e pre -> e_earn e = true ->
             filter (frac_of_ev (e_row e)) fs = [mk_frac lots e None (e_amt e)];
  inv_sum : forall t, (forall e, In e pre -> e_us e <= t) -> asum lots rem t = have lots t - dsum pre }.

Lemma Inv_init : Inv [] [] (map i_crypto_in lots).
Proof.
  split.
  - split; [apply map_length|]. intros i Hi. rewrite nth_init. unfold rem_after, lot_taken.
    cbn [filter map sumZ]. assert (0 < i_crypto_in (lotn lots i)) by (apply WF; exact Hi). lia.
  - apply Hist_nil.
  - intros f [].
  - intros e [].
  - intros e [].
  - intros t _. rewrite asum_init. unfold dsum. cbn [filter map sumZ]. lia.
Qed.

Lemma split_row_fresh pre e suf : evs = pre ++ e :: suf -> ~ In (e_row e) (map e_row pre).
Proof.
  intros Hevs Hin. assert (Hnd : NoDup (map e_row evs)) by apply WF.
  rewrite Hevs, map_app in Hnd. cbn [map] in Hnd. apply NoDup_remove_2 in Hnd.
  apply Hnd. apply in_or_app. left. exact Hin.
Qed.

Lemma split_sorted pre e suf : evs = pre ++ e :: suf -> forall e', In e' pre -> e_us e' <= e_us e.
Proof.
  intros Hevs e' Hin. assert (Hs : evs_sorted evs) by apply WF.
  destruct (In_nth pre e' e Hin) as (i & Hi & Hnth).
  specialize (Hs i (length pre) e). rewrite Hevs in Hs.
  rewrite app_nth1 in Hs by exact Hi. rewrite nth_middle in Hs. rewrite Hnth in Hs. apply Hs.
  rewrite app_length. cbn [length]. lia.
Qed.

Lemma Inv_step pre e suf fs rem new rem' :
  evs = pre ++ e :: suf -> Inv pre fs rem ->
  St (fs ++ new) rem' -> Hist (fs ++ new) ->
  (forall f, In f new -> f_ev f = e_row e) ->
  sumZ (map f_amt new) = e_amt e ->
  (e_earn e = true -> new = [mk_frac lots e None (e_amt e)]) ->
  (forall t, e_us e <= t -> asum lots rem' t = asum lots rem t - (if e_earn e then 0 else e_amt e)) ->
  Inv (pre ++ [e]) (fs ++ new) rem'.
Proof.
  intros Hevs HI HSt HH Hev Hsum Hearn Hasum.
  assert (Hfresh := split_row_fresh pre e suf Hevs).
  assert (Hold : forall f, In f fs -> f_ev f <> e_row e).
  { intros f Hf E. apply Hfresh. rewrite <- E. apply (inv_rows _ _ _ HI). exact Hf. }
  assert (Hpre : forall e', In e' pre -> e_row e' <> e_row e).
  { intros e' He' E. apply Hfresh. rewrite <- E. apply in_map. exact He'. }
  split.
  - exact HSt.
  - exact HH.
  - intros f Hf. rewrite map_app. apply in_or_app. apply in_app_or in Hf. destruct Hf as [Hf|Hf].
    + left. apply (inv_rows _ _ _ HI). exact Hf.
    + right. rewrite (Hev f Hf). left. reflexivity.
  - intros e' He'. rewrite ev_taken_app. apply in_app_or in He'. destruct He' as [He'|[<-|[]]].
    + rewrite (inv_cov _ _ _ HI e' He'). unfold ev_taken at 1.
      rewrite (filter_ev_none (e_row e') new); [cbn [map sumZ]; lia|].
      intros f Hf. rewrite (Hev f Hf). intros E. apply (Hpre e' He'). symmetry. exact E.
    + unfold ev_taken. rewrite (filter_ev_none (e_row e) fs Hold), (filter_ev_all (e_row e) new Hev).
      cbn [map sumZ]. lia.
  - intros e' He' Hearn'. rewrite filter_app. apply in_app_or in He'. destruct He' as [He'|[<-|[]]].
    + rewrite (inv_earn _ _ _ HI e' He' Hearn').
      rewrite (filter_ev_none (e_row e') new); [reflexivity|].
      intros f Hf. rewrite (Hev f Hf). intros E. apply (Hpre e' He'). symmetry. exact E.
    + rewrite (filter_ev_none (e_row e) fs Hold), (filter_ev_all (e_row e) new Hev).
      cbn [app]. apply Hearn. exact Hearn'.
  - intros t Ht. rewrite dsum_snoc. rewrite Hasum.
    + rewrite (inv_sum _ _ _ HI t); [lia|]. intros e' He'. apply Ht. apply in_or_app. left. exact He'.
    + apply Ht. apply in_or_app. right. left. reflexivity.
Qed.

Lemma run_st_spec : forall suf pre rem out, evs = pre ++ suf -> Inv pre (rev out) rem ->
  match run_st suf rem out with
  | Ok (rem', out') =>
      Inv evs (rev out') rem' /\ (exists new, rev out' = rev out ++ new) /\
      (forall p e s, evs = p ++ e :: s -> (length pre <= length p)%nat -> e_earn e = false ->
                     dsum p + e_amt e <= have lots (e_us e))
  | Err x => x = EExhausted /\
      exists p e s, evs = p ++ e :: s /\ e_earn e = false /\ have lots (e_us e) < dsum p + e_amt e
  end.
Proof.
  induction suf as [|e r IH]; intros pre rem out Hevs HI; cbn [run_st].
  - rewrite app_nil_r in Hevs. subst pre. split; [exact HI|].
    split; [exists []; rewrite app_nil_r; reflexivity|].
    intros p e s Hp Hlen. exfalso. rewrite Hp in Hlen at 1. rewrite app_length in Hlen.
    cbn [length] in Hlen. lia.
  - assert (Hevs' : evs = (pre ++ [e]) ++ r) by (rewrite <- app_assoc; exact Hevs).
    assert (He : In e evs) by (rewrite Hevs; apply in_or_app; right; left; reflexivity).
    assert (Hsorted := split_sorted pre e r Hevs).
    assert (Hpos : 0 < e_amt e) by (apply WF; exact He).
    destruct (e_earn e) eqn:Ee.
    + set (f := mk_frac lots e None (e_amt e)).
      specialize (IH (pre ++ [e]) rem (f :: out) Hevs'). cbn [rev] in IH.
      assert (HI1 : Inv (pre ++ [e]) (rev out ++ [f]) rem).
      { apply (Inv_step pre e r (rev out) rem [f] rem); auto.
        - apply St_none. apply (inv_st _ _ _ HI).
        - apply Hist_snoc; [apply (inv_hist _ _ _ HI)|]. split; [exact Hpos|].
          exists e. split; [exact He|]. split; [reflexivity|]. exact Ee.
        - intros g [<-|[]]. reflexivity.
        - cbn [map sumZ f mk_frac f_amt]. lia.
        - intros t _. rewrite Ee. lia. }
      specialize (IH HI1).
      destruct (run_st r rem (f :: out)) as [[rem' out']|x]; [|exact IH].
      destruct IH as (HI' & (new & Hnew) & Hneed). split; [exact HI'|].
      split; [exists ([f] ++ new); rewrite Hnew, <- app_assoc; reflexivity|].
      intros p e0 s Hp Hlen He0. destruct (Nat.eq_dec (length p) (length pre)) as [El|Nl].
      * exfalso. destruct (app_eq_len p pre (e0 :: s) (e :: r) El) as [_ E]; [congruence|].
        injection E as -> _. congruence.
      * apply (Hneed p e0 s Hp); [|exact He0]. rewrite app_length. cbn [length]. lia.
    + destruct (meth_for sched (e_year e) None) as [[y m]|] eqn:Em.
      2:{ exfalso. eapply meth_for_some; [|exact Em]. right.
          assert (Hsc : sched_covers sched evs) by apply WF. exact (Hsc e He). }
      assert (HC := consume_spec e y m He Ee Em (S (length lots)) (e_amt e) rem out
                      (inv_st _ _ _ HI) (inv_hist _ _ _ HI) ltac:(lia)).
      assert (Hfuel : (if e_amt e <=? 0 then 0 else cnt lots rem (e_us e)) < Z.of_nat (S (length lots))).
      { assert (Hc := cnt_le lots rem (e_us e)). destruct (e_amt e <=? 0); lia. }
      specialize (HC Hfuel).
      destruct (consume lots (S (length lots)) m e (e_amt e) rem out) as [[rem1 out1]|x].
      * destruct HC as (new & -> & HSt & HH & Hev & Hsum & Hasum).
        rewrite rev_app_distr, rev_involutive in HSt, HH.
        specialize (IH (pre ++ [e]) rem1 (rev new ++ out) Hevs').
        rewrite rev_app_distr, rev_involutive in IH.
        assert (HI1 : Inv (pre ++ [e]) (rev out ++ new) rem1).
        { apply (Inv_step pre e r (rev out) rem new rem1); auto; try congruence.
          intros t Ht. rewrite Ee. apply Hasum. exact Ht. }
        specialize (IH HI1).
        destruct (run_st r rem1 (rev new ++ out)) as [[rem' out']|x]; [|exact IH].
        destruct IH as (HI' & (new' & Hnew) & Hneed). split; [exact HI'|].
        split; [exists (new ++ new'); rewrite Hnew, <- app_assoc; reflexivity|].
        intros p e0 s Hp Hlen He0. destruct (Nat.eq_dec (length p) (length pre)) as [El|Nl].
        -- destruct (app_eq_len p pre (e0 :: s) (e :: r) El) as [-> E]; [congruence|].
           injection E as -> _.
           assert (H1 := inv_sum _ _ _ HI (e_us e) Hsorted).
           assert (H2 := Hasum (e_us e) ltac:(lia)).
           assert (H3 : 0 <= asum lots rem1 (e_us e)).
           { apply asum_nonneg. intros i Hi. apply (proj2 HSt i Hi). }
           lia.
        -- apply (Hneed p e0 s Hp); [|exact He0]. rewrite app_length. cbn [length]. lia.
      * destruct HC as [-> Hlt]. split; [reflexivity|]. exists pre, e, r.
        split; [exact Hevs|]. split; [exact Ee|].
        rewrite (inv_sum _ _ _ HI (e_us e) Hsorted) in Hlt. lia.
Qed.

End Run.
