(** C11 (a): reading a rendered row through the header map returns the field's cell; junk columns
    and the column permutation are never observed. *)
From RP2V Require Import Base.Prelude Base.Time Base.Dec Base.Sorting Model.Types Model.Generated Model.Txn Model.Parser Model.Render.
Open Scope Z_scope.

Lemma str_eqb_refl s : str_eqb s s = true.
Proof. induction s as [|x s IH]; simpl; auto. rewrite Z.eqb_refl, IH. reflexivity. Qed.

Lemma str_eqb_eq a b : str_eqb a b = true -> a = b.
Proof.
  revert b; induction a as [|x a IH]; intros [|y b] H; simpl in H; try discriminate; auto.
  apply andb_true_iff in H. destruct H as [H1 H2]. apply Z.eqb_eq in H1. f_equal; auto.
Qed.

Lemma length_render_row h w fc junk : length (render_row h w fc junk) = w.
Proof. unfold render_row. rewrite map_length, seq_length. reflexivity. Qed.

Lemma nth_render_row h w fc junk c : (c < w)%nat ->
  nth c (render_row h w fc junk) CEmpty = match col_field (Z.of_nat c) h with Some f => fc f | None => junk c end.
Proof.
  intro H. unfold render_row.
  set (g := fun c0 : nat => match col_field (Z.of_nat c0) h with Some f => fc f | None => junk c0 end).
  rewrite (nth_indep _ CEmpty (g 0%nat)) by (rewrite map_length, seq_length; exact H).
  rewrite map_nth. rewrite seq_nth by exact H. reflexivity.
Qed.

Lemma lookup_col_In f h c : lookup_col f h = Some c -> In (f, c) h.
Proof.
  induction h as [|[f' c'] t IH]; simpl; [discriminate|].
  destruct (f =? f') eqn:E.
  - intro H. inversion H; subst. apply Z.eqb_eq in E. subst. left; reflexivity.
  - intro H. right. auto.
Qed.

Lemma col_field_of_In h f c : NoDup (map snd h) -> In (f, c) h -> col_field c h = Some f.
Proof.
  induction h as [|[f' c'] t IH]; simpl; intros ND HI; [contradiction|].
  inversion ND as [|x l Hnot ND']; subst.
  destruct (c =? c') eqn:E.
  - apply Z.eqb_eq in E. subst c'. destruct HI as [HI|HI].
    + inversion HI; reflexivity.
    + exfalso. apply Hnot. change c with (snd (f, c)). apply in_map. exact HI.
  - destruct HI as [HI|HI].
    + inversion HI; subst. rewrite Z.eqb_refl in E. discriminate.
    + auto.
Qed.

(** the argument the parser sees for field [f] of a rendered row *)
Definition args_of (h : list (Z * Z)) (fc : Z -> cell) (f : Z) : arg := if mapped h f then ACell (fc f) else ANone.

Lemma get_arg_render h w fc junk f : wf_header h w ->
  get_arg h (render_row h w fc junk) f = args_of h fc f.
Proof.
  intros [ND [RNG _]]. unfold get_arg, args_of, mapped.
  destruct (lookup_col f h) as [c|] eqn:L; [|reflexivity].
  pose proof (lookup_col_In _ _ _ L) as HI. destruct (RNG _ _ HI) as [c0 cw].
  rewrite nth_render_row by lia. rewrite Z2Nat.id by lia.
  rewrite (col_field_of_In _ _ _ ND HI). reflexivity.
Qed.

Lemma fold_max_ge l m : m <= fold_left (fun m0 (fc : Z * Z) => Z.max m0 (snd fc)) l m.
Proof. revert m; induction l as [|x l IH]; intro m; simpl; [lia|]. specialize (IH (Z.max m (snd x))). lia. Qed.

Lemma fold_max_lt l m W : m < W -> (forall f c, In (f, c) l -> c < W) ->
  fold_left (fun m0 (fc : Z * Z) => Z.max m0 (snd fc)) l m < W.
Proof.
  revert m; induction l as [|[f c] l IH]; intros m Hm H; simpl; [lia|].
  apply IH.
  - assert (c < W) by (apply (H f); left; reflexivity). lia.
  - intros f0 c0 HI. apply (H f0). right; exact HI.
Qed.

Lemma row_not_too_short h w fc junk : wf_header h w -> row_too_short h (render_row h w fc junk) = false.
Proof.
  intros [_ [RNG Hw]]. unfold row_too_short, max_col. rewrite length_render_row.
  apply Z.leb_gt. apply fold_max_lt; [lia|]. intros f c HI. apply (RNG f c HI).
Qed.

(** ---------- conversions of well-typed cells *)
Lemma ts_arg_str cfg s t : res_ts cfg s = Some t -> ts_arg cfg (ACell (CStr s)) = Ok t.
Proof. unfold res_ts, ts_arg. simpl. destruct (ts_lookup s (pc_ts cfg)); intro H; inversion H; reflexivity. Qed.

Lemma member_arg_str s l k : str_index s l 0 = Some k -> member_arg (ACell (CStr s)) l = Ok k.
Proof. unfold member_arg. simpl. intros ->. reflexivity. Qed.

Lemma ttype_arg_str s t : ttype_of_str s = Some t -> ttype_arg (ACell (CStr s)) = Ok t.
Proof. unfold ttype_arg. simpl. intros ->. reflexivity. Qed.

Lemma mandatory_num_cell q : den_ok q = true -> mandatory_num (ACell (num_cell q)) = Ok (conv q).
Proof.
  unfold den_ok, mandatory_num, num_cell, conv. simpl. intro H.
  apply Z.ltb_lt in H. destruct (snd q <=? 0) eqn:E; [apply Z.leb_le in E; lia|]. reflexivity.
Qed.

Lemma optional_num_args h f o fc : oden_ok o = true -> fc f = onum_cell o ->
  optional_num (args_of h fc f) = Ok (opt_field h f o).
Proof.
  unfold args_of, opt_field, optional_num. intros H E. destruct (mapped h f); [|reflexivity].
  rewrite E. destruct o as [q|]; simpl; [|reflexivity].
  unfold oden_ok, den_ok in H. apply Z.ltb_lt in H.
  destruct (snd q <=? 0) eqn:E2; [apply Z.leb_le in E2; lia|]. reflexivity.
Qed.

Lemma notes_ok_args h f c : notes_cell_ok c = true -> notes_ok (args_of h (fun _ => c) f) = true.
Proof. unfold args_of, notes_cell_ok. destruct (mapped h f); auto. Qed.
