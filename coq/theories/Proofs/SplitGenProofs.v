(** The table of the crypto-fee split that the translator reads from ods_parser._create_and_process_transaction on every
    run (Generated.v fragment `split`), interpreted by Model/SplitGen.v, IS the hand-written model of the split:
    [Parser.split_in], [Parser.fee_out], the guard [0 <? i_crypto_fee a] and the placement done by [Parser.data_row].

    The proofs compute on the generated table.  They hold for the table of the source as it is; an edit of the source
    function that changes the guard, a keyword argument of either constructor call, or a container changes the table, and
    this file stops compiling: a broken proof obligation of every property whose file states one of these lemmas
    (C03 C04 C05 C07 C11). *)
From RP2V Require Import Base.Prelude Base.Time Base.Dec Model.Types Model.Generated Model.Txn Model.Parser Model.SplitGen.
Open Scope Z_scope.

(** ** the two tables, fact by fact (these are the statements about parameters the model abstracts: configuration, asset,
    unique_id, notes -- and, for reference, about all the others) *)
Lemma split_in_table :
  gen_split_in_args =
  [(K_asset, SAttr A_asset); (K_configuration, SConfiguration); (K_crypto_fee, SNone); (K_crypto_in, SAttr A_crypto_in);
   (K_exchange, SAttr A_exchange); (K_fiat_fee, SAttr A_fiat_fee); (K_fiat_in_no_fee, SAttr A_fiat_in_no_fee);
   (K_fiat_in_with_fee, SAttr A_fiat_in_with_fee); (K_holder, SAttr A_holder); (K_notes, SNotes); (K_row, SInternalId);
   (K_spot_price, SAttr A_spot_price); (K_timestamp, STsStr); (K_transaction_type, STypeValue);
   (K_unique_id, SAttr A_unique_id)].
Proof. reflexivity. Qed.

Lemma split_fee_table :
  gen_split_fee_args =
  [(K_asset, SAttr A_asset); (K_configuration, SConfiguration); (K_crypto_fee, SAttr A_crypto_fee);
   (K_crypto_out_no_fee, SZero); (K_exchange, SAttr A_exchange); (K_holder, SAttr A_holder); (K_notes, SNotes);
   (K_row, SNewArtificialId); (K_spot_price, SAttr A_spot_price); (K_timestamp, STsStr);
   (K_transaction_type, SConstType FEE); (K_unique_id, SAttr A_unique_id)].
Proof. reflexivity. Qed.

Lemma split_dests :
  gen_split_in_dest = DSet DIn /\ gen_split_fee_dest = DArtificial /\ gen_split_else_dest = DSet DCurrent.
Proof. repeat split; reflexivity. Qed.

(** ** the interpretation agrees with the hand-written model *)
Lemma split_in_gen_agrees : forall a, split_in_gen a = split_in a.
Proof. intros a. reflexivity. Qed.

Lemma fee_out_gen_agrees : forall a r, fee_out_gen a r = fee_out a r.
Proof. intros a r. reflexivity. Qed.

(** InTransaction.is_crypto_fee_defined as translated is the test of [Parser.data_row] *)
Lemma fee_defined_agrees : forall a, gen_in_is_crypto_fee_defined a = (0 <? i_crypto_fee a).
Proof. intros a. unfold gen_in_is_crypto_fee_defined. rewrite ?Z.gtb_ltb. reflexivity. Qed.

Lemma split_guard_agrees :
  forall tx, ev_guard gen_split_guard tx = match tx with TIn a => 0 <? i_crypto_fee a | _ => false end.
Proof.
  intros [a | a | a]; cbn; try reflexivity.
  rewrite fee_defined_agrees. destruct (0 <? i_crypto_fee a); reflexivity.
Qed.

(** the whole of _create_and_process_transaction: [Parser.data_row] is the interpretation of the table *)
Lemma data_row_gen_agrees :
  forall cfg asset s t rowno row, data_row_gen cfg asset s t rowno row = data_row cfg asset s t rowno row.
Proof.
  intros cfg asset s t rowno row. destruct t; unfold data_row_gen, data_row; cbv zeta.
  - destruct (create_in cfg rowno row) as [r | e]; [cbn [bind] | reflexivity].
    destruct (mk_in r) as [a | e]; [cbn [bind] | reflexivity].
    destruct (negb (asset_is cfg (pc_in cfg) row asset)); [reflexivity |].
    unfold process_gen. rewrite split_guard_agrees, split_in_gen_agrees.
    destruct (0 <? i_crypto_fee a); [| reflexivity].
    destruct (split_in a) as [a' | e]; [cbn [bind] | reflexivity].
    rewrite fee_out_gen_agrees.
    destruct (fee_out a (ps_counter s - 1)) as [o | e] eqn:Ho; [cbn [bind] | reflexivity].
    assert (Hrow : o_row o = ps_counter s - 1).
    { unfold fee_out, mk_out in Ho. cbn [ro_row ro_spot ro_crypto_out_no_fee ro_crypto_fee ro_type ro_crypto_out_with_fee
                                         ro_fiat_out_no_fee ro_fiat_fee] in Ho.
      repeat match type of Ho with
             | (if ?c then _ else _) = _ => destruct c; [discriminate |]
             | (match ?c with _ => _ end) = _ => destruct c; try discriminate
             end.
      injection Ho as <-. reflexivity. }
    cbn. rewrite Hrow. reflexivity.
  - destruct (create_out cfg rowno row) as [r | e]; [cbn [bind] | reflexivity].
    destruct (mk_out r) as [a | e]; [cbn [bind] | reflexivity].
    destruct (negb (asset_is cfg (pc_out cfg) row asset)); reflexivity.
  - destruct (create_intra cfg rowno row) as [r | e]; [cbn [bind] | reflexivity].
    destruct (mk_intra r) as [a | e]; [cbn [bind] | reflexivity].
    destruct (negb (asset_is cfg (pc_intra cfg) row asset)); reflexivity.
Qed.

(** both derived transactions at once (what C05 needs: both carry the instant of the row, sub-second part included) *)
Lemma split_pair_agrees : forall a r, split_in_gen a = split_in a /\ fee_out_gen a r = fee_out a r.
Proof. intros a r. split; [apply split_in_gen_agrees | apply fee_out_gen_agrees]. Qed.

(** ** non-vacuity: the generated functions really split (a purchase of 1 unit at 100 with a crypto fee of 0.01) *)
Definition ex_split_in : intx :=
  {| i_row := 7; i_ts := {| utc_us := 1600000000123456; off_s := 3600 |}; i_exch := 0; i_holder := 1; i_type := BUY;
     i_spot := 10000000000000; i_crypto_in := 100000000000; i_crypto_fee := 1000000000;
     i_fiat_in_no_fee := (100, 0); i_fiat_in_with_fee := (101, 0); i_fiat_fee := (1, 0) |}.

Example split_in_gen_example :
  exists a', split_in_gen ex_split_in = Ok a' /\ i_crypto_fee a' = 0 /\ i_row a' = 7 /\ i_ts a' = i_ts ex_split_in /\
             i_fiat_in_with_fee a' = (101, 0).
Proof. eexists. split; [vm_compute; reflexivity | repeat split]. Qed.

Example fee_out_gen_example :
  exists o, fee_out_gen ex_split_in (-1) = Ok o /\ o_row o = -1 /\ o_type o = FEE /\ o_crypto_fee o = 1000000000 /\
            o_ts o = i_ts ex_split_in.
Proof. eexists. split; [vm_compute; reflexivity | repeat split]. Qed.

Example split_guard_example :
  ev_guard gen_split_guard (TIn ex_split_in) = true.
Proof. reflexivity. Qed.
