(** The Legend sheet of tax_report_jp.ods (Model/JpLegend.v): it is the first sheet of the file; it states the method string
    of the schedule and the date filters actually passed (the last write to each of the three cells -- they overwrite texts of
    the shipped template); every write lies inside the template's legend sheet (finite fact per generation language). *)
From Coq Require Import List ZArith Bool Lia.
From RP2V Require Import Base.Prelude Base.Time Base.Dec Base.Sorting Base.Assoc Model.Types Model.Generated Model.Txn
  Model.Pipeline Model.Computed Model.Grid Model.ReportInput Model.TaxReport Model.JpReport Model.JpLegend.
From RP2V Require Import Proofs.AssocProofs Proofs.FullReportLayout Proofs.JpProofs Proofs.JpRefuted.
Import ListNotations.
Open Scope Z_scope.

(** structural fact of the shared [_initialize_output_file], read from the source: a one-entry schedule is printed by value
    (repair of finding F10); on a tree that looks it up under 1970 this file does not compile *)
Lemma code_single_by_value : gen_ods_single_method_by_value = true.
Proof. reflexivity. Qed.

Lemma jp_legend_method_by_value sched : exists m, legend_method true sched = Ok m /\
  (forall y me, sched = [(y, me)] -> m = meth_upper me) /\
  ((length sched <> 1)%nat -> m = join_comma (sched_parts 1970 sched)).
Proof.
  destruct sched as [|[y me] [|p t]].
  - eexists. split; [reflexivity|]. split; [intros; discriminate|reflexivity].
  - exists (meth_upper me). split; [reflexivity|]. split; [intros y' m' E; inversion E; reflexivity|intro X; exfalso; apply X; reflexivity].
  - eexists. split; [reflexivity|]. split; [intros; discriminate|reflexivity].
Qed.

(** ---------- finite facts about the template's legend sheet, for every generation language *)
Definition cell_in (rows cols : Z) (rc : Z * Z) : bool := (0 <=? fst rc) && (fst rc <? rows) && (0 <=? snd rc) && (snd rc <? cols).
Definition cell_is (r c : Z) (rc : Z * Z) : bool := (fst rc =? r) && (snd rc =? c).
Definition jp_legend_fits (lang : Z) : bool :=
  forallb (cell_in (gen_jp_legend_rows lang) (gen_jp_legend_cols lang)) (gen_jp_legend_cells lang) && (gen_jp_legend_cols lang <=? 1024) &&
  match gen_jp_legend_method_row lang with
  | Some r => (0 <=? r) && (r + 2 <? gen_jp_legend_rows lang) && (1 <? gen_jp_legend_cols lang) && existsb (cell_is r 0) (gen_jp_legend_cells lang)
  | None => false
  end.

Ltac by_language lang :=
  repeat match goal with |- context [lang =? ?k] => destruct (lang =? k) end.

Lemma jp_legend_fits_all lang : jp_legend_fits lang = true.
Proof.
  unfold jp_legend_fits, gen_jp_legend_rows, gen_jp_legend_cols, gen_jp_legend_cells, gen_jp_legend_method_row.
  by_language lang; vm_compute; reflexivity.
Qed.
Lemma jp_legend_method_row_defined lang : exists r, gen_jp_legend_method_row lang = Some r.
Proof. unfold gen_jp_legend_method_row. by_language lang; eexists; reflexivity. Qed.

(** ---------- the sheet *)
Lemma jp_legend_spec lang i s : jp_legend lang i = Ok s ->
  exists r m, gen_jp_legend_method_row lang = Some r /\ legend_method gen_ods_single_method_by_value (rp_sched i) = Ok m /\
    s = {| sw_name := gen_jp_legend_name lang; sw_rows := gen_jp_legend_rows lang; sw_cols := gen_jp_legend_cols lang;
           sw_writes := jp_legend_labels lang ++ jp_legend_cells3 r m i |}.
Proof.
  unfold jp_legend, jp_legend_writes. destruct (gen_jp_legend_method_row lang) as [r|]; [|discriminate].
  destruct (legend_method gen_ods_single_method_by_value (rp_sched i)) as [m|]; [|discriminate].
  intro H. inversion H. exists r, m. repeat split.
Qed.

Theorem jp_legend_total lang i : exists s, jp_legend lang i = Ok s.
Proof.
  unfold jp_legend, jp_legend_writes. destruct (jp_legend_method_row_defined lang) as (r & ->).
  rewrite code_single_by_value. destruct (jp_legend_method_by_value (rp_sched i)) as (m & -> & _). eexists. reflexivity.
Qed.

(** the last write to a cell decides its final content *)
Lemma cell_at_last ws r c pre w : 0 <= c < 1024 -> Forall (fun w => 0 <= cw_col w < 1024) ws ->
  writes_at ws r c = pre ++ [w] -> cell_at ws r c = cw_val w.
Proof.
  intros Hc Hall H. unfold cell_at, aget_d, final_cells. rewrite (final_cells_get ws [] r c Hc Hall), H, rev_app_distr. reflexivity.
Qed.

Lemma labels_writes_at lang r c : Forall (fun w => cw_val w = PLabel) (writes_at (jp_legend_labels lang) r c).
Proof.
  unfold writes_at, jp_legend_labels. apply Forall_forall. intros w Hw. apply filter_In in Hw as [Hw _].
  apply in_map_iff in Hw as (rc & <- & _). reflexivity.
Qed.

Lemma cells3_at r m i :
  writes_at (jp_legend_cells3 r m i) r 1 = [cw r 1 (PStr m)] /\
  writes_at (jp_legend_cells3 r m i) (r + 1) 1 = [cw (r + 1) 1 (day_cell MIN_DAY (rp_from i))] /\
  writes_at (jp_legend_cells3 r m i) (r + 2) 1 = [cw (r + 2) 1 (day_cell MAX_DAY (rp_to i))] /\
  writes_at (jp_legend_cells3 r m i) r 0 = [].
Proof.
  unfold writes_at, jp_legend_cells3, at_cell. cbn [filter cw cw_row cw_col]. rewrite !Z.eqb_refl. cbn [andb].
  replace (r + 1 =? r) with false by (symmetry; apply Z.eqb_neq; lia). replace (r + 2 =? r) with false by (symmetry; apply Z.eqb_neq; lia).
  replace (r =? r + 1) with false by (symmetry; apply Z.eqb_neq; lia). replace (r + 2 =? r + 1) with false by (symmetry; apply Z.eqb_neq; lia).
  replace (r =? r + 2) with false by (symmetry; apply Z.eqb_neq; lia). replace (r + 1 =? r + 2) with false by (symmetry; apply Z.eqb_neq; lia).
  cbn [andb]. repeat split.
Qed.

(** what the legend of a run holds, and that it fits *)
Theorem jp_legend_facts lang i s : jp_legend lang i = Ok s ->
  exists r m, gen_jp_legend_method_row lang = Some r /\ legend_method true (rp_sched i) = Ok m /\
    sw_name s = gen_jp_legend_name lang /\ sw_rows s = gen_jp_legend_rows lang /\ sw_cols s = gen_jp_legend_cols lang /\
    sw_writes s = jp_legend_labels lang ++ [cw r 1 (PStr m); cw (r + 1) 1 (day_cell MIN_DAY (rp_from i)); cw (r + 2) 1 (day_cell MAX_DAY (rp_to i))] /\
    sheet_ok s = true /\
    cell_at (sw_writes s) r 1 = PStr m /\
    cell_at (sw_writes s) (r + 1) 1 = (if rp_from i =? MIN_DAY then PStr s_nonspec else PDay (rp_from i)) /\
    cell_at (sw_writes s) (r + 2) 1 = (if rp_to i =? MAX_DAY then PStr s_nonspec else PDay (rp_to i)) /\
    cell_at (sw_writes s) r 0 = PLabel.
Proof.
  intro H. destruct (jp_legend_spec lang i s H) as (r & m & Hr & Hm & ->). rewrite code_single_by_value in Hm.
  exists r, m. split; [exact Hr|]. split; [exact Hm|]. cbn [sw_name sw_rows sw_cols sw_writes].
  split; [reflexivity|]. split; [reflexivity|]. split; [reflexivity|]. split; [reflexivity|].
  pose proof (jp_legend_fits_all lang) as F. unfold jp_legend_fits in F. rewrite Hr in F.
  apply andb_true_iff in F as [F F3]. apply andb_true_iff in F as [F1 F2].
  apply andb_true_iff in F3 as [F3 F7]. apply andb_true_iff in F3 as [F3 F6]. apply andb_true_iff in F3 as [F4 F5].
  apply Z.leb_le in F2, F4. apply Z.ltb_lt in F5, F6.
  assert (Hlab : forall w, In w (jp_legend_labels lang) ->
            0 <= cw_row w < gen_jp_legend_rows lang /\ 0 <= cw_col w < gen_jp_legend_cols lang).
  { intros w Hw. unfold jp_legend_labels in Hw. apply in_map_iff in Hw as (rc & <- & Hrc). cbn [cw cw_row cw_col].
    rewrite forallb_forall in F1. specialize (F1 rc Hrc). unfold cell_in in F1.
    apply andb_true_iff in F1 as [F1 C4]. apply andb_true_iff in F1 as [F1 C3]. apply andb_true_iff in F1 as [C1 C2].
    apply Z.leb_le in C1, C3. apply Z.ltb_lt in C2, C4. lia. }
  assert (Hbox : box 0 (gen_jp_legend_rows lang) 0 (gen_jp_legend_cols lang) (jp_legend_labels lang ++ jp_legend_cells3 r m i)).
  { unfold box. apply Forall_app. split; [apply Forall_forall; exact Hlab|].
    unfold jp_legend_cells3. repeat constructor; cbn [cw cw_row cw_col]; lia. }
  assert (Hcols : Forall (fun w => 0 <= cw_col w < 1024) (jp_legend_labels lang ++ jp_legend_cells3 r m i)).
  { eapply Forall_impl; [|exact Hbox]. cbv beta. intros w Hw. lia. }
  destruct (cells3_at r m i) as (E0 & E1 & E2 & E3). unfold day_cell in *.
  assert (C1 : 0 <= 1 < 1024) by lia. assert (C0 : 0 <= 0 < 1024) by lia.
  split; [|split; [|split; [|split]]].
  - apply box_sheet_ok. exact Hbox.
  - apply (cell_at_last _ r 1 (writes_at (jp_legend_labels lang) r 1) (cw r 1 (PStr m)) C1 Hcols). rewrite writes_at_app, E0. reflexivity.
  - apply (cell_at_last _ (r + 1) 1 (writes_at (jp_legend_labels lang) (r + 1) 1) (cw (r + 1) 1 (if rp_from i =? MIN_DAY then PStr s_nonspec else PDay (rp_from i))) C1 Hcols). rewrite writes_at_app, E1. reflexivity.
  - apply (cell_at_last _ (r + 2) 1 (writes_at (jp_legend_labels lang) (r + 2) 1) (cw (r + 2) 1 (if rp_to i =? MAX_DAY then PStr s_nonspec else PDay (rp_to i))) C1 Hcols). rewrite writes_at_app, E2. reflexivity.
  - assert (Hne : writes_at (jp_legend_labels lang) r 0 <> []).
    { apply existsb_exists in F7 as (rc & Hrc & Erc). intro X.
      assert (Hin : In (cw (fst rc) (snd rc) PLabel) (writes_at (jp_legend_labels lang) r 0)).
      { unfold writes_at. apply filter_In. split; [unfold jp_legend_labels; apply in_map_iff; exists rc; split; [reflexivity|exact Hrc]|].
        unfold at_cell. cbn [cw cw_row cw_col]. exact Erc. }
      rewrite X in Hin. destruct Hin. }
    destruct (exists_last Hne) as (pre & w & Ew).
    rewrite (cell_at_last _ r 0 pre w C0 Hcols) by (rewrite writes_at_app, E3, app_nil_r; exact Ew).
    pose proof (labels_writes_at lang r 0) as L. rewrite Ew in L. apply Forall_app in L as [_ L]. inversion L; assumption.
Qed.

(** ---------- the whole file: Legend first, then the sheets of [jp_report] *)
Theorem jp_report_full_iff lang yg ys pe i out :
  jp_report_full lang yg ys pe i = Ok out <->
  exists lg r, jp_legend lang i = Ok lg /\ jp_report lang yg ys pe i = Ok r /\ out = lg :: r.
Proof.
  unfold jp_report_full. split.
  - destruct (computed_all i (rp_assets i)) as [l|]; [|discriminate].
    destruct (negb (rp_from i =? MIN_DAY) && negb (rp_to i =? MAX_DAY)); [discriminate|].
    destruct (jp_legend lang i) as [lg|]; [|discriminate].
    destruct (jp_report lang yg ys pe i) as [r|]; [|discriminate]. intro H. inversion H. exists lg, r. repeat split.
  - intros (lg & r & Hl & Hr & ->). rewrite Hl, Hr. unfold jp_report in Hr.
    destruct (computed_all i (rp_assets i)) as [l|]; [|discriminate].
    destruct (negb (rp_from i =? MIN_DAY) && negb (rp_to i =? MAX_DAY)); [discriminate|]. reflexivity.
Qed.

(** the file is produced whenever the report of C20_report_produced is, and every one of its sheets passes [sheet_ok] *)
Theorem jp_report_full_total lang i l :
  computed_all i (rp_assets i) = Ok l -> (rp_from i = MIN_DAY \/ rp_to i = MAX_DAY) ->
  exists lg r, jp_report_full lang gen_jp_intra_yen_guard_on_crypto gen_jp_years_sorted gen_jp_prev_existing_year i = Ok (lg :: r) /\
    jp_legend lang i = Ok lg /\
    jp_report lang gen_jp_intra_yen_guard_on_crypto gen_jp_years_sorted gen_jp_prev_existing_year i = Ok r.
Proof.
  intros HC Hw. destruct (jp_report_total lang gen_jp_years_sorted gen_jp_prev_existing_year i l HC Hw) as (r & Hr).
  destruct (jp_legend_total lang i) as (lg & Hl). exists lg, r. split; [|split; assumption].
  apply jp_report_full_iff. exists lg, r. repeat split; assumption.
Qed.

Theorem jp_report_full_sheets_ok lang yg ys pe i out : jp_report_full lang yg ys pe i = Ok out -> forall s, In s out -> sheet_ok s = true.
Proof.
  intros H s Hs. apply jp_report_full_iff in H as (lg & r & Hl & Hr & ->). destruct Hs as [<-|Hs].
  - destruct (jp_legend_facts lang i lg Hl) as (r0 & m & _ & _ & _ & _ & _ & _ & Hok & _). exact Hok.
  - destruct (jp_report_shape lang yg ys pe i r Hr) as (l & _ & _ & _ & E). cbv zeta in E. rewrite E in Hs.
    exact (report_sheets_ok lang yg (rp_exchanges i) _ s Hs).
Qed.

(** ---------- non-vacuity: the gap-year input of JpRefuted.v (BTC bought 2019, 2021) with the schedule [2019: HIFO] (one entry, not
    keyed 1970) and the from-date 2019-01-01: the first sheet is the Legend, it says HIFO / 2019-01-01 / non-specified *)
Definition ex_legend_input : rinput :=
  {| rp_country := rp_country gap_input; rp_period := rp_period gap_input; rp_from := 17897; rp_to := MAX_DAY; rp_allow := rp_allow gap_input;
     rp_exchanges := rp_exchanges gap_input; rp_holders := rp_holders gap_input; rp_sched := [(2019, Hifo)]; rp_assets := rp_assets gap_input |}.

Example jp_legend_example : exists lg r,
  jp_report_full 0 gen_jp_intra_yen_guard_on_crypto gen_jp_years_sorted gen_jp_prev_existing_year ex_legend_input = Ok (lg :: r) /\
  sw_name lg = gen_jp_legend_name 0 /\ (length r = 4)%nat /\ sheet_ok lg = true /\
  exists row, gen_jp_legend_method_row 0 = Some row /\
    cell_at (sw_writes lg) row 1 = PStr (meth_upper Hifo) /\ cell_at (sw_writes lg) (row + 1) 1 = PDay 17897 /\
    cell_at (sw_writes lg) (row + 2) 1 = PStr s_nonspec /\ cell_at (sw_writes lg) row 0 = PLabel.
Proof.
  eexists. eexists. split; [vm_compute; reflexivity|]. split; [reflexivity|]. split; [reflexivity|]. split; [vm_compute; reflexivity|].
  eexists. split; [reflexivity|]. vm_compute. repeat split.
Qed.
