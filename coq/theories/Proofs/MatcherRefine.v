(** The faithful matcher model (heap with duplicate entries and unconditional
    re-push, from/to indices, shared partial-amount cache, lot in flight) computes
    exactly the greedy specification on well-formed inputs. *)
From Coq Require Import List ZArith Lia Bool ZifyBool.
From RP2V Require Import Base.Prelude Base.Time Base.Dec Model.Types Model.Generated
  Model.Matcher Model.MatchSpec Model.MatchWf.
From RP2V Require Import Proofs.KeyOrder Proofs.ModelLemmas.
Open Scope Z_scope.

(** The facts about Generated.v this development depends on (proved in
    Proofs/KeyOrder.v by [reflexivity]; restated here so that the dependency is
    visible in the main file and re-checked whenever Generated.v is regenerated). *)
Lemma gen_kind_Fifo : meth_kind Fifo = Chrono true. Proof. reflexivity. Qed.
Lemma gen_kind_Lifo : meth_kind Lifo = Feature. Proof. reflexivity. Qed.
Lemma gen_kind_Hifo : meth_kind Hifo = Feature. Proof. reflexivity. Qed.
Lemma gen_kind_Lofo : meth_kind Lofo = Feature. Proof. reflexivity. Qed.
Lemma gen_key_Lifo : forall l, meth_sort_key Lifo l = (0, - utc_us (i_ts l), - i_row l).
Proof. reflexivity. Qed.
Lemma gen_key_Hifo : forall l, meth_sort_key Hifo l = (- i_spot l, utc_us (i_ts l), i_row l).
Proof. reflexivity. Qed.
Lemma gen_key_Lofo : forall l, meth_sort_key Lofo l = (i_spot l, utc_us (i_ts l), i_row l).
Proof. reflexivity. Qed.

Section Refine.
Variable lots : list intx.
Variable sched : list (Z * meth).
Hypothesis Hsorted : lots_sorted lots.
Hypothesis Hrows : lots_distinct_rows lots.
Hypothesis Hpos : lots_positive lots.
Hypothesis Hne : lots_nonempty lots.

Local Notation n := (length lots).

Lemma n_pos : (0 < n)%nat.
Proof. destruct lots; [exfalso; apply Hne; reflexivity|cbn [length]; lia]. Qed.

(** * Invariants *)

(** what the partial-amount cache must answer for lot [j] given the spec's [rem] *)
Definition availr (rem : list Z) (j : nat) : option Z :=
  if nth j rem 0 >? 0 then Some (nth j rem 0) else None.

(** cache vs [rem]; [fl] is the lot in flight (its entry is [Some 0]) *)
Definition pinv (p : list (option Z)) (rem : list Z) (fl : option nat) : Prop :=
  length p = n /\ length rem = n /\
  forall j, (j < n)%nat ->
    (fl = Some j -> nth j p None = Some 0) /\
    (fl <> Some j -> avail lots p j = availr rem j).

Definition cinv (rem : list Z) (t : Z) (c : cand) : Prop :=
  (c_meth c = Fifo -> forall j, (j < c_from c)%nat -> (j < n)%nat -> nth j rem 0 <= 0) /\
  (c_meth c <> Fifo ->
     (forall j, In j (c_heap c) -> (j < n)%nat /\ lot_us lots j <= t) /\
     (forall j, (j < c_to c)%nat -> (j < n)%nat -> 0 < nth j rem 0 -> In j (c_heap c))).

Definition cands_ok (cs : list cand) (rem : list Z) (t : Z) : Prop :=
  map cproj cs = sched /\ Forall (cinv rem t) cs.

(** lots acquired after the current instant are untouched *)
Definition future_pos (rem : list Z) (t : Z) : Prop :=
  forall j, (j < n)%nat -> t < lot_us lots j -> 0 < nth j rem 0.

Definition le_pos (rem' rem : list Z) : Prop :=
  forall j, (j < n)%nat -> 0 < nth j rem' 0 -> 0 < nth j rem 0.

Lemma le_pos_refl rem : le_pos rem rem.
Proof. intros j _ H; exact H. Qed.

Lemma le_pos_upd rem li x : (li < length rem)%nat -> (0 < x -> 0 < nth li rem 0) -> le_pos (upd rem li x) rem.
Proof.
  intros Hli Hx j Hj H. destruct (Nat.eq_dec li j) as [->|Hneq].
  - rewrite nth_upd_same in H by auto. auto.
  - rewrite nth_upd_other in H by auto. auto.
Qed.

Lemma ge_pos_upd rem li x : (li < length rem)%nat -> 0 < x -> le_pos rem (upd rem li x).
Proof.
  intros Hli Hx j Hj H. destruct (Nat.eq_dec li j) as [->|Hneq].
  - rewrite nth_upd_same by auto. auto.
  - rewrite nth_upd_other by auto. auto.
Qed.

Lemma cinv_mono rem rem' t t' c : le_pos rem' rem -> t <= t' -> cinv rem t c -> cinv rem' t' c.
Proof.
  intros Hle Ht [HF HH]. split.
  - intros Hm j Hj Hjn. specialize (HF Hm j Hj Hjn).
    destruct (Z_lt_le_dec 0 (nth j rem' 0)) as [H|H]; auto. apply Hle in H; auto. lia.
  - intros Hm. destruct (HH Hm) as [H1 H2]. split.
    + intros j Hj. destruct (H1 j Hj). split; auto. lia.
    + intros j Hj Hjn Hp. apply H2; auto.
Qed.

Lemma cands_ok_mono cs rem rem' t t' : le_pos rem' rem -> t <= t' -> cands_ok cs rem t -> cands_ok cs rem' t'.
Proof.
  intros Hle Ht [Hm HF]. split; auto. eapply Forall_impl; [|exact HF].
  intros c Hc. eapply cinv_mono; eauto.
Qed.

Lemma future_pos_mono rem t t' : t <= t' -> future_pos rem t -> future_pos rem t'.
Proof. intros Ht H j Hj Hlt. apply H; auto. lia. Qed.

Lemma future_pos_upd rem t li x : (li < length rem)%nat -> (0 < x \/ lot_us lots li <= t) ->
  future_pos rem t -> future_pos (upd rem li x) t.
Proof.
  intros Hli Hx H j Hj Hlt. destruct (Nat.eq_dec li j) as [->|Hneq].
  - rewrite nth_upd_same by auto. lia.
  - rewrite nth_upd_other by auto. auto.
Qed.

(** ** cache lemmas *)
Lemma avail_upd_other p i x j : i <> j -> avail lots (upd p i x) j = avail lots p j.
Proof. intros H. unfold avail. rewrite nth_upd_other by auto. reflexivity. Qed.

Lemma availr_upd_other rem i x j : i <> j -> availr (upd rem i x) j = availr rem j.
Proof. intros H. unfold availr. rewrite nth_upd_other by auto. reflexivity. Qed.

Lemma pinv_avail p rem j : pinv p rem None -> (j < n)%nat -> avail lots p j = availr rem j.
Proof. intros (_ & _ & H) Hj. apply (H j Hj). discriminate. Qed.

Lemma availr_some rem j a : availr rem j = Some a -> a = nth j rem 0 /\ 0 < a.
Proof. unfold availr. destruct (nth j rem 0 >? 0) eqn:E; intros H; inversion H. lia. Qed.

Lemma availr_none rem j : availr rem j = None -> nth j rem 0 <= 0.
Proof. unfold availr. destruct (nth j rem 0 >? 0) eqn:E; intros H; inversion H. lia. Qed.

Lemma availr_pos rem j : 0 < nth j rem 0 -> availr rem j = Some (nth j rem 0).
Proof. unfold availr. intros H. destruct (nth j rem 0 >? 0) eqn:E; auto. lia. Qed.

Lemma pinv_select p rem i : pinv p rem None -> (i < n)%nat -> pinv (upd p i (Some 0)) rem (Some i).
Proof.
  intros (Lp & Lr & H) Hi. split; [rewrite upd_length; auto|]. split; auto.
  intros j Hj. split.
  - intros E. inversion E; subst j. apply nth_upd_same. lia.
  - intros E. assert (i <> j) by congruence. rewrite avail_upd_other by auto. apply H; auto. discriminate.
Qed.

Lemma pinv_exhaust p rem li x : pinv p rem (Some li) -> (li < n)%nat -> x <= 0 -> pinv p (upd rem li x) None.
Proof.
  intros (Lp & Lr & H) Hli Hx. split; auto. split; [rewrite upd_length; auto|].
  intros j Hj. split; [discriminate|]. intros _.
  destruct (Nat.eq_dec li j) as [->|Hneq].
  - destruct (H j Hj) as [H1 _]. unfold avail, availr. rewrite H1 by auto.
    rewrite nth_upd_same by lia. replace (0 >? 0) with false by lia. replace (x >? 0) with false by lia. reflexivity.
  - rewrite availr_upd_other by auto. apply H; auto. congruence.
Qed.

Lemma pinv_restore p rem li x : pinv p rem (Some li) -> (li < n)%nat -> 0 < x ->
  pinv (upd p li (Some x)) (upd rem li x) None.
Proof.
  intros (Lp & Lr & H) Hli Hx. split; [rewrite upd_length; auto|]. split; [rewrite upd_length; auto|].
  intros j Hj. split; [discriminate|]. intros _.
  destruct (Nat.eq_dec li j) as [->|Hneq].
  - unfold avail, availr. rewrite !nth_upd_same by lia. replace (x >? 0) with true by lia. reflexivity.
  - rewrite availr_upd_other, avail_upd_other by auto. apply H; auto. congruence.
Qed.

Lemma pinv_keep p rem li x : pinv p rem (Some li) -> pinv p (upd rem li x) (Some li).
Proof.
  intros (Lp & Lr & H). split; auto. split; [rewrite upd_length; auto|].
  intros j Hj. split.
  - apply H; auto.
  - intros E. assert (li <> j) by congruence. rewrite availr_upd_other by auto. apply H; auto.
Qed.

(** * lot_for_event on a settled state selects THE best lot *)
Lemma meth_dec (m : meth) : m = Fifo \/ m <> Fifo.
Proof. destruct m; auto; right; discriminate. Qed.

Lemma cands_ok_upd cs rem t k c' :
  cands_ok cs rem t -> (k < length cs)%nat -> cproj c' = cproj (nth k cs dummy_cand) -> cinv rem t c' ->
  cands_ok (upd cs k c') rem t.
Proof.
  intros [Hm HF] Hk Hc Hi. split.
  - rewrite map_upd, Hc. rewrite <- Hm. apply upd_same_val with (d := cproj dummy_cand). apply map_nth.
  - apply Forall_upd; auto.
Qed.

Lemma lfe_core p cs rem t e ea la y m :
  pinv p rem None -> cands_ok cs rem t -> t <= e_us e ->
  meth_for sched (e_year e) None = Some (y, m) ->
  (lot_for_event true lots {| partial := p; cands := cs |} e ea la = Err EExhausted /\
   forall j, ~ okl lots (e_us e) rem j)
  \/
  (exists s' i, lot_for_event true lots {| partial := p; cands := cs |} e ea la = Ok (s', i, ea - la, nth i rem 0) /\
     is_best lots m (e_us e) rem i /\ pinv (partial s') rem (Some i) /\ cands_ok (cands s') rem (e_us e)).
Proof.
  intros Hp Hcs Ht Hmeth.
  assert (Hcs' : cands_ok cs rem (e_us e)) by (eapply cands_ok_mono; eauto using le_pos_refl).
  clear Hcs Ht. destruct Hcs' as [Hmap HF].
  unfold lot_for_event. cbn [partial cands].
  pose proof (to_index_spec lots Hsorted (e_us e)) as Hti.
  destruct (to_index lots (e_us e)) as [ti|].
  2:{ left. split; auto. intros j (A & B & C). specialize (Hti j A). lia. }
  destruct Hti as (Hti1 & Hti2 & Hti3).
  pose proof (find_cand_ok cs sched (e_year e) Hmap) as Hfc. rewrite Hmeth in Hfc.
  destruct (find_cand cs (e_year e) 0 None) as [[k yk]|]; cbn [cand_rel] in Hfc; [|contradiction].
  destruct Hfc as (-> & Hk & Hyear & Hm).
  cbv zeta.
  assert (Hck : cinv rem (e_us e) (nth k cs dummy_cand)).
  { rewrite Forall_forall in HF. apply HF. apply nth_In; auto. }
  remember (nth k cs dummy_cand) as c eqn:Hc.
  rewrite Hm.
  assert (Hokti : forall j, okl lots (e_us e) rem j -> (j <= ti)%nat).
  { intros j (A & B & C). apply Hti3; auto. }
  destruct (meth_dec m) as [HmF|HmF].
  - (* FIFO: chronological scan *)
    rewrite HmF in *. clear HmF. rewrite meth_kind_Fifo. cbv beta iota.
    destruct Hck as [HckF _]. specialize (HckF Hm).
    pose proof (seek_up_spec lots p ti (S n) (c_from c) O ltac:(lia)) as Hs.
    destruct (seek_up lots (S n) p (c_from c) ti 0) as [[[x a]|] b'].
    + destruct Hs as (Hx & Hav & Hbefore & Hb').
      assert (Hxn : (x < n)%nat) by lia.
      rewrite (pinv_avail p rem x Hp Hxn) in Hav. apply availr_some in Hav. destruct Hav as [-> Hpx].
      right. eexists. exists x. split; [reflexivity|]. cbn [partial cands]. split; [|split].
      * split.
        -- split; auto. split; auto. pose proof (lot_us_mono lots Hsorted x ti ltac:(lia) Hti1). lia.
        -- intros j Hj. pose proof (Hokti j Hj) as Hjti. destruct Hj as (A & B & C).
           assert (Hcf : (c_from c <= j)%nat).
           { destruct (le_lt_dec (c_from c) j); auto. specialize (HckF j l A). lia. }
           destruct (lt_eq_lt_dec j x) as [[Hlt|Heq]|Hgt]; auto.
           ++ exfalso. specialize (Hbefore j ltac:(lia)).
              rewrite (pinv_avail p rem j Hp A) in Hbefore. apply availr_none in Hbefore. lia.
           ++ right. apply fifo_rank_lt; auto.
      * apply pinv_select; auto.
      * apply cands_ok_upd; auto.
        -- split; auto.
        -- rewrite <- Hc. unfold cproj. cbn [c_year c_meth]. rewrite Hm. reflexivity.
        -- split; cbn [c_meth c_from c_heap c_to]; [|congruence].
           intros _ j Hj Hjn. subst b'.
           destruct (le_lt_dec (c_from c) j) as [Hge|Hlt]; [|apply HckF; auto].
           specialize (Hbefore j ltac:(lia)).
           rewrite (pinv_avail p rem j Hp Hjn) in Hbefore. apply availr_none in Hbefore. lia.
    + left. split; auto. intros j Hj. pose proof (Hokti j Hj) as Hjti. destruct Hj as (A & B & C).
      assert (Hcf : (c_from c <= j)%nat).
      { destruct (le_lt_dec (c_from c) j); auto. specialize (HckF j l A). lia. }
      specialize (Hs j ltac:(lia)). rewrite (pinv_avail p rem j Hp A) in Hs. apply availr_none in Hs. lia.
  - (* feature-based: heap *)
    rewrite (meth_kind_feature m HmF). cbv beta iota.
    destruct Hck as [_ HckH]. rewrite Hm in HckH. destruct (HckH HmF) as [Hval Hcov]. clear HckH.
    set (h0 := push_range (c_heap c) (c_to c) ti).
    assert (Hval0 : forall j, In j h0 -> (j < n)%nat /\ lot_us lots j <= e_us e).
    { intros j Hj. unfold h0, push_range in Hj. apply in_app_or in Hj. destruct Hj as [Hj|Hj]; auto.
      apply in_seq in Hj. assert (Hjti : (j <= ti)%nat) by lia. split; [lia|].
      pose proof (lot_us_mono lots Hsorted j ti Hjti Hti1). lia. }
    assert (Hcov0 : forall j, okl lots (e_us e) rem j -> In j h0).
    { intros j Hj. pose proof (Hokti j Hj) as Hjti. destruct Hj as (A & B & C).
      unfold h0, push_range. apply in_or_app.
      destruct (le_lt_dec (c_to c) j) as [Hge|Hlt]; [right|left; auto].
      apply in_seq. lia. }
    pose proof (seek_feature_spec lots Hrows m p HmF (S (length h0)) h0 ltac:(lia)
                  (fun j Hj => proj1 (Hval0 j Hj))) as Hs.
    destruct (seek_feature lots (S (length h0)) m p h0) as [[[i a]|] h1].
    + destruct Hs as (Hin & Hav & Hmin & Hrest & Hsub).
      destruct (Hval0 i Hin) as [Hi Hit].
      rewrite (pinv_avail p rem i Hp Hi) in Hav. apply availr_some in Hav. destruct Hav as [-> Hpi].
      right. cbn [orb]. eexists. exists i. split; [reflexivity|]. cbn [partial cands]. split; [|split].
      * split.
        -- split; auto.
        -- intros j Hj. apply Hmin; auto. destruct Hj as (A & B & C).
           rewrite (pinv_avail p rem j Hp A). rewrite availr_pos by auto. discriminate.
      * apply pinv_select; auto.
      * apply cands_ok_upd; auto.
        -- split; auto.
        -- rewrite <- Hc. unfold cproj. cbn [c_year c_meth]. rewrite Hm. reflexivity.
        -- split; cbn [c_meth c_from c_heap c_to]; [congruence|]. intros _. split.
           ++ intros j [<-|Hj]; auto.
           ++ intros j Hj Hjn Hpj.
              assert (Hok : okl lots (e_us e) rem j).
              { split; auto. split; auto.
                pose proof (lot_us_mono lots Hsorted j ti ltac:(lia) Hti1). lia. }
              destruct (Hrest j (Hcov0 j Hok)) as [->|[Hnone|Hj1]]; [left; auto| |right; auto].
              rewrite (pinv_avail p rem j Hp Hjn) in Hnone. apply availr_none in Hnone. lia.
    + left. split; auto. intros j Hj. pose proof (Hs j (Hcov0 j Hj)) as Hnone. destruct Hj as (A & B & C).
      rewrite (pinv_avail p rem j Hp A) in Hnone. apply availr_none in Hnone. lia.
Qed.

(** * Events *)
Definition ewf (l : list event) : Prop :=
  evs_sorted l /\ evs_positive l /\ earn_first l /\ earn_is_lot lots l /\
  same_instant_same_year l /\ sched_covers sched l.

Lemma ewf_tail e l : ewf (e :: l) -> ewf l.
Proof.
  intros (A & B & C & D & E & F). repeat split.
  - intros i j d Hij. apply (A (S i) (S j) d). cbn [length]. lia.
  - intros x Hx. apply B. right; auto.
  - intros i j d Hij. apply (C (S i) (S j) d). cbn [length]; lia.
  - intros x Hx. apply D. right; auto.
  - intros x x' Hx Hx'. apply E; right; auto.
  - intros x Hx. apply F. right; auto.
Qed.

Lemma ewf_le e ne r : ewf (e :: ne :: r) -> e_us e <= e_us ne.
Proof. intros (A & _). apply (A 0%nat 1%nat e). cbn [length]. lia. Qed.

Lemma ewf_year e ne r : ewf (e :: ne :: r) -> e_us e = e_us ne -> e_year e = e_year ne.
Proof. intros (_ & _ & _ & _ & E & _) H. apply E; auto; [left; auto|right; left; auto]. Qed.

Lemma ewf_earn e ne r : ewf (e :: ne :: r) -> e_us e = e_us ne -> e_earn ne = true -> e_earn e = true.
Proof. intros (_ & _ & C & _) H. apply (C 0%nat 1%nat e); auto. cbn [length]. lia. Qed.

Lemma ewf_pos e l : ewf (e :: l) -> 0 < e_amt e.
Proof. intros (_ & B & _). apply B. left; auto. Qed.

Lemma ewf_meth e l : ewf (e :: l) -> exists y m, meth_for sched (e_year e) None = Some (y, m).
Proof.
  intros (_ & _ & _ & _ & _ & F). destruct (F e ltac:(left; auto)) as (y0 & m0 & Hin & Hle).
  destruct (meth_for sched (e_year e) None) as [[y m]|] eqn:E; eauto.
  apply meth_for_none in E. destruct E as [_ E]. specialize (E y0 m0 Hin). lia.
Qed.

Lemma ewf_lot e l : ewf (e :: l) -> e_earn e = true -> exists i, (i < n)%nat /\ lot_us lots i = e_us e.
Proof.
  intros (_ & _ & _ & D & _) H. destruct (D e ltac:(left; auto) H) as (i & A & _ & B & _). eauto.
Qed.

(** * The specification, one fraction at a time *)
Definition spec_cont (e : event) (ea : Z) (rem : list Z) (evs : list event) (out : list fraction)
  : result (list fraction) :=
  if e_earn e then spec_events lots sched evs rem (mk_frac lots e None ea :: out)
  else match meth_for sched (e_year e) None with
       | None => Err ENoMethod
       | Some (_, m) =>
         match consume lots (S n) m e ea rem out with
         | Err x => Err x
         | Ok (rem', out') => spec_events lots sched evs rem' out'
         end
       end.

Lemma spec_events_cons e evs rem out :
  spec_events lots sched (e :: evs) rem out = spec_cont e (e_amt e) rem evs out.
Proof. reflexivity. Qed.

Lemma consume_zero f m e left rem out : (0 < f)%nat -> left <= 0 -> consume lots f m e left rem out = Ok (rem, out).
Proof. intros Hf Hl. destruct f; [lia|]. cbn [consume]. replace (left <=? 0) with true by lia. reflexivity. Qed.

Lemma consume_step f m e left rem out i : 0 < left -> best lots m (e_us e) rem = Some i ->
  consume lots (S f) m e left rem out =
  consume lots f m e (left - Z.min left (nth i rem 0)) (upd rem i (nth i rem 0 - Z.min left (nth i rem 0)))
          (mk_frac lots e (Some i) (Z.min left (nth i rem 0)) :: out).
Proof. intros Hl Hb. cbn [consume]. replace (left <=? 0) with false by lia. rewrite Hb. reflexivity. Qed.

Lemma consume_exhausted f m e left rem out : (0 < f)%nat -> 0 < left -> best lots m (e_us e) rem = None ->
  consume lots f m e left rem out = Err EExhausted.
Proof.
  intros Hf Hl Hb. destruct f; [lia|]. cbn [consume]. replace (left <=? 0) with false by lia. rewrite Hb. reflexivity.
Qed.

Lemma consume_fuel m e : forall f1 f2 left rem out, length rem = n ->
  (npos rem + 1 <= f1)%nat -> (npos rem + 1 <= f2)%nat ->
  consume lots f1 m e left rem out = consume lots f2 m e left rem out.
Proof.
  induction f1 as [|f1 IH]; intros f2 left rem out Hlen H1 H2; [lia|]. destruct f2 as [|f2]; [lia|].
  destruct (Z_le_gt_dec left 0) as [Hl|Hl].
  - rewrite !consume_zero by lia. reflexivity.
  - pose proof (best_char lots Hrows m (e_us e) rem) as Hb.
    destruct (best lots m (e_us e) rem) as [i|] eqn:Eb.
    + rewrite !(consume_step _ m e left rem out i) by (auto; lia).
      destruct Hb as [(Hi & _ & Hpi) _].
      pose proof (npos_upd rem i (nth i rem 0 - Z.min left (nth i rem 0)) ltac:(lia)) as Hn.
      replace (nth i rem 0 >? 0) with true in Hn by lia.
      destruct (Z_le_gt_dec (nth i rem 0) left) as [Hc|Hc].
      * replace (nth i rem 0 - Z.min left (nth i rem 0) >? 0) with false in Hn by lia.
        apply IH; [rewrite upd_length; auto|lia|lia].
      * pose proof (npos_upd rem i 0 ltac:(lia)) as Hn0.
        replace (nth i rem 0 >? 0) with true in Hn0 by lia. replace (0 >? 0) with false in Hn0 by lia.
        rewrite !consume_zero by lia. reflexivity.
    + rewrite !consume_exhausted by (auto; lia). reflexivity.
Qed.

(** * Loop invariant *)
Definition Inv (s : mstate) (li : nat) (la : Z) (rem : list Z) (e : event) : Prop :=
  pinv (partial s) rem (Some li) /\ cands_ok (cands s) rem (e_us e) /\ future_pos rem (e_us e) /\
  la = nth li rem 0 /\
  exists y m, meth_for sched (e_year e) None = Some (y, m) /\ is_best lots m (e_us e) rem li.

(** selecting a lot for the first event of a new instant (or for a further disposal) *)
Lemma advance p cs rem t ne rest x y :
  pinv p rem None -> cands_ok cs rem t -> future_pos rem t -> ewf (ne :: rest) ->
  (t < e_us ne \/ (t <= e_us ne /\ e_earn ne = false)) ->
  match lot_for_event true lots {| partial := p; cands := cs |} ne x y with
  | Err err => forall out, spec_events lots sched (ne :: rest) rem out = Err err
  | Ok (s2, i, _, a) => Inv s2 i a rem ne
  end.
Proof.
  intros Hp Hcs Hfut Hwf Ht.
  destruct (ewf_meth _ _ Hwf) as (ym & m & Hmeth).
  destruct (lfe_core p cs rem t ne x y ym m Hp Hcs ltac:(lia) Hmeth) as [[-> Hnone]|(s' & i & -> & Hbest & Hp' & Hcs')].
  - intros out. rewrite spec_events_cons. unfold spec_cont.
    destruct (e_earn ne) eqn:Hearn.
    + exfalso. destruct Ht as [Ht|[_ Ht]]; [|discriminate].
      destruct (ewf_lot _ _ Hwf Hearn) as (i & Hi & Hus).
      apply (Hnone i). split; auto. split; [lia|]. apply Hfut; auto. lia.
    + rewrite Hmeth. rewrite consume_exhausted; auto; try lia.
      * apply (ewf_pos _ _ Hwf).
      * apply best_none; auto.
  - split; auto. split; auto. split; [eapply future_pos_mono; [|eauto]; lia|]. split; auto.
    exists ym, m. auto.
Qed.

Lemma is_best_upd_pos m t rem li x i : length rem = n -> 0 < x -> 0 < nth li rem 0 ->
  is_best lots m t rem i -> is_best lots m t (upd rem li x) i.
Proof.
  intros Hlen Hx Hli. apply is_best_ext. intros j Hj.
  destruct (Nat.eq_dec li j) as [->|Hneq].
  - rewrite nth_upd_same by lia. tauto.
  - rewrite nth_upd_other by auto. tauto.
Qed.

(** what the model's "next event" step must deliver *)
Definition step_ok (r : result nxt) (evs : list event) (rem' : list Z) : Prop :=
  match evs with
  | [] => r = Ok Done
  | ne :: rest =>
    match r with
    | Err err => forall out, spec_events lots sched (ne :: rest) rem' out = Err err
    | Ok Done => False
    | Ok (Next s2 evs' e' l' ea' la') =>
        evs' = rest /\ e' = ne /\ ea' = e_amt ne /\ exists i, l' = Some i /\ Inv s2 i la' rem' ne
    end
  end.

Lemma next_event_nil ar s cur cl x la : next_event ar lots s [] cur cl x la = Ok Done.
Proof. reflexivity. Qed.

Lemma next_event_adv s ne rest ce li x la : (e_us ce <? e_us ne) = true ->
  next_event true lots s (ne :: rest) (Some ce) (Some li) x la =
  match lot_for_event true lots {| partial := upd (partial s) li (Some (la - x)); cands := cands s |} ne (e_amt ne) (la - x) with
  | Err err => Err err
  | Ok (s2, i, _, a) => Ok (Next s2 rest ne (Some i) (e_amt ne) a)
  end.
Proof. intros H. unfold next_event. rewrite H. reflexivity. Qed.

Lemma next_event_same s ne rest ce li x la : (e_us ce <? e_us ne) = false ->
  next_event true lots s (ne :: rest) (Some ce) (Some li) x la = Ok (Next s rest ne (Some li) (e_amt ne) (la - x)).
Proof. intros H. unfold next_event. rewrite H. reflexivity. Qed.

(** the current event is finished and the lot in flight keeps a positive remainder *)
Lemma next_event_step s evs e li x la rem :
  ewf (e :: evs) -> Inv s li la rem e -> 0 <= x < la -> (e_earn e = true \/ 0 < x) ->
  step_ok (next_event true lots s evs (Some e) (Some li) x la) evs (upd rem li (la - x)).
Proof.
  intros Hwf (Hp & Hcs & Hfut & Hla & ym & m & Hmeth & Hbest) Hx Hex.
  destruct evs as [|ne rest]; [apply next_event_nil|].
  pose proof (ewf_le _ _ _ Hwf) as Hle.
  pose proof (ewf_tail _ _ Hwf) as Hwf'.
  destruct Hbest as [(Hli & Hlit & Hlipos) Hmin].
  assert (Hlen : length rem = n) by (destruct Hp as (_ & H & _); exact H).
  assert (Hle1 : le_pos (upd rem li (la - x)) rem) by (apply le_pos_upd; [lia|intros; lia]).
  assert (Hfut' : future_pos (upd rem li (la - x)) (e_us e)) by (apply future_pos_upd; auto; lia).
  cbn [step_ok]. destruct (e_us e <? e_us ne) eqn:Hadv.
  - rewrite next_event_adv by auto.
    pose proof (advance (upd (partial s) li (Some (la - x))) (cands s) (upd rem li (la - x)) (e_us e) ne rest
                  (e_amt ne) (la - x)) as Hadv'.
    destruct (lot_for_event true lots _ ne (e_amt ne) (la - x)) as [[[[s2 i] ea'] a]|err].
    + repeat split; auto. exists i. split; auto. apply Hadv'; auto.
      * apply pinv_restore; auto. lia.
      * apply (cands_ok_mono _ rem _ (e_us e) _); auto; lia.
      * left. lia.
    + apply Hadv'; auto.
      * apply pinv_restore; auto. lia.
      * apply (cands_ok_mono _ rem _ (e_us e) _); auto; lia.
      * left. lia.
  - rewrite next_event_same by auto. repeat split; auto. exists li. split; auto.
    assert (Heq : e_us e = e_us ne) by lia.
    split; [apply pinv_keep; auto|]. split; [apply (cands_ok_mono _ rem _ (e_us e) _); auto; lia|].
    split; [rewrite <- Heq; auto|]. split; [rewrite nth_upd_same by lia; reflexivity|].
    exists ym, m. rewrite <- (ewf_year _ _ _ Hwf Heq). split; auto. rewrite <- Heq.
    apply is_best_upd_pos; auto; try lia. split; auto. split; auto.
Qed.

(** the current (non-income) event and the lot in flight are finished together *)
Lemma next_event_and_lot_step s evs e li la rem :
  ewf (e :: evs) -> Inv s li la rem e -> e_earn e = false ->
  step_ok (next_event_and_lot true lots s evs (Some e) (Some li) la la) evs (upd rem li 0).
Proof.
  intros Hwf (Hp & Hcs & Hfut & Hla & ym & m & Hmeth & Hbest) Hearn.
  unfold next_event_and_lot.
  destruct evs as [|ne rest]; [rewrite next_event_nil; reflexivity|].
  pose proof (ewf_le _ _ _ Hwf) as Hle.
  pose proof (ewf_tail _ _ Hwf) as Hwf'.
  destruct Hbest as [(Hli & Hlit & Hlipos) Hmin].
  assert (Hlen : length rem = n) by (destruct Hp as (_ & H & _); exact H).
  assert (Hle1 : le_pos (upd rem li 0) rem) by (apply le_pos_upd; [lia|intros; lia]).
  assert (Hfut' : future_pos (upd rem li 0) (e_us e)) by (apply future_pos_upd; auto; lia).
  assert (Hp0 : pinv (partial s) (upd rem li 0) None) by (apply pinv_exhaust; auto; lia).
  assert (Hcs0 : cands_ok (cands s) (upd rem li 0) (e_us e)) by (apply (cands_ok_mono _ rem _ (e_us e) _); auto; lia).
  assert (Hpli : nth li (partial s) None = Some 0).
  { destruct Hp as (_ & _ & H). apply (H li Hli). reflexivity. }
  cbn [step_ok]. destruct (e_us e <? e_us ne) eqn:Hadv.
  - rewrite next_event_adv by auto. replace (la - la) with 0 by lia.
    rewrite (upd_same_val (partial s) li (Some 0) None Hpli).
    pose proof (advance (partial s) (cands s) (upd rem li 0) (e_us e) ne rest (e_amt ne) 0
                  Hp0 Hcs0 Hfut' Hwf' ltac:(left; lia)) as Hadv'.
    destruct s as [p cs]. cbn [partial cands] in *.
    destruct (lot_for_event true lots {| partial := p; cands := cs |} ne (e_amt ne) 0) as [[[[s2 i] ea'] a]|err].
    + assert (Hneq : opt_lot_eq lots (Some li) (Some i) = false).
      { cbn [opt_lot_eq]. destruct Hadv' as (_ & _ & _ & _ & y2 & m2 & _ & [(Hi & _ & Hipos) _]).
        destruct (i_row (lotn lots li) =? i_row (lotn lots i)) eqn:E; auto.
        apply Z.eqb_eq in E. apply (row_inj lots Hrows) in E; auto. subst i.
        rewrite nth_upd_same in Hipos by lia. lia. }
      rewrite Hneq. repeat split; auto. exists i. split; auto.
    + exact Hadv'.
  - rewrite next_event_same by auto. replace (la - la) with 0 by lia.
    assert (Heq : e_us e = e_us ne) by lia.
    assert (Hearn' : e_earn ne = false).
    { destruct (e_earn ne) eqn:E; auto. rewrite (ewf_earn _ _ _ Hwf Heq E) in Hearn. discriminate. }
    assert (Hrefl : opt_lot_eq lots (Some li) (Some li) = true) by (cbn [opt_lot_eq]; apply Z.eqb_refl).
    rewrite Hrefl.
    pose proof (advance (partial s) (cands s) (upd rem li 0) (e_us e) ne rest (e_amt ne) 0
                  Hp0 Hcs0 Hfut' Hwf' ltac:(right; split; [lia|auto])) as Hadv'.
    destruct s as [p cs]. cbn [partial cands] in *.
    destruct (lot_for_event true lots {| partial := p; cands := cs |} ne (e_amt ne) 0) as [[[[s2 i] ea'] a]|err].
    + repeat split; auto. exists i. split; auto.
    + exact Hadv'.
Qed.

(** * The loop *)
Definition cont (f : nat) (r : result nxt) (out' : list fraction) : result (list fraction) :=
  match r with
  | Err x => Err x
  | Ok Done => Ok (rev out')
  | Ok (Next s' evs' e' l' ea' la') => loop true lots f s' evs' e' l' ea' la' out'
  end.

Lemma loop_S f s evs e li ea la out :
  loop true lots (S f) s evs e (Some li) ea la out =
  if (ea <? 0) || (la <? 0) then Err EValue else
  if e_earn e then
    if ea <=? 0 then Err EValue else
    cont f (next_event true lots s evs (Some e) (Some li) 0 la) (mk_frac lots e None ea :: out)
  else if ea =? la then
    if ea <=? 0 then Err EValue else
    cont f (next_event_and_lot true lots s evs (Some e) (Some li) ea la) (mk_frac lots e (Some li) ea :: out)
  else if ea <? la then
    if ea <=? 0 then Err EValue else
    cont f (next_event true lots s evs (Some e) (Some li) ea la) (mk_frac lots e (Some li) ea :: out)
  else
    if la <=? 0 then Err EValue else
    match lot_for_event true lots s e ea la with
    | Err x => Err x
    | Ok (s', i, ea', la') => loop true lots f s' evs e (Some i) ea' la' (mk_frac lots e (Some li) la :: out)
    end.
Proof. reflexivity. Qed.

Definition loop_spec (f : nat) : Prop :=
  forall s evs e li ea la out rem,
    ewf (e :: evs) -> Inv s li la rem e -> 0 < ea -> (length evs + npos rem + 1 <= f)%nat ->
    loop true lots f s evs e (Some li) ea la out = spec_cont e ea rem evs out.

Lemma cont_ok f r evs rem' out' :
  loop_spec f -> step_ok r evs rem' -> ewf evs -> (length evs + npos rem' <= f)%nat ->
  cont f r out' = spec_events lots sched evs rem' out'.
Proof.
  intros IH Hstep Hwf Hf. destruct evs as [|ne rest]; cbn [step_ok] in Hstep.
  - subst r. reflexivity.
  - destruct r as [[|s2 evs' e' l' ea' la']|err]; [contradiction| |].
    + destruct Hstep as (-> & -> & -> & i & -> & HInv). cbn [cont].
      rewrite spec_events_cons. apply IH; auto.
      * apply (ewf_pos _ _ Hwf).
      * cbn [length] in Hf. lia.
    + cbn [cont]. rewrite Hstep. reflexivity.
Qed.

Lemma loop_ok : forall f, loop_spec f.
Proof.
  induction f as [|f IH]; intros s evs e li ea la out rem Hwf HInv Hea Hf; [lia|].
  rewrite loop_S.
  pose proof HInv as (Hp & Hcs & Hfut & Hla & ym & m & Hmeth & Hbest).
  pose proof Hbest as [(Hli & Hlit & Hlipos) Hmin].
  assert (Hlen : length rem = n) by (destruct Hp as (_ & H & _); exact H).
  assert (Hlapos : 0 < la) by lia.
  pose proof (ewf_tail _ _ Hwf) as Hwf'.
  pose proof n_pos as Hn.
  replace ((ea <? 0) || (la <? 0)) with false by lia.
  unfold spec_cont. destruct (e_earn e) eqn:Hearn.
  - (* income event *)
    replace (ea <=? 0) with false by lia.
    pose proof (next_event_step s evs e li 0 la rem Hwf HInv ltac:(lia) ltac:(left; auto)) as Hstep.
    replace (la - 0) with la in Hstep by lia.
    rewrite (upd_same_val rem li la 0 ltac:(lia)) in Hstep.
    apply cont_ok; auto. lia.
  - rewrite Hmeth.
    rewrite (consume_step _ m e ea rem out li Hea (best_some lots Hrows m (e_us e) rem li Hbest)).
    rewrite <- Hla.
    destruct (ea =? la) eqn:E1; [|destruct (ea <? la) eqn:E2].
    + (* event and lot finish together *)
      replace (ea <=? 0) with false by lia.
      assert (ea = la) by lia. subst ea.
      replace (Z.min la la) with la by lia. replace (la - la) with 0 by lia.
      rewrite consume_zero by lia.
      pose proof (next_event_and_lot_step s evs e li la rem Hwf HInv Hearn) as Hstep.
      apply cont_ok; auto.
      pose proof (npos_upd rem li 0 ltac:(lia)) as Hnp.
      replace (nth li rem 0 >? 0) with true in Hnp by lia. replace (0 >? 0) with false in Hnp by lia. lia.
    + (* event finished, lot keeps a remainder *)
      replace (ea <=? 0) with false by lia.
      replace (Z.min ea la) with ea by lia. replace (ea - ea) with 0 by lia.
      rewrite consume_zero by lia.
      pose proof (next_event_step s evs e li ea la rem Hwf HInv ltac:(lia) ltac:(right; auto)) as Hstep.
      apply cont_ok; auto.
      pose proof (npos_upd rem li (la - ea) ltac:(lia)) as Hnp.
      replace (nth li rem 0 >? 0) with true in Hnp by lia. replace (la - ea >? 0) with true in Hnp by lia. lia.
    + (* lot exhausted, event continues *)
      replace (la <=? 0) with false by lia.
      replace (Z.min ea la) with la by lia. replace (la - la) with 0 by lia.
      assert (Hp0 : pinv (partial s) (upd rem li 0) None) by (apply pinv_exhaust; auto; lia).
      assert (Hle1 : le_pos (upd rem li 0) rem) by (apply le_pos_upd; [lia|intros; lia]).
      assert (Hcs0 : cands_ok (cands s) (upd rem li 0) (e_us e)) by (apply (cands_ok_mono _ rem _ (e_us e) _); auto; lia).
      assert (Hfut' : future_pos (upd rem li 0) (e_us e)) by (apply future_pos_upd; auto; lia).
      pose proof (npos_upd rem li 0 ltac:(lia)) as Hnp.
      replace (nth li rem 0 >? 0) with true in Hnp by lia. replace (0 >? 0) with false in Hnp by lia.
      destruct s as [p cs]. cbn [partial cands] in *.
      destruct (lfe_core p cs (upd rem li 0) (e_us e) e ea la ym m Hp0 Hcs0 ltac:(lia) Hmeth)
        as [[-> Hnone]|(s' & i & -> & Hbest' & Hp' & Hcs')].
      * rewrite consume_exhausted; auto; try lia. apply best_none; auto.
      * rewrite (IH s' evs e i (ea - la) (nth i (upd rem li 0) 0) _ (upd rem li 0)); auto; try lia.
        -- unfold spec_cont. rewrite Hearn, Hmeth.
           rewrite (consume_fuel m e (S n) n); auto; try lia.
           ++ rewrite upd_length; auto.
           ++ pose proof (npos_le rem). lia.
           ++ pose proof (npos_le rem). lia.
        -- split; auto. split; auto. split; auto. split; auto. exists ym, m. auto.
Qed.

End Refine.

Theorem matcher_refines_spec : forall lots sched evs,
  wf lots sched evs -> run_matcher true lots sched evs = spec_run lots sched evs.
Proof.
  intros lots sched evs (Hsorted & Hrows & Hpos & Hne & Hes & Hep & _ & Hef & Hel & Hsy & Hsc & _).
  assert (Hwf : ewf lots sched evs) by (repeat split; auto).
  assert (Hrun : run_matcher true lots sched evs =
                 match next_event_and_lot true lots (init_state lots sched) evs None None 0 0 with
                 | Err x => Err x
                 | Ok Done => Ok []
                 | Ok (Next s evs' e l ea la) => loop true lots (run_fuel lots evs) s evs' e l ea la []
                 end).
  { unfold run_matcher. destruct lots; [exfalso; apply Hne; reflexivity|reflexivity]. }
  rewrite Hrun. clear Hrun. unfold spec_run.
  destruct evs as [|ne rest]; [reflexivity|].
  unfold next_event_and_lot. cbn [next_event opt_lot_eq].
  set (rem := map i_crypto_in lots).
  assert (Hrem : forall j, (j < length lots)%nat -> nth j rem 0 = i_crypto_in (lotn lots j)).
  { intros j Hj. unfold rem, lotn. change 0 with (i_crypto_in dummy_lot). apply map_nth. }
  assert (Hp : pinv lots (partial (init_state lots sched)) rem None).
  { unfold init_state. cbn [partial]. split; [apply map_length|]. split; [apply map_length|].
    intros j Hj. split; [discriminate|]. intros _. unfold avail, availr.
    replace (nth j (map (fun _ : intx => @None Z) lots) None) with (@None Z).
    - rewrite Hrem by auto. specialize (Hpos j Hj). replace (i_crypto_in (lotn lots j) >? 0) with true by lia. reflexivity.
    - symmetry. change (@None Z) with ((fun _ : intx => @None Z) dummy_lot) at 2. apply map_nth. }
  assert (Hcs : cands_ok lots sched (cands (init_state lots sched)) rem (e_us ne - 1)).
  { unfold init_state. cbn [cands]. split.
    - rewrite map_map. unfold cproj. cbn [c_year c_meth].
      rewrite <- (map_id sched) at 2. apply map_ext. intros [y m]; reflexivity.
    - apply Forall_forall. intros c Hc. apply in_map_iff in Hc. destruct Hc as ([y m] & <- & _).
      split; cbn [c_meth c_from c_heap c_to]; intros _.
      + intros j Hj. lia.
      + split; [intros j []|intros j Hj; lia]. }
  assert (Hfut : future_pos lots rem (e_us ne - 1)).
  { intros j Hj _. rewrite Hrem by auto. apply Hpos; auto. }
  pose proof (advance lots sched Hsorted Hrows _ _ rem (e_us ne - 1) ne rest (e_amt ne) 0
                Hp Hcs Hfut Hwf ltac:(left; lia)) as Hadv.
  destruct (init_state lots sched) as [p cs]. cbn [partial cands] in Hadv.
  destruct (lot_for_event true lots {| partial := p; cands := cs |} ne (e_amt ne) 0) as [[[[s2 i] ea'] a]|err].
  - rewrite (loop_ok lots sched Hsorted Hrows Hpos Hne (run_fuel lots (ne :: rest)) s2 rest ne i (e_amt ne) a [] rem); auto.
    + apply (ewf_pos lots sched _ _ Hwf).
    + unfold run_fuel. cbn [length]. pose proof (npos_le rem). unfold rem in *. rewrite map_length in *. lia.
  - rewrite Hadv. reflexivity.
Qed.

