(** Properties of the greedy matching specification [spec_run] under [wf]:
    totality (P0), conservation (P1), order (P2), failure characterisation (P3),
    sell-everything (P4). *)
From Coq Require Import ZifyBool.
From RP2V Require Import Base.Prelude Base.Time Base.Dec Model.Types Model.Generated
  Model.Matcher Model.MatchSpec Model.MatchWf Model.FracSpec Proofs.SpecAux Proofs.SpecInv.
Open Scope Z_scope.

Lemma need_split p e s : e_earn e = false -> need (p ++ e :: s) (length p) = dsum p + e_amt e.
Proof.
  intros He. change (need (p ++ e :: s) (length p)) with (dsum (firstn (S (length p)) (p ++ e :: s))).
  replace (firstn (S (length p)) (p ++ e :: s)) with (p ++ [e]).
  - rewrite dsum_snoc, He. reflexivity.
  - rewrite firstn_app. replace (S (length p) - length p)%nat with 1%nat by lia.
    rewrite firstn_all2 by lia. reflexivity.
Qed.

Lemma Hist_mono lots sched evs evs' fs :
  (forall e, In e evs -> In e evs') -> Hist lots sched evs fs -> Hist lots sched evs' fs.
Proof.
  intros Hsub HH k f Hk. destruct (HH k f Hk) as (Hpos & e & He & Hrow & Hrest).
  split; [exact Hpos|]. exists e. split; [apply Hsub; exact He|]. split; [exact Hrow|exact Hrest].
Qed.

Section Props.
Variable lots : list intx.
Variable sched : list (Z * meth).
Variable evs : list event.
Hypothesis WF : wf lots sched evs.

(** the run, with its final state and the facts established by the invariant *)
Lemma run_final :
  match run_st lots sched evs (map i_crypto_in lots) [] with
  | Ok (rem', out') =>
      spec_run lots sched evs = Ok (rev out') /\
      Inv lots sched evs evs (rev out') rem' /\
      (forall p e s, evs = p ++ e :: s -> e_earn e = false -> dsum p + e_amt e <= have lots (e_us e))
  | Err x =>
      spec_run lots sched evs = Err EExhausted /\
      exists p e s, evs = p ++ e :: s /\ e_earn e = false /\ have lots (e_us e) < dsum p + e_amt e
  end.
Proof.
  assert (H := run_st_spec lots sched evs WF evs [] (map i_crypto_in lots) [] eq_refl
                 (Inv_init lots sched evs WF)).
  unfold spec_run. rewrite spec_events_run_st.
  destruct (run_st lots sched evs (map i_crypto_in lots) []) as [[rem' out']|x].
  - destruct H as (HI & _ & Hneed). split; [reflexivity|]. split; [exact HI|].
    intros p e s Hp He. apply (Hneed p e s Hp); [cbn [length]; lia|exact He].
  - destruct H as [-> H]. split; [reflexivity|exact H].
Qed.

Lemma spec_run_ok fs : spec_run lots sched evs = Ok fs ->
  exists rem out, run_st lots sched evs (map i_crypto_in lots) [] = Ok (rem, out) /\ fs = rev out /\
    Inv lots sched evs evs fs rem /\
    (forall p e s, evs = p ++ e :: s -> e_earn e = false -> dsum p + e_amt e <= have lots (e_us e)).
Proof.
  intros Hrun. assert (H := run_final).
  destruct (run_st lots sched evs (map i_crypto_in lots) []) as [[rem' out']|x].
  - destruct H as (Hr & HI & Hneed). rewrite Hr in Hrun. injection Hrun as <-.
    exists rem', out'. auto.
  - destruct H as [Hr _]. rewrite Hr in Hrun. discriminate.
Qed.

(** P0 *)
Theorem spec_total :
  (exists fs, spec_run lots sched evs = Ok fs) \/ spec_run lots sched evs = Err EExhausted.
Proof.
  assert (H := run_final).
  destruct (run_st lots sched evs (map i_crypto_in lots) []) as [[rem' out']|x].
  - left. exists (rev out'). apply H.
  - right. apply H.
Qed.

Section Ok.
Variable fs : list fraction.
Hypothesis RUN : spec_run lots sched evs = Ok fs.

Lemma good_at k f : nth_error fs k = Some f -> Good lots sched evs (firstn k fs) f.
Proof.
  destruct (spec_run_ok fs RUN) as (rem & out & _ & _ & HI & _).
  apply (inv_hist _ _ _ _ _ _ HI).
Qed.

(** P1 *)
Theorem spec_positive : forall f, In f fs -> 0 < f_amt f.
Proof.
  intros f Hf. destruct (In_nth_error fs f Hf) as [k Hk]. apply (good_at k f Hk).
Qed.

Theorem spec_event_covered : forall e, In e evs -> ev_taken fs (e_row e) = e_amt e.
Proof.
  destruct (spec_run_ok fs RUN) as (rem & out & _ & _ & HI & _).
  apply (inv_cov _ _ _ _ _ _ HI).
Qed.

Theorem spec_only_events : forall f, In f fs ->
  exists e, In e evs /\ e_row e = f_ev f /\ (f_lot f = None <-> e_earn e = true).
Proof.
  intros f Hf. destruct (In_nth_error fs f Hf) as [k Hk].
  destruct (good_at k f Hk) as (_ & e & He & Hrow & Hrest).
  exists e. split; [exact He|]. split; [exact Hrow|].
  destruct (f_lot f) as [lr|].
  - destruct Hrest as [Hearn _]. split; intros H; congruence.
  - split; intros _; [exact Hrest|reflexivity].
Qed.

Theorem spec_earn_once : forall e, In e evs -> e_earn e = true ->
  filter (frac_of_ev (e_row e)) fs = [mk_frac lots e None (e_amt e)].
Proof.
  destruct (spec_run_ok fs RUN) as (rem & out & _ & _ & HI & _).
  apply (inv_earn _ _ _ _ _ _ HI).
Qed.

Theorem spec_no_overspend : forall k i, (i < length lots)%nat -> 0 <= rem_after lots (firstn k fs) i.
Proof.
  intros k i Hi. destruct (spec_run_ok fs RUN) as (rem & out & _ & _ & HI & _).
  destruct (inv_st _ _ _ _ _ _ HI) as [_ Hs]. destruct (Hs i Hi) as [H1 H2].
  rewrite H1 in H2. unfold rem_after in *.
  rewrite <- (firstn_skipn k fs) in H2 at 1. rewrite lot_taken_app in H2.
  assert (0 <= lot_taken (skipn k fs) (i_row (lotn lots i))).
  { apply lot_taken_nonneg. intros f Hf. apply spec_positive.
    rewrite <- (firstn_skipn k fs). apply in_or_app. right. exact Hf. }
  lia.
Qed.

(** P2 *)
Theorem spec_order : forall k f lr, nth_error fs k = Some f -> f_lot f = Some lr ->
  exists e i y m,
    In e evs /\ e_row e = f_ev f /\ e_earn e = false /\
    (i < length lots)%nat /\ i_row (lotn lots i) = lr /\
    meth_for sched (e_year e) None = Some (y, m) /\
    lot_us lots i <= e_us e /\
    0 < f_amt f <= rem_after lots (firstn k fs) i /\
    (forall j, (j < length lots)%nat -> j <> i -> lot_us lots j <= e_us e ->
               0 < rem_after lots (firstn k fs) j ->
               key_ltb (spec_rank lots m i) (spec_rank lots m j) = true).
Proof.
  intros k f lr Hk Hlot. destruct (good_at k f Hk) as (Hpos & e & He & Hrow & Hrest).
  rewrite Hlot in Hrest. destruct Hrest as (Hearn & i & y & m & Hi & Hr & Hm & Ht & Hle & Hmin).
  exists e, i, y, m. repeat split; auto.
Qed.

End Ok.

(** P3 *)
Theorem spec_fails_iff :
  spec_run lots sched evs = Err EExhausted <->
  exists j d, (j < length evs)%nat /\ e_earn (nth j evs d) = false /\
              have lots (e_us (nth j evs d)) < need evs j.
Proof.
  split.
  - intros Hrun. assert (H := run_final).
    destruct (run_st lots sched evs (map i_crypto_in lots) []) as [[rem' out']|x].
    + destruct H as (Hr & _). rewrite Hr in Hrun. discriminate.
    + destruct H as (_ & p & e & s & Hp & He & Hlt).
      exists (length p), e. rewrite Hp. rewrite nth_middle, need_split by exact He.
      split; [rewrite app_length; cbn [length]; lia|]. split; [exact He|exact Hlt].
  - intros (j & d & Hj & He & Hlt). destruct spec_total as [[fs Hrun]|Hrun]; [exfalso|exact Hrun].
    destruct (spec_run_ok fs Hrun) as (rem & out & _ & _ & _ & Hneed).
    destruct (nth_split evs d Hj) as (l1 & l2 & Hsplit & Hlen).
    remember (nth j evs d) as e eqn:Ee.
    assert (Hn : need evs j = dsum l1 + e_amt e).
    { rewrite Hsplit, <- Hlen. apply need_split. exact He. }
    specialize (Hneed l1 e l2 Hsplit He). lia.
Qed.

End Props.

(** P4.  The additional hypothesis that every lot is acquired at or before the
    final disposal is necessary: see [sell_all_counterexample] below. *)
Theorem spec_sell_all lots sched evs fs :
  wf lots sched evs -> spec_run lots sched evs = Ok fs ->
  forall e, e_earn e = false -> wf lots sched (evs ++ [e]) ->
    (forall i, (i < length lots)%nat -> lot_us lots i <= e_us e) ->
    e_amt e = sumZ (map (rem_after lots fs) (seq 0 (length lots))) ->
    exists fs', spec_run lots sched (evs ++ [e]) = Ok (fs ++ fs') /\
                forall i, (i < length lots)%nat -> rem_after lots (fs ++ fs') i = 0.
Proof.
  intros WF Hrun e Hearn WF' Hall Hamt.
  destruct (spec_run_ok lots sched evs WF fs Hrun) as (rem & out & Hst & -> & HI & _).
  assert (HSt := inv_st _ _ _ _ _ _ HI).
  assert (HH : Hist lots sched (evs ++ [e]) (rev out)).
  { apply (Hist_mono lots sched evs); [|apply (inv_hist _ _ _ _ _ _ HI)].
    intros x Hx. apply in_or_app. left. exact Hx. }
  assert (He : In e (evs ++ [e])) by (apply in_or_app; right; left; reflexivity).
  assert (Hpos : 0 < e_amt e) by (apply WF'; exact He).
  assert (Hsum : asum lots rem (e_us e) = e_amt e).
  { rewrite (asum_all lots rem (e_us e) Hall), Hamt. apply sumZ_map_ext.
    intros j Hj. apply idx_in in Hj. apply (proj2 HSt j Hj). }
  unfold spec_run. rewrite spec_events_run_st, run_st_app, Hst. cbn [run_st]. rewrite Hearn.
  destruct (meth_for sched (e_year e) None) as [[y m]|] eqn:Em.
  2:{ exfalso. eapply meth_for_some; [|exact Em]. right.
      assert (Hsc : sched_covers sched (evs ++ [e])) by apply WF'. exact (Hsc e He). }
  assert (Hfuel : (if e_amt e <=? 0 then 0 else cnt lots rem (e_us e)) < Z.of_nat (S (length lots))).
  { assert (Hc := cnt_le lots rem (e_us e)). destruct (e_amt e <=? 0); lia. }
  assert (HC := consume_spec lots sched (evs ++ [e]) WF' e y m He Hearn Em (S (length lots)) (e_amt e)
                  rem out HSt HH ltac:(lia) Hfuel).
  destruct (consume lots (S (length lots)) m e (e_amt e) rem out) as [[rem1 out1]|x].
  - destruct HC as (new & -> & HSt1 & _ & _ & _ & Hasum).
    rewrite rev_app_distr, rev_involutive in *. exists new. split; [reflexivity|].
    intros i Hi. destruct HSt1 as [_ Hs1]. destruct (Hs1 i Hi) as [H1 H2]. rewrite <- H1.
    assert (H3 : nth i rem1 0 <= asum lots rem1 (e_us e)).
    { apply asum_elem_le; auto. intros j Hj. apply (Hs1 j Hj). }
    rewrite (Hasum (e_us e)) in H3 by lia. lia.
  - destruct HC as [_ Hlt]. lia.
Qed.

(** Without the additional hypothesis of [spec_sell_all] the statement is false: a lot
    acquired after the final disposal contributes to the "whole remaining balance" but
    cannot be used. *)
Module SellAllCounterexample.
  Definition lot : intx :=
    {| i_row := 1; i_ts := {| utc_us := 10; off_s := 0 |}; i_exch := 0; i_holder := 0; i_type := BUY;
       i_spot := 1; i_crypto_in := 5; i_crypto_fee := 0;
       i_fiat_in_no_fee := dzero; i_fiat_in_with_fee := dzero; i_fiat_fee := dzero |}.
  Definition lots := [lot].
  Definition sched := [(2000, Fifo)].
  Definition e : event := {| e_row := 2; e_us := 5; e_year := 2020; e_earn := false; e_amt := 5 |}.

  Lemma wf_nil : wf lots sched [].
  Proof.
    unfold wf. repeat split.
    - intros i j H. cbn in H. lia.
    - repeat constructor. intros [].
    - intros i Hi. cbn in Hi. assert (i = 0%nat) as -> by lia. reflexivity.
    - discriminate.
    - intros i j d H. cbn in H. lia.
    - intros x [].
    - constructor.
    - intros i j d H. cbn in H. lia.
    - intros x [].
    - intros x x' [].
    - intros x [].
    - repeat constructor. intros [].
  Qed.

  Lemma wf_e : wf lots sched ([] ++ [e]).
  Proof.
    unfold wf. repeat split.
    - intros i j H. cbn in H. lia.
    - repeat constructor. intros [].
    - intros i Hi. cbn in Hi. assert (i = 0%nat) as -> by lia. reflexivity.
    - discriminate.
    - intros i j d H. cbn in H. lia.
    - intros x [<-|[]]. reflexivity.
    - repeat constructor. intros [].
    - intros i j d H. cbn in H. lia.
    - intros x [<-|[]]. discriminate.
    - intros x x' [<-|[]] [<-|[]] _. reflexivity.
    - intros x [<-|[]]. exists 2000, Fifo. split; [left; reflexivity|]. cbn. lia.
    - repeat constructor. intros [].
  Qed.

  Lemma run_nil : spec_run lots sched [] = Ok [].
  Proof. reflexivity. Qed.
  Lemma amt_e : e_amt e = sumZ (map (rem_after lots []) (seq 0 (length lots))).
  Proof. reflexivity. Qed.
  Lemma run_e : spec_run lots sched ([] ++ [e]) = Err EExhausted.
  Proof. vm_compute. reflexivity. Qed.

  (** the statement of P4 without the extra hypothesis is refuted *)
  Theorem unguarded_sell_all_false :
    ~ (forall lots sched evs fs, wf lots sched evs -> spec_run lots sched evs = Ok fs ->
       forall e, e_earn e = false -> wf lots sched (evs ++ [e]) ->
         e_amt e = sumZ (map (rem_after lots fs) (seq 0 (length lots))) ->
         exists fs', spec_run lots sched (evs ++ [e]) = Ok (fs ++ fs') /\
                     forall i, (i < length lots)%nat -> rem_after lots (fs ++ fs') i = 0).
  Proof.
    intros H. destruct (H lots sched [] [] wf_nil run_nil e eq_refl wf_e amt_e) as (fs' & Hrun & _).
    rewrite run_e in Hrun. discriminate.
  Qed.
End SellAllCounterexample.

Eval vm_compute in
  (spec_run SellAllCounterexample.lots SellAllCounterexample.sched [],
   spec_run SellAllCounterexample.lots SellAllCounterexample.sched ([] ++ [SellAllCounterexample.e]),
   e_amt SellAllCounterexample.e,
   sumZ (map (rem_after SellAllCounterexample.lots []) (seq 0 (length SellAllCounterexample.lots)))).

