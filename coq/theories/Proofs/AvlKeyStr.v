(** String-level facts about the AVL key (Model/AvlKeyGen.v [avl_key_gen], Python `str` order [str_leb]) that need no
    calendar: keys of the SAME timestamp compare by their padded ids, and zero-filled right-aligned decimal ids of at most
    `width` digits compare as the numbers they spell; every such key is <= the lookup key of its timestamp. *)
From Coq Require Import List ZArith Bool Lia.
From RP2V Require Import Base.Prelude Base.Time Model.Types Model.GeneratedTie Model.AvlKeyGen.
Import ListNotations.
Open Scope Z_scope.

Definition is_digits (s : list Z) : Prop := Forall (fun c => 48 <= c <= 57) s.

Definition sn (acc : Z) (s : list Z) : Z := fold_left (fun acc c => acc * 10 + (c - 48)) s acc.
Lemma str_num_sn s : str_num s = sn 0 s. Proof. reflexivity. Qed.

Lemma pow10_succ (n : nat) : 10 ^ Z.of_nat (S n) = 10 * 10 ^ Z.of_nat n.
Proof. rewrite Nat2Z.inj_succ, Z.pow_succ_r by lia. reflexivity. Qed.
Lemma pow10_pos (n : nat) : 0 < 10 ^ Z.of_nat n.
Proof. apply Z.pow_pos_nonneg; lia. Qed.

Lemma sn_shift s : forall acc, sn acc s = acc * 10 ^ Z.of_nat (length s) + sn 0 s.
Proof.
  induction s as [|x s IH]; intros acc.
  - cbn. lia.
  - change (sn acc (x :: s)) with (sn (acc * 10 + (x - 48)) s). change (sn 0 (x :: s)) with (sn (0 * 10 + (x - 48)) s).
    rewrite (IH (acc * 10 + (x - 48))), (IH (0 * 10 + (x - 48))). cbn [length]. rewrite pow10_succ. ring.
Qed.
Lemma sn_cons x s : sn 0 (x :: s) = (x - 48) * 10 ^ Z.of_nat (length s) + sn 0 s.
Proof. change (sn 0 (x :: s)) with (sn (0 * 10 + (x - 48)) s). rewrite sn_shift. ring. Qed.

Lemma sn_bound s : is_digits s -> 0 <= sn 0 s < 10 ^ Z.of_nat (length s).
Proof.
  induction 1 as [|x s Hx Hs IH].
  - cbn. lia.
  - rewrite sn_cons. cbn [length]. rewrite pow10_succ. pose proof (pow10_pos (length s)). nia.
Qed.

(** equal-length digit strings compare as numbers *)
Lemma str_leb_digits a : forall b, is_digits a -> is_digits b -> length a = length b -> str_leb a b = (sn 0 a <=? sn 0 b).
Proof.
  induction a as [|x a IH]; intros [|y b] Ha Hb Hl; try discriminate Hl.
  - reflexivity.
  - inversion Ha as [|? ? Hx Ha']; inversion Hb as [|? ? Hy Hb']; subst. injection Hl as Hl.
    cbn [str_leb]. rewrite (IH b Ha' Hb' Hl), !sn_cons, <- Hl.
    pose proof (sn_bound a Ha'). pose proof (sn_bound b Hb') as Bb. rewrite <- Hl in Bb.
    pose proof (pow10_pos (length a)).
    destruct (x <? y) eqn:E1; [apply Z.ltb_lt in E1; symmetry; apply Z.leb_le; nia|]. apply Z.ltb_ge in E1.
    destruct (x =? y) eqn:E2.
    + apply Z.eqb_eq in E2. subst y. cbn [orb andb].
      destruct (sn 0 a <=? sn 0 b) eqn:E3; symmetry; [apply Z.leb_le; apply Z.leb_le in E3; lia | apply Z.leb_gt; apply Z.leb_gt in E3; lia].
    + apply Z.eqb_neq in E2. cbn [orb andb]. symmetry. apply Z.leb_gt. nia.
Qed.

(** a common prefix does not matter *)
Lemma str_leb_prefix p a b : str_leb (p ++ a) (p ++ b) = str_leb a b.
Proof. induction p as [|x p IH]; [reflexivity|]. cbn [app str_leb]. rewrite Z.ltb_irrefl, Z.eqb_refl, IH. reflexivity. Qed.

(** leading zeros *)
Lemma sn_zeros k s : sn 0 (repeat 48 k ++ s) = sn 0 s.
Proof. induction k as [|k IH]; [reflexivity|]. cbn [repeat app]. change (sn 0 (48 :: repeat 48 k ++ s)) with (sn 0 (repeat 48 k ++ s)). exact IH. Qed.
Lemma zeros_digits k s : is_digits s -> is_digits (repeat 48 k ++ s).
Proof. intros H. induction k as [|k IH]; [exact H|]. cbn [repeat app]. constructor; [lia|exact IH]. Qed.

(** ---------- for the tables of the current source: the pad is zeros in FRONT, up to the width *)
Lemma ak_pad_is_zero_fill s : ak_pad s = repeat 48 (Z.to_nat gen_ak_width - length s) ++ s.
Proof. reflexivity. Qed.

Lemma ak_pad_length s : (length s <= Z.to_nat gen_ak_width)%nat -> length (ak_pad s) = Z.to_nat gen_ak_width.
Proof. intros H. rewrite ak_pad_is_zero_fill, app_length, repeat_length. lia. Qed.

(** keys of one timestamp: ids of at most `width` digits order as numbers (9 before 10) *)
Theorem avl_key_same_instant (t : tstamp) (a b : list Z) :
  is_digits a -> is_digits b -> (length a <= Z.to_nat gen_ak_width)%nat -> (length b <= Z.to_nat gen_ak_width)%nat ->
  str_leb (avl_key_gen t a) (avl_key_gen t b) = (str_num a <=? str_num b).
Proof.
  intros Ha Hb La Lb. unfold avl_key_gen. rewrite !str_leb_prefix.
  rewrite str_leb_digits.
  - rewrite !ak_pad_is_zero_fill, !sn_zeros. reflexivity.
  - rewrite ak_pad_is_zero_fill. apply zeros_digits, Ha.
  - rewrite ak_pad_is_zero_fill. apply zeros_digits, Hb.
  - rewrite !ak_pad_length by assumption. reflexivity.
Qed.

(** every lot key of a timestamp is <= the lookup key of that timestamp: the max disambiguator is `width` nines *)
Lemma max_disambiguator_shape :
  is_digits gen_ak_max_disambiguator /\ length gen_ak_max_disambiguator = Z.to_nat gen_ak_width /\
  str_num gen_ak_max_disambiguator = 10 ^ gen_ak_width - 1.
Proof. split; [repeat constructor; lia | split; reflexivity]. Qed.

Theorem avl_key_below_lookup_key (t : tstamp) (a : list Z) :
  is_digits a -> (length a <= Z.to_nat gen_ak_width)%nat -> str_leb (avl_key_gen t a) (avl_lookup_key_gen t) = true.
Proof.
  intros Ha La. destruct max_disambiguator_shape as (Hd & Hl & Hn).
  unfold avl_lookup_key_gen. rewrite avl_key_same_instant; [|assumption|assumption|assumption|lia].
  rewrite Hn. apply Z.leb_le. rewrite str_num_sn.
  pose proof (sn_bound a Ha) as B.
  assert (10 ^ Z.of_nat (length a) <= 10 ^ gen_ak_width).
  { apply Z.pow_le_mono_r; [lia|]. assert (0 <= gen_ak_width) by (vm_compute; discriminate). lia. }
  lia.
Qed.

Definition avl_key_strings_agree : Prop :=
  (forall t a b, is_digits a -> is_digits b -> (length a <= Z.to_nat gen_ak_width)%nat -> (length b <= Z.to_nat gen_ak_width)%nat ->
     str_leb (avl_key_gen t a) (avl_key_gen t b) = (str_num a <=? str_num b)) /\
  (forall t a, is_digits a -> (length a <= Z.to_nat gen_ak_width)%nat -> str_leb (avl_key_gen t a) (avl_lookup_key_gen t) = true).
Lemma avl_key_strings_gen_agree : avl_key_strings_agree.
Proof. exact (conj avl_key_same_instant avl_key_below_lookup_key). Qed.
