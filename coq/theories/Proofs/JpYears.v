(** __generate_asset: grouping of an asset's transactions by calendar year, the order in which the
    years are handled, and what each iteration hands to the next (previous_year_row_offset,
    previous_year). *)
From Coq Require Import List ZArith Bool Lia Permutation Sorted ZifyBool.
From RP2V Require Import Base.Prelude Base.Time Base.Dec Base.Sorting Base.Assoc Model.Types Model.Generated Model.Txn
  Model.Pipeline Model.Computed Model.Grid Model.ReportInput Model.JpReport Proofs.AssocProofs Proofs.SortingProofs Proofs.JpOps.
Import ListNotations.
Open Scope Z_scope.

Notation yfilter y := (fun t : txn => tx_year t =? y).

(** ---------- years_2_transaction_sets *)
Lemma groups_get l : forall m y,
  aget_d [] y (fold_left group_add l m) = aget_d [] y m ++ filter (yfilter y) l.
Proof.
  induction l as [|t l IH]; intros m y; cbn [fold_left filter]; [rewrite app_nil_r; reflexivity|].
  rewrite IH. unfold group_add. rewrite aget_d_aset.
  rewrite (Z.eqb_sym (tx_year t) y). destruct (y =? tx_year t) eqn:E.
  - assert (y = tx_year t) by lia. subst y. rewrite <- app_assoc. reflexivity.
  - reflexivity.
Qed.

Lemma groups_keys l : forall m y,
  In y (map fst (fold_left group_add l m)) <-> In y (map fst m) \/ In y (map tx_year l).
Proof.
  induction l as [|t l IH]; intros m y; cbn [fold_left map In]; [tauto|].
  rewrite IH. unfold group_add. rewrite aset_in_keys. intuition.
Qed.

Lemma groups_nodup l : forall m, NoDup (map fst m) -> NoDup (map fst (fold_left group_add l m)).
Proof.
  induction l as [|t l IH]; intros m H; cbn [fold_left]; [exact H|].
  apply IH. unfold group_add. apply aset_NoDup. exact H.
Qed.

Lemma year_groups_nodup l : NoDup (map fst (year_groups l)).
Proof. apply groups_nodup. constructor. Qed.

Lemma year_groups_in l y g : In (y, g) (year_groups l) -> g = filter (yfilter y) l /\ In y (map tx_year l).
Proof.
  intros H. split.
  - pose proof (In_aget _ _ _ (year_groups_nodup l) H) as E.
    pose proof (groups_get l [] y) as G. unfold year_groups in E. unfold aget_d in G at 1. rewrite E in G. exact G.
  - apply (in_map fst) in H. cbn [fst] in H. apply groups_keys in H. destruct H as [[]|H]. exact H.
Qed.

Lemma year_groups_keys l y : In y (map fst (year_groups l)) <-> exists t, In t l /\ tx_year t = y.
Proof.
  unfold year_groups. rewrite groups_keys. cbn [map In]. rewrite in_map_iff. split.
  - intros [[]|[t [E H]]]. exists t. auto.
  - intros [t [H E]]. right. exists t. auto.
Qed.

(** ---------- the order of the year loop *)
Section Order.
Variable ys : bool.

Lemma ordered_groups_perm l : Permutation (ordered_groups ys l) (year_groups l).
Proof. unfold ordered_groups. destruct ys; [apply sort_by_perm|apply Permutation_refl]. Qed.

Lemma ordered_groups_in l y g : In (y, g) (ordered_groups ys l) -> g = filter (yfilter y) l /\ In y (map tx_year l).
Proof. intros H. apply year_groups_in. eapply Permutation_in; [apply ordered_groups_perm|exact H]. Qed.

Lemma ordered_groups_nodup l : NoDup (map fst (ordered_groups ys l)).
Proof.
  eapply Permutation_NoDup; [|apply year_groups_nodup]. apply Permutation_map, Permutation_sym, ordered_groups_perm.
Qed.

Lemma ordered_groups_keys l y : In y (map fst (ordered_groups ys l)) <-> exists t, In t l /\ tx_year t = y.
Proof.
  rewrite <- year_groups_keys. split; apply Permutation_in; apply Permutation_map;
    [apply ordered_groups_perm|apply Permutation_sym, ordered_groups_perm].
Qed.
End Order.

(** sorted(d.items()): strictly increasing years *)
Lemma sorted_nodup_lt (l : list Z) : StronglySorted Z.le l -> NoDup l -> StronglySorted Z.lt l.
Proof.
  induction 1 as [|x l Hs IH Hx]; intros Hn; constructor.
  - apply IH. inversion Hn; auto.
  - inversion Hn; subst. rewrite Forall_forall in *. intros y Hy. specialize (Hx y Hy).
    assert (x <> y) by (intro; subst; tauto). lia.
Qed.

Lemma sorted_map_fst {B} (l : list (Z * B)) :
  StronglySorted (fun a b => fst a <= fst b) l -> StronglySorted Z.le (map fst l).
Proof.
  induction 1 as [|x l Hs IH Hx]; cbn [map]; constructor; [exact IH|].
  rewrite Forall_forall in *. intros y Hy. apply in_map_iff in Hy. destruct Hy as [p [<- Hp]]. auto.
Qed.

Lemma ordered_groups_sorted l : StronglySorted Z.lt (map fst (ordered_groups true l)).
Proof.
  apply sorted_nodup_lt; [|apply ordered_groups_nodup].
  unfold ordered_groups. apply sorted_map_fst. apply (sort_by_sorted (@fst Z (list txn))).
Qed.

(** ---------- the loop *)
Section Loop.
Variable lang : Z.
Variable yg : bool.
Variable exs : list str.
Variable pe : bool.

Lemma year_loop_years asset gs : forall p q, map em_year (year_loop lang yg exs pe asset p q gs) = map fst gs.
Proof. induction gs as [|[y l] gs IH]; intros p q; cbn [year_loop map fst em_year]; [reflexivity|]. rewrite IH. reflexivity. Qed.

Lemma year_loop_in asset gs : forall p q e, In e (year_loop lang yg exs pe asset p q gs) ->
  em_asset e = asset /\ exists l, In (em_year e, l) gs /\ em_txs e = sort_by t_us l.
Proof.
  induction gs as [|[y l] gs IH]; intros p q e H; cbn [year_loop In] in H; [contradiction|].
  destruct H as [<-|H].
  - cbn [em_asset em_year em_txs]. split; [reflexivity|]. exists l. split; [left; reflexivity|reflexivity].
  - destruct (IH _ _ _ H) as [Ha [l' [Hin E]]]. split; [exact Ha|]. exists l'. split; [right; exact Hin|exact E].
Qed.

(** what an iteration receives: nothing in the first one; afterwards the returned row of, and (when
    the source passes it on) the year of, the iteration just before *)
Fixpoint chained (prev_off prev_year : Z) (l : list emission) : Prop :=
  match l with
  | [] => True
  | e :: t => em_prev_off e = prev_off /\ (pe = true -> em_prev_year e = prev_year) /\ (pe = false -> em_prev_year e = em_year e - 1)
              /\ chained (em_return lang yg exs e) (em_year e) t
  end.

Lemma year_loop_chained asset gs : forall p q, chained p q (year_loop lang yg exs pe asset p q gs).
Proof.
  induction gs as [|[y l] gs IH]; intros p q; cbn [year_loop chained]; [exact I|].
  cbn [em_prev_off em_prev_year em_year]. repeat split.
  - intros ->. reflexivity.
  - intros ->. reflexivity.
  - apply IH.
Qed.

Lemma chained_split l : forall p q pre e post, chained p q l -> l = pre ++ e :: post ->
  match rev pre with
  | [] => em_prev_off e = p /\ (pe = true -> em_prev_year e = q)
  | e' :: _ => em_prev_off e = em_return lang yg exs e' /\ (pe = true -> em_prev_year e = em_year e')
  end.
Proof.
  induction l as [|x l IH]; intros p q pre e post H E; [destruct pre; discriminate|].
  destruct pre as [|x' pre]; cbn [app] in E; inversion E; subst.
  - cbn [rev]. cbn [chained] in H. tauto.
  - cbn [chained] in H. destruct H as [_ [_ [_ H]]].
    specialize (IH _ _ pre e post H eq_refl). cbn [rev].
    destruct (rev pre) as [|e' r] eqn:R; cbn [app].
    + apply (f_equal (@rev _)) in R. rewrite rev_involutive in R. subst pre. cbn [rev] in *. exact IH.
    + exact IH.
Qed.
End Loop.
