(** Non-vacuity of the table-order theorems (Proofs/TableOrder.v): the sheet of Proofs/ParserExample.v (tables in the order
    OUT, IN, INTRA; an acquisition with a crypto fee, hence an artificial fee disposal) and the same tables in the order
    IN, INTRA, OUT with other blank rows, other keyword spellings and other row widths meet every hypothesis; the parsed
    results, the time-sorted sets, the taxable events and the fractions are equal up to one renaming of sheet rows. *)
From Coq Require Import List ZArith Bool Lia Permutation.
From RP2V Require Import Base.Prelude Base.Time Base.Dec Base.Sorting Model.Types Model.Generated Model.Txn Model.Matcher
  Model.Pipeline Model.Parser Model.Render Model.TableOrderSpec
  Proofs.ParserLookup Proofs.ParserRows Proofs.ParserSheet Proofs.ParserSpec Proofs.ParserExample Proofs.TableOrder.
Import ListNotations.
Open Scope Z_scope.

Definition ex_blocks2 : list block :=
  [ {| b_tab := TabIn; b_gap := [[CEmpty]; [cs []]]; b_kw := [cs [105; 110]]; b_hdr := ex_hdr;
       b_rows := [(SIn ex_in1, fun _ => CEmpty); (SIn ex_in2, ex_junk)]; b_end := [cs TABLE_END]; b_width := 12 |};
    {| b_tab := TabIntra; b_gap := []; b_kw := [cs [73; 110; 116; 114; 97]]; b_hdr := ex_hdr;
       b_rows := [(SIntra ex_x1, ex_junk)]; b_end := [cs TABLE_END]; b_width := 9 |};
    {| b_tab := TabOut; b_gap := [[CEmpty; cs [120]]; []; [CEmpty]]; b_kw := [cs [111; 117; 116]]; b_hdr := ex_hdr;
       b_rows := [(SOut ex_out1, ex_junk)]; b_end := [cs TABLE_END; CNum 1 1]; b_width := 10 |} ].

Lemma ex_wf2 : wf_blocks ex_cfg ex_asset 1 ex_blocks2.
Proof. simpl. split; [solve_block | split; [solve_block | split; [solve_block | exact I]]]. Qed.

Lemma ex_same : same_tables ex_blocks ex_blocks2.
Proof.
  unfold same_tables, ex_blocks, ex_blocks2, block_content. cbn [map b_tab b_rows fst].
  match goal with |- Permutation [?a; ?b; ?c] _ => apply (Permutation_cons_app [b; c] [] a) end. rewrite app_nil_r. apply Permutation_refl.
Qed.

Definition parsed_dflt : parsed := {| pa_ins := []; pa_outs := []; pa_intras := []; pa_counter := 0; pa_meta := [] |}.
Definition ex_p1 : parsed := Eval vm_compute in match expected ex_cfg 0 ex_blocks with Ok p => p | Err _ => parsed_dflt end.
Definition ex_p2 : parsed := Eval vm_compute in match expected ex_cfg 0 ex_blocks2 with Ok p => p | Err _ => parsed_dflt end.
Lemma ex_p1_ok : expected ex_cfg 0 ex_blocks = Ok ex_p1.
Proof. vm_compute. reflexivity. Qed.
Lemma ex_p2_ok : expected ex_cfg 0 ex_blocks2 = Ok ex_p2.
Proof. vm_compute. reflexivity. Qed.

Definition txs_dflt : txs := {| t_ins := []; t_outs := []; t_intras := [] |}.
Definition ex_t1 : txs := Eval vm_compute in match txs_of_parsed ex_p1 with Ok t => t | Err _ => txs_dflt end.
Lemma ex_t1_ok : txs_of_parsed ex_p1 = Ok ex_t1.
Proof. vm_compute. reflexivity. Qed.
Definition ex_sched : list (Z * meth) := [(1970, Hifo)].
Definition ex_fs1 : list fraction := Eval vm_compute in match fractions_of gen_always_repush ex_sched ex_t1 with Ok fs => fs | Err _ => [] end.
Lemma ex_fs1_ok : fractions_of gen_always_repush ex_sched ex_t1 = Ok ex_fs1.
Proof. vm_compute. reflexivity. Qed.

(** the instance of the composed theorem *)
Example ex_table_order :=
  table_order_pipeline_invariant ex_cfg ex_asset 0 0 ex_blocks ex_blocks2 [[CEmpty]] [] ex_p1
    ltac:(vm_compute; reflexivity) ex_wf ex_wf2
    ltac:(simpl; repeat constructor; simpl; intuition discriminate) ex_same
    ltac:(intros r [<-|[]]; reflexivity) ltac:(intros r []) ltac:(lia) ex_p1_ok ltac:(vm_compute; discriminate).

(** ... and what it says here: the row ids differ (IN rows 8, 9 / 5, 6; the sale 4 / 17; the transfer 15 / 10), the artificial
    fee disposal keeps its id -1, and the fractions of the second sheet are those of the first under the renaming *)
Example table_order_nonvacuous :
  expected ex_cfg 0 ex_blocks = Ok ex_p1 /\ expected ex_cfg 0 ex_blocks2 = Ok ex_p2 /\
  map i_row (pa_ins ex_p1) = [8; 9] /\ map o_row (pa_outs ex_p1) = [4; -1] /\ map x_row (pa_intras ex_p1) = [15] /\
  map i_row (pa_ins ex_p2) = [5; 6] /\ map o_row (pa_outs ex_p2) = [17; -1] /\ map x_row (pa_intras ex_p2) = [10] /\
  exists rho,
    parse_sheet ex_cfg ex_asset 0 (render_sheet ex_cfg ex_asset ex_blocks [[CEmpty]]) = Ok ex_p1 /\
    parse_sheet ex_cfg ex_asset 0 (render_sheet ex_cfg ex_asset ex_blocks2 []) = Ok ex_p2 /\
    renamed_by rho ex_p1 ex_p2 /\ txs_of_parsed ex_p2 = Ok (rn_txs rho ex_t1) /\
    fractions_of gen_always_repush ex_sched (rn_txs rho ex_t1) = Ok (map (rn_frac rho) ex_fs1) /\
    map (fun f => (f_ev f, f_lot f)) ex_fs1 = [(9, None); (4, Some 8); (-1, Some 8)] /\
    map (fun f => (f_ev f, f_lot f)) (map (rn_frac rho) ex_fs1) = [(6, None); (17, Some 5); (-1, Some 5)].
Proof.
  split; [exact ex_p1_ok|]. split; [exact ex_p2_ok|]. do 6 (split; [vm_compute; reflexivity|]).
  destruct ex_table_order as (P1 & p2 & rho & P2 & HR & HT & HF).
  assert (p2 = ex_p2).
  { pose proof (parse_render ex_cfg ex_asset 0 0 ex_blocks2 [] ex_p2 ltac:(vm_compute; reflexivity) ex_wf2
                  ltac:(simpl; repeat constructor; simpl; intuition discriminate) ltac:(intros r []) ex_p2_ok ltac:(vm_compute; discriminate)) as P2'.
    rewrite P2 in P2'. injection P2' as ->. reflexivity. }
  subst p2. exists rho. split; [exact P1|]. split; [exact P2|]. split; [exact HR|].
  rewrite ex_t1_ok in HT. cbn [rn_res] in HT. split; [exact HT|].
  destruct (HF ex_t1 ex_t1_ok) as (_ & HFR). specialize (HFR gen_always_repush ex_sched). rewrite ex_fs1_ok in HFR. cbn [rn_res] in HFR.
  split; [exact HFR|]. split; [vm_compute; reflexivity|].
  (* the renaming, read off the two parsed results *)
  destruct HR as (_ & Hi & Ho & _).
  assert (R8 : rho 8 = 5 /\ rho 9 = 6).
  { pose proof (f_equal (map i_row) Hi) as H. rewrite map_map in H. vm_compute in H. injection H as H1 H2. auto. }
  assert (R4 : rho 4 = 17 /\ rho (-1) = -1).
  { pose proof (f_equal (map o_row) Ho) as H. rewrite map_map in H. vm_compute in H. injection H as H1 H2. auto. }
  destruct R8 as (R8 & R9), R4 as (R4 & R1). unfold ex_fs1. cbn [map rn_frac f_ev f_lot option_map]. rewrite R8, R9, R4, R1. reflexivity.
Qed.
