(** Full report model: generic facts about sequences of cell writes, tables and headers. *)
From RP2V Require Import Base.Prelude Base.Time Base.Dec Base.Sorting Base.Assoc Model.Types Model.Generated Model.Txn
  Model.Matcher Model.Pipeline Model.Computed Model.Grid Model.ReportInput Model.FullReport Proofs.AssocProofs.
Open Scope Z_scope.

(** the writes that hit cell (r, c), in order *)
Definition at_cell (r c : Z) (w : cellw) : bool := (cw_row w =? r) && (cw_col w =? c).
Definition writes_at (ws : list cellw) (r c : Z) : list cellw := filter (at_cell r c) ws.
(** every write of ws lies in rows [r0, r1) and columns [c0, c1) *)
Definition box (r0 r1 c0 c1 : Z) (ws : list cellw) : Prop :=
  Forall (fun w => r0 <= cw_row w < r1 /\ c0 <= cw_col w < c1) ws.

Lemma filter_nil {A} (p : A -> bool) l : (forall x, In x l -> p x = false) -> filter p l = [].
Proof.
  induction l as [|x t IH]; intros H; simpl; auto.
  rewrite (H x) by (left; reflexivity). apply IH. intros y Hy. apply H. right; exact Hy.
Qed.

Lemma writes_at_app a b r c : writes_at (a ++ b) r c = writes_at a r c ++ writes_at b r c.
Proof. unfold writes_at. apply filter_app. Qed.

Lemma box_app r0 r1 c0 c1 a b : box r0 r1 c0 c1 a -> box r0 r1 c0 c1 b -> box r0 r1 c0 c1 (a ++ b).
Proof. unfold box; intros; apply Forall_app; split; assumption. Qed.

Lemma box_weaken r0 r1 c0 c1 r0' r1' c0' c1' ws :
  box r0 r1 c0 c1 ws -> r0' <= r0 -> r1 <= r1' -> c0' <= c0 -> c1 <= c1' -> box r0' r1' c0' c1' ws.
Proof. unfold box; intros H ? ? ? ?. eapply Forall_impl; [|exact H]. simpl; intros; lia. Qed.

Lemma writes_at_outside r0 r1 c0 c1 ws r c :
  box r0 r1 c0 c1 ws -> ~ (r0 <= r < r1) -> writes_at ws r c = [].
Proof.
  unfold box, writes_at; intros H Hn. induction H as [|w ws Hw _ IH]; simpl; auto.
  unfold at_cell at 1. destruct (cw_row w =? r) eqn:E; simpl; auto.
  apply Z.eqb_eq in E. exfalso; apply Hn; lia.
Qed.

Lemma box_sheet_ok s : box 0 (sw_rows s) 0 (sw_cols s) (sw_writes s) -> sheet_ok s = true.
Proof.
  unfold sheet_ok, box. intro H. apply forallb_forall. intros w Hw.
  rewrite Forall_forall in H. specialize (H w Hw). unfold in_capacity.
  repeat (apply andb_true_intro; split); try apply Z.leb_le; try apply Z.ltb_lt; lia.
Qed.

(** ---------- rows of a table *)
Definition col_of (x : fcol) : Z := fst (fst x).
Definition cols_ok (cols : list fcol) : Prop := NoDup (map col_of cols) /\ Forall (fun x => 0 <= col_of x < gen_full_max_columns) cols.

Lemma row_cells_box r cols cell : Forall (fun x => 0 <= col_of x < gen_full_max_columns) cols ->
  box r (r + 1) 0 gen_full_max_columns (row_cells r cols cell).
Proof.
  unfold box, row_cells. intro H. apply Forall_map. eapply Forall_impl; [|exact H].
  intros [[c l] f]; unfold col_of; simpl. intros; lia.
Qed.

Lemma row_cells_at r cols cell c lk f :
  NoDup (map col_of cols) -> In (c, lk, f) cols ->
  writes_at (row_cells r cols cell) r c = [cw r c (cell lk f)].
Proof.
  unfold writes_at, row_cells. induction cols as [|[[c' l'] f'] cols IH]; simpl; intros Hnd Hin; [contradiction|].
  inversion Hnd as [|? ? Hni Hnd']; subst. unfold at_cell at 1; simpl. rewrite Z.eqb_refl; simpl.
  destruct Hin as [E|Hin].
  - inversion E; subst. rewrite Z.eqb_refl. f_equal.
    apply filter_nil. intros w Hw. apply in_map_iff in Hw. destruct Hw as [[[c2 l2] f2] [<- Hin2]].
    unfold at_cell; simpl. rewrite Z.eqb_refl; simpl. apply Z.eqb_neq. intro; subst.
    apply Hni. apply in_map_iff. exists (c, l2, f2); auto.
  - destruct (c' =? c) eqn:E.
    + apply Z.eqb_eq in E; subst. exfalso. apply Hni. apply in_map_iff. exists (c, lk, f); auto.
    + apply IH; auto.
Qed.

Section TableFacts.
Context {A : Type} (cols : A -> list fcol) (cell : nat -> A -> flink -> ffield -> payload).

Lemma table_rows_box : forall l r k, (forall t, In t l -> Forall (fun x => 0 <= col_of x < gen_full_max_columns) (cols t)) ->
  box r (r + Z.of_nat (length l)) 0 gen_full_max_columns (table_rows cols cell r k l).
Proof.
  induction l as [|t rest IH]; intros r k H; simpl table_rows.
  - constructor.
  - apply box_app.
    + eapply box_weaken; [apply row_cells_box; apply H; left; reflexivity| | | |]; simpl length; lia.
    + eapply box_weaken; [apply (IH (r + 1) (S k)); intros; apply H; right; assumption| | | |]; simpl length; lia.
Qed.

(** the only writes to a cell of row [r + j] are those of the j-th element, one per column of its layout *)
Lemma table_rows_at : forall l r k j t c lk f,
  (forall t, In t l -> Forall (fun x => 0 <= col_of x < gen_full_max_columns) (cols t)) ->
  nth_error l j = Some t -> NoDup (map col_of (cols t)) -> In (c, lk, f) (cols t) ->
  writes_at (table_rows cols cell r k l) (r + Z.of_nat j) c = [cw (r + Z.of_nat j) c (cell (k + j)%nat t lk f)].
Proof.
  induction l as [|t0 rest IH]; intros r k j t c lk f Hc Hn Hnd Hin; [destruct j; discriminate|].
  simpl table_rows. rewrite writes_at_app. destruct j as [|j]; simpl in Hn.
  - inversion Hn; subst t0. simpl Z.of_nat. rewrite Z.add_0_r, Nat.add_0_r.
    rewrite (row_cells_at r (cols t) (cell k t) c lk f Hnd Hin).
    rewrite (writes_at_outside (r + 1) (r + 1 + Z.of_nat (length rest)) 0 gen_full_max_columns); [reflexivity| |lia].
    apply table_rows_box. intros; apply Hc; right; assumption.
  - rewrite (writes_at_outside r (r + 1) 0 gen_full_max_columns); [| apply row_cells_box; apply Hc; left; reflexivity | lia].
    cbn [app]. replace (r + Z.of_nat (S j)) with (r + 1 + Z.of_nat j) by lia.
    replace (k + S j)%nat with (S k + j)%nat by lia.
    apply IH; auto. intros; apply Hc; right; assumption.
Qed.

(** and nothing else is written: every write of the table comes from some element, at its row *)
Lemma table_rows_only : forall l r k w, In w (table_rows cols cell r k l) ->
  exists j t c lk f, nth_error l j = Some t /\ In (c, lk, f) (cols t) /\ w = cw (r + Z.of_nat j) c (cell (k + j)%nat t lk f).
Proof.
  induction l as [|t0 rest IH]; intros r k w H; simpl in H; [contradiction|].
  apply in_app_or in H. destruct H as [H|H].
  - unfold row_cells in H. apply in_map_iff in H. destruct H as [[[c lk] f] [<- Hin]].
    exists O, t0, c, lk, f. simpl. rewrite Z.add_0_r, Nat.add_0_r. auto.
  - destruct (IH _ _ _ H) as (j & t & c & lk & f & Hn & Hin & ->).
    exists (S j), t, c, lk, f. simpl nth_error. repeat split; auto.
    f_equal; try lia. replace (k + S j)%nat with (S k + j)%nat by lia. reflexivity.
Qed.
End TableFacts.

(** ---------- headers *)
Lemma hdr_cols_box : forall h1 h2 r c, 0 <= c -> c + Z.of_nat (length h1) <= gen_full_max_columns ->
  box r (r + 2) 0 gen_full_max_columns (hdr_cols r c h1 h2).
Proof.
  induction h1 as [|a t1 IH]; intros h2 r c Hc Hl; simpl; [constructor|].
  destruct h2 as [|b t2]; [constructor|].
  simpl length in Hl. constructor; [simpl; lia|]. constructor; [simpl; lia|].
  apply IH; lia.
Qed.

Definition hdr_ok (h : list bool * list bool * Z) : Prop :=
  0 <= snd h /\ snd h + Z.of_nat (length (fst (fst h))) <= gen_full_max_columns.

Lemma fill_header_box r h : hdr_ok h -> 0 < gen_full_max_columns ->
  box r (r + gen_header_height) 0 gen_full_max_columns (fst (fill_header r h)).
Proof.
  destruct h as [[h1 h2] c]. unfold hdr_ok; simpl. intros [H0 H1] Hm. change gen_header_height with 3.
  constructor; [simpl; lia|]. constructor; [simpl; lia|]. constructor; [simpl; lia|].
  eapply box_weaken; [apply (hdr_cols_box h1 h2 (r + 1) c H0 H1)| | | |]; lia.
Qed.

Lemma fill_header_snd r h : snd (fill_header r h) = r + gen_header_height.
Proof. destruct h as [[h1 h2] c]; reflexivity. Qed.

(** ---------- from "the only write to the cell" to "the final content of the cell" (what the file holds) *)
Lemma cell_key_inj r c r' c' : 0 <= c < 1024 -> 0 <= c' < 1024 -> cell_key r c = cell_key r' c' -> r = r' /\ c = c'.
Proof. unfold cell_key. intros. lia. Qed.

Lemma final_cells_get : forall ws (m : assoc payload) r c,
  0 <= c < 1024 -> Forall (fun w => 0 <= cw_col w < 1024) ws ->
  aget (cell_key r c) (fold_left (fun m w => aset (cell_key (cw_row w) (cw_col w)) (cw_val w) m) ws m)
  = match rev (writes_at ws r c) with
    | w :: _ => Some (cw_val w)
    | [] => aget (cell_key r c) m
    end.
Proof.
  induction ws as [|w t IH]; intros m r c Hc Hall; [reflexivity|].
  inversion Hall as [|? ? Hw Ht]; subst. cbn [fold_left]. rewrite (IH _ r c Hc Ht).
  unfold writes_at. cbn [filter]. fold (writes_at t r c).
  destruct (at_cell r c w) eqn:E.
  - cbn [rev]. unfold at_cell in E. apply andb_prop in E. destruct E as [E1 E2]. apply Z.eqb_eq in E1, E2.
    destruct (rev (writes_at t r c)) as [|w' l]; cbn [app]; [|reflexivity].
    rewrite E1, E2. apply aget_aset_same.
  - destruct (rev (writes_at t r c)) as [|w' l]; [|reflexivity].
    apply aget_aset_other. intro K. apply cell_key_inj in K; [|exact Hc|exact Hw]. destruct K as [K1 K2].
    unfold at_cell in E. rewrite K1, K2, !Z.eqb_refl in E. discriminate.
Qed.

(** if exactly one write hits the cell, the cell finally holds its value *)
Lemma cell_at_single ws r c w : 0 <= c < 1024 -> Forall (fun w => 0 <= cw_col w < 1024) ws ->
  writes_at ws r c = [w] -> cell_at ws r c = cw_val w.
Proof.
  intros Hc Hall H. unfold cell_at, aget_d, final_cells. rewrite (final_cells_get ws [] r c Hc Hall). rewrite H. reflexivity.
Qed.

Lemma box_cols r0 r1 ws : box r0 r1 0 gen_full_max_columns ws -> Forall (fun w => 0 <= cw_col w < 1024) ws.
Proof. unfold box. intro H. eapply Forall_impl; [|exact H]. simpl. intros a [_ Hb]. assert (gen_full_max_columns <= 1024) by (vm_compute; discriminate). lia. Qed.
