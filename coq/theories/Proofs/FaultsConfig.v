(** C12: malformed configuration, conflicting / unsupported options, and the end-to-end consequence: any rejection in
    the front end means a non-zero exit status and no report. *)
From RP2V Require Import Base.Prelude Base.Time Base.Dec Base.Sorting Model.Types Model.Generated Model.Txn Model.Parser
  Model.ConfigModel Proofs.FaultsCtor.
Open Scope Z_scope.

(** ---------- header sections *)
Lemma validate_header_go_app t : forall pre rest acc0,
  validate_header_go t (pre ++ rest) acc0
  = match validate_header_go t pre acc0 with Ok acc => validate_header_go t rest acc | Err e => Err e end.
Proof.
  induction pre as [|[k v] pre IH]; intros rest acc0; [reflexivity|].
  simpl. destruct (parse_int v) as [c|]; [|reflexivity].
  destruct (c <? 0); [reflexivity|]. destruct (existsb (fun fc => snd fc =? c) acc0); [reflexivity|].
  destruct (str_index k (fields_of t) 0); [|reflexivity]. apply IH.
Qed.

Definition header_item_bad (t : table) (acc : list (Z * Z)) (k v : str) : Prop :=
  parse_int v = None \/                                             (* non-integer column *)
  exists c, parse_int v = Some c /\
            (c < 0 \/                                               (* negative column *)
             existsb (fun fc => snd fc =? c) acc = true \/          (* column already used by an earlier field *)
             str_index k (fields_of t) 0 = None).                   (* unknown field *)

(** a bad line at any position of a header section (after any accepted lines, before anything) *)
Theorem header_fault_at_any_position t pre k v post acc :
  validate_header_go t pre [] = Ok acc -> header_item_bad t acc k v ->
  is_err (validate_header t (pre ++ (k, v) :: post)).
Proof.
  intros P B. unfold validate_header.
  assert (G : is_err (validate_header_go t (pre ++ (k, v) :: post) [])).
  { rewrite validate_header_go_app, P. simpl.
    destruct B as [B|[c [B1 B]]].
    - rewrite B. exact I.
    - rewrite B1. destruct (c <? 0) eqn:N; [exact I|]. apply Z.ltb_ge in N.
      destruct B as [B|[B|B]]; [lia| rewrite B; exact I |].
      destruct (existsb (fun fc => snd fc =? c) acc); [exact I|]. rewrite B. exact I. }
  destruct (pre ++ (k, v) :: post) eqn:L; [destruct pre; discriminate|]. exact G.
Qed.

Lemma header_empty t : is_err (validate_header t []).
Proof. exact I. Qed.

(** the fields a header section may contain are exactly the constructor parameters of its table (translated) *)
Lemma header_fields_in : fields_of TabIn = gen_in_fields. Proof. reflexivity. Qed.

(** int(): what is, and what is not, an integer column *)
Example parse_int_examples :
  parse_int [49; 50] = Some 12 /\ parse_int [32; 55; 32] = Some 7 /\ parse_int [43; 51] = Some 3 /\ parse_int [45; 49] = Some (-1) /\
  parse_int [49; 95; 48] = Some 10 /\ parse_int [49; 46; 53] = None /\ parse_int [97; 98; 99] = None /\ parse_int [] = None /\
  parse_int [49; 101; 49] = None /\ parse_int [48; 120; 49] = None /\ parse_int [95; 49] = None /\ parse_int [49; 95] = None.
Proof. vm_compute. repeat split; reflexivity. Qed.

(** ---------- sections *)
Definition known_section (n : str) : bool :=
  str_eqb n gen_kw_general || str_eqb n gen_in_section || str_eqb n gen_out_section || str_eqb n gen_intra_section
  || str_eqb n gen_kw_accounting_methods.

Lemma unknown_section s name items : known_section (norm_section name) = false -> is_err (section_step s (name, items)).
Proof.
  unfold known_section, section_step. intro H.
  repeat (apply orb_false_iff in H; destruct H as [H ?]).
  rewrite H, H0, H1, H2, H3. exact I.
Qed.

Lemma sections_go_app : forall l1 l2 s,
  sections_go s (l1 ++ l2) = match sections_go s l1 with Ok s' => sections_go s' l2 | Err e => Err e end.
Proof. induction l1 as [|x l1 IH]; intros l2 s; [reflexivity|]. simpl. destruct (section_step s x); [apply IH|reflexivity]. Qed.

Definition cstate0 : cstate :=
  {| cs_assets := []; cs_exchanges := []; cs_holders := []; cs_in := []; cs_out := []; cs_intra := []; cs_methods := [] |}.

(** a rejected section at any position of the file *)
Theorem section_fault_at_any_position pre sec post s :
  sections_go cstate0 pre = Ok s -> is_err (section_step s sec) -> is_err (validate_config (pre ++ sec :: post)).
Proof.
  intros P B. unfold validate_config. fold cstate0. rewrite sections_go_app, P. simpl.
  destruct (section_step s sec); [contradiction|exact I].
Qed.

(** a header section with a bad line is a rejected section *)
Lemma in_header_section_bad s name items :
  str_eqb (norm_section name) gen_kw_general = false -> str_eqb (norm_section name) gen_in_section = true ->
  is_err (validate_header TabIn items) -> is_err (section_step s (name, items)).
Proof.
  intros H1 H2 B. unfold section_step. rewrite H1, H2. destruct (nonempty (cs_in s)); [exact I|].
  destruct (validate_header TabIn items); [contradiction|exact I].
Qed.

(** a section given twice *)
Lemma duplicate_in_section s name items :
  str_eqb (norm_section name) gen_kw_general = false -> str_eqb (norm_section name) gen_in_section = true ->
  cs_in s <> [] -> is_err (section_step s (name, items)).
Proof.
  intros H1 H2 B. unfold section_step. rewrite H1, H2. destruct (cs_in s); [congruence|exact I].
Qed.

(** a mandatory section or [general] field that never appeared *)
Theorem missing_mandatory l s :
  sections_go cstate0 l = Ok s ->
  cs_assets s = [] \/ cs_exchanges s = [] \/ cs_holders s = [] \/ cs_in s = [] \/ cs_out s = [] \/ cs_intra s = [] ->
  is_err (validate_config l).
Proof.
  intros P B. unfold validate_config. fold cstate0. rewrite P.
  destruct B as [B|[B|[B|[B|[B|B]]]]]; rewrite B; simpl; rewrite ?andb_false_r; exact I.
Qed.

Lemma general_missing_field items :
  assoc_str gen_kw_assets items = None \/ assoc_str gen_kw_exchanges items = None \/ assoc_str gen_kw_holders items = None ->
  forall s name, str_eqb (norm_section name) gen_kw_general = true -> is_err (section_step s (name, items)).
Proof.
  intros B s name H. unfold section_step. rewrite H.
  destruct (nonempty (cs_assets s) || nonempty (cs_exchanges s) || nonempty (cs_holders s)); [exact I|].
  unfold string_set.
  destruct B as [B|[B|B]].
  - rewrite B. exact I.
  - destruct (match assoc_str gen_kw_assets items with Some _ => _ | None => _ end); [|exact I]. simpl. rewrite B. exact I.
  - destruct (match assoc_str gen_kw_assets items with Some _ => _ | None => _ end); [|exact I]. simpl.
    destruct (match assoc_str gen_kw_exchanges items with Some _ => _ | None => _ end); [|exact I]. simpl. rewrite B. exact I.
Qed.

(** ---------- command-line options *)
Definition cfg_has_methods (cfg : result cstate) : bool := match cfg with Ok s => nonempty (cs_methods s) | Err _ => false end.

Theorem method_option_with_config_section c o s m :
  op_method o = Some m -> cs_methods s <> [] -> fst (options_check c o (Ok s)) <> 0 /\ snd (options_check c o (Ok s)) = [].
Proof.
  intros M N. unfold options_check. rewrite M.
  destruct (meth_of_name m) as [mm|]; [destruct (meth_in mm (country_methods c))|]; simpl; try (split; [lia|reflexivity]).
  destruct (op_to_day o <? op_from_day o); simpl; [split; [lia|reflexivity]|].
  destruct (cs_methods s); [congruence|]. simpl. split; [lia|reflexivity].
Qed.

Theorem unsupported_method_option c o cfg m :
  op_method o = Some m -> (forall mm, meth_of_name m = Some mm -> meth_in mm (country_methods c) = false) ->
  options_check c o cfg = (2, []).
Proof.
  intros M U. unfold options_check. rewrite M. destruct (meth_of_name m) as [mm|] eqn:E; [|reflexivity].
  rewrite (U mm eq_refl). reflexivity.
Qed.

Lemma method_support_table :
  country_methods US = [Fifo; Lifo; Hifo; Lofo] /\ country_methods GENERIC = [Fifo; Lifo; Hifo; Lofo] /\
  country_methods ES = [Fifo] /\ country_methods JP = [Fifo] /\ country_methods IE = [Fifo].
Proof. repeat split; reflexivity. Qed.

Theorem from_date_after_to_date c o cfg :
  op_to_day o < op_from_day o -> fst (options_check c o cfg) <> 0 /\ snd (options_check c o cfg) = [].
Proof.
  intro H. unfold options_check.
  destruct (match op_method o with Some m => _ | None => _ end); simpl; [|split; [lia|reflexivity]].
  destruct (op_to_day o <? op_from_day o) eqn:E; [simpl; split; [lia|reflexivity]|]. apply Z.ltb_ge in E. lia.
Qed.

Theorem unknown_asset_option c o s a :
  op_asset o = Some a -> str_mem a (cs_assets s) = false -> fst (options_check c o (Ok s)) <> 0 /\ snd (options_check c o (Ok s)) = [].
Proof.
  intros A N. unfold options_check. rewrite A, N.
  destruct (match op_method o with Some m => _ | None => _ end); simpl; [|split; [lia|reflexivity]].
  destruct (op_to_day o <? op_from_day o); simpl; [split; [lia|reflexivity]|].
  destruct (_ && _); simpl; [split; [lia|reflexivity]|].
  destruct (existsb _ (cs_methods s)); simpl; split; try lia; reflexivity.
Qed.

Theorem unknown_method_in_config c o s y m :
  In (y, m) (cs_methods s) -> meth_of_name m = None -> fst (options_check c o (Ok s)) <> 0 /\ snd (options_check c o (Ok s)) = [].
Proof.
  intros I N. unfold options_check.
  destruct (match op_method o with Some m0 => _ | None => _ end); simpl; [|split; [lia|reflexivity]].
  destruct (op_to_day o <? op_from_day o); simpl; [split; [lia|reflexivity]|].
  destruct (_ && _); simpl; [split; [lia|reflexivity]|].
  assert (E : existsb (fun ym => match meth_of_name (snd ym) with Some _ => false | None => true end) (cs_methods s) = true).
  { apply existsb_exists. exists (y, m). split; [exact I|]. simpl. rewrite N. reflexivity. }
  rewrite E. simpl. split; [lia|reflexivity].
Qed.

Theorem malformed_config_rejected c o e : fst (options_check c o (Err e)) <> 0 /\ snd (options_check c o (Err e)) = [].
Proof.
  unfold options_check.
  destruct (match op_method o with Some m0 => _ | None => _ end); simpl; [|split; [lia|reflexivity]].
  destruct (op_to_day o <? op_from_day o); simpl; split; try lia; reflexivity.
Qed.

(** ---------- end to end: any rejection = non-zero exit status and no report, whatever comes after parsing *)
Lemma parse_all_err cfg : forall pre a post workbook counter ps,
  parse_all cfg pre workbook counter = Ok ps ->
  (match workbook a with
   | None => True
   | Some rows => is_err (parse_sheet cfg a (match rev ps with [] => counter | (_, p) :: _ => pa_counter p end) rows)
   end) ->
  is_err (parse_all cfg (pre ++ a :: post) workbook counter).
Proof.
  induction pre as [|x pre IH]; intros a post workbook counter ps P B.
  - simpl in P. inversion P; subst ps. simpl in B. simpl.
    destruct (workbook a); [|exact I]. destruct (parse_sheet cfg a counter l); [contradiction|exact I].
  - simpl in P. simpl. destruct (workbook x); [|discriminate].
    destruct (parse_sheet cfg x counter l) as [p|]; [|discriminate].
    destruct (parse_all cfg pre workbook (pa_counter p)) as [ps'|] eqn:P'; [|discriminate].
    inversion P; subst ps.
    assert (G : is_err (parse_all cfg (pre ++ a :: post) workbook (pa_counter p))).
    { apply (IH a post workbook (pa_counter p) ps' P').
      destruct (workbook a); [|exact I].
      simpl in B. destruct (rev ps') as [|[a0 p0] r] eqn:R; simpl in B; [exact B|exact B]. }
    destruct (parse_all cfg (pre ++ a :: post) workbook (pa_counter p)); [contradiction|exact I].
Qed.

Theorem no_report_on_rejection c o secs ts workbook back :
  fst (options_check c o (validate_config secs)) <> 0 \/
  is_err (validate_config secs) \/
  (exists s, validate_config secs = Ok s /\
             is_err (parse_all (pcfg_of s ts) (snd (options_check c o (validate_config secs))) workbook 0)) ->
  fst (front_end c o secs ts workbook back) <> 0 /\ snd (front_end c o secs ts workbook back) = [].
Proof.
  intro H. unfold front_end.
  destruct (options_check c o (validate_config secs)) as [code assets] eqn:O. simpl in H.
  destruct (code =? 0) eqn:C; simpl.
  - apply Z.eqb_eq in C. subst code.
    destruct H as [H|[H|[s [V H]]]]; [congruence| |].
    + destruct (validate_config secs); [contradiction|]. simpl. split; [lia|reflexivity].
    + rewrite V. destruct (parse_all (pcfg_of s ts) assets workbook 0); [contradiction|]. simpl. split; [lia|reflexivity].
  - apply Z.eqb_neq in C. split; [exact C|reflexivity].
Qed.
