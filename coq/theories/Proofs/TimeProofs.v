(** Facts about the time model: floor-day characterisation, correctness and
    monotonicity of [year_of_day]. *)
From RP2V Require Import Base.Prelude Base.Time.
From Coq Require Import ZifyBool.
Open Scope Z_scope.

Ltac Zify.zify_post_hook ::= Z.to_euclidean_division_equations.

Lemma days_between_ge (a b : tstamp) (p : Z) :
  p <= days_between a b <-> p * US_PER_DAY <= utc_us b - utc_us a.
Proof. unfold days_between, US_PER_DAY. split; intro H; lia. Qed.

Lemma days_between_instants a a' b b' :
  utc_us a = utc_us a' -> utc_us b = utc_us b' -> days_between a b = days_between a' b'.
Proof. unfold days_between; intros -> ->; reflexivity. Qed.

Lemma dby1_step y : dby1 y < dby1 (y + 1).
Proof. unfold dby1, leaps_before. lia. Qed.

Lemma dby1_mono y y' : y <= y' -> dby1 y <= dby1 y'.
Proof. unfold dby1, leaps_before. intro H. lia. Qed.

Lemma year_go_spec d1 fuel y :
  dby1 y <= d1 -> d1 < dby1 (y + Z.of_nat fuel) ->
  let r := year_go d1 fuel y in dby1 r <= d1 < dby1 (r + 1).
Proof.
  revert y; induction fuel as [|f IH]; intros y Hlo Hhi; cbn [year_go].
  - replace (y + Z.of_nat 0) with y in Hhi by lia. lia.
  - destruct (dby1 (y + 1) <=? d1) eqn:E.
    + apply IH; [lia|]. replace (y + 1 + Z.of_nat f) with (y + Z.of_nat (S f)) by lia. exact Hhi.
    + cbv zeta. lia.
Qed.

Lemma year_start_le d1 : 0 <= d1 -> dby1 (1 + d1 / 366) <= d1.
Proof. intro H. unfold dby1, leaps_before. lia. Qed.

Lemma year_fuel_enough d1 : 0 <= d1 ->
  d1 < dby1 (1 + d1 / 366 + Z.of_nat (Z.to_nat (d1 / 366 / 300 + 3))).
Proof.
  intro H. rewrite Z2Nat.id by lia. unfold dby1, leaps_before. lia.
Qed.

Theorem year_of_day_spec d : - EPOCH_SHIFT <= d ->
  days_before_year (year_of_day d) <= d < days_before_year (year_of_day d + 1).
Proof.
  intro H. unfold year_of_day, days_before_year.
  set (d1 := d + EPOCH_SHIFT). assert (0 <= d1) by (unfold d1; lia).
  pose proof (year_go_spec d1 (Z.to_nat (d1 / 366 / 300 + 3)) (1 + d1 / 366)
                (year_start_le d1 H0) (year_fuel_enough d1 H0)) as S.
  cbv zeta in S. unfold d1 in *. lia.
Qed.

Lemma days_before_year_mono y y' : y <= y' -> days_before_year y <= days_before_year y'.
Proof. unfold days_before_year; intro; pose proof (dby1_mono y y'); lia. Qed.

(** The year containing a day is unique. *)
Lemma year_unique d y y' :
  days_before_year y <= d < days_before_year (y + 1) ->
  days_before_year y' <= d < days_before_year (y' + 1) -> y = y'.
Proof.
  intros H H'. destruct (Z.lt_trichotomy y y') as [L|[E|L]]; auto.
  - pose proof (days_before_year_mono (y + 1) y'). lia.
  - pose proof (days_before_year_mono (y' + 1) y). lia.
Qed.

Theorem year_of_day_mono d d' : - EPOCH_SHIFT <= d -> d <= d' -> year_of_day d <= year_of_day d'.
Proof.
  intros H L. pose proof (year_of_day_spec d H). pose proof (year_of_day_spec d' ltac:(lia)).
  destruct (Z_le_gt_dec (year_of_day d) (year_of_day d')) as [?|G]; auto.
  pose proof (days_before_year_mono (year_of_day d' + 1) (year_of_day d)). lia.
Qed.

(** Non-vacuity / sanity: well-known dates. *)
Example year_examples :
  year_of_day 0 = 1970 /\ year_of_day 364 = 1970 /\ year_of_day 365 = 1971 /\
  year_of_day 18262 = 2020 /\ year_of_day 18627 = 2020 /\ year_of_day 18628 = 2021 /\
  year_of_day (-1) = 1969 /\ year_of_day 2932896 = 9999 /\ year_of_day (-719162) = 1.
Proof. vm_compute. repeat split. Qed.

Example ymd_examples :
  ymd_of_day 18321 = (2020, 2, 29) /\ ymd_of_day 18322 = (2020, 3, 1) /\ ymd_of_day 0 = (1970, 1, 1).
Proof. vm_compute. repeat split. Qed.
