(** Full report model: no write leaves the In-Out sheet; none leaves the Tax sheet while at most [max_holders]
    holders have a balance (finding F12 beyond that). *)
From RP2V Require Import Base.Prelude Base.Time Base.Dec Base.Sorting Base.Assoc Model.Types Model.Generated Model.Txn
  Model.Matcher Model.Pipeline Model.Computed Model.Grid Model.ReportInput Model.FullReport Proofs.AssocProofs
  Proofs.FullReportLayout Proofs.FullReportProofs Proofs.FullReportCompute.
Open Scope Z_scope.

(** the window's lists are sub-lists of the asset's transactions: sizes *)
Definition window_le (x : actx) : Prop :=
  (length (cd_ins (ac_c x)) <= length (t_ins (ac_txs x)))%nat /\ (length (cd_outs (ac_c x)) <= length (t_outs (ac_txs x)))%nat /\
  (length (cd_intras (ac_c x)) <= length (t_intras (ac_txs x)))%nat.

Lemma inout_sheet_ok env inp x : window_le x -> sheet_ok (inout_sheet env inp x) = true.
Proof.
  intros (H1 & H2 & H3). apply box_sheet_ok. simpl sw_rows. simpl sw_cols. simpl sw_writes.
  eapply box_weaken; [exact (inout_box env inp x)| | | |]; try lia.
  pose proof inout_fixed_rows. pose proof (inout_layout_facts x).
  assert (gen_full_inout_rows (Z.of_nat (length (t_ins (ac_txs x)))) (Z.of_nat (length (t_outs (ac_txs x))))
            (Z.of_nat (length (t_intras (ac_txs x))))
          = gen_full_min_rows + Z.of_nat (length (t_ins (ac_txs x))) + Z.of_nat (length (t_outs (ac_txs x)))
            + Z.of_nat (length (t_intras (ac_txs x)))) by (unfold gen_full_inout_rows; lia).
  lia.
Qed.

(** capacity: 40 + yearly + balances + all fractions rows; used: 19 + yearly + balances + holders + shown fractions *)
Lemma tax_sheet_ok env inp x lm :
  (length (cd_gls (ac_c x)) <= length (cd_all_gls (ac_c x)))%nat ->
  Z.of_nat (length (holder_totals inp (cd_balances (ac_c x)))) <= max_holders ->
  sheet_ok (tax_sheet env inp x lm) = true.
Proof.
  intros Hg Hh. apply box_sheet_ok. simpl sw_rows. simpl sw_cols. simpl sw_writes.
  eapply box_weaken; [exact (tax_box env inp x lm)| | | |]; try lia.
  pose proof (tax_layout_facts inp x). pose proof (drows_le x). unfold max_holders, tax_fixed in Hh.
  assert (gen_full_tax_rows (Z.of_nat (length (cd_yearly (ac_c x)))) (Z.of_nat (length (cd_balances (ac_c x)))) (Z.of_nat (length (cd_all_gls (ac_c x))))
          = gen_full_min_rows + Z.of_nat (length (cd_yearly (ac_c x))) + Z.of_nat (length (cd_balances (ac_c x))) + Z.of_nat (length (cd_all_gls (ac_c x))))
    by (unfold gen_full_tax_rows; lia).
  lia.
Qed.

Section FromCompute.
Variables (period from_day to_day : Z) (allow : bool) (exs hos : list str) (fs : list fraction) (x : actx).
Hypothesis Hc : compute period from_day to_day allow exs hos (ac_txs x) fs = Ok (ac_c x).

Lemma compute_window_le : window_le x.
Proof.
  destruct (compute_fields _ _ _ _ _ _ _ _ _ Hc) as (A & B & C & _). unfold window_le. rewrite A, B, C.
  repeat split; apply iter_window_length.
Qed.

Lemma compute_gls_le : (length (cd_gls (ac_c x)) <= length (cd_all_gls (ac_c x)))%nat.
Proof. destruct (compute_fields _ _ _ _ _ _ _ _ _ Hc) as (_ & _ & _ & D). rewrite D. apply iter_window_length. Qed.
End FromCompute.

(** capacity of the two sheets of an asset, for ComputedData produced by [compute] *)
Lemma inout_capacity env inp x period from_day to_day allow exs hos fs :
  compute period from_day to_day allow exs hos (ac_txs x) fs = Ok (ac_c x) -> sheet_ok (inout_sheet env inp x) = true.
Proof. intro H. apply inout_sheet_ok. eapply compute_window_le; eassumption. Qed.
Lemma tax_capacity env inp x lm period from_day to_day allow exs hos fs :
  compute period from_day to_day allow exs hos (ac_txs x) fs = Ok (ac_c x) ->
  Z.of_nat (length (holder_totals inp (cd_balances (ac_c x)))) <= max_holders -> sheet_ok (tax_sheet env inp x lm) = true.
Proof. intros H H0. apply tax_sheet_ok; [eapply compute_gls_le; eassumption|exact H0]. Qed.
