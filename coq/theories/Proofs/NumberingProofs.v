(** Functional specification of the fraction numbering ([numbering] / [num_step] of Computed.v =
    GainLossSet._sort_entries).

    Structure:
    1. [num_step] is the product of two independent machines, one for the event labels (two
       scalars) and one for the lot labels (two dictionaries); every error is [EValue];
    2. the event machine on a list of event blocks ([ev_blocks]);
    3. the lot machine: exact characterisation of success ([lots_ok]) and of its result, with no
       hypothesis on the list;
    4. [numbering]: result, success and failure. *)
From Coq Require Import List ZArith Bool Lia Permutation ZifyBool.
From RP2V Require Import Base.Prelude Base.Assoc Base.Sorting Base.Dec Base.Time Model.Types Model.Generated Model.Txn
  Model.Matcher Model.Pipeline Model.Computed Model.NumberSpec Proofs.AssocProofs Proofs.SortingProofs Proofs.FilterProofs.
Import ListNotations.
Open Scope Z_scope.

(** * 0. association lists: deletion, and the final merge of the pending table *)
Section AssocMore.
Context {V : Type}.
Implicit Types (m : assoc V) (k : Z) (v : V).

Lemma aget_adel_other k k' m : k <> k' -> aget k (adel k' m) = aget k m.
Proof.
  intros Hne. induction m as [|[k2 v2] m IH]; cbn [adel aget]; [reflexivity|].
  destruct (k' =? k2) eqn:E; cbn [aget].
  - destruct (k =? k2) eqn:E2; [lia|reflexivity].
  - destruct (k =? k2); [reflexivity|exact IH].
Qed.

Lemma aget_adel_same k m : NoDup (map fst m) -> aget k (adel k m) = None.
Proof.
  induction m as [|[k2 v2] m IH]; cbn [adel aget map fst]; intros Hnd; [reflexivity|].
  inversion Hnd as [|? ? Hni Hnd']; subst.
  destruct (k =? k2) eqn:E.
  - assert (k = k2) by lia. subst k2. apply aget_None_iff. exact Hni.
  - cbn [aget]. rewrite E. apply IH. exact Hnd'.
Qed.

Lemma adel_keys_incl k m x : In x (map fst (adel k m)) -> In x (map fst m).
Proof.
  induction m as [|[k2 v2] m IH]; cbn [adel map fst]; [tauto|].
  destruct (k =? k2); cbn [map fst In]; [tauto|]. intros [H|H]; [left; exact H|right; apply IH; exact H].
Qed.

Lemma adel_NoDup k m : NoDup (map fst m) -> NoDup (map fst (adel k m)).
Proof.
  induction m as [|[k2 v2] m IH]; cbn [adel map fst]; intros Hnd; [constructor|].
  inversion Hnd as [|? ? Hni Hnd']; subst.
  destruct (k =? k2); [exact Hnd'|]. cbn [map fst]. constructor; [|apply IH; exact Hnd'].
  intros Hin. apply Hni. eapply adel_keys_incl. exact Hin.
Qed.

Lemma amem_adel_other k k' m : k <> k' -> amem k (adel k' m) = amem k m.
Proof. intros H. unfold amem. rewrite aget_adel_other by exact H. reflexivity. Qed.

Lemma amem_aget_none k m : amem k m = false <-> aget k m = None.
Proof. unfold amem. destruct (aget k m); split; congruence. Qed.
Lemma amem_aget_some k m : amem k m = true <-> aget k m <> None.
Proof. unfold amem. destruct (aget k m); split; congruence. Qed.
End AssocMore.

Lemma merge_totals_err pending : forall tot r,
  In r (map fst pending) -> amem r tot = true -> merge_totals pending tot = Err EValue.
Proof.
  induction pending as [|[k v] t IH]; intros tot r Hin Hm; cbn [merge_totals]; [destruct Hin|].
  destruct (amem k tot) eqn:E; [reflexivity|].
  cbn [map fst In] in Hin. destruct Hin as [->|Hin]; [congruence|].
  apply (IH _ r Hin). rewrite amem_aset, Hm. apply orb_true_r.
Qed.

Lemma merge_totals_ok pending : forall tot,
  NoDup (map fst pending) -> (forall k, In k (map fst pending) -> amem k tot = false) ->
  exists res, merge_totals pending tot = Ok res /\
    forall r, aget r res = match aget r pending with Some v => Some v | None => aget r tot end.
Proof.
  induction pending as [|[k v] t IH]; intros tot Hnd Hfree; cbn [merge_totals].
  - exists tot. split; [reflexivity|]. intros r. reflexivity.
  - cbn [map fst] in Hnd, Hfree. inversion Hnd as [|? ? Hni Hnd']; subst.
    rewrite (Hfree k (or_introl eq_refl)).
    destruct (IH (aset k v tot) Hnd') as (res & Hres & Hget).
    + intros k' Hk'. rewrite amem_aset. rewrite (Hfree k' (or_intror Hk')).
      destruct (k' =? k) eqn:E; [|reflexivity]. exfalso. apply Hni. assert (k' = k) by lia. subst. exact Hk'.
    + exists res. split; [exact Hres|]. intros r. rewrite Hget. cbn [aget]. rewrite aget_aset.
      destruct (r =? k) eqn:E; [|reflexivity].
      assert (r = k) by lia. subst r.
      assert (N : aget k t = None) by (apply aget_None_iff; exact Hni). rewrite N. reflexivity.
Qed.

Lemma merge_totals_err_kind pending : forall tot e, merge_totals pending tot = Err e -> e = EValue.
Proof.
  induction pending as [|[k v] t IH]; intros tot e; cbn [merge_totals]; [discriminate|].
  destruct (amem k tot); [congruence|]. apply IH.
Qed.

(** * 1. the two machines *)
Record evst := { es_amt : Z; es_frac : nat; es_fraction : list nat; es_total : assoc nat }.
Record lotst := { ls_amt : assoc Z; ls_frac : assoc nat; ls_fraction : list (option nat); ls_total : assoc nat }.

Definition ev_step (st : result evst) (g : gl) : result evst :=
  match st with
  | Err e => Err e
  | Ok s =>
    let ev_amt := es_amt s + g_amt g in
    let want := t_balance_change (g_ev g) in
    if ev_amt =? want then
      (if amem (ev_row g) (es_total s) then Err EValue
       else Ok {| es_amt := 0; es_frac := O; es_fraction := es_fraction s ++ [es_frac s];
                  es_total := aset (ev_row g) (S (es_frac s)) (es_total s) |})
    else if ev_amt <? want then
      Ok {| es_amt := ev_amt; es_frac := S (es_frac s); es_fraction := es_fraction s ++ [es_frac s]; es_total := es_total s |}
    else Err EValue
  end.

Definition lot_step (st : result lotst) (g : gl) : result lotst :=
  match st with
  | Err e => Err e
  | Ok s =>
    match g_lot g with
    | None => Ok {| ls_amt := ls_amt s; ls_frac := ls_frac s; ls_fraction := ls_fraction s ++ [None]; ls_total := ls_total s |}
    | Some l =>
      let lr := i_row l in
      let la := aget_d 0 lr (ls_amt s) + g_amt g in
      let lf := aget_d O lr (ls_frac s) in
      let lwant := in_crypto_balance_change l in
      if la =? lwant then
        (if amem lr (ls_total s) then Err EValue
         else Ok {| ls_amt := adel lr (ls_amt s); ls_frac := adel lr (ls_frac s); ls_fraction := ls_fraction s ++ [Some lf];
                    ls_total := aset lr (S lf) (ls_total s) |})
      else if la <? lwant then
        Ok {| ls_amt := aset lr la (ls_amt s); ls_frac := aset lr (S lf) (ls_frac s); ls_fraction := ls_fraction s ++ [Some lf];
              ls_total := ls_total s |}
      else Err EValue
    end
  end.

Definition ev_of (s : numst) : evst :=
  {| es_amt := n_ev_amt s; es_frac := n_ev_frac s; es_fraction := n_ev_fraction s; es_total := n_ev_total s |}.
Definition lot_of (s : numst) : lotst :=
  {| ls_amt := n_lot_amt s; ls_frac := n_lot_frac s; ls_fraction := n_lot_fraction s; ls_total := n_lot_total s |}.
Definition last_lot (o : option gl) (g : gl) : option gl := match g_lot g with Some _ => Some g | None => o end.
Definition join (a : evst) (b : lotst) (o : option gl) : numst :=
  {| n_ev_amt := es_amt a; n_ev_frac := es_frac a; n_lot_amt := ls_amt b; n_lot_frac := ls_frac b;
     n_ev_fraction := es_fraction a; n_lot_fraction := ls_fraction b; n_ev_total := es_total a; n_lot_total := ls_total b;
     n_last_with_lot := o |}.

Lemma ev_of_join a b o : ev_of (join a b o) = a.
Proof. destruct a. reflexivity. Qed.
Lemma lot_of_join a b o : lot_of (join a b o) = b.
Proof. destruct b. reflexivity. Qed.

Lemma num_step_split s g :
  num_step (Ok s) g =
  match ev_step (Ok (ev_of s)) g, lot_step (Ok (lot_of s)) g with
  | Ok a, Ok b => Ok (join a b (last_lot (n_last_with_lot s) g))
  | _, _ => Err EValue
  end.
Proof.
  unfold num_step, ev_step, lot_step, last_lot, ev_row. cbn [ev_of lot_of es_amt es_frac es_fraction es_total ls_amt ls_frac ls_fraction ls_total].
  destruct (g_lot g) as [l|];
    repeat match goal with |- context [if ?c then _ else _] => destruct c end; reflexivity.
Qed.

Lemma fold_err {A S} (f : result S -> A -> result S) (Hf : forall e x, f (Err e) x = Err e) l e :
  fold_left f l (Err e) = Err e.
Proof. induction l as [|x l IH]; cbn [fold_left]; [reflexivity|]. rewrite Hf. exact IH. Qed.
Lemma ev_fold_err l e : fold_left ev_step l (Err e) = Err e.
Proof. apply fold_err. reflexivity. Qed.
Lemma lot_fold_err l e : fold_left lot_step l (Err e) = Err e.
Proof. apply fold_err. reflexivity. Qed.
Lemma num_fold_err l e : fold_left num_step l (Err e) = Err e.
Proof. apply fold_err. reflexivity. Qed.

Lemma ev_step_err_kind s g e : ev_step (Ok s) g = Err e -> e = EValue.
Proof.
  unfold ev_step. repeat match goal with |- context [if ?c then _ else _] => destruct c end; congruence.
Qed.
Lemma lot_step_err_kind s g e : lot_step (Ok s) g = Err e -> e = EValue.
Proof.
  unfold lot_step. destruct (g_lot g); [|discriminate].
  repeat match goal with |- context [if ?c then _ else _] => destruct c end; congruence.
Qed.
Lemma ev_fold_err_kind l : forall s e, fold_left ev_step l (Ok s) = Err e -> e = EValue.
Proof.
  induction l as [|g l IH]; intros s e; cbn [fold_left]; [discriminate|].
  destruct (ev_step (Ok s) g) as [s1|e1] eqn:E; [apply IH|].
  rewrite ev_fold_err. intros [= <-]. exact (ev_step_err_kind _ _ _ E).
Qed.
Lemma lot_fold_err_kind l : forall s e, fold_left lot_step l (Ok s) = Err e -> e = EValue.
Proof.
  induction l as [|g l IH]; intros s e; cbn [fold_left]; [discriminate|].
  destruct (lot_step (Ok s) g) as [s1|e1] eqn:E; [apply IH|].
  rewrite lot_fold_err. intros [= <-]. exact (lot_step_err_kind _ _ _ E).
Qed.

Lemma num_fold_split l : forall s,
  fold_left num_step l (Ok s) =
  match fold_left ev_step l (Ok (ev_of s)), fold_left lot_step l (Ok (lot_of s)) with
  | Ok a, Ok b => Ok (join a b (fold_left last_lot l (n_last_with_lot s)))
  | _, _ => Err EValue
  end.
Proof.
  induction l as [|g l IH]; intros s; cbn [fold_left].
  - destruct s. reflexivity.
  - rewrite num_step_split.
    destruct (ev_step (Ok (ev_of s)) g) as [a|e1] eqn:E1.
    + destruct (lot_step (Ok (lot_of s)) g) as [b|e2] eqn:E2.
      * rewrite IH, ev_of_join, lot_of_join. reflexivity.
      * rewrite num_fold_err, lot_fold_err. destruct (fold_left ev_step l (Ok a)); reflexivity.
    + rewrite num_fold_err, ev_fold_err. reflexivity.
Qed.

(** * 2. counting *)
Lemma ev_count_app r a b : ev_count r (a ++ b) = (ev_count r a + ev_count r b)%nat.
Proof. unfold ev_count. rewrite filter_app, app_length. reflexivity. Qed.
Lemma lot_count_app r a b : lot_count r (a ++ b) = (lot_count r a + lot_count r b)%nat.
Proof. unfold lot_count. rewrite filter_app, app_length. reflexivity. Qed.
Lemma lot_sum_app r a b : lot_sum r (a ++ b) = lot_sum r a + lot_sum r b.
Proof. unfold lot_sum. rewrite filter_app, map_app, sumZ_app. reflexivity. Qed.
Lemma amt_sum_app a b : amt_sum (a ++ b) = amt_sum a + amt_sum b.
Proof. unfold amt_sum. rewrite map_app, sumZ_app. reflexivity. Qed.
Lemma ev_count_one r g : ev_count r [g] = if of_ev r g then 1%nat else 0%nat.
Proof. unfold ev_count. cbn [filter]. destruct (of_ev r g); reflexivity. Qed.
Lemma lot_count_one r g : lot_count r [g] = if of_lot r g then 1%nat else 0%nat.
Proof. unfold lot_count. cbn [filter]. destruct (of_lot r g); reflexivity. Qed.
Lemma lot_sum_one r g : lot_sum r [g] = if of_lot r g then g_amt g else 0.
Proof. unfold lot_sum. cbn [filter]. destruct (of_lot r g); cbn [map sumZ]; lia. Qed.
Lemma ev_count_cons r g l : ev_count r (g :: l) = ((if of_ev r g then 1 else 0) + ev_count r l)%nat.
Proof. change (g :: l) with ([g] ++ l). rewrite ev_count_app, ev_count_one. reflexivity. Qed.
Lemma lot_count_cons r g l : lot_count r (g :: l) = ((if of_lot r g then 1 else 0) + lot_count r l)%nat.
Proof. change (g :: l) with ([g] ++ l). rewrite lot_count_app, lot_count_one. reflexivity. Qed.

Lemma ev_count_none r l : (forall g, In g l -> ev_row g <> r) -> ev_count r l = O.
Proof.
  intros H. unfold ev_count. rewrite filter_none; [reflexivity|].
  intros g Hg. unfold of_ev. specialize (H g Hg). lia.
Qed.
Lemma ev_count_all r l : (forall g, In g l -> ev_row g = r) -> ev_count r l = length l.
Proof.
  intros H. unfold ev_count. f_equal. apply filter_all. intros g Hg. unfold of_ev. rewrite (H g Hg). apply Z.eqb_refl.
Qed.
Lemma ev_count_pos r l g : In g l -> ev_row g = r -> ev_count r l <> O.
Proof.
  intros Hg Hr. unfold ev_count. intros H0. apply length_zero_iff_nil in H0.
  assert (Hin : In g (filter (of_ev r) l)) by (apply filter_In; split; [exact Hg|unfold of_ev; lia]).
  rewrite H0 in Hin. destruct Hin.
Qed.
Lemma lot_count_pos r l g a : In g l -> g_lot g = Some a -> i_row a = r -> lot_count r l <> O.
Proof.
  intros Hg Ha Hr. unfold lot_count. intros H0. apply length_zero_iff_nil in H0.
  assert (Hin : In g (filter (of_lot r) l)) by (apply filter_In; split; [exact Hg|unfold of_lot; rewrite Ha; lia]).
  rewrite H0 in Hin. destruct Hin.
Qed.
Lemma lot_count_zero_sum r l : lot_count r l = O -> lot_sum r l = 0.
Proof. unfold lot_count, lot_sum. intros H. apply length_zero_iff_nil in H. rewrite H. reflexivity. Qed.

(** the index lists in terms of positions *)
Lemma ev_idx_from_app l2 : forall l1 seen, ev_idx_from seen (l1 ++ l2) = ev_idx_from seen l1 ++ ev_idx_from (seen ++ l1) l2.
Proof.
  induction l1 as [|g l1 IH]; intros seen; cbn [app ev_idx_from].
  - rewrite app_nil_r. reflexivity.
  - rewrite IH, <- app_assoc. reflexivity.
Qed.
Lemma lot_idx_from_app l2 : forall l1 seen, lot_idx_from seen (l1 ++ l2) = lot_idx_from seen l1 ++ lot_idx_from (seen ++ l1) l2.
Proof.
  induction l1 as [|g l1 IH]; intros seen; cbn [app lot_idx_from].
  - rewrite app_nil_r. reflexivity.
  - rewrite IH, <- app_assoc. reflexivity.
Qed.
Lemma ev_idx_from_nth l : forall seen k,
  nth_error (ev_idx_from seen l) k = option_map (fun g => ev_count (ev_row g) (seen ++ firstn k l)) (nth_error l k).
Proof.
  induction l as [|g l IH]; intros seen [|k]; cbn [ev_idx_from nth_error option_map firstn]; try reflexivity.
  - rewrite app_nil_r. reflexivity.
  - rewrite IH, <- app_assoc. reflexivity.
Qed.
Lemma lot_idx_from_nth l : forall seen k,
  nth_error (lot_idx_from seen l) k = option_map (fun g => lot_occ (seen ++ firstn k l) g) (nth_error l k).
Proof.
  induction l as [|g l IH]; intros seen [|k]; cbn [lot_idx_from nth_error option_map firstn]; try reflexivity.
  - rewrite app_nil_r. reflexivity.
  - rewrite IH, <- app_assoc. reflexivity.
Qed.
Lemma ev_idx_length l : forall seen, length (ev_idx_from seen l) = length l.
Proof. induction l as [|g l IH]; intros seen; cbn [ev_idx_from length]; [reflexivity|]. rewrite IH. reflexivity. Qed.
Lemma lot_idx_length l : forall seen, length (lot_idx_from seen l) = length l.
Proof. induction l as [|g l IH]; intros seen; cbn [lot_idx_from length]; [reflexivity|]. rewrite IH. reflexivity. Qed.

(** a block of one event is numbered 0, 1, 2, ...; fractions of other events do not count *)
Lemma ev_idx_block r b : (forall g, In g b -> ev_row g = r) ->
  forall seen, ev_idx_from seen b = seq (ev_count r seen) (length b).
Proof.
  induction b as [|g b IH]; intros H seen; cbn [ev_idx_from length seq]; [reflexivity|].
  rewrite (H g (or_introl eq_refl)). f_equal.
  rewrite IH by (intros g' Hg'; apply H; right; exact Hg').
  rewrite ev_count_app, ev_count_one. unfold of_ev. rewrite (H g (or_introl eq_refl)), Z.eqb_refl.
  f_equal. lia.
Qed.
Lemma ev_idx_skip b rest : (forall g, In g rest -> ev_count (ev_row g) b = O) ->
  forall mid, ev_idx_from (b ++ mid) rest = ev_idx_from mid rest.
Proof.
  induction rest as [|g rest IH]; intros H mid; cbn [ev_idx_from]; [reflexivity|].
  rewrite ev_count_app, (H g (or_introl eq_refl)). cbn [Nat.add]. f_equal.
  rewrite <- app_assoc. apply IH. intros g' Hg'. apply H. right. exact Hg'.
Qed.

(** * 3. the event machine on blocks *)
Definition ev_run (l : list gl) (s : evst) : result evst := fold_left ev_step l (Ok s).

Lemma amt_sum_pos l : l <> [] -> (forall g, In g l -> 0 < g_amt g) -> 0 < amt_sum l.
Proof.
  destruct l as [|x l]; [congruence|]. intros _ H. unfold amt_sum. cbn [map sumZ].
  pose proof (H x (or_introl eq_refl)) as Hx.
  assert (0 <= sumZ (map g_amt l)); [|lia].
  clear Hx. induction l as [|y l IH]; cbn [map sumZ]; [lia|].
  pose proof (H y (or_intror (or_introl eq_refl))).
  assert (0 <= sumZ (map g_amt l)); [|lia]. apply IH. intros g [<-|Hg]; apply H; [left; reflexivity|right; right; exact Hg].
Qed.

Lemma ev_block_run : forall b r w,
  (forall g, In g b -> ev_row g = r /\ t_balance_change (g_ev g) = w /\ 0 < g_amt g) -> b <> [] ->
  forall a0 f0 fr tot, a0 + amt_sum b = w -> amem r tot = false ->
  ev_run b {| es_amt := a0; es_frac := f0; es_fraction := fr; es_total := tot |} =
  Ok {| es_amt := 0; es_frac := O; es_fraction := fr ++ seq f0 (length b); es_total := aset r (f0 + length b)%nat tot |}.
Proof.
  unfold ev_run. induction b as [|g b IH]; intros r w Hb Hne a0 f0 fr tot Hsum Hfree; [congruence|].
  destruct (Hb g (or_introl eq_refl)) as (Hr & Hw & Hpos).
  unfold amt_sum in Hsum. cbn [map sumZ] in Hsum. fold (amt_sum b) in Hsum.
  cbn [fold_left]. unfold ev_step at 2. cbn [es_amt es_frac es_fraction es_total]. rewrite Hw, Hr.
  destruct b as [|g' b'].
  - unfold amt_sum in Hsum. cbn [map sumZ] in Hsum.
    assert (E : (a0 + g_amt g =? w) = true) by lia. rewrite E, Hfree. cbn [fold_left length seq].
    replace (f0 + 1)%nat with (S f0) by lia. reflexivity.
  - assert (Hb' : forall x, In x (g' :: b') -> ev_row x = r /\ t_balance_change (g_ev x) = w /\ 0 < g_amt x)
      by (intros x Hx; apply Hb; right; exact Hx).
    assert (Hp : 0 < amt_sum (g' :: b')) by (apply amt_sum_pos; [discriminate|intros x Hx; apply Hb'; exact Hx]).
    assert (E : (a0 + g_amt g =? w) = false) by lia. assert (E2 : (a0 + g_amt g <? w) = true) by lia.
    rewrite E, E2. rewrite (IH r w Hb' ltac:(discriminate) (a0 + g_amt g) (S f0) (fr ++ [f0]) tot ltac:(lia) Hfree).
    rewrite <- app_assoc. cbn [app length seq].
    replace (f0 + S (S (length b')))%nat with (S f0 + S (length b'))%nat by lia. reflexivity.
Qed.

(** a trailing block that does not reach the event's total: amount and index stay pending *)
Lemma ev_partial_run : forall c r w,
  (forall g, In g c -> ev_row g = r /\ t_balance_change (g_ev g) = w /\ 0 < g_amt g) ->
  forall a0 f0 fr tot, a0 + amt_sum c < w ->
  ev_run c {| es_amt := a0; es_frac := f0; es_fraction := fr; es_total := tot |} =
  Ok {| es_amt := a0 + amt_sum c; es_frac := (f0 + length c)%nat; es_fraction := fr ++ seq f0 (length c); es_total := tot |}.
Proof.
  unfold ev_run. induction c as [|g c IH]; intros r w Hc a0 f0 fr tot Hsum.
  - cbn [fold_left length seq amt_sum map sumZ]. unfold amt_sum. cbn [map sumZ].
    rewrite app_nil_r, Z.add_0_r, Nat.add_0_r. reflexivity.
  - destruct (Hc g (or_introl eq_refl)) as (Hr & Hw & Hpos).
    unfold amt_sum in Hsum |- *. cbn [map sumZ] in Hsum |- *. fold (amt_sum c) in Hsum |- *.
    assert (Hc' : forall x, In x c -> ev_row x = r /\ t_balance_change (g_ev x) = w /\ 0 < g_amt x)
      by (intros x Hx; apply Hc; right; exact Hx).
    assert (Hp : 0 <= amt_sum c).
    { destruct c as [|y c']; [unfold amt_sum; cbn [map sumZ]; lia|].
      assert (0 < amt_sum (y :: c')); [|lia]. apply amt_sum_pos; [discriminate|]. intros x Hx. apply Hc'. exact Hx. }
    cbn [fold_left]. unfold ev_step at 2. cbn [es_amt es_frac es_fraction es_total]. rewrite Hw.
    assert (E : (a0 + g_amt g =? w) = false) by lia. assert (E2 : (a0 + g_amt g <? w) = true) by lia.
    rewrite E, E2. rewrite (IH r w Hc' (a0 + g_amt g) (S f0) (fr ++ [f0]) tot ltac:(lia)).
    rewrite <- app_assoc. cbn [app length seq].
    replace (f0 + S (length c))%nat with (S f0 + length c)%nat by lia.
    replace (a0 + g_amt g + amt_sum c) with (a0 + (g_amt g + amt_sum c)) by lia. reflexivity.
Qed.

Lemma ev_run_app a b s : ev_run (a ++ b) s = match ev_run a s with Ok s1 => ev_run b s1 | Err e => Err e end.
Proof.
  unfold ev_run. rewrite fold_left_app. destruct (fold_left ev_step a (Ok s)); [reflexivity|apply ev_fold_err].
Qed.

(** the whole list of blocks: indices restart at 0 in every block, the table holds the block lengths *)
Lemma ev_blocks_run l : ev_blocks l ->
  forall fr tot, (forall g, In g l -> amem (ev_row g) tot = false) ->
  exists tot', ev_run l {| es_amt := 0; es_frac := O; es_fraction := fr; es_total := tot |} =
               Ok {| es_amt := 0; es_frac := O; es_fraction := fr ++ ev_idx l; es_total := tot' |} /\
    forall r, aget r tot' = if Nat.eqb (ev_count r l) 0 then aget r tot else Some (ev_count r l).
Proof.
  induction 1 as [|e b rest Hne Hb0 Hsum Hrest Hblocks IH]; intros fr tot Hfree.
  - exists tot. unfold ev_run, ev_idx. cbn [fold_left ev_idx_from]. rewrite app_nil_r. split; [reflexivity|].
    intros r. reflexivity.
  - set (r := t_row e) in *. set (w := t_balance_change e) in *.
    assert (Hb : forall g, In g b -> ev_row g = r /\ t_balance_change (g_ev g) = w /\ 0 < g_amt g).
    { intros g Hg. destruct (Hb0 g Hg) as [He Hp]. unfold ev_row. rewrite He. split; [reflexivity|]. split; [reflexivity|exact Hp]. }
    destruct b as [|g0 b0] eqn:Eb; [congruence|]. rewrite <- Eb in *. clear Hne.
    assert (Hr0 : ev_row g0 = r) by (apply Hb; rewrite Eb; left; reflexivity).
    assert (Hfr : amem r tot = false).
    { rewrite <- Hr0. apply Hfree. apply in_or_app. left. rewrite Eb. left. reflexivity. }
    rewrite ev_run_app.
    rewrite (ev_block_run b r w Hb ltac:(rewrite Eb; discriminate) 0 O fr tot ltac:(lia) Hfr). cbn [Nat.add].
    destruct (IH (fr ++ seq 0 (length b)) (aset r (length b) tot)) as (tot' & Hrun & Htot).
    { intros g Hg. rewrite amem_aset. rewrite (Hfree g (in_or_app _ _ _ (or_intror Hg))).
      specialize (Hrest g Hg). destruct (ev_row g =? r) eqn:E; [lia|reflexivity]. }
    exists tot'. split.
    + rewrite Hrun. do 2 f_equal. rewrite <- app_assoc. f_equal.
      unfold ev_idx. rewrite ev_idx_from_app. cbn [app].
      rewrite (ev_idx_block r b) by (intros g Hg; apply Hb; exact Hg).
      replace (ev_count r []) with O by reflexivity. f_equal.
      symmetry. rewrite <- (app_nil_r b) at 1. apply ev_idx_skip.
      intros g Hg. apply ev_count_none. intros g' Hg'. destruct (Hb g' Hg') as (-> & _). specialize (Hrest g Hg). lia.
    + intros r'. rewrite Htot, ev_count_app. destruct (Z.eq_dec r' r) as [->|Hne].
      * rewrite (ev_count_none r rest Hrest). cbn [Nat.eqb]. rewrite Nat.add_0_r.
        rewrite (ev_count_all r b) by (intros g Hg; apply Hb; exact Hg).
        rewrite aget_aset_same. destruct (length b) eqn:El; [|reflexivity].
        apply length_zero_iff_nil in El. rewrite Eb in El. discriminate.
      * rewrite (ev_count_none r' b) by (intros g Hg; destruct (Hb g Hg) as (-> & _); lia). cbn [Nat.add].
        rewrite aget_aset_other by exact Hne. reflexivity.
Qed.

(** * 4. the lot machine *)
Definition lot_run (l : list gl) (s : lotst) : result lotst := fold_left lot_step l (Ok s).

(** the state after the fractions [p] when nothing went wrong: a lot without fractions is in no table; a lot
    with fractions is either pending (index and amount so far in the two dictionaries) or complete (its
    count in the totals, nothing pending) *)
Definition row_state (p : list gl) (st : lotst) (r : Z) : Prop :=
  (lot_count r p = O /\ aget r (ls_frac st) = None /\ aget r (ls_amt st) = None /\ aget r (ls_total st) = None) \/
  (lot_count r p <> O /\ aget r (ls_total st) = None /\ aget r (ls_frac st) = Some (lot_count r p) /\ aget r (ls_amt st) = Some (lot_sum r p)) \/
  (lot_count r p <> O /\ aget r (ls_total st) = Some (lot_count r p) /\ aget r (ls_frac st) = None /\ aget r (ls_amt st) = None).
Definition accurate (p : list gl) (st : lotst) : Prop :=
  NoDup (map fst (ls_frac st)) /\ NoDup (map fst (ls_amt st)) /\ ls_fraction st = lot_idx p /\ forall r, row_state p st r.
(** a lot that is complete and pending at the same time: the final merge will fail *)
Definition doomed (r : Z) (st : lotst) : Prop := amem r (ls_total st) = true /\ amem r (ls_frac st) = true.

Definition lot_init : lotst := {| ls_amt := []; ls_frac := []; ls_fraction := []; ls_total := [] |}.
Lemma accurate_init : accurate [] lot_init.
Proof.
  split; [constructor|]. split; [constructor|]. split; [reflexivity|]. intros r. left. repeat split.
Qed.

Lemma lot_idx_snoc p g : lot_idx (p ++ [g]) = lot_idx p ++ [lot_occ p g].
Proof. unfold lot_idx. rewrite lot_idx_from_app. reflexivity. Qed.

Lemma of_lot_other r g a : g_lot g = Some a -> r <> i_row a -> of_lot r g = false.
Proof. intros Ha Hne. unfold of_lot. rewrite Ha. lia. Qed.
Lemma of_lot_same g a : g_lot g = Some a -> of_lot (i_row a) g = true.
Proof. intros Ha. unfold of_lot. rewrite Ha. apply Z.eqb_refl. Qed.
Lemma of_lot_none r g : g_lot g = None -> of_lot r g = false.
Proof. intros Ha. unfold of_lot. rewrite Ha. reflexivity. Qed.

Lemma count_snoc_other r p g : of_lot r g = false -> lot_count r (p ++ [g]) = lot_count r p /\ lot_sum r (p ++ [g]) = lot_sum r p.
Proof. intros H. rewrite lot_count_app, lot_sum_app, lot_count_one, lot_sum_one, H. split; lia. Qed.
Lemma count_snoc_same r p g : of_lot r g = true ->
  lot_count r (p ++ [g]) = S (lot_count r p) /\ lot_sum r (p ++ [g]) = lot_sum r p + g_amt g.
Proof. intros H. rewrite lot_count_app, lot_sum_app, lot_count_one, lot_sum_one, H. split; lia. Qed.

(** one step from an accurate state *)
Lemma lot_step_none p st g : accurate p st -> g_lot g = None ->
  exists st1, lot_step (Ok st) g = Ok st1 /\ accurate (p ++ [g]) st1 /\ ls_total st1 = ls_total st.
Proof.
  intros (N1 & N2 & HF & HR) Hg. unfold lot_step. rewrite Hg. eexists. split; [reflexivity|]. split; [|reflexivity].
  split; [exact N1|]. split; [exact N2|]. cbn [ls_fraction ls_frac ls_amt ls_total]. split.
  - rewrite lot_idx_snoc, HF. unfold lot_occ. rewrite Hg. reflexivity.
  - intros r. unfold row_state. cbn [ls_fraction ls_frac ls_amt ls_total].
    destruct (count_snoc_other r p g (of_lot_none r g Hg)) as [-> ->]. exact (HR r).
Qed.

Lemma lot_step_some p st g a : accurate p st -> g_lot g = Some a ->
  let r := i_row a in
  let sm := lot_sum r (p ++ [g]) in
  let lw := in_crypto_balance_change a in
  if amem r (ls_total st) then
    lot_step (Ok st) g = Err EValue \/ exists st1, lot_step (Ok st) g = Ok st1 /\ doomed r st1
  else if sm =? lw then
    exists st1, lot_step (Ok st) g = Ok st1 /\ accurate (p ++ [g]) st1 /\ forall r', amem r' (ls_total st1) = (r' =? r) || amem r' (ls_total st)
  else if sm <? lw then
    exists st1, lot_step (Ok st) g = Ok st1 /\ accurate (p ++ [g]) st1 /\ ls_total st1 = ls_total st
  else lot_step (Ok st) g = Err EValue.
Proof.
  intros (N1 & N2 & HF & HR) Hg r sm lw. subst sm.
  destruct (count_snoc_same r p g (of_lot_same g a Hg)) as [HC HS]. rewrite HS.
  unfold lot_step. rewrite Hg. fold r. fold lw.
  destruct (amem r (ls_total st)) eqn:Em.
  - (* complete already *)
    destruct (aget_d 0 r (ls_amt st) + g_amt g =? lw); [left; reflexivity|].
    destruct (aget_d 0 r (ls_amt st) + g_amt g <? lw); [|left; reflexivity].
    right. eexists. split; [reflexivity|]. split; cbn [ls_total ls_frac]; [exact Em|].
    rewrite amem_aset, Z.eqb_refl. reflexivity.
  - (* not complete: index and amount so far are the counts of [p] *)
    assert (Hlf : aget_d O r (ls_frac st) = lot_count r p /\ aget_d 0 r (ls_amt st) = lot_sum r p).
    { unfold aget_d. destruct (HR r) as [(H0 & -> & -> & _)|[(_ & _ & -> & ->)|(_ & Ht & _)]].
      - rewrite H0, (lot_count_zero_sum r p H0). split; reflexivity.
      - split; reflexivity.
      - apply amem_aget_none in Em. congruence. }
    destruct Hlf as [-> ->].
    assert (Hother : forall r', r' <> r -> lot_count r' (p ++ [g]) = lot_count r' p /\ lot_sum r' (p ++ [g]) = lot_sum r' p).
    { intros r' Hne. apply count_snoc_other. apply (of_lot_other r' g a Hg). exact Hne. }
    destruct (lot_sum r p + g_amt g =? lw) eqn:E1.
    + eexists. split; [reflexivity|]. split.
      * split; [apply adel_NoDup; exact N1|]. split; [apply adel_NoDup; exact N2|].
        cbn [ls_fraction ls_frac ls_amt ls_total]. split.
        -- rewrite lot_idx_snoc, HF. unfold lot_occ. rewrite Hg. reflexivity.
        -- intros r'. unfold row_state. cbn [ls_fraction ls_frac ls_amt ls_total].
           destruct (Z.eq_dec r' r) as [->|Hne].
           ++ right. right. rewrite HC, aget_aset_same, !aget_adel_same by assumption. repeat split; congruence.
           ++ destruct (Hother r' Hne) as [-> ->]. rewrite aget_aset_other, !aget_adel_other by exact Hne. exact (HR r').
      * intros r'. cbn [ls_total]. apply amem_aset.
    + destruct (lot_sum r p + g_amt g <? lw) eqn:E2; [|reflexivity].
      eexists. split; [reflexivity|]. split; [|reflexivity].
      split; [apply aset_NoDup; exact N1|]. split; [apply aset_NoDup; exact N2|].
      cbn [ls_fraction ls_frac ls_amt ls_total]. split.
      * rewrite lot_idx_snoc, HF. unfold lot_occ. rewrite Hg. reflexivity.
      * intros r'. unfold row_state. cbn [ls_fraction ls_frac ls_amt ls_total].
        destruct (Z.eq_dec r' r) as [->|Hne].
        -- right. left. rewrite HC, HS, !aget_aset_same. apply amem_aget_none in Em. repeat split; congruence.
        -- destruct (Hother r' Hne) as [-> ->]. rewrite !aget_aset_other by exact Hne. exact (HR r').
Qed.

(** doom persists and makes the merge fail *)
Lemma doomed_step r st g st1 : doomed r st -> lot_step (Ok st) g = Ok st1 -> doomed r st1.
Proof.
  intros [D1 D2]. unfold lot_step. destruct (g_lot g) as [a|].
  - destruct (_ + g_amt g =? _).
    + destruct (amem (i_row a) (ls_total st)) eqn:Em; [discriminate|]. intros [= <-]. split; cbn [ls_total ls_frac].
      * rewrite amem_aset, D1. apply orb_true_r.
      * rewrite amem_adel_other; [exact D2|]. intros ->. congruence.
    + destruct (_ + g_amt g <? _); [|discriminate]. intros [= <-]. split; cbn [ls_total ls_frac]; [exact D1|].
      rewrite amem_aset, D2. apply orb_true_r.
  - intros [= <-]. split; assumption.
Qed.

Definition lot_finish (l : list gl) (st : lotst) : result (lotst * assoc nat) :=
  match lot_run l st with
  | Err e => Err e
  | Ok st' => match merge_totals (ls_frac st') (ls_total st') with Ok res => Ok (st', res) | Err e => Err e end
  end.

Lemma lot_finish_cons g l st :
  lot_finish (g :: l) st = match lot_step (Ok st) g with Ok st1 => lot_finish l st1 | Err e => Err e end.
Proof.
  unfold lot_finish, lot_run. cbn [fold_left]. destruct (lot_step (Ok st) g); [reflexivity|]. rewrite lot_fold_err. reflexivity.
Qed.

Lemma doomed_finish r l : forall st, doomed r st -> lot_finish l st = Err EValue.
Proof.
  induction l as [|g l IH]; intros st D.
  - unfold lot_finish, lot_run. cbn [fold_left]. destruct D as [D1 D2].
    rewrite (merge_totals_err (ls_frac st) (ls_total st) r); [reflexivity| |exact D1]. apply amem_true_iff. exact D2.
  - rewrite lot_finish_cons. destruct (lot_step (Ok st) g) as [st1|e] eqn:E.
    + apply IH. exact (doomed_step r st g st1 D E).
    + f_equal. exact (lot_step_err_kind _ _ _ E).
Qed.
Lemma lot_finish_err_kind l st e : lot_finish l st = Err e -> e = EValue.
Proof.
  unfold lot_finish. destruct (lot_run l st) as [st'|e'] eqn:E.
  - destruct (merge_totals _ _) eqn:M; [discriminate|]. intros [= <-]. exact (merge_totals_err_kind _ _ _ M).
  - intros [= <-]. exact (lot_fold_err_kind _ _ _ E).
Qed.

(** what an accurate final state merges to *)
Lemma accurate_merge p st : accurate p st ->
  exists res, merge_totals (ls_frac st) (ls_total st) = Ok res /\ count_table (fun r => lot_count r p) res.
Proof.
  intros (N1 & _ & _ & HR).
  destruct (merge_totals_ok (ls_frac st) (ls_total st) N1) as (res & Hres & Hget).
  - intros k Hk. apply amem_true_iff in Hk. apply amem_aget_some in Hk. apply amem_aget_none.
    destruct (HR k) as [(_ & H1 & _)|[(_ & H1 & _)|(_ & _ & H1 & _)]]; congruence.
  - exists res. split; [exact Hres|]. intros r. rewrite Hget.
    destruct (HR r) as [(H0 & -> & _ & ->)|[(H0 & -> & -> & _)|(H0 & -> & -> & _)]].
    + rewrite H0. reflexivity.
    + destruct (lot_count r p); [congruence|reflexivity].
    + destruct (lot_count r p); [congruence|reflexivity].
Qed.

(** the conditions the run checks, left to right, after the fractions [p] *)
Fixpoint lots_ok_from (p l : list gl) : Prop :=
  match l with
  | [] => True
  | g :: t =>
    match g_lot g with
    | None => True
    | Some a => lot_sum (i_row a) (p ++ [g]) <= in_crypto_balance_change a /\
                (lot_sum (i_row a) (p ++ [g]) = in_crypto_balance_change a -> lot_count (i_row a) t = O)
    end /\ lots_ok_from (p ++ [g]) t
  end.
(** lots that are complete in [st] get no further fraction *)
Definition closed (st : lotst) (l : list gl) : Prop := forall r, amem r (ls_total st) = true -> lot_count r l = O.

Lemma lot_run_char l : forall p st, accurate p st ->
  (lots_ok_from p l /\ closed st l ->
   exists st' res, lot_finish l st = Ok (st', res) /\ accurate (p ++ l) st') /\
  (forall st' res, lot_finish l st = Ok (st', res) -> lots_ok_from p l /\ closed st l /\ accurate (p ++ l) st').
Proof.
  induction l as [|g l IH]; intros p st Hacc.
  - rewrite app_nil_r. split.
    + intros _. destruct (accurate_merge p st Hacc) as (res & Hm & _).
      exists st, res. unfold lot_finish, lot_run. cbn [fold_left]. rewrite Hm. split; [reflexivity|exact Hacc].
    + intros st' res. unfold lot_finish, lot_run. cbn [fold_left].
      destruct (merge_totals _ _); [|discriminate]. intros [= <- _]. split; [exact I|]. split; [|exact Hacc].
      intros r _. reflexivity.
  - rewrite lot_finish_cons. replace (p ++ g :: l) with ((p ++ [g]) ++ l) by (rewrite <- app_assoc; reflexivity).
    destruct (g_lot g) as [a|] eqn:Hg.
    + pose proof (lot_step_some p st g a Hacc Hg) as Hstep. cbv zeta in Hstep.
      cbn [lots_ok_from]. rewrite Hg.
      set (r := i_row a) in *. set (lw := in_crypto_balance_change a) in *.
      assert (Hcnt : forall r', lot_count r' (g :: l) = ((if (r' =? r)%Z then 1 else 0) + lot_count r' l)%nat).
      { intros r'. rewrite lot_count_cons. unfold of_lot. rewrite Hg. fold r. rewrite (Z.eqb_sym r r'). reflexivity. }
      destruct (amem r (ls_total st)) eqn:Em.
      * (* the lot is complete: the run fails; [closed] is false *)
        split.
        -- intros [_ Hcl]. specialize (Hcl r Em). rewrite Hcnt, Z.eqb_refl in Hcl. discriminate.
        -- intros st' res Hfin. exfalso. destruct Hstep as [Hs|(st1 & Hs & Hd)]; rewrite Hs in Hfin; [discriminate|].
           rewrite (doomed_finish r l st1 Hd) in Hfin. discriminate.
      * destruct (lot_sum r (p ++ [g]) =? lw) eqn:E1.
        -- destruct Hstep as (st1 & Hs & Hacc1 & Hmem). rewrite Hs.
           destruct (IH (p ++ [g]) st1 Hacc1) as [IH1 IH2].
           assert (Hcl_iff : closed st1 l <-> (lot_count r l = O /\ closed st (g :: l))).
           { unfold closed. split.
             - intros H. split; [apply H; rewrite Hmem, Z.eqb_refl; reflexivity|].
               intros r' Hr'. rewrite Hcnt. destruct (r' =? r) eqn:E; [assert (r' = r) by lia; congruence|].
               apply H. rewrite Hmem, Hr'. apply orb_true_r.
             - intros [H0 H] r' Hr'. rewrite Hmem in Hr'. destruct (r' =? r) eqn:E.
               + assert (r' = r) by lia. subst. exact H0.
               + cbn [orb] in Hr'. specialize (H r' Hr'). rewrite Hcnt, E in H. exact H. }
           split.
           ++ intros [[[Hle Heq] Hok] Hcl]. apply IH1. split; [exact Hok|]. apply Hcl_iff. split; [apply Heq; lia|exact Hcl].
           ++ intros st' res Hfin. destruct (IH2 st' res Hfin) as (Hok & Hcl & Hacc'). apply Hcl_iff in Hcl. destruct Hcl as [H0 Hcl].
              split; [|split; [exact Hcl|exact Hacc']]. split; [|exact Hok]. split; [lia|intros _; exact H0].
        -- destruct (lot_sum r (p ++ [g]) <? lw) eqn:E2.
           ++ destruct Hstep as (st1 & Hs & Hacc1 & Htot). rewrite Hs.
              destruct (IH (p ++ [g]) st1 Hacc1) as [IH1 IH2].
              assert (Hcl_iff : closed st1 l <-> closed st (g :: l)).
              { unfold closed. rewrite Htot. split.
                - intros H r' Hr'. rewrite Hcnt. destruct (r' =? r) eqn:E; [assert (r' = r) by lia; congruence|]. apply H. exact Hr'.
                - intros H r' Hr'. specialize (H r' Hr'). rewrite Hcnt in H. lia. }
              split.
              ** intros [[_ Hok] Hcl]. apply IH1. split; [exact Hok|apply Hcl_iff; exact Hcl].
              ** intros st' res Hfin. destruct (IH2 st' res Hfin) as (Hok & Hcl & Hacc'). apply Hcl_iff in Hcl.
                 split; [|split; [exact Hcl|exact Hacc']]. split; [|exact Hok]. split; [lia|intros; lia].
           ++ rewrite Hstep. split; [|discriminate]. intros [[[Hle _] _] _]. lia.
    + destruct (lot_step_none p st g Hacc Hg) as (st1 & Hs & Hacc1 & Htot). rewrite Hs.
      destruct (IH (p ++ [g]) st1 Hacc1) as [IH1 IH2]. cbn [lots_ok_from]. rewrite Hg.
      assert (Hcl_iff : closed st1 l <-> closed st (g :: l)).
      { unfold closed. rewrite Htot. split; intros H r' Hr'; specialize (H r' Hr'); rewrite lot_count_cons, (of_lot_none r' g Hg) in *; exact H. }
      split.
      * intros [[_ Hok] Hcl]. apply IH1. split; [exact Hok|apply Hcl_iff; exact Hcl].
      * intros st' res Hfin. destruct (IH2 st' res Hfin) as (Hok & Hcl & Hacc'). apply Hcl_iff in Hcl. auto.
Qed.

Lemma lots_ok_from_iff l : forall p,
  lots_ok_from p l <->
  (forall p' g q a, l = p' ++ g :: q -> g_lot g = Some a ->
     lot_sum (i_row a) (p ++ p' ++ [g]) <= in_crypto_balance_change a /\
     (lot_sum (i_row a) (p ++ p' ++ [g]) = in_crypto_balance_change a -> lot_count (i_row a) q = O)).
Proof.
  induction l as [|g l IH]; intros p; cbn [lots_ok_from].
  - split; [|auto]. intros _ p' g q a H. destruct p'; discriminate.
  - rewrite IH. split.
    + intros [H1 H2] p' g' q a Heq Ha. destruct p' as [|x p''].
      * cbn [app] in Heq |- *. injection Heq as <- <-. rewrite Ha in H1. exact H1.
      * cbn [app] in Heq. injection Heq as <- ->. specialize (H2 p'' g' q a eq_refl Ha).
        rewrite <- app_assoc in H2. exact H2.
    + intros H. split.
      * destruct (g_lot g) as [a|] eqn:Ha; [|exact I]. exact (H [] g l a eq_refl Ha).
      * intros p' g' q a -> Ha. specialize (H (g :: p') g' q a eq_refl Ha). rewrite <- app_assoc. exact H.
Qed.
Lemma lots_ok_from_nil l : lots_ok_from [] l <-> lots_ok l.
Proof. rewrite lots_ok_from_iff. unfold lots_ok. cbn [app]. reflexivity. Qed.

(** the lot machine from the initial state: success = [lots_ok]; result = the counts *)
Theorem lot_machine_spec l :
  (lots_ok l -> exists st' res, lot_finish l lot_init = Ok (st', res) /\ ls_fraction st' = lot_idx l /\
                                count_table (fun r => lot_count r l) res) /\
  (forall st' res, lot_finish l lot_init = Ok (st', res) ->
     lots_ok l /\ ls_fraction st' = lot_idx l /\ count_table (fun r => lot_count r l) res) /\
  (~ lots_ok l -> lot_finish l lot_init = Err EValue).
Proof.
  destruct (lot_run_char l [] lot_init accurate_init) as [H1 H2]. cbn [app] in H1, H2.
  assert (Hcl : closed lot_init l) by (intros r Hr; discriminate Hr).
  assert (Hres : forall st' res, lot_finish l lot_init = Ok (st', res) -> accurate l st' ->
                 ls_fraction st' = lot_idx l /\ count_table (fun r => lot_count r l) res).
  { intros st' res Hfin Hacc. split; [apply Hacc|].
    destruct (accurate_merge l st' Hacc) as (res' & Hm & Ht).
    unfold lot_finish in Hfin. destruct (lot_run l lot_init) as [s2|]; [|discriminate].
    destruct (merge_totals (ls_frac s2) (ls_total s2)) as [r2|] eqn:E; [|discriminate].
    injection Hfin as -> ->. rewrite Hm in E. injection E as <-. exact Ht. }
  split; [|split].
  - intros Hok. destruct (H1 (conj (proj2 (lots_ok_from_nil l) Hok) Hcl)) as (st' & res & Hfin & Hacc).
    exists st', res. split; [exact Hfin|]. exact (Hres st' res Hfin Hacc).
  - intros st' res Hfin. destruct (H2 st' res Hfin) as (Hok & _ & Hacc).
    split; [apply lots_ok_from_nil; exact Hok|]. exact (Hres st' res Hfin Hacc).
  - intros Hnot. destruct (lot_finish l lot_init) as [[st' res]|e] eqn:E.
    + exfalso. apply Hnot. apply lots_ok_from_nil. apply (H2 st' res eq_refl).
    + f_equal. exact (lot_finish_err_kind _ _ _ E).
Qed.

(** * 5. [numbering] *)
Definition ev_init : evst := {| es_amt := 0; es_frac := O; es_fraction := []; es_total := [] |}.
(** the housekeeping of the event table *)
Definition ev_housekeeping (a : evst) (last : option gl) : result (assoc nat) :=
  match last with
  | Some g => if es_amt a >? 0
              then (let r := ev_row g in if amem r (es_total a) then Err EValue else Ok (aset r (es_frac a) (es_total a)))
              else Ok (es_total a)
  | None => Ok (es_total a)
  end.

(** [numbering] in terms of the two machines *)
Lemma numbering_split to_day gls :
  let cut := take_until g_day to_day gls in
  numbering to_day gls =
  match ev_run cut ev_init, lot_finish cut lot_init with
  | Ok a, Ok (b, lott) =>
    match ev_housekeeping a (fold_left last_lot cut None) with
    | Ok evt => Ok (es_fraction a, ls_fraction b, evt, lott)
    | Err e => Err EValue
    end
  | _, _ => Err EValue
  end.
Proof.
  cbv zeta. unfold numbering. rewrite num_fold_split.
  change (ev_of num_init) with ev_init. change (lot_of num_init) with lot_init. change (n_last_with_lot num_init) with (@None gl).
  unfold ev_run, lot_finish, lot_run.
  destruct (fold_left ev_step (take_until g_day to_day gls) (Ok ev_init)) as [a|e1]; [|reflexivity].
  destruct (fold_left lot_step (take_until g_day to_day gls) (Ok lot_init)) as [b|e2]; [|reflexivity].
  unfold join, ev_housekeeping, ev_row.
  cbn [n_ev_amt n_ev_frac n_lot_amt n_lot_frac n_ev_fraction n_lot_fraction n_ev_total n_lot_total n_last_with_lot].
  destruct (fold_left last_lot (take_until g_day to_day gls) None) as [g|].
  - destruct (es_amt a >? 0).
    + destruct (amem (t_row (g_ev g)) (es_total a)).
      * destruct (merge_totals (ls_frac b) (ls_total b)); reflexivity.
      * destruct (merge_totals (ls_frac b) (ls_total b)) as [lt|e] eqn:M; [reflexivity|].
        rewrite (merge_totals_err_kind _ _ _ M). reflexivity.
    + destruct (merge_totals (ls_frac b) (ls_total b)) as [lt|e] eqn:M; [reflexivity|].
      rewrite (merge_totals_err_kind _ _ _ M). reflexivity.
  - destruct (merge_totals (ls_frac b) (ls_total b)) as [lt|e] eqn:M; [reflexivity|].
    rewrite (merge_totals_err_kind _ _ _ M). reflexivity.
Qed.

(** every failure of the numbering is the RP2ValueError of a sanity check *)
Theorem numbering_err_kind to_day gls e : numbering to_day gls = Err e -> e = EValue.
Proof.
  rewrite numbering_split.
  destruct (ev_run _ ev_init) as [a|]; [|congruence].
  destruct (lot_finish _ lot_init) as [[b lott]|]; [|congruence].
  destruct (ev_housekeeping _ _); [discriminate|congruence].
Qed.

Lemma count_table_aget_d cnt m r : count_table cnt m -> aget_d O r m = cnt r.
Proof. intros H. unfold aget_d. rewrite (H r). destruct (cnt r); reflexivity. Qed.

(** the lot labels are right whenever the numbering succeeds -- no hypothesis on the list *)
Theorem numbering_lot_labels to_day gls evf lotf evt lott :
  let cut := take_until g_day to_day gls in
  numbering to_day gls = Ok (evf, lotf, evt, lott) ->
  lots_ok cut /\ lotf = lot_idx cut /\ count_table (fun r => lot_count r cut) lott.
Proof.
  cbv zeta. rewrite numbering_split.
  destruct (ev_run _ ev_init) as [a|]; [|discriminate].
  destruct (lot_finish _ lot_init) as [[b lt]|] eqn:F; [|discriminate].
  destruct (ev_housekeeping _ _); [|discriminate]. intros [= _ <- _ <-].
  destruct (lot_machine_spec (take_until g_day to_day gls)) as (_ & H & _). exact (H b lt F).
Qed.

(** the event labels under [ev_blocks]; the housekeeping finds nothing pending *)
Theorem numbering_blocks to_day gls :
  let cut := take_until g_day to_day gls in
  ev_blocks cut ->
  (lots_ok cut -> exists evt lott,
     numbering to_day gls = Ok (ev_idx cut, lot_idx cut, evt, lott) /\
     count_table (fun r => ev_count r cut) evt /\ count_table (fun r => lot_count r cut) lott) /\
  (~ lots_ok cut -> numbering to_day gls = Err EValue).
Proof.
  cbv zeta. intros Hb. rewrite numbering_split.
  destruct (ev_blocks_run _ Hb [] []) as (tot' & Hrun & Htot); [intros; reflexivity|].
  fold ev_init in Hrun. rewrite Hrun. cbn [app] in *.
  destruct (lot_machine_spec (take_until g_day to_day gls)) as (H1 & _ & H3).
  split.
  - intros Hok. destruct (H1 Hok) as (st' & res & -> & -> & Hres).
    exists tot', res. unfold ev_housekeeping. cbn [es_amt es_total es_fraction].
    replace (0 >? 0) with false by reflexivity.
    destruct (fold_left last_lot _ None); (split; [reflexivity|split; [exact Htot|exact Hres]]).
  - intros Hnot. rewrite (H3 Hnot). reflexivity.
Qed.

Theorem numbering_spec to_day gls evf lotf evt lott :
  let cut := take_until g_day to_day gls in
  ev_blocks cut -> numbering to_day gls = Ok (evf, lotf, evt, lott) ->
  evf = ev_idx cut /\ lotf = lot_idx cut /\
  count_table (fun r => ev_count r cut) evt /\ count_table (fun r => lot_count r cut) lott /\ lots_ok cut.
Proof.
  cbv zeta. intros Hb Hn. destruct (numbering_lot_labels _ _ _ _ _ _ Hn) as (Hok & _ & _).
  destruct (numbering_blocks to_day gls Hb) as [H1 _]. destruct (H1 Hok) as (evt' & lott' & Hn' & He & Hl).
  rewrite Hn in Hn'. injection Hn' as -> -> -> ->. auto.
Qed.

(** the same, position by position *)
Theorem numbering_labels to_day gls evf lotf evt lott :
  let cut := take_until g_day to_day gls in
  ev_blocks cut -> numbering to_day gls = Ok (evf, lotf, evt, lott) ->
  length evf = length cut /\ length lotf = length cut /\
  (forall r, aget_d O r evt = ev_count r cut) /\ (forall r, aget_d O r lott = lot_count r cut) /\
  forall k g, nth_error cut k = Some g ->
    nth_error evf k = Some (ev_count (ev_row g) (firstn k cut)) /\
    nth_error lotf k = Some (match g_lot g with None => None | Some a => Some (lot_count (i_row a) (firstn k cut)) end) /\
    aget (ev_row g) evt = Some (ev_count (ev_row g) cut) /\
    (forall a, g_lot g = Some a -> aget (i_row a) lott = Some (lot_count (i_row a) cut)).
Proof.
  cbv zeta. intros Hb Hn. destruct (numbering_spec _ _ _ _ _ _ Hb Hn) as (-> & -> & He & Hl & _).
  unfold ev_idx, lot_idx. rewrite ev_idx_length, lot_idx_length.
  split; [reflexivity|]. split; [reflexivity|].
  split; [intros r; apply (count_table_aget_d (fun r => ev_count r _)); exact He|].
  split; [intros r; apply (count_table_aget_d (fun r => lot_count r _)); exact Hl|].
  intros k g Hk. rewrite ev_idx_from_nth, lot_idx_from_nth, Hk. cbn [option_map app]. unfold lot_occ.
  assert (Hin : In g (take_until g_day to_day gls)) by (eapply nth_error_In; exact Hk).
  split; [reflexivity|]. split; [reflexivity|]. split.
  - rewrite (He (ev_row g)). destruct (ev_count (ev_row g) _) eqn:E; [|reflexivity].
    exfalso. exact (ev_count_pos _ _ g Hin eq_refl E).
  - intros a Ha. rewrite (Hl (i_row a)). destruct (lot_count (i_row a) _) eqn:E; [|reflexivity].
    exfalso. exact (lot_count_pos _ _ g a Hin Ha eq_refl E).
Qed.

(** * 6. [lots_ok] when amounts are positive and a row identifies the lot: no lot is over-consumed *)
Lemma lot_sum_nonneg r l : (forall g, In g l -> 0 < g_amt g) -> 0 <= lot_sum r l.
Proof.
  intros H. unfold lot_sum. induction l as [|g l IH]; cbn [filter map sumZ]; [lia|].
  assert (0 <= sumZ (map g_amt (filter (of_lot r) l))) by (apply IH; intros x Hx; apply H; right; exact Hx).
  destruct (of_lot r g); cbn [map sumZ]; [|assumption]. pose proof (H g (or_introl eq_refl)). lia.
Qed.
Lemma lot_sum_zero_count r l : (forall g, In g l -> 0 < g_amt g) -> lot_sum r l <= 0 -> lot_count r l = O.
Proof.
  intros H. unfold lot_sum, lot_count. induction l as [|g l IH]; cbn [filter map sumZ]; [reflexivity|].
  assert (Hl : forall x, In x l -> 0 < g_amt x) by (intros x Hx; apply H; right; exact Hx).
  destruct (of_lot r g); cbn [map sumZ length]; [|apply IH; exact Hl].
  pose proof (H g (or_introl eq_refl)). pose proof (lot_sum_nonneg r l Hl) as Hn. unfold lot_sum in Hn. lia.
Qed.
Lemma last_of_lot r l : lot_count r l <> O ->
  exists p g q a, l = p ++ g :: q /\ g_lot g = Some a /\ i_row a = r /\ lot_count r q = O.
Proof.
  induction l as [|x l IH]; intros H; [exfalso; apply H; reflexivity|].
  destruct (Nat.eq_dec (lot_count r l) 0) as [H0|Hn].
  - rewrite lot_count_cons, H0 in H. unfold of_lot in H. destruct (g_lot x) as [a|] eqn:Ha; [|exfalso; apply H; reflexivity].
    destruct (i_row a =? r) eqn:E; [|exfalso; apply H; reflexivity].
    exists [], x, l, a. repeat split; [exact Ha|lia|exact H0].
  - destruct (IH Hn) as (p & g & q & a & -> & Ha & Hr & Hq). exists (x :: p), g, q, a. auto.
Qed.

Theorem lots_ok_iff_within l : (forall g, In g l -> 0 < g_amt g) -> lot_rows_consistent l -> (lots_ok l <-> lots_within l).
Proof.
  intros Hpos Hcons. split.
  - intros Hok g a Hg Ha.
    destruct (last_of_lot (i_row a) l (lot_count_pos _ _ g a Hg Ha eq_refl)) as (p & g' & q & a' & Hl & Ha' & Hr & Hq).
    destruct (Hok p g' q a' Hl Ha') as [Hle _].
    assert (Hg' : In g' l) by (rewrite Hl; apply in_or_app; right; left; reflexivity).
    rewrite Hr, (Hcons g' g a' a Hg' Hg Ha' Ha Hr) in Hle.
    rewrite Hl. change (g' :: q) with ([g'] ++ q). rewrite app_assoc, lot_sum_app, (lot_count_zero_sum _ _ Hq). lia.
  - intros Hw p g q a Hl Ha.
    assert (Hg : In g l) by (rewrite Hl; apply in_or_app; right; left; reflexivity).
    specialize (Hw g a Hg Ha). rewrite Hl in Hw. change (g :: q) with ([g] ++ q) in Hw. rewrite app_assoc, lot_sum_app in Hw.
    assert (Hq : forall x, In x q -> 0 < g_amt x) by (intros x Hx; apply Hpos; rewrite Hl; apply in_or_app; right; right; exact Hx).
    pose proof (lot_sum_nonneg (i_row a) q Hq). split; [lia|].
    intros Heq. apply (lot_sum_zero_count _ _ Hq). lia.
Qed.

(** * 7. the quirk: a trailing event whose fractions stop short of its total (a cut through an event).
    The housekeeping credits the pending count to the event of the LAST FRACTION THAT HAS A LOT, whichever
    event is pending: right when that fraction belongs to the pending event, an error when it belongs to an
    earlier (complete) event, and no entry at all when no fraction has a lot. *)
Lemma last_lot_app a b o : fold_left last_lot (a ++ b) o = fold_left last_lot b (fold_left last_lot a o).
Proof. apply fold_left_app. Qed.
Lemma last_lot_in l : forall o g, fold_left last_lot l o = Some g -> o = Some g \/ In g l.
Proof.
  induction l as [|x l IH]; intros o g; cbn [fold_left]; [auto|].
  intros H. destruct (IH _ _ H) as [H1|H1]; [|right; right; exact H1].
  unfold last_lot in H1. destruct (g_lot x); [injection H1 as <-; right; left; reflexivity|left; exact H1].
Qed.

Theorem numbering_partial_event to_day gls l c e :
  take_until g_day to_day gls = l ++ c ->
  ev_blocks l -> ev_partial_block e c -> (forall g, In g l -> ev_row g <> t_row e) -> lots_ok (l ++ c) ->
  match fold_left last_lot (l ++ c) None with
  | Some g =>
    if ev_row g =? t_row e
    then exists evt lott, numbering to_day gls = Ok (ev_idx (l ++ c), lot_idx (l ++ c), evt, lott) /\
           count_table (fun r => ev_count r (l ++ c)) evt /\ count_table (fun r => lot_count r (l ++ c)) lott
    else numbering to_day gls = Err EValue
  | None =>
    exists evt lott, numbering to_day gls = Ok (ev_idx (l ++ c), lot_idx (l ++ c), evt, lott) /\
      count_table (fun r => ev_count r l) evt /\ aget (t_row e) evt = None /\ count_table (fun r => lot_count r (l ++ c)) lott
  end.
Proof.
  intros Hcut Hb (Hne & Hc0 & Hlt) Hfresh Hok.
  set (r := t_row e) in *. set (w := t_balance_change e) in *.
  assert (Hc : forall g, In g c -> ev_row g = r /\ t_balance_change (g_ev g) = w /\ 0 < g_amt g).
  { intros g Hg. destruct (Hc0 g Hg) as [He Hp]. unfold ev_row. rewrite He. split; [reflexivity|]. split; [reflexivity|exact Hp]. }
  pose proof (numbering_split to_day gls) as Hsplit. cbv zeta in Hsplit. rewrite Hcut in Hsplit.
  destruct (ev_blocks_run _ Hb [] []) as (tot' & Hrun & Htot); [intros; reflexivity|]. fold ev_init in Hrun. cbn [app] in Hrun.
  rewrite ev_run_app, Hrun in Hsplit.
  rewrite (ev_partial_run c r w Hc 0 O (ev_idx l) tot' ltac:(lia)) in Hsplit. cbn [Nat.add Z.add] in Hsplit.
  destruct (lot_machine_spec (l ++ c)) as (H1 & _ & _). destruct (H1 Hok) as (st' & res & Hfin & Hfr & Hres).
  rewrite Hfin, Hfr in Hsplit. unfold ev_housekeeping in Hsplit. cbn [es_amt es_frac es_total es_fraction] in Hsplit.
  assert (Hidx : ev_idx l ++ seq 0 (length c) = ev_idx (l ++ c)).
  { unfold ev_idx. rewrite ev_idx_from_app. cbn [app]. f_equal.
    rewrite (ev_idx_block r c) by (intros g Hg; apply Hc; exact Hg). rewrite (ev_count_none r l Hfresh). reflexivity. }
  rewrite Hidx in Hsplit.
  assert (Hpos : (amt_sum c >? 0) = true).
  { assert (0 < amt_sum c); [|lia]. apply amt_sum_pos; [exact Hne|]. intros g Hg. apply Hc. exact Hg. }
  assert (Hrfree : amem r tot' = false).
  { apply amem_aget_none. rewrite Htot, (ev_count_none r l Hfresh). reflexivity. }
  destruct (fold_left last_lot (l ++ c) None) as [g|] eqn:EL.
  - rewrite Hpos in Hsplit. destruct (ev_row g =? r) eqn:Er.
    + assert (ev_row g = r) by lia. rewrite H, Hrfree in Hsplit.
      eexists; eexists. split; [exact Hsplit|]. split; [|exact Hres].
      intros r'. rewrite aget_aset, ev_count_app. destruct (r' =? r) eqn:E.
      * assert (r' = r) by lia. subst r'. rewrite (ev_count_none r l Hfresh), (ev_count_all r c) by (intros x Hx; apply Hc; exact Hx).
        cbn [Nat.add]. destruct (length c) eqn:El; [apply length_zero_iff_nil in El; congruence|reflexivity].
      * rewrite (ev_count_none r' c) by (intros x Hx; destruct (Hc x Hx) as (-> & _); lia). rewrite Nat.add_0_r. apply Htot.
    + (* the last fraction with a lot belongs to a complete event *)
      assert (Hin : In g l).
      { destruct (last_lot_in _ _ _ EL) as [H|H]; [discriminate|]. apply in_app_or in H. destruct H as [H|H]; [exact H|].
        destruct (Hc g H) as (Hr & _). lia. }
      assert (Hm : amem (ev_row g) tot' = true).
      { apply amem_aget_some. rewrite Htot. destruct (ev_count (ev_row g) l) eqn:E; [|discriminate].
        exfalso. exact (ev_count_pos _ _ g Hin eq_refl E). }
      rewrite Hm in Hsplit. exact Hsplit.
  - eexists; eexists. split; [exact Hsplit|]. split; [exact Htot|]. split; [apply amem_aget_none; exact Hrfree|exact Hres].
Qed.
