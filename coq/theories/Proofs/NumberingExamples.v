(** Non-vacuity examples and counter-examples for the specification of the fraction numbering
    (NumberingProofs.v, NumberingLift.v), on history A of L4Examples.v.  Evaluated by the kernel. *)
From Coq Require Import List ZArith Bool Lia ZifyBool.
From RP2V Require Import Base.Prelude Base.Assoc Base.Sorting Base.Dec Base.Time Model.Types Model.Generated Model.Txn
  Model.Matcher Model.MatchSpec Model.MatchWf Model.FracSpec Model.Pipeline Model.Computed Model.ComputedSpec Model.NumberSpec
  Proofs.PipelineWf Proofs.ComputedProofs Proofs.NumberingProofs Proofs.NumberingLift Proofs.L4Examples.
Import ListNotations.
Open Scope Z_scope.

(** * history A satisfies the hypotheses of the end-to-end theorem *)
Definition evsA : list txn := Eval vm_compute in match taxable_events tA with Ok l => l | Err _ => [] end.
Example evsA_ok : taxable_events tA = Ok evsA.
Proof. vm_compute. reflexivity. Qed.

Example hA_rows_increasing : in_rows_increasing hA.
Proof.
  intros i j d H. cbn [hA h_ins length] in H.
  destruct i as [|[|[|i]]], j as [|[|[|j]]]; try lia; vm_compute; reflexivity.
Qed.
Example hA_amounts_positive : amounts_positive hA.
Proof. intros r Hr. cbn [hA h_ins] in Hr. repeat (destruct Hr as [<-|Hr]; [vm_compute; reflexivity|]). try destruct Hr. Qed.
Lemma same_year_check evs :
  forallb (fun e => forallb (fun e' => negb (t_us e =? t_us e') || (local_year (t_ts e) =? local_year (t_ts e'))) evs) evs = true ->
  hist_same_instant_same_year evs.
Proof.
  intros H e e' He He' Heq. rewrite forallb_forall in H. specialize (H e He). rewrite forallb_forall in H. specialize (H e' He').
  rewrite Heq, Z.eqb_refl in H. cbn [negb orb] in H. lia.
Qed.
Example hA_events_ok : forall evs, taxable_events tA = Ok evs -> hist_same_instant_same_year evs /\ hist_sched_covers schedA evs.
Proof.
  intros evs H. rewrite evsA_ok in H. injection H as <-. split.
  - apply same_year_check. vm_compute. reflexivity.
  - intros e He. exists 1970, Fifo. split; [left; reflexivity|]. vm_compute in He.
    repeat (destruct He as [<-|He]; [vm_compute; discriminate|]). try destruct He.
Qed.
Example cdA_win_tax : compute_tax 365 18383 18450 false exsA hosA schedA tA = Ok cdA_win.
Proof. vm_compute. reflexivity. Qed.

(** the labels of the windowed run (2020-05-01 .. 2020-07-07) are index and count among all fractions up to the to-date *)
Example labels_instance :=
  compute_tax_fraction_labels hA schedA tA 365 18383 18450 false exsA hosA cdA_win tA_built hA_rows_increasing hA_amounts_positive
    hA_events_ok ltac:(repeat constructor; intros []) cdA_win_tax.

(** the cut (to-date 2020-07-07) keeps 4 of the 7 fractions; the sale of row 5 is numbered 1 of 2 and 2 of 2 per event and is
    the 2nd of 2 and the 1st of 1 fractions taken so far from the lots of rows 1 and 2 *)
Example labels_values :
  let cut := take_until g_day 18450 (cd_all_gls cdA_win) in
  map ev_row cut = [3; 4; 5; 5] /\
  map (fun k => ev_label cut k (nth k cut gl_dflt)) [0; 1; 2; 3]%nat = [(0, 1); (0, 1); (0, 2); (1, 2)]%nat /\
  cd_evfrac cdA_win = [(0, 1); (0, 1); (0, 2); (1, 2)]%nat /\
  map (fun k => lot_label cut k (nth k cut gl_dflt)) [0; 1; 2; 3]%nat = [None; Some (0, 2); Some (1, 2); Some (0, 1)]%nat /\
  cd_lotfrac cdA_win = [None; Some (0, 2); Some (1, 2); Some (0, 1)]%nat.
Proof. vm_compute. repeat split; reflexivity. Qed.

(** the lot of row 2 is complete only in the unfiltered run: 4 fractions; with the cut its count (1) comes from the pending table *)
Example labels_pending_lot :
  cd_lotfrac cdA = [None; Some (0, 2); Some (1, 2); Some (0, 4); Some (1, 4); Some (2, 4); Some (3, 4)]%nat.
Proof. vm_compute. reflexivity. Qed.

(** * the event numbering needs the block structure: interleaved events are mis-numbered without any error *)
Definition with_amt (g : gl) (a : Z) : gl := {| g_ev := g_ev g; g_lot := g_lot g; g_amt := a |}.
(** 1 coin of the sale of row 4 (3 coins), then 7.1 coins of the sale of row 5 (8.1 coins): 1 + 7.1 = 8.1 *)
Definition gls_interleaved : list gl := [with_amt (nth 1 glsA gl_dflt) U; with_amt (nth 2 glsA gl_dflt) (71 * U / 10)].
Example numbering_needs_blocks :
  exists evf lotf evt lott, numbering 100000 gls_interleaved = Ok (evf, lotf, evt, lott) /\
    evf = [0; 1]%nat /\ ev_idx gls_interleaved = [0; 0]%nat /\ aget 4 evt = None /\ aget 5 evt = Some 2%nat /\
    ev_count 5 gls_interleaved = 1%nat.
Proof. vm_compute. do 4 eexists. repeat split; reflexivity. Qed.

(** * failure: a lot that is over-consumed (the sale of row 5, 8.1 coins, entirely from the lot of row 2, 5 coins) *)
Definition gls_overdrawn : list gl := [with_amt (nth 3 glsA gl_dflt) (81 * U / 10)].
Example numbering_overdrawn_lot : ev_blocks gls_overdrawn /\ ~ lots_ok gls_overdrawn /\ numbering 100000 gls_overdrawn = Err EValue.
Proof.
  split; [|split; [|vm_compute; reflexivity]].
  - change gls_overdrawn with (gls_overdrawn ++ []). apply (evb_app (g_ev (nth 3 glsA gl_dflt))); [discriminate| | |intros g []|constructor].
    + intros g [<-|[]]. vm_compute. split; reflexivity.
    + vm_compute. reflexivity.
  - intros H. destruct (H [] (with_amt (nth 3 glsA gl_dflt) (81 * U / 10)) [] _ eq_refl eq_refl) as [Hle _]. vm_compute in Hle. apply Hle. reflexivity.
Qed.

(** * the housekeeping quirk: a trailing event short of its total.
    (a) the pending event owns the last fraction that has a lot: it is credited with the fractions seen (1);
    (b) the pending event is an income event (no lot) after a complete sale: RP2ValueError;
    (c) no fraction has a lot: the pending event gets no entry at all. *)
Definition gls_partial_a : list gl := [nth 1 glsA gl_dflt; with_amt (nth 2 glsA gl_dflt) U].
Definition gls_partial_b : list gl := [nth 1 glsA gl_dflt; with_amt (nth 0 glsA gl_dflt) (U / 2)].
Definition gls_partial_c : list gl := [with_amt (nth 0 glsA gl_dflt) (U / 2)].
Example numbering_partial_quirks :
  (exists evf lotf evt lott, numbering 100000 gls_partial_a = Ok (evf, lotf, evt, lott) /\ aget 5 evt = Some 1%nat /\ evf = [0; 0]%nat) /\
  numbering 100000 gls_partial_b = Err EValue /\
  (exists evf lotf evt lott, numbering 100000 gls_partial_c = Ok (evf, lotf, evt, lott) /\ aget 3 evt = None /\ evf = [0]%nat).
Proof. vm_compute. split; [do 4 eexists; repeat split; reflexivity|]. split; [reflexivity|do 4 eexists; repeat split; reflexivity]. Qed.
