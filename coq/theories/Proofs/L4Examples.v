(** Concrete histories used as non-vacuity examples and refutation witnesses of the
    aggregation-layer properties (C06, C07, C08, C10).  Everything is evaluated by the kernel. *)
From Coq Require Import List ZArith Bool Lia.
From RP2V Require Import Base.Prelude Base.Assoc Base.Sorting Base.Dec Base.Time Model.Types Model.Generated Model.Txn
  Model.Matcher Model.MatchSpec Model.FracSpec Model.Pipeline Model.Computed Model.ComputedSpec.
Import ListNotations.
Open Scope Z_scope.

Definition U : Z := 100000000000.                    (* one coin on the 1e-11 grid *)
Definition DAY : Z := 86400000000.
(** noon UTC of day d (days since 1970-01-01), written with UTC offset 0 *)
Definition noon (d : Z) : tstamp := {| utc_us := d * DAY + DAY / 2; off_s := 0 |}.

Definition r_in (row d ex ho : Z) (ty : ttype) (spot amt : Z) : raw_in :=
  {| ri_row := row; ri_ts := noon d; ri_exch := ex; ri_holder := ho; ri_type := ty; ri_spot := spot; ri_crypto_in := amt;
     ri_crypto_fee := None; ri_fiat_in_no_fee := None; ri_fiat_in_with_fee := None; ri_fiat_fee := None |}.
Definition r_out (row d ex ho : Z) (ty : ttype) (spot amt fee : Z) : raw_out :=
  {| ro_row := row; ro_ts := noon d; ro_exch := ex; ro_holder := ho; ro_type := ty; ro_spot := spot;
     ro_crypto_out_no_fee := amt; ro_crypto_fee := fee; ro_crypto_out_with_fee := None; ro_fiat_out_no_fee := None; ro_fiat_fee := None |}.
Definition r_intra (row d fe fh te th spot sent recv : Z) : raw_intra :=
  {| rx_row := row; rx_ts := noon d; rx_from_exch := fe; rx_from_holder := fh; rx_to_exch := te; rx_to_holder := th;
     rx_spot := Some spot; rx_crypto_sent := sent; rx_crypto_received := recv |}.

Definition intx_dflt : intx :=
  {| i_row := 0; i_ts := noon 0; i_exch := 0; i_holder := 0; i_type := BUY; i_spot := 0; i_crypto_in := 0; i_crypto_fee := 0;
     i_fiat_in_no_fee := dzero; i_fiat_in_with_fee := dzero; i_fiat_fee := dzero |}.
Definition gl_dflt : gl := {| g_ev := TIn intx_dflt; g_lot := None; g_amt := 0 |}.
Definition yline_dflt : yline :=
  {| y_year := 0; y_type := BUY; y_long := false; y_crypto := 0; y_fiat := dzero; y_cost := dzero; y_gain := dzero |}.

(** * history A: two exchanges, two holders, three calendar years, long and short fractions of one sale,
    interest income, a fee-bearing transfer.
    day 18000 = 2019-04-14, 18300 = 2020-02-08, 18400 = 2020-05-18, 18450, 18460, 18500 (2020), 18700 = 2021-03-14 *)
Definition hA : hist :=
  {| h_ins := [ r_in 1 18000 0 0 BUY (100 * U) (10 * U);
                r_in 2 18300 0 0 BUY (200 * U) (5 * U);
                r_in 3 18400 0 1 INTEREST (150 * U) (1 * U) ];
     h_outs := [ r_out 4 18400 0 0 SELL (150 * U) (3 * U) 0;
                 r_out 5 18450 0 0 SELL (160 * U) (8 * U) (U / 10);
                 r_out 6 18460 0 0 SELL (170 * U) (1 * U) 0;
                 r_out 8 18700 1 0 SELL (300 * U) (1 * U) 0 ];
     h_intras := [ r_intra 7 18500 0 0 1 0 (180 * U) (2 * U) (2 * U - U / 10) ] |}.
Definition schedA : list (Z * meth) := [(1970, Fifo)].
Definition exsA : list str := [[69; 48]; [69; 49]].   (* "E0", "E1" *)
Definition hosA : list str := [[72; 48]; [72; 49]].   (* "H0", "H1" *)

Definition tA_r : result txs := Eval vm_compute in build hA.
Definition tA : txs := Eval vm_compute in match tA_r with Ok t => t | Err _ => {| t_ins := []; t_outs := []; t_intras := [] |} end.
Example tA_built : build hA = Ok tA.
Proof. vm_compute. reflexivity. Qed.

Definition fsA : list fraction :=
  Eval vm_compute in match fractions_of gen_always_repush schedA tA with Ok fs => fs | Err _ => [] end.
Example fsA_matched : fractions_of gen_always_repush schedA tA = Ok fsA.
Proof. vm_compute. reflexivity. Qed.
(** interest once without lot; the sale of row 5 is split over the 2019 lot (long) and the 2020 lot (short) *)
Example fsA_shape : map (fun f => (f_ev f, f_lot f)) fsA =
  [(3, None); (4, Some 1); (5, Some 1); (5, Some 2); (6, Some 2); (7, Some 2); (8, Some 2)].
Proof. vm_compute. reflexivity. Qed.

Definition glsA : list gl :=
  Eval vm_compute in
    match taxable_events tA with
    | Ok evs => match resolve_all evs (t_ins tA) fsA with Some l => sort_by (fun g => t_us (g_ev g)) l | None => [] end
    | Err _ => []
    end.

(** whole history, from 1970 *)
Definition ylA : list yline := Eval vm_compute in match yearly_list 365 100000 1970 glsA with Ok l => l | Err _ => [] end.
Example ylA_ok : yearly_list 365 100000 1970 glsA = Ok ylA.
Proof. vm_compute. reflexivity. Qed.
(** 2021 SELL long; 2020: SELL short (two fractions), MOVE short, INTEREST short, SELL long (two fractions) *)
Example ylA_keys : map (fun l => (y_year l, y_type l, y_long l, y_crypto l)) ylA =
  [ (2021, SELL, true, 1 * U); (2020, SELL, false, 11 * U / 10 + U); (2020, MOVE, false, U / 10);
    (2020, INTEREST, false, 1 * U); (2020, SELL, true, 10 * U) ].
Proof. vm_compute. reflexivity. Qed.

(** to-date inside 2020 (day 18455 hides rows 6, 7, 8), from-year 2020 *)
Definition ylA_cut : list yline := Eval vm_compute in match yearly_list 365 18455 2020 glsA with Ok l => l | Err _ => [] end.
Example ylA_cut_ok : yearly_list 365 18455 2020 glsA = Ok ylA_cut /\ length ylA_cut = 3%nat.
Proof. vm_compute. split; reflexivity. Qed.

Definition cdA_of (from_day to_day : Z) (allow : bool) : result computed := compute 365 from_day to_day allow exsA hosA tA fsA.
Definition cdA_dflt : computed :=
  {| cd_events := []; cd_gls := []; cd_evfrac := []; cd_lotfrac := []; cd_gl_running := []; cd_all_gls := []; cd_yearly := [];
     cd_balances := []; cd_price := dzero; cd_ins := []; cd_outs := []; cd_intras := []; cd_in_running := [];
     cd_out_running := []; cd_intra_running := []; cd_sold_pct := [] |}.
(** unfiltered run and a windowed run (2020-05-01 .. 2020-07-07: days 18383 .. 18450) *)
Definition cdA : computed := Eval vm_compute in match cdA_of (-100000) 100000 false with Ok c => c | Err _ => cdA_dflt end.
Definition cdA_win : computed := Eval vm_compute in match cdA_of 18383 18450 false with Ok c => c | Err _ => cdA_dflt end.
Example cdA_ok : compute 365 (-100000) 100000 false exsA hosA tA fsA = Ok cdA.
Proof. vm_compute. reflexivity. Qed.
Example cdA_win_ok : compute 365 18383 18450 false exsA hosA tA fsA = Ok cdA_win.
Proof. vm_compute. reflexivity. Qed.
Definition cdA_to : computed := Eval vm_compute in match cdA_of (-100000) 18450 false with Ok c => c | Err _ => cdA_dflt end.
Example cdA_to_ok : compute 365 (-100000) 18450 false exsA hosA tA fsA = Ok cdA_to.
Proof. vm_compute. reflexivity. Qed.
Example cdA_tax : compute_tax 365 (-100000) 100000 false exsA hosA schedA tA = Ok cdA.
Proof. vm_compute. reflexivity. Qed.
Example cdA_win_shows : map (fun g => t_row (g_ev g)) (cd_gls cdA_win) = [3; 4; 5; 5] /\ length (cd_all_gls cdA_win) = 7%nat /\
  map i_row (cd_ins cdA_win) = [3] /\ map o_row (cd_outs cdA_win) = [4; 5] /\ cd_intras cdA_win = [].
Proof. vm_compute. repeat split; reflexivity. Qed.
(** three accounts: E0/H0, E0/H1, E1/H0 *)
Example cdA_balances : map (fun b => (b_exch b, b_holder b, b_final b, b_acquired b, b_sent b, b_received b)) (cd_balances cdA) =
  [ (0, 0, 9 * U / 10, 15 * U, 141 * U / 10, 0); (0, 1, U, U, 0, 0); (1, 0, 9 * U / 10, 0, U, 19 * U / 10) ].
Proof. vm_compute. reflexivity. Qed.

(** * history B: a transient overdraft (sell before the refill of the same day's later buy) *)
Definition hB : hist :=
  {| h_ins := [ r_in 1 18000 0 0 BUY (100 * U) (1 * U); r_in 3 18020 0 0 BUY (100 * U) (5 * U) ];
     h_outs := [ r_out 2 18010 0 0 SELL (100 * U) (2 * U) 0 ];
     h_intras := [] |}.
Definition tB : txs := Eval vm_compute in match build hB with Ok t => t | Err _ => {| t_ins := []; t_outs := []; t_intras := [] |} end.
Example tB_built : build hB = Ok tB.
Proof. vm_compute. reflexivity. Qed.
Example tB_rejected : balances false 100000 exsA hosA tB = Err ENegBalance /\
  first_negative false {| bs_acq := []; bs_sent := []; bs_recv := []; bs_final := [] |}
     (take_until txn_day 100000 (replay_order tB)) = Some (0, 0).
Proof. vm_compute. split; reflexivity. Qed.
Example tB_allowed : exists bl, balances true 100000 exsA hosA tB = Ok bl /\ map b_final bl = [4 * U] /\
  exists bl', balances true 18015 exsA hosA tB = Ok bl' /\ map b_final bl' = [- U].
Proof. vm_compute. eexists. split; [reflexivity|]. split; [reflexivity|]. eexists. split; reflexivity. Qed.

(** dust: 5 grid units below zero is tolerated, 6 are not *)
Definition hD (over : Z) : hist :=
  {| h_ins := [ r_in 1 18000 0 0 BUY (100 * U) (1 * U) ]; h_outs := [ r_out 2 18010 0 0 SELL (100 * U) (1 * U + over) 0 ]; h_intras := [] |}.
Definition bal_of (h : hist) (allow : bool) : result (list balance) :=
  match build h with Ok t => balances allow 100000 exsA hosA t | Err e => Err e end.
Example dust_5_accepted : exists bl, bal_of (hD 5) false = Ok bl /\ map b_final bl = [-5].
Proof. vm_compute. eexists. split; reflexivity. Qed.
Example dust_6_rejected : bal_of (hD 6) false = Err ENegBalance.
Proof. vm_compute. reflexivity. Qed.

(** * history F9: mixed UTC offsets make local dates non-monotone in time.
    row 9 (2021-01-01 00:30 at +14:00, instant 2020-12-31 10:30 UTC) precedes
    row 10 (2020-12-31 23:00 at -12:00, instant 2021-01-01 11:00 UTC); to-date 2020-12-31 = day 18627 *)
Definition ts_of (us off : Z) : tstamp := {| utc_us := us; off_s := off |}.
Definition h9 : hist :=
  {| h_ins := [ {| ri_row := 3; ri_ts := ts_of 1577836800000000 0; ri_exch := 0; ri_holder := 0; ri_type := BUY; ri_spot := 10 * U;
                   ri_crypto_in := 5 * U; ri_crypto_fee := None; ri_fiat_in_no_fee := None; ri_fiat_in_with_fee := None; ri_fiat_fee := None |} ];
     h_outs := [ {| ro_row := 9; ro_ts := ts_of 1609410600000000 50400; ro_exch := 0; ro_holder := 0; ro_type := SELL; ro_spot := 10 * U;
                    ro_crypto_out_no_fee := 1 * U; ro_crypto_fee := 0; ro_crypto_out_with_fee := None; ro_fiat_out_no_fee := None; ro_fiat_fee := None |};
                 {| ro_row := 10; ro_ts := ts_of 1609498800000000 (-43200); ro_exch := 0; ro_holder := 0; ro_type := SELL; ro_spot := 10 * U;
                    ro_crypto_out_no_fee := 2 * U; ro_crypto_fee := 0; ro_crypto_out_with_fee := None; ro_fiat_out_no_fee := None; ro_fiat_fee := None |} ];
     h_intras := [] |}.
Definition t9 : txs := Eval vm_compute in match build h9 with Ok t => t | Err _ => {| t_ins := []; t_outs := []; t_intras := [] |} end.
Example t9_built : build h9 = Ok t9.
Proof. vm_compute. reflexivity. Qed.
Definition fs9 : list fraction := Eval vm_compute in match fractions_of gen_always_repush schedA t9 with Ok fs => fs | Err _ => [] end.
Example fs9_matched : fractions_of gen_always_repush schedA t9 = Ok fs9.
Proof. vm_compute. reflexivity. Qed.
Definition gls9 : list gl :=
  Eval vm_compute in
    match taxable_events t9 with
    | Ok evs => match resolve_all evs (t_ins t9) fs9 with Some l => sort_by (fun g => t_us (g_ev g)) l | None => [] end
    | Err _ => []
    end.
Example gls9_days : map (fun g => (t_row (g_ev g), g_day g, g_year g)) gls9 = [(9, 18628, 2021); (10, 18627, 2020)].
Proof. vm_compute. reflexivity. Qed.
(** the sale of row 10: dated 2020-12-31 *)
Definition g9_hidden : gl := Eval vm_compute in nth 1 gls9 gl_dflt.
Definition outtx_dflt : outtx :=
  {| o_row := 0; o_ts := noon 0; o_exch := 0; o_holder := 0; o_type := SELL; o_spot := 0; o_crypto_out_no_fee := 0; o_crypto_fee := 0;
     o_crypto_out_with_fee := 0; o_fiat_out_no_fee := dzero; o_fiat_fee := dzero; o_fiat_out_with_fee := dzero |}.
Definition o9_hidden : outtx := Eval vm_compute in nth 1 (t_outs t9) outtx_dflt.
(** run with to-date 2020-12-31 *)
Definition cd9 : computed := Eval vm_compute in match compute 365 (-100000) 18627 false exsA hosA t9 fs9 with Ok c => c | Err _ => cdA_dflt end.
Example cd9_ok : compute 365 (-100000) 18627 false exsA hosA t9 fs9 = Ok cd9.
Proof. vm_compute. reflexivity. Qed.
Example cd9_hides : In o9_hidden (t_outs t9) /\ out_day o9_hidden = 18627 /\ cd_outs cd9 = [] /\ cd_gls cd9 = [] /\ cd_yearly cd9 = [].
Proof. vm_compute. repeat split; auto. Qed.
