(** Lemmas about the run model that do not depend on which repairs are present in the tree: strings,
    generator discovery, and the write set (C18).  Kept apart from C16Proofs.v so that C17 / C18 do not
    fail with C16 when a repair-dependent obligation of C16 breaks. *)
From Coq Require Import Permutation.
From RP2V Require Import Base.Prelude Base.Sorting Model.Types.
From RP2V Require Import Model.Generated Model.MainRun.
Open Scope Z_scope.

(** ---- strings *)
Lemma str_eqb_refl s : str_eqb s s = true.
Proof. induction s as [|x s IH]; simpl; auto. rewrite Z.eqb_refl; exact IH. Qed.

Lemma str_eqb_eq a b : str_eqb a b = true <-> a = b.
Proof.
  split; [|intros ->; apply str_eqb_refl].
  revert b; induction a as [|x a IH]; intros [|y b]; simpl; try congruence.
  intros H; apply andb_true_iff in H as [H1 H2]. apply Z.eqb_eq in H1. f_equal; auto.
Qed.

Lemma str_in_In s l : str_in s l = true <-> In s l.
Proof.
  unfold str_in; rewrite existsb_exists; split.
  - intros [x [Hx He]]. apply str_eqb_eq in He; subst; auto.
  - intros H; exists s; split; auto. apply str_eqb_refl.
Qed.

Lemma str_in_filter s p l : str_in s (filter p l) = true -> str_in s l = true.
Proof. rewrite !str_in_In, filter_In; tauto. Qed.

Lemma all_countries_in c : In c all_countries.
Proof. destruct c; simpl; auto 10. Qed.
Lemma all_gens_in g : In g all_gens.
Proof. destruct g; simpl; auto 10. Qed.

(** discovery finds exactly the configured generators, each once *)
Definition discovery_exact (c : country) : bool :=
  forallb (fun g => gen_in g (country_generators c)) (discovery c)
  && forallb (fun g => gen_in g (discovery c)) (country_generators c)
  && (Z.of_nat (length (discovery c)) =? Z.of_nat (length (country_generators c)))
  && match undiscovered c with [] => true | _ => false end.

Lemma discovery_exact_ok : forallb discovery_exact all_countries = true.
Proof. vm_compute. reflexivity. Qed.

Lemma gen_eqb_eq a b : gen_eqb a b = true <-> a = b.
Proof. split; [|intros ->; destruct b; reflexivity]. destruct a, b; cbv; congruence. Qed.
Lemma gen_in_In g l : gen_in g l = true <-> In g l.
Proof.
  unfold gen_in; rewrite existsb_exists; split.
  - intros [x [Hx He]]. apply gen_eqb_eq in He; subst; auto.
  - intros H; exists g; split; auto. apply gen_eqb_eq; auto.
Qed.

Lemma discovery_spec c :
  (forall g, In g (discovery c) <-> In g (country_generators c)) /\ undiscovered c = [] /\
  length (discovery c) = length (country_generators c).
Proof.
  pose proof discovery_exact_ok as H. rewrite forallb_forall in H. specialize (H c (all_countries_in c)).
  unfold discovery_exact in H. repeat (apply andb_true_iff in H as [H ?]).
  rewrite forallb_forall in H, H2. split; [|split].
  - intros g; split; intros Hg; apply gen_in_In; auto.
  - destruct (undiscovered c); congruence.
  - apply Z.eqb_eq in H1. lia.
Qed.

Lemma filter_map_in {A B} (f : A -> option B) l y : In y (filter_map f l) -> exists x, In x l /\ f x = Some y.
Proof.
  induction l as [|x l IH]; simpl; [tauto|].
  destruct (f x) eqn:E; simpl; intros H.
  - destruct H as [<-|H]; [exists x; auto|]. destruct (IH H) as [x' [? ?]]; eauto.
  - destruct (IH H) as [x' [? ?]]; eauto.
Qed.

(** ---- witnesses: what the modelled code does under the known conditions *)
Definition opts0 : options :=
  {| o_method := None; o_lang := None; o_from := MIN_DAY; o_to := MAX_DAY; o_asset := None; o_neg := false; o_prefix := []; o_plugin := false |}.
Definition btc : str := [66; 84; 67].
Definition cfg0 : config := {| cf_assets := [btc]; cf_sched := [] |}.
Definition facts0 : asset_facts :=
  {| af_name := btc; af_present := true; af_negative := false; af_event_types := [SELL]; af_hidden_year := false; af_holders := 1 |}.
Definition s_en : str := [101; 110].

(** ---- C18: everything a run writes lies in its write set, and the write set avoids input and config *)
Lemma run_generators_subset c o lang s inp label : forall gs written f,
  method_label s = Some label ->
  In f (snd (run_generators c o lang s inp gs written)) -> In f written \/ In f (map (output_name o label) gs).
Proof.
  induction gs as [|g gs IH]; intros written f Hl; simpl.
  - auto.
  - unfold run_generator at 1. rewrite Hl.
    destruct (gen_eqb g GTaxJP && gen_jp_rejects_from_and_to && negb (o_from o =? MIN_DAY) && negb (o_to o =? MAX_DAY))%bool; simpl; auto.
    destruct (negb (template_usable c g lang)); simpl; auto.
    destruct (generator_fails_on_input g inp); simpl; auto.
    intros H. destruct (IH _ _ Hl H) as [H'|H']; auto.
    apply in_app_or in H' as [H'|[<-|[]]]; auto.
Qed.

Lemma run_generators_none c o lang s inp : forall gs written,
  method_label s = None -> snd (run_generators c o lang s inp gs written) = written.
Proof.
  intros [|g gs] written Hl; simpl; auto.
  unfold run_generator. rewrite Hl.
  destruct (gen_eqb g GTaxJP && gen_jp_rejects_from_and_to && negb (o_from o =? MIN_DAY) && negb (o_to o =? MAX_DAY))%bool; simpl; auto.
  destruct (negb (template_usable c g lang)); simpl; auto.
Qed.

Theorem run_writes_in_write_set : forall c o cf inp stamp outdir f,
  In f (snd (run c o cf inp)) -> In (WOut outdir f) (write_set c o cf stamp outdir).
Proof.
  intros c o cf inp stamp outdir f. unfold run, write_set. cbv zeta.
  destruct (match o_method o with Some m => negb (str_in m (accepted_method_names c)) | None => false end); cbn [snd In]; [tauto|].
  destruct (negb (str_in (language c o) locale_inventory)); cbn [snd In]; [tauto|].
  destruct (o_to o <? o_from o); cbn [snd In]; [tauto|].
  destruct (schedule c o cf) as [s|]; cbn [snd In]; [|tauto].
  destruct (negb (forallb (fun e => str_in (snd e) method_plugins) s)); cbn [snd In]; [tauto|].
  destruct (o_plugin o); cbn [snd In]; [tauto|].
  destruct (negb (forallb (asset_computes o inp) (assets_to_process o cf))); cbn [snd In]; [tauto|].
  destruct (method_label s) as [label|] eqn:El.
  - intros H. apply (run_generators_subset _ _ _ _ _ label) in H; auto.
    destruct H as [[]|H]. right. apply in_map_iff in H as [g [<- Hg]]. apply in_map_iff. exists g; auto.
  - rewrite run_generators_none by auto. cbn [In]; tauto.
Qed.

(** suffix test on strings *)
Definition ends_with (suf s : str) : bool := str_eqb (skipn (length s - length suf) s) suf.
Lemma ends_with_app a suf : ends_with suf (a ++ suf) = true.
Proof.
  unfold ends_with. rewrite app_length. replace (length a + length suf - length suf)%nat with (length a) by lia.
  rewrite skipn_app, skipn_all, Nat.sub_diag. simpl. apply str_eqb_refl.
Qed.

Definition report_suffix (g : gen_id) : str := [c_us] ++ gen_output_file g.
Definition is_log_path (p : str) : bool := ends_with s_log_suffix p.
Definition is_report_path (p : str) : bool := existsb (fun g => ends_with (report_suffix g) p) all_gens.

(** a path of the write set is the log file (./log/rp2_*.log) or ends in "_<report file name>": it can only
    coincide with the input spreadsheet or the configuration file if the user gave those files such a name *)
Theorem write_set_shape : forall c o cf stamp outdir p,
  In p (write_set c o cf stamp outdir) ->
  (exists st, render p = s_log_prefix ++ st ++ s_log_suffix) \/
  (exists g label, In g (country_generators c) /\ render p = outdir ++ [c_slash] ++ o_prefix o ++ label ++ report_suffix g).
Proof.
  intros c o cf stamp outdir p. unfold write_set. intros [<-|H].
  - left; eexists; reflexivity.
  - right. destruct (schedule c o cf) as [s|]; [|destruct H]. destruct (method_label s) as [label|]; [|destruct H].
    apply in_map_iff in H as [g [<- Hg]]. exists g, label. split.
    + apply (proj1 (discovery_spec c)); exact Hg.
    + unfold render, output_name, report_suffix. rewrite <- ?app_assoc. reflexivity.
Qed.

Theorem write_set_disjoint : forall c o cf stamp outdir p other,
  In p (write_set c o cf stamp outdir) -> is_log_path other = false -> is_report_path other = false -> render p <> other.
Proof.
  intros c o cf stamp outdir p other Hin Hlog Hrep Heq. subst other.
  destruct (write_set_shape _ _ _ _ _ _ Hin) as [[st E]|[g [label [Hg E]]]].
  - unfold is_log_path in Hlog. rewrite E in Hlog. rewrite app_assoc, ends_with_app in Hlog. discriminate.
  - unfold is_report_path in Hrep. assert (existsb (fun g0 => ends_with (report_suffix g0) (render p)) all_gens = true); [|congruence].
    apply existsb_exists. exists g. split; [apply all_gens_in|].
    rewrite E. rewrite !app_assoc. apply ends_with_app.
Qed.

Example write_set_example :
  map render (write_set US opts0 cfg0 [49] [111; 117; 116]) =
  [s_log_prefix ++ [49] ++ s_log_suffix;
   [111; 117; 116; 47] ++ meth_name Fifo ++ [c_us] ++ gen_output_file GOpenPositions;
   [111; 117; 116; 47] ++ meth_name Fifo ++ [c_us] ++ gen_output_file GFullReport;
   [111; 117; 116; 47] ++ meth_name Fifo ++ [c_us] ++ gen_output_file GTaxUS].
Proof. vm_compute. reflexivity. Qed.
