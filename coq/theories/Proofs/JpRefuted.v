(** C20 on the code AS IT WAS (years in first-seen order over in ++ out ++ intra, reference hard-wired to
    year - 1): two concrete inputs on which the report violates the property, evaluated on the model
    with both structural flags off -- independent of what the translator reads from the tree.
    The same inputs with both flags on give the intended chain (non-vacuity of the positive theorems). *)
From Coq Require Import List ZArith Bool Lia.
From RP2V Require Import Base.Prelude Base.Time Base.Dec Base.Sorting Base.Assoc Model.Types Model.Generated Model.Txn
  Model.Matcher Model.Pipeline Model.Computed Model.Grid Model.ReportInput Model.JpReport.
Import ListNotations.
Open Scope Z_scope.

Definition U : Z := 100000000000.
Definition day_ts (day : Z) : tstamp := {| utc_us := day * US_PER_DAY; off_s := 0 |}.
Definition buy (row day : Z) : raw_in :=
  {| ri_row := row; ri_ts := day_ts day; ri_exch := 0; ri_holder := 0; ri_type := BUY; ri_spot := 100 * U; ri_crypto_in := 2 * U;
     ri_crypto_fee := None; ri_fiat_in_no_fee := None; ri_fiat_in_with_fee := None; ri_fiat_fee := None |}.
Definition sell (row day : Z) : raw_out :=
  {| ro_row := row; ro_ts := day_ts day; ro_exch := 0; ro_holder := 0; ro_type := SELL; ro_spot := 200 * U;
     ro_crypto_out_no_fee := U; ro_crypto_fee := 0; ro_crypto_out_with_fee := None; ro_fiat_out_no_fee := None; ro_fiat_fee := None |}.

Definition BTC : str := [66; 84; 67].
Definition mk_input (h : hist) : option rinput :=
  match build h with
  | Ok t =>
    match fractions_of true [(1970, Fifo)] t with
    | Ok fs => Some {| rp_country := JP; rp_period := 9223372036854775807; rp_from := MIN_DAY; rp_to := MAX_DAY; rp_allow := false;
                       rp_exchanges := [[69; 48]]; rp_holders := [[72; 48]]; rp_sched := [(1970, Fifo)];
                       rp_assets := [{| ra_name := BTC; ra_txs := t; ra_fracs := fs |}] |}
    | Err _ => None
    end
  | Err _ => None
  end.
Definition dummy_input : rinput :=
  {| rp_country := JP; rp_period := 0; rp_from := 0; rp_to := 0; rp_allow := false; rp_exchanges := []; rp_holders := [];
     rp_sched := []; rp_assets := [] |}.
Definition input_of (h : hist) : rinput := match mk_input h with Some i => i | None => dummy_input end.
Definition report_of_input (yg ys pe : bool) (i : rinput) : list sheetw :=
  match jp_report 0 yg ys pe i with Ok r => r | Err _ => [] end.

(** 2019-01-01 = day 17897, 2019-06-01 = 18048, 2020-03-01 = 18322, 2021-01-01 = 18628 *)
(** buys in 2019 (two) and 2021, a sale in 2020: first-seen order of the years is 2019, 2021, 2020 *)
Definition unordered_input : rinput :=
  input_of {| h_ins := [buy 3 17897; buy 4 18048; buy 5 18628]; h_outs := [sell 9 18322]; h_intras := [] |}.
(** buys in 2019 and 2021, nothing in 2020 *)
Definition gap_input : rinput :=
  input_of {| h_ins := [buy 3 17897; buy 4 18628]; h_outs := []; h_intras := [] |}.

(** a buy, then a transfer that loses 1e-11 units at a price of 1e-8 yen: the lost amount is > 0, its yen value (1e-19) is 0 at
    13 decimals (2019-02-03 = day 17930) *)
Definition dust_transfer : raw_intra :=
  {| rx_row := 9; rx_ts := day_ts 17930; rx_from_exch := 0; rx_from_holder := 0; rx_to_exch := 0; rx_to_holder := 0;
     rx_spot := Some 1000; rx_crypto_sent := U; rx_crypto_received := U - 1 |}.
Definition dust_input : rinput := input_of {| h_ins := [buy 3 17897]; h_outs := []; h_intras := [dust_transfer] |}.

Definition sheet_named (r : list sheetw) (n : str) : option sheetw := find (fun s => str_eqb (sw_name s) n) r.
Definition has_sheet (r : list sheetw) (n : str) : bool := existsb (fun s => str_eqb (sw_name s) n) r.
Definition cell (r : list sheetw) (n : str) (row col : Z) : payload :=
  match sheet_named r n with Some s => cell_at (sw_writes s) row col | None => PEmpty end.
(** "=E<n>+F<n>-H<n>": units left at the end of the year (the closing-balance cell, column I) *)
Definition closing_formula (n : Z) : payload :=
  PFormula ([61; 69] ++ str_of_Z n ++ [43; 70] ++ str_of_Z n ++ [45; 72] ++ str_of_Z n).
Definition nm (y : Z) : str := tax_sheet_name 0 BTC y.

(** F5, first half: the 2021 sheet is emitted before the 2020 sheet; its opening balance names BTC_2020 but with
    the row of the closing cell of BTC_2019 (I32: that sheet has two transaction rows), whereas the closing cell
    of BTC_2020 is I31; and BTC_2020 opens with a reference into BTC_2019 using the row of BTC_2021 (I31),
    whereas the closing cell of BTC_2019 is I32 *)
Lemma refuted_unordered :
  let r := report_of_input false false false unordered_input in
  jp_report 0 false false false unordered_input = Ok r /\
  map sw_name r = [summary_sheet_name 0 2019; summary_sheet_name 0 2021; summary_sheet_name 0 2020; nm 2019; nm 2021; nm 2020] /\
  cell r (nm 2021) 30 4 = sheet_ref (nm 2020) 73 32 /\ cell r (nm 2020) 30 8 = closing_formula 31 /\
  cell r (nm 2020) 30 4 = sheet_ref (nm 2019) 73 31 /\ cell r (nm 2019) 31 8 = closing_formula 32.
Proof. vm_compute. repeat split; reflexivity. Qed.

(** F5, second half: with a gap year the opening balance of BTC_2021 refers to a sheet that does not exist *)
Lemma refuted_gap :
  let r := report_of_input false false false gap_input in
  jp_report 0 false false false gap_input = Ok r /\
  map sw_name r = [summary_sheet_name 0 2019; summary_sheet_name 0 2021; nm 2019; nm 2021] /\
  cell r (nm 2021) 30 4 = sheet_ref (nm 2020) 73 31 /\ has_sheet r (nm 2020) = false.
Proof. vm_compute. repeat split; reflexivity. Qed.

(** the same inputs with the years sorted and the previous existing year referenced *)
Lemma repaired_unordered :
  let r := report_of_input true true true unordered_input in
  jp_report 0 true true true unordered_input = Ok r /\
  map sw_name r = [summary_sheet_name 0 2019; summary_sheet_name 0 2020; summary_sheet_name 0 2021; nm 2019; nm 2020; nm 2021] /\
  cell r (nm 2019) 31 4 = PInt 0 /\
  cell r (nm 2020) 30 4 = sheet_ref (nm 2019) 73 32 /\ cell r (nm 2019) 31 8 = closing_formula 32 /\
  cell r (nm 2021) 30 4 = sheet_ref (nm 2020) 73 31 /\ cell r (nm 2020) 30 8 = closing_formula 31.
Proof. vm_compute. repeat split; reflexivity. Qed.

Lemma repaired_gap :
  let r := report_of_input true true true gap_input in
  jp_report 0 true true true gap_input = Ok r /\
  map sw_name r = [summary_sheet_name 0 2019; summary_sheet_name 0 2021; nm 2019; nm 2021] /\
  cell r (nm 2021) 30 4 = sheet_ref (nm 2019) 73 31 /\ cell r (nm 2019) 30 8 = closing_formula 31.
Proof. vm_compute. repeat split; reflexivity. Qed.

(** F14: with the yen value guarded by its own 13-decimal comparison the writer hands None to the spreadsheet library and no
    report is produced; guarded by the lost amount, the transfer gets its row (22, after the buy) with amount 1e-11 and 1e-19 yen *)
Lemma refuted_dust_fee_crash :
  jp_report 0 false true true dust_input = Err EValue /\
  let r := report_of_input true true true dust_input in
  jp_report 0 true true true dust_input = Ok r /\
  map sw_name r = [summary_sheet_name 0 2019; nm 2019] /\
  cell r (nm 2019) 22 6 = PNum (of_grid 1) /\ cell r (nm 2019) 22 7 = PNum (dmul (of_grid 1) (of_grid 1000)).
Proof. vm_compute. repeat split; reflexivity. Qed.
