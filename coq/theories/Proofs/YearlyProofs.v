(** Property "the yearly summary equals the sum of its detail fractions":
    specification of [yearly_add] / [yearly_list] of Computed.v. *)
From Coq Require Import List ZArith Bool Lia Permutation Sorted ZifyBool.
From RP2V Require Import Base.Prelude Base.Assoc Base.Sorting Base.Dec Base.Time Model.Types Model.Computed
  Proofs.SortingProofs Proofs.AssocProofs Proofs.FilterProofs.
Import ListNotations.
Open Scope Z_scope.

Definition lines (period : Z) (gls : list gl) : result (assoc yline) :=
  fold_left (yearly_add period) gls (Ok []).

Definition gkey (period : Z) (g : gl) : Z := ykey (g_year g) (t_type (g_ev g)) (g_long period g).

(** left-to-right sums over l, key fields from g0 *)
Definition sum_line (period : Z) (l : list gl) (g0 : gl) : yline :=
  fold_left (fun y g => {| y_year := y_year y; y_type := y_type y; y_long := y_long y; y_crypto := y_crypto y + g_amt g;
                           y_fiat := dadd (y_fiat y) (match g_proceeds g with Some d => d | None => dzero end);
                           y_cost := dadd (y_cost y) (match g_cost g with Some d => d | None => dzero end);
                           y_gain := dadd (y_gain y) (match g_gain g with Some d => d | None => dzero end) |})
            l {| y_year := g_year g0; y_type := t_type (g_ev g0); y_long := g_long period g0; y_crypto := 0;
                 y_fiat := dzero; y_cost := dzero; y_gain := dzero |}.

(** ** the key *)
Lemma ttype_code_range ty : 0 <= ttype_code ty <= 13.
Proof. destruct ty; cbn [ttype_code]; lia. Qed.

Lemma ttype_code_inj a b : ttype_code a = ttype_code b -> a = b.
Proof. intros H. apply ttype_eqb_eq. unfold ttype_eqb. lia. Qed.

(** injective on (year, type, long), for every year (negative ones included) *)
Lemma ykey_inj_gen : forall y ty lg y' ty' lg',
  ykey y ty lg = ykey y' ty' lg' -> y = y' /\ ty = ty' /\ lg = lg'.
Proof.
  intros y ty lg y' ty' lg' H. unfold ykey in H.
  pose proof (ttype_code_range ty) as R. pose proof (ttype_code_range ty') as R'.
  assert (Hy : y = y') by (destruct lg, lg'; lia). subst y'.
  assert (Hl : lg = lg') by (destruct lg, lg'; try reflexivity; exfalso; lia). subst lg'.
  assert (Hc : ttype_code ty = ttype_code ty') by lia.
  apply ttype_code_inj in Hc. auto.
Qed.

Lemma ykey_inj : forall y ty lg y' ty' lg', 0 <= y -> 0 <= y' ->
  ykey y ty lg = ykey y' ty' lg' -> y = y' /\ ty = ty' /\ lg = lg'.
Proof. intros y ty lg y' ty' lg' _ _. apply ykey_inj_gen. Qed.

Lemma gkey_inj period g g' : gkey period g = gkey period g' ->
  g_year g = g_year g' /\ t_type (g_ev g) = t_type (g_ev g') /\ g_long period g = g_long period g'.
Proof. apply ykey_inj_gen. Qed.

(** ** one step *)
Definition sum_step (y : yline) (g : gl) : yline :=
  {| y_year := y_year y; y_type := y_type y; y_long := y_long y; y_crypto := y_crypto y + g_amt g;
     y_fiat := dadd (y_fiat y) (match g_proceeds g with Some d => d | None => dzero end);
     y_cost := dadd (y_cost y) (match g_cost g with Some d => d | None => dzero end);
     y_gain := dadd (y_gain y) (match g_gain g with Some d => d | None => dzero end) |}.
Definition line_init (period : Z) (g0 : gl) : yline :=
  {| y_year := g_year g0; y_type := t_type (g_ev g0); y_long := g_long period g0; y_crypto := 0;
     y_fiat := dzero; y_cost := dzero; y_gain := dzero |}.
Definition new_line (period : Z) (old : yline) (g : gl) (p c gn : dec) : yline :=
  {| y_year := g_year g; y_type := t_type (g_ev g); y_long := g_long period g; y_crypto := y_crypto old + g_amt g;
     y_fiat := dadd (y_fiat old) p; y_cost := dadd (y_cost old) c; y_gain := dadd (y_gain old) gn |}.

Lemma sum_line_eq period l g0 : sum_line period l g0 = fold_left sum_step l (line_init period g0).
Proof. reflexivity. Qed.

Lemma sum_line_snoc period l g g0 : sum_line period (l ++ [g]) g0 = sum_step (sum_line period l g0) g.
Proof. rewrite !sum_line_eq, fold_left_app. reflexivity. Qed.

Lemma fold_sum_step_keys l : forall y,
  y_year (fold_left sum_step l y) = y_year y /\ y_type (fold_left sum_step l y) = y_type y /\
  y_long (fold_left sum_step l y) = y_long y.
Proof.
  induction l as [|g l IH]; intros y; cbn [fold_left]; [auto|].
  destruct (IH (sum_step y g)) as (H1 & H2 & H3). rewrite H1, H2, H3. auto.
Qed.

Lemma sum_line_keys period l g0 :
  y_year (sum_line period l g0) = g_year g0 /\ y_type (sum_line period l g0) = t_type (g_ev g0) /\
  y_long (sum_line period l g0) = g_long period g0.
Proof. rewrite sum_line_eq. apply (fold_sum_step_keys l (line_init period g0)). Qed.

Lemma sum_line_key period l g0 : yline_key (sum_line period l g0) = gkey period g0.
Proof.
  unfold yline_key, gkey. destruct (sum_line_keys period l g0) as (H1 & H2 & H3).
  rewrite H1, H2, H3. reflexivity.
Qed.

Lemma fold_sum_step_crypto l : forall y, y_crypto (fold_left sum_step l y) = y_crypto y + sumZ (map g_amt l).
Proof.
  induction l as [|g l IH]; intros y; cbn [fold_left map sumZ]; [lia|].
  rewrite IH. cbn [sum_step y_crypto]. lia.
Qed.

(** the crypto figure of a line is the plain integer sum of its fractions *)
Lemma sum_line_crypto period l g0 : y_crypto (sum_line period l g0) = sumZ (map g_amt l).
Proof. rewrite sum_line_eq, fold_sum_step_crypto. reflexivity. Qed.

Lemma yearly_add_ok period m g m' : yearly_add period (Ok m) g = Ok m' ->
  exists p c gn, g_proceeds g = Some p /\ g_cost g = Some c /\ g_gain g = Some gn /\
    m' = aset (gkey period g) (new_line period (aget_d (line_init period g) (gkey period g) m) g p c gn) m.
Proof.
  unfold yearly_add. intros H.
  destruct (g_proceeds g) as [p|]; [|discriminate H].
  destruct (g_cost g) as [c|]; [|discriminate H].
  destruct (g_gain g) as [gn|]; [|discriminate H].
  exists p, c, gn. injection H as H. subst m'. repeat split; reflexivity.
Qed.

Lemma yearly_add_ok_iff period m g :
  (exists m', yearly_add period (Ok m) g = Ok m') <->
  (g_proceeds g <> None /\ g_cost g <> None /\ g_gain g <> None).
Proof.
  unfold yearly_add. split.
  - intros [m' H].
    destruct (g_proceeds g) as [p|]; [|discriminate H].
    destruct (g_cost g) as [c|]; [|discriminate H].
    destruct (g_gain g) as [gn|]; [|discriminate H].
    repeat split; discriminate.
  - intros (H1 & H2 & H3).
    destruct (g_proceeds g) as [p|]; [|congruence].
    destruct (g_cost g) as [c|]; [|congruence].
    destruct (g_gain g) as [gn|]; [|congruence].
    eexists. reflexivity.
Qed.

Lemma yearly_add_err period e g : yearly_add period (Err e) g = Err e.
Proof. reflexivity. Qed.

Lemma lines_snoc period gls g : lines period (gls ++ [g]) = yearly_add period (lines period gls) g.
Proof. unfold lines. rewrite fold_left_app. reflexivity. Qed.

(** ** main specification *)
(** Remark on the pattern below: in Coq [g0 :: _ as l] is read [g0 :: (_ as l)], i.e. [l] would be the
    tail; the whole filtered list is meant, hence the parentheses [(g0 :: _) as l]. *)
Example as_pattern_binds_the_tail :
  (match [1; 2; 3] with [] => [] | g0 :: _ as l => l end) = [2; 3] /\
  (match [1; 2; 3] with [] => [] | (g0 :: _) as l => l end) = [1; 2; 3].
Proof. split; reflexivity. Qed.

Theorem yearly_lines_spec : forall period gls m, lines period gls = Ok m ->
  NoDup (map fst m) /\
  forall k, aget k m = match filter (fun g => gkey period g =? k) gls with
                       | [] => None
                       | (g0 :: _) as l => Some (sum_line period l g0)
                       end.
Proof.
  intros period gls. induction gls as [|x gls IH] using rev_ind; intros m H.
  - unfold lines in H. cbn [fold_left] in H. injection H as H. subst m.
    split; [constructor|]. intros k. reflexivity.
  - rewrite lines_snoc in H.
    destruct (lines period gls) as [m0|e] eqn:E; [|discriminate H].
    destruct (IH m0 eq_refl) as [Hnd Hget]. clear IH.
    apply yearly_add_ok in H. destruct H as (p & c & gn & Ep & Ec & Eg & Hm). subst m.
    split; [apply aset_NoDup; exact Hnd|].
    intros k. rewrite filter_app. cbn [filter].
    rewrite aget_aset. destruct (k =? gkey period x) eqn:Ek.
    + assert (Hk : k = gkey period x) by lia. subst k. rewrite Z.eqb_refl.
      unfold aget_d. rewrite Hget.
      destruct (filter (fun g => gkey period g =? gkey period x) gls) as [|g0 l'] eqn:Ef.
      * cbn [app]. f_equal.
        change (sum_line period [x] x) with (sum_step (line_init period x) x).
        unfold new_line, sum_step, line_init. cbn [y_year y_type y_long y_crypto y_fiat y_cost y_gain].
        rewrite Ep, Ec, Eg. reflexivity.
      * cbn [app]. f_equal. change (g0 :: l' ++ [x]) with ((g0 :: l') ++ [x]).
        rewrite sum_line_snoc.
        assert (Hg0 : gkey period g0 = gkey period x).
        { assert (Hin : In g0 (filter (fun g => gkey period g =? gkey period x) gls))
            by (rewrite Ef; left; reflexivity).
          apply filter_In in Hin. destruct Hin as [_ Hin]. lia. }
        apply gkey_inj in Hg0. destruct Hg0 as (G1 & G2 & G3).
        destruct (sum_line_keys period (g0 :: l') g0) as (K1 & K2 & K3).
        unfold new_line, sum_step. rewrite K1, K2, K3, Ep, Ec, Eg, G1, G2, G3. reflexivity.
    + assert (Hk : (gkey period x =? k) = false) by lia. rewrite Hk.
      rewrite app_nil_r. apply Hget.
Qed.

(** every line carries its own key *)
Lemma lines_value_key period gls m k v : lines period gls = Ok m -> aget k m = Some v -> yline_key v = k.
Proof.
  intros H Hk. destruct (yearly_lines_spec period gls m H) as [_ Hget].
  rewrite Hget in Hk.
  destruct (filter (fun g => gkey period g =? k) gls) as [|g0 l'] eqn:Ef; [discriminate|].
  injection Hk as Hk. subst v. rewrite sum_line_key.
  assert (Hin : In g0 (filter (fun g => gkey period g =? k) gls)) by (rewrite Ef; left; reflexivity).
  apply filter_In in Hin. destruct Hin as [_ Hin]. lia.
Qed.

(** every fraction contributes to exactly one line, lines exist only for keys that have fractions *)
Corollary yearly_line_exists_iff : forall period gls m k, lines period gls = Ok m ->
  (amem k m = true <-> exists g, In g gls /\ gkey period g = k).
Proof.
  intros period gls m k H. destruct (yearly_lines_spec period gls m H) as [_ Hget].
  unfold amem. rewrite Hget.
  destruct (filter (fun g => gkey period g =? k) gls) as [|g0 l'] eqn:Ef.
  - split; [discriminate|]. intros (g & Hin & Hg).
    assert (Hf : In g (filter (fun g => gkey period g =? k) gls)) by (apply filter_In; split; [exact Hin|lia]).
    rewrite Ef in Hf. destruct Hf.
  - split; [intros _|reflexivity].
    assert (Hin : In g0 (filter (fun g => gkey period g =? k) gls)) by (rewrite Ef; left; reflexivity).
    apply filter_In in Hin. destruct Hin as [Hin Hg]. exists g0. split; [exact Hin|lia].
Qed.

(** the line of a key sums exactly the fractions of that key: its crypto amount *)
Corollary yearly_line_crypto : forall period gls m k v, lines period gls = Ok m -> aget k m = Some v ->
  y_crypto v = sumZ (map g_amt (filter (fun g => gkey period g =? k) gls)).
Proof.
  intros period gls m k v H Hk. destruct (yearly_lines_spec period gls m H) as [_ Hget].
  rewrite Hget in Hk.
  destruct (filter (fun g => gkey period g =? k) gls) as [|g0 l'] eqn:Ef; [discriminate|].
  injection Hk as Hk. subst v. apply sum_line_crypto.
Qed.

(** grand total of the crypto amounts equals the total of the detail *)
Theorem yearly_crypto_total : forall period gls m, lines period gls = Ok m ->
  sumZ (map (fun kv => y_crypto (snd kv)) m) = sumZ (map g_amt gls).
Proof.
  intros period gls. induction gls as [|x gls IH] using rev_ind; intros m H.
  - unfold lines in H. cbn [fold_left] in H. injection H as H. subst m. reflexivity.
  - rewrite lines_snoc in H.
    destruct (lines period gls) as [m0|e] eqn:E; [|discriminate H].
    specialize (IH m0 eq_refl).
    apply yearly_add_ok in H. destruct H as (p & c & gn & Ep & Ec & Eg & Hm). subst m.
    rewrite (sum_aset y_crypto), IH, map_app, sumZ_app. cbn [map sumZ].
    unfold aget_d. destruct (aget (gkey period x) m0) as [v0|];
      unfold new_line, line_init; cbn [y_crypto]; lia.
Qed.

(** when it fails: only if some figure is undefined (division by a zero amount) *)
Theorem lines_ok_iff : forall period gls,
  (exists m, lines period gls = Ok m) <->
  forall g, In g gls -> g_proceeds g <> None /\ g_cost g <> None /\ g_gain g <> None.
Proof.
  intros period gls. induction gls as [|x gls IH] using rev_ind.
  - split; [intros _ g []|]. intros _. exists []. reflexivity.
  - rewrite lines_snoc. split.
    + intros [m H] g Hin.
      destruct (lines period gls) as [m0|e] eqn:E; [|discriminate H].
      apply in_app_or in Hin. destruct Hin as [Hin|[Hin|[]]].
      * apply (proj1 IH); [exists m0; reflexivity|exact Hin].
      * subst g. apply (yearly_add_ok_iff period m0 x). exists m. exact H.
    + intros Hall.
      destruct (proj2 IH) as [m0 E].
      { intros g Hin. apply Hall. apply in_or_app. left. exact Hin. }
      rewrite E. apply yearly_add_ok_iff. apply Hall. apply in_or_app. right. left. reflexivity.
Qed.

(** the only possible error *)
Lemma lines_err period gls e : lines period gls = Err e -> e = EInternal.
Proof.
  induction gls as [|x gls IH] using rev_ind; [discriminate|].
  rewrite lines_snoc. destruct (lines period gls) as [m0|e0] eqn:E.
  - unfold yearly_add. destruct (g_proceeds x); [|congruence].
    destruct (g_cost x); [|congruence]. destruct (g_gain x); [discriminate|congruence].
  - cbn [yearly_add]. intros H. injection H as H. subst e0. apply IH. reflexivity.
Qed.

(** ** the final list *)
Lemma lines_values_keys period gls m : lines period gls = Ok m -> map yline_key (map snd m) = map fst m.
Proof.
  intros H. destruct (yearly_lines_spec period gls m H) as [Hnd _].
  rewrite map_map. apply map_ext_in. intros [k v] Hin. cbn [fst snd].
  apply (lines_value_key period gls m k v H). apply In_aget; assumption.
Qed.

Lemma lines_values_NoDup period gls m : lines period gls = Ok m -> NoDup (map snd m).
Proof.
  intros H. apply (NoDup_map_inv yline_key). rewrite (lines_values_keys period gls m H).
  apply (yearly_lines_spec period gls m H).
Qed.

Lemma NoDup_filter' {A} (p : A -> bool) l : NoDup l -> NoDup (filter p l).
Proof.
  induction 1 as [|x l Hx Hnd IH]; cbn [filter]; [constructor|].
  destruct (p x); [|exact IH]. constructor; [|exact IH].
  intros Hin. apply filter_In in Hin. tauto.
Qed.

(** exactly the lines with year >= from_year, each once *)
Theorem yearly_list_spec : forall period to_day from_year gls yl,
  yearly_list period to_day from_year gls = Ok yl ->
  exists m, lines period (take_until g_day to_day gls) = Ok m /\
    (forall l, In l yl <-> (In l (map snd m) /\ from_year <= y_year l)) /\ NoDup yl.
Proof.
  intros period to_day from_year gls yl H. unfold yearly_list in H.
  fold (lines period (take_until g_day to_day gls)) in H.
  destruct (lines period (take_until g_day to_day gls)) as [m|e] eqn:E; [|discriminate H].
  injection H as H. subst yl. exists m. split; [reflexivity|]. split.
  - intros l. rewrite filter_In, sort_by_in. split; intros [H1 H2]; (split; [exact H1|lia]).
  - apply NoDup_filter'.
    apply (Permutation_NoDup (l := map snd m)).
    + apply Permutation_sym, sort_by_perm.
    + apply (lines_values_NoDup _ _ _ E).
Qed.

(** ... sorted by strictly descending key *)
Theorem yearly_list_sorted : forall period to_day from_year gls yl,
  yearly_list period to_day from_year gls = Ok yl ->
  StronglySorted (fun a b => yline_key a > yline_key b) yl.
Proof.
  intros period to_day from_year gls yl H.
  destruct (yearly_list_spec _ _ _ _ _ H) as (m & E & Hin & Hnd).
  unfold yearly_list in H. fold (lines period (take_until g_day to_day gls)) in H.
  rewrite E in H. injection H as H.
  assert (Hs : StronglySorted (fun a b => - yline_key a <= - yline_key b) yl).
  { subst yl. apply (sorted_filter (fun l => - yline_key l)). apply sort_by_sorted. }
  assert (Hkey : forall a b, In a yl -> In b yl -> yline_key a = yline_key b -> a = b).
  { intros a b Ha Hb Hab. apply Hin in Ha. apply Hin in Hb. destruct Ha as [Ha _], Hb as [Hb _].
    apply in_map_iff in Ha. destruct Ha as ([ka va] & <- & Ha).
    apply in_map_iff in Hb. destruct Hb as ([kb vb] & <- & Hb). cbn [snd] in *.
    destruct (yearly_lines_spec _ _ _ E) as [Hndm _].
    pose proof (In_aget _ _ _ Hndm Ha) as Ga. pose proof (In_aget _ _ _ Hndm Hb) as Gb.
    rewrite <- (lines_value_key _ _ _ _ _ E Ga) in Ga.
    rewrite <- (lines_value_key _ _ _ _ _ E Gb) in Gb.
    rewrite Hab in Ga. congruence. }
  clear H Hin. induction Hs as [|a l Hs IH Hall]; [constructor|].
  inversion Hnd as [|? ? Hni Hnd']; subst.
  constructor.
  - apply IH; [exact Hnd'|]. intros x y Hx Hy. apply Hkey; right; assumption.
  - rewrite Forall_forall in *. intros b Hb. specialize (Hall b Hb).
    assert (yline_key a <> yline_key b).
    { intros Heq. apply Hni. rewrite (Hkey a b); [exact Hb|left; reflexivity|right; exact Hb|exact Heq]. }
    lia.
Qed.

