(** The average price per unit (ComputedData.price_per_unit): total fiat cost including fees of the acquisitions up to
    the to-date divided by their total amount, in the code's 31-digit arithmetic. *)
From Coq Require Import List ZArith Bool Lia QArith Qabs.
From RP2V Require Import Base.Prelude Base.Dec Base.Time Model.Types Model.Generated Model.Txn Model.Matcher Model.Pipeline Model.Computed
  Model.ComputedSpec Proofs.DecProofs Proofs.FilterProofs Proofs.FiatSumProofs Proofs.C04Reassembly Proofs.L4Examples.
Import ListNotations.
Open Scope Z_scope.

Lemma fold_add_sum {A} (f : A -> Z) l : forall acc, fold_left (fun acc a => acc + f a) l acc = acc + sumZ (map f l).
Proof. induction l as [|x l IH]; intros acc; cbn [fold_left map sumZ]; [lia|]. rewrite IH. lia. Qed.
Lemma fold_dadd_map {A} (f : A -> dec) l : forall acc, fold_left (fun acc a => dadd acc (f a)) l acc = fold_left dadd (map f l) acc.
Proof. induction l as [|x l IH]; intros acc; cbn [fold_left map]; [reflexivity|]. apply IH. Qed.

Theorem price_spec : forall to_day ins d, price_per_unit to_day ins = Ok d ->
  let l := take_until in_day to_day ins in
  match l with
  | [] => d = dzero
  | _ => ddiv (dsum (map i_fiat_in_with_fee l)) (of_grid (sumZ (map i_crypto_in l))) = Some d
  end.
Proof.
  intros to_day ins d. unfold price_per_unit. change (fun a : intx => local_day (i_ts a)) with in_day.
  destruct (take_until in_day to_day ins) as [|a l] eqn:E; cbv zeta.
  - intros [= <-]. reflexivity.
  - rewrite fold_add_sum, fold_dadd_map. cbn [Z.add]. unfold dsum.
    destruct (ddiv _ _) as [q|]; [|discriminate]. intros [= <-]. reflexivity.
Qed.

(** with dates monotone in time the acquisitions seen are exactly those dated up to the to-date *)
Theorem price_all_history : forall to_day ins, day_sorted in_day ins ->
  take_until in_day to_day ins = filter (fun a => in_day a <=? to_day) ins.
Proof. intros to_day ins H. apply take_until_filter. exact H. Qed.

(** accuracy: the quotient is correctly rounded, the numerator is within n * 1e-30 * (sum of magnitudes) of the exact total *)
Theorem price_accuracy : forall to_day ins d, price_per_unit to_day ins = Ok d ->
  let l := take_until in_day to_day ins in
  l <> [] ->
  let S := dsum (map i_fiat_in_with_fee l) in
  let C := of_grid (sumZ (map i_crypto_in l)) in
  (Qabs (to_q d - to_q S / to_q C) <= EPS * Qabs (to_q S / to_q C))%Q /\
  ((2 * nq (length l) * EPS <= 1)%Q ->
   (Qabs (to_q S - qsum (map i_fiat_in_with_fee l)) <= nq (length l) * (2 * EPS) * qabs_sum (map i_fiat_in_with_fee l))%Q).
Proof.
  intros to_day ins d H l Hne S C. pose proof (price_spec _ _ _ H) as P. cbv zeta in P. fold l in P.
  destruct l as [|a l'] eqn:El; [congruence|]. split.
  - exact (ddiv_error _ _ _ P).
  - intros Hb. pose proof (dsum_error_closed (map i_fiat_in_with_fee (a :: l'))) as D. rewrite map_length in D. exact (D Hb).
Qed.

Example price_instance : price_per_unit 100000 (t_ins tA) = Ok (cd_price cdA) /\ (to_q (cd_price cdA) == 2150 # 16)%Q.
Proof. vm_compute. split; reflexivity. Qed.
