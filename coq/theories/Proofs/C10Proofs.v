(** C10: date filters only hide rows.  Theorems about [compute] (Computed.v) under two windows,
    derived from [compute_inv] / [compute_labels] (ComputedProofs.v), the iterator lemmas
    (FilterProofs.v) and the yearly-list lemmas (C06Proofs.v). *)
From Coq Require Import List ZArith Bool Lia Permutation Sorted ZifyBool.
From RP2V Require Import Base.Prelude Base.Assoc Base.Sorting Base.Dec Base.Time Model.Types Model.Generated Model.Txn
  Model.Matcher Model.Pipeline Model.Computed Model.ComputedSpec Proofs.SortingProofs Proofs.FilterProofs
  Proofs.PipelineWf Proofs.C06Proofs Proofs.ComputedProofs Proofs.L4Examples.
Import ListNotations.
Open Scope Z_scope.

Lemma iter_window_view {A} (day : A -> Z) from_ to_ l : window_view day from_ to_ l (iter_window day from_ to_ l).
Proof. split; [intros x; apply iter_window_sublist|apply iter_window_prefix_of_filter]. Qed.

(** * what is shown, unconditionally *)
Theorem c10_views : forall period from_day to_day allow exs hos t fs cd,
  compute period from_day to_day allow exs hos t fs = Ok cd ->
  exists evs, taxable_events t = Ok evs /\
    window_view in_day from_day to_day (t_ins t) (cd_ins cd) /\
    window_view out_day from_day to_day (t_outs t) (cd_outs cd) /\
    window_view intra_day from_day to_day (t_intras t) (cd_intras cd) /\
    window_view txn_day from_day to_day evs (cd_events cd) /\
    window_view g_day from_day to_day (cd_all_gls cd) (cd_gls cd).
Proof.
  intros period from_day to_day allow exs hos t fs cd H.
  destruct (compute_inv _ _ _ _ _ _ _ _ _ H) as (evs & gls & HE & _ & -> & _ & _ & _ & _ & -> & -> & -> & -> & -> & _).
  exists evs. split; [exact HE|]. split; [|split; [|split; [|split]]]; apply iter_window_view.
Qed.

(** * what is shown when dates are monotone in time: exactly the rows dated in the window *)
Lemma replay_in t a : In a (t_ins t) -> In (TIn a) (replay_order t).
Proof. intros H. unfold replay_order. rewrite sort_by_in, !in_app_iff. left. apply in_map. exact H. Qed.
Lemma replay_out t a : In a (t_outs t) -> In (TOut a) (replay_order t).
Proof. intros H. unfold replay_order. rewrite sort_by_in, !in_app_iff. right. right. apply in_map. exact H. Qed.
Lemma replay_intra t a : In a (t_intras t) -> In (TIntra a) (replay_order t).
Proof. intros H. unfold replay_order. rewrite sort_by_in, !in_app_iff. right. left. apply in_map. exact H. Qed.

Theorem c10_lists_day_sorted : forall t fs evs gls,
  time_sorted t -> dates_monotone t -> taxable_events t = Ok evs -> all_fractions t fs = Some gls ->
  day_sorted in_day (t_ins t) /\ day_sorted out_day (t_outs t) /\ day_sorted intra_day (t_intras t) /\
  day_sorted txn_day evs /\ day_sorted g_day gls.
Proof.
  intros t fs evs gls (S1 & S2 & S3) Hm HE HG.
  destruct (all_fractions_events t fs evs gls HE HG) as [Hin Hs].
  split; [|split; [|split; [|split]]].
  - apply (us_sorted_day_sorted in_us in_day _ S1). intros a b Ha Hb. apply (Hm (TIn a) (TIn b)); apply replay_in; assumption.
  - apply (us_sorted_day_sorted out_us out_day _ S2). intros a b Ha Hb. apply (Hm (TOut a) (TOut b)); apply replay_out; assumption.
  - apply (us_sorted_day_sorted intra_us intra_day _ S3). intros a b Ha Hb. apply (Hm (TIntra a) (TIntra b)); apply replay_intra; assumption.
  - apply (us_sorted_day_sorted t_us txn_day _ (taxable_us_sorted t evs HE)). intros a b Ha Hb.
    apply Hm; apply (taxable_in_replay t evs); assumption.
  - apply (us_sorted_day_sorted (fun g => t_us (g_ev g)) g_day _ Hs). intros a b Ha Hb.
    apply (Hm (g_ev a) (g_ev b)); apply (taxable_in_replay t evs _ HE); apply Hin; assumption.
Qed.

Theorem c10_views_exact : forall period from_day to_day allow exs hos t fs cd,
  time_sorted t -> dates_monotone t ->
  compute period from_day to_day allow exs hos t fs = Ok cd ->
  exists evs, taxable_events t = Ok evs /\
    cd_ins cd = filter (fun a => in_window from_day to_day (in_day a)) (t_ins t) /\
    cd_outs cd = filter (fun a => in_window from_day to_day (out_day a)) (t_outs t) /\
    cd_intras cd = filter (fun a => in_window from_day to_day (intra_day a)) (t_intras t) /\
    cd_events cd = filter (fun x => in_window from_day to_day (txn_day x)) evs /\
    cd_gls cd = filter (fun g => in_window from_day to_day (g_day g)) (cd_all_gls cd).
Proof.
  intros period from_day to_day allow exs hos t fs cd Hts Hm H.
  destruct (compute_inv _ _ _ _ _ _ _ _ _ H) as (evs & gls & HE & HG & -> & _ & _ & _ & _ & -> & -> & -> & -> & -> & _).
  destruct (c10_lists_day_sorted t fs evs gls Hts Hm HE HG) as (D1 & D2 & D3 & D4 & D5).
  exists evs. split; [exact HE|]. repeat split; apply iter_window_is_filter; assumption.
Qed.

(** [build] produces time-sorted lists *)
Lemma build_time_sorted h t : build h = Ok t -> time_sorted t.
Proof.
  intros Hb. destruct (build_inv h t Hb) as (ins & outs & intras & _ & _ & _ & _ & _ & T1 & T2 & T3).
  unfold time_sorted. rewrite T1, T2, T3. repeat split; apply sort_by_sorted.
Qed.

(** all timestamps written with one UTC offset: dates are monotone *)
Lemma same_offset_monotone t off : (forall x, In x (replay_order t) -> off_s (t_ts x) = off) -> dates_monotone t.
Proof.
  intros H x y Hx Hy Hle. unfold txn_day, local_day, t_us in *. rewrite (H x Hx), (H y Hy).
  apply Z.div_le_mono; [reflexivity|lia].
Qed.

(** * nothing that is shown depends on the window *)
Theorem c10_window_independent : forall period from_day to_day allow exs hos t fs cd from_day' to_day' allow' cd',
  compute period from_day to_day allow exs hos t fs = Ok cd ->
  compute period from_day' to_day' allow' exs hos t fs = Ok cd' ->
  all_fractions t fs = Some (cd_all_gls cd) /\
  cd_all_gls cd = cd_all_gls cd' /\ cd_gl_running cd = cd_gl_running cd' /\
  cd_in_running cd = cd_in_running cd' /\ cd_out_running cd = cd_out_running cd' /\ cd_intra_running cd = cd_intra_running cd' /\
  window_view g_day from_day to_day (cd_all_gls cd') (cd_gls cd).
Proof.
  intros period from_day to_day allow exs hos t fs cd from_day' to_day' allow' cd' H H'.
  destruct (compute_inv _ _ _ _ _ _ _ _ _ H) as (evs & gls & HE & HG & G1 & _ & _ & _ & _ & G2 & _ & _ & _ & _ & R1 & R2 & R3 & R4).
  destruct (compute_inv _ _ _ _ _ _ _ _ _ H') as (evs' & gls' & HE' & HG' & G1' & _ & _ & _ & _ & _ & _ & _ & _ & _ & R1' & R2' & R3' & R4').
  rewrite HG in HG'. injection HG' as <-.
  rewrite G1, G1', R1, R1', R2, R2', R3, R3', R4, R4', G2.
  split; [exact HG|]. do 5 (split; [reflexivity|]). apply iter_window_view.
Qed.

(** a window that contains every fraction shows the whole detail table *)
Theorem c10_unfiltered_shows_all : forall period from_day to_day allow exs hos t fs cd,
  compute period from_day to_day allow exs hos t fs = Ok cd ->
  (forall g, In g (cd_all_gls cd) -> from_day <= g_day g <= to_day) -> cd_gls cd = cd_all_gls cd.
Proof.
  intros period from_day to_day allow exs hos t fs cd H Hall.
  destruct (compute_inv _ _ _ _ _ _ _ _ _ H) as (evs & gls & _ & _ & G1 & _ & _ & _ & _ & G2 & _).
  rewrite G2, G1 in *. apply iter_window_all. exact Hall.
Qed.

(** the matcher never sees the window: both runs aggregate the same list of fractions *)
Theorem c10_matching_ignores_window : forall period from_day to_day allow exs hos sched t cd from_day' to_day' allow' cd',
  compute_tax period from_day to_day allow exs hos sched t = Ok cd ->
  compute_tax period from_day' to_day' allow' exs hos sched t = Ok cd' ->
  exists fs, fractions_of gen_always_repush sched t = Ok fs /\
    compute period from_day to_day allow exs hos t fs = Ok cd /\
    compute period from_day' to_day' allow' exs hos t fs = Ok cd'.
Proof.
  intros period from_day to_day allow exs hos sched t cd from_day' to_day' allow' cd'. unfold compute_tax.
  destruct (fractions_of gen_always_repush sched t) as [fs|e]; [|discriminate].
  intros H H'. exists fs. auto.
Qed.

(** * balances, average price, fraction labels: all history up to the to-date, whatever the from-date *)
Theorem c10_from_day_independent : forall period from_day from_day' to_day allow exs hos t fs cd cd',
  compute period from_day to_day allow exs hos t fs = Ok cd ->
  compute period from_day' to_day allow exs hos t fs = Ok cd' ->
  cd_balances cd = cd_balances cd' /\ cd_price cd = cd_price cd' /\
  balances allow to_day exs hos t = Ok (cd_balances cd) /\ price_per_unit to_day (t_ins t) = Ok (cd_price cd) /\
  exists L, labelled to_day (cd_all_gls cd) = Ok L /\ map lab_gl L = take_until g_day to_day (cd_all_gls cd) /\
    (let W := filter (fun x => from_day <=? g_day (lab_gl x)) L in
     map lab_gl W = cd_gls cd /\ map lab_ev W = cd_evfrac cd /\ map lab_lot W = cd_lotfrac cd) /\
    (let W' := filter (fun x => from_day' <=? g_day (lab_gl x)) L in
     map lab_gl W' = cd_gls cd' /\ map lab_ev W' = cd_evfrac cd' /\ map lab_lot W' = cd_lotfrac cd').
Proof.
  intros period from_day from_day' to_day allow exs hos t fs cd cd' H H'.
  destruct (compute_inv _ _ _ _ _ _ _ _ _ H) as (evs & gls & HE & HG & G1 & _ & _ & HB & HP & _).
  destruct (compute_inv _ _ _ _ _ _ _ _ _ H') as (evs' & gls' & HE' & HG' & G1' & _ & _ & HB' & HP' & _).
  rewrite HG in HG'. injection HG' as <-.
  rewrite HB in HB'. injection HB' as HB'. rewrite HP in HP'. injection HP' as HP'.
  split; [exact HB'|]. split; [exact HP'|]. split; [exact HB|]. split; [exact HP|].
  destruct (compute_labels _ _ _ _ _ _ _ _ _ H) as (L & HL & HW).
  destruct (compute_labels _ _ _ _ _ _ _ _ _ H') as (L' & HL' & HW').
  rewrite G1' in HL'. rewrite G1 in HL. rewrite HL in HL'. injection HL' as <-.
  exists L. rewrite G1. split; [exact HL|]. split; [exact (labelled_fractions _ _ _ HL)|]. split; assumption.
Qed.

(** * yearly summary: whole years from the from-date's year on *)
Theorem c10_yearly_whole_years : forall period from_day from_day' to_day allow exs hos t fs cd cd',
  compute period from_day to_day allow exs hos t fs = Ok cd ->
  compute period from_day' to_day allow exs hos t fs = Ok cd' ->
  year_of_day from_day' <= year_of_day from_day ->
  cd_yearly cd = filter (fun l => year_of_day from_day <=? y_year l) (cd_yearly cd').
Proof.
  intros period from_day from_day' to_day allow exs hos t fs cd cd' H H' Hle.
  pose proof (c06_summary_of_run _ _ _ _ _ _ _ _ _ H) as Y. pose proof (c06_summary_of_run _ _ _ _ _ _ _ _ _ H') as Y'.
  destruct (c10_window_independent _ _ _ _ _ _ _ _ _ _ _ _ _ H H') as (_ & G & _). rewrite <- G in Y'.
  exact (c06_from_year _ _ _ _ _ _ _ Y Y' Hle).
Qed.

(** * finding F9: with mixed UTC offsets a row dated inside the window is hidden *)
Theorem c10_to_date_refuted : exists period from_day to_day exs hos t fs cd a,
  compute period from_day to_day false exs hos t fs = Ok cd /\
  In a (t_outs t) /\ from_day <= out_day a <= to_day /\ ~ In a (cd_outs cd).
Proof.
  exists 365, (-100000), 18627, exsA, hosA, t9, fs9, cd9, o9_hidden.
  split; [exact cd9_ok|]. split; [right; left; reflexivity|]. split; [vm_compute; split; discriminate|]. intros [].
Qed.

(** * non-vacuity: history A of L4Examples.v, unfiltered and with the window 2020-05-01 .. 2020-07-07 *)
Example tA_time_sorted : time_sorted tA.
Proof. exact (build_time_sorted hA tA tA_built). Qed.
Example tA_dates_monotone : dates_monotone tA.
Proof.
  apply (same_offset_monotone tA 0). intros x Hx. vm_compute in Hx.
  repeat (destruct Hx as [<-|Hx]; [reflexivity|]). destruct Hx.
Qed.
Example c10_views_instance := c10_views_exact 365 18383 18450 false exsA hosA tA fsA cdA_win tA_time_sorted tA_dates_monotone cdA_win_ok.
Example c10_independent_instance := c10_window_independent _ _ _ _ _ _ _ _ _ _ _ _ _ cdA_win_ok cdA_ok.
Example c10_from_instance := c10_from_day_independent _ _ _ _ _ _ _ _ _ _ _ cdA_win_ok cdA_to_ok.
(** the window hides some fractions and shows others (4 of 7); a lot bought before the window is consumed inside it
    (row 4 sells from the 2019 lot), labels count all fractions up to the to-date: the sale of row 5 is "1 of 2", "2 of 2" *)
Example c10_example_window :
  map (fun g => (t_row (g_ev g), option_map i_row (g_lot g))) (cd_gls cdA_win) = [(3, None); (4, Some 1); (5, Some 1); (5, Some 2)] /\
  cd_evfrac cdA_win = [(0, 1); (0, 1); (0, 2); (1, 2)]%nat /\
  cd_balances cdA_win <> cd_balances cdA /\ length (cd_yearly cdA_win) = 3%nat.
Proof. vm_compute. repeat split; try reflexivity. discriminate. Qed.
