(** Non-vacuity of the end-to-end theorems (Proofs/EndToEnd.v), evaluated by the kernel.

    SUCCESS: a two-asset workbook for rp2_us with default options.  The configuration file has the non-identity column maps of
    Proofs/ParserExample.v ([ex_cfg]) and lists the assets as "BBB,AAA" (the run sorts them); the sheets are rendered blocks with
    permuted columns, junk in unmapped columns (incl. "TABLE END" strings), blank rows, and for BBB an empty INTRA table at the end:
      AAA: IN row 3 2020-01-01 BUY 2 @ 100;                                  OUT row 9 2021-03-01 SELL 1 @ 200
      BBB: IN row 3 (the same), row 4 2021-02-01 INTEREST 0.5 @ 150;         OUT row 9 (the same)
    i.e. the rows of the encoded input [ex2_code] of Proofs/TaxReportProofs.v / Proofs/RunComposeExamples.v: the rinput the
    run assembles from the CELLS is [ex2_i] itself ([ok_input]).  Every hypothesis of [E2E_success] holds and the three US
    reports come out with exit status 0.

    REJECTION: the same workbook with the TABLE END row of AAA's OUT table missing: exit status 1, no report; the hypothesis
    [cause_sheet] of [E2E_rejection] holds (AAA is read after the accepted BBB).  Also: AAA sells 3 of the 2 bought
    ([cause_lots_exhausted]); AAA buys on Coinbase and sells on Kraken ([cause_overdraft]; with -n the same run exits 0). *)
From Coq Require Import List ZArith Bool Lia.
From RP2V Require Import Base.Prelude Base.Time Base.Dec Base.Sorting Base.Assoc Model.Types Model.Generated Model.Txn
  Model.Matcher Model.Pipeline Model.Parser Model.Render Model.TableOrderSpec Model.Computed Model.ComputedSpec Model.TotalSpec
  Model.Grid Model.ReportInput Model.MainRun Model.RunCompose Model.ConfigModel Model.EndToEnd.
From RP2V Require Import Proofs.ParserLookup Proofs.ParserRows Proofs.ParserSheet Proofs.ParserSpec Proofs.ParserExample
  Proofs.FaultsCtor Proofs.PipelineWf Proofs.ComputeTotal Proofs.NumberingExamples Proofs.ComputeTotalExamples Proofs.FromRowsExamples Proofs.FullReportWitness
  Proofs.RunLemmas Proofs.C16Proofs Proofs.RunCompose Proofs.RunComposeExamples Proofs.MatcherProps Proofs.EndToEnd Proofs.EndToEndAnyRows.
Import ListNotations.
Open Scope Z_scope.

(** * a decidable check of [sheet_rows_ok] (without -n) *)
Definition no_fee_b (h : hist) : bool := forallb (fun r => negb (truthy (ri_crypto_fee r))) (h_ins h).

Lemma sheet_rows_ok_check sched to_day h t fs :
  build h = Ok t -> fractions_of gen_always_repush sched t = Ok fs -> matched_history_b sched h t fs = true ->
  no_fee_b h = true -> holders_ok_b t = true -> (exists bl, balances false to_day [] [] t = Ok bl) ->
  sheet_rows_ok sched false to_day h.
Proof.
  intros B HF HM NF HO HB. pose proof (matched_history_check sched h t fs B HF HM) as MH.
  pose proof (matched_built _ _ _ _ MH) as BH.
  constructor.
  - intros r Hr. unfold no_fee_b in NF. rewrite forallb_forall in NF. apply negb_true_iff. exact (NF r Hr).
  - exact (bh_staking _ _ _ BH).
  - intros t' evs B' HE. rewrite B in B'. injection B' as <-. exact (mh_events _ _ _ _ MH evs HE).
  - intros t' evs B' HE. rewrite B in B'. injection B' as <-.
    destruct (built_matcher_outcome sched h t evs BH HE) as [(fs' & _ & Hne)|[HX _]]; [exact Hne|rewrite HF in HX; discriminate].
  - intros t' B'. rewrite B in B'. injection B' as <-. right.
    exact (never_overdrawn_check _ _ (holders_ok_check _ HO) HB).
Qed.

(** * the configuration file and the options *)
Definition s_coinbase : str := [67; 111; 105; 110; 98; 97; 115; 101].
Definition s_bob : str := [66; 111; 98].
Definition col (c : Z) : str := [48 + c].
Definition hdr_items (fields : list str) (h : list (Z * Z)) : list (str * str) :=
  map (fun fc => (nth (Z.to_nat (fst fc)) fields [], col (snd fc))) h.

(** [general] assets = BBB,AAA / exchanges = Coinbase / holders = Bob; the header sections give the column maps of [ex_cfg] *)
Definition ok_secs : list (str * list (str * str)) :=
  [ (gen_kw_general, [(gen_kw_assets, s_BBB ++ [44] ++ s_AAA); (gen_kw_exchanges, s_coinbase); (gen_kw_holders, s_bob)]);
    (gen_in_section, hdr_items gen_in_fields (pc_in ex_cfg));
    (gen_out_section, hdr_items gen_out_fields (pc_out ex_cfg));
    (gen_intra_section, hdr_items gen_intra_fields (pc_intra ex_cfg)) ].

(** the timestamp oracle (python-dateutil's verdict for every timestamp string of the workbook) *)
Definition k2020 : str := [50; 48; 50; 48; 45; 48; 49; 45; 48; 49].           (* 2020-01-01 *)
Definition k2021feb : str := [50; 48; 50; 49; 45; 48; 50; 45; 48; 49].        (* 2021-02-01 *)
Definition k2021mar : str := [50; 48; 50; 49; 45; 48; 51; 45; 48; 49].        (* 2021-03-01 *)
Definition ok_ts : list (str * ts_res) :=
  [ (k2020, TsAware {| utc_us := 1577836800000000; off_s := 0 |});
    (k2021feb, TsAware {| utc_us := 1612137600000000; off_s := 0 |});
    (k2021mar, TsAware {| utc_us := 1614556800000000; off_s := 0 |}) ].

Definition cstate_dflt : cstate :=
  {| cs_assets := []; cs_exchanges := []; cs_holders := []; cs_in := []; cs_out := []; cs_intra := []; cs_methods := [] |}.
Definition ok_s : cstate := Eval vm_compute in match validate_config ok_secs with Ok s => s | Err _ => cstate_dflt end.
Lemma ok_valid : validate_config ok_secs = Ok ok_s.
Proof. vm_compute. reflexivity. Qed.
Definition ok_cfg : pcfg := pcfg_of ok_s ok_ts.

Example ok_cfg_maps : pc_in ok_cfg = pc_in ex_cfg /\ pc_out ok_cfg = pc_out ex_cfg /\ pc_intra ok_cfg = pc_intra ex_cfg /\
  pc_assets ok_cfg = [s_BBB; s_AAA] /\ run_assets opts0 ok_s = [s_BBB; s_AAA].
Proof. vm_compute. repeat split; reflexivity. Qed.

(** * the typed rows and the sheets *)
Definition buy_2020 : src_in :=
  {| si_ts := k2020; si_exch := s_coinbase; si_holder := s_bob; si_type := [66; 85; 89];                     (* BUY *)
     si_spot := (100, 1); si_cin := (2, 1); si_cfee := None; si_f1 := None; si_f2 := None; si_f3 := None;
     si_uid := CEmpty; si_notes := CEmpty |}.
Definition interest_2021 : src_in :=
  {| si_ts := k2021feb; si_exch := s_coinbase; si_holder := s_bob; si_type := [73; 110; 116; 101; 114; 101; 115; 116];   (* Interest *)
     si_spot := (150, 1); si_cin := (1, 2); si_cfee := None; si_f1 := None; si_f2 := None; si_f3 := None;
     si_uid := CEmpty; si_notes := cs [110] |}.
Definition sell_2021 : src_out :=
  {| so_ts := k2021mar; so_exch := s_coinbase; so_holder := s_bob; so_type := [83; 69; 76; 76];               (* SELL *)
     so_spot := (200, 1); so_nofee := (1, 1); so_fee := (0, 1); so_w := None; so_f1 := None; so_f2 := None;
     so_uid := CEmpty; so_notes := CEmpty |}.

Definition blocks_AAA : list block :=
  [ {| b_tab := TabIn; b_gap := []; b_kw := [cs [73; 78]; cs [73; 78]]; b_hdr := ex_hdr;
       b_rows := [(SIn buy_2020, ex_junk)]; b_end := [cs TABLE_END]; b_width := 11 |};
    {| b_tab := TabOut; b_gap := [[CEmpty; cs [120]]; []]; b_kw := [cs [111; 117; 116]]; b_hdr := ex_hdr;
       b_rows := [(SOut sell_2021, ex_junk)]; b_end := [cs TABLE_END; CNum 1 1]; b_width := 10 |} ].
(** BBB: other keyword spellings, other widths, one blank row before the OUT table, an empty INTRA table after two blank rows *)
Definition blocks_BBB : list block :=
  [ {| b_tab := TabIn; b_gap := []; b_kw := [cs [105; 110]]; b_hdr := ex_hdr;
       b_rows := [(SIn buy_2020, fun _ => CEmpty); (SIn interest_2021, ex_junk)]; b_end := [cs TABLE_END]; b_width := 12 |};
    {| b_tab := TabOut; b_gap := [[CEmpty]]; b_kw := [cs [79; 85; 84]]; b_hdr := ex_hdr;
       b_rows := [(SOut sell_2021, ex_junk)]; b_end := [cs TABLE_END]; b_width := 10 |};
    {| b_tab := TabIntra; b_gap := [[]; [cs []]]; b_kw := [cs [73; 110; 116; 114; 97]]; b_hdr := ex_hdr;
       b_rows := []; b_end := [cs TABLE_END]; b_width := 9 |} ].

Definition ok_sheet (a : str) : list block := if str_eqb a s_AAA then blocks_AAA else blocks_BBB.
Definition ok_trailing (a : str) : list (list cell) := if str_eqb a s_AAA then [[CEmpty]] else [].
Definition ok_workbook (a : str) : option (list (list cell)) :=
  if str_eqb a s_AAA then Some (render_sheet ok_cfg s_AAA blocks_AAA [[CEmpty]])
  else if str_eqb a s_BBB then Some (render_sheet ok_cfg s_BBB blocks_BBB [])
  else None.

Lemma wf_AAA : wf_blocks ok_cfg s_AAA 1 blocks_AAA.
Proof. simpl. split; [solve_block | split; [solve_block | exact I]]. Qed.
Lemma wf_BBB : wf_blocks ok_cfg s_BBB 1 blocks_BBB.
Proof. simpl. split; [solve_block | split; [solve_block | split; [solve_block | exact I]]]. Qed.

Lemma ok_rendered : rendered_workbook ok_cfg ok_workbook ok_sheet ok_trailing (run_assets opts0 ok_s).
Proof.
  intros a Ha. vm_compute in Ha. destruct Ha as [<-|[<-|[]]].
  - split; [reflexivity|]. split; [exact wf_BBB|]. split; [simpl; repeat constructor; simpl; intuition discriminate|intros r []].
  - split; [reflexivity|]. split; [exact wf_AAA|]. split; [simpl; repeat constructor; simpl; intuition discriminate|].
    intros r [<-|[]]. reflexivity.
Qed.

(** * the hypotheses about the typed rows *)
Definition ok_sched : list (Z * meth) := [(1970, Fifo)].
Lemma ok_sched_eq : e2e_sched US opts0 ok_s = Some ok_sched.
Proof. vm_compute. reflexivity. Qed.

Definition p_dflt : parsed := {| pa_ins := []; pa_outs := []; pa_intras := []; pa_counter := 0; pa_meta := [] |}.
Definition p_AAA : parsed := Eval vm_compute in match expected ok_cfg 0 blocks_AAA with Ok p => p | Err _ => p_dflt end.
Definition p_BBB : parsed := Eval vm_compute in match expected ok_cfg 0 blocks_BBB with Ok p => p | Err _ => p_dflt end.
Lemma expected_AAA : expected ok_cfg 0 blocks_AAA = Ok p_AAA.
Proof. vm_compute. reflexivity. Qed.
Lemma expected_BBB : expected ok_cfg 0 blocks_BBB = Ok p_BBB.
Proof. vm_compute. reflexivity. Qed.

Example ok_row_ids :
  map i_row (pa_ins p_AAA) = [3] /\ map o_row (pa_outs p_AAA) = [9] /\
  map i_row (pa_ins p_BBB) = [3; 4] /\ map o_row (pa_outs p_BBB) = [9] /\ pa_intras p_BBB = [].
Proof. vm_compute. repeat split; reflexivity. Qed.

Definition t_dflt : txs := {| t_ins := []; t_outs := []; t_intras := [] |}.
Definition h_AAA : hist := Eval vm_compute in sheet_hist ok_cfg blocks_AAA.
Definition h_BBB : hist := Eval vm_compute in sheet_hist ok_cfg blocks_BBB.
Definition t_AAA : txs := Eval vm_compute in match build h_AAA with Ok t => t | Err _ => t_dflt end.
Definition t_BBB : txs := Eval vm_compute in match build h_BBB with Ok t => t | Err _ => t_dflt end.
Definition fs_AAA : list fraction := Eval vm_compute in match fractions_of gen_always_repush ok_sched t_AAA with Ok fs => fs | Err _ => [] end.
Definition fs_BBB : list fraction := Eval vm_compute in match fractions_of gen_always_repush ok_sched t_BBB with Ok fs => fs | Err _ => [] end.

Lemma rows_AAA : sheet_rows_ok ok_sched false MainRun.MAX_DAY (sheet_hist ok_cfg blocks_AAA).
Proof.
  change (sheet_hist ok_cfg blocks_AAA) with h_AAA.
  apply (sheet_rows_ok_check ok_sched MainRun.MAX_DAY h_AAA t_AAA fs_AAA); try (vm_compute; reflexivity). eexists. vm_compute. reflexivity.
Qed.
Lemma rows_BBB : sheet_rows_ok ok_sched false MainRun.MAX_DAY (sheet_hist ok_cfg blocks_BBB).
Proof.
  change (sheet_hist ok_cfg blocks_BBB) with h_BBB.
  apply (sheet_rows_ok_check ok_sched MainRun.MAX_DAY h_BBB t_BBB fs_BBB); try (vm_compute; reflexivity). eexists. vm_compute. reflexivity.
Qed.

(** * the rinput assembled from the cells is the encoded two-asset input of the report layers *)
Definition ok_ps : list (str * parsed) := [(s_BBB, p_BBB); (s_AAA, p_AAA)].
Lemma ok_expected_all : expected_all ok_cfg ok_sheet (run_assets opts0 ok_s) 0 = Ok ok_ps.
Proof. vm_compute. reflexivity. Qed.
Lemma ok_input : e2e_input US opts0 0 ok_s ok_ps = Some ex2_i.
Proof. vm_compute. reflexivity. Qed.

(** * every hypothesis of [E2E_success] holds, and its conclusion *)
Example e2e_success_nonvacuous :
  validate_config ok_secs = Ok ok_s /\ supported US opts0 /\
  rendered_workbook (pcfg_of ok_s ok_ts) ok_workbook ok_sheet ok_trailing (run_assets opts0 ok_s) /\
  (forall a, In a (run_assets opts0 ok_s) ->
     sheet_rows_ok ok_sched (o_neg opts0) (o_to opts0) (sheet_hist (pcfg_of ok_s ok_ts) (ok_sheet a))) /\
  e2e_input US opts0 0 ok_s ok_ps = Some ex2_i /\ reports_ok_hyps (wv 0) ex2_i /\
  exists l, rp2_model US opts0 ok_secs ok_ts ok_workbook (wv 0) 0 = (0, l) /\
            map (fun gs => (fst gs, length (snd gs))) l = [(GOpenPositions, 3%nat); (GFullReport, 6%nat); (GTaxUS, 3%nat)] /\
            (forall g sheets, In (g, sheets) l -> run_gen (wv 0) ex2_i g = inl sheets /\ within_capacity g sheets) /\
            map ra_name (rp_assets ex2_i) = [s_AAA; s_BBB] /\
            map (fun a => txs_of_parsed (snd a)) (sort_leb by_name ok_ps) = map (fun ra => Ok (ra_txs ra)) (rp_assets ex2_i).
Proof.
  assert (ROWS : forall a, In a (run_assets opts0 ok_s) ->
            sheet_rows_ok ok_sched (o_neg opts0) (o_to opts0) (sheet_hist (pcfg_of ok_s ok_ts) (ok_sheet a))).
  { intros a Ha. vm_compute in Ha. destruct Ha as [<-|[<-|[]]]; [exact rows_BBB|exact rows_AAA]. }
  split; [exact ok_valid|]. split; [exact (proj1 run_total_example)|]. split; [exact ok_rendered|]. split; [exact ROWS|].
  split; [exact ok_input|]. split; [exact (proj2 ex2_us_hyps)|].
  destruct (E2E_success US opts0 ok_secs ok_ts ok_workbook (wv 0) 0 ok_s ok_sheet ok_trailing ok_valid (proj1 run_total_example))
    as (ps & i & l & E & HI & RM & DL & HG & _ & _).
  - left. reflexivity.
  - constructor.
  - constructor.
  - intros a H. discriminate H.
  - vm_compute. discriminate.
  - exact ok_rendered.
  - intros a Ha. vm_compute in Ha. destruct Ha as [<-|[<-|[]]].
    + exists p_BBB. split; [exact expected_BBB|vm_compute; discriminate].
    + exists p_AAA. split; [exact expected_AAA|vm_compute; discriminate].
  - intros sched a S Ha. rewrite ok_sched_eq in S. injection S as <-. exact (ROWS a Ha).
  - intros ps i E HI. fold ok_cfg in E. rewrite ok_expected_all in E. injection E as <-. rewrite ok_input in HI. injection HI as <-.
    exact (proj2 ex2_us_hyps).
  - fold ok_cfg in E. rewrite ok_expected_all in E. injection E as <-. rewrite ok_input in HI. injection HI as <-.
    exists l. split; [exact RM|]. split.
    + assert (RM' : rp2_model US opts0 ok_secs ok_ts ok_workbook (wv 0) 0 = (0, l)) by exact RM.
      vm_compute in RM'. injection RM' as <-. vm_compute. reflexivity.
    + split; [exact HG|]. split; vm_compute; reflexivity.
Qed.

(** * a rejected workbook: the TABLE END row of AAA's OUT table is missing *)
Definition bad_workbook (a : str) : option (list (list cell)) :=
  if str_eqb a s_AAA then Some (removelast (render_sheet ok_cfg s_AAA blocks_AAA [])) else ok_workbook a.

Example bad_sheet_shape :
  length (render_sheet ok_cfg s_AAA blocks_AAA []) = 10%nat /\
  map (fun r => nth 0 r CEmpty) (skipn 8 (render_sheet ok_cfg s_AAA blocks_AAA [])) = [cs k2021mar; cs TABLE_END] /\
  map (fun r => nth 0 r CEmpty) (skipn 8 (removelast (render_sheet ok_cfg s_AAA blocks_AAA []))) = [cs k2021mar].
Proof. vm_compute. repeat split; reflexivity. Qed.

Example e2e_rejection_nonvacuous :
  cause_sheet US opts0 ok_secs ok_ts bad_workbook /\
  rp2_model US opts0 ok_secs ok_ts bad_workbook (wv 0) 0 = (1, []).
Proof.
  split; [|vm_compute; reflexivity].
  exists ok_s, [s_BBB], s_AAA, [], [(s_BBB, p_BBB)].
  split; [exact ok_valid|]. split; [vm_compute; reflexivity|]. split; [vm_compute; reflexivity|].
  vm_compute. exact I.
Qed.

(** and through the theorem: non-zero exit status, no report *)
Example e2e_rejection_instance :
  fst (rp2_model US opts0 ok_secs ok_ts bad_workbook (wv 0) 0) <> 0 /\ snd (rp2_model US opts0 ok_secs ok_ts bad_workbook (wv 0) 0) = [].
Proof. apply E2E_rejection. right. right. left. exact (proj1 e2e_rejection_nonvacuous). Qed.

(** * the lots run out: AAA sells 3 of the 2 it bought *)
Definition sell_3 : src_out :=
  {| so_ts := k2021mar; so_exch := s_coinbase; so_holder := s_bob; so_type := [83; 69; 76; 76];
     so_spot := (200, 1); so_nofee := (3, 1); so_fee := (0, 1); so_w := None; so_f1 := None; so_f2 := None;
     so_uid := CEmpty; so_notes := CEmpty |}.
Definition blocks_AAA_x : list block :=
  [ {| b_tab := TabIn; b_gap := []; b_kw := [cs [73; 78]]; b_hdr := ex_hdr;
       b_rows := [(SIn buy_2020, ex_junk)]; b_end := [cs TABLE_END]; b_width := 11 |};
    {| b_tab := TabOut; b_gap := []; b_kw := [cs [111; 117; 116]]; b_hdr := ex_hdr;
       b_rows := [(SOut sell_3, ex_junk)]; b_end := [cs TABLE_END]; b_width := 10 |} ].
Definition x_workbook (a : str) : option (list (list cell)) :=
  if str_eqb a s_AAA then Some (render_sheet ok_cfg s_AAA blocks_AAA_x []) else ok_workbook a.

Definition x_ps : list (str * parsed) :=
  Eval vm_compute in match parse_all ok_cfg [s_BBB; s_AAA] x_workbook 0 with Ok ps => ps | Err _ => [] end.
Definition x_p : parsed := Eval vm_compute in match x_ps with [_; (_, p)] => p | _ => p_dflt end.
Definition x_h : hist := Eval vm_compute in sheet_hist ok_cfg blocks_AAA_x.
Definition x_t : txs := Eval vm_compute in match build x_h with Ok t => t | Err _ => t_dflt end.
Definition x_evs : list txn := Eval vm_compute in match taxable_events x_t with Ok l => l | Err _ => [] end.

Example e2e_lots_exhausted_nonvacuous :
  cause_lots_exhausted US opts0 ok_secs ok_ts x_workbook /\ rp2_model US opts0 ok_secs ok_ts x_workbook (wv 0) 0 = (1, []).
Proof.
  split; [|vm_compute; reflexivity].
  assert (BH : built_history ok_sched x_h x_t) by (apply built_history_check; vm_compute; reflexivity).
  assert (HE : taxable_events x_t = Ok x_evs) by (vm_compute; reflexivity).
  exists ok_s, [s_BBB; s_AAA], x_ps, ok_sched, s_AAA, x_p, x_h, x_t, x_evs.
  split; [split; [exact ok_valid|split; vm_compute; reflexivity]|].
  split; [exact ok_sched_eq|]. split; [right; left; reflexivity|]. split; [vm_compute; reflexivity|].
  split; [exact BH|]. split; [exact HE|].
  destruct (built_matcher_outcome ok_sched x_h x_t x_evs BH HE) as [(fs & HF & _)|[_ Hex]]; [|exact Hex].
  vm_compute in HF. discriminate HF.
Qed.

(** * an account is overdrawn: two exchanges configured, AAA buys 2 on Coinbase and sells 1 on Kraken *)
Definition s_kraken : str := [75; 114; 97; 107; 101; 110].
Definition od_secs : list (str * list (str * str)) :=
  (gen_kw_general, [(gen_kw_assets, s_BBB ++ [44] ++ s_AAA); (gen_kw_exchanges, s_coinbase ++ [44; 32] ++ s_kraken); (gen_kw_holders, s_bob)])
  :: tl ok_secs.
Definition od_s : cstate := Eval vm_compute in match validate_config od_secs with Ok s => s | Err _ => cstate_dflt end.
Definition od_cfg : pcfg := pcfg_of od_s ok_ts.
Definition sell_kraken : src_out :=
  {| so_ts := k2021mar; so_exch := s_kraken; so_holder := s_bob; so_type := [83; 69; 76; 76];
     so_spot := (200, 1); so_nofee := (1, 1); so_fee := (0, 1); so_w := None; so_f1 := None; so_f2 := None;
     so_uid := CEmpty; so_notes := CEmpty |}.
Definition blocks_AAA_od : list block :=
  [ {| b_tab := TabOut; b_gap := [[CEmpty]]; b_kw := [cs [111; 117; 116]]; b_hdr := ex_hdr;
       b_rows := [(SOut sell_kraken, ex_junk)]; b_end := [cs TABLE_END]; b_width := 10 |};
    {| b_tab := TabIn; b_gap := []; b_kw := [cs [73; 78]]; b_hdr := ex_hdr;
       b_rows := [(SIn buy_2020, ex_junk)]; b_end := [cs TABLE_END]; b_width := 11 |} ].
Definition od_workbook (a : str) : option (list (list cell)) :=
  if str_eqb a s_AAA then Some (render_sheet od_cfg s_AAA blocks_AAA_od [])
  else if str_eqb a s_BBB then Some (render_sheet od_cfg s_BBB blocks_BBB [])
  else None.
Definition od_ps : list (str * parsed) :=
  Eval vm_compute in match parse_all od_cfg [s_BBB; s_AAA] od_workbook 0 with Ok ps => ps | Err _ => [] end.
Definition od_p : parsed := Eval vm_compute in match od_ps with [_; (_, p)] => p | _ => p_dflt end.
Definition od_h : hist := Eval vm_compute in sheet_hist od_cfg blocks_AAA_od.
Definition od_t : txs := Eval vm_compute in match build od_h with Ok t => t | Err _ => t_dflt end.
Definition od_evs : list txn := Eval vm_compute in match taxable_events od_t with Ok l => l | Err _ => [] end.
Definition opts_n : MainRun.options :=
  {| o_method := None; o_lang := None; o_from := MainRun.MIN_DAY; o_to := MainRun.MAX_DAY; o_asset := None; o_neg := true;
     o_prefix := []; o_plugin := false |}.

Example e2e_overdraft_nonvacuous :
  cause_overdraft US opts0 od_secs ok_ts od_workbook /\ rp2_model US opts0 od_secs ok_ts od_workbook (wv 0) 0 = (1, []) /\
  exists l, rp2_model US opts_n od_secs ok_ts od_workbook (wv 0) 0 = (0, l) /\ map fst l = discovery US.
Proof.
  split; [|split; [vm_compute; reflexivity|eexists; vm_compute; split; reflexivity]].
  assert (BH : built_history ok_sched od_h od_t) by (apply built_history_check; vm_compute; reflexivity).
  assert (HE : taxable_events od_t = Ok od_evs) by (vm_compute; reflexivity).
  assert (Hok : holders_ok od_t) by (apply holders_ok_check; vm_compute; reflexivity).
  exists od_s, [s_BBB; s_AAA], od_ps, ok_sched, s_AAA, od_p, od_h, od_t, od_evs.
  split; [split; [vm_compute; reflexivity|split; vm_compute; reflexivity]|].
  split; [vm_compute; reflexivity|]. split; [right; left; reflexivity|]. split; [vm_compute; reflexivity|].
  split; [exact BH|]. split; [exact HE|]. split; [exact Hok|]. split; [reflexivity|].
  apply (C08Proofs.c08_rejected_iff (o_to opts0) [] [] od_t Hok). vm_compute. reflexivity.
Qed.

(** * an acquisition with a crypto fee (the case [E2E_success] leaves out): the two halves compose
    AAA buys 2 with a crypto fee of 1/1024 (the fee cell of Proofs/ParserExample.v): the parser splits the row into the acquisition
    and an artificial fee disposal with id -1.  The seam gives the run as the back end of [expected_all]; ComputedData exists for
    the assembled rinput and [reports_ok_hyps] holds (both by computation), so [e2e_success_of_computed] applies: exit 0, the
    three US reports. *)
Definition buy_2020_fee : src_in :=
  {| si_ts := k2020; si_exch := s_coinbase; si_holder := s_bob; si_type := [66; 85; 89];
     si_spot := (100, 1); si_cin := (2, 1); si_cfee := Some (1, 1024); si_f1 := None; si_f2 := None; si_f3 := None;
     si_uid := CEmpty; si_notes := CEmpty |}.
Definition blocks_AAA_fee : list block :=
  [ {| b_tab := TabOut; b_gap := [[CEmpty; cs [120]]]; b_kw := [cs [111; 117; 116]]; b_hdr := ex_hdr;
       b_rows := [(SOut sell_2021, ex_junk)]; b_end := [cs TABLE_END; CNum 1 1]; b_width := 10 |};
    {| b_tab := TabIn; b_gap := []; b_kw := [cs [73; 78]; cs [73; 78]]; b_hdr := ex_hdr;
       b_rows := [(SIn buy_2020_fee, ex_junk)]; b_end := [cs TABLE_END]; b_width := 11 |} ].
Definition fee_sheet (a : str) : list block := if str_eqb a s_AAA then blocks_AAA_fee else blocks_BBB.
Definition fee_workbook (a : str) : option (list (list cell)) :=
  if str_eqb a s_AAA then Some (render_sheet ok_cfg s_AAA blocks_AAA_fee [[CEmpty]]) else ok_workbook a.

Lemma wf_AAA_fee : wf_blocks ok_cfg s_AAA 1 blocks_AAA_fee.
Proof. simpl. split; [solve_block | split; [solve_block | exact I]]. Qed.
Lemma fee_rendered : rendered_workbook ok_cfg fee_workbook fee_sheet ok_trailing [s_BBB; s_AAA].
Proof.
  intros a Ha. destruct Ha as [<-|[<-|[]]].
  - split; [reflexivity|]. split; [exact wf_BBB|]. split; [simpl; repeat constructor; simpl; intuition discriminate|intros r []].
  - split; [reflexivity|]. split; [exact wf_AAA_fee|]. split; [simpl; repeat constructor; simpl; intuition discriminate|].
    intros r [<-|[]]. reflexivity.
Qed.

Definition fee_ps : list (str * parsed) :=
  Eval vm_compute in match expected_all ok_cfg fee_sheet [s_BBB; s_AAA] 0 with Ok ps => ps | Err _ => [] end.
Definition i_dflt : rinput := rinput_of US opts0 0 ok_s [] [].
Definition fee_i : rinput := Eval vm_compute in match e2e_input US opts0 0 ok_s fee_ps with Some i => i | None => i_dflt end.

Example e2e_crypto_fee_nonvacuous :
  map (fun ap => (fst ap, map i_row (pa_ins (snd ap)), map o_row (pa_outs (snd ap)), pa_counter (snd ap))) fee_ps =
    [(s_BBB, [3; 4], [9], 0); (s_AAA, [8], [4; -1], -1)] /\
  rp2_model US opts0 ok_secs ok_ts fee_workbook (wv 0) 0 = back_end US opts0 (wv 0) 0 ok_s fee_ps /\
  e2e_input US opts0 0 ok_s fee_ps = Some fee_i /\
  (exists cs, computed_all fee_i (rp_assets fee_i) = Ok cs) /\ reports_ok_hyps (wv 0) fee_i /\
  exists l, rp2_model US opts0 ok_secs ok_ts fee_workbook (wv 0) 0 = (0, l) /\ map fst l = discovery US /\
            (forall g sheets, In (g, sheets) l -> run_gen (wv 0) fee_i g = inl sheets /\ within_capacity g sheets).
Proof.
  assert (O : options_check US (l1_options opts0) (Ok ok_s) = (0, [s_BBB; s_AAA])) by (vm_compute; reflexivity).
  assert (E : expected_all (pcfg_of ok_s ok_ts) fee_sheet [s_BBB; s_AAA] 0 = Ok fee_ps) by (vm_compute; reflexivity).
  assert (NE : forall a p, In (a, p) fee_ps -> pa_ins p <> []).
  { intros a p H. vm_compute in H. destruct H as [[= <- <-]|[[= <- <-]|[]]]; discriminate. }
  pose proof (e2e_seam US opts0 ok_secs ok_ts fee_workbook (wv 0) 0 ok_s [s_BBB; s_AAA] fee_sheet ok_trailing fee_ps
                ok_valid O fee_rendered E NE) as SEAM.
  assert (HI : e2e_input US opts0 0 ok_s fee_ps = Some fee_i) by (vm_compute; reflexivity).
  assert (HC : exists cs, computed_all fee_i (rp_assets fee_i) = Ok cs) by (eexists; vm_compute; reflexivity).
  assert (RH : reports_ok_hyps (wv 0) fee_i) by (apply reports_ok_b_sound; vm_compute; reflexivity).
  split; [vm_compute; reflexivity|]. split; [exact SEAM|]. split; [exact HI|]. split; [exact HC|]. split; [exact RH|].
  assert (FA : front_accepts US opts0 ok_secs ok_ts fee_workbook ok_s [s_BBB; s_AAA] fee_ps).
  { split; [exact ok_valid|]. split; [exact O|].
    apply (parse_all_rendered _ fee_workbook fee_sheet ok_trailing [s_BBB; s_AAA] 0 fee_ps fee_rendered); [|exact E|exact NE].
    exact (proj2 (options_check_passed _ _ _ _ O)). }
  destruct (e2e_success_of_computed US opts0 ok_secs ok_ts fee_workbook (wv 0) 0 ok_s [s_BBB; s_AAA] fee_ps fee_i FA
              (proj1 run_total_example) (or_introl eq_refl) (Forall_nil _) HI HC RH) as (l & R & DL & HG & _).
  exists l. auto.
Qed.

(** ... and the same workbook meets every hypothesis of [E2E_success_any_rows] (the theorem that covers crypto-fee rows) *)
Lemma parsed_rows_ok_check cfg asset counter blocks p sched to_day t evs fs :
  Z.of_nat (length (pc_holders cfg)) <= 100000 -> counter <= 0 -> wf_blocks cfg asset 1 blocks ->
  expected cfg counter blocks = Ok p -> pa_ins p <> [] ->
  txs_of_parsed p = Ok t -> taxable_events t = Ok evs -> fractions_of gen_always_repush sched t = Ok fs ->
  forallb (fun x => negb (ttype_eqb (i_type x) STAKING) || (0 <? i_crypto_in x)) (pa_ins p) = true ->
  same_year_b evs = true -> sched_covers_b sched evs = true -> NoDup (map fst sched) ->
  holders_ok_b t = true -> (exists bl, balances false to_day [] [] t = Ok bl) ->
  parsed_rows_ok sched false to_day p.
Proof.
  intros HL HC W E NE T HE HF ST SY SC ND HO HB.
  assert (RS : forall x, In x (pa_ins p) -> i_type x = STAKING -> 0 < i_crypto_in x).
  { intros x Hx Hty. rewrite forallb_forall in ST. specialize (ST x Hx). rewrite Hty in ST. cbn in ST. lia. }
  constructor.
  - exact RS.
  - intros t' evs' T' HE'. rewrite T in T'. injection T' as <-. rewrite HE in HE'. injection HE' as <-.
    split; [exact (same_year_check evs SY)|exact (sched_covers_check sched evs SC)].
  - intros t' evs' T' HE'. rewrite T in T'. injection T' as <-. rewrite HE in HE'. injection HE' as <-.
    destruct (expected_sheet_sets cfg HL asset counter blocks p HC W E NE) as (_ & t'' & SS).
    pose proof (ss_txs _ _ SS) as T''. rewrite T in T''. injection T'' as <-.
    pose proof (sheet_sets_wf p t sched evs SS HE RS (same_year_check evs SY) (sched_covers_check sched evs SC) ND) as WF.
    intros Hex. apply (m_fails_iff _ _ _ WF) in Hex. unfold fractions_of in HF. rewrite HE in HF. rewrite HF in Hex. discriminate Hex.
  - intros t' T'. rewrite T in T'. injection T' as <-. right. exact (never_overdrawn_check _ _ (holders_ok_check _ HO) HB).
Qed.

Definition fee_p_AAA : parsed := Eval vm_compute in match fee_ps with [_; (_, p)] => p | _ => p_dflt end.
Definition fee_t_AAA : txs := Eval vm_compute in match txs_of_parsed fee_p_AAA with Ok t => t | Err _ => t_dflt end.
Definition fee_evs_AAA : list txn := Eval vm_compute in match taxable_events fee_t_AAA with Ok l => l | Err _ => [] end.
Definition fee_fs_AAA : list fraction :=
  Eval vm_compute in match fractions_of gen_always_repush ok_sched fee_t_AAA with Ok fs => fs | Err _ => [] end.
Definition evs_BBB : list txn := Eval vm_compute in match taxable_events t_BBB with Ok l => l | Err _ => [] end.

Example e2e_any_rows_nonvacuous :
  (forall a p, In (a, p) fee_ps -> parsed_rows_ok ok_sched (o_neg opts0) (o_to opts0) p) /\
  map (fun f => (f_ev f, f_lot f)) fee_fs_AAA = [(-1, Some 8); (4, Some 8)] /\
  exists i l, e2e_input US opts0 0 ok_s fee_ps = Some i /\
              rp2_model US opts0 ok_secs ok_ts fee_workbook (wv 0) 0 = (0, l) /\ map fst l = discovery US.
Proof.
  assert (ROWS : forall a p, In (a, p) fee_ps -> parsed_rows_ok ok_sched (o_neg opts0) (o_to opts0) p).
  { intros a p H. unfold fee_ps in H. destruct H as [[= <- <-]|[[= <- <-]|[]]].
    - apply (parsed_rows_ok_check ok_cfg s_BBB 0 blocks_BBB _ ok_sched (o_to opts0) t_BBB evs_BBB fs_BBB);
        try (vm_compute; reflexivity); try (vm_compute; discriminate); try exact wf_BBB.
      + constructor; [intros []|constructor].
      + eexists. vm_compute. reflexivity.
    - apply (parsed_rows_ok_check ok_cfg s_AAA 0 blocks_AAA_fee _ ok_sched (o_to opts0) fee_t_AAA fee_evs_AAA fee_fs_AAA);
        try (vm_compute; reflexivity); try (vm_compute; discriminate); try exact wf_AAA_fee.
      + constructor; [intros []|constructor].
      + eexists. vm_compute. reflexivity. }
  split; [exact ROWS|]. split; [vm_compute; reflexivity|].
  destruct (E2E_success_any_rows US opts0 ok_secs ok_ts fee_workbook (wv 0) 0 ok_s fee_sheet ok_trailing fee_ps ok_valid
              (proj1 run_total_example)) as (i & l & HI & RM & DL & _).
  - left. reflexivity.
  - constructor.
  - constructor.
  - intros a H. discriminate H.
  - vm_compute. discriminate.
  - exact fee_rendered.
  - vm_compute. reflexivity.
  - intros a p H. vm_compute in H. destruct H as [[= <- <-]|[[= <- <-]|[]]]; discriminate.
  - intros sched a p S Hin. rewrite ok_sched_eq in S. injection S as <-. exact (ROWS a p Hin).
  - intros i HI. assert (HI' : e2e_input US opts0 0 ok_s fee_ps = Some fee_i) by (vm_compute; reflexivity).
    rewrite HI' in HI. injection HI as <-. apply reports_ok_b_sound. vm_compute. reflexivity.
  - exists i, l. auto.
Qed.
