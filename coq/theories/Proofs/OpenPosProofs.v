(** Proofs about the open-positions report model (Model/OpenPos.v).
    Part A: the first pass = per-asset tables (which assets get a cost basis, per-holder and
            per-(holder, exchange) positive balances).
    Part B: the second pass = one row per table entry, layout of the three sheets, capacity.
    Part C: exact-arithmetic identities (conservation, weights, per-unit cost).
    Part D: accuracy of the 31-digit decimal figures. *)
From RP2V Require Import Base.Prelude Base.Time Base.Dec Base.Sorting Base.Assoc Model.Types Model.Generated Model.Txn
  Model.Pipeline Model.Computed Model.Grid Model.ReportInput Model.OpenPos Proofs.AssocProofs.
From Coq Require Import Permutation.
Open Scope Z_scope.

(** * association-list helpers *)
Section AssocMore.
Context {V : Type}.
Lemma amem_app k (m1 m2 : assoc V) : amem k (m1 ++ m2) = amem k m1 || amem k m2.
Proof.
  unfold amem. induction m1 as [|[k' v'] m1 IH]; cbn [app aget]; [reflexivity|].
  destruct (k =? k'); [reflexivity|exact IH].
Qed.
Lemma aget_app_absent k (m1 m2 : assoc V) : amem k m1 = false -> aget k (m1 ++ m2) = aget k m2.
Proof.
  unfold amem. induction m1 as [|[k' v'] m1 IH]; cbn [app aget]; [reflexivity|].
  destruct (k =? k'); [discriminate|exact IH].
Qed.
Lemma aget_d_app_absent d k (m1 m2 : assoc V) : amem k m1 = false -> aget_d d k (m1 ++ m2) = aget_d d k m2.
Proof. intros H. unfold aget_d. rewrite aget_app_absent by exact H. reflexivity. Qed.
Lemma aset_app_absent k v (m1 m2 : assoc V) : amem k m1 = false -> aset k v (m1 ++ m2) = m1 ++ aset k v m2.
Proof.
  unfold amem. induction m1 as [|[k' v'] m1 IH]; cbn [app aget aset]; [reflexivity|].
  destruct (k =? k'); [discriminate|]. intros H. f_equal. exact (IH H).
Qed.
Lemma aget_app_present k (m1 m2 : assoc V) : amem k m1 = true -> aget k (m1 ++ m2) = aget k m1.
Proof.
  unfold amem. induction m1 as [|[k' v'] m1 IH]; cbn [app aget]; [discriminate|].
  destruct (k =? k'); [reflexivity|exact IH].
Qed.
End AssocMore.

Lemma aget_d_absent {V} (d : V) k (m : assoc V) : amem k m = false -> aget_d d k m = d.
Proof. unfold amem, aget_d. destruct (aget k m); [discriminate|reflexivity]. Qed.

Lemma aget_d_some {V} (d : V) k (m : assoc V) v : aget k m = Some v -> aget_d d k m = v.
Proof. unfold aget_d. intros ->. reflexivity. Qed.

Definition opt_entry {V} (a : Z) (o : option V) : assoc V := match o with Some v => [(a, v)] | None => [] end.

Lemma aset_opt_entry {V} a (v : V) o : aset a v (opt_entry a o) = [(a, v)].
Proof. destruct o; cbn [opt_entry aset]; [rewrite Z.eqb_refl|]; reflexivity. Qed.
Lemma aget_opt_entry {V} a (o : option V) : aget a (opt_entry a o) = o.
Proof. destruct o; cbn [opt_entry aget]; [rewrite Z.eqb_refl|]; reflexivity. Qed.

(** * Part A: the first pass *)
Definition lot_counted (c : computed) (l : intx) : bool := gen_op_lot_counts (lot_unrealised c l).
Definition cost_acc (c : computed) (acc : dec) (l : intx) : dec :=
  if lot_counted c l then dadd acc (lot_unrealised c l) else acc.
(** the asset's unrealised cost basis: decimal sum, in lot order, of the lots whose unsold cost is > 0 *)
Definition asset_cost_of (c : computed) : dec := fold_left (cost_acc c) (cd_ins c) dzero.
Definition asset_listed (c : computed) : bool := existsb (lot_counted c) (cd_ins c).
Definition lots_ok (c : computed) : bool := forallb (fun l => cmp_ok (lot_unrealised c l) dzero) (cd_ins c).

Definition bal_counted (b : balance) : bool := gen_op_balance_counts (b_final b).
Definition pos_balances (c : computed) : list balance := filter bal_counted (cd_balances c).
Definition hb_add (hb : assoc Z) (b : balance) : assoc Z := aset (b_holder b) (aget_d 0 (b_holder b) hb + b_final b) hb.
Definition holder_table (bl : list balance) : assoc Z := fold_left hb_add bl [].
Definition heb_add (heb : assoc (assoc Z)) (b : balance) : assoc (assoc Z) :=
  let he := aget_d [] (b_holder b) heb in
  aset (b_holder b) (if amem (b_exch b) he then he else aset (b_exch b) (b_final b) he) heb.
Definition exch_table (bl : list balance) : assoc (assoc Z) := fold_left heb_add bl [].
Definition holders_add (hs : list Z) (b : balance) : list Z :=
  if existsb (Z.eqb (b_holder b)) hs then hs else hs ++ [b_holder b].

Definition cur_step (c : computed) (cur : option dec) (l : intx) : option dec :=
  if lot_counted c l then Some (dadd (match cur with Some v => v | None => dzero end) (lot_unrealised c l)) else cur.

Lemma lot_fold_err c a lots e : fold_left (lot_step c a) lots (Err e) = Err e.
Proof. induction lots as [|l lots IH]; cbn [fold_left lot_step]; [reflexivity|exact IH]. Qed.

Lemma lot_fold_spec c a m0 : amem a m0 = false -> forall lots s s' cur,
  fp_costs s = m0 ++ opt_entry a cur ->
  fold_left (lot_step c a) lots (Ok s) = Ok s' ->
  forallb (fun l => cmp_ok (lot_unrealised c l) dzero) lots = true /\
  fp_costs s' = m0 ++ opt_entry a (fold_left (cur_step c) lots cur) /\
  fp_total s' = fold_left (cost_acc c) lots (fp_total s) /\
  fp_holders s' = fp_holders s /\ fp_hbal s' = fp_hbal s /\ fp_hebal s' = fp_hebal s.
Proof.
  intros Hm0. induction lots as [|l lots IH]; intros s s' cur Hc H.
  - cbn [fold_left] in H. injection H as H. subst s'. cbn [forallb fold_left]. repeat split; auto.
  - cbn [fold_left] in H. cbn [lot_step] in H.
    destruct (cmp_ok (lot_unrealised c l) dzero) eqn:Eok; cbn [negb] in H; [|rewrite lot_fold_err in H; discriminate H].
    cbn [forallb fold_left]. rewrite Eok. cbn [andb].
    unfold cur_step at 2, cost_acc at 2, lot_counted.
    destruct (gen_op_lot_counts (lot_unrealised c l)) eqn:Ecnt.
    + match type of H with fold_left _ _ (Ok ?s1) = _ => specialize (IH s1 s' (Some (dadd (match cur with Some v => v | None => dzero end) (lot_unrealised c l)))) end.
      cbn [fp_costs fp_total fp_holders fp_hbal fp_hebal] in IH.
      apply IH; [|exact H].
      rewrite Hc, aset_app_absent by exact Hm0. rewrite aset_opt_entry.
      rewrite aget_d_app_absent by exact Hm0. unfold aget_d. rewrite aget_opt_entry. reflexivity.
    + apply (IH s s' cur Hc H).
Qed.

Lemma cur_fold c lots : forall cur,
  fold_left (cur_step c) lots cur =
  if existsb (lot_counted c) lots || (match cur with Some _ => true | None => false end)
  then Some (fold_left (cost_acc c) lots (match cur with Some v => v | None => dzero end)) else None.
Proof.
  induction lots as [|l lots IH]; intros cur; cbn [fold_left existsb].
  - destruct cur; reflexivity.
  - rewrite IH. unfold cur_step, cost_acc. destruct (lot_counted c l); cbn [orb].
    + rewrite orb_true_r. reflexivity.
    + reflexivity.
Qed.

Definition bcur := option (assoc Z * assoc (assoc Z)).
Definition bcur_get (cur : bcur) : assoc Z * assoc (assoc Z) := match cur with Some p => p | None => ([], []) end.
Definition bcur_step (cur : bcur) (b : balance) : bcur :=
  if bal_counted b then Some (hb_add (fst (bcur_get cur)) b, heb_add (snd (bcur_get cur)) b) else cur.

Lemma bal_row_skip a s b : bal_counted b = false -> bal_row a s b = s.
Proof. unfold bal_row, bal_counted. intros ->. reflexivity. Qed.
Lemma bal_row_take a s b : bal_counted b = true ->
  bal_row a s b =
  {| fp_total := fp_total s; fp_costs := fp_costs s; fp_holders := holders_add (fp_holders s) b;
     fp_hbal := aset a (hb_add (aget_d [] a (fp_hbal s)) b) (fp_hbal s);
     fp_hebal := aset a (heb_add (aget_d [] a (fp_hebal s)) b) (fp_hebal s) |}.
Proof. unfold bal_row, bal_counted. intros ->. reflexivity. Qed.

Lemma bal_fold_spec a m1 m2 : amem a m1 = false -> amem a m2 = false -> forall bl s cur,
  fp_hbal s = m1 ++ opt_entry a (option_map fst cur) ->
  fp_hebal s = m2 ++ opt_entry a (option_map snd cur) ->
  fp_hbal (fold_left (bal_row a) bl s) = m1 ++ opt_entry a (option_map fst (fold_left bcur_step bl cur)) /\
  fp_hebal (fold_left (bal_row a) bl s) = m2 ++ opt_entry a (option_map snd (fold_left bcur_step bl cur)) /\
  fp_holders (fold_left (bal_row a) bl s) = fold_left holders_add (filter bal_counted bl) (fp_holders s) /\
  fp_costs (fold_left (bal_row a) bl s) = fp_costs s /\ fp_total (fold_left (bal_row a) bl s) = fp_total s.
Proof.
  intros H1 H2. induction bl as [|b bl IH]; intros s cur Hb He; cbn [fold_left filter].
  - repeat split; auto.
  - unfold bcur_step at 2 4. destruct (bal_counted b) eqn:Ecnt; cbn [fold_left].
    + rewrite (bal_row_take a s b Ecnt).
      match goal with |- context [fold_left (bal_row a) bl ?s1] =>
        specialize (IH s1 (Some (hb_add (fst (bcur_get cur)) b, heb_add (snd (bcur_get cur)) b))) end.
      cbn [fp_hbal fp_hebal fp_holders fp_costs fp_total option_map fst snd] in IH.
      apply IH.
      * rewrite Hb. rewrite aget_d_app_absent by exact H1. rewrite aset_app_absent by exact H1. rewrite aset_opt_entry.
        unfold aget_d. rewrite aget_opt_entry. destruct cur as [[hb heb]|]; reflexivity.
      * rewrite He. rewrite aget_d_app_absent by exact H2. rewrite aset_app_absent by exact H2. rewrite aset_opt_entry.
        unfold aget_d. rewrite aget_opt_entry. destruct cur as [[hb heb]|]; reflexivity.
    + rewrite (bal_row_skip a s b Ecnt). apply (IH s cur Hb He).
Qed.

Lemma bcur_fold bl : forall cur,
  fold_left bcur_step bl cur =
  match filter bal_counted bl, cur with
  | [], _ => cur
  | pl, _ => Some (fold_left hb_add pl (fst (bcur_get cur)), fold_left heb_add pl (snd (bcur_get cur)))
  end.
Proof.
  induction bl as [|b bl IH]; intros cur; cbn [fold_left filter]; [reflexivity|].
  rewrite IH. unfold bcur_step. destruct (bal_counted b); [|reflexivity].
  cbn [fold_left bcur_get fst snd]. destruct (filter bal_counted bl); reflexivity.
Qed.

Lemma asset_step_spec a c s s' :
  amem a (fp_costs s) = false -> amem a (fp_hbal s) = false -> amem a (fp_hebal s) = false ->
  asset_step (Ok s) (a, c) = Ok s' ->
  lots_ok c = true /\
  fp_costs s' = fp_costs s ++ (if asset_listed c then [(a, asset_cost_of c)] else []) /\
  fp_total s' = fold_left (cost_acc c) (cd_ins c) (fp_total s) /\
  fp_hbal s' = fp_hbal s ++ (match pos_balances c with [] => [] | bl => [(a, holder_table bl)] end) /\
  fp_hebal s' = fp_hebal s ++ (match pos_balances c with [] => [] | bl => [(a, exch_table bl)] end) /\
  fp_holders s' = fold_left holders_add (pos_balances c) (fp_holders s).
Proof.
  intros Hc Hb He H. unfold asset_step in H.
  destruct (fold_left (lot_step c a) (cd_ins c) (Ok s)) as [s1|e] eqn:E1; [|discriminate H].
  injection H as H.
  destruct (lot_fold_spec c a (fp_costs s) Hc (cd_ins c) s s1 None) as (Hok & Hcost & Htot & Hho & Hhb & Hhe).
  { cbn [opt_entry]. rewrite app_nil_r. reflexivity. }
  { exact E1. }
  destruct (bal_fold_spec a (fp_hbal s1) (fp_hebal s1)) with (bl := cd_balances c) (s := s1) (cur := @None (assoc Z * assoc (assoc Z)))
    as (Bhb & Bhe & Bho & Bco & Bto).
  { rewrite Hhb. exact Hb. }
  { rewrite Hhe. exact He. }
  { cbn [option_map opt_entry]. rewrite app_nil_r. reflexivity. }
  { cbn [option_map opt_entry]. rewrite app_nil_r. reflexivity. }
  rewrite H in *. clear H.
  split; [exact Hok|].
  split.
  { rewrite Bco, Hcost, cur_fold. unfold asset_listed, asset_cost_of. rewrite orb_false_r.
    destruct (existsb (lot_counted c) (cd_ins c)); reflexivity. }
  split; [rewrite Bto; exact Htot|].
  rewrite bcur_fold in Bhb, Bhe. unfold pos_balances, holder_table, exch_table.
  split.
  { rewrite Bhb, Hhb. destruct (filter bal_counted (cd_balances c)); reflexivity. }
  split.
  { rewrite Bhe, Hhe. destruct (filter bal_counted (cd_balances c)); reflexivity. }
  rewrite Bho, Hho. reflexivity.
Qed.

(** ** the whole first pass *)
Definition cost_opt (c : computed) : option dec := if asset_listed c then Some (asset_cost_of c) else None.
Definition hbal_opt (c : computed) : option (assoc Z) := match pos_balances c with [] => None | bl => Some (holder_table bl) end.
Definition hebal_opt (c : computed) : option (assoc (assoc Z)) := match pos_balances c with [] => None | bl => Some (exch_table bl) end.
Definition entries {V} (f : computed -> option V) (acs : list (Z * computed)) : assoc V :=
  flat_map (fun ac => opt_entry (fst ac) (f (snd ac))) acs.

Definition keys_below {V} (k : Z) (m : assoc V) : Prop := Forall (fun kv => fst kv < k) m.
Lemma keys_below_amem {V} k (m : assoc V) : keys_below k m -> amem k m = false.
Proof.
  intros H. apply amem_false_iff. intros Hin. apply in_map_iff in Hin. destruct Hin as (kv & E & Hin).
  unfold keys_below in H. rewrite Forall_forall in H. specialize (H kv Hin). lia.
Qed.
Lemma keys_below_app_entry {V} k (m : assoc V) o : keys_below k m -> keys_below (k + 1) (m ++ opt_entry k o).
Proof.
  intros H. unfold keys_below in *. apply Forall_app. split.
  - eapply Forall_impl; [|exact H]. cbn. intros; lia.
  - destruct o; cbn [opt_entry]; constructor; [cbn; lia|constructor].
Qed.

Lemma asset_fold_err l e : fold_left asset_step l (Err e) = Err e.
Proof.
  induction l as [|[a c] l IH]; cbn [fold_left]; [reflexivity|].
  replace (asset_step (Err e) (a, c)) with (@Err fpass e); [exact IH|].
  unfold asset_step. rewrite lot_fold_err. reflexivity.
Qed.

Lemma first_pass_gen : forall cs k s0 s,
  keys_below k (fp_costs s0) -> keys_below k (fp_hbal s0) -> keys_below k (fp_hebal s0) ->
  fold_left asset_step (number_from k cs) (Ok s0) = Ok s ->
  Forall (fun c => lots_ok c = true) cs /\
  fp_costs s = fp_costs s0 ++ entries cost_opt (number_from k cs) /\
  fp_hbal s = fp_hbal s0 ++ entries hbal_opt (number_from k cs) /\
  fp_hebal s = fp_hebal s0 ++ entries hebal_opt (number_from k cs) /\
  fp_holders s = fold_left holders_add (flat_map pos_balances cs) (fp_holders s0) /\
  fp_total s = fold_left (fun acc c => fold_left (cost_acc c) (cd_ins c) acc) cs (fp_total s0).
Proof.
  induction cs as [|c cs IH]; intros k s0 s K1 K2 K3 H; cbn [number_from fold_left] in H.
  - injection H as H. subst s. cbn [number_from entries flat_map fold_left]. rewrite !app_nil_r. repeat split; auto.
  - destruct (asset_step (Ok s0) (k, c)) as [s1|e] eqn:E1; [|rewrite asset_fold_err in H; discriminate H].
    destruct (asset_step_spec k c s0 s1 (keys_below_amem _ _ K1) (keys_below_amem _ _ K2) (keys_below_amem _ _ K3) E1)
      as (Hok & Hc & Ht & Hb & He & Hh).
    assert (Ec : (if asset_listed c then [(k, asset_cost_of c)] else []) = opt_entry k (cost_opt c)).
    { unfold cost_opt. destruct (asset_listed c); reflexivity. }
    assert (Eb : (match pos_balances c with [] => [] | _ :: _ => [(k, holder_table (pos_balances c))] end) = opt_entry k (hbal_opt c)).
    { unfold hbal_opt. destruct (pos_balances c); reflexivity. }
    assert (Ee : (match pos_balances c with [] => [] | _ :: _ => [(k, exch_table (pos_balances c))] end) = opt_entry k (hebal_opt c)).
    { unfold hebal_opt. destruct (pos_balances c); reflexivity. }
    assert (Hb' : fp_hbal s1 = fp_hbal s0 ++ opt_entry k (hbal_opt c)).
    { rewrite Hb, <- Eb. destruct (pos_balances c); reflexivity. }
    assert (He' : fp_hebal s1 = fp_hebal s0 ++ opt_entry k (hebal_opt c)).
    { rewrite He, <- Ee. destruct (pos_balances c); reflexivity. }
    rewrite Ec in Hc.
    specialize (IH (k + 1) s1 s).
    destruct IH as (I0 & I1 & I2 & I3 & I4 & I5).
    { rewrite Hc. apply keys_below_app_entry. exact K1. }
    { rewrite Hb'. apply keys_below_app_entry. exact K2. }
    { rewrite He'. apply keys_below_app_entry. exact K3. }
    { exact H. }
    split; [constructor; assumption|].
    cbn [number_from entries flat_map fst snd fold_left].
    rewrite I1, I2, I3, I4, I5, Hc, Hb', He', Hh, Ht, <- !app_assoc, fold_left_app. repeat split; reflexivity.
Qed.

Theorem first_pass_spec : forall cs s, first_pass cs = Ok s ->
  Forall (fun c => lots_ok c = true) cs /\
  fp_costs s = entries cost_opt (number_from 0 cs) /\
  fp_hbal s = entries hbal_opt (number_from 0 cs) /\
  fp_hebal s = entries hebal_opt (number_from 0 cs) /\
  fp_holders s = fold_left holders_add (flat_map pos_balances cs) [] /\
  fp_total s = fold_left (fun acc c => fold_left (cost_acc c) (cd_ins c) acc) cs dzero.
Proof.
  intros cs s H. unfold first_pass in H.
  pose proof (first_pass_gen cs 0 fp_init s (Forall_nil _) (Forall_nil _) (Forall_nil _) H) as G.
  cbn [fp_init fp_costs fp_hbal fp_hebal fp_holders fp_total app] in G. exact G.
Qed.

(** lookup in a table built by [entries] *)
Lemma aget_entries {V} (f : computed -> option V) : forall cs k a,
  aget a (entries f (number_from k cs)) =
  if a <? k then None else match nth_error cs (Z.to_nat (a - k)) with Some c => f c | None => None end.
Proof.
  induction cs as [|c cs IH]; intros k a; cbn [number_from entries flat_map fst snd].
  - cbn [aget]. destruct (a <? k); [reflexivity|]. destruct (Z.to_nat (a - k)); reflexivity.
  - change (flat_map (fun ac => opt_entry (fst ac) (f (snd ac))) (number_from (k + 1) cs)) with (entries f (number_from (k + 1) cs)).
    destruct (f c) as [v|] eqn:Ef; cbn [opt_entry app aget].
    + destruct (a =? k) eqn:E.
      * assert (a = k) by lia. subst a. rewrite Z.ltb_irrefl, Z.sub_diag. cbn [Z.to_nat nth_error]. symmetry. exact Ef.
      * rewrite IH. destruct (a <? k) eqn:E1.
        { assert (a <? k + 1 = true) by lia. rewrite H. reflexivity. }
        { assert (a <? k + 1 = false) by lia. rewrite H.
          replace (Z.to_nat (a - k)) with (S (Z.to_nat (a - (k + 1)))) by lia. reflexivity. }
    + rewrite IH. destruct (a <? k) eqn:E1.
      { assert (a <? k + 1 = true) by lia. rewrite H. reflexivity. }
      destruct (a =? k) eqn:E.
      * assert (a = k) by lia. subst a. rewrite Z.sub_diag. cbn [Z.to_nat nth_error]. rewrite Ef.
        assert (k <? k + 1 = true) by lia. rewrite H. reflexivity.
      * assert (a <? k + 1 = false) by lia. rewrite H.
        replace (Z.to_nat (a - k)) with (S (Z.to_nat (a - (k + 1)))) by lia. reflexivity.
Qed.

Lemma entries_In {V} (f : computed -> option V) : forall cs k a v,
  In (a, v) (entries f (number_from k cs)) -> exists c, k <= a /\ nth_error cs (Z.to_nat (a - k)) = Some c /\ f c = Some v.
Proof.
  induction cs as [|c cs IH]; intros k a v H; cbn [number_from entries flat_map fst snd] in H; [destruct H|].
  apply in_app_or in H. destruct H as [H|H].
  - destruct (f c) as [v0|] eqn:Ef; cbn [opt_entry] in H; [|destruct H]. destruct H as [H|[]]. injection H as <- <-.
    exists c. rewrite Z.sub_diag. cbn [Z.to_nat nth_error]. split; [lia|]. split; [reflexivity|exact Ef].
  - apply IH in H. destruct H as (c' & Hk & Hn & Hf). exists c'. split; [lia|]. split; [|exact Hf].
    replace (Z.to_nat (a - k)) with (S (Z.to_nat (a - (k + 1)))) by lia. exact Hn.
Qed.

(** the assets that get a cost basis = those with a lot whose unsold cost is > 0; in input order, once *)
Theorem listed_assets_spec : forall cs s, first_pass cs = Ok s ->
  map fst (fp_costs s) = map fst (filter (fun ac => asset_listed (snd ac)) (number_from 0 cs)) /\
  (forall a, aget a (fp_costs s) = if a <? 0 then None else match nth_error cs (Z.to_nat a) with Some c => cost_opt c | None => None end).
Proof.
  intros cs s H. destruct (first_pass_spec cs s H) as (_ & Hc & _). rewrite Hc. clear H Hc. split.
  - generalize 0. induction cs as [|c cs IH]; intros k; cbn [number_from entries flat_map filter map fst snd]; [reflexivity|].
    unfold cost_opt at 1. destruct (asset_listed c); cbn [opt_entry app map fst]; [f_equal|]; apply IH.
  - intros a. rewrite aget_entries, Z.sub_0_r. reflexivity.
Qed.

(** ** the per-holder and per-(holder, exchange) tables of one asset *)
Definition of_holder (h : Z) (b : balance) : bool := b_holder b =? h.

Lemma holder_table_get : forall bl hb0 h,
  aget_d 0 h (fold_left hb_add bl hb0) = aget_d 0 h hb0 + sumZ (map b_final (filter (of_holder h) bl)).
Proof.
  induction bl as [|b bl IH]; intros hb0 h; cbn [fold_left filter map sumZ]; [lia|].
  rewrite IH. unfold hb_add. rewrite aget_d_aset.
  destruct (of_holder h b) eqn:E; unfold of_holder in E.
  - assert (E' : h =? b_holder b = true) by lia. rewrite E'. cbn [map sumZ]. assert (h = b_holder b) by lia. subst h. lia.
  - assert (E' : h =? b_holder b = false) by lia. rewrite E'. lia.
Qed.

Lemma holder_table_mem : forall bl hb0 h,
  amem h (fold_left hb_add bl hb0) = amem h hb0 || existsb (of_holder h) bl.
Proof.
  induction bl as [|b bl IH]; intros hb0 h; cbn [fold_left existsb]; [rewrite orb_false_r; reflexivity|].
  rewrite IH. unfold hb_add. rewrite amem_aset.
  destruct (of_holder h b) eqn:E; unfold of_holder in E.
  - assert (E' : h =? b_holder b = true) by lia. rewrite E'. cbn [orb]. rewrite orb_true_r. reflexivity.
  - assert (E' : h =? b_holder b = false) by lia. rewrite E'. reflexivity.
Qed.

Lemma holder_table_nodup : forall bl hb0, NoDup (map fst hb0) -> NoDup (map fst (fold_left hb_add bl hb0)).
Proof.
  induction bl as [|b bl IH]; intros hb0 H; cbn [fold_left]; [exact H|]. apply IH. unfold hb_add. apply aset_NoDup. exact H.
Qed.

(** every holder with a counted account exactly once, with the sum of that holder's counted balances *)
Theorem holder_table_spec : forall bl,
  NoDup (map fst (holder_table bl)) /\
  (forall h, In h (map fst (holder_table bl)) <-> exists b, In b bl /\ b_holder b = h) /\
  (forall h v, In (h, v) (holder_table bl) -> v = sumZ (map b_final (filter (of_holder h) bl))).
Proof.
  intros bl. unfold holder_table. split; [apply holder_table_nodup; constructor|]. split.
  - intros h. rewrite <- amem_true_iff, holder_table_mem. cbn [amem aget orb]. rewrite existsb_exists.
    unfold of_holder. split; intros (b & Hb & E); exists b; split; auto; lia.
  - intros h v Hin. pose proof (holder_table_nodup bl [] (NoDup_nil _)) as Hnd.
    pose proof (In_aget _ _ _ Hnd Hin) as Hg. pose proof (holder_table_get bl [] h) as G.
    unfold aget_d in G. rewrite Hg in G. cbn [aget] in G. lia.
Qed.

Definition rows_of_heb (heb : assoc (assoc Z)) : list (Z * Z * Z) :=
  flat_map (fun hx => map (fun eb => (fst hx, fst eb, snd eb)) (snd hx)) heb.
Definition triple (b : balance) : Z * Z * Z := (b_holder b, b_exch b, b_final b).
Definition acct (b : balance) : Z * Z := (b_exch b, b_holder b).

Lemma rows_of_heb_app a b : rows_of_heb (a ++ b) = rows_of_heb a ++ rows_of_heb b.
Proof. unfold rows_of_heb. apply flat_map_app. Qed.

Lemma heb_step heb b done :
  NoDup (map fst heb) -> Permutation (rows_of_heb heb) (map triple done) -> ~ In (acct b) (map acct done) ->
  NoDup (map fst (heb_add heb b)) /\ Permutation (rows_of_heb (heb_add heb b)) (map triple (done ++ [b])).
Proof.
  intros Hnd Hp Hnew. unfold heb_add. split; [apply aset_NoDup; exact Hnd|].
  rewrite map_app. cbn [map].
  assert (Hfresh : forall he, aget (b_holder b) heb = Some he -> amem (b_exch b) he = false).
  { intros he Hg. destruct (amem (b_exch b) he) eqn:E; [|reflexivity]. exfalso. apply Hnew.
    unfold amem in E. destruct (aget (b_exch b) he) as [v|] eqn:Ev; [|discriminate E].
    apply aget_In in Ev. apply aget_In in Hg.
    assert (Hin : In (b_holder b, b_exch b, v) (rows_of_heb heb)).
    { unfold rows_of_heb. apply in_flat_map. exists (b_holder b, he). split; [exact Hg|].
      cbn [fst snd]. apply in_map_iff. exists (b_exch b, v). split; [reflexivity|exact Ev]. }
    apply (Permutation_in _ Hp) in Hin. apply in_map_iff in Hin. destruct Hin as (b' & Et & Hb').
    apply in_map_iff. exists b'. split; [|exact Hb']. unfold triple in Et. unfold acct. congruence. }
  destruct (amem (b_holder b) heb) eqn:Em.
  - destruct (aset_present (b_holder b) (aget_d [] (b_holder b) heb) heb Em) as (m1 & he & m2 & E1 & _ & Eg).
    unfold aget_d. rewrite Eg. rewrite (Hfresh he Eg).
    destruct (aset_present (b_holder b) (aset (b_exch b) (b_final b) he) heb Em) as (m1' & he' & m2' & E1' & E2' & Eg').
    match goal with |- Permutation (rows_of_heb ?x) _ =>
      replace x with (m1' ++ (b_holder b, aset (b_exch b) (b_final b) he) :: m2') by (symmetry; exact E2') end.
    rewrite aset_absent by (apply Hfresh; exact Eg).
    assert (he' = he) by (pose proof (eq_trans (eq_sym Eg') Eg) as X; injection X as X; exact X). subst he'.
    rewrite E1' in Hp. rewrite rows_of_heb_app in *. unfold rows_of_heb at 2 in Hp. unfold rows_of_heb at 2.
    cbn [flat_map fst snd] in *. rewrite map_app. cbn [map fst snd].
    fold (rows_of_heb m2') in *.
    rewrite <- Hp. rewrite <- !app_assoc. apply Permutation_app_head. cbn [app].
    apply Permutation_app_head. apply Permutation_cons_app. rewrite app_nil_r. apply Permutation_refl.
  - assert (Ed : aget_d [] (b_holder b) heb = []).
    { apply aget_d_absent. exact Em. }
    rewrite Ed. cbn [amem aget aset]. rewrite aset_absent by exact Em. rewrite rows_of_heb_app. unfold rows_of_heb at 2. cbn [flat_map map fst snd app].
    apply Permutation_app; [exact Hp|apply Permutation_refl].
Qed.

Lemma exch_table_gen : forall bl heb done,
  NoDup (map fst heb) -> Permutation (rows_of_heb heb) (map triple done) -> NoDup (map acct (done ++ bl)) ->
  NoDup (map fst (fold_left heb_add bl heb)) /\ Permutation (rows_of_heb (fold_left heb_add bl heb)) (map triple (done ++ bl)).
Proof.
  induction bl as [|b bl IH]; intros heb done Hnd Hp Hacc; cbn [fold_left].
  - rewrite app_nil_r. auto.
  - assert (Hnew : ~ In (acct b) (map acct done)).
    { rewrite map_app in Hacc. cbn [map] in Hacc. apply NoDup_remove_2 in Hacc. intros Hin. apply Hacc. apply in_or_app. left. exact Hin. }
    destruct (heb_step heb b done Hnd Hp Hnew) as (Hnd' & Hp').
    specialize (IH (heb_add heb b) (done ++ [b]) Hnd' Hp'). rewrite <- app_assoc in IH. cbn [app] in IH. apply IH. exact Hacc.
Qed.

(** every counted (exchange, holder) account exactly once, with its final balance *)
Theorem exch_table_spec : forall bl, NoDup (map acct bl) ->
  NoDup (map fst (exch_table bl)) /\ Permutation (rows_of_heb (exch_table bl)) (map triple bl).
Proof.
  intros bl H. unfold exch_table. apply (exch_table_gen bl [] []); [constructor|apply Permutation_refl|exact H].
Qed.

(** the two tables of an asset have the same holders in the same order *)
Lemma tables_same_holders : forall bl hb heb, map fst hb = map fst heb ->
  map fst (fold_left hb_add bl hb) = map fst (fold_left heb_add bl heb).
Proof.
  induction bl as [|b bl IH]; intros hb heb H; cbn [fold_left]; [exact H|]. apply IH.
  unfold hb_add, heb_add. rewrite !aset_keys. unfold amem.
  assert (E : forall {A B} (m1 : assoc A) (m2 : assoc B) k, map fst m1 = map fst m2 -> (match aget k m1 with Some _ => true | None => false end) = (match aget k m2 with Some _ => true | None => false end)).
  { intros A B m1. induction m1 as [|[k1 v1] m1 IHm]; intros [|[k2 v2] m2] k Hk; cbn [map fst] in Hk; try discriminate Hk; [reflexivity|].
    injection Hk as Hk1 Hk2. subst k2. cbn [aget]. destruct (k =? k1); [reflexivity|]. apply IHm. exact Hk2. }
  rewrite (E _ _ hb heb (b_holder b) H), H. reflexivity.
Qed.

(** * Part B: the second pass *)
From RP2V Require Import Proofs.DecProofs.

Definition ws_add_rows (w : wsheet) (envs : list rowenv) (tbl : list (Z * op_val)) : wsheet :=
  fold_left (fun w e => ws_add_row w e tbl) envs w.

Lemma ws_add_rows_app w l1 l2 tbl : ws_add_rows (ws_add_rows w l1 tbl) l2 tbl = ws_add_rows w (l1 ++ l2) tbl.
Proof. unfold ws_add_rows. rewrite fold_left_app. reflexivity. Qed.

Lemma ws_add_rows_spec tbl : forall envs w,
  ws_next (ws_add_rows w envs tbl) = ws_next w + Z.of_nat (length envs) /\
  ws_appended (ws_add_rows w envs tbl) = ws_appended w + Z.of_nat (length envs) /\
  ws_writes (ws_add_rows w envs tbl) =
    ws_writes w ++ flat_map (fun ke => render_row (with_row (snd ke) (fst ke)) tbl) (number_from (ws_next w) envs).
Proof.
  induction envs as [|e envs IH]; intros w; cbn [ws_add_rows fold_left length number_from flat_map].
  - rewrite app_nil_r. repeat split; lia.
  - fold (ws_add_rows (ws_add_row w e tbl) envs tbl). destruct (IH (ws_add_row w e tbl)) as (I1 & I2 & I3).
    rewrite I1, I2, I3. unfold ws_add_row, ws_add. cbn [ws_next ws_appended ws_writes fst snd].
    rewrite <- app_assoc. repeat split; lia.
Qed.

Section SecondProofs.
Context (i : rinput) (input_name : str) (s : fpass).
Hypothesis total_nz : fst (fp_total s) <> 0.

Definition weight_of (cost : dec) : dec := match gen_op_weight cost (fp_total s) with Some w => w | None => dzero end.
Definition data_env' (aname : str) (unit : dec) (ho : Z) (exch : str) (bal : Z) : rowenv :=
  {| re_row := 0; re_end := 0; re_asset := aname; re_holder := name_at (rp_holders i) ho; re_exch := exch; re_bal := bal;
     re_unit := unit; re_cost := gen_op_row_cost bal unit; re_weight := weight_of (gen_op_row_cost bal unit); re_input := input_name |}.

Lemma data_env_eq aname unit ho exch bal : data_env i input_name s aname unit ho exch bal = Some (data_env' aname unit ho exch bal).
Proof.
  unfold data_env, data_env', weight_of. destruct (gen_op_weight (gen_op_row_cost bal unit) (fp_total s)) eqn:E; [reflexivity|].
  exfalso. unfold gen_op_weight, odiv in E. apply ddiv_none in E. exact (total_nz E).
Qed.

Lemma holder_fold aname unit : forall hb w,
  fold_left (holder_row i input_name s aname unit) hb (Ok w) =
  Ok (ws_add_rows w (map (fun kv => data_env' aname unit (fst kv) [] (snd kv)) hb) gen_op_row_asset).
Proof.
  induction hb as [|kv hb IH]; intros w; cbn [fold_left map]; [reflexivity|].
  unfold holder_row at 2. rewrite data_env_eq. rewrite IH. reflexivity.
Qed.

Lemma exch_fold aname unit ho : forall he w,
  fold_left (exch_row i input_name s aname unit ho) he (Ok w) =
  Ok (ws_add_rows w (map (fun eb => data_env' aname unit ho (name_at (rp_exchanges i) (fst eb)) (snd eb)) he) gen_op_row_asset_exchange).
Proof.
  induction he as [|eb he IH]; intros w; cbn [fold_left map]; [reflexivity|].
  unfold exch_row at 2. rewrite data_env_eq. rewrite IH. reflexivity.
Qed.

Lemma exch_fold2 aname unit : forall heb w,
  fold_left (fun acc hx => fold_left (exch_row i input_name s aname unit (fst hx)) (snd hx) acc) heb (Ok w) =
  Ok (ws_add_rows w (flat_map (fun hx => map (fun eb => data_env' aname unit (fst hx) (name_at (rp_exchanges i) (fst eb)) (snd eb)) (snd hx)) heb)
        gen_op_row_asset_exchange).
Proof.
  induction heb as [|hx heb IH]; intros w; cbn [fold_left flat_map]; [reflexivity|].
  rewrite exch_fold, IH, ws_add_rows_app. reflexivity.
Qed.

Definition aname_of (a : Z) : str :=
  ra_name (nth (Z.to_nat a) (rp_assets i) {| ra_name := []; ra_txs := {| t_ins := []; t_outs := []; t_intras := [] |}; ra_fracs := [] |}).
Definition hb_of (a : Z) : assoc Z := aget_d [] a (fp_hbal s).
Definition heb_of (a : Z) : assoc (assoc Z) := aget_d [] a (fp_hebal s).
Definition unit_of (ac : Z * dec) : dec :=
  match gen_op_unit_cost (snd ac) (total_balance (hb_of (fst ac))) with Some u => u | None => dzero end.
Definition holder_envs_of (ac : Z * dec) : list rowenv :=
  map (fun kv => data_env' (aname_of (fst ac)) (unit_of ac) (fst kv) [] (snd kv)) (hb_of (fst ac)).
Definition exch_envs_of (ac : Z * dec) : list rowenv :=
  flat_map (fun hx => map (fun eb => data_env' (aname_of (fst ac)) (unit_of ac) (fst hx) (name_at (rp_exchanges i) (fst eb)) (snd eb)) (snd hx))
           (heb_of (fst ac)).
Definition input_env_of (ac : Z * dec) : rowenv :=
  {| re_row := 0; re_end := 0; re_asset := aname_of (fst ac); re_holder := []; re_exch := []; re_bal := 0; re_unit := dzero;
     re_cost := dzero; re_weight := dzero; re_input := input_name |}.

(** what has to hold for an asset with a cost basis so that its rows can be written *)
Definition asset_ok (ac : Z * dec) : Prop :=
  amem (fst ac) (fp_hbal s) = true /\ amem (fst ac) (fp_hebal s) = true /\
  total_balance (hb_of (fst ac)) <> 0 /\ exists k, unit_style (unit_of ac) = Ok k.

Lemma asset_rows_ok w ac : asset_ok ac ->
  asset_rows i input_name s (Ok w) ac =
  Ok {| w_asset := ws_add_rows (w_asset w) (holder_envs_of ac) gen_op_row_asset;
        w_exch := ws_add_rows (w_exch w) (exch_envs_of ac) gen_op_row_asset_exchange;
        w_input := ws_add_row (w_input w) (input_env_of ac) gen_op_row_input |}.
Proof.
  destruct ac as [a cost]. intros (H1 & H2 & H3 & k & H4). cbn [fst snd] in *.
  unfold asset_rows. unfold amem in H1, H2.
  destruct (aget a (fp_hbal s)) as [hb|] eqn:E1; [|discriminate H1].
  destruct (aget a (fp_hebal s)) as [heb|] eqn:E2; [|discriminate H2].
  assert (Ehb : hb_of a = hb) by (apply aget_d_some; exact E1).
  assert (Eheb : heb_of a = heb) by (apply aget_d_some; exact E2).
  unfold unit_of in H4. cbn [fst snd] in H4. rewrite Ehb in H3, H4.
  destruct (gen_op_unit_cost cost (total_balance hb)) as [u|] eqn:Eu.
  2:{ exfalso. unfold gen_op_unit_cost, odiv in Eu. apply ddiv_none in Eu. cbn [of_grid fst] in Eu. exact (H3 Eu). }
  rewrite H4. rewrite holder_fold, exch_fold2.
  unfold holder_envs_of, exch_envs_of, input_env_of, unit_of, aname_of. cbn [fst snd]. rewrite Ehb, Eheb, Eu. reflexivity.
Qed.

(** KeyError: an asset with a cost basis but no counted balance *)
Lemma asset_rows_keyerror w ac : amem (fst ac) (fp_hbal s) = false -> asset_rows i input_name s (Ok w) ac = Err EInternal.
Proof.
  destruct ac as [a cost]. cbn [fst]. unfold amem, asset_rows. destruct (aget a (fp_hbal s)); [discriminate|reflexivity].
Qed.

Lemma asset_rows_err e ac : asset_rows i input_name s (Err e) ac = Err e.
Proof. destruct ac. reflexivity. Qed.
Lemma asset_rows_fold_err e l : fold_left (asset_rows i input_name s) l (Err e) = Err e.
Proof. induction l as [|ac l IH]; cbn [fold_left]; [reflexivity|]. rewrite asset_rows_err. exact IH. Qed.

Lemma asset_rows_fold : forall l w, Forall asset_ok l ->
  fold_left (asset_rows i input_name s) l (Ok w) =
  Ok {| w_asset := ws_add_rows (w_asset w) (flat_map holder_envs_of l) gen_op_row_asset;
        w_exch := ws_add_rows (w_exch w) (flat_map exch_envs_of l) gen_op_row_asset_exchange;
        w_input := ws_add_rows (w_input w) (map input_env_of l) gen_op_row_input |}.
Proof.
  induction l as [|ac l IH]; intros w H; cbn [fold_left flat_map map].
  - destruct w; reflexivity.
  - inversion H as [|? ? Hac Hl]; subst. rewrite (asset_rows_ok w ac Hac), (IH _ Hl).
    cbn [w_asset w_exch w_input]. rewrite !ws_add_rows_app. reflexivity.
Qed.

(** the first asset that cannot be written stops the report with KeyError *)
Lemma asset_rows_fold_keyerror : forall l1 ac l2 w, Forall asset_ok l1 -> amem (fst ac) (fp_hbal s) = false ->
  fold_left (asset_rows i input_name s) (l1 ++ ac :: l2) (Ok w) = Err EInternal.
Proof.
  intros l1 ac l2 w H1 H2. rewrite fold_left_app, (asset_rows_fold l1 w H1). cbn [fold_left].
  rewrite asset_rows_keyerror by exact H2. apply asset_rows_fold_err.
Qed.

Definition asset_sheet_body : wsheet :=
  ws_add_rows (ws_start gen_op_hdr_asset gen_op_notes_asset) (flat_map holder_envs_of (fp_costs s)) gen_op_row_asset.
Definition exch_sheet_body : wsheet :=
  ws_add_rows (ws_start gen_op_hdr_asset_exchange gen_op_notes_asset_exchange) (flat_map exch_envs_of (fp_costs s)) gen_op_row_asset_exchange.
Definition input_sheet_body : wsheet :=
  ws_add_rows (ws_start gen_op_hdr_input gen_op_notes_input) (map input_env_of (fp_costs s)) gen_op_row_input.

Theorem second_pass_spec : Forall asset_ok (fp_costs s) ->
  second_pass i input_name s =
  Ok {| w_asset := total_rows i input_name s (pct_writes input_name asset_sheet_body gen_op_pct_asset) gen_op_total_asset gen_op_grand_asset;
        w_exch := total_rows i input_name s (pct_writes input_name exch_sheet_body gen_op_pct_asset_exchange)
                    gen_op_total_asset_exchange gen_op_grand_asset_exchange;
        w_input := input_sheet_body |}.
Proof.
  intros H. unfold second_pass. rewrite (asset_rows_fold _ _ H). reflexivity.
Qed.
End SecondProofs.

(** ** capacity: every write lands inside the sheet as sized by the template + append_rows calls *)
Definition cell_in (nrows ncols : Z) (c : cellw) : Prop := 0 <= cw_row c < nrows /\ 0 <= cw_col c < ncols.
Definition tbl_cols_ok (n : Z) (tbl : list (Z * op_val)) : bool := forallb (fun cv => (0 <=? fst cv) && (fst cv <? n)) tbl.
Definition hdr_ok (n : Z) (ws : list cellw) : bool :=
  forallb (fun c => (0 <=? cw_row c) && (cw_row c <? gen_op_header_rows) && (0 <=? cw_col c) && (cw_col c <? n)) ws.

Lemma render_row_in nrows ncols e tbl : tbl_cols_ok ncols tbl = true -> 0 <= re_row e < nrows ->
  Forall (cell_in nrows ncols) (render_row e tbl).
Proof.
  intros Ht Hr. unfold render_row. apply Forall_forall. intros c Hin. apply in_map_iff in Hin. destruct Hin as (cv & <- & Hcv).
  unfold tbl_cols_ok in Ht. rewrite forallb_forall in Ht. specialize (Ht cv Hcv). unfold cell_in, cw. cbn [cw_row cw_col]. lia.
Qed.

Lemma Forall_cell_in_mono n1 n2 ncols ws : n1 <= n2 -> Forall (cell_in n1 ncols) ws -> Forall (cell_in n2 ncols) ws.
Proof. intros Hn. apply Forall_impl. unfold cell_in. intros; lia. Qed.

Definition ws_inv (ncols : Z) (w : wsheet) : Prop :=
  ws_next w = gen_op_header_rows + ws_appended w /\ 0 <= ws_appended w /\ Forall (cell_in (ws_next w) ncols) (ws_writes w).

Lemma ws_start_inv ncols h notes : hdr_ok ncols (header_writes h notes) = true -> ws_inv ncols (ws_start h notes).
Proof.
  intros H. unfold ws_inv, ws_start. cbn [ws_next ws_appended ws_writes]. split; [lia|]. split; [lia|].
  apply Forall_forall. intros c Hc. unfold hdr_ok in H. rewrite forallb_forall in H. specialize (H c Hc). unfold cell_in. lia.
Qed.

Lemma ws_add_row_inv ncols w e tbl : tbl_cols_ok ncols tbl = true -> ws_inv ncols w -> ws_inv ncols (ws_add_row w e tbl).
Proof.
  intros Ht (H1 & H2 & H3). unfold ws_inv, ws_add_row, ws_add. cbn [ws_next ws_appended ws_writes].
  split; [lia|]. split; [lia|]. apply Forall_app. split.
  - eapply Forall_cell_in_mono; [|exact H3]. lia.
  - apply render_row_in; [exact Ht|]. unfold with_row. cbn [re_row]. unfold gen_op_header_rows in *. lia.
Qed.

Lemma ws_add_rows_inv ncols tbl : tbl_cols_ok ncols tbl = true -> forall envs w, ws_inv ncols w -> ws_inv ncols (ws_add_rows w envs tbl).
Proof.
  intros Ht. induction envs as [|e envs IH]; intros w H; cbn [ws_add_rows fold_left]; [exact H|].
  apply IH. apply ws_add_row_inv; assumption.
Qed.

Lemma data_rows_range w r : In r (data_rows w) -> gen_op_header_rows <= r < ws_next w.
Proof.
  unfold data_rows. intros H. apply in_map_iff in H. destruct H as (k & <- & Hk). apply in_seq in Hk. lia.
Qed.

Lemma pct_writes_inv ncols inp w tbl : tbl_cols_ok ncols tbl = true -> ws_inv ncols w -> ws_inv ncols (pct_writes inp w tbl).
Proof.
  intros Ht (H1 & H2 & H3). unfold ws_inv, pct_writes, ws_write. cbn [ws_next ws_appended ws_writes].
  split; [exact H1|]. split; [exact H2|]. apply Forall_app. split; [exact H3|].
  apply Forall_forall. intros c Hc. apply in_flat_map in Hc. destruct Hc as (r & Hr & Hc).
  apply data_rows_range in Hr.
  pose proof (render_row_in (ws_next w) ncols (env0 r (ws_next w) inp) tbl Ht) as G. rewrite Forall_forall in G.
  apply G; [|exact Hc]. unfold env0. cbn [re_row]. unfold gen_op_header_rows in *. lia.
Qed.

Lemma fold_add_row_inv {A} ncols tbl (f : A -> rowenv) : tbl_cols_ok ncols tbl = true -> forall (l : list A) w,
  ws_inv ncols w -> ws_inv ncols (fold_left (fun acc x => ws_add_row acc (f x) tbl) l w).
Proof.
  intros Ht. induction l as [|x l IH]; intros w H; cbn [fold_left]; [exact H|]. apply IH. apply ws_add_row_inv; assumption.
Qed.

Lemma total_rows_inv ncols i inp s w tot grand : tbl_cols_ok ncols tot = true -> tbl_cols_ok ncols grand = true ->
  ws_inv ncols w -> ws_inv ncols (total_rows i inp s w tot grand).
Proof.
  intros Ht Hg H. unfold total_rows. apply ws_add_row_inv; [exact Hg|].
  destruct (gen_op_totals_need_more_than <? Z.of_nat (length (fp_holders s))); [|exact H].
  apply (fold_add_row_inv ncols tot); assumption.
Qed.

Lemma finish_sheet_ok name ncols w : ws_inv ncols w -> sheet_ok (finish_sheet name (gen_op_header_rows, ncols) w) = true.
Proof.
  intros (H1 & H2 & H3). unfold sheet_ok, finish_sheet. cbn [sw_writes fst snd]. apply forallb_forall. intros c Hc.
  rewrite Forall_forall in H3. specialize (H3 c Hc). unfold in_capacity, cell_in in *. cbn [sw_rows sw_cols]. lia.
Qed.

(** finite facts about the translated tables (re-checked whenever the source changes) *)
Lemma tables_fit :
  tbl_cols_ok 13 gen_op_row_asset = true /\ tbl_cols_ok 13 gen_op_pct_asset = true /\ tbl_cols_ok 13 gen_op_total_asset = true /\
  tbl_cols_ok 13 gen_op_grand_asset = true /\
  tbl_cols_ok 14 gen_op_row_asset_exchange = true /\ tbl_cols_ok 14 gen_op_pct_asset_exchange = true /\
  tbl_cols_ok 14 gen_op_total_asset_exchange = true /\ tbl_cols_ok 14 gen_op_grand_asset_exchange = true /\
  tbl_cols_ok 3 gen_op_row_input = true /\
  hdr_ok 13 (header_writes gen_op_hdr_asset gen_op_notes_asset) = true /\
  hdr_ok 14 (header_writes gen_op_hdr_asset_exchange gen_op_notes_asset_exchange) = true /\
  hdr_ok 3 (header_writes gen_op_hdr_input gen_op_notes_input) = true.
Proof. vm_compute. repeat split; reflexivity. Qed.

Lemma template_dims : forall c lang d, gen_op_template c lang = Some d ->
  d = ((gen_op_header_rows, 13), (gen_op_header_rows, 14), (gen_op_header_rows, 3)).
Proof.
  intros c lang d. unfold gen_op_template.
  repeat match goal with |- (if ?b then _ else _) = _ -> _ => destruct b; [intros H; injection H as <-; reflexivity|] end.
  discriminate.
Qed.

Lemma holder_fold_err i inp s an u hb e : fold_left (holder_row i inp s an u) hb (Err e) = Err e.
Proof. induction hb as [|x hb IH]; cbn [fold_left holder_row]; [reflexivity|exact IH]. Qed.
Lemma exch_fold_err i inp s an u ho he e : fold_left (exch_row i inp s an u ho) he (Err e) = Err e.
Proof. induction he as [|x he IH]; cbn [fold_left exch_row]; [reflexivity|exact IH]. Qed.
Lemma exch_fold2_err i inp s an u heb e :
  fold_left (fun acc hx => fold_left (exch_row i inp s an u (fst hx)) (snd hx) acc) heb (Err e) = Err e.
Proof. induction heb as [|x heb IH]; cbn [fold_left]; [reflexivity|]. rewrite exch_fold_err. exact IH. Qed.

Lemma holder_fold_inv i inp s an u : tbl_cols_ok 13 gen_op_row_asset = true -> forall hb w w',
  fold_left (holder_row i inp s an u) hb (Ok w) = Ok w' -> ws_inv 13 w -> ws_inv 13 w'.
Proof.
  intros T. induction hb as [|kv hb IH]; intros w w' H I; cbn [fold_left] in H.
  - injection H as <-. exact I.
  - unfold holder_row at 2 in H. destruct (data_env i inp s an u (fst kv) [] (snd kv)) as [e|].
    + apply (IH _ _ H). apply ws_add_row_inv; assumption.
    + rewrite holder_fold_err in H. discriminate H.
Qed.

Lemma exch_fold_inv i inp s an u ho : tbl_cols_ok 14 gen_op_row_asset_exchange = true -> forall he w w',
  fold_left (exch_row i inp s an u ho) he (Ok w) = Ok w' -> ws_inv 14 w -> ws_inv 14 w'.
Proof.
  intros T. induction he as [|eb he IH]; intros w w' H I; cbn [fold_left] in H.
  - injection H as <-. exact I.
  - unfold exch_row at 2 in H. destruct (data_env i inp s an u ho (name_at (rp_exchanges i) (fst eb)) (snd eb)) as [e|].
    + apply (IH _ _ H). apply ws_add_row_inv; assumption.
    + rewrite exch_fold_err in H. discriminate H.
Qed.

Lemma exch_fold2_inv i inp s an u : tbl_cols_ok 14 gen_op_row_asset_exchange = true -> forall heb w w',
  fold_left (fun acc hx => fold_left (exch_row i inp s an u (fst hx)) (snd hx) acc) heb (Ok w) = Ok w' -> ws_inv 14 w -> ws_inv 14 w'.
Proof.
  intros T. induction heb as [|hx heb IH]; intros w w' H I; cbn [fold_left] in H.
  - injection H as <-. exact I.
  - destruct (fold_left (exch_row i inp s an u (fst hx)) (snd hx) (Ok w)) as [w1|e] eqn:E.
    + apply (IH _ _ H). apply (exch_fold_inv i inp s an u (fst hx) T _ _ _ E I).
    + rewrite exch_fold2_err in H. discriminate H.
Qed.

Definition wst_inv (w : wst) : Prop := ws_inv 13 (w_asset w) /\ ws_inv 14 (w_exch w) /\ ws_inv 3 (w_input w).

Lemma asset_rows_inv i inp s w0 w1 ac : asset_rows i inp s (Ok w0) ac = Ok w1 -> wst_inv w0 -> wst_inv w1.
Proof.
  destruct tables_fit as (T1 & _ & _ & _ & T5 & _ & _ & _ & T9 & _).
  destruct ac as [a cost]. intros H (I1 & I2 & I3). unfold asset_rows in H.
  destruct (aget a (fp_hbal s)) as [hb|]; [|discriminate H].
  destruct (gen_op_unit_cost cost (total_balance hb)) as [u|]; [|discriminate H].
  destruct (unit_style u); [|discriminate H].
  match type of H with context [fold_left (holder_row i inp s ?an u) hb _] => set (aname := an) in * end.
  destruct (fold_left (holder_row i inp s aname u) hb (Ok (w_asset w0))) as [wa|] eqn:Eh; [|discriminate H].
  destruct (aget a (fp_hebal s)) as [heb|]; [|discriminate H].
  destruct (fold_left (fun acc hx => fold_left (exch_row i inp s aname u (fst hx)) (snd hx) acc) heb (Ok (w_exch w0))) as [we|] eqn:Ee;
    [|discriminate H].
  injection H as <-. unfold wst_inv. cbn [w_asset w_exch w_input]. split; [|split].
  - exact (holder_fold_inv i inp s aname u T1 _ _ _ Eh I1).
  - exact (exch_fold2_inv i inp s aname u T5 _ _ _ Ee I2).
  - apply ws_add_row_inv; assumption.
Qed.

Lemma asset_rows_fold_inv i inp s : forall l w0 w1, fold_left (asset_rows i inp s) l (Ok w0) = Ok w1 -> wst_inv w0 -> wst_inv w1.
Proof.
  induction l as [|ac l IH]; intros w0 w1 H I; cbn [fold_left] in H.
  - injection H as <-. exact I.
  - destruct (asset_rows i inp s (Ok w0) ac) as [w0'|e] eqn:Ea; [|rewrite asset_rows_fold_err in H; discriminate H].
    exact (IH _ _ H (asset_rows_inv _ _ _ _ _ _ Ea I)).
Qed.

Theorem sheets_within_capacity : forall lang i cs sheets,
  open_positions_of lang i cs = Ok sheets -> Forall (fun sh => sheet_ok sh = true) sheets.
Proof.
  intros lang i cs sheets H. unfold open_positions_of in H. revert H. generalize gen_op_drop_orphans. intros drop H.
  unfold open_positions_gen in H.
  destruct (gen_op_names lang) as [[[n1 n2] n3]|]; [|discriminate H].
  destruct (gen_op_template (country_code (rp_country i)) lang) as [[[d1 d2] d3]|] eqn:Et; [|discriminate H].
  apply template_dims in Et. injection Et as -> -> ->.
  destruct (negb (method_lookup_ok (rp_sched i))); [discriminate H|].
  destruct (first_pass cs) as [s0|e]; [|discriminate H].
  set (s := if drop then drop_orphans s0 else s0) in *.
  destruct (second_pass i n3 s) as [w|e] eqn:E2; [|discriminate H].
  injection H as <-.
  destruct tables_fit as (T1 & T2 & T3 & T4 & T5 & T6 & T7 & T8 & T9 & T10 & T11 & T12).
  unfold second_pass in E2.
  destruct (fold_left (asset_rows i n3 s) (fp_costs s) _) as [w1|e] eqn:Ef; [|discriminate E2].
  injection E2 as <-.
  destruct (asset_rows_fold_inv i n3 s _ _ _ Ef) as (J1 & J2 & J3).
  { unfold wst_inv. cbn [w_asset w_exch w_input]. split; [|split]; apply ws_start_inv; assumption. }
  cbn [w_asset w_exch w_input].
  repeat constructor; apply finish_sheet_ok.
  - apply total_rows_inv; try assumption. apply pct_writes_inv; assumption.
  - apply total_rows_inv; try assumption. apply pct_writes_inv; assumption.
  - exact J3.
Qed.

(** ** from the first-pass tables to the rows: which lookups can fail *)
Lemma total_balance_sum : forall hb acc, fold_left (fun acc (kv : Z * Z) => acc + snd kv) hb acc = acc + sumZ (map (fun kv => snd kv) hb).
Proof. induction hb as [|kv hb IH]; intros acc; cbn [fold_left map sumZ]; [lia|]. rewrite IH. lia. Qed.

Lemma total_balance_fold : forall bl hb0, total_balance (fold_left hb_add bl hb0) = total_balance hb0 + sumZ (map b_final bl).
Proof.
  unfold total_balance. induction bl as [|b bl IH]; intros hb0; cbn [fold_left map sumZ]; [lia|].
  rewrite IH. rewrite !total_balance_sum. unfold hb_add.
  rewrite (sum_aset (fun v : Z => v)). unfold aget_d. destruct (aget (b_holder b) hb0); lia.
Qed.

(** the per-unit divisor: the sum of the holder balances = the sum of all counted final balances *)
Theorem total_balance_holder_table : forall bl, total_balance (holder_table bl) = sumZ (map b_final bl).
Proof. intros bl. unfold holder_table. rewrite total_balance_fold. reflexivity. Qed.

Lemma bal_counted_pos b : bal_counted b = true -> 0 < b_final b.
Proof. unfold bal_counted, gen_op_balance_counts. lia. Qed.

Lemma pos_balances_total c : pos_balances c <> [] -> 0 < sumZ (map b_final (pos_balances c)).
Proof.
  unfold pos_balances. intros H.
  assert (G : forall l, Forall (fun b => bal_counted b = true) l -> l <> [] -> 0 < sumZ (map b_final l)).
  { induction l as [|b l IH]; intros Hl Hn; [congruence|]. inversion Hl as [|? ? Hb Hl']; subst. cbn [map sumZ].
    apply bal_counted_pos in Hb. destruct l as [|b' l']; [cbn; lia|]. assert (0 < sumZ (map b_final (b' :: l'))) by (apply IH; [exact Hl'|congruence]). lia. }
  apply G; [|exact H]. apply Forall_forall. intros b Hb. apply filter_In in Hb. tauto.
Qed.

Section Tie.
Context (i : rinput) (input_name : str) (cs : list computed) (s : fpass).
Hypothesis Hfp : first_pass cs = Ok s.

Lemma costs_In ac : In ac (fp_costs s) ->
  exists c, 0 <= fst ac /\ nth_error cs (Z.to_nat (fst ac)) = Some c /\ asset_listed c = true /\ snd ac = asset_cost_of c /\
            aget (fst ac) (fp_hbal s) = hbal_opt c /\ aget (fst ac) (fp_hebal s) = hebal_opt c.
Proof.
  destruct (first_pass_spec cs s Hfp) as (_ & Hc & Hb & He & _). destruct ac as [a cost]. intros Hin. rewrite Hc in Hin.
  apply entries_In in Hin. destruct Hin as (c & Ha & Hn & Hf). rewrite Z.sub_0_r in Hn. exists c. cbn [fst snd].
  unfold cost_opt in Hf. destruct (asset_listed c) eqn:El; [|discriminate Hf]. injection Hf as <-.
  assert (a <? 0 = false) by lia.
  repeat split; auto; try lia.
  - rewrite Hb, aget_entries, Z.sub_0_r, H, Hn. reflexivity.
  - rewrite He, aget_entries, Z.sub_0_r, H, Hn. reflexivity.
Qed.

(** an asset with a cost basis and at least one counted balance: both lookups succeed and the divisor is positive *)
Lemma asset_ok_of ac c : In ac (fp_costs s) -> nth_error cs (Z.to_nat (fst ac)) = Some c -> pos_balances c <> [] ->
  amem (fst ac) (fp_hbal s) = true /\ amem (fst ac) (fp_hebal s) = true /\
  hb_of s (fst ac) = holder_table (pos_balances c) /\ heb_of s (fst ac) = exch_table (pos_balances c) /\
  0 < total_balance (hb_of s (fst ac)).
Proof.
  intros Hin Hn Hp. destruct (costs_In ac Hin) as (c' & _ & Hn' & _ & _ & Hb & He).
  assert (c' = c) by congruence. subst c'.
  unfold hbal_opt in Hb. unfold hebal_opt in He. unfold amem, hb_of, heb_of.
  destruct (pos_balances c) as [|b bl] eqn:Ep; [congruence|].
  rewrite (aget_d_some _ _ _ _ Hb), (aget_d_some _ _ _ _ He), Hb, He. repeat split; auto.
  rewrite total_balance_holder_table, <- Ep. apply pos_balances_total. congruence.
Qed.

Theorem second_pass_total :
  fst (fp_total s) <> 0 ->
  (forall a c, nth_error cs a = Some c -> asset_listed c = true -> pos_balances c <> []) ->
  (forall ac, In ac (fp_costs s) -> exists k, unit_style (unit_of s ac) = Ok k) ->
  exists w, second_pass i input_name s = Ok w.
Proof.
  intros Ht Hbal Hst. rewrite (second_pass_spec i input_name s Ht); [eexists; reflexivity|].
  apply Forall_forall. intros ac Hin. destruct (costs_In ac Hin) as (c & _ & Hn & Hl & _).
  destruct (asset_ok_of ac c Hin Hn (Hbal _ _ Hn Hl)) as (A1 & A2 & _ & _ & A5).
  unfold asset_ok. repeat split; auto. lia.
Qed.

(** KeyError: some asset has a lot with unsold cost > 0 but no account with a positive final balance *)
Theorem second_pass_keyerror :
  (exists a c, nth_error cs a = Some c /\ asset_listed c = true /\ pos_balances c = []) ->
  exists e, second_pass i input_name s = Err e.
Proof.
  intros (a & c & Hn & Hl & Hp).
  assert (Hin : exists cost, In (Z.of_nat a, cost) (fp_costs s) /\ amem (Z.of_nat a) (fp_hbal s) = false).
  { destruct (first_pass_spec cs s Hfp) as (_ & Hc & Hb & _). exists (asset_cost_of c). split.
    - apply aget_In. rewrite Hc, aget_entries, Z.sub_0_r, Nat2Z.id, Hn. assert (Z.of_nat a <? 0 = false) by lia. rewrite H.
      unfold cost_opt. rewrite Hl. reflexivity.
    - unfold amem. rewrite Hb, aget_entries, Z.sub_0_r, Nat2Z.id, Hn. assert (Z.of_nat a <? 0 = false) by lia. rewrite H.
      unfold hbal_opt. rewrite Hp. reflexivity. }
  destruct Hin as (cost & Hin & Hm). unfold second_pass.
  assert (G : forall l st, In (Z.of_nat a, cost) l -> exists e, fold_left (asset_rows i input_name s) l st = Err e).
  { induction l as [|ac l IH]; intros st Hl'; [destruct Hl'|]. cbn [fold_left]. destruct st as [w|e].
    - destruct Hl' as [->|Hl'].
      + rewrite (asset_rows_keyerror i input_name s w (Z.of_nat a, cost) Hm). rewrite asset_rows_fold_err. eexists; reflexivity.
      + apply IH. exact Hl'.
    - rewrite asset_rows_err, asset_rows_fold_err. eexists; reflexivity. }
  destruct (G (fp_costs s) (Ok {| w_asset := ws_start gen_op_hdr_asset gen_op_notes_asset;
                                   w_exch := ws_start gen_op_hdr_asset_exchange gen_op_notes_asset_exchange;
                                   w_input := ws_start gen_op_hdr_input gen_op_notes_input |}) Hin) as (e & He).
  rewrite He. eexists; reflexivity.
Qed.
End Tie.

(** ** the whole report *)
Definition prep (drop : bool) (s : fpass) : fpass := if drop then drop_orphans s else s.

Theorem open_positions_total_gen : forall drop lang i cs s,
  gen_op_names lang <> None -> gen_op_template (country_code (rp_country i)) lang <> None ->
  method_lookup_ok (rp_sched i) = true ->
  first_pass cs = Ok s -> fst (fp_total (prep drop s)) <> 0 -> Forall (asset_ok (prep drop s)) (fp_costs (prep drop s)) ->
  exists sheets, open_positions_gen drop lang i cs = Ok sheets /\ length sheets = 3%nat.
Proof.
  intros drop lang i cs s Hn Ht Hm Hf Htot Hok. unfold open_positions_gen.
  destruct (gen_op_names lang) as [[[n1 n2] n3]|]; [|congruence].
  destruct (gen_op_template (country_code (rp_country i)) lang) as [[[d1 d2] d3]|]; [|congruence].
  rewrite Hm. cbn [negb]. rewrite Hf. fold (prep drop s).
  rewrite (second_pass_spec i n3 (prep drop s) Htot Hok). eexists. split; reflexivity.
Qed.

(** the code as it is (no repair between the passes): every listed asset needs a counted balance *)
Theorem open_positions_total : forall lang i cs s,
  gen_op_names lang <> None -> gen_op_template (country_code (rp_country i)) lang <> None ->
  method_lookup_ok (rp_sched i) = true ->
  first_pass cs = Ok s -> fst (fp_total s) <> 0 ->
  (forall a c, nth_error cs a = Some c -> asset_listed c = true -> pos_balances c <> []) ->
  (forall ac, In ac (fp_costs s) -> exists k, unit_style (unit_of s ac) = Ok k) ->
  exists sheets, open_positions_gen false lang i cs = Ok sheets /\ length sheets = 3%nat.
Proof.
  intros lang i cs s Hn Ht Hm Hf Htot Hbal Hst.
  apply (open_positions_total_gen false lang i cs s Hn Ht Hm Hf Htot). cbn [prep].
  apply Forall_forall. intros ac Hin. destruct (costs_In cs s Hf ac Hin) as (c & _ & Hnth & Hl & _).
  destruct (asset_ok_of cs s Hf ac c Hin Hnth (Hbal _ _ Hnth Hl)) as (A1 & A2 & _ & _ & A5).
  unfold asset_ok. repeat split; auto. lia.
Qed.

Theorem open_positions_keyerror : forall lang i cs,
  (exists a c, nth_error cs a = Some c /\ asset_listed c = true /\ pos_balances c = []) ->
  exists e, open_positions_gen false lang i cs = Err e.
Proof.
  intros lang i cs Hbad. unfold open_positions_gen.
  destruct (gen_op_names lang) as [[[n1 n2] n3]|]; [|eexists; reflexivity].
  destruct (gen_op_template (country_code (rp_country i)) lang) as [[[d1 d2] d3]|]; [|eexists; reflexivity].
  destruct (negb (method_lookup_ok (rp_sched i))); [eexists; reflexivity|].
  destruct (first_pass cs) as [s|e] eqn:Hf; [|eexists; reflexivity].
  destruct (second_pass_keyerror i n3 cs s Hf Hbad) as (e & He). rewrite He. eexists; reflexivity.
Qed.

(** with the repair between the passes no asset without a counted balance reaches the second pass: both lookups succeed
    and the per-unit divisor is positive for every remaining asset *)
Theorem drop_orphans_lookups : forall cs s, first_pass cs = Ok s -> forall ac, In ac (fp_costs (drop_orphans s)) ->
  amem (fst ac) (fp_hbal (drop_orphans s)) = true /\ amem (fst ac) (fp_hebal (drop_orphans s)) = true /\
  0 < total_balance (hb_of (drop_orphans s) (fst ac)).
Proof.
  intros cs s Hf ac Hin. unfold drop_orphans in Hin. cbn [fp_costs] in Hin. apply filter_In in Hin. destruct Hin as [Hin Ho].
  unfold orphan in Ho. rewrite negb_involutive in Ho.
  destruct (costs_In cs s Hf ac Hin) as (c & _ & Hnth & Hl & _ & Hb & He).
  assert (Hp : pos_balances c <> []).
  { intros Hnil. unfold amem in Ho. rewrite Hb in Ho. unfold hbal_opt in Ho. rewrite Hnil in Ho. discriminate Ho. }
  destruct (asset_ok_of cs s Hf ac c Hin Hnth Hp) as (A1 & A2 & _ & _ & A5).
  unfold drop_orphans, hb_of. cbn [fp_hbal fp_hebal]. auto.
Qed.

(** the translated expressions are the ones the property speaks about *)
Lemma formulas_from_source :
  (forall l sold, gen_op_lot_cost l sold = dmul (i_fiat_in_with_fee l) (dsub (1, 0) sold)) /\
  (forall x, gen_op_lot_counts x = dgtb x dzero) /\
  (forall b, gen_op_balance_counts b = (b >? 0)) /\
  (forall cost total, gen_op_unit_cost cost total = ddiv cost (of_grid total)) /\
  (forall bal unit, gen_op_row_cost bal unit = dmul (of_grid bal) unit) /\
  (forall rc total, gen_op_weight rc total = ddiv rc total) /\
  gen_op_header_rows = 3 /\ gen_op_totals_need_more_than = 1.
Proof. repeat split; reflexivity. Qed.

(** the column tables put the figures where the sheet headers say *)
Lemma columns_from_source :
  map fst (filter (fun cv => match snd cv with OVAsset | OVHolder | OVExchange | OVBalance | OVUnit | OVCost | OVWeight => true | _ => false end) gen_op_row_asset)
    = [0; 1; 2; 3; 4; 5] /\
  map snd (firstn 6 gen_op_row_asset) = [OVAsset; OVHolder; OVBalance; OVUnit; OVCost; OVWeight] /\
  map snd (firstn 7 gen_op_row_asset_exchange) = [OVAsset; OVHolder; OVExchange; OVBalance; OVUnit; OVCost; OVWeight] /\
  map fst (firstn 7 gen_op_row_asset_exchange) = [0; 1; 2; 3; 4; 5; 6] /\
  NoDup (map fst gen_op_row_asset) /\ NoDup (map fst gen_op_row_asset_exchange).
Proof.
  repeat split; try reflexivity.
  - cbn. repeat constructor; cbn; intuition congruence.
  - cbn. repeat constructor; cbn; intuition congruence.
Qed.

(** * cells: what a data row's cells finally hold (nothing written later lands on them) *)
Lemma cell_key_inj r c r' c' : 0 <= c < 1024 -> 0 <= c' < 1024 -> cell_key r c = cell_key r' c' -> r = r' /\ c = c'.
Proof. unfold cell_key. intros H1 H2 H. split; lia. Qed.

Lemma final_cells_snoc ws w : final_cells (ws ++ [w]) = aset (cell_key (cw_row w) (cw_col w)) (cw_val w) (final_cells ws).
Proof. unfold final_cells. rewrite fold_left_app. reflexivity. Qed.

(** if every write to a cell carries the same payload (and there is one), that is the cell's final content *)
Lemma cell_at_unique : forall ws r c v, 0 <= c < 1024 ->
  Forall (fun w => 0 <= cw_col w < 1024) ws ->
  (exists w, In w ws /\ cw_row w = r /\ cw_col w = c) ->
  (forall w, In w ws -> cw_row w = r -> cw_col w = c -> cw_val w = v) ->
  cell_at ws r c = v.
Proof.
  intros ws r c v Hc. induction ws as [|w ws IH] using rev_ind; intros Hcols Hex Hall.
  - destruct Hex as (w & [] & _).
  - unfold cell_at. rewrite final_cells_snoc, aget_d_aset.
    apply Forall_app in Hcols. destruct Hcols as [Hcols Hw]. inversion Hw as [|? ? Hwc _]; subst.
    destruct (cell_key r c =? cell_key (cw_row w) (cw_col w)) eqn:E.
    + assert (Ek : cell_key r c = cell_key (cw_row w) (cw_col w)) by lia.
      apply cell_key_inj in Ek; [|exact Hc|exact Hwc]. destruct Ek as [Er Ec'].
      apply Hall; [apply in_or_app; right; left; reflexivity|symmetry; exact Er|symmetry; exact Ec'].
    + apply IH; [exact Hcols| |].
      * destruct Hex as (w0 & Hin & Hr & Hcc). apply in_app_or in Hin. destruct Hin as [Hin|[<-|[]]].
        { exists w0. auto. }
        { exfalso. subst r c. lia. }
      * intros w0 Hin. apply Hall. apply in_or_app. left. exact Hin.
Qed.

Definition tbl_disjoint (a b : list (Z * op_val)) : bool :=
  forallb (fun cv => negb (existsb (Z.eqb (fst cv)) (map fst b))) a.

Lemma fold_add_row_next {A} (f : A -> rowenv) tbl : forall (l : list A) w0,
  ws_next (fold_left (fun acc x => ws_add_row acc (f x) tbl) l w0) = ws_next w0 + Z.of_nat (length l).
Proof.
  induction l as [|x l IH]; intros w0; cbn [fold_left length]; [lia|]. rewrite IH. unfold ws_add_row, ws_add. cbn [ws_next]. lia.
Qed.
Lemma fold_add_row_writes {A} (f : A -> rowenv) tbl : forall (l : list A) w0 w',
  In w' (ws_writes (fold_left (fun acc x => ws_add_row acc (f x) tbl) l w0)) -> In w' (ws_writes w0) \/ ws_next w0 <= cw_row w'.
Proof.
  induction l as [|x l IH]; intros w0 w' H; cbn [fold_left] in H; [left; exact H|].
  apply IH in H. destruct H as [H|H].
  - unfold ws_add_row, ws_add in H. cbn [ws_writes] in H. apply in_app_or in H. destruct H as [H|H]; [left; exact H|right].
    unfold render_row in H. apply in_map_iff in H. destruct H as (cv & <- & _). cbn [cw cw_row with_row re_row]. lia.
  - right. unfold ws_add_row, ws_add in H. cbn [ws_next] in H. lia.
Qed.
Lemma fold_add_row_keeps {A} (f : A -> rowenv) tbl : forall (l : list A) w0 w',
  In w' (ws_writes w0) -> In w' (ws_writes (fold_left (fun acc x => ws_add_row acc (f x) tbl) l w0)).
Proof.
  induction l as [|x l IH]; intros w0 w' H; cbn [fold_left]; [exact H|]. apply IH.
  unfold ws_add_row, ws_add. cbn [ws_writes]. apply in_or_app. left. exact H.
Qed.

Section Cells.
Context (i : rinput) (inp : str) (s : fpass).
Context (h : list (bool * bool)) (notes : list (Z * Z)) (envs : list rowenv) (tbl pct tot grand : list (Z * op_val)) (ncols : Z).
Hypothesis ncols_small : ncols <= 1024.
Hypothesis Hh : hdr_ok ncols (header_writes h notes) = true.
Hypothesis Ht : tbl_cols_ok ncols tbl = true.
Hypothesis Hp : tbl_cols_ok ncols pct = true.
Hypothesis Hto : tbl_cols_ok ncols tot = true.
Hypothesis Hg : tbl_cols_ok ncols grand = true.
Hypothesis Hnd : NoDup (map fst tbl).
Hypothesis Hdis : tbl_disjoint tbl pct = true.

Definition body : wsheet := ws_add_rows (ws_start h notes) envs tbl.
Definition final_sheet : wsheet := total_rows i inp s (pct_writes inp body pct) tot grand.
Definition data_part : list cellw :=
  flat_map (fun ke => render_row (with_row (snd ke) (fst ke)) tbl) (number_from gen_op_header_rows envs).

Lemma body_facts : ws_next body = gen_op_header_rows + Z.of_nat (length envs) /\ ws_writes body = header_writes h notes ++ data_part.
Proof.
  unfold body. destruct (ws_add_rows_spec tbl envs (ws_start h notes)) as (H1 & _ & H3). split; [exact H1|exact H3].
Qed.

Lemma number_from_In {A} : forall (l : list A) k j x, In (j, x) (number_from k l) <-> k <= j /\ nth_error l (Z.to_nat (j - k)) = Some x.
Proof.
  induction l as [|y l IH]; intros k j x; cbn [number_from In].
  - split; [intros []|]. intros [_ H]. destruct (Z.to_nat (j - k)); discriminate H.
  - rewrite IH. split.
    + intros [H|[H1 H2]].
      * injection H as <- <-. rewrite Z.sub_diag. cbn. split; [lia|reflexivity].
      * split; [lia|]. replace (Z.to_nat (j - k)) with (S (Z.to_nat (j - (k + 1)))) by lia. exact H2.
    + intros [H1 H2]. destruct (Z.eq_dec j k) as [->|NE].
      * rewrite Z.sub_diag in H2. cbn in H2. injection H2 as <-. left. reflexivity.
      * right. split; [lia|]. replace (Z.to_nat (j - k)) with (S (Z.to_nat (j - (k + 1)))) in H2 by lia. exact H2.
Qed.

Lemma final_classify w' : In w' (ws_writes final_sheet) ->
  In w' (header_writes h notes) \/ In w' data_part \/
  (In (cw_col w') (map fst pct) /\ gen_op_header_rows <= cw_row w') \/
  gen_op_header_rows + Z.of_nat (length envs) <= cw_row w'.
Proof.
  destruct body_facts as [Hn Hw]. unfold final_sheet, total_rows. intros H.
  set (p := pct_writes inp body pct) in *.
  assert (Hpn : ws_next p = ws_next body) by reflexivity.
  assert (Hcls : In w' (ws_writes p) \/ ws_next p <= cw_row w').
  { unfold ws_add_row at 1, ws_add in H. cbn [ws_writes] in H. apply in_app_or in H. destruct H as [H|H].
    - destruct (gen_op_totals_need_more_than <? Z.of_nat (length (fp_holders s))); [|left; exact H].
      apply fold_add_row_writes in H. exact H.
    - right. unfold render_row in H. apply in_map_iff in H. destruct H as (cv & <- & _). cbn [cw cw_row with_row re_row].
      destruct (gen_op_totals_need_more_than <? Z.of_nat (length (fp_holders s))); [|lia].
      rewrite fold_add_row_next. lia. }
  destruct Hcls as [Hin|Hrow]; [|right; right; right; lia].
  unfold p, pct_writes, ws_write in Hin. cbn [ws_writes] in Hin. apply in_app_or in Hin. destruct Hin as [Hin|Hin].
  - rewrite Hw in Hin. apply in_app_or in Hin. destruct Hin; auto.
  - right. right. left. apply in_flat_map in Hin. destruct Hin as (r & Hr & Hin). apply data_rows_range in Hr.
    unfold render_row in Hin. apply in_map_iff in Hin. destruct Hin as (cv & <- & Hcv). cbn [cw cw_row cw_col env0 re_row].
    split; [apply in_map; exact Hcv|lia].
Qed.

Theorem data_cell : forall k e col v, nth_error envs k = Some e -> In (col, v) tbl ->
  cell_at (ws_writes final_sheet) (gen_op_header_rows + Z.of_nat k) col = render_val (with_row e (gen_op_header_rows + Z.of_nat k)) v.
Proof.
  intros k e col v Hk Hcv. set (r := gen_op_header_rows + Z.of_nat k).
  assert (Hcol : 0 <= col < ncols).
  { unfold tbl_cols_ok in Ht. rewrite forallb_forall in Ht. specialize (Ht _ Hcv). cbn [fst] in Ht. lia. }
  assert (Hkn : (k < length envs)%nat) by (apply nth_error_Some; congruence).
  assert (Hinv : ws_inv ncols final_sheet).
  { unfold final_sheet. apply total_rows_inv; [exact Hto|exact Hg|]. apply pct_writes_inv; [exact Hp|].
    unfold body. apply ws_add_rows_inv; [exact Ht|]. apply ws_start_inv. exact Hh. }
  destruct Hinv as (_ & _ & Hcells).
  apply cell_at_unique.
  - lia.
  - eapply Forall_impl; [|exact Hcells]. unfold cell_in. intros w [_ Hc]. lia.
  - exists (cw r col (render_val (with_row e r) v)). cbn [cw_row cw_col]. split; [|auto].
    destruct body_facts as [Hn Hw].
    assert (Hd : In (cw r col (render_val (with_row e r) v)) data_part).
    { unfold data_part. apply in_flat_map. exists (r, e). split.
      - apply number_from_In. split; [unfold r; lia|]. unfold r. replace (Z.to_nat (gen_op_header_rows + Z.of_nat k - gen_op_header_rows)) with k by lia. exact Hk.
      - cbn [fst snd]. unfold render_row. apply in_map_iff. exists (col, v). split; [reflexivity|exact Hcv]. }
    unfold final_sheet, total_rows, ws_add_row, ws_add. cbn [ws_writes]. apply in_or_app. left.
    assert (Hb : In (cw r col (render_val (with_row e r) v)) (ws_writes (pct_writes inp body pct))).
    { unfold pct_writes, ws_write. cbn [ws_writes]. apply in_or_app. left. rewrite Hw. apply in_or_app. right. exact Hd. }
    destruct (gen_op_totals_need_more_than <? Z.of_nat (length (fp_holders s))); [|exact Hb].
    apply fold_add_row_keeps. exact Hb.
  - intros w' Hin Hr Hc. apply final_classify in Hin. destruct Hin as [Hin|[Hin|[[Hin _]|Hin]]].
    + exfalso. unfold hdr_ok in Hh. rewrite forallb_forall in Hh. specialize (Hh _ Hin). unfold r in Hr. lia.
    + unfold data_part in Hin. apply in_flat_map in Hin. destruct Hin as ([j e'] & Hje & Hin). cbn [fst snd] in Hin.
      unfold render_row in Hin. apply in_map_iff in Hin. destruct Hin as ([col' v'] & <- & Hcv'). cbn [cw cw_row cw_col cw_val fst snd with_row re_row] in *.
      apply number_from_In in Hje. destruct Hje as [Hj1 Hj2]. subst j col'.
      unfold r in Hj2. replace (Z.to_nat (gen_op_header_rows + Z.of_nat k - gen_op_header_rows)) with k in Hj2 by lia.
      assert (e' = e) by congruence. subst e'.
      assert (v' = v).
      { clear -Hnd Hcv Hcv'. induction tbl as [|[c0 v0] t IH]; [destruct Hcv|]. cbn [map fst] in Hnd. inversion Hnd as [|? ? Hni Hnd']; subst.
        destruct Hcv as [E|Hcv], Hcv' as [E'|Hcv'].
        - congruence.
        - injection E as -> ->. exfalso. apply Hni. change col with (fst (col, v')). apply in_map. exact Hcv'.
        - injection E' as -> ->. exfalso. apply Hni. change col with (fst (col, v)). apply in_map. exact Hcv.
        - apply IH; assumption. }
      subst v'. reflexivity.
    + exfalso. unfold tbl_disjoint in Hdis. rewrite forallb_forall in Hdis. specialize (Hdis _ Hcv). cbn [fst] in Hdis.
      apply negb_true_iff in Hdis. assert (existsb (Z.eqb col) (map fst pct) = true); [|congruence].
      apply existsb_exists. exists (cw_col w'). split; [exact Hin|lia].
    + exfalso. unfold r in Hr. lia.
Qed.
End Cells.

(** the Asset and Asset - Exchange sheets of the report: cells of the k-th data row *)
Lemma sheet_tables_ok :
  NoDup (map fst gen_op_row_asset) /\ NoDup (map fst gen_op_row_asset_exchange) /\
  tbl_disjoint gen_op_row_asset gen_op_pct_asset = true /\ tbl_disjoint gen_op_row_asset_exchange gen_op_pct_asset_exchange = true.
Proof.
  split; [|split; [|split; vm_compute; reflexivity]].
  - cbn. repeat constructor; cbn; intuition congruence.
  - cbn. repeat constructor; cbn; intuition congruence.
Qed.

Theorem asset_sheet_cells : forall i inp s k e col v,
  nth_error (flat_map (holder_envs_of i inp s) (fp_costs s)) k = Some e -> In (col, v) gen_op_row_asset ->
  cell_at (ws_writes (total_rows i inp s (pct_writes inp (asset_sheet_body i inp s) gen_op_pct_asset) gen_op_total_asset gen_op_grand_asset))
          (gen_op_header_rows + Z.of_nat k) col
  = render_val (with_row e (gen_op_header_rows + Z.of_nat k)) v.
Proof.
  intros i inp s k e col v Hk Hcv.
  destruct tables_fit as (T1 & T2 & T3 & T4 & _ & _ & _ & _ & _ & T10 & _).
  destruct sheet_tables_ok as (N1 & _ & D1 & _).
  apply (data_cell i inp s gen_op_hdr_asset gen_op_notes_asset _ gen_op_row_asset gen_op_pct_asset gen_op_total_asset gen_op_grand_asset 13);
    try assumption. lia.
Qed.

Theorem exch_sheet_cells : forall i inp s k e col v,
  nth_error (flat_map (exch_envs_of i inp s) (fp_costs s)) k = Some e -> In (col, v) gen_op_row_asset_exchange ->
  cell_at (ws_writes (total_rows i inp s (pct_writes inp (exch_sheet_body i inp s) gen_op_pct_asset_exchange)
                        gen_op_total_asset_exchange gen_op_grand_asset_exchange))
          (gen_op_header_rows + Z.of_nat k) col
  = render_val (with_row e (gen_op_header_rows + Z.of_nat k)) v.
Proof.
  intros i inp s k e col v Hk Hcv.
  destruct tables_fit as (_ & _ & _ & _ & T5 & T6 & T7 & T8 & _ & _ & T11 & _).
  destruct sheet_tables_ok as (_ & N2 & _ & D2).
  apply (data_cell i inp s gen_op_hdr_asset_exchange gen_op_notes_asset_exchange _ gen_op_row_asset_exchange gen_op_pct_asset_exchange
           gen_op_total_asset_exchange gen_op_grand_asset_exchange 14); try assumption. lia.
Qed.

(** in particular the crypto-balance cell of a holder row holds that holder's balance from the table *)
Corollary asset_sheet_balance_cell : forall i inp s k e,
  nth_error (flat_map (holder_envs_of i inp s) (fp_costs s)) k = Some e ->
  cell_at (ws_writes (total_rows i inp s (pct_writes inp (asset_sheet_body i inp s) gen_op_pct_asset) gen_op_total_asset gen_op_grand_asset))
          (gen_op_header_rows + Z.of_nat k) 2 = PNum (of_grid (re_bal e)).
Proof.
  intros i inp s k e Hk. rewrite (asset_sheet_cells i inp s k e 2 OVBalance Hk); [reflexivity|]. cbn. tauto.
Qed.
