(** Full report model, the parts the first rounds left open:
    1. capacity of the Legend and of the Summary sheet (every sheet of a produced report passes [sheet_ok]; the Summary
       sheet has the template's rows plus one appended row per yearly line);
    2. the ABSOLUTE position of the Summary lines: the k-th yearly line of the j-th asset is written at row
       header height + (yearly lines of the assets before it) + k, once, with its figures and its link;
    3. one statement collecting the per-table theorems: every in / out / intra transaction, yearly line, balance, holder
       total and fraction of the window (and every Summary line) has its own row, rows of different items differ, and
       -- converse, from the model's write lists -- every write of a sheet either lies on one of the explicitly listed
       static rows (titles, headers, average price block) or is a cell of exactly one item's row. *)
From RP2V Require Import Base.Prelude Base.Time Base.Dec Base.Sorting Base.Assoc Model.Types Model.Generated Model.Txn
  Model.Matcher Model.Pipeline Model.Computed Model.Grid Model.ReportInput Model.FullReport Proofs.AssocProofs
  Proofs.FullReportLayout Proofs.FullReportProofs Proofs.FullReportCompute Proofs.FullReportCapacity Proofs.FullReportWitness
  Proofs.FullReportTotal.
Open Scope Z_scope.

(** ---------- 1. capacity of Legend and Summary *)
(** yearly lines of a list of assets = rows appended to the Summary sheet for them *)
Fixpoint total_lines (xs : list actx) : Z :=
  match xs with [] => 0 | x :: t => Z.of_nat (length (cd_yearly (ac_c x))) + total_lines t end.
Definition lines_before (xs : list actx) (j : nat) : Z := total_lines (firstn j xs).

Lemma total_lines_flat xs : total_lines xs = Z.of_nat (length (flat_map (fun x => cd_yearly (ac_c x)) xs)).
Proof. induction xs as [|x t IH]; cbn [total_lines flat_map]; [reflexivity|]. rewrite app_length, Nat2Z.inj_add, IH. reflexivity. Qed.
Lemma total_lines_nonneg xs : 0 <= total_lines xs.
Proof. induction xs as [|x t IH]; cbn [total_lines]; lia. Qed.
Lemma lines_before_nonneg xs j : 0 <= lines_before xs j.
Proof. apply total_lines_nonneg. Qed.
Lemma lines_before_0 xs : lines_before xs 0 = 0.
Proof. reflexivity. Qed.
Lemma lines_before_S x xs j : lines_before (x :: xs) (S j) = Z.of_nat (length (cd_yearly (ac_c x))) + lines_before xs j.
Proof. reflexivity. Qed.
Lemma lines_before_le_total : forall xs j, lines_before xs j <= total_lines xs.
Proof.
  induction xs as [|x t IH]; intros [|j]; unfold lines_before; cbn [firstn total_lines]; try lia.
  - pose proof (total_lines_nonneg t). lia.
  - specialize (IH j). unfold lines_before in IH. lia.
Qed.
(** the rows of asset j end where (at the latest) those of any later asset begin *)
Lemma lines_before_lt : forall xs j j' x, nth_error xs j = Some x -> (j < j')%nat ->
  lines_before xs j + Z.of_nat (length (cd_yearly (ac_c x))) <= lines_before xs j'.
Proof.
  induction xs as [|x0 t IH]; intros j j' x Hn Hlt; [destruct j; discriminate|].
  destruct j' as [|j']; [lia|]. destruct j as [|j]; cbn [nth_error] in Hn.
  - inversion Hn; subst x0. rewrite lines_before_0, lines_before_S. pose proof (lines_before_nonneg t j'). lia.
  - rewrite !lines_before_S. specialize (IH j j' x Hn). lia.
Qed.
Lemma lines_before_end : forall xs j x, nth_error xs j = Some x ->
  lines_before xs j + Z.of_nat (length (cd_yearly (ac_c x))) <= total_lines xs.
Proof.
  induction xs as [|x0 t IH]; intros j x Hn; [destruct j; discriminate|]. destruct j as [|j]; cbn [nth_error] in Hn.
  - inversion Hn; subst x0. rewrite lines_before_0. cbn [total_lines]. pose proof (total_lines_nonneg t). lia.
  - rewrite lines_before_S. cbn [total_lines]. specialize (IH j x Hn). lia.
Qed.

Lemma in_cap_mono rows rows' cols w : rows <= rows' -> in_cap rows cols w = true -> in_cap rows' cols w = true.
Proof.
  unfold in_cap. intros Hle H. apply andb_true_iff in H as [H H4]. apply andb_true_iff in H as [H H3]. apply andb_true_iff in H as [H1 H2].
  rewrite H1, H3, H4. apply Z.ltb_lt in H2. replace (cw_row w <? rows') with true by (symmetry; apply Z.ltb_lt; lia). reflexivity.
Qed.
Lemma sheet_ok_in_cap n rows cols ws : sheet_ok {| sw_name := n; sw_rows := rows; sw_cols := cols; sw_writes := ws |} = forallb (in_cap rows cols) ws.
Proof. reflexivity. Qed.

Section Capacity.
Variables (fl : fflags) (env : fenv) (inp : rinput).

(** the Summary capacity grows by the number of yearly lines of every asset ([append_rows]); what was inside stays inside,
    what is added was checked against the grown capacity *)
Lemma gen_assets_summary : forall l aidx ex st st', gen_assets fl env inp aidx l ex st = ROk st' ->
  gs_scap st' = gs_scap st + total_lines (actxs aidx l ex) /\
  (forallb (in_cap (gs_scap st) (fe_summary_cols env)) (gs_sum st) = true ->
   forallb (in_cap (gs_scap st') (fe_summary_cols env)) (gs_sum st') = true).
Proof.
  induction l as [|[a c] rest IH]; intros aidx ex st st' H; cbn [gen_assets] in H.
  - inversion H; subst. cbn [actxs total_lines]. split; [lia|auto].
  - set (x := {| ac_idx := aidx; ac_name := ra_name a; ac_txs := ra_txs a; ac_c := c; ac_extra := hd [] ex |}) in *.
    destruct (gen_asset fl env inp x st) as [st1| | |e] eqn:E; try discriminate.
    destruct (IH _ _ _ _ H) as [A B]. clear IH H.
    unfold gen_asset in E.
    destruct (sheet_ok (inout_sheet env inp x)); cbn [negb] in E; [|discriminate].
    destruct (sheet_ok (tax_sheet env inp x (lm_after fl x (gs_lm st)))); cbn [negb] in E; [|discriminate].
    destruct (summary_key_error fl x (ym_of inp x)); [discriminate|].
    destruct (forallb _ (summary_writes env x (ym_of inp x) (gs_srow st))) eqn:S3; cbn [negb] in E; [|discriminate].
    inversion E; subst st1; clear E. cbn [gs_scap gs_sum] in A, B.
    cbn [actxs]. fold x. cbn [total_lines]. change (ac_c x) with c in *. split; [lia|].
    intros H0. apply B. rewrite forallb_app. apply andb_true_iff. split; [|exact S3]. apply forallb_forall. intros w Hw.
    rewrite forallb_forall in H0. apply (in_cap_mono (gs_scap st)); [lia|exact (H0 w Hw)].
Qed.

(** shape of a successful run, with the size of the Summary sheet made explicit, and: EVERY sheet of the report passes
    [sheet_ok] -- the Legend page and its three variable cells lie inside the template's Legend sheet, the Summary header
    and every Summary line inside the Summary sheet as sized by the template + the [append_rows] calls, and (as before) every
    In-Out / Tax sheet inside its own size *)
Theorem full_report_sheets_ok sheets : full_report fl env inp = ROk sheets ->
  exists acs methods, computed_all inp (rp_assets inp) = Ok acs /\ legend_methods fl (rp_sched inp) = ROk methods /\
    let xs := actxs 0 acs (fe_extra env) in
    sheets = {| sw_name := tr env gen_full_msg_legend; sw_rows := fe_legend_rows env; sw_cols := fe_legend_cols env;
                sw_writes := legend_writes inp methods |}
             :: {| sw_name := tr env gen_full_msg_summary; sw_rows := fe_summary_rows env + total_lines xs; sw_cols := fe_summary_cols env;
                   sw_writes := fst (fill_header 0 gen_full_hdr_sum) ++ summary_all env inp gen_header_height xs |}
             :: sheets_from fl env inp [] xs
    /\ Forall (fun s => sheet_ok s = true) sheets.
Proof.
  unfold full_report. intro H.
  destruct (computed_all inp (rp_assets inp)) as [acs|e] eqn:EC; [|discriminate].
  destruct (legend_methods fl (rp_sched inp)) as [methods| | |e] eqn:EM; try discriminate.
  destruct (forallb _ (legend_writes inp methods)) eqn:L1; cbn [negb] in H; [|discriminate].
  destruct (fill_header 0 gen_full_hdr_sum) as [hw srow] eqn:EH.
  destruct (forallb _ hw) eqn:L2; cbn [negb] in H; [|discriminate].
  destruct (gen_assets fl env inp 0 acs (fe_extra env) _) as [st| | |e] eqn:EG; try discriminate.
  inversion H; subst sheets; clear H.
  destruct (gen_assets_shape _ _ _ _ _ _ _ _ EG) as (A & B & C). cbn [gs_sheets gs_sum gs_lm gs_srow app] in A, B, C.
  destruct (gen_assets_summary _ _ _ _ _ EG) as (D & F). cbn [gs_scap gs_sum] in D, F. specialize (F L2).
  exists acs, methods. split; [reflexivity|]. split; [reflexivity|]. cbv zeta.
  assert (srow = gen_header_height) as -> by (pose proof (fill_header_snd 0 gen_full_hdr_sum) as X; rewrite EH in X; simpl in X; lia).
  cbn [fst]. rewrite A, B, D. split; [reflexivity|].
  constructor; [rewrite sheet_ok_in_cap; exact L1|]. constructor; [|exact C].
  rewrite sheet_ok_in_cap. rewrite <- D, <- B. exact F.
Qed.
End Capacity.

(** composed with the totality proof (Proofs/FullReportTotal.v, the invariant [sum_inv]: next Summary row <= capacity): for
    ComputedData of every asset, a template that holds the input-independent cells and at most [max_holders] holders with a
    balance the report IS produced and no write of it -- Legend and Summary included -- leaves its sheet *)
Theorem full_report_total_within env inp acs : fenv_fits env = true ->
  computed_all inp (rp_assets inp) = Ok acs ->
  (forall ac, In ac acs -> Z.of_nat (length (holder_totals inp (cd_balances (snd ac)))) <= max_holders) ->
  exists sheets, full_report code_flags env inp = ROk sheets /\ Forall (fun s => sheet_ok s = true) sheets /\
    exists legend summary rest, sheets = legend :: summary :: rest /\
      sw_rows legend = fe_legend_rows env /\ sw_cols legend = fe_legend_cols env /\
      sw_rows summary = fe_summary_rows env + total_lines (actxs 0 acs (fe_extra env)) /\ sw_cols summary = fe_summary_cols env.
Proof.
  intros Hf HC HH. destruct (full_report_total env inp Hf acs HC HH) as (sheets & E). exists sheets. split; [exact E|].
  destruct (full_report_sheets_ok code_flags env inp sheets E) as (acs' & m & HC' & _ & S & F).
  rewrite HC in HC'. inversion HC'; subst acs'. split; [exact F|]. do 3 eexists. split; [exact S|]. repeat split.
Qed.

(** ---------- 2. absolute position of the Summary lines *)
Section SummaryPos.
Variables (env : fenv) (inp : rinput).

Lemma summary_writes_box x ym r :
  box r (r + Z.of_nat (length (cd_yearly (ac_c x)))) 0 gen_full_max_columns (summary_writes env x ym r).
Proof. unfold summary_writes. apply table_rows_box. intros _ _. exact (proj2 cols_sum_ok). Qed.

Lemma summary_all_box : forall xs r, box r (r + total_lines xs) 0 gen_full_max_columns (summary_all env inp r xs).
Proof.
  induction xs as [|x t IH]; intros r; cbn [summary_all total_lines]; [constructor|].
  pose proof (total_lines_nonneg t). apply box_app.
  - eapply box_weaken; [apply summary_writes_box| | | |]; lia.
  - eapply box_weaken; [apply IH| | | |]; lia.
Qed.

(** the k-th yearly line of the j-th asset: written once, at offset (lines of the earlier assets) + k *)
Lemma summary_all_at : forall xs r j x k y col lk f,
  nth_error xs j = Some x -> nth_error (cd_yearly (ac_c x)) k = Some y -> In (col, lk, f) gen_full_cols_sum ->
  writes_at (summary_all env inp r xs) (r + lines_before xs j + Z.of_nat k) col
  = [cw (r + lines_before xs j + Z.of_nat k) col (summary_field env x (ym_of inp x) k y lk f)].
Proof.
  induction xs as [|x0 t IH]; intros r j x k y col lk f Hj Hk Hin; [destruct j; discriminate|].
  assert (Hkl : Z.of_nat k < Z.of_nat (length (cd_yearly (ac_c x)))) by (apply Nat2Z.inj_lt; apply nth_error_Some; congruence).
  cbn [summary_all]. rewrite writes_at_app. destruct j as [|j]; cbn [nth_error] in Hj.
  - inversion Hj; subst x0. rewrite lines_before_0, Z.add_0_r.
    rewrite (summary_line_at env x (ym_of inp x) r k y col lk f Hk Hin).
    rewrite (writes_at_outside _ _ _ _ _ _ _ (summary_all_box t (r + Z.of_nat (length (cd_yearly (ac_c x)))))) by lia. reflexivity.
  - rewrite lines_before_S. pose proof (lines_before_nonneg t j).
    rewrite (writes_at_outside _ _ _ _ _ _ _ (summary_writes_box x0 (ym_of inp x0) r)) by lia. cbn [app].
    replace (r + (Z.of_nat (length (cd_yearly (ac_c x0))) + lines_before t j) + Z.of_nat k)
      with (r + Z.of_nat (length (cd_yearly (ac_c x0))) + lines_before t j + Z.of_nat k) by lia.
    apply IH; assumption.
Qed.

Definition summary_sheet_writes (xs : list actx) : list cellw :=
  fst (fill_header 0 gen_full_hdr_sum) ++ summary_all env inp gen_header_height xs.

Lemma summary_header_box : box 0 gen_header_height 0 gen_full_max_columns (fst (fill_header 0 gen_full_hdr_sum)).
Proof. exact (fill_header_box 0 gen_full_hdr_sum hdr_sum_ok max_cols_pos). Qed.

(** all Summary writes lie in rows [0, header height + number of yearly lines of all assets) *)
Lemma summary_sheet_box xs : box 0 (gen_header_height + total_lines xs) 0 gen_full_max_columns (summary_sheet_writes xs).
Proof.
  unfold summary_sheet_writes. pose proof (total_lines_nonneg xs). pose proof header_height_pos. apply box_app.
  - eapply box_weaken; [exact summary_header_box| | | |]; lia.
  - eapply box_weaken; [apply summary_all_box| | | |]; lia.
Qed.

Theorem summary_line_absolute xs j x k y col lk f :
  nth_error xs j = Some x -> nth_error (cd_yearly (ac_c x)) k = Some y -> In (col, lk, f) gen_full_cols_sum ->
  writes_at (summary_sheet_writes xs) (gen_header_height + lines_before xs j + Z.of_nat k) col
  = [cw (gen_header_height + lines_before xs j + Z.of_nat k) col (summary_field env x (ym_of inp x) k y lk f)].
Proof.
  intros Hj Hk Hin. unfold summary_sheet_writes. rewrite writes_at_app.
  pose proof (lines_before_nonneg xs j).
  rewrite (writes_at_outside _ _ _ _ _ _ _ summary_header_box) by lia. cbn [app].
  apply summary_all_at; assumption.
Qed.

(** ... and what the cell holds: the line's figure; linked (C19) to the first detail row of the line's year in the asset's
    Tax sheet, or plain when no fraction of that year is shown.  Every Summary column is a link column. *)
Lemma cols_sum_all_links col lk f : In (col, lk, f) gen_full_cols_sum -> lk = L_summary.
Proof.
  intro H. assert (F : Forall (fun x : fcol => snd (fst x) = L_summary) gen_full_cols_sum) by (repeat constructor).
  rewrite Forall_forall in F. exact (F _ H).
Qed.

Theorem summary_line_absolute_linked xs j x k y col lk f :
  nth_error xs j = Some x -> nth_error (cd_yearly (ac_c x)) k = Some y -> In (col, lk, f) gen_full_cols_sum ->
  nondecr 1 (map g_year (cd_gls (ac_c x))) -> 0 < y_year y ->
  writes_at (summary_sheet_writes xs) (gen_header_height + lines_before xs j + Z.of_nat k) col
  = [cw (gen_header_height + lines_before xs j + Z.of_nat k) col
        (match first_idx (y_year y) (map g_year (cd_gls (ac_c x))) with
         | Some i => PLink (tax_name env (ac_name x)) (tl_det (tax_layout_of inp x) + Z.of_nat i + 1) (summary_field env x [] k y L_none f)
         | None => summary_field env x [] k y L_none f
         end)].
Proof.
  intros Hj Hk Hin Hy Hpos. rewrite (summary_line_absolute xs j x k y col lk f Hj Hk Hin).
  rewrite (cols_sum_all_links _ _ _ Hin). rewrite (summary_link env inp x Hy k y f Hpos). reflexivity.
Qed.

Lemma summary_figures x k y :
  summary_field env x [] k y L_none F_y_year = PInt (y_year y) /\
  summary_field env x [] k y L_none F_asset = PStr (ac_name x) /\
  summary_field env x [] k y L_none F_y_gain = PNum (y_gain y) /\
  summary_field env x [] k y L_none F_cap_type = cap_type env (y_long y) /\
  summary_field env x [] k y L_none F_y_type = PStr (type_text env (y_type y)) /\
  summary_field env x [] k y L_none F_y_crypto = PNum (of_grid (y_crypto y)) /\
  summary_field env x [] k y L_none F_y_fiat = PNum (y_fiat y) /\
  summary_field env x [] k y L_none F_y_cost = PNum (y_cost y).
Proof. repeat split. Qed.
End SummaryPos.

(** different (asset, line) pairs have different Summary rows: the row ranges of different assets are disjoint *)
Theorem summary_rows_injective xs j x k j' x' k' :
  nth_error xs j = Some x -> (k < length (cd_yearly (ac_c x)))%nat ->
  nth_error xs j' = Some x' -> (k' < length (cd_yearly (ac_c x')))%nat ->
  lines_before xs j + Z.of_nat k = lines_before xs j' + Z.of_nat k' -> j = j' /\ k = k'.
Proof.
  intros Hj Hk Hj' Hk' E.
  destruct (Nat.lt_trichotomy j j') as [L|[L|L]].
  - pose proof (lines_before_lt xs j j' x Hj L). lia.
  - subst j'. split; [reflexivity|lia].
  - pose proof (lines_before_lt xs j' j x' Hj' L). lia.
Qed.
Theorem summary_rows_of_assets_disjoint xs j x k j' x' k' :
  nth_error xs j = Some x -> (k < length (cd_yearly (ac_c x)))%nat ->
  nth_error xs j' = Some x' -> (k' < length (cd_yearly (ac_c x')))%nat -> j <> j' ->
  lines_before xs j + Z.of_nat k <> lines_before xs j' + Z.of_nat k'.
Proof. intros Hj Hk Hj' Hk' Hne E. destruct (summary_rows_injective xs j x k j' x' k' Hj Hk Hj' Hk' E). contradiction. Qed.

(** the contexts follow the assets of the input, in the input's order (the run hands them over sorted by name) *)
Lemma actxs_names : forall acs aidx ex, map ac_name (actxs aidx acs ex) = map (fun ac => ra_name (fst ac)) acs.
Proof. induction acs as [|[a c] t IH]; intros aidx ex; cbn [actxs map ac_name fst]; [reflexivity|]. rewrite IH. reflexivity. Qed.
Lemma actxs_computed : forall acs aidx ex, map ac_c (actxs aidx acs ex) = map snd acs.
Proof. induction acs as [|[a c] t IH]; intros aidx ex; cbn [actxs map ac_c snd]; [reflexivity|]. rewrite IH. reflexivity. Qed.

(** on the report: the Summary sheet is the second sheet; its lines are at the absolute rows above *)
Theorem report_summary_lines fl env inp sheets : full_report fl env inp = ROk sheets ->
  exists acs ssum, computed_all inp (rp_assets inp) = Ok acs /\ nth_error sheets 1 = Some ssum /\
    sw_name ssum = tr env gen_full_msg_summary /\
    let xs := actxs 0 acs (fe_extra env) in
    map ac_name xs = map ra_name (rp_assets inp) /\
    sw_rows ssum = fe_summary_rows env + total_lines xs /\
    box 0 (gen_header_height + total_lines xs) 0 gen_full_max_columns (sw_writes ssum) /\
    forall j x k y col lk f,
      nth_error xs j = Some x -> nth_error (cd_yearly (ac_c x)) k = Some y -> In (col, lk, f) gen_full_cols_sum ->
      writes_at (sw_writes ssum) (gen_header_height + lines_before xs j + Z.of_nat k) col
      = [cw (gen_header_height + lines_before xs j + Z.of_nat k) col (summary_field env x (ym_of inp x) k y lk f)].
Proof.
  intros H. destruct (full_report_sheets_ok fl env inp sheets H) as (acs & m & HC & _ & S & _). cbv zeta in S.
  exists acs. eexists. split; [exact HC|]. split; [rewrite S; reflexivity|]. split; [reflexivity|]. cbv zeta. cbn [sw_rows sw_writes].
  split; [|split; [reflexivity|split]].
  - rewrite actxs_names. destruct (computed_all_split inp _ _ HC) as [Hm _]. rewrite <- Hm, map_map. reflexivity.
  - apply summary_sheet_box.
  - intros j x k y col lk f. apply summary_line_absolute.
Qed.

(** ---------- 3. every item of the window has its own row, and nothing else is written *)
Inductive sheet_id := SLegend | SSummary | SInOut (j : nat) | STax (j : nat).
Definition sheet_index (s : sheet_id) : nat :=
  match s with SLegend => 0 | SSummary => 1 | SInOut j => 2 + 2 * j | STax j => 3 + 2 * j end.

Lemma sheet_index_onto n : exists sid, sheet_index sid = n.
Proof.
  destruct n as [|[|n]]; [exists SLegend; reflexivity|exists SSummary; reflexivity|].
  destruct (Nat.Even_or_Odd n) as [[q Hq]|[q Hq]]; [exists (SInOut q)|exists (STax q)]; cbn [sheet_index]; lia.
Qed.
Lemma sheet_index_inj a b : sheet_index a = sheet_index b -> a = b.
Proof. destruct a, b; cbn [sheet_index]; intro H; try lia; try reflexivity; f_equal; lia. Qed.

Inductive wkind := KIn | KOut | KIntra | KYearly | KBalance | KTotal | KFraction | KSummary.
(** item = (what, index of the asset, index within that asset's list as ComputedData holds it: window, time order) *)
Inductive witem := WItem (kd : wkind) (j i : nat).

Section Items.
Variables (fl : fflags) (env : fenv) (inp : rinput).

(** where the item is written and what its row holds: sheet, (0-based) row, the cells of the row *)
Definition item_row_cells (xs : list actx) (it : witem) : option (sheet_id * Z * list cellw) :=
  let '(WItem kd j i) := it in
  match nth_error xs j with
  | None => None
  | Some x =>
    let c := ac_c x in let IL := inout_rows_of c in let TL := tax_layout_of inp x in
    let lm := lm_after fl x [] in
    let n := Z.of_nat i in
    match kd with
    | KIn => option_map (fun t => (SInOut j, il_in IL + n, row_cells (il_in IL + n) gen_full_cols_in (in_field env inp x i t))) (nth_error (cd_ins c) i)
    | KOut => option_map (fun t => (SInOut j, il_out IL + n, row_cells (il_out IL + n) gen_full_cols_out (out_field env inp x i t))) (nth_error (cd_outs c) i)
    | KIntra => option_map (fun t => (SInOut j, il_intra IL + n, row_cells (il_intra IL + n) gen_full_cols_intra (intra_field env inp x i t))) (nth_error (cd_intras c) i)
    | KYearly => option_map (fun y => (STax j, tl_gls TL + n, row_cells (tl_gls TL + n) gen_full_cols_gls (yearly_field env x i y))) (nth_error (cd_yearly c) i)
    | KBalance => option_map (fun b => (STax j, tl_bal TL + n, row_cells (tl_bal TL + n) gen_full_cols_bal (bal_field inp x i b))) (nth_error (cd_balances c) i)
    | KTotal => option_map (fun t => (STax j, tl_tot TL + n, row_cells (tl_tot TL + n) gen_full_cols_tot (total_field inp x i t)))
                           (nth_error (holder_totals inp (cd_balances c)) i)
    | KFraction => option_map (fun d => (STax j, tl_det TL + n, row_cells (tl_det TL + n) (det_cols d) (det_field env inp x lm i d))) (nth_error (drows c) i)
    | KSummary => option_map (fun y => (SSummary, gen_header_height + lines_before xs j + n,
                                        row_cells (gen_header_height + lines_before xs j + n) gen_full_cols_sum (summary_field env x (ym_of inp x) i y)))
                             (nth_error (cd_yearly c) i)
    end
  end.

(** rows that carry no item: the title + two header rows above every table, the block of the average price; on the
    Summary sheet the header.  (The Legend has no items.) *)
Definition in_rng (a b r : Z) : bool := (a <=? r) && (r <? b).
Definition hdr_rng (first_data_row r : Z) : bool := in_rng (first_data_row - gen_header_height) first_data_row r.
Definition static_row (xs : list actx) (sid : sheet_id) (r : Z) : bool :=
  match sid with
  | SLegend => true
  | SSummary => in_rng 0 gen_header_height r
  | SInOut j =>
    match nth_error xs j with
    | None => false
    | Some x => let L := inout_rows_of (ac_c x) in hdr_rng (il_in L) r || hdr_rng (il_out L) r || hdr_rng (il_intra L) r
    end
  | STax j =>
    match nth_error xs j with
    | None => false
    | Some x => let L := tax_layout_of inp x in
                hdr_rng (tl_gls L) r || hdr_rng (tl_bal L) r || in_rng (tl_avg L) (tl_avg L + gen_full_avg_rows) r || hdr_rng (tl_det L) r
    end
  end.

Lemma in_rng_true a b r : a <= r < b -> in_rng a b r = true.
Proof. intro H. unfold in_rng. apply andb_true_iff. split; [apply Z.leb_le|apply Z.ltb_lt]; lia. Qed.
Lemma in_rng_false a b r : ~ (a <= r < b) -> in_rng a b r = false.
Proof.
  intro H. unfold in_rng. destruct (a <=? r) eqn:E1; [|reflexivity]. destruct (r <? b) eqn:E2; [|reflexivity].
  apply Z.leb_le in E1. apply Z.ltb_lt in E2. exfalso. apply H. lia.
Qed.

(** what [item_row_cells] answers, kind by kind *)
Definition item_facts (xs : list actx) (x : actx) (kd : wkind) (j i : nat) (sid : sheet_id) (r : Z) : Prop :=
  let IL := inout_rows_of (ac_c x) in let TL := tax_layout_of inp x in let n := Z.of_nat i in
  match kd with
  | KIn => sid = SInOut j /\ r = il_in IL + n /\ (i < length (cd_ins (ac_c x)))%nat
  | KOut => sid = SInOut j /\ r = il_out IL + n /\ (i < length (cd_outs (ac_c x)))%nat
  | KIntra => sid = SInOut j /\ r = il_intra IL + n /\ (i < length (cd_intras (ac_c x)))%nat
  | KYearly => sid = STax j /\ r = tl_gls TL + n /\ (i < length (cd_yearly (ac_c x)))%nat
  | KBalance => sid = STax j /\ r = tl_bal TL + n /\ (i < length (cd_balances (ac_c x)))%nat
  | KTotal => sid = STax j /\ r = tl_tot TL + n /\ (i < length (holder_totals inp (cd_balances (ac_c x))))%nat
  | KFraction => sid = STax j /\ r = tl_det TL + n /\ (i < length (drows (ac_c x)))%nat
  | KSummary => sid = SSummary /\ r = gen_header_height + lines_before xs j + n /\ (i < length (cd_yearly (ac_c x)))%nat
  end.

Lemma some_triple_inv {A B C} (a a' : A) (b b' : B) (c c' : C) : Some (a, b, c) = Some (a', b', c') -> a = a' /\ b = b' /\ c = c'.
Proof. intro H. inversion H. auto. Qed.

Lemma nth_some_lt {A} (l : list A) i t : nth_error l i = Some t -> (i < length l)%nat.
Proof. intro H. apply nth_error_Some. congruence. Qed.

Lemma item_inv xs kd j i sid r cells : item_row_cells xs (WItem kd j i) = Some (sid, r, cells) ->
  exists x, nth_error xs j = Some x /\ item_facts xs x kd j i sid r.
Proof.
  unfold item_row_cells. destruct (nth_error xs j) as [x|]; [|discriminate]. intro H. exists x. split; [reflexivity|].
  unfold item_facts. cbv zeta in *.
  destruct kd;
    match type of H with option_map _ (nth_error ?l i) = _ => destruct (nth_error l i) as [t|] eqn:E; [|discriminate] end;
    cbn [option_map] in H; inversion H; subst; (split; [reflexivity|split; [reflexivity|exact (nth_some_lt _ _ _ E)]]).
Qed.

Ltac layout_facts x :=
  pose proof gaps_nonneg; pose proof header_height_pos; pose proof (inout_layout_facts x); pose proof (tax_layout_facts inp x);
  pose proof (drows_le x); assert (0 < gen_full_avg_rows) by reflexivity.

(** (B) two items on the same sheet and row are the same item *)
Theorem items_rows_distinct xs it it' sid r cells cells' :
  item_row_cells xs it = Some (sid, r, cells) -> item_row_cells xs it' = Some (sid, r, cells') -> it = it'.
Proof.
  destruct it as [kd j i], it' as [kd' j' i']. intros H H'.
  destruct (item_inv _ _ _ _ _ _ _ H) as (x & Hx & F). destruct (item_inv _ _ _ _ _ _ _ H') as (x' & Hx' & F'). clear H H'.
  unfold item_facts in F, F'. cbv zeta in F, F'.
  destruct kd, kd'; destruct F as (Es & Er & Hi); destruct F' as (Es' & Er' & Hi'); subst sid; try discriminate Es';
    try (injection Es' as Ej; subst j'; rewrite Hx in Hx'; injection Hx' as <-;
         apply Nat2Z.inj_lt in Hi; apply Nat2Z.inj_lt in Hi'; layout_facts x;
         first [assert (i = i') by lia; subst; reflexivity | exfalso; lia]).
  (* two Summary lines *)
  subst r. assert (E : lines_before xs j + Z.of_nat i = lines_before xs j' + Z.of_nat i') by lia.
  destruct (summary_rows_injective xs j x i j' x' i' Hx Hi Hx' Hi' E). subst. reflexivity.
Qed.

(** (D) the row of an item is none of the static rows *)
Theorem item_row_not_static xs it sid r cells : item_row_cells xs it = Some (sid, r, cells) -> static_row xs sid r = false.
Proof.
  destruct it as [kd j i]. intro H. destruct (item_inv _ _ _ _ _ _ _ H) as (x & Hx & F). clear H.
  unfold item_facts in F. cbv zeta in F.
  destruct kd; destruct F as (-> & -> & Hi); cbn [static_row]; rewrite ?Hx; cbv zeta; unfold hdr_rng;
    apply Nat2Z.inj_lt in Hi; layout_facts x; pose proof (lines_before_nonneg xs j);
    rewrite !in_rng_false by lia; reflexivity.
Qed.

Lemma row_cells_in r cols cell w : In w (row_cells r cols cell) -> exists c lk f, In (c, lk, f) cols /\ w = cw r c (cell lk f).
Proof. unfold row_cells. intro H. apply in_map_iff in H as ([[c lk] f] & <- & Hin). exists c, lk, f. split; [exact Hin|reflexivity]. Qed.
Lemma row_cells_nonempty r cols cell : cols <> [] -> row_cells r cols cell <> [].
Proof. unfold row_cells. destruct cols; [congruence|discriminate]. Qed.

(** a write of a table belongs to the row of exactly one element *)
Lemma table_rows_only_cells {A} (cols : A -> list fcol) (cell : nat -> A -> flink -> ffield -> payload) l r w :
  In w (table_rows cols cell r 0 l) ->
  exists i t, nth_error l i = Some t /\ cw_row w = r + Z.of_nat i /\ In w (row_cells (r + Z.of_nat i) (cols t) (cell i t)).
Proof.
  intro H. destruct (table_rows_only cols cell l r 0%nat w H) as (i & t & c & lk & f & Hn & Hin & ->).
  exists i, t. split; [exact Hn|]. split; [reflexivity|]. cbn [Nat.add]. unfold row_cells. apply in_map_iff. exists (c, lk, f). split; [reflexivity|exact Hin].
Qed.

Lemma header_rows_only a h w : hdr_ok h -> In w (fst (fill_header (a - gen_header_height) h)) -> hdr_rng a (cw_row w) = true.
Proof.
  intros Hh Hw. pose proof (fill_header_box (a - gen_header_height) h Hh max_cols_pos) as B. unfold box in B. rewrite Forall_forall in B.
  specialize (B w Hw). unfold hdr_rng. apply in_rng_true. lia.
Qed.

(** the sheets of the report by position (dictionary emptied per asset: every asset's Tax sheet uses its own row map) *)
Lemma asset_sheets_nth : forall xs j,
  nth_error (flat_map (asset_sheets fl env inp) xs) (2 * j) = option_map (inout_sheet env inp) (nth_error xs j) /\
  nth_error (flat_map (asset_sheets fl env inp) xs) (1 + 2 * j) = option_map (fun x => tax_sheet env inp x (lm_after fl x [])) (nth_error xs j).
Proof.
  induction xs as [|x t IH]; intros j.
  - cbn [flat_map]. destruct j; split; try reflexivity; destruct (2 * S j)%nat; reflexivity.
  - cbn [flat_map asset_sheets app]. destruct j as [|j]; [split; reflexivity|].
    replace (2 * S j)%nat with (S (S (2 * j))) by lia. replace (1 + S (S (2 * j)))%nat with (S (S (1 + 2 * j))) by lia.
    cbn [nth_error]. exact (IH j).
Qed.

Definition sheet_of_id (xs : list actx) (legend summary : sheetw) (sid : sheet_id) : option sheetw :=
  match sid with
  | SLegend => Some legend
  | SSummary => Some summary
  | SInOut j => option_map (inout_sheet env inp) (nth_error xs j)
  | STax j => option_map (fun x => tax_sheet env inp x (lm_after fl x [])) (nth_error xs j)
  end.

Lemma report_sheet_at xs legend summary sid :
  nth_error (legend :: summary :: flat_map (asset_sheets fl env inp) xs) (sheet_index sid) = sheet_of_id xs legend summary sid.
Proof.
  destruct sid as [| |j|j]; cbn [sheet_index sheet_of_id]; try reflexivity.
  - change (2 + 2 * j)%nat with (S (S (2 * j))). cbn [nth_error]. exact (proj1 (asset_sheets_nth xs j)).
  - change (3 + 2 * j)%nat with (S (S (1 + 2 * j))). cbn [nth_error]. exact (proj2 (asset_sheets_nth xs j)).
Qed.

(** (A) the row of an item holds, cell by cell, the item's fields and nothing else *)
Lemma item_carried xs legend it sid r cells :
  item_row_cells xs it = Some (sid, r, cells) ->
  exists sh, sheet_of_id xs legend {| sw_name := tr env gen_full_msg_summary; sw_rows := fe_summary_rows env + total_lines xs;
                                      sw_cols := fe_summary_cols env; sw_writes := summary_sheet_writes env inp xs |} sid = Some sh /\
    cells <> [] /\ forall w, In w cells -> cw_row w = r /\ writes_at (sw_writes sh) r (cw_col w) = [w].
Proof.
  destruct it as [kd j i]. unfold item_row_cells. destruct (nth_error xs j) as [x|] eqn:Hx; [|discriminate]. cbv zeta.
  destruct kd; intro H;
    match type of H with option_map _ (nth_error ?l i) = _ => destruct (nth_error l i) as [t|] eqn:E; [|discriminate] end;
    cbn [option_map] in H; apply some_triple_inv in H as (<- & <- & <-); cbn [sheet_of_id]; rewrite ?Hx; cbn [option_map];
    eexists; (split; [reflexivity|]); (split; [apply row_cells_nonempty; try (vm_compute; discriminate)|]).
  - intros w Hw. apply row_cells_in in Hw as (c & lk & f & Hin & ->). cbn [cw cw_row cw_col]. split; [reflexivity|].
    exact (inout_in_at env inp x i t c lk f E Hin).
  - intros w Hw. apply row_cells_in in Hw as (c & lk & f & Hin & ->). cbn [cw cw_row cw_col]. split; [reflexivity|].
    exact (inout_out_at env inp x i t c lk f E Hin).
  - intros w Hw. apply row_cells_in in Hw as (c & lk & f & Hin & ->). cbn [cw cw_row cw_col]. split; [reflexivity|].
    exact (inout_intra_at env inp x i t c lk f E Hin).
  - intros w Hw. apply row_cells_in in Hw as (c & lk & f & Hin & ->). cbn [cw cw_row cw_col]. split; [reflexivity|].
    exact (tax_yearly_at env inp x _ i t c lk f E Hin).
  - intros w Hw. apply row_cells_in in Hw as (c & lk & f & Hin & ->). cbn [cw cw_row cw_col]. split; [reflexivity|].
    exact (tax_balance_at env inp x _ i t c lk f E Hin).
  - intros w Hw. apply row_cells_in in Hw as (c & lk & f & Hin & ->). cbn [cw cw_row cw_col]. split; [reflexivity|].
    exact (tax_total_at env inp x _ i t c lk f E Hin).
  - intros w Hw. apply row_cells_in in Hw as (c & lk & f & Hin & ->). cbn [cw cw_row cw_col]. split; [reflexivity|].
    exact (tax_detail_at env inp x _ i t c lk f E Hin).
  - intros w Hw. apply row_cells_in in Hw as (c & lk & f & Hin & ->). cbn [cw cw_row cw_col sw_writes]. split; [reflexivity|].
    exact (summary_line_absolute env inp xs j x i t c lk f Hx E Hin).
Qed.

(** (C) converse: every write of the In-Out sheet lies on a header row or is a cell of the row of an in / out / intra item *)
Lemma inout_writes_only xs j x w : nth_error xs j = Some x -> In w (inout_writes env inp x) ->
  static_row xs (SInOut j) (cw_row w) = true \/
  exists it cells, item_row_cells xs it = Some (SInOut j, cw_row w, cells) /\ In w cells.
Proof.
  intros Hx Hw. unfold inout_writes in Hw. cbn [static_row]. rewrite Hx. cbv zeta.
  repeat (apply in_app_or in Hw as [Hw|Hw]).
  - left. rewrite (header_rows_only _ _ _ hdr_in_ok Hw). reflexivity.
  - right. apply table_rows_only_cells in Hw as (i & t & Hn & Hr & Hin). exists (WItem KIn j i). eexists.
    unfold item_row_cells. rewrite Hx. cbv zeta. rewrite Hn. cbn [option_map]. rewrite Hr. split; [reflexivity|exact Hin].
  - left. rewrite (header_rows_only _ _ _ hdr_out_ok Hw). rewrite orb_true_r. reflexivity.
  - right. apply table_rows_only_cells in Hw as (i & t & Hn & Hr & Hin). exists (WItem KOut j i). eexists.
    unfold item_row_cells. rewrite Hx. cbv zeta. rewrite Hn. cbn [option_map]. rewrite Hr. split; [reflexivity|exact Hin].
  - left. rewrite (header_rows_only _ _ _ hdr_intra_ok Hw). rewrite !orb_true_r. reflexivity.
  - right. apply table_rows_only_cells in Hw as (i & t & Hn & Hr & Hin). exists (WItem KIntra j i). eexists.
    unfold item_row_cells. rewrite Hx. cbv zeta. rewrite Hn. cbn [option_map]. rewrite Hr. split; [reflexivity|exact Hin].
Qed.

Lemma tax_writes_only xs j x w : nth_error xs j = Some x -> In w (tax_writes env inp x (lm_after fl x [])) ->
  static_row xs (STax j) (cw_row w) = true \/
  exists it cells, item_row_cells xs it = Some (STax j, cw_row w, cells) /\ In w cells.
Proof.
  intros Hx Hw. unfold tax_writes in Hw. cbn [static_row]. rewrite Hx. cbv zeta.
  repeat (apply in_app_or in Hw as [Hw|Hw]).
  - left. rewrite (header_rows_only _ _ _ hdr_gls_ok Hw). reflexivity.
  - right. apply table_rows_only_cells in Hw as (i & t & Hn & Hr & Hin). exists (WItem KYearly j i). eexists.
    unfold item_row_cells. rewrite Hx. cbv zeta. rewrite Hn. cbn [option_map]. rewrite Hr. split; [reflexivity|exact Hin].
  - left. rewrite (header_rows_only _ _ _ hdr_bal_ok Hw). rewrite orb_true_r. reflexivity.
  - right. apply table_rows_only_cells in Hw as (i & t & Hn & Hr & Hin). exists (WItem KBalance j i). eexists.
    unfold item_row_cells. rewrite Hx. cbv zeta. rewrite Hn. cbn [option_map]. rewrite Hr. split; [reflexivity|exact Hin].
  - right. apply table_rows_only_cells in Hw as (i & t & Hn & Hr & Hin). exists (WItem KTotal j i). eexists.
    unfold item_row_cells. rewrite Hx. cbv zeta. rewrite Hn. cbn [option_map]. rewrite Hr. split; [reflexivity|exact Hin].
  - left. apply in_map_iff in Hw as (ob & <- & Hob). cbn [cw cw_row].
    pose proof (proj2 (avg_cells_box 0 (fun _ => PEmpty))) as Hr. rewrite Forall_forall in Hr. specialize (Hr _ Hob). cbv beta in Hr.
    rewrite (in_rng_true (tl_avg (tax_layout_of inp x)) _ _) by lia. rewrite orb_true_r. reflexivity.
  - left. rewrite (header_rows_only _ _ _ hdr_det_ok Hw). rewrite !orb_true_r. reflexivity.
  - right. apply table_rows_only_cells in Hw as (i & t & Hn & Hr & Hin). exists (WItem KFraction j i). eexists.
    unfold item_row_cells. rewrite Hx. cbv zeta. rewrite Hn. cbn [option_map]. rewrite Hr. split; [reflexivity|exact Hin].
Qed.

Lemma summary_all_only : forall xs0 xs j0 r w, (forall j x, nth_error xs j = Some x -> nth_error xs0 (j0 + j) = Some x) ->
  r = gen_header_height + lines_before xs0 j0 -> firstn j0 xs0 ++ xs = xs0 ->
  In w (summary_all env inp r xs) ->
  exists it cells, item_row_cells xs0 it = Some (SSummary, cw_row w, cells) /\ In w cells.
Proof.
  intros xs0. induction xs as [|x t IH]; intros j0 r w Hnth Hr Hsplit Hw; [destruct Hw|].
  cbn [summary_all] in Hw. apply in_app_or in Hw as [Hw|Hw].
  - unfold summary_writes in Hw. apply table_rows_only_cells in Hw as (i & y & Hn & Hrow & Hin).
    exists (WItem KSummary j0 i). eexists. unfold item_row_cells.
    pose proof (Hnth 0%nat x eq_refl) as Hx. rewrite Nat.add_0_r in Hx. rewrite Hx. cbv zeta. rewrite Hn. cbn [option_map].
    rewrite Hrow, Hr. split; [reflexivity|]. rewrite <- Hr. exact Hin.
  - apply (IH (S j0) (r + Z.of_nat (length (cd_yearly (ac_c x))))); [| | |exact Hw].
    + intros j x' Hj. replace (S j0 + j)%nat with (j0 + S j)%nat by lia. apply Hnth. exact Hj.
    + rewrite Hr. pose proof (Hnth 0%nat x eq_refl) as Hx. rewrite Nat.add_0_r in Hx.
      assert (E : lines_before xs0 (S j0) = lines_before xs0 j0 + Z.of_nat (length (cd_yearly (ac_c x)))).
      { clear -Hx. revert j0 Hx. induction xs0 as [|x0 t0 IH0]; intros j0 Hx; [destruct j0; discriminate|].
        destruct j0 as [|j0]; cbn [nth_error] in Hx.
        - inversion Hx; subst. unfold lines_before. cbn [firstn total_lines]. lia.
        - rewrite !lines_before_S. rewrite (IH0 j0 Hx). lia. }
      rewrite E. lia.
    + pose proof (Hnth 0%nat x eq_refl) as Hx. rewrite Nat.add_0_r in Hx.
      rewrite <- Hsplit at 2. clear -Hx Hsplit. revert j0 Hx Hsplit. induction xs0 as [|x0 t0 IH0]; intros j0 Hx Hsplit; [destruct j0; discriminate|].
      destruct j0 as [|j0]; cbn [nth_error] in Hx.
      * inversion Hx; subst. cbn [firstn app] in *. inversion Hsplit; subst. cbn [firstn app]. reflexivity.
      * cbn [firstn app] in *. inversion Hsplit as [Hs]. f_equal. rewrite Hs. apply (IH0 j0 Hx Hs).
Qed.

Lemma summary_writes_only xs w : In w (summary_sheet_writes env inp xs) ->
  static_row xs SSummary (cw_row w) = true \/
  exists it cells, item_row_cells xs it = Some (SSummary, cw_row w, cells) /\ In w cells.
Proof.
  unfold summary_sheet_writes. intro Hw. apply in_app_or in Hw as [Hw|Hw].
  - left. cbn [static_row]. pose proof (summary_header_box) as B. unfold box in B. rewrite Forall_forall in B. specialize (B w Hw).
    apply in_rng_true. lia.
  - right. apply (summary_all_only xs xs 0%nat gen_header_height w); [intros j x H; exact H|rewrite lines_before_0; lia|reflexivity|exact Hw].
Qed.

(** the collected statement *)
Theorem every_window_row_once sheets : ff_clears fl = true -> full_report fl env inp = ROk sheets ->
  exists acs, computed_all inp (rp_assets inp) = Ok acs /\
    let xs := actxs 0 acs (fe_extra env) in
    map ac_name xs = map ra_name (rp_assets inp) /\ map ac_c xs = map snd acs /\
    length sheets = (2 + 2 * length xs)%nat /\
    (* every item has a row that carries it: each cell of the row is written once, with the item's field *)
    (forall it sid r cells, item_row_cells xs it = Some (sid, r, cells) ->
       exists sh, nth_error sheets (sheet_index sid) = Some sh /\ cells <> [] /\
                  forall w, In w cells -> cw_row w = r /\ writes_at (sw_writes sh) r (cw_col w) = [w]) /\
    (* exactly one: two items on the same sheet and row are the same item; and that row is none of the static rows *)
    (forall it it' sid r cells cells', item_row_cells xs it = Some (sid, r, cells) -> item_row_cells xs it' = Some (sid, r, cells') -> it = it') /\
    (forall it sid r cells, item_row_cells xs it = Some (sid, r, cells) -> static_row xs sid r = false) /\
    (* no extra rows: every write of the Summary and of every In-Out / Tax sheet lies on a static row or is a cell of an item's row *)
    (forall sid sh w, sid <> SLegend -> nth_error sheets (sheet_index sid) = Some sh -> In w (sw_writes sh) ->
       static_row xs sid (cw_row w) = true \/
       exists it cells, item_row_cells xs it = Some (sid, cw_row w, cells) /\ In w cells).
Proof.
  intros Hc H. destruct (full_report_sheets_ok fl env inp sheets H) as (acs & m & HC & _ & S & _). cbv zeta in S.
  rewrite (sheets_from_clears fl env inp Hc) in S.
  exists acs. split; [exact HC|]. cbv zeta. set (xs := actxs 0 acs (fe_extra env)) in *.
  split; [|split; [apply actxs_computed|split; [|split; [|split; [|split]]]]].
  - unfold xs. rewrite actxs_names. destruct (computed_all_split inp _ _ HC) as [Hm _]. rewrite <- Hm, map_map. reflexivity.
  - rewrite S. cbn [length]. f_equal. f_equal. clear. induction xs as [|x t IH]; cbn [flat_map asset_sheets app length]; [reflexivity|]. rewrite IH. lia.
  - intros it sid r cells Hit. rewrite S, report_sheet_at. exact (item_carried xs _ it sid r cells Hit).
  - exact (items_rows_distinct xs).
  - exact (item_row_not_static xs).
  - intros sid sh w Hne Hn Hw. rewrite S, report_sheet_at in Hn. destruct sid as [| |j|j]; [congruence| | |]; cbn [sheet_of_id] in Hn.
    + inversion Hn; subst sh. cbn [sw_writes] in Hw. exact (summary_writes_only xs w Hw).
    + destruct (nth_error xs j) as [x|] eqn:Hx; [|discriminate]. cbn [option_map] in Hn. inversion Hn; subst sh. cbn [inout_sheet sw_writes] in Hw.
      exact (inout_writes_only xs j x w Hx Hw).
    + destruct (nth_error xs j) as [x|] eqn:Hx; [|discriminate]. cbn [option_map] in Hn. inversion Hn; subst sh. cbn [tax_sheet sw_writes] in Hw.
      exact (tax_writes_only xs j x w Hx Hw).
Qed.
End Items.

(** ---------- non-vacuity: the two-asset witness input of C19 (AAA, BBB; from-date 2021-01-01) *)
Example summary_position_example :
  exists sheets acs, full_report fixed_flags wenv w_f3 = ROk sheets /\ computed_all w_f3 (rp_assets w_f3) = Ok acs /\
    let xs := actxs 0 acs (fe_extra wenv) in
    length xs = 2%nat /\
    (exists sid r cells, item_row_cells fixed_flags wenv w_f3 xs (WItem KSummary 1 0) = Some (sid, r, cells) /\
        sid = SSummary /\ r = gen_header_height + lines_before xs 1 /\ 0 < lines_before xs 1 /\ cells <> []) /\
    (exists sid r cells, item_row_cells fixed_flags wenv w_f3 xs (WItem KFraction 1 0) = Some (sid, r, cells) /\ sid = STax 1) /\
    Forall (fun s => sheet_ok s = true) sheets.
Proof.
  destruct (full_report fixed_flags wenv w_f3) as [sheets| | |] eqn:E; try (vm_compute in E; discriminate E).
  destruct (full_report_sheets_ok fixed_flags wenv w_f3 sheets E) as (acs & m & HC & _ & _ & F).
  exists sheets, acs. split; [reflexivity|]. split; [exact HC|]. cbv zeta.
  assert (HC' := HC). vm_compute in HC'. inversion HC'; subst acs. clear HC'.
  split; [reflexivity|]. split; [|split; [|exact F]].
  - do 3 eexists. split; [vm_compute; reflexivity|]. split; [reflexivity|]. split; [vm_compute; reflexivity|]. split; [vm_compute; reflexivity|discriminate].
  - do 3 eexists. split; [vm_compute; reflexivity|reflexivity].
Qed.
