(** C06, fiat figures: rounding bounds for the left-to-right 31-digit sums of the yearly summary against exact
    rational sums ([to_q], [EPS] = 5e-31 of DecProofs.v): per line, and for the grand totals over all lines. *)
From Coq Require Import List ZArith Bool Lia QArith Qabs Lqa.
From RP2V Require Import Base.Prelude Base.Dec Proofs.DecProofs.
Import ListNotations.
Local Open Scope Q_scope.

(** exact sum of the values *)
Fixpoint qsum (l : list dec) : Q := match l with [] => 0 | x :: t => to_q x + qsum t end.
(** sum of the magnitudes of the exact intermediate results s_k + x_k (s_k the computed partial sums) *)
Fixpoint partial_mag (s : dec) (l : list dec) : Q :=
  match l with [] => 0 | x :: t => Qabs (to_q s + to_q x) + partial_mag (dadd s x) t end.

Lemma partial_mag_nonneg l : forall s, 0 <= partial_mag s l.
Proof.
  induction l as [|x l IH]; intros s; cbn [partial_mag]; [apply Qle_refl|].
  pose proof (Qabs_nonneg (to_q s + to_q x)). specialize (IH (dadd s x)). lra.
Qed.

Lemma fold_dadd_error l : forall s,
  Qabs (to_q (fold_left dadd l s) - (to_q s + qsum l)) <= EPS * partial_mag s l.
Proof.
  induction l as [|x l IH]; intros s; cbn [fold_left qsum partial_mag].
  - assert (E : to_q s - (to_q s + 0) == 0) by ring. rewrite E. cbn. lra.
  - specialize (IH (dadd s x)). pose proof (dadd_error s x) as H1.
    assert (E : to_q (fold_left dadd l (dadd s x)) - (to_q s + (to_q x + qsum l)) ==
                (to_q (fold_left dadd l (dadd s x)) - (to_q (dadd s x) + qsum l)) + (to_q (dadd s x) - (to_q s + to_q x))) by ring.
    rewrite E. eapply Qle_trans; [apply Qabs_triangle|].
    rewrite Qmult_plus_distr_r. lra.
Qed.

From Coq Require Import Permutation Sorted.
From RP2V Require Import Base.Assoc Base.Sorting Base.Time Model.Types Model.Generated Model.Computed Model.ComputedSpec
  Proofs.FilterProofs Proofs.YearlyProofs Proofs.C06Proofs Proofs.L4Examples.
Local Open Scope Q_scope.

Lemma to_q_dzero : to_q dzero == 0.
Proof. reflexivity. Qed.

Theorem dsum_error l : Qabs (to_q (dsum l) - qsum l) <= EPS * partial_mag dzero l.
Proof.
  pose proof (fold_dadd_error l dzero) as H. unfold dsum.
  assert (E : to_q (fold_left dadd l dzero) - qsum l == to_q (fold_left dadd l dzero) - (to_q dzero + qsum l)) by (rewrite to_q_dzero; ring).
  rewrite E. exact H.
Qed.

(** * sums over lines *)
Fixpoint qsumf {A} (f : A -> Q) (l : list A) : Q := match l with [] => 0 | x :: t => f x + qsumf f t end.

Lemma qsumf_map {A} (f : A -> dec) l : qsum (map f l) == qsumf (fun x => to_q (f x)) l.
Proof. induction l as [|x l IH]; cbn [map qsum qsumf]; [reflexivity|]. rewrite IH. reflexivity. Qed.

Lemma qsumf_add {A} (f g : A -> Q) l : qsumf (fun x => f x + g x) l == qsumf f l + qsumf g l.
Proof. induction l as [|x l IH]; cbn [qsumf]; [ring|]. rewrite IH. ring. Qed.

Lemma qsumf_ext {A} (f g : A -> Q) l : (forall x, In x l -> f x == g x) -> qsumf f l == qsumf g l.
Proof.
  induction l as [|x l IH]; intros H; cbn [qsumf]; [reflexivity|].
  rewrite (H x (or_introl eq_refl)), IH; [reflexivity|]. intros y Hy. apply H. right. exact Hy.
Qed.

Lemma qsumf_indicator {B} (has : B -> bool) (c : Q) (Ls : list B) L :
  NoDup Ls -> In L Ls -> has L = true -> (forall L', In L' Ls -> has L' = true -> L' = L) ->
  qsumf (fun L' => if has L' then c else 0) Ls == c.
Proof.
  induction 1 as [|y Ls Hni Hnd IH]; intros Hin HL Hu; [destruct Hin|]. cbn [qsumf].
  destruct Hin as [->|Hin].
  - rewrite HL. rewrite (qsumf_ext _ (fun _ => 0) Ls).
    + assert (Z0 : qsumf (fun _ : B => 0) Ls == 0) by (clear; induction Ls as [|a l IHl]; cbn [qsumf]; [reflexivity|rewrite IHl; ring]).
      rewrite Z0. ring.
    + intros z Hz. destruct (has z) eqn:E; [|reflexivity].
      exfalso. apply Hni. rewrite <- (Hu z (or_intror Hz) E). exact Hz.
  - destruct (has y) eqn:E.
    + exfalso. apply Hni. rewrite (Hu y (or_introl eq_refl) E). exact Hin.
    + rewrite IH; [ring|exact Hin|exact HL|]. intros L' HL' E'. apply Hu; [right; exact HL'|exact E'].
Qed.

(** a list split over groups, each element in exactly one group: the group sums add up to the whole *)
Lemma qsumf_group {A B} (w : A -> Q) (has : B -> A -> bool) (Ls : list B) (l : list A) :
  NoDup Ls ->
  (forall x, In x l -> exists L, In L Ls /\ has L x = true /\ forall L', In L' Ls -> has L' x = true -> L' = L) ->
  qsumf (fun L => qsumf w (filter (has L) l)) Ls == qsumf w l.
Proof.
  intros Hnd. induction l as [|x l IH]; intros H.
  - cbn [filter qsumf]. clear. induction Ls as [|a Ls IHl]; cbn [qsumf]; [reflexivity|rewrite IHl; ring].
  - rewrite (qsumf_ext _ (fun L => (if has L x then w x else 0) + qsumf w (filter (has L) l)) Ls).
    + rewrite qsumf_add, IH by (intros y Hy; apply H; right; exact Hy). cbn [qsumf].
      destruct (H x (or_introl eq_refl)) as (L & HL & Hh & Hu).
      rewrite (qsumf_indicator (fun L' => has L' x) (w x) Ls L Hnd HL Hh Hu). reflexivity.
    + intros L _. cbn [filter]. destruct (has L x); cbn [qsumf]; ring.
Qed.

Lemma qsumf_abs_le {B} (f g : B -> Q) (e : B -> Q) Ls :
  (forall L, In L Ls -> Qabs (f L - g L) <= e L) -> Qabs (qsumf f Ls - qsumf g Ls) <= qsumf e Ls.
Proof.
  induction Ls as [|a Ls IH]; intros H; cbn [qsumf].
  - assert (E : 0 - 0 == 0) by ring. rewrite E. cbn. lra.
  - assert (E : f a + qsumf f Ls - (g a + qsumf g Ls) == (f a - g a) + (qsumf f Ls - qsumf g Ls)) by ring.
    rewrite E. eapply Qle_trans; [apply Qabs_triangle|].
    pose proof (H a (or_introl eq_refl)). specialize (IH (fun L HL => H L (or_intror HL))). lra.
Qed.

Lemma qsumf_scale {B} (c : Q) (e : B -> Q) Ls : qsumf (fun L => c * e L) Ls == c * qsumf e Ls.
Proof. induction Ls as [|a Ls IH]; cbn [qsumf]; [ring|]. rewrite IH. ring. Qed.

(** * the yearly summary *)
Section Yearly.
Variables (period to_day from_year : Z) (gls : list gl) (yl : list yline).
Hypothesis H : yearly_list period to_day from_year gls = Ok yl.
Let shown := take_until g_day to_day gls.
Let counted := filter (fun g => (from_year <=? g_year g)%Z) shown.

(** per line: the reported figure is within EPS x (sum of the magnitudes of the intermediate sums) of the exact sum *)
Theorem c06_line_fiat_bounds : forall L, In L yl ->
  let mine := filter (line_has_key period L) shown in
  Qabs (to_q (y_fiat L) - qsum (map (fun g => odflt (g_proceeds g)) mine)) <= EPS * partial_mag dzero (map (fun g => odflt (g_proceeds g)) mine) /\
  Qabs (to_q (y_cost L) - qsum (map (fun g => odflt (g_cost g)) mine)) <= EPS * partial_mag dzero (map (fun g => odflt (g_cost g)) mine) /\
  Qabs (to_q (y_gain L) - qsum (map (fun g => odflt (g_gain g)) mine)) <= EPS * partial_mag dzero (map (fun g => odflt (g_gain g)) mine).
Proof.
  intros L HL mine. destruct (c06_line_is_sum _ _ _ _ _ H L HL) as (_ & _ & -> & -> & ->). fold shown. fold mine.
  repeat split; apply dsum_error.
Qed.

Lemma filter_filter_implies {A} (p q : A -> bool) l : (forall x, p x = true -> q x = true) -> filter p (filter q l) = filter p l.
Proof.
  intros Hpq. induction l as [|x l IH]; cbn [filter]; [reflexivity|].
  destruct (p x) eqn:P.
  - rewrite (Hpq x P). cbn [filter]. rewrite P. f_equal. exact IH.
  - destruct (q x); cbn [filter]; rewrite ?P; exact IH.
Qed.

Lemma lines_partition (fig : gl -> dec) :
  qsumf (fun L => qsum (map fig (filter (line_has_key period L) shown))) yl == qsum (map fig counted).
Proof.
  rewrite qsumf_map.
  rewrite (qsumf_ext _ (fun L => qsumf (fun g => to_q (fig g)) (filter (line_has_key period L) counted)) yl).
  - apply qsumf_group.
    + apply (c06_keys_distinct _ _ _ _ _ H).
    + intros g Hg. unfold counted in Hg. apply filter_In in Hg. destruct Hg as [Hg Hy].
      apply (c06_fraction_one_line _ _ _ _ _ H g Hg). apply Z.leb_le. exact Hy.
  - intros L HL. rewrite qsumf_map. unfold counted.
    destruct (c06_no_empty_line _ _ _ _ _ H L HL) as [Hy _].
    rewrite filter_filter_implies; [reflexivity|].
    intros g K. apply line_has_key_iff in K. destruct K as (K & _). apply Z.leb_le. rewrite K. exact Hy.
Qed.

(** grand totals: the sum of the lines' figures against the exact total of the detail (fractions up to the cut, of the
    years shown) *)
Definition total_bound (fig : gl -> dec) : Q :=
  EPS * qsumf (fun L => partial_mag dzero (map fig (filter (line_has_key period L) shown))) yl.

Theorem c06_fiat_totals :
  Qabs (qsumf (fun L => to_q (y_fiat L)) yl - qsum (map (fun g => odflt (g_proceeds g)) counted)) <= total_bound (fun g => odflt (g_proceeds g)) /\
  Qabs (qsumf (fun L => to_q (y_cost L)) yl - qsum (map (fun g => odflt (g_cost g)) counted)) <= total_bound (fun g => odflt (g_cost g)) /\
  Qabs (qsumf (fun L => to_q (y_gain L)) yl - qsum (map (fun g => odflt (g_gain g)) counted)) <= total_bound (fun g => odflt (g_gain g)).
Proof.
  unfold total_bound. rewrite <- !lines_partition, <- !qsumf_scale.
  repeat split; apply qsumf_abs_le; intros L HL; apply (c06_line_fiat_bounds L HL).
Qed.
End Yearly.

(** non-vacuity: for history A of L4Examples.v the bound on the grand total of the proceeds is 1.5e-27 *)
Example c06_total_bound_small : Qle_bool (total_bound 365 100000 glsA ylA (fun g => odflt (g_proceeds g))) (1 # 10 ^ 20) = true.
Proof. vm_compute. reflexivity. Qed.
Example c06_fiat_totals_instance := c06_fiat_totals 365 100000 1970 glsA ylA ylA_ok.
