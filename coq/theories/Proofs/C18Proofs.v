(** Proofs for the static half of C18: finite statements over the regenerated import / call-site
    tables, decided by vm_compute and lifted with forallb_forall. *)
From RP2V Require Import Base.Prelude Base.Sorting Model.Types.
From RP2V Require Import Model.Generated Model.MainRun Model.Imports.
From RP2V Require Import Proofs.RunLemmas.
Open Scope Z_scope.

Lemma imports_ok_true : imports_ok = true.
Proof. vm_compute. reflexivity. Qed.
Lemma dynamic_imports_confined_true : dynamic_imports_confined = true.
Proof. vm_compute. reflexivity. Qed.
Lemma no_exec_process_network_true : no_exec_process_network = true.
Proof. vm_compute. reflexivity. Qed.
Lemma write_sites_modelled_true : write_sites_modelled = true.
Proof. vm_compute. reflexivity. Qed.
Lemma write_sites_unique_true : write_sites_unique = true.
Proof. vm_compute. reflexivity. Qed.
Lemma scripts_cover_countries_true : scripts_cover_countries = true.
Proof. vm_compute. reflexivity. Qed.
Lemma policy_lists_disjoint : forallb (fun m => negb (str_in m denied_toplevel)) allowed_toplevel = true.
Proof. vm_compute. reflexivity. Qed.

Theorem imports_allowed : forall m imps imp, In (m, imps) import_table -> In imp imps -> import_ok imp = true.
Proof.
  intros m imps imp Hm Hi. pose proof imports_ok_true as H. unfold imports_ok in H.
  rewrite forallb_forall in H. specialize (H _ Hm). unfold module_imports_ok in H. simpl in H.
  rewrite forallb_forall in H. auto.
Qed.

Theorem no_denied_import : forall m imps imp, In (m, imps) import_table -> In imp imps ->
  In (top_level (fst imp)) allowed_toplevel /\ ~ In (top_level (fst imp)) denied_toplevel.
Proof.
  intros m imps imp Hm Hi. pose proof (imports_allowed m imps imp Hm Hi) as H. unfold import_ok in H. cbv zeta in H.
  apply andb_true_iff in H as [H HD]. apply andb_true_iff in H as [H HC]. apply andb_true_iff in H as [HA HB]. split.
  - apply str_in_In; exact HA.
  - intros Hd. apply str_in_In in Hd. apply negb_true_iff in HB. unfold str in *. congruence.
Qed.

Theorem dynamic_imports_have_plugin_prefix : forall s, In s call_sites -> st_kind s = 1 ->
  str_prefixb s_plugin_prefix (st_prefix s) = true.
Proof.
  intros s Hs Hk. pose proof dynamic_imports_confined_true as H. unfold dynamic_imports_confined in H.
  rewrite forallb_forall in H. specialize (H s Hs). unfold dynamic_import_ok in H. rewrite Hk in H. exact H.
Qed.

Theorem no_exec_process_network_site : forall s, In s call_sites -> st_kind s <> 2 /\ st_kind s <> 4 /\ st_kind s <> 5.
Proof.
  intros s Hs. pose proof no_exec_process_network_true as H. unfold no_exec_process_network in H.
  rewrite forallb_forall in H. specialize (H s Hs). unfold no_exec_site in H.
  apply negb_true_iff in H. apply orb_false_iff in H as [H H5]. apply orb_false_iff in H as [H2 H4].
  apply Z.eqb_neq in H2, H4, H5. auto.
Qed.

Theorem write_sites_are_modelled : forall s, In s call_sites -> is_write_site s = true ->
  exists a, In a modelled_write_sites /\ site_matches s a = true.
Proof.
  intros s Hs Hw. pose proof write_sites_modelled_true as H. unfold write_sites_modelled in H.
  rewrite forallb_forall in H. specialize (H s Hs). unfold write_site_ok in H. rewrite Hw in H. cbn [negb orb] in H.
  apply existsb_exists in H. exact H.
Qed.

Theorem allowed_not_denied : forall m, In m allowed_toplevel -> ~ In m denied_toplevel.
Proof.
  intros m Hm Hd. pose proof policy_lists_disjoint as H. rewrite forallb_forall in H. specialize (H m Hm).
  apply str_in_In in Hd. rewrite Hd in H. discriminate.
Qed.

(** non-vacuity: the checkers reject what they are meant to reject *)
Definition s_socket : str := [115; 111; 99; 107; 101; 116].
Definition s_os : str := [111; 115].
Definition s_system : str := [115; 121; 115; 116; 101; 109].
Definition s_urllib_request : str := [117; 114; 108; 108; 105; 98; 46; 114; 101; 113; 117; 101; 115; 116].
Definition s_subprocess : str := [115; 117; 98; 112; 114; 111; 99; 101; 115; 115].
Definition s_logging_handlers : str := [108; 111; 103; 103; 105; 110; 103; 46; 104; 97; 110; 100; 108; 101; 114; 115].
Definition s_path : str := [112; 97; 116; 104].
Example checkers_reject :
  import_ok (s_socket, []) = false /\ import_ok (s_urllib_request, []) = false /\ import_ok (s_subprocess, []) = false /\
  import_ok (s_os, s_system) = false /\ import_ok (s_logging_handlers, []) = false /\ import_ok (s_os, s_path) = true /\
  dynamic_import_ok (s_os, 1, s_os, s_os, []) = false /\ no_exec_site (s_os, 4, s_os, [], []) = false /\
  write_site_ok (s_os, 3, s_os, [], [119]) = false /\ write_site_ok (s_os, 3, s_os, [], [114]) = true /\
  write_site_ok (s_os, 3, s_os, [], [63]) = false /\ (30 < length import_table)%nat /\ (10 < length call_sites)%nat.
Proof. vm_compute. repeat split; try reflexivity; lia. Qed.
