(** Arithmetic of the open-positions report.
    Part C: identities in exact rational arithmetic (conservation  realised + unrealised = acquired,
            weights add up to 1, per-unit cost x total balance = cost).
    Part D: accuracy of the 31-digit decimal figures the model (and the code) computes, as explicit
            bounds  (1 + 5e-31)^n - 1  ([E n]) relative to the cost of the lots concerned. *)
From Coq Require Import ZArith Bool Lia QArith Qabs Qpower Qfield Lqa List.
From RP2V Require Import Base.Prelude Base.Time Base.Dec Base.Assoc Model.Types Model.Generated Model.Txn Model.Pipeline
  Model.Computed Model.OpenPos Proofs.DecProofs Proofs.C04Proofs Proofs.AssocProofs Proofs.OpenPosProofs.
Import ListNotations.
Local Open Scope Q_scope.

(** * Part C: exact arithmetic *)
Lemma sumQ_app a b : sumQ (a ++ b) == sumQ a + sumQ b.
Proof. induction a as [|x a IH]; cbn [app sumQ]; [ring|rewrite IH; ring]. Qed.

Lemma sumQ_scale c l : sumQ (map (fun x => x * c) l) == sumQ l * c.
Proof. induction l as [|x l IH]; cbn [map sumQ]; [ring|rewrite IH; ring]. Qed.

Lemma sumQ_flat_map {A} (f : A -> list Q) l : sumQ (flat_map f l) == sumQ (map (fun a => sumQ (f a)) l).
Proof. induction l as [|a l IH]; cbn [flat_map map sumQ]; [reflexivity|rewrite sumQ_app, IH; reflexivity]. Qed.

Lemma sumQ_ext {A} (f g : A -> Q) l : (forall a, In a l -> f a == g a) -> sumQ (map f l) == sumQ (map g l).
Proof.
  induction l as [|a l IH]; intros H; cbn [map sumQ]; [reflexivity|].
  rewrite (H a (or_introl eq_refl)), IH; [reflexivity|]. intros b Hb. apply H. right. exact Hb.
Qed.

(** weights: every row's cost basis = balance x (asset cost / asset balance); weight = row cost / total.
    Over all rows of all listed assets the weights add up to exactly 1. *)
Theorem weights_sum_one : forall (assets : list (Q * list Q)),
  (forall a, In a assets -> ~ sumQ (snd a) == 0) -> ~ sumQ (map fst assets) == 0 ->
  sumQ (flat_map (fun a => map (fun b => b * (fst a / sumQ (snd a)) / sumQ (map fst assets)) (snd a)) assets) == 1.
Proof.
  intros assets HB HT. set (T := sumQ (map fst assets)) in *.
  rewrite sumQ_flat_map.
  assert (E : sumQ (map (fun a : Q * list Q => sumQ (map (fun b => b * (fst a / sumQ (snd a)) / T) (snd a))) assets)
              == sumQ (map (fun a => fst a * / T) assets)).
  { apply sumQ_ext. intros a Ha. pose proof (HB a Ha) as HBa.
    assert (E1 : sumQ (map (fun b => b * (fst a / sumQ (snd a)) / T) (snd a)) == sumQ (snd a) * ((fst a / sumQ (snd a)) / T)).
    { rewrite <- sumQ_scale. apply sumQ_ext. intros b _. field. split; assumption. }
    rewrite E1. field. split; assumption. }
  rewrite E.
  assert (E2 : sumQ (map (fun a : Q * list Q => fst a * / T) assets) == sumQ (map fst assets) * / T).
  { rewrite <- sumQ_scale. rewrite map_map. reflexivity. }
  rewrite E2. fold T. field. exact HT.
Qed.

(** per-unit cost x total balance = asset cost; the rows of an asset add up to the asset's cost *)
Theorem rows_sum_to_asset_cost : forall (c : Q) (bals : list Q), ~ sumQ bals == 0 ->
  sumQ (map (fun b => b * (c / sumQ bals)) bals) == c.
Proof. intros c bals H. rewrite sumQ_scale. field. exact H. Qed.

(** ** conservation: cost basis of the gain/loss detail + cost of the unsold lot parts = everything acquired *)
Definition qcost (l : intx) : Q := to_q (i_fiat_in_with_fee l).
Definition qamt (z : Z) : Q := inject_Z z.
Definition of_lot (l : intx) (g : gl) : bool := match g_lot g with Some l' => (i_row l' =? i_row l)%Z | None => false end.
Definition consumed (gls : list gl) (l : intx) : Z := sumZ (map g_amt (filter (of_lot l) gls)).
Definition remaining (gls : list gl) (l : intx) : Z := (i_crypto_in l - consumed gls l)%Z.
(** exact cost basis of a fraction (Generated.gl_cost_basis without rounding) *)
Definition realised_of (g : gl) : Q :=
  match g_lot g with Some l => qcost l * qamt (g_amt g) / qamt (i_crypto_in l) | None => 0 end.
Definition realised_exact (gls : list gl) : Q := sumQ (map realised_of gls).
Definition unrealised_of (gls : list gl) (l : intx) : Q := qcost l * qamt (remaining gls l) / qamt (i_crypto_in l).
Definition unrealised_exact (lots : list intx) (gls : list gl) : Q := sumQ (map (unrealised_of gls) lots).
Definition acquired_exact (lots : list intx) : Q := sumQ (map qcost lots).

Lemma qamt_sumZ l : qamt (sumZ l) == sumQ (map qamt l).
Proof. unfold qamt. induction l as [|x l IH]; cbn [sumZ map sumQ]; [reflexivity|]. rewrite inject_Z_plus, IH. reflexivity. Qed.

(** a fraction's exact cost basis shows up under exactly one lot of a list with distinct row ids *)
Lemma single_hit : forall lots g l', g_lot g = Some l' -> In l' lots -> NoDup (map i_row lots) ->
  sumQ (map (fun l => if of_lot l g then qcost l * qamt (g_amt g) / qamt (i_crypto_in l) else 0) lots) == realised_of g.
Proof.
  intros lots g l' Hg. unfold realised_of, of_lot. rewrite Hg.
  induction lots as [|l lots IH]; intros Hin Hnd; [destruct Hin|].
  cbn [map sumQ]. cbn [map] in Hnd. inversion Hnd as [|? ? Hni Hnd']; subst.
  destruct Hin as [->|Hin].
  - rewrite Z.eqb_refl.
    assert (Z0 : sumQ (map (fun l => if (i_row l' =? i_row l)%Z then qcost l * qamt (g_amt g) / qamt (i_crypto_in l) else 0) lots) == 0).
    { clear IH Hnd Hnd'. induction lots as [|x lots IHl]; cbn [map sumQ]; [reflexivity|].
      destruct (Z.eqb_spec (i_row l') (i_row x)) as [E|NE].
      - exfalso. apply Hni. rewrite E. left. reflexivity.
      - rewrite IHl; [ring|]. intros H. apply Hni. right. exact H. }
    rewrite Z0. ring.
  - destruct (Z.eqb_spec (i_row l') (i_row l)) as [E|NE].
    + exfalso. apply Hni. rewrite <- E. apply in_map. exact Hin.
    + rewrite (IH Hin Hnd'). ring.
Qed.

Lemma no_hit : forall lots g, g_lot g = None ->
  sumQ (map (fun l => if of_lot l g then qcost l * qamt (g_amt g) / qamt (i_crypto_in l) else 0) lots) == 0.
Proof.
  intros lots g Hg. unfold of_lot. rewrite Hg. induction lots as [|l lots IH]; cbn [map sumQ]; [reflexivity|rewrite IH; ring].
Qed.

Lemma consumed_cost : forall gls l, ~ qamt (i_crypto_in l) == 0 ->
  qcost l * qamt (consumed gls l) / qamt (i_crypto_in l) ==
  sumQ (map (fun g => if of_lot l g then qcost l * qamt (g_amt g) / qamt (i_crypto_in l) else 0) gls).
Proof.
  intros gls l HA. unfold consumed. induction gls as [|g gls IH]; cbn [filter map sumZ sumQ].
  - unfold qamt. cbn. field. exact HA.
  - destruct (of_lot l g); cbn [map sumZ].
    + rewrite <- IH. unfold qamt. rewrite inject_Z_plus. field. exact HA.
    + rewrite <- IH. ring.
Qed.

Lemma sumQ_swap {A B} (f : A -> B -> Q) (la : list A) (lb : list B) :
  sumQ (map (fun a => sumQ (map (fun b => f a b) lb)) la) == sumQ (map (fun b => sumQ (map (fun a => f a b) la)) lb).
Proof.
  induction la as [|a la IH]; cbn [map sumQ].
  - induction lb as [|b lb IHb]; cbn [map sumQ]; [reflexivity|rewrite <- IHb; ring].
  - rewrite IH. clear IH. induction lb as [|b lb IHb]; cbn [map sumQ]; [ring|]. rewrite <- IHb. ring.
Qed.

Theorem conservation_exact : forall lots gls,
  NoDup (map i_row lots) ->
  (forall l, In l lots -> (0 < i_crypto_in l)%Z) ->
  (forall g l, In g gls -> g_lot g = Some l -> In l lots) ->
  realised_exact gls + unrealised_exact lots gls == acquired_exact lots.
Proof.
  intros lots gls Hnd Hpos Hcl.
  assert (HA : forall l, In l lots -> ~ qamt (i_crypto_in l) == 0).
  { intros l Hl. unfold qamt. apply inject_Z_nz. specialize (Hpos l Hl). lia. }
  (* realised = sum over lots of the cost of what was consumed from each *)
  assert (R : realised_exact gls == sumQ (map (fun l => qcost l * qamt (consumed gls l) / qamt (i_crypto_in l)) lots)).
  { rewrite (sumQ_ext _ (fun l => sumQ (map (fun g => if of_lot l g then qcost l * qamt (g_amt g) / qamt (i_crypto_in l) else 0) gls)) lots)
      by (intros l Hl; apply consumed_cost, HA, Hl).
    rewrite (sumQ_swap (fun l g => if of_lot l g then qcost l * qamt (g_amt g) / qamt (i_crypto_in l) else 0) lots gls).
    unfold realised_exact. apply sumQ_ext. intros g Hg. symmetry.
    destruct (g_lot g) as [l'|] eqn:El.
    - apply (single_hit lots g l' El (Hcl g l' Hg El) Hnd).
    - rewrite (no_hit lots g El). unfold realised_of. rewrite El. reflexivity. }
  rewrite R. unfold unrealised_exact, acquired_exact.
  clear R Hcl Hnd. induction lots as [|l lots IH]; cbn [map sumQ]; [ring|].
  assert (IH' := IH (fun x Hx => Hpos x (or_intror Hx)) (fun x Hx => HA x (or_intror Hx))).
  assert (E : qcost l * qamt (consumed gls l) / qamt (i_crypto_in l) + unrealised_of gls l == qcost l).
  { unfold unrealised_of, remaining, qamt. rewrite inject_Z_minus. field. apply (HA l). left. reflexivity. }
  lra.
Qed.

(** * Part D: accuracy of the decimal figures *)
(** [E n] = (1 + EPS)^n - 1: the relative error after n roundings to 31 digits *)
Fixpoint E (n : nat) : Q := match n with O => 0 | S k => E k + EPS + E k * EPS end.

Lemma EPS_pos : 0 < EPS.
Proof. reflexivity. Qed.
Lemma E_nonneg n : 0 <= E n.
Proof. induction n as [|n IH]; cbn [E]; [lra|]. pose proof EPS_pos. nra. Qed.
Lemma E_S_le n : E n <= E (S n).
Proof. cbn [E]. pose proof (E_nonneg n). pose proof EPS_pos. nra. Qed.
Lemma E_mono a b : (a <= b)%nat -> E a <= E b.
Proof. induction 1 as [|b H IH]; [lra|]. pose proof (E_S_le b). lra. Qed.
Lemma E_mul a b : 1 + E (a + b) == (1 + E a) * (1 + E b).
Proof. induction a as [|a IH]; cbn [plus E]; [ring|]. assert (X : E (a + b) == (1 + E a) * (1 + E b) - 1) by lra. rewrite X. ring. Qed.
Lemma E_1 : E 1 == EPS.
Proof. cbn [E]. ring. Qed.
Lemma E_step n : E (S n) == E n + EPS * (1 + E n).
Proof. cbn [E]. ring. Qed.

Lemma abs_le x y : Qabs x <= y <-> - y <= x /\ x <= y.
Proof. apply Qabs_Qle_condition. Qed.
Lemma abs_of_nonneg x : 0 <= x -> Qabs x == x.
Proof. apply Qabs_pos. Qed.

(** one more rounding after an addition of two approximated non-negative quantities *)
Lemma add_step (X Y a t r e : Q) : 0 <= X -> 0 <= Y -> 0 <= e ->
  Qabs (a - X) <= e * X -> Qabs (t - Y) <= e * Y -> Qabs (r - (a + t)) <= EPS * Qabs (a + t) ->
  Qabs (r - (X + Y)) <= (e + EPS + e * EPS) * (X + Y).
Proof.
  intros HX HY He Ha Ht Hr. apply abs_le in Ha. apply abs_le in Ht.
  assert (Hs : Qabs (a + t) <= (1 + e) * (X + Y)) by (apply abs_le; split; nra).
  assert (Hs2 : EPS * Qabs (a + t) <= EPS * ((1 + e) * (X + Y))).
  { apply Qmult_le_l; [exact EPS_pos|exact Hs]. }
  assert (Hr' : Qabs (r - (a + t)) <= EPS * ((1 + e) * (X + Y))) by lra.
  apply abs_le in Hr'. apply abs_le. split; nra.
Qed.

(** a decimal sum of approximations of non-negative quantities, each within [E m]: after n additions [E (m + n)] *)
Lemma dadd_fold_rel : forall (l : list (dec * Q)) (acc : dec) (X : Q) (m : nat),
  0 <= X -> Qabs (to_q acc - X) <= E m * X ->
  (forall p, In p l -> 0 <= snd p /\ Qabs (to_q (fst p) - snd p) <= E m * snd p) ->
  Qabs (to_q (fold_left (fun a p => dadd a (fst p)) l acc) - (X + sumQ (map snd l))) <= E (m + length l) * (X + sumQ (map snd l)).
Proof.
  induction l as [|[d q] l IH]; intros acc X m HX Ha Hl; cbn [fold_left map sumQ length fst snd].
  - rewrite Nat.add_0_r. assert (Eq : X + 0 == X) by ring. rewrite Eq. exact Ha.
  - destruct (Hl (d, q) (or_introl eq_refl)) as [Hq Hd]. cbn [fst snd] in Hq, Hd.
    assert (Hl' : forall p, In p l -> 0 <= snd p /\ Qabs (to_q (fst p) - snd p) <= E (S m) * snd p).
    { intros p Hp. destruct (Hl p (or_intror Hp)) as [H1 H2]. split; [exact H1|]. pose proof (E_S_le m). nra. }
    assert (Hstep : Qabs (to_q (dadd acc d) - (X + q)) <= E (S m) * (X + q)).
    { cbn [E]. apply (add_step X q (to_q acc) (to_q d)); try assumption; [apply E_nonneg|apply dadd_error]. }
    assert (HXq : 0 <= X + q) by lra.
    specialize (IH (dadd acc d) (X + q) (S m) HXq Hstep Hl').
    replace (m + S (length l))%nat with (S m + length l)%nat by lia.
    assert (Eq : X + (q + sumQ (map snd l)) == X + q + sumQ (map snd l)) by ring. rewrite Eq. exact IH.
Qed.

Lemma sumQ_nonneg l : (forall x, In x l -> 0 <= x) -> 0 <= sumQ l.
Proof.
  induction l as [|x l IH]; intros H; cbn [sumQ]; [lra|].
  pose proof (H x (or_introl eq_refl)). assert (0 <= sumQ l) by (apply IH; intros y Hy; apply H; right; exact Hy). lra.
Qed.

(** grid values as rationals *)
Lemma to_q_grid_ratio a A : (A <> 0)%Z -> to_q (of_grid a) / to_q (of_grid A) == inject_Z a / inject_Z A.
Proof.
  intros HA. unfold of_grid. rewrite !to_q_mk. field. split; [apply inject_Z_nz; exact HA|apply tenp_nz].
Qed.
Lemma to_q_one : to_q (1, 0)%Z == 1.
Proof. reflexivity. Qed.
Lemma to_q_dzero : to_q dzero == 0.
Proof. reflexivity. Qed.

Lemma fold_left_map' {A B C} (f : A -> B -> A) (g : C -> B) l a : fold_left f (map g l) a = fold_left (fun a x => f a (g x)) l a.
Proof. revert a. induction l as [|x l IH]; intros a; cbn [map fold_left]; [reflexivity|apply IH]. Qed.

(** ** D1: the sold percentage of a lot *)
Definition pct_dec (A amt : Z) : dec := match ddiv (of_grid amt) (of_grid A) with Some p => p | None => dzero end.
Definition sold_dec (A : Z) (amts : list Z) : dec := fold_left (fun acc amt => dadd acc (pct_dec A amt)) amts dzero.

Lemma pct_dec_error A amt : (0 < A)%Z -> (0 <= amt)%Z ->
  0 <= inject_Z amt / inject_Z A /\
  Qabs (to_q (pct_dec A amt) - inject_Z amt / inject_Z A) <= EPS * (inject_Z amt / inject_Z A).
Proof.
  intros HA Ha.
  assert (Hnn : 0 <= inject_Z amt / inject_Z A).
  { apply Qle_shift_div_l; [change 0 with (inject_Z 0); rewrite <- Zlt_Qlt; exact HA|].
    assert (X : 0 * inject_Z A == 0) by ring. rewrite X. change 0 with (inject_Z 0). rewrite <- Zle_Qle. exact Ha. }
  split; [exact Hnn|]. unfold pct_dec.
  destruct (ddiv (of_grid amt) (of_grid A)) as [p|] eqn:Ed.
  - pose proof (ddiv_error _ _ _ Ed) as H. rewrite to_q_grid_ratio in H by lia. rewrite (abs_of_nonneg _ Hnn) in H. exact H.
  - apply ddiv_none in Ed. cbn in Ed. lia.
Qed.

Theorem sold_pct_accuracy : forall A amts, (0 < A)%Z -> (forall x, In x amts -> (0 <= x)%Z) ->
  Qabs (to_q (sold_dec A amts) - inject_Z (sumZ amts) / inject_Z A) <= E (S (length amts)) * (inject_Z (sumZ amts) / inject_Z A).
Proof.
  intros A amts HA Hpos. unfold sold_dec.
  pose proof (dadd_fold_rel (map (fun amt => (pct_dec A amt, inject_Z amt / inject_Z A)) amts) dzero 0 1) as G.
  rewrite fold_left_map' in G. cbn [fst] in G. rewrite map_length, map_map in G. cbn [snd] in G.
  assert (Es : sumQ (map (fun x => inject_Z x / inject_Z A) amts) == inject_Z (sumZ amts) / inject_Z A).
  { clear G Hpos. assert (HA' : ~ inject_Z A == 0) by (apply inject_Z_nz; lia).
    induction amts as [|x amts IH]; cbn [map sumQ sumZ]; [field; exact HA'|]. rewrite IH, inject_Z_plus. field. exact HA'. }
  assert (G' : Qabs (to_q (fold_left (fun a amt => dadd a (pct_dec A amt)) amts dzero) - (0 + sumQ (map (fun x => inject_Z x / inject_Z A) amts)))
               <= E (1 + length amts) * (0 + sumQ (map (fun x => inject_Z x / inject_Z A) amts))).
  { apply G; [lra| |].
    - rewrite to_q_dzero. assert (X : 0 - 0 == 0) by ring. rewrite X. cbn. lra.
    - intros p Hp. apply in_map_iff in Hp. destruct Hp as (amt & <- & Hamt). cbn [fst snd].
      destruct (pct_dec_error A amt HA (Hpos amt Hamt)) as [H1 H2]. split; [exact H1|]. rewrite E_1. exact H2. }
  rewrite Es in G'. assert (X : 0 + inject_Z (sumZ amts) / inject_Z A == inject_Z (sumZ amts) / inject_Z A) by ring.
  rewrite X in G'. exact G'.
Qed.

(** ** D2: the unsold cost of one lot,  cost x (1 - sold %) *)
Lemma one_minus_step (S s r e : Q) : 0 <= S -> S <= 1 -> 0 <= e ->
  Qabs (s - S) <= e * S -> Qabs (r - (1 - s)) <= EPS * Qabs (1 - s) -> Qabs (r - (1 - S)) <= e + EPS + e * EPS.
Proof.
  intros H0 H1 He Hs Hr. apply abs_le in Hs.
  assert (Ha : Qabs (1 - s) <= 1 + e) by (apply abs_le; split; nra).
  assert (Hb : EPS * Qabs (1 - s) <= EPS * (1 + e)) by (apply Qmult_le_l; [exact EPS_pos|exact Ha]).
  assert (Hr' : Qabs (r - (1 - s)) <= EPS * (1 + e)) by lra.
  apply abs_le in Hr'. apply abs_le. split; nra.
Qed.

Lemma mul_step (c r R u d : Q) : 0 <= c -> 0 <= R -> R <= 1 -> 0 <= d ->
  Qabs (r - R) <= d -> Qabs (u - c * r) <= EPS * Qabs (c * r) -> Qabs (u - c * R) <= c * (d + EPS + d * EPS).
Proof.
  intros Hc H0 H1 Hd Hr Hu. apply abs_le in Hr.
  assert (Ha : Qabs (c * r) <= c * (1 + d)).
  { rewrite Qabs_Qmult, (abs_of_nonneg c Hc). assert (Qabs r <= 1 + d) by (apply abs_le; split; lra).
    rewrite !(Qmult_comm c). apply Qmult_le_compat_r; assumption. }
  assert (Hb : EPS * Qabs (c * r) <= EPS * (c * (1 + d))) by (apply Qmult_le_l; [exact EPS_pos|exact Ha]).
  assert (Hu' : Qabs (u - c * r) <= EPS * (c * (1 + d))) by lra.
  apply abs_le in Hu'. apply abs_le. split; nra.
Qed.

Definition unreal_dec (cost : dec) (A : Z) (amts : list Z) : dec := dmul cost (dsub (1, 0)%Z (sold_dec A amts)).

Lemma ratio_bounds A x : (0 < A)%Z -> (0 <= x)%Z -> (x <= A)%Z -> 0 <= inject_Z x / inject_Z A /\ inject_Z x / inject_Z A <= 1.
Proof.
  intros HA H0 H1. assert (HA' : 0 < inject_Z A) by (change 0 with (inject_Z 0); rewrite <- Zlt_Qlt; exact HA). split.
  - apply Qle_shift_div_l; [exact HA'|]. assert (X : 0 * inject_Z A == 0) by ring. rewrite X. change 0 with (inject_Z 0). rewrite <- Zle_Qle. exact H0.
  - apply Qle_shift_div_r; [exact HA'|]. assert (X : 1 * inject_Z A == inject_Z A) by ring. rewrite X. rewrite <- Zle_Qle. exact H1.
Qed.

Theorem lot_unrealised_accuracy : forall cost A amts,
  (0 < A)%Z -> (forall x, In x amts -> (0 <= x)%Z) -> (sumZ amts <= A)%Z -> 0 <= to_q cost ->
  Qabs (to_q (unreal_dec cost A amts) - to_q cost * (inject_Z (A - sumZ amts) / inject_Z A)) <= to_q cost * E (length amts + 3).
Proof.
  intros cost A amts HA Hpos Hle Hc.
  assert (Hsum : (0 <= sumZ amts)%Z).
  { clear -Hpos. induction amts as [|x l IH]; cbn [sumZ]; [lia|]. pose proof (Hpos x (or_introl eq_refl)).
    assert (0 <= sumZ l)%Z by (apply IH; intros y Hy; apply Hpos; right; exact Hy). lia. }
  destruct (ratio_bounds A (sumZ amts) HA Hsum Hle) as [S0 S1].
  set (S := inject_Z (sumZ amts) / inject_Z A) in *.
  assert (ER : inject_Z (A - sumZ amts) / inject_Z A == 1 - S).
  { unfold S. rewrite inject_Z_minus. field. apply inject_Z_nz. lia. }
  rewrite ER. unfold unreal_dec.
  pose proof (sold_pct_accuracy A amts HA Hpos) as H1. fold S in H1.
  pose proof (dsub_error (1, 0)%Z (sold_dec A amts)) as H2. rewrite to_q_one in H2.
  pose proof (one_minus_step S _ _ _ S0 S1 (E_nonneg _) H1 H2) as H3.
  pose proof (dmul_error cost (dsub (1, 0)%Z (sold_dec A amts))) as H4.
  assert (R0 : 0 <= 1 - S) by lra. assert (R1 : 1 - S <= 1) by lra.
  assert (Hd : 0 <= E (Datatypes.S (length amts)) + EPS + E (Datatypes.S (length amts)) * EPS).
  { pose proof (E_nonneg (Datatypes.S (length amts))). pose proof EPS_pos. nra. }
  pose proof (mul_step (to_q cost) _ (1 - S) _ _ Hc R0 R1 Hd H3 H4) as H5.
  replace (length amts + 3)%nat with (Datatypes.S (Datatypes.S (Datatypes.S (length amts)))) by lia.
  cbn [E]. cbn [E] in H5. exact H5.
Qed.

(** ** a lot is counted only if its unsold cost is positive *)
Lemma rhe_div_pos_inv n d s : (0 < d)%Z -> (0 < rhe_div n d s)%Z -> (0 < n)%Z.
Proof.
  intros Hd H. unfold rhe_div in H. destruct (Z.ltb_spec n 0) as [Hn|Hn].
  - exfalso. set (a := Z.abs n) in *. assert (0 <= a / d)%Z by (apply Z.div_pos; [unfold a; lia|lia]).
    destruct ((2 * (a mod d) >? d)%Z || ((2 * (a mod d) =? d)%Z && (s || Z.odd (a / d)))); lia.
  - destruct (Z.eq_dec n 0) as [->|NE]; [|lia]. exfalso. cbn [Z.abs] in H. rewrite Z.div_0_l, Z.mod_0_l in H by lia.
    replace (2 * 0)%Z with 0%Z in H by lia.
    assert (E1 : (0 >? d)%Z = false) by lia. assert (E2 : (0 =? d)%Z = false) by lia. rewrite E1, E2 in H. cbn in H. lia.
Qed.

Lemma quant_pos_inv k x r : quant k x = Some r -> (0 < r)%Z -> 0 < to_q x.
Proof.
  destruct x as [m e]. unfold quant. intros H Hr.
  assert (Hm : (0 < m)%Z).
  { destruct (- k <=? e)%Z eqn:Ek.
    - destruct (ndigits (m * pow10 (e + k)) >? PREC)%Z; [discriminate H|]. injection H as <-.
      assert (0 < pow10 (e + k))%Z by (unfold pow10; apply p10_gt0; lia). nia.
    - destruct (ndigits (rhe_div m (pow10 (- k - e)) false) >? PREC)%Z; [discriminate H|]. injection H as <-.
      apply (rhe_div_pos_inv m (pow10 (- k - e)) false); [unfold pow10; apply p10_gt0; lia|exact Hr]. }
  rewrite to_q_mk. apply Qmult_lt_0_compat; [change 0 with (inject_Z 0); rewrite <- Zlt_Qlt; exact Hm|apply tenp_pos].
Qed.

Lemma dgtb_zero_pos u : dgtb u dzero = true -> 0 < to_q u.
Proof.
  unfold dgtb, optb, dgt, cmp13, option_map. destruct (quant CRYPTO_DECIMALS (dsub u dzero)) as [r|] eqn:Eq; [|discriminate].
  intros Hr. assert (Hr' : (0 < r)%Z) by lia.
  pose proof (quant_pos_inv _ _ _ Eq Hr') as Hv.
  pose proof (dsub_error u dzero) as Hd. rewrite to_q_dzero in Hd.
  destruct (Qlt_le_dec 0 (to_q u)) as [Hp|Hn]; [exact Hp|exfalso].
  assert (X : to_q u - 0 == to_q u) by ring. rewrite X in Hd.
  assert (Ha : Qabs (to_q u) == - to_q u) by (apply Qabs_neg; exact Hn). rewrite Ha in Hd. apply abs_le in Hd.
  pose proof EPS_pos. assert (EPS <= 1) by (unfold EPS; discriminate). nra.
Qed.

Lemma counted_pos c l : lot_counted c l = true -> 0 < to_q (lot_unrealised c l).
Proof. unfold lot_counted, gen_op_lot_counts. apply dgtb_zero_pos. Qed.

(** positivity survives a rounded addition *)
Lemma dadd_pos a b : 0 <= to_q a -> 0 < to_q b -> 0 < to_q (dadd a b).
Proof.
  intros Ha Hb. pose proof (dadd_error a b) as H. rewrite (abs_of_nonneg (to_q a + to_q b)) in H by lra. apply abs_le in H.
  pose proof EPS_pos. assert (EPS < 1) by reflexivity. nra.
Qed.

Lemma cost_fold_nonneg c : forall lots acc, 0 <= to_q acc -> 0 <= to_q (fold_left (cost_acc c) lots acc).
Proof.
  induction lots as [|l lots IH]; intros acc H; cbn [fold_left]; [exact H|]. apply IH. unfold cost_acc.
  destruct (lot_counted c l) eqn:El; [|exact H]. apply Qlt_le_weak. apply dadd_pos; [exact H|apply counted_pos; exact El].
Qed.

Lemma cost_fold_pos c : forall lots acc, 0 <= to_q acc -> (0 < to_q acc \/ existsb (lot_counted c) lots = true) ->
  0 < to_q (fold_left (cost_acc c) lots acc).
Proof.
  induction lots as [|l lots IH]; intros acc H0 H; cbn [fold_left existsb] in *.
  - destruct H as [H|H]; [exact H|discriminate H].
  - unfold cost_acc at 2. destruct (lot_counted c l) eqn:El.
    + assert (P : 0 < to_q (dadd acc (lot_unrealised c l))) by (apply dadd_pos; [exact H0|apply counted_pos; exact El]).
      apply IH; [lra|left; exact P].
    + cbn [orb] in H. apply IH; assumption.
Qed.

(** the grand total is positive (so no weight divides by zero) as soon as one asset is listed *)
Theorem total_cost_positive : forall cs s, first_pass cs = Ok s -> fp_costs s <> [] -> 0 < to_q (fp_total s) /\ fst (fp_total s) <> 0%Z.
Proof.
  intros cs s H Hne. destruct (first_pass_spec cs s H) as (_ & Hc & _ & _ & _ & Ht).
  assert (Hex : exists c, In c cs /\ asset_listed c = true).
  { rewrite Hc in Hne. clear -Hne. revert Hne. generalize 0%Z. induction cs as [|c cs IH]; intros k Hne; cbn [number_from entries flat_map] in Hne; [congruence|].
    cbn [fst snd] in Hne. unfold cost_opt at 1 in Hne. destruct (asset_listed c) eqn:El.
    - exists c. split; [left; reflexivity|exact El].
    - cbn [opt_entry app] in Hne. destruct (IH (k + 1)%Z Hne) as (c' & Hin & Hl). exists c'. split; [right; exact Hin|exact Hl]. }
  assert (P : 0 < to_q (fp_total s)).
  { rewrite Ht. clear -Hex. destruct Hex as (c0 & Hin & Hl).
    assert (G : forall l acc, 0 <= to_q acc -> (0 < to_q acc \/ In c0 l) ->
                0 < to_q (fold_left (fun acc c => fold_left (cost_acc c) (cd_ins c) acc) l acc)).
    { induction l as [|c l IH]; intros acc H0 H; cbn [fold_left].
      - destruct H as [H|[]]. exact H.
      - destruct H as [H|[->|H]].
        + apply IH; [apply cost_fold_nonneg; exact H0|left; apply cost_fold_pos; [exact H0|left; exact H]].
        + apply IH; [apply cost_fold_nonneg; exact H0|left; apply cost_fold_pos; [exact H0|right; exact Hl]].
        + apply IH; [apply cost_fold_nonneg; exact H0|right; exact H]. }
    apply G; [rewrite to_q_dzero; lra|right; exact Hin]. }
  split; [exact P|]. intros Hz. apply to_q_zero_iff in Hz. lra.
Qed.

(** ** the sold-percentage table of ComputedData, lot by lot *)
Definition in_window (from_ to_ : Z) (l : intx) : bool :=
  negb ((local_day (i_ts l) <? from_)%Z || (to_ <? local_day (i_ts l))%Z).
Definition counts_for (from_ to_ r : Z) (g : gl) : bool :=
  match g_lot g with Some l => (i_row l =? r)%Z && in_window from_ to_ l | None => false end.
Definition pct_of (g : gl) : dec := match g_lot g with Some l => pct_dec (i_crypto_in l) (g_amt g) | None => dzero end.

Lemma sold_fold_err from_ to_ gls e : fold_left (sold_pct_add from_ to_) gls (Err e) = Err e.
Proof. induction gls as [|g gls IH]; cbn [fold_left sold_pct_add]; [reflexivity|exact IH]. Qed.

Lemma sold_fold_lot from_ to_ r : forall gls m0 m,
  fold_left (sold_pct_add from_ to_) gls (Ok m0) = Ok m ->
  aget_d dzero r m = fold_left (fun acc g => dadd acc (pct_of g)) (filter (counts_for from_ to_ r) gls) (aget_d dzero r m0).
Proof.
  induction gls as [|g gls IH]; intros m0 m H; cbn [fold_left filter] in *.
  - injection H as <-. reflexivity.
  - unfold sold_pct_add at 2 in H. unfold counts_for at 1, in_window.
    destruct (g_lot g) as [l|] eqn:El; [|apply (IH _ _ H)].
    destruct ((local_day (i_ts l) <? from_)%Z || (to_ <? local_day (i_ts l))%Z) eqn:Ew.
    + rewrite andb_false_r. apply (IH _ _ H).
    + destruct (gl_lot_pct (g_ev g) (Some l) (g_amt g)) as [p|] eqn:Ep; [|rewrite sold_fold_err in H; discriminate H].
      rewrite (IH _ _ H). cbn [negb]. rewrite andb_true_r.
      assert (Epct : pct_of g = p).
      { unfold pct_of, pct_dec. rewrite El. unfold gl_lot_pct, odiv, in_crypto_balance_change in Ep. rewrite Ep. reflexivity. }
      destruct (i_row l =? r)%Z eqn:Er.
      * cbn [fold_left]. rewrite aget_d_aset. assert (E1 : (r =? i_row l)%Z = true) by lia. rewrite E1.
        assert (r = i_row l) by lia. subst r. rewrite Epct. reflexivity.
      * rewrite aget_d_aset. assert (E1 : (r =? i_row l)%Z = false) by lia. rewrite E1. reflexivity.
Qed.

(** what the theorems need from an asset's ComputedData (established by [compute] and by C02 for matcher output) *)
Record op_wf (from_ to_ : Z) (c : computed) : Prop := {
  wf_rows : NoDup (map i_row (cd_ins c));
  wf_amount : forall l, In l (cd_ins c) -> (0 < i_crypto_in l)%Z;
  wf_cost : forall l, In l (cd_ins c) -> 0 <= qcost l;
  wf_window : forall l, In l (cd_ins c) -> in_window from_ to_ l = true;
  wf_closed : forall g l, In g (cd_gls c) -> g_lot g = Some l -> In l (cd_ins c);
  wf_amts : forall g, In g (cd_gls c) -> (0 <= g_amt g)%Z;
  wf_not_overspent : forall l, In l (cd_ins c) -> (consumed (cd_gls c) l <= i_crypto_in l)%Z;
  wf_sold : fold_left (sold_pct_add from_ to_) (cd_gls c) (Ok []) = Ok (cd_sold_pct c) }.

Section LotAccuracy.
Context (from_ to_ : Z) (c : computed) (W : op_wf from_ to_ c).

Definition lot_amts (l : intx) : list Z := map g_amt (filter (of_lot l) (cd_gls c)).

Lemma same_lot l l' : In l (cd_ins c) -> In l' (cd_ins c) -> i_row l' = i_row l -> l' = l.
Proof.
  intros H1 H2 Hr. pose proof (wf_rows _ _ _ W) as Hnd. revert H1 H2 Hnd. generalize (cd_ins c). intros lots.
  induction lots as [|x lots IH]; intros H1 H2 Hnd; [destruct H1|]. cbn [map] in Hnd. inversion Hnd as [|? ? Hni Hnd']; subst.
  destruct H1 as [->|H1], H2 as [->|H2]; try reflexivity.
  - exfalso. apply Hni. rewrite <- Hr. apply in_map. exact H2.
  - exfalso. apply Hni. rewrite Hr. apply in_map. exact H1.
  - apply IH; assumption.
Qed.

Lemma of_lot_same l g : In l (cd_ins c) -> In g (cd_gls c) -> of_lot l g = true -> g_lot g = Some l.
Proof.
  intros Hl Hg. unfold of_lot. destruct (g_lot g) as [l'|] eqn:El; [|discriminate]. intros Hr.
  f_equal. apply same_lot; [exact Hl|exact (wf_closed _ _ _ W g l' Hg El)|lia].
Qed.

Lemma counts_for_of_lot l g : In l (cd_ins c) -> In g (cd_gls c) -> counts_for from_ to_ (i_row l) g = of_lot l g.
Proof.
  intros Hl Hg. destruct (of_lot l g) eqn:Eo.
  - pose proof (of_lot_same l g Hl Hg Eo) as El. unfold counts_for. rewrite El, Z.eqb_refl, (wf_window _ _ _ W l Hl). reflexivity.
  - unfold counts_for, of_lot in *. destruct (g_lot g); [|reflexivity]. rewrite Eo. reflexivity.
Qed.

Lemma sold_pct_of_lot l : In l (cd_ins c) -> sold_pct_of c l = sold_dec (i_crypto_in l) (lot_amts l).
Proof.
  intros Hl. unfold sold_pct_of. rewrite (sold_fold_lot from_ to_ (i_row l) _ _ _ (wf_sold _ _ _ W)).
  cbn [aget_d aget]. unfold sold_dec, lot_amts. rewrite fold_left_map'.
  assert (G : forall gls, (forall g, In g gls -> In g (cd_gls c)) -> forall acc,
            fold_left (fun acc g => dadd acc (pct_of g)) (filter (counts_for from_ to_ (i_row l)) gls) acc =
            fold_left (fun a x => dadd a (pct_dec (i_crypto_in l) (g_amt x))) (filter (of_lot l) gls) acc).
  { induction gls as [|g gls IH]; intros Hsub acc; cbn [filter]; [reflexivity|].
    assert (Hg : In g (cd_gls c)) by (apply Hsub; left; reflexivity).
    assert (Hsub' : forall g0, In g0 gls -> In g0 (cd_gls c)) by (intros g0 H0; apply Hsub; right; exact H0).
    rewrite (counts_for_of_lot l g Hl Hg). destruct (of_lot l g) eqn:Eo; [|apply IH; exact Hsub'].
    cbn [fold_left]. replace (pct_of g) with (pct_dec (i_crypto_in l) (g_amt g)) by (unfold pct_of; rewrite (of_lot_same l g Hl Hg Eo); reflexivity).
    apply IH. exact Hsub'. }
  apply G. auto.
Qed.

Lemma lot_unrealised_eq l : In l (cd_ins c) ->
  lot_unrealised c l = unreal_dec (i_fiat_in_with_fee l) (i_crypto_in l) (lot_amts l).
Proof. intros Hl. unfold lot_unrealised, gen_op_lot_cost, unreal_dec. rewrite (sold_pct_of_lot l Hl). reflexivity. Qed.

Lemma lot_amts_sum l : sumZ (lot_amts l) = consumed (cd_gls c) l.
Proof. reflexivity. Qed.

(** D2 on the model: the decimal unsold cost of a lot vs  cost x remaining / amount *)
Theorem lot_unrealised_model : forall l, In l (cd_ins c) ->
  Qabs (to_q (lot_unrealised c l) - unrealised_of (cd_gls c) l) <= qcost l * E (length (lot_amts l) + 3).
Proof.
  intros l Hl. rewrite (lot_unrealised_eq l Hl).
  assert (Eu : unrealised_of (cd_gls c) l == to_q (i_fiat_in_with_fee l) * (inject_Z (i_crypto_in l - sumZ (lot_amts l)) / inject_Z (i_crypto_in l))).
  { unfold unrealised_of, remaining, qcost, qamt. rewrite lot_amts_sum. field. apply inject_Z_nz. pose proof (wf_amount _ _ _ W l Hl). lia. }
  rewrite Eu. apply lot_unrealised_accuracy.
  - exact (wf_amount _ _ _ W l Hl).
  - intros x Hx. unfold lot_amts in Hx. apply in_map_iff in Hx. destruct Hx as (g & <- & Hg). apply filter_In in Hg.
    apply (wf_amts _ _ _ W). tauto.
  - rewrite lot_amts_sum. exact (wf_not_overspent _ _ _ W l Hl).
  - exact (wf_cost _ _ _ W l Hl).
Qed.

Lemma unrealised_of_bounds l : In l (cd_ins c) -> 0 <= unrealised_of (cd_gls c) l /\ unrealised_of (cd_gls c) l <= qcost l.
Proof.
  intros Hl. pose proof (wf_amount _ _ _ W l Hl) as HA. pose proof (wf_not_overspent _ _ _ W l Hl) as Ho. pose proof (wf_cost _ _ _ W l Hl) as Hc.
  assert (Hrem : (0 <= remaining (cd_gls c) l)%Z) by (unfold remaining; lia).
  assert (Hcons : (0 <= consumed (cd_gls c) l)%Z).
  { unfold consumed. assert (G : forall gs, (forall g, In g gs -> (0 <= g_amt g)%Z) -> (0 <= sumZ (map g_amt gs))%Z).
    { induction gs as [|g gs IH]; intros H; cbn [map sumZ]; [lia|]. pose proof (H g (or_introl eq_refl)).
      assert (0 <= sumZ (map g_amt gs))%Z by (apply IH; intros g' Hg'; apply H; right; exact Hg'). lia. }
    apply G. intros g Hg. apply filter_In in Hg. apply (wf_amts _ _ _ W). tauto. }
  assert (Hle : (remaining (cd_gls c) l <= i_crypto_in l)%Z) by (unfold remaining; lia).
  destruct (ratio_bounds _ _ HA Hrem Hle) as [R0 R1].
  assert (Eu : unrealised_of (cd_gls c) l == qcost l * (inject_Z (remaining (cd_gls c) l) / inject_Z (i_crypto_in l))).
  { unfold unrealised_of, qamt. field. apply inject_Z_nz. lia. }
  rewrite Eu. split; nra.
Qed.
End LotAccuracy.

Lemma filter_length_le' {A} (f : A -> bool) l : (length (filter f l) <= length l)%nat.
Proof. induction l as [|x l IH]; cbn [filter length]; [lia|]. destruct (f x); cbn [length]; lia. Qed.

(** ** D3: the asset's unrealised cost basis (decimal sum over the counted lots) *)
Section AssetAccuracy.
Context (from_ to_ : Z) (c : computed) (W : op_wf from_ to_ c).

Definition counted_lots : list intx := filter (lot_counted c) (cd_ins c).

Lemma cost_fold_filter : forall lots acc,
  fold_left (cost_acc c) lots acc = fold_left (fun a l => dadd a (lot_unrealised c l)) (filter (lot_counted c) lots) acc.
Proof.
  induction lots as [|l lots IH]; intros acc; cbn [fold_left filter]; [reflexivity|].
  unfold cost_acc at 2. destruct (lot_counted c l); cbn [fold_left]; apply IH.
Qed.

Lemma lots_sum_bounds e : forall L, (forall l, In l L -> In l (cd_ins c)) ->
  (forall l, In l L -> Qabs (to_q (lot_unrealised c l) - unrealised_of (cd_gls c) l) <= qcost l * e) ->
  Qabs (sumQ (map (fun l => to_q (lot_unrealised c l)) L) - sumQ (map (unrealised_of (cd_gls c)) L)) <= e * sumQ (map qcost L) /\
  0 <= sumQ (map (unrealised_of (cd_gls c)) L) /\ sumQ (map (unrealised_of (cd_gls c)) L) <= sumQ (map qcost L).
Proof.
  induction L as [|l L IH]; intros Hsub Herr; cbn [map sumQ].
  - assert (X : 0 - 0 == 0) by ring. rewrite X. cbn. split; [lra|split; lra].
  - destruct IH as (I1 & I2 & I3); [intros x Hx; apply Hsub; right; exact Hx|intros x Hx; apply Herr; right; exact Hx|].
    pose proof (Herr l (or_introl eq_refl)) as H1. destruct (unrealised_of_bounds from_ to_ c W l (Hsub l (or_introl eq_refl))) as [B0 B1].
    apply abs_le in I1. apply abs_le in H1. split; [apply abs_le; split; lra|split; lra].
Qed.

Theorem asset_cost_accuracy :
  Qabs (to_q (asset_cost_of c) - sumQ (map (unrealised_of (cd_gls c)) counted_lots))
  <= E (length counted_lots + (length (cd_gls c) + 3)) * sumQ (map qcost counted_lots).
Proof.
  set (L := counted_lots). set (K := length (cd_gls c)).
  assert (Hsub : forall l, In l L -> In l (cd_ins c)) by (intros l Hl; apply filter_In in Hl; tauto).
  assert (Hcnt : forall l, In l L -> lot_counted c l = true) by (intros l Hl; apply filter_In in Hl; tauto).
  (* the decimal sum vs the exact sum of its own terms *)
  pose proof (dadd_fold_rel (map (fun l => (lot_unrealised c l, to_q (lot_unrealised c l))) L) dzero 0 0) as G.
  rewrite fold_left_map' in G. cbn [fst] in G. rewrite map_length, map_map in G. cbn [snd] in G.
  assert (G' : Qabs (to_q (asset_cost_of c) - (0 + sumQ (map (fun l => to_q (lot_unrealised c l)) L)))
               <= E (0 + length L) * (0 + sumQ (map (fun l => to_q (lot_unrealised c l)) L))).
  { unfold asset_cost_of. rewrite cost_fold_filter. fold counted_lots. fold L. apply G; [lra| |].
    - rewrite to_q_dzero. assert (X : 0 - 0 == 0) by ring. rewrite X. cbn. lra.
    - intros p Hp. apply in_map_iff in Hp. destruct Hp as (l & <- & Hl). cbn [fst snd]. split.
      + apply Qlt_le_weak, counted_pos, Hcnt, Hl.
      + assert (X : to_q (lot_unrealised c l) - to_q (lot_unrealised c l) == 0) by ring. rewrite X. cbn [E]. cbn. lra. }
  clear G. cbn [plus] in G'.
  (* each term vs the exact unsold cost of its lot *)
  destruct (lots_sum_bounds (E (K + 3)) L Hsub) as (S1 & S2 & S3).
  { intros l Hl. eapply Qle_trans; [apply (lot_unrealised_model from_ to_ c W l (Hsub l Hl))|].
    assert (Hk : (length (lot_amts c l) + 3 <= K + 3)%nat).
    { unfold lot_amts, K. rewrite map_length. pose proof (filter_length_le' (of_lot l) (cd_gls c)). lia. }
    pose proof (E_mono _ _ Hk). pose proof (wf_cost _ _ _ W l (Hsub l Hl)). nra. }
  set (U := sumQ (map (fun l => to_q (lot_unrealised c l)) L)) in *.
  set (Xs := sumQ (map (unrealised_of (cd_gls c)) L)) in *.
  set (C := sumQ (map qcost L)) in *.
  pose proof (E_mul (length L) (K + 3)) as Em. pose proof (E_nonneg (length L)) as Ea. pose proof (E_nonneg (K + 3)) as Ee.
  set (a := E (length L)) in *. set (e := E (K + 3)) in *.
  assert (Et : E (length L + (K + 3)) == a + e + a * e) by lra. rewrite Et.
  assert (X0 : 0 + U == U) by ring. rewrite X0 in G'.
  apply abs_le in G'. apply abs_le in S1. apply abs_le. split; nra.
Qed.
End AssetAccuracy.

(** ** what [compute] establishes by construction *)
From RP2V Require Import Proofs.FilterProofs Proofs.BalanceProofs.
Local Open Scope Q_scope.

Theorem compute_parts : forall period from_ to_ allow exs hos t fs c,
  compute period from_ to_ allow exs hos t fs = Ok c ->
  (forall l, In l (cd_ins c) -> In l (t_ins t) /\ in_window from_ to_ l = true) /\
  fold_left (sold_pct_add from_ to_) (cd_gls c) (Ok []) = Ok (cd_sold_pct c) /\
  balances allow to_ exs hos t = Ok (cd_balances c).
Proof.
  intros period from_ to_ allow exs hos t fs c H. unfold compute in H.
  destruct (taxable_events t) as [evs|]; [|discriminate H].
  destruct (resolve_all evs (t_ins t) fs) as [gls|]; [|discriminate H].
  destruct (numbering to_ _) as [[[[evf lotf] evt] lott]|]; [|discriminate H].
  destruct (yearly_list period to_ _ _) as [yl|]; [|discriminate H].
  destruct (balances allow to_ exs hos t) as [bl|] eqn:Eb; [|discriminate H].
  destruct (price_per_unit to_ (t_ins t)) as [ppu|]; [|discriminate H].
  destruct (fold_left (sold_pct_add from_ to_) _ (Ok [])) as [sold|] eqn:Es; [|discriminate H].
  injection H as <-. cbn [cd_ins cd_gls cd_sold_pct cd_balances]. split; [|split; [exact Es|reflexivity]].
  intros l Hl. apply iter_window_sublist in Hl. destruct Hl as [H1 H2]. split; [exact H1|]. unfold in_window.
  assert (E1 : (local_day (i_ts l) <? from_)%Z = false) by lia. assert (E2 : (to_ <? local_day (i_ts l))%Z = false) by lia.
  rewrite E1, E2. reflexivity.
Qed.

(** ** a counted lot costs at least 4.9e-14; a sold-out lot is not counted; a listed asset has unsold holdings *)
Lemma quant_lower k x r : (0 <= k)%Z -> quant k x = Some r -> (0 < r)%Z -> (1 # 2) * ten ^ (- k)%Z <= to_q x.
Proof.
  destruct x as [m e]. unfold quant. intros Hk H Hr.
  destruct (- k <=? e)%Z eqn:Ek.
  - destruct (ndigits (m * pow10 (e + k)) >? PREC)%Z; [discriminate H|]. injection H as <-. unfold pow10 in Hr.
    assert (Es : to_q (m, e) == to_q ((m * 10 ^ (e + k))%Z, (- k)%Z)).
    { rewrite to_q_shift by lia. replace (- k + (e + k))%Z with e by lia. reflexivity. }
    rewrite Es, to_q_mk. pose proof (tenp_pos (- k)%Z) as Hp.
    assert (H1 : 1 <= inject_Z (m * 10 ^ (e + k))) by (change 1 with (inject_Z 1); rewrite <- Zle_Qle; lia). nra.
  - destruct (ndigits (rhe_div m (pow10 (- k - e)) false) >? PREC)%Z; [discriminate H|]. injection H as <-. unfold pow10 in Hr.
    set (d := (10 ^ (- k - e))%Z) in *. assert (Hd : (0 < d)%Z) by (unfold d; apply p10_gt0; lia).
    pose proof (rhe_div_half m d false Hd) as Hh.
    assert (Hm : (d <= 2 * m)%Z) by nia.
    assert (Et : ten ^ (- k)%Z == ten ^ e * inject_Z d).
    { unfold d. rewrite tenp_inj by lia. rewrite <- Qpower_plus by apply ten_nz. replace (e + (- k - e))%Z with (- k)%Z by lia. reflexivity. }
    rewrite Et, to_q_mk. pose proof (tenp_pos e) as Hp.
    assert (H1 : inject_Z d <= 2 * inject_Z m).
    { change 2 with (inject_Z 2). rewrite <- inject_Z_mult, <- Zle_Qle. exact Hm. }
    nra.
Qed.

Lemma dgtb_zero_lower u : dgtb u dzero = true -> 49 # (10 ^ 15) <= to_q u.
Proof.
  intros H. pose proof (dgtb_zero_pos u H) as Hu. revert H.
  unfold dgtb, optb, dgt, cmp13, option_map. destruct (quant CRYPTO_DECIMALS (dsub u dzero)) as [r|] eqn:Eq; [|discriminate].
  intros Hr. assert (Hr' : (0 < r)%Z) by lia.
  pose proof (quant_lower CRYPTO_DECIMALS _ _ ltac:(unfold CRYPTO_DECIMALS; lia) Eq Hr') as Hv.
  pose proof (dsub_error u dzero) as Hd. rewrite to_q_dzero in Hd.
  assert (X : to_q u - 0 == to_q u) by ring. rewrite X in Hd. rewrite (abs_of_nonneg (to_q u)) in Hd by lra. apply abs_le in Hd.
  assert (Hc : (1 # 2) * ten ^ (- CRYPTO_DECIMALS)%Z == 5 # (10 ^ 14)) by reflexivity. rewrite Hc in Hv.
  assert (He : EPS <= 1 # 100) by (unfold EPS; discriminate).
  assert (H1 : 5 # 10 ^ 14 <= to_q u * (1 + (1 # 100))) by nra.
  assert (H2 : (49 # 10 ^ 15) * (1 + (1 # 100)) <= 5 # 10 ^ 14) by (vm_compute; discriminate).
  nra.
Qed.

Section Listed.
Context (from_ to_ : Z) (c : computed) (W : op_wf from_ to_ c).
(** sizes: the cost of a lot times the accumulated rounding stays below the comparison resolution
    (true for costs below 1e15 and a few hundred fractions per asset) *)
Hypothesis small : forall l, In l (cd_ins c) -> qcost l * E (length (cd_gls c) + 3) < 49 # (10 ^ 15).

Lemma remaining_nonneg l : In l (cd_ins c) -> (0 <= remaining (cd_gls c) l)%Z.
Proof. intros Hl. pose proof (wf_not_overspent _ _ _ W l Hl). unfold remaining. lia. Qed.

Theorem sold_out_not_counted : forall l, In l (cd_ins c) -> remaining (cd_gls c) l = 0%Z -> lot_counted c l = false.
Proof.
  intros l Hl Hr. destruct (lot_counted c l) eqn:Ec; [exfalso|reflexivity].
  unfold lot_counted, gen_op_lot_counts in Ec. apply dgtb_zero_lower in Ec.
  pose proof (lot_unrealised_model from_ to_ c W l Hl) as Hm.
  assert (Ex : unrealised_of (cd_gls c) l == 0).
  { unfold unrealised_of. rewrite Hr. unfold qamt. field. apply inject_Z_nz. pose proof (wf_amount _ _ _ W l Hl). lia. }
  rewrite Ex in Hm. assert (X : to_q (lot_unrealised c l) - 0 == to_q (lot_unrealised c l)) by ring. rewrite X in Hm.
  apply abs_le in Hm.
  assert (Hk : (length (lot_amts c l) + 3 <= length (cd_gls c) + 3)%nat).
  { unfold lot_amts. rewrite map_length. pose proof (filter_length_le' (of_lot l) (cd_gls c)). lia. }
  pose proof (E_mono _ _ Hk). pose proof (wf_cost _ _ _ W l Hl). pose proof (small l Hl). nra.
Qed.

(** a listed asset has a lot with an unsold remainder *)
Theorem listed_has_unsold : asset_listed c = true -> exists l, In l (cd_ins c) /\ (0 < remaining (cd_gls c) l)%Z.
Proof.
  unfold asset_listed. intros H. apply existsb_exists in H. destruct H as (l & Hl & Hc). exists l. split; [exact Hl|].
  pose proof (remaining_nonneg l Hl). destruct (Z.eq_dec (remaining (cd_gls c) l) 0) as [E0|NE]; [|lia].
  rewrite (sold_out_not_counted l Hl E0) in Hc. discriminate Hc.
Qed.

(** with the balance reconciliation of C07 (sum of final balances = amount left in the lots) a listed asset has
    an account with a positive balance: the KeyError of [asset_rows] cannot happen and the per-unit divisor is positive *)
Theorem listed_has_balance :
  sumZ (map b_final (cd_balances c)) = sumZ (map (remaining (cd_gls c)) (cd_ins c)) ->
  asset_listed c = true -> pos_balances c <> [].
Proof.
  intros Hrec Hl. destruct (listed_has_unsold Hl) as (l & Hin & Hpos).
  assert (Hs : (0 < sumZ (map (remaining (cd_gls c)) (cd_ins c)))%Z).
  { assert (G : forall L, (forall x, In x L -> (0 <= remaining (cd_gls c) x)%Z) -> In l L -> (0 < sumZ (map (remaining (cd_gls c)) L))%Z).
    { induction L as [|x L IH]; intros Hnn HinL; [destruct HinL|]. cbn [map sumZ].
      assert (Hrest : (0 <= sumZ (map (remaining (cd_gls c)) L))%Z).
      { clear -Hnn. induction L as [|y L IH]; cbn [map sumZ]; [lia|]. pose proof (Hnn y (or_intror (or_introl eq_refl))).
        assert (0 <= sumZ (map (remaining (cd_gls c)) L))%Z by (apply IH; intros z [Hz|Hz]; apply Hnn; [left; exact Hz|right; right; exact Hz]). lia. }
      destruct HinL as [->|HinL]; [lia|]. pose proof (Hnn x (or_introl eq_refl)).
      assert (0 < sumZ (map (remaining (cd_gls c)) L))%Z by (apply IH; [intros y Hy; apply Hnn; right; exact Hy|exact HinL]). lia. }
    apply G; [intros x Hx; apply remaining_nonneg; exact Hx|exact Hin]. }
  rewrite <- Hrec in Hs. unfold pos_balances. intros Hnil.
  assert (G : forall bl, filter bal_counted bl = [] -> (sumZ (map b_final bl) <= 0)%Z).
  { induction bl as [|b bl IH]; cbn [filter map sumZ]; [lia|]. destruct (bal_counted b) eqn:Eb; [discriminate|].
    intros Hf. specialize (IH Hf). unfold bal_counted, gen_op_balance_counts in Eb. lia. }
  specialize (G _ Hnil). lia.
Qed.
End Listed.

(** ** D4: one row's figures: per-unit cost, row cost basis, weight (three roundings) *)
Theorem row_figures_accuracy : forall (cost total : dec) (B b : Z) u w,
  gen_op_unit_cost cost B = Some u -> gen_op_weight (gen_op_row_cost b u) total = Some w ->
  let C := to_q cost in let beta := to_q (of_grid B) in let b' := to_q (of_grid b) in let T := to_q total in
  Qabs (to_q u - C / beta) <= E 1 * Qabs (C / beta) /\
  Qabs (to_q (gen_op_row_cost b u) - C / beta * b') <= E 2 * Qabs (C / beta * b') /\
  Qabs (to_q w - C / beta * b' / T) <= E 3 * Qabs (C / beta * b' / T).
Proof.
  intros cost total B b u w Hu Hw C beta b' T.
  unfold gen_op_unit_cost, odiv in Hu. unfold gen_op_weight, odiv in Hw. unfold gen_op_row_cost in *.
  pose proof (ddiv_error _ _ _ Hu) as H1. fold C beta in H1.
  pose proof (dmul_error (of_grid b) u) as H2. fold b' in H2.
  assert (H2' : Qabs (to_q (dmul (of_grid b) u) - to_q u * b') <= EPS * Qabs (to_q u * b')).
  { assert (X : to_q u * b' == b' * to_q u) by ring. rewrite X. exact H2. }
  pose proof (compose_err EPS EPS _ _ _ _ EPS_nonneg EPS_nonneg H1 H2') as H3.
  pose proof (ddiv_error _ _ _ Hw) as H4. fold T in H4. unfold Qdiv in H4.
  assert (He2 : 0 <= EPS + EPS + EPS * EPS) by (pose proof EPS_pos; nra).
  pose proof (compose_err _ EPS _ _ _ _ He2 EPS_nonneg H3 H4) as H5.
  split; [rewrite E_1; exact H1|]. split.
  - cbn [E]. assert (X : 0 + EPS + 0 * EPS + EPS + (0 + EPS + 0 * EPS) * EPS == EPS + EPS + EPS * EPS) by ring. rewrite X. exact H3.
  - cbn [E]. unfold Qdiv.
    assert (X : 0 + EPS + 0 * EPS + EPS + (0 + EPS + 0 * EPS) * EPS + EPS + (0 + EPS + 0 * EPS + EPS + (0 + EPS + 0 * EPS) * EPS) * EPS
                == EPS + EPS + EPS * EPS + EPS + (EPS + EPS + EPS * EPS) * EPS) by ring.
    rewrite X. exact H5.
Qed.
