(** Source tie of computed_data.py: yearly summary.
    For the tables generated from the CURRENT source (Model/GeneratedTie.v, fragment computed; interpreters in Model/ComputedGen.v).
    One file per concern, so that an edit of the source breaks exactly the lemmas about what it changed and the property
    files that cite them.  Overview: Proofs/ComputedGenProofs.v. *)
From Coq Require Import List ZArith Bool Lia.
From RP2V Require Import Base.Prelude Base.Time Base.Dec Base.Sorting Base.Assoc Model.Types Model.Generated Model.GeneratedTie
  Model.Txn Model.Matcher Model.Pipeline Model.Computed Model.ComputedGen Proofs.TieAux.
Import ListNotations.
Open Scope Z_scope.

(** ---------- yearly summary *)
Lemma yearly_add_gen_agrees (period : Z) (acc : result (assoc yline)) (g : gl) : yearly_add_gen period acc g = yearly_add period acc g.
Proof.
  destruct acc as [m|e]; [|reflexivity].
  unfold yearly_add_gen, yearly_add.
  cbv [ykey_gen gen_yearly_key yk_year yk_type yk_long yacc_z yacc_d yacc_field gen_yearly_acc find fst snd y_field_eqb gl_z_val gl_dec_val].
  destruct (g_proceeds g), (g_cost g), (g_gain g); reflexivity.
Qed.

Lemma yearly_list_gen_agrees (period from_day to_day : Z) (gls : list gl) :
  yearly_list_gen period from_day to_day gls = yearly_list period to_day (year_of_day from_day) gls.
Proof.
  unfold yearly_list_gen, yearly_list.
  cbv [cd_seen cd_cut cd_select gen_yearly_source gen_yearly_cut].
  rewrite (fold_left_ext (yearly_add_gen period) (yearly_add period)) by (intros; apply yearly_add_gen_agrees).
  destruct (fold_left _ _ _) as [m|e]; [|reflexivity].
  f_equal. apply filter_ext. intros l.
  cbv [gen_yearly_filter forallb y_filter_ok]. rewrite ?andb_true_r. reflexivity.
Qed.

(** non-vacuity: the generated yearly rule on one fraction (a SELL of 2 units of a lot of 5, bought at 10 with fee, sold at 20) *)
Example yearly_gen_one_fraction :
  let lot := {| i_row := 1; i_ts := {| utc_us := 0; off_s := 0 |}; i_exch := 0; i_holder := 0; i_type := BUY; i_spot := 1000000000000;
                i_crypto_in := 500000000000; i_crypto_fee := 0; i_fiat_in_no_fee := (50, 0); i_fiat_in_with_fee := (50, 0); i_fiat_fee := dzero |} in
  let ev := TOut {| o_row := 2; o_ts := {| utc_us := 86400000000; off_s := 0 |}; o_exch := 0; o_holder := 0; o_type := SELL; o_spot := 2000000000000;
                    o_crypto_out_no_fee := 200000000000; o_crypto_fee := 0; o_crypto_out_with_fee := 200000000000;
                    o_fiat_out_no_fee := (40, 0); o_fiat_fee := dzero; o_fiat_out_with_fee := (40, 0) |} in
  let g := {| g_ev := ev; g_lot := Some lot; g_amt := 200000000000 |} in
  exists l, yearly_list_gen 365 0 100 [g] = Ok [l] /\ y_year l = 1970 /\ y_type l = SELL /\ y_long l = false /\ y_crypto l = 200000000000.
Proof. vm_compute. eexists; repeat split; reflexivity. Qed.
