(** Proofs about the tax-report model (Model/TaxReport.v): row arithmetic of the fraction loop
    (per-sheet row indexes shared by all assets), the resulting cell contents, removal of empty
    sheets, capacity.  Finite facts about the generated tables are in the second half. *)
From Coq Require Import List ZArith Bool Lia Permutation.
From RP2V Require Import Base.Prelude Base.Time Base.Dec Base.Sorting Base.Assoc Model.Types Model.Generated Model.Txn
  Model.Matcher Model.Pipeline Model.Computed Model.Grid Model.ReportInput Model.TaxReport Proofs.AssocProofs Proofs.FilterProofs.
Import ListNotations.
Open Scope Z_scope.

(** ---------- strings and string-keyed dictionaries *)
Lemma str_eqb_eq : forall a b, str_eqb a b = true <-> a = b.
Proof.
  induction a as [|x a IH]; intros [|y b]; cbn [str_eqb]; split; intro H; try reflexivity; try discriminate.
  - apply andb_true_iff in H. destruct H as [H1 H2]. apply Z.eqb_eq in H1. apply IH in H2. congruence.
  - inversion H; subst. apply andb_true_iff. split; [apply Z.eqb_refl | apply IH; reflexivity].
Qed.
Lemma str_eqb_refl a : str_eqb a a = true.
Proof. apply str_eqb_eq. reflexivity. Qed.
Lemma str_eqb_neq a b : str_eqb a b = false <-> a <> b.
Proof.
  split; intro H.
  - intro E. apply str_eqb_eq in E. congruence.
  - destruct (str_eqb a b) eqn:E; [apply str_eqb_eq in E; contradiction | reflexivity].
Qed.
Lemma str_eqb_sym a b : str_eqb a b = str_eqb b a.
Proof.
  destruct (str_eqb a b) eqn:E.
  - apply str_eqb_eq in E. subst. symmetry. apply str_eqb_refl.
  - symmetry. apply str_eqb_neq. apply str_eqb_neq in E. congruence.
Qed.

Lemma smem_In k l : smem k l = true <-> In k l.
Proof.
  unfold smem. rewrite existsb_exists. split.
  - intros [x [H1 H2]]. apply str_eqb_eq in H2. subst. exact H1.
  - intro H. exists k. split; [exact H | apply str_eqb_refl].
Qed.

Lemma str_nodup_NoDup l : str_nodup l = true -> NoDup l.
Proof.
  induction l as [|x l IH]; cbn [str_nodup]; intro H; [constructor|].
  apply andb_true_iff in H. destruct H as [H1 H2]. constructor; [|apply IH; exact H2].
  intro HI. apply smem_In in HI. rewrite HI in H1. discriminate.
Qed.

Lemma z_nodup_NoDup l : z_nodup l = true -> NoDup l.
Proof.
  induction l as [|x l IH]; cbn [z_nodup]; intro H; [constructor|].
  apply andb_true_iff in H. destruct H as [H1 H2]. constructor; [|apply IH; exact H2].
  intro HI. apply negb_true_iff in H1. rewrite <- not_true_iff_false in H1. apply H1.
  apply existsb_exists. exists x. split; [exact HI | apply Z.eqb_refl].
Qed.

Section SDict.
Context {V : Type}.
Lemma sget_sset (n k : str) (v : V) m : sget n (sset k v m) = if str_eqb n k then Some v else sget n m.
Proof.
  induction m as [|[k' v'] m IH]; cbn [sset sget].
  - reflexivity.
  - destruct (str_eqb k k') eqn:E; cbn [sget].
    + apply str_eqb_eq in E. subst k'. destruct (str_eqb n k); reflexivity.
    + rewrite IH. destruct (str_eqb n k') eqn:E2; [|reflexivity].
      apply str_eqb_eq in E2. subst k'. rewrite (str_eqb_sym n k), E. reflexivity.
Qed.
Lemma sget_In (k : str) (v : V) m : sget k m = Some v -> In (k, v) m.
Proof.
  induction m as [|[k' v'] m IH]; cbn [sget]; [discriminate|].
  destruct (str_eqb k k') eqn:E; intro H.
  - apply str_eqb_eq in E. inversion H; subst. left. reflexivity.
  - right. apply IH. exact H.
Qed.
Lemma In_sget (k : str) (v : V) m : NoDup (map fst m) -> In (k, v) m -> sget k m = Some v.
Proof.
  induction m as [|[k' v'] m IH]; cbn [sget map fst]; intros ND HI; [contradiction|].
  inversion ND as [|? ? Hn ND']; subst. destruct HI as [HI|HI].
  - inversion HI; subst. rewrite str_eqb_refl. reflexivity.
  - destruct (str_eqb k k') eqn:E.
    + apply str_eqb_eq in E. subst k'. exfalso. apply Hn. apply in_map_iff. exists (k, v). split; [reflexivity|exact HI].
    + apply IH; assumption.
Qed.
Lemma sget_map_const (k : str) (v : V) l : sget k (map (fun n => (n, v)) l) = if smem k l then Some v else None.
Proof.
  induction l as [|x l IH]; cbn [map sget smem existsb]; [reflexivity|].
  destruct (str_eqb k x); [reflexivity|]. exact IH.
Qed.
End SDict.

(** ---------- the last write to a cell wins *)
Lemma final_cells_app ws w :
  final_cells (ws ++ [w]) = aset (cell_key (cw_row w) (cw_col w)) (cw_val w) (final_cells ws).
Proof. unfold final_cells. rewrite fold_left_app. reflexivity. Qed.

Lemma cell_at_unique : forall ws r c v,
  In (cw r c v) ws ->
  (forall w, In w ws -> cell_key (cw_row w) (cw_col w) = cell_key r c -> cw_val w = v) ->
  cell_at ws r c = v.
Proof.
  intros ws r c v. induction ws as [|w ws IH] using rev_ind; intros HI HU; [contradiction|].
  unfold cell_at. rewrite final_cells_app. rewrite aget_d_aset.
  destruct (cell_key r c =? cell_key (cw_row w) (cw_col w)) eqn:E.
  - apply Z.eqb_eq in E. apply HU; [apply in_or_app; right; left; reflexivity | symmetry; exact E].
  - apply in_app_or in HI. destruct HI as [HI|[HI|[]]].
    + apply IH; [exact HI|]. intros w' Hw'. apply HU. apply in_or_app. left. exact Hw'.
    + subst w. cbn in E. rewrite Z.eqb_refl in E. discriminate.
Qed.

Lemma cell_key_inj r c r' c' : 0 <= c < 1024 -> 0 <= c' < 1024 -> cell_key r c = cell_key r' c' -> r = r' /\ c = c'.
Proof. unfold cell_key. intros. lia. Qed.

(** ---------- the fraction loop *)
Section Loop.
Variable T : trtables.
Notation step := (tt_row_step T).

Definition app_writes (s : sheetw) (ws : list cellw) : sheetw :=
  {| sw_name := sw_name s; sw_rows := sw_rows s; sw_cols := sw_cols s; sw_writes := sw_writes s ++ ws |}.
Lemma app_writes_nil s : app_writes s [] = s.
Proof. destruct s. unfold app_writes. cbn. rewrite app_nil_r. reflexivity. Qed.
Lemma app_writes_app s a b : app_writes (app_writes s a) b = app_writes s (a ++ b).
Proof. unfold app_writes. cbn. rewrite app_assoc. reflexivity. Qed.

Definition rowd (rows : list (str * Z)) (n : str) : Z := match sget n rows with Some r => r | None => 0 end.

Lemma add_writes_names n ws l : map sw_name (add_writes n ws l) = map sw_name l.
Proof.
  induction l as [|s l IH]; cbn [add_writes map]; [reflexivity|].
  destruct (str_eqb (sw_name s) n); cbn [map sw_name]; [reflexivity|]. rewrite IH. reflexivity.
Qed.

Lemma add_writes_map n ws l : NoDup (map sw_name l) ->
  add_writes n ws l = map (fun s => if str_eqb (sw_name s) n then app_writes s ws else s) l.
Proof.
  induction l as [|s l IH]; cbn [add_writes map]; intro ND; [reflexivity|].
  inversion ND as [|? ? Hn ND']; subst.
  destruct (str_eqb (sw_name s) n) eqn:E.
  - f_equal. apply str_eqb_eq in E. subst n.
    clear IH ND ND'. induction l as [|s' l IH]; [reflexivity|]. cbn [map].
    destruct (str_eqb (sw_name s') (sw_name s)) eqn:E.
    + exfalso. apply Hn. left. apply str_eqb_eq in E. exact E.
    + f_equal. apply IH. intro H. apply Hn. right. exact H.
  - f_equal. apply IH. exact ND'.
Qed.

Lemma routed_target n it m : type_to_sheet T (it_type it) = Some m -> routed T n it = str_eqb m n.
Proof. unfold routed. intros ->. reflexivity. Qed.

Lemma nrouted_cons n it l : nrouted T n (it :: l) = (if routed T n it then 1 else 0) + nrouted T n l.
Proof. unfold nrouted. cbn [filter]. destruct (routed T n it); cbn [length]; lia. Qed.
Lemma nrouted_app n a b : nrouted T n (a ++ b) = nrouted T n a + nrouted T n b.
Proof. unfold nrouted. rewrite filter_app, app_length, Nat2Z.inj_add. reflexivity. Qed.
Lemma nrouted_nil n : nrouted T n [] = 0.
Proof. reflexivity. Qed.
Lemma nrouted_nonneg n l : 0 <= nrouted T n l.
Proof. unfold nrouted. lia. Qed.

Lemma spec_writes_app n : forall a r b,
  spec_writes T n r (a ++ b) = spec_writes T n r a ++ spec_writes T n (r + step * nrouted T n a) b.
Proof.
  induction a as [|it a IH]; intros r b; cbn [app spec_writes].
  - replace (r + step * nrouted T n []) with r by (unfold nrouted; cbn; ring). reflexivity.
  - rewrite nrouted_cons. destruct (routed T n it).
    + rewrite IH, <- app_assoc. replace (r + step * (1 + nrouted T n a)) with (r + step + step * nrouted T n a) by ring. reflexivity.
    + rewrite IH. replace (r + step * (0 + nrouted T n a)) with (r + step * nrouted T n a) by ring. reflexivity.
Qed.

Lemma spec_writes_none n : forall l r, nrouted T n l = 0 -> spec_writes T n r l = [].
Proof.
  induction l as [|it l IH]; intros r H; cbn [spec_writes]; [reflexivity|].
  rewrite nrouted_cons in H. pose proof (nrouted_nonneg n l). destruct (routed T n it); [lia|]. apply IH. lia.
Qed.

(** inversion of one iteration *)
Lemma place_inv st it st' : place T st it = Ok st' ->
  exists n s r, type_to_sheet T (it_type it) = Some n /\ find_sheet n (ts_sheets st) = Some s /\ sget n (ts_rows st) = Some r
    /\ forallb (in_capacity s) (row_writes r it) = true
    /\ st' = {| ts_rows := sset n (r + step) (ts_rows st); ts_sheets := add_writes n (row_writes r it) (ts_sheets st) |}.
Proof.
  unfold place. destruct (type_to_sheet T (it_type it)) as [n|] eqn:E1; [|discriminate].
  destruct (find_sheet n (ts_sheets st)) as [s|] eqn:E2; [|discriminate].
  destruct (sget n (ts_rows st)) as [r|] eqn:E3; [|discriminate].
  destruct (forallb (in_capacity s) (row_writes r it)) eqn:E; [|discriminate].
  intro H. injection H as H. subst st'. exists n, s, r. split; [reflexivity|]. split; [exact E2|]. split; [exact E3|].
  split; [exact E | reflexivity].
Qed.

(** the loop over a list of fractions: every row index advances by the number of fractions routed to
    its sheet; every sheet receives exactly [spec_writes] after what it held *)
Lemma place_all_spec : forall l st st', NoDup (map sw_name (ts_sheets st)) -> place_all T st l = Ok st' ->
  (forall n, sget n (ts_rows st') = match sget n (ts_rows st) with Some r => Some (r + step * nrouted T n l) | None => None end)
  /\ ts_sheets st' = map (fun s => app_writes s (spec_writes T (sw_name s) (rowd (ts_rows st) (sw_name s)) l)) (ts_sheets st)
  /\ (forall n, sget n (ts_rows st) = None -> nrouted T n l = 0).
Proof.
  induction l as [|it l IH]; intros st st' ND H; cbn [place_all] in H.
  - inversion H; subst. split; [|split].
    + intro n. destruct (sget n (ts_rows st')); [f_equal; unfold nrouted; cbn; lia | reflexivity].
    + cbn [spec_writes]. rewrite <- (map_id (ts_sheets st')) at 1. apply map_ext. intro s. symmetry. apply app_writes_nil.
    + intros. reflexivity.
  - destruct (place T st it) as [st1|] eqn:HP; [|discriminate].
    destruct (place_inv _ _ _ HP) as [m [s [r [Hm [Hs [Hr [_ Hst1]]]]]]].
    assert (ND1 : NoDup (map sw_name (ts_sheets st1))) by (subst st1; cbn [ts_sheets]; rewrite add_writes_names; exact ND).
    destruct (IH st1 st' ND1 H) as [IHr [IHs IHn]]. split; [|split].
    + intro n. rewrite IHr. subst st1. cbn [ts_rows]. rewrite sget_sset, nrouted_cons, (routed_target n it m Hm).
      destruct (str_eqb n m) eqn:E.
      * apply str_eqb_eq in E. subst n. rewrite Hr, str_eqb_refl. f_equal. lia.
      * rewrite (str_eqb_sym m n), E. destruct (sget n (ts_rows st)); [f_equal; lia | reflexivity].
    + rewrite IHs. subst st1. cbn [ts_sheets ts_rows]. rewrite (add_writes_map _ _ _ ND), map_map. apply map_ext. intro s0.
      cbn [spec_writes]. rewrite (routed_target (sw_name s0) it m Hm).
      destruct (str_eqb (sw_name s0) m) eqn:E.
      * assert (Hn : sw_name s0 = m) by (apply str_eqb_eq; exact E).
        rewrite app_writes_app. cbn [app_writes sw_name]. rewrite Hn, str_eqb_refl. unfold rowd.
        rewrite sget_sset, str_eqb_refl, Hr. reflexivity.
      * rewrite (str_eqb_sym m (sw_name s0)), E. unfold rowd. rewrite sget_sset, E. reflexivity.
    + intros n Hn. rewrite nrouted_cons, (routed_target n it m Hm).
      destruct (str_eqb m n) eqn:E; [apply str_eqb_eq in E; subst n; congruence|].
      rewrite (IHn n); [reflexivity|]. subst st1. cbn [ts_rows]. rewrite sget_sset, (str_eqb_sym n m), E. exact Hn.
Qed.

(** ---------- where a fraction lands *)
Lemma split_nth {A} : forall (l : list A) k x, nth_error l k = Some x -> l = firstn k l ++ x :: skipn (S k) l.
Proof.
  induction l as [|y l IH]; intros [|k] x H; cbn in H; try discriminate.
  - inversion H. reflexivity.
  - cbn [firstn skipn app]. f_equal. apply IH. exact H.
Qed.
Lemma firstn_S_nth {A} : forall (l : list A) k x, nth_error l k = Some x -> firstn (S k) l = firstn k l ++ [x].
Proof.
  induction l as [|y l IH]; intros [|k] x H; cbn in H; try discriminate.
  - inversion H. reflexivity.
  - cbn [firstn app]. f_equal. apply IH. exact H.
Qed.

(** row of the k-th fraction of the list on sheet [n], when the sheet's row index starts at [r] *)
Definition row_of (n : str) (r : Z) (l : list item) (k : nat) : Z := r + step * nrouted T n (firstn k l).

Lemma spec_writes_at n r l k it : nth_error l k = Some it -> routed T n it = true ->
  spec_writes T n r l = spec_writes T n r (firstn k l) ++ row_writes (row_of n r l k) it
                        ++ spec_writes T n (row_of n r l k + step) (skipn (S k) l).
Proof.
  intros Hk Hr. rewrite (split_nth l k it Hk) at 1. rewrite spec_writes_app. cbn [spec_writes]. rewrite Hr. reflexivity.
Qed.

Lemma In_spec_writes n : forall l r w, In w (spec_writes T n r l) ->
  exists j it, nth_error l j = Some it /\ routed T n it = true /\ In w (row_writes (row_of n r l j) it).
Proof.
  unfold row_of. induction l as [|it l IH]; intros r w H; cbn [spec_writes] in H; [contradiction|].
  destruct (routed T n it) eqn:E.
  - apply in_app_or in H. destruct H as [H|H].
    + exists O, it. split; [reflexivity|]. split; [exact E|]. cbn [firstn].
      replace (r + step * nrouted T n []) with r by (unfold nrouted; cbn; ring). exact H.
    + destruct (IH _ _ H) as [j [it' [H1 [H2 H3]]]]. exists (S j), it'. split; [exact H1|]. split; [exact H2|].
      cbn [firstn]. rewrite nrouted_cons, E.
      replace (r + step * (1 + nrouted T n (firstn j l))) with (r + step + step * nrouted T n (firstn j l)) by ring. exact H3.
  - destruct (IH _ _ H) as [j [it' [H1 [H2 H3]]]]. exists (S j), it'. split; [exact H1|]. split; [exact H2|].
    cbn [firstn]. rewrite nrouted_cons, E.
    replace (r + step * (0 + nrouted T n (firstn j l))) with (r + step * nrouted T n (firstn j l)) by ring. exact H3.
Qed.

Lemma nrouted_firstn_mono n : forall l a b, (a <= b)%nat -> nrouted T n (firstn a l) <= nrouted T n (firstn b l).
Proof.
  induction l as [|x l IH]; intros a b H.
  - rewrite !firstn_nil. lia.
  - destruct a as [|a]; [cbn [firstn]; rewrite nrouted_nil; apply nrouted_nonneg|].
    destruct b as [|b]; [lia|]. cbn [firstn]. rewrite !nrouted_cons. specialize (IH a b). lia.
Qed.

Lemma nrouted_firstn_lt n l j k it : (j < k)%nat -> nth_error l j = Some it -> routed T n it = true ->
  nrouted T n (firstn j l) < nrouted T n (firstn k l).
Proof.
  intros Hjk Hj Hr. pose proof (nrouted_firstn_mono n l (S j) k Hjk) as H.
  rewrite (firstn_S_nth l j it Hj), nrouted_app, nrouted_cons, Hr, nrouted_nil in H. lia.
Qed.

(** two different fractions of one sheet never share a row *)
Lemma rows_distinct n r l j k itj itk : 0 < step -> j <> k ->
  nth_error l j = Some itj -> nth_error l k = Some itk -> routed T n itj = true -> routed T n itk = true ->
  row_of n r l j <> row_of n r l k.
Proof.
  intros Hs Hne Hj Hk Rj Rk. unfold row_of.
  destruct (Nat.lt_ge_cases j k) as [L|L].
  - pose proof (nrouted_firstn_lt n l j k itj L Hj Rj). nia.
  - assert (L' : (k < j)%nat) by lia. pose proof (nrouted_firstn_lt n l k j itk L' Hk Rk). nia.
Qed.

Lemma NoDup_fst_inj {A B} (l : list (A * B)) a b b' : NoDup (map fst l) -> In (a, b) l -> In (a, b') l -> b = b'.
Proof.
  induction l as [|[x y] l IH]; cbn [map fst]; intros ND H1 H2; [contradiction|].
  inversion ND as [|? ? Hn ND']; subst.
  destruct H1 as [H1|H1], H2 as [H2|H2].
  - congruence.
  - inversion H1; subst. exfalso. apply Hn. apply in_map_iff. exists (a, b'). split; [reflexivity|exact H2].
  - inversion H2; subst. exfalso. apply Hn. apply in_map_iff. exists (a, b). split; [reflexivity|exact H1].
  - apply IH; assumption.
Qed.

Definition item_wf (it : item) : Prop :=
  NoDup (map fst (it_cells it)) /\ Forall (fun cv => 0 <= fst cv < 1024) (it_cells it).

(** the cell (row of the fraction, column) holds the fraction's value at the end: nothing written
    before (template cells above the first row) or after (other fractions) replaces it *)
Lemma cell_at_spec n pre r l k it c v :
  0 < step ->
  (forall w, In w pre -> cw_row w < r /\ 0 <= cw_col w < 1024) ->
  Forall item_wf l ->
  nth_error l k = Some it -> routed T n it = true -> In (c, v) (it_cells it) ->
  cell_at (pre ++ spec_writes T n r l) (row_of n r l k) c = v.
Proof.
  intros Hs Hpre Hwf Hk Hr Hc.
  assert (Hit : item_wf it) by (rewrite Forall_forall in Hwf; apply Hwf; eapply nth_error_In; exact Hk).
  assert (Hcr : 0 <= c < 1024) by (destruct Hit as [_ F]; rewrite Forall_forall in F; apply (F (c, v) Hc)).
  apply cell_at_unique.
  - apply in_or_app. right. rewrite (spec_writes_at n r l k it Hk Hr). apply in_or_app. right. apply in_or_app. left.
    unfold row_writes. apply in_map_iff. exists (c, v). split; [reflexivity | exact Hc].
  - intros w Hw Hkey. apply in_app_or in Hw. destruct Hw as [Hw|Hw].
    + destruct (Hpre w Hw) as [H1 H2]. destruct (cell_key_inj _ _ _ _ H2 Hcr Hkey) as [E _].
      exfalso. unfold row_of in E. pose proof (nrouted_nonneg n (firstn k l)). nia.
    + destruct (In_spec_writes n l r w Hw) as [j [it' [Hj [Rj Hin]]]].
      unfold row_writes in Hin. apply in_map_iff in Hin. destruct Hin as [[c' v'] [Ew Hc']]. subst w. cbn [cw cw_row cw_col cw_val fst snd] in *.
      assert (Hit' : item_wf it') by (rewrite Forall_forall in Hwf; apply Hwf; eapply nth_error_In; exact Hj).
      assert (Hcr' : 0 <= c' < 1024) by (destruct Hit' as [_ F]; rewrite Forall_forall in F; apply (F (c', v') Hc')).
      destruct (cell_key_inj _ _ _ _ Hcr' Hcr Hkey) as [Er Ec]. subst c'.
      destruct (Nat.eq_dec j k) as [Ejk|Ejk].
      * subst j. rewrite Hk in Hj. inversion Hj; subst it'. destruct Hit as [ND _]. exact (NoDup_fst_inj _ _ _ _ ND Hc' Hc).
      * exfalso. exact (rows_distinct n r l j k it' it Hs Ejk Hj Hk Rj Hr Er).
Qed.

End Loop.

(** ---------- asset after asset: the row indexes are threaded through *)
Section Assets.
Variable T : trtables.
Notation step := (tt_row_step T).

Definition ext (s : sheetw) (dr : Z) (ws : list cellw) : sheetw :=
  {| sw_name := sw_name s; sw_rows := sw_rows s + dr; sw_cols := sw_cols s; sw_writes := sw_writes s ++ ws |}.
Lemma ext_ext s a wa b wb : ext (ext s a wa) b wb = ext s (a + b) (wa ++ wb).
Proof. unfold ext. cbn. rewrite <- app_assoc, Z.add_assoc. reflexivity. Qed.
Lemma ext_id s : ext s 0 [] = s.
Proof. destruct s. unfold ext. cbn. rewrite app_nil_r, Z.add_0_r. reflexivity. Qed.
Lemma app_writes_ext s d wa wb : app_writes (ext s d wa) wb = ext s d (wa ++ wb).
Proof. unfold app_writes, ext. cbn. rewrite <- app_assoc. reflexivity. Qed.

(** rows appended to the sheet named [n] for one asset *)
Definition dsize (count : ttype -> Z) (n : str) : Z :=
  if str_eqb n s_Legend then 0 else match sheet_types T n with Some tys => appended T count tys | None => 0 end.

Lemma size_sheets_spec count : forall l l', size_sheets T count l = Ok l' ->
  l' = map (fun s => ext s (dsize count (sw_name s)) []) l
  /\ (forall s, In s l -> is_legend s = false -> sheet_types T (sw_name s) <> None).
Proof.
  induction l as [|s l IH]; intros l' H; cbn [size_sheets] in H.
  - inversion H. split; [reflexivity | intros s []].
  - unfold is_legend in *. destruct (str_eqb (sw_name s) s_Legend) eqn:EL.
    + destruct (size_sheets T count l) as [r|] eqn:E; [|discriminate]. inversion H; subst. destruct (IH r eq_refl) as [I1 I2].
      split.
      * cbn [map]. unfold dsize at 1. rewrite EL, ext_id. f_equal. exact I1.
      * intros s0 [<-|Hi] Hl; [congruence | apply I2; assumption].
    + destruct (sheet_types T (sw_name s)) as [tys|] eqn:ET; [|discriminate].
      destruct (size_sheets T count l) as [r|] eqn:E; [|discriminate]. inversion H; subst. destruct (IH r eq_refl) as [I1 I2].
      split.
      * cbn [map]. unfold dsize at 1. rewrite EL, ET. unfold ext at 1. rewrite app_nil_r. f_equal. exact I1.
      * intros s0 [<-|Hi] Hl; [congruence | apply I2; assumption].
Qed.

Definition rows_after (rows rows' : list (str * Z)) (items : list item) : Prop :=
  forall n, sget n rows' = match sget n rows with Some r => Some (r + step * nrouted T n items) | None => None end.
Definition sheets_after (rows : list (str * Z)) (l l' : list sheetw) (items : list item) : Prop :=
  exists dr : str -> Z,
    l' = map (fun s => ext s (dr (sw_name s)) (spec_writes T (sw_name s) (rowd rows (sw_name s)) items)) l.
Definition unkeyed_unused (rows : list (str * Z)) (items : list item) : Prop :=
  forall n, sget n rows = None -> nrouted T n items = 0.

Lemma names_ext (f : sheetw -> Z) (g : sheetw -> list cellw) l :
  map sw_name (map (fun s => ext s (f s) (g s)) l) = map sw_name l.
Proof. rewrite map_map. apply map_ext. reflexivity. Qed.

Lemma gen_asset_spec i st ac st' : NoDup (map sw_name (ts_sheets st)) -> gen_asset T i st ac = Ok st' ->
  exists items, mk_items T (asset_sources i ac) = Ok items
    /\ rows_after (ts_rows st) (ts_rows st') items
    /\ sheets_after (ts_rows st) (ts_sheets st) (ts_sheets st') items
    /\ unkeyed_unused (ts_rows st) items.
Proof.
  intros ND H. unfold gen_asset in H.
  destruct (size_sheets T (type_count i (snd ac)) (ts_sheets st)) as [sized|] eqn:ES; [|discriminate].
  destruct (mk_items T (asset_sources i ac)) as [items|] eqn:EM; [|discriminate].
  destruct (size_sheets_spec _ _ _ ES) as [Hsz _].
  assert (ND' : NoDup (map sw_name (ts_sheets {| ts_rows := ts_rows st; ts_sheets := sized |}))).
  { cbn [ts_sheets]. rewrite Hsz. rewrite names_ext. exact ND. }
  destruct (place_all_spec T items _ st' ND' H) as [Hr [Hs Hn]]. cbn [ts_rows ts_sheets] in *.
  exists items. split; [reflexivity|]. split; [exact Hr|]. split; [|exact Hn].
  exists (fun n => dsize (type_count i (snd ac)) n). rewrite Hs, Hsz, map_map. apply map_ext. intro s.
  rewrite app_writes_ext. reflexivity.
Qed.

Lemma gen_assets_spec i : forall acs st st', NoDup (map sw_name (ts_sheets st)) -> gen_assets T i st acs = Ok st' ->
  exists items, all_items T i acs = Ok items
    /\ rows_after (ts_rows st) (ts_rows st') items
    /\ sheets_after (ts_rows st) (ts_sheets st) (ts_sheets st') items
    /\ unkeyed_unused (ts_rows st) items.
Proof.
  induction acs as [|ac acs IH]; intros st st' ND H; cbn [gen_assets] in H.
  - inversion H; subst. exists []. split; [reflexivity|]. split; [|split].
    + intro n. destruct (sget n (ts_rows st')); [f_equal; rewrite nrouted_nil; lia | reflexivity].
    + exists (fun _ => 0). cbn [spec_writes]. rewrite <- (map_id (ts_sheets st')) at 1. apply map_ext. intro s. symmetry. apply ext_id.
    + intros n _. reflexivity.
  - destruct (gen_asset T i st ac) as [st1|] eqn:EA; [|discriminate].
    destruct (gen_asset_spec i st ac st1 ND EA) as [ia [Hia [Hra [[da Hsa] Hna]]]].
    assert (ND1 : NoDup (map sw_name (ts_sheets st1))) by (rewrite Hsa, names_ext; exact ND).
    destruct (IH st1 st' ND1 H) as [it [Hit [Hrt [[dt Hst] Hnt]]]].
    exists (ia ++ it). split; [cbn [all_items]; rewrite Hia, Hit; reflexivity|]. split; [|split].
    + intro n. rewrite Hrt, Hra. destruct (sget n (ts_rows st)); [|reflexivity]. f_equal. rewrite nrouted_app. ring.
    + exists (fun n => da n + dt n). rewrite Hst, Hsa, map_map. apply map_ext. intro s. cbn [ext sw_name]. rewrite ext_ext. f_equal.
      rewrite spec_writes_app. f_equal. f_equal. unfold rowd. rewrite Hra.
      destruct (sget (sw_name s) (ts_rows st)) eqn:E; [reflexivity|]. rewrite (Hna _ E). ring.
    + intros n Hn. rewrite nrouted_app, (Hna n Hn). rewrite (Hnt n); [reflexivity|]. rewrite Hra, Hn. reflexivity.
Qed.

End Assets.

(** ---------- the whole report *)
Section Whole.
Variable T : trtables.
Notation step := (tt_row_step T).

Lemma init_sheet_cases lw tp :
  (exists s s', init_sheet T lw tp = Some s /\ init_sheet T [] tp = Some s' /\ is_legend s = true /\ is_legend s' = true)
  \/ init_sheet T lw tp = init_sheet T [] tp.
Proof.
  unfold init_sheet. destruct (str_eqb (tp_name tp) (legend_template_name T)).
  - left. eexists. eexists. split; [reflexivity|]. split; [reflexivity|]. unfold is_legend. cbn [sw_name]. rewrite str_eqb_refl. split; reflexivity.
  - right. reflexivity.
Qed.

Lemma init_names lw : forall tmpl,
  map sw_name (omap_filter (init_sheet T lw) tmpl) = map sw_name (omap_filter (init_sheet T []) tmpl).
Proof.
  induction tmpl as [|tp tmpl IH]; cbn [omap_filter]; [reflexivity|].
  destruct (init_sheet_cases lw tp) as [[s [s' [E1 [E2 [L1 L2]]]]]|E].
  - rewrite E1, E2. cbn [map]. rewrite IH. f_equal. unfold is_legend in *. apply str_eqb_eq in L1, L2. congruence.
  - rewrite E. destruct (init_sheet T [] tp); cbn [map]; rewrite IH; reflexivity.
Qed.

Lemma init_data lw : forall tmpl,
  filter (fun s => negb (is_legend s)) (omap_filter (init_sheet T lw) tmpl)
  = filter (fun s => negb (is_legend s)) (omap_filter (init_sheet T []) tmpl).
Proof.
  induction tmpl as [|tp tmpl IH]; cbn [omap_filter]; [reflexivity|].
  destruct (init_sheet_cases lw tp) as [[s [s' [E1 [E2 [L1 L2]]]]]|E].
  - rewrite E1, E2. cbn [filter]. rewrite L1, L2. cbn [negb]. exact IH.
  - rewrite E. destruct (init_sheet T [] tp); cbn [filter]; rewrite IH; reflexivity.
Qed.

Lemma prune_spec rows : forall l out, prune T rows l = Ok out ->
  out = filter (fun s => is_legend s || negb (rowd rows (sw_name s) =? tt_empty_mark T)) l.
Proof.
  induction l as [|s l IH]; intros out H; cbn [prune] in H.
  - inversion H. reflexivity.
  - cbn [filter]. destruct (is_legend s).
    + destruct (prune T rows l) as [r|]; [|discriminate]. inversion H. cbn [orb]. f_equal. apply IH. reflexivity.
    + destruct (sget (sw_name s) rows) as [r|] eqn:E; [|discriminate].
      destruct (prune T rows l) as [rest|]; [|discriminate]. inversion H. unfold rowd. rewrite E. cbn [orb].
      destruct (r =? tt_empty_mark T); cbn [negb]; [|f_equal]; apply IH; reflexivity.
Qed.

Lemma map_filter_name (p : str -> bool) (q : sheetw -> bool) (l : list sheetw) :
  (forall s, q s = p (sw_name s)) -> map sw_name (filter q l) = filter p (map sw_name l).
Proof.
  intro E. induction l as [|s l IH]; cbn [filter map]; [reflexivity|]. rewrite E. destruct (p (sw_name s)); cbn [map]; rewrite IH; reflexivity.
Qed.

(** what [tables_ok] gives *)
Record tables_good : Prop := {
  tg_nodup : NoDup (map sw_name (init0 T));
  tg_keys : forall n, In n (data_sheet_names T) -> In n (tt_sheet_names T) /\ sheet_types T n <> None;
  tg_step : tt_row_step T = 1;
  tg_mark : tt_empty_mark T = tt_first_row T;
  tg_first : 0 <= tt_first_row T;
  tg_legend : existsb (fun tp => str_eqb (tp_name tp) (legend_template_name T)) (tt_template T) = true;
  tg_sheet : forall s, In s (data_sheets0 T) ->
     sw_cols s <= 1024 /\ tt_first_row T <= sw_rows s
     /\ (forall w, In w (sw_writes s) -> 0 <= cw_row w < tt_first_row T /\ 0 <= cw_col w < sw_cols s)
     /\ (forall cf, In cf (tt_cols_always T ++ tt_cols_lot T ++ tt_cols_nolot T) -> 0 <= fst cf < sw_cols s);
  tg_cols_lot : NoDup (map fst (tt_cols_always T ++ tt_cols_lot T));
  tg_cols_nolot : NoDup (map fst (tt_cols_always T ++ tt_cols_nolot T));
  tg_targets : forall ty n, type_to_sheet T ty = Some n -> In n (data_sheet_names T);
  tg_fun_keys : NoDup (map fst (tt_sheet_to_types T));
  tg_fun : forall ty, (length (filter (fun st => ttype_in ty (snd st)) (tt_sheet_to_types T)) <= 1)%nat;
  tg_col_range : forall cf, In cf (tt_cols_always T ++ tt_cols_lot T ++ tt_cols_nolot T) -> 0 <= fst cf < 1024;
  tg_legend_row : tt_legend_method_row T <> None }.

Lemma tables_ok_good : tables_ok T = true -> tables_good.
Proof.
  unfold tables_ok. intro H.
  apply andb_true_iff in H. destruct H as [H Hlayout].
  apply andb_true_iff in H. destruct H as [H Hnames].
  apply andb_true_iff in H. destruct H as [H Hfun].
  apply andb_true_iff in H. destruct H as [Htargets Hkeys].
  unfold names_ok in Hnames.
  apply andb_true_iff in Hnames. destruct Hnames as [Hnames Hleg].
  apply andb_true_iff in Hnames. destruct Hnames as [Hnd1 Hnd2].
  unfold layout_ok in Hlayout.
  apply andb_true_iff in Hlayout. destruct Hlayout as [Hlayout Hlegrow].
  apply andb_true_iff in Hlayout. destruct Hlayout as [Hlayout Hcolr].
  apply andb_true_iff in Hlayout. destruct Hlayout as [Hlayout Hmark].
  apply andb_true_iff in Hlayout. destruct Hlayout as [Hlayout Hstep].
  apply andb_true_iff in Hlayout. destruct Hlayout as [Hlayout Hfirst].
  apply andb_true_iff in Hlayout. destruct Hlayout as [Hlayout Hsheets].
  apply andb_true_iff in Hlayout. destruct Hlayout as [Hz1 Hz2].
  unfold map_functional in Hfun. apply andb_true_iff in Hfun. destruct Hfun as [Hf1 Hf2].
  constructor.
  - apply str_nodup_NoDup. exact Hnd1.
  - intros n Hn. unfold kept_are_keys in Hkeys. rewrite forallb_forall in Hkeys. specialize (Hkeys n Hn).
    apply andb_true_iff in Hkeys. destruct Hkeys as [K1 K2]. split; [apply smem_In; exact K2|].
    destruct (sheet_types T n); [discriminate | discriminate].
  - apply Z.eqb_eq. exact Hstep.
  - apply Z.eqb_eq. exact Hmark.
  - apply Z.leb_le. exact Hfirst.
  - exact Hleg.
  - intros s Hs. rewrite forallb_forall in Hsheets. specialize (Hsheets s Hs).
    apply andb_true_iff in Hsheets. destruct Hsheets as [Hsheets S4].
    apply andb_true_iff in Hsheets. destruct Hsheets as [Hsheets S3].
    apply andb_true_iff in Hsheets. destruct Hsheets as [S1 S2].
    split; [apply Z.leb_le; exact S2|]. split; [apply Z.leb_le; exact S4|]. split.
    + intros w Hw. rewrite forallb_forall in S3. specialize (S3 w Hw).
      apply andb_true_iff in S3. destruct S3 as [S3 W4].
      apply andb_true_iff in S3. destruct S3 as [S3 W3].
      apply andb_true_iff in S3. destruct S3 as [W1 W2]. lia.
    + intros cf Hcf. rewrite forallb_forall in S1. specialize (S1 cf Hcf). apply andb_true_iff in S1. lia.
  - apply z_nodup_NoDup. exact Hz1.
  - apply z_nodup_NoDup. exact Hz2.
  - intros ty n Hty. unfold targets_exist in Htargets. rewrite forallb_forall in Htargets.
    assert (Hin : In ty all_ttypes) by (destruct ty; cbn; tauto).
    specialize (Htargets ty Hin). rewrite Hty in Htargets. apply andb_true_iff in Htargets. apply smem_In. tauto.
  - apply str_nodup_NoDup. exact Hf2.
  - intro ty. rewrite forallb_forall in Hf1. assert (Hin : In ty all_ttypes) by (destruct ty; cbn; tauto).
    specialize (Hf1 ty Hin). apply Nat.leb_le. exact Hf1.
  - intros cf Hcf. rewrite forallb_forall in Hcolr. specialize (Hcolr cf Hcf). apply andb_true_iff in Hcolr. lia.
  - destruct (tt_legend_method_row T); [discriminate | discriminate].
Qed.

Lemma init_rows_get n : In n (tt_sheet_names T) -> sget n (init_rows T) = Some (tt_first_row T).
Proof. intro H. unfold init_rows. rewrite sget_map_const. apply smem_In in H. rewrite H. reflexivity. Qed.

Lemma In_data_name s : In s (data_sheets0 T) -> In (sw_name s) (data_sheet_names T).
Proof. intro H. unfold data_sheet_names. apply in_map. exact H. Qed.

(** Main statement about the report as a whole: which sheets remain, and what every remaining
    data sheet holds -- the template's cells followed by one row per fraction routed to it, rows
    numbered consecutively from the first data row across all assets *)
Theorem tax_report_spec i out : tables_good -> tax_report T i = Ok out ->
  exists acs items, computed_all i (rp_assets i) = Ok acs /\ all_items T i acs = Ok items
   /\ map sw_name out = filter (fun n => str_eqb n s_Legend || negb (nrouted T n items =? 0)) (map sw_name (init0 T))
   /\ (forall s, In s out -> is_legend s = false ->
         exists s0, In s0 (data_sheets0 T) /\ sw_name s = sw_name s0 /\ sw_cols s = sw_cols s0
                    /\ sw_writes s = sw_writes s0 ++ spec_writes T (sw_name s) (tt_first_row T) items).
Proof.
  intros G H. unfold tax_report in H.
  destruct (computed_all i (rp_assets i)) as [acs|] eqn:EC; [|discriminate].
  destruct (init_sheets T i) as [sheets|] eqn:EI; [|discriminate].
  destruct (gen_assets T i {| ts_rows := init_rows T; ts_sheets := sheets |} acs) as [st|] eqn:EG; [|discriminate].
  destruct (prune T (ts_rows st) (ts_sheets st)) as [out'|] eqn:EP; [|discriminate].
  inversion H; subst out'. clear H.
  unfold init_sheets in EI. destruct (negb _) in EI; [discriminate|].
  destruct (legend_writes T i) as [lw|] eqn:EL; [|discriminate]. inversion EI; subst sheets. clear EI.
  assert (ND : NoDup (map sw_name (ts_sheets {| ts_rows := init_rows T; ts_sheets := omap_filter (init_sheet T lw) (tt_template T) |}))).
  { cbn [ts_sheets]. rewrite init_names. exact (tg_nodup G). }
  destruct (gen_assets_spec T i acs _ st ND EG) as [items [Hitems [Hrows [[dr Hsheets] _]]]]. cbn [ts_rows ts_sheets] in *.
  exists acs, items. split; [reflexivity|]. split; [exact Hitems|].
  pose proof (prune_spec _ _ _ EP) as Hout.
  (* row index of a data sheet at the end *)
  assert (Hrow : forall n, In n (data_sheet_names T) -> rowd (ts_rows st) n = tt_first_row T + nrouted T n items).
  { intros n Hn. unfold rowd. rewrite Hrows, (init_rows_get n (proj1 (tg_keys G n Hn))), (tg_step G). f_equal. ring. }
  (* names of the sheets of the initialised file that are not the legend are data sheet names *)
  assert (Hdn : forall n, In n (map sw_name (init0 T)) -> str_eqb n s_Legend = false -> In n (data_sheet_names T)).
  { intros n Hn Hl. apply in_map_iff in Hn. destruct Hn as [s [Hs1 Hs2]]. subst n. apply In_data_name. unfold data_sheets0.
    apply filter_In. split; [exact Hs2|]. unfold is_legend. rewrite Hl. reflexivity. }
  split.
  - rewrite Hout, Hsheets.
    rewrite (map_filter_name (fun n => str_eqb n s_Legend || negb (rowd (ts_rows st) n =? tt_empty_mark T))) by (intro; reflexivity).
    rewrite names_ext, init_names. apply filter_ext_in. intros n Hn.
    destruct (str_eqb n s_Legend) eqn:El; [reflexivity|]. cbn [orb]. f_equal.
    rewrite (Hrow n (Hdn n Hn El)), (tg_mark G).
    destruct (nrouted T n items =? 0) eqn:E0; [apply Z.eqb_eq in E0; rewrite E0; apply Z.eqb_eq; ring|].
    apply Z.eqb_neq in E0. apply Z.eqb_neq. lia.
  - intros s Hs Hl. rewrite Hout in Hs. apply filter_In in Hs. destruct Hs as [Hs _]. rewrite Hsheets in Hs.
    apply in_map_iff in Hs. destruct Hs as [s1 [Es Hs1]]. subst s. cbn [ext sw_name sw_cols sw_writes] in *.
    assert (Hs0 : In s1 (data_sheets0 T)).
    { unfold data_sheets0, init0. rewrite <- (init_data lw). apply filter_In. split; [exact Hs1|].
      unfold is_legend in *. cbn [ext sw_name] in Hl. rewrite Hl. reflexivity. }
    exists s1. split; [exact Hs0|]. split; [reflexivity|]. split; [reflexivity|]. f_equal. f_equal.
    unfold rowd. rewrite (init_rows_get _ (proj1 (tg_keys G _ (In_data_name _ Hs0)))). reflexivity.
Qed.

End Whole.

(** ---------- from fractions to rows *)
Section Fractions.
Variable T : trtables.

(** all row sources of the report: per asset (sorted order) the fractions of the window, in the set's order *)
Definition all_sources (i : rinput) (acs : list (rasset * computed)) : list rowsrc := flat_map (asset_sources i) acs.

Lemma sources_gls : forall gls k asset period evf lotf, map rs_gl (sources_from k asset period evf lotf gls) = gls.
Proof. induction gls as [|g gls IH]; intros; cbn [sources_from map rs_gl]; [reflexivity|]. rewrite IH. reflexivity. Qed.

(** every fraction of the window of every asset is a row source, once, in order *)
Lemma all_sources_gls i acs : map rs_gl (all_sources i acs) = flat_map (fun ac => cd_gls (snd ac)) acs.
Proof.
  induction acs as [|ac acs IH]; cbn [all_sources flat_map]; [reflexivity|].
  rewrite map_app. unfold asset_sources at 1. rewrite sources_gls. f_equal. exact IH.
Qed.

Lemma mk_items_Forall2 : forall l items, mk_items T l = Ok items -> Forall2 (fun s it => mk_item T s = Ok it) l items.
Proof.
  induction l as [|s l IH]; intros items H; cbn [mk_items] in H.
  - inversion H. constructor.
  - destruct (mk_item T s) as [x|] eqn:E; [|discriminate].
    destruct (mk_items T l) as [r|]; [|discriminate]. inversion H. constructor; [exact E | apply IH; reflexivity].
Qed.

Lemma all_items_Forall2 i : forall acs items, all_items T i acs = Ok items ->
  Forall2 (fun s it => mk_item T s = Ok it) (all_sources i acs) items.
Proof.
  induction acs as [|ac acs IH]; intros items H; cbn [all_items] in H.
  - inversion H. constructor.
  - destruct (mk_items T (asset_sources i ac)) as [a|] eqn:E; [|discriminate].
    destruct (all_items T i acs) as [b|]; [|discriminate]. inversion H.
    cbn [all_sources flat_map]. apply Forall2_app; [apply mk_items_Forall2; exact E | apply IH; reflexivity].
Qed.

Lemma Forall2_nth {A B} (R : A -> B -> Prop) : forall l l' k x, Forall2 R l l' -> nth_error l k = Some x ->
  exists y, nth_error l' k = Some y /\ R x y.
Proof.
  intros l l' k x F. revert k x. induction F as [|a b l l' Hab F IH]; intros [|k] x H; cbn in H; try discriminate.
  - inversion H; subst. exists b. split; [reflexivity | exact Hab].
  - apply IH. exact H.
Qed.

Lemma cells_of_spec f s : forall cols cs, cells_of f s cols = Ok cs ->
  map fst cs = map fst cols /\ forall c fld, In (c, fld) cols -> exists v, field_val f s fld = Ok v /\ In (c, v) cs.
Proof.
  induction cols as [|[c0 fld0] cols IH]; intros cs H; cbn [cells_of] in H.
  - inversion H. split; [reflexivity | intros c fld []].
  - destruct (field_val f s fld0) as [v0|] eqn:E.
    + destruct (cells_of f s cols) as [r|]; [|discriminate]. inversion H. destruct (IH r eq_refl) as [I1 I2]. split.
      * cbn [map fst]. rewrite I1. reflexivity.
      * intros c fld [Hi|Hi].
        -- inversion Hi; subst. exists v0. split; [exact E | left; reflexivity].
        -- destruct (I2 c fld Hi) as [v [V1 V2]]. exists v. split; [exact V1 | right; exact V2].
    + destruct (cells_of f s cols); discriminate.
Qed.

Lemma row_cols_incl s cf : In cf (row_cols T s) -> In cf (tt_cols_always T ++ tt_cols_lot T ++ tt_cols_nolot T).
Proof.
  unfold row_cols. intro H. apply in_app_or in H. apply in_or_app. destruct H as [H|H]; [left; exact H|]. right.
  apply in_or_app. destruct (g_lot (rs_gl s)); [left|right]; exact H.
Qed.

Lemma mk_item_spec s it : tables_good T -> mk_item T s = Ok it ->
  it_type it = t_type (g_ev (rs_gl s)) /\ item_wf it
  /\ forall c fld, In (c, fld) (row_cols T s) -> exists v, field_val (tt_datefmt T) s fld = Ok v /\ In (c, v) (it_cells it).
Proof.
  intros G H. unfold mk_item in H. destruct (cells_of (tt_datefmt T) s (row_cols T s)) as [cs|] eqn:E; [|discriminate].
  inversion H; subst it. cbn [it_type it_cells]. destruct (cells_of_spec _ _ _ _ E) as [C1 C2].
  split; [reflexivity|]. split; [|exact C2]. unfold item_wf. cbn [it_cells]. split.
  - rewrite C1. unfold row_cols. destruct (g_lot (rs_gl s)); [exact (tg_cols_lot T G) | exact (tg_cols_nolot T G)].
  - apply Forall_forall. intros [c v] Hcv.
    assert (Hc : In c (map fst (row_cols T s))) by (rewrite <- C1; apply in_map_iff; exists (c, v); split; [reflexivity | exact Hcv]).
    apply in_map_iff in Hc. destruct Hc as [[c' fld] [E1 Hc]]. cbn [fst] in E1. subst c'. cbn [fst].
    exact (tg_col_range T G (c, fld) (row_cols_incl s _ Hc)).
Qed.

Lemma place_all_routed : forall l st st', place_all T st l = Ok st' ->
  Forall (fun it => type_to_sheet T (it_type it) <> None) l.
Proof.
  induction l as [|it l IH]; intros st st' H; cbn [place_all] in H; [constructor|].
  destruct (place T st it) as [st1|] eqn:EP; [|discriminate].
  destruct (place_inv T _ _ _ EP) as [n [_ [_ [Hn _]]]]. constructor; [congruence | exact (IH _ _ H)].
Qed.

Lemma gen_assets_routed i : forall acs st st' items, gen_assets T i st acs = Ok st' -> all_items T i acs = Ok items ->
  Forall (fun it => type_to_sheet T (it_type it) <> None) items.
Proof.
  induction acs as [|ac acs IH]; intros st st' items H HI; cbn [gen_assets all_items] in *.
  - inversion HI. constructor.
  - destruct (gen_asset T i st ac) as [st1|] eqn:EA; [|discriminate]. unfold gen_asset in EA.
    destruct (size_sheets T (type_count i (snd ac)) (ts_sheets st)) as [sized|]; [|discriminate].
    destruct (mk_items T (asset_sources i ac)) as [a|]; [|discriminate].
    destruct (all_items T i acs) as [b|] eqn:EB; [|discriminate]. inversion HI. apply Forall_app. split.
    + exact (place_all_routed _ _ _ EA).
    + exact (IH _ _ _ H eq_refl).
Qed.

(** Headline: the k-th fraction of the report (assets in sorted order, each asset's fractions of the
    window in order) is on the sheet of its type, at row
      first data row + number of earlier fractions (of all earlier assets and this one) routed to that sheet,
    and at the end every cell of that row holds the value computed for this fraction: no later
    fraction and no template cell overwrites it. *)
Theorem fraction_cells i out acs k src : tables_good T -> tax_report T i = Ok out ->
  computed_all i (rp_assets i) = Ok acs -> nth_error (all_sources i acs) k = Some src ->
  exists items n s,
    all_items T i acs = Ok items
    /\ type_to_sheet T (t_type (g_ev (rs_gl src))) = Some n
    /\ In s out /\ sw_name s = n
    /\ forall c fld, In (c, fld) (row_cols T src) ->
         exists v, field_val (tt_datefmt T) src fld = Ok v
                   /\ cell_at (sw_writes s) (tt_first_row T + nrouted T n (firstn k items)) c = v.
Proof.
  intros G H HC Hk.
  destruct (tax_report_spec T i out G H) as [acs' [items [HC' [HI [Hnames Hdata]]]]].
  rewrite HC in HC'. inversion HC'; subst acs'. clear HC'.
  destruct (Forall2_nth _ _ _ _ _ (all_items_Forall2 i acs items HI) Hk) as [it [Hit Hmk]].
  destruct (mk_item_spec src it G Hmk) as [Hty [_ Hcells]].
  (* the item is routed somewhere, because the report was produced *)
  assert (Hrouted : Forall (fun it => type_to_sheet T (it_type it) <> None) items).
  { unfold tax_report in H. rewrite HC in H.
    destruct (init_sheets T i) as [sheets|]; [|discriminate].
    destruct (gen_assets T i {| ts_rows := init_rows T; ts_sheets := sheets |} acs) as [st|] eqn:EG; [|discriminate].
    exact (gen_assets_routed i acs _ _ items EG HI). }
  assert (Hn : type_to_sheet T (it_type it) <> None) by (rewrite Forall_forall in Hrouted; apply Hrouted; eapply nth_error_In; exact Hit).
  destruct (type_to_sheet T (it_type it)) as [n|] eqn:En; [|congruence]. clear Hn.
  assert (Hr : routed T n it = true) by (unfold routed; rewrite En; apply str_eqb_refl).
  assert (Hdn : In n (data_sheet_names T)) by exact (tg_targets T G _ _ En).
  assert (Hnl : str_eqb n s_Legend = false).
  { unfold data_sheet_names in Hdn. apply in_map_iff in Hdn. destruct Hdn as [s0 [E0 H0]]. unfold data_sheets0 in H0.
    apply filter_In in H0. destruct H0 as [_ H0]. unfold is_legend in H0. rewrite E0 in H0. apply negb_true_iff in H0. exact H0. }
  assert (Hpos : nrouted T n items <> 0).
  { pose proof (nrouted_firstn_lt T n items k (S k) it (Nat.lt_succ_diag_r k) Hit Hr) as L.
    pose proof (nrouted_firstn_mono T n items (S k) (length items)) as M. rewrite firstn_all in M.
    assert (Hlen : (S k <= length items)%nat) by (apply Nat.le_succ_l; apply nth_error_Some; congruence).
    specialize (M Hlen). pose proof (nrouted_nonneg T n (firstn k items)). lia. }
  assert (Hin : In n (map sw_name out)).
  { rewrite Hnames. apply filter_In. split.
    - unfold data_sheet_names, data_sheets0 in Hdn. apply in_map_iff in Hdn. destruct Hdn as [s0 [E0 H0]]. apply filter_In in H0.
      apply in_map_iff. exists s0. tauto.
    - rewrite Hnl. cbn [orb]. apply negb_true_iff. apply Z.eqb_neq. exact Hpos. }
  apply in_map_iff in Hin. destruct Hin as [s [Es Hs]].
  assert (Hsl : is_legend s = false) by (unfold is_legend; rewrite Es; exact Hnl).
  destruct (Hdata s Hs Hsl) as [s0 [Hs0 [N0 [C0 W0]]]].
  exists items, n, s. split; [exact HI|]. split; [rewrite <- Hty; exact En|]. split; [exact Hs|]. split; [exact Es|].
  intros c fld Hc. destruct (Hcells c fld Hc) as [v [V1 V2]]. exists v. split; [exact V1|].
  rewrite W0, Es.
  assert (Hwf : Forall item_wf items).
  { apply Forall_forall. intros it' Hit'. apply In_nth_error in Hit'. destruct Hit' as [j Hj].
    pose proof (all_items_Forall2 i acs items HI) as F2.
    assert (exists s', nth_error (all_sources i acs) j = Some s' /\ mk_item T s' = Ok it') as [s' [_ Hs']].
    { clear -F2 Hj. revert j Hj. induction F2 as [|a b l l' Hab F IH]; intros [|j] Hj; cbn in Hj; try discriminate.
      - inversion Hj; subst. exists a. split; [reflexivity | exact Hab].
      - destruct (IH j Hj) as [s' [S1 S2]]. exists s'. split; [exact S1 | exact S2]. }
    exact (proj1 (proj2 (mk_item_spec s' it' G Hs'))). }
  pose proof (cell_at_spec T n (sw_writes s0) (tt_first_row T) items k it c v) as CA.
  unfold row_of in CA. rewrite (tg_step T G) in CA. rewrite Z.mul_1_l in CA. apply CA.
  - lia.
  - intros w Hw. destruct (tg_sheet T G s0 Hs0) as [S1 [_ [S3 _]]]. specialize (S3 w Hw). lia.
  - exact Hwf.
  - exact Hit.
  - exact Hr.
  - exact V2.
Qed.

End Fractions.

(** ---------- a type without a sheet *)
Section Missing.
Variable T : trtables.

Lemma gen_assets_items i : forall acs st st', gen_assets T i st acs = Ok st' -> exists items, all_items T i acs = Ok items.
Proof.
  induction acs as [|ac acs IH]; intros st st' H; cbn [gen_assets all_items] in *; [exists []; reflexivity|].
  destruct (gen_asset T i st ac) as [st1|] eqn:EA; [|discriminate]. unfold gen_asset in EA.
  destruct (size_sheets T (type_count i (snd ac)) (ts_sheets st)) as [sized|]; [|discriminate].
  destruct (mk_items T (asset_sources i ac)) as [a|]; [|discriminate].
  destruct (IH _ _ H) as [b Hb]. rewrite Hb. exists (a ++ b). reflexivity.
Qed.

Lemma mk_item_type s it : mk_item T s = Ok it -> it_type it = t_type (g_ev (rs_gl s)).
Proof. unfold mk_item. destruct (cells_of _ _ _); [|discriminate]. intro H. inversion H. reflexivity. Qed.

(** a fraction of the window whose transaction type is on no sheet makes the whole report fail
    (KeyError in [_TYPE_TO_SHEET[sheet_type]]): nothing is written for any asset *)
Theorem missing_type_fails i acs : computed_all i (rp_assets i) = Ok acs ->
  (exists src, In src (all_sources i acs) /\ type_to_sheet T (t_type (g_ev (rs_gl src))) = None) ->
  exists e, tax_report T i = Err e.
Proof.
  intros HC [src [Hsrc Hnone]]. destruct (tax_report T i) as [out|e] eqn:H; [|exists e; reflexivity]. exfalso.
  unfold tax_report in H. rewrite HC in H.
  destruct (init_sheets T i) as [sheets|]; [|discriminate].
  destruct (gen_assets T i {| ts_rows := init_rows T; ts_sheets := sheets |} acs) as [st|] eqn:EG; [|discriminate].
  destruct (gen_assets_items i acs _ _ EG) as [items HI].
  pose proof (gen_assets_routed T i acs _ _ items EG HI) as R.
  apply In_nth_error in Hsrc. destruct Hsrc as [k Hk].
  destruct (Forall2_nth _ _ _ _ _ (all_items_Forall2 T i acs items HI) Hk) as [it [Hit Hmk]].
  rewrite Forall_forall in R. apply (R it (nth_error_In _ _ Hit)). rewrite (mk_item_type _ _ Hmk). exact Hnone.
Qed.
End Missing.

(** ---------- what the field identifiers of the layout stand for *)
Lemma field_vals_computed f s :
  field_val f s TF_proceeds = onum (g_proceeds (rs_gl s))
  /\ field_val f s TF_cost = onum (g_cost (rs_gl s))
  /\ field_val f s TF_gain = onum (g_gain (rs_gl s))
  /\ field_val f s TF_long_short = Ok (PStr (if g_long (rs_period s) (rs_gl s) then s_LONG else s_SHORT))
  /\ field_val f s TF_ev_date = Ok (PStr (fmt_date f (t_ts (g_ev (rs_gl s)))))
  /\ field_val f s TF_ev_ts = Ok (PTs (t_ts (g_ev (rs_gl s))))
  /\ field_val f s TF_amount = Ok (PNum (of_grid (g_amt (rs_gl s))))
  /\ field_val f s TF_asset = Ok (PStr (rs_asset s))
  /\ (forall l, g_lot (rs_gl s) = Some l -> field_val f s TF_lot_date = Ok (PStr (fmt_date f (i_ts l)))).
Proof. repeat split. intros l H. cbn [field_val]. rewrite H. reflexivity. Qed.

(** ---------- finite facts about the regenerated tables (re-checked on every run) *)
Ltac in_list := cbn; repeat (first [left; reflexivity | right]).

Lemma taxable_types_iff ty :
  In ty taxable_types <-> (is_earn_type ty && in_type_allowed ty) || out_type_allowed ty || ttype_eqb ty MOVE = true.
Proof.
  unfold taxable_types. rewrite filter_In. split; [tauto|]. intro H. split; [destruct ty; cbn; tauto | exact H].
Qed.

Lemma routing_total_spec T : routing_total T = true -> forall ty, In ty taxable_types -> exists n, type_to_sheet T ty = Some n.
Proof.
  unfold routing_total. intros H ty Hty. rewrite forallb_forall in H. specialize (H ty Hty).
  destruct (type_to_sheet T ty) as [n|]; [exists n; reflexivity | discriminate].
Qed.

Lemma us_tables_ok : tables_ok tax_tables_us = true.
Proof. vm_compute. reflexivity. Qed.
Lemma ie_tables_ok : tables_ok tax_tables_ie = true.
Proof. vm_compute. reflexivity. Qed.
Lemma us_routing_total : routing_total tax_tables_us = true.
Proof. vm_compute. reflexivity. Qed.
Lemma us_append_ok : append_ok tax_tables_us.
Proof. intros c Hc. unfold tax_tables_us. cbn [tt_append_rows tt_min_rows]. lia. Qed.
Lemma ie_append_ok : append_ok tax_tables_ie.
Proof. intros c Hc. unfold tax_tables_ie. cbn [tt_append_rows tt_min_rows]. lia. Qed.

Definition n_capital_gains : str := [67; 97; 112; 105; 116; 97; 108; 32; 71; 97; 105; 110; 115].
Definition n_gifts : str := [71; 105; 102; 116; 115].
Definition n_donations : str := [68; 111; 110; 97; 116; 105; 111; 110; 115].
Definition n_investment_expenses : str := [73; 110; 118; 101; 115; 116; 109; 101; 110; 116; 32; 69; 120; 112; 101; 110; 115; 101; 115].
Definition n_airdrops : str := [65; 105; 114; 100; 114; 111; 112; 115].
Definition n_hard_forks : str := [72; 97; 114; 100; 32; 70; 111; 114; 107; 115].
Definition n_income : str := [73; 110; 99; 111; 109; 101].
Definition n_interest : str := [73; 110; 116; 101; 114; 101; 115; 116].
Definition n_mining : str := [77; 105; 110; 105; 110; 103].
Definition n_staking : str := [83; 116; 97; 107; 105; 110; 103].
Definition n_wages : str := [87; 97; 103; 101; 115].

(** the routing the property text prescribes *)
Definition routing_as_documented (T : trtables) : Prop :=
  type_to_sheet T SELL = Some n_capital_gains /\ type_to_sheet T GIFT = Some n_gifts /\ type_to_sheet T DONATE = Some n_donations
  /\ type_to_sheet T FEE = Some n_investment_expenses /\ type_to_sheet T LOST = Some n_investment_expenses
  /\ type_to_sheet T MOVE = Some n_investment_expenses
  /\ type_to_sheet T AIRDROP = Some n_airdrops /\ type_to_sheet T HARDFORK = Some n_hard_forks /\ type_to_sheet T INCOME = Some n_income
  /\ type_to_sheet T INTEREST = Some n_interest /\ type_to_sheet T MINING = Some n_mining /\ type_to_sheet T STAKING = Some n_staking
  /\ type_to_sheet T WAGES = Some n_wages.
Lemma us_routing_documented : routing_as_documented tax_tables_us.
Proof. vm_compute. repeat split. Qed.

(** the columns of a row: (a) amount + asset, (b) date acquired, (c) date sold, (d) proceeds, (e) cost basis,
    (h) gain, LONG/SHORT, full timestamp; income rows leave (b) and (e) blank *)
Definition columns_as_documented (T : trtables) : Prop :=
  In (0, TF_amount) (tt_cols_always T) /\ In (1, TF_asset) (tt_cols_always T) /\ In (3, TF_ev_date) (tt_cols_always T)
  /\ In (4, TF_proceeds) (tt_cols_always T) /\ In (8, TF_gain) (tt_cols_always T) /\ In (14, TF_long_short) (tt_cols_always T)
  /\ In (15, TF_ev_ts) (tt_cols_always T)
  /\ In (2, TF_lot_date) (tt_cols_lot T) /\ In (5, TF_cost) (tt_cols_lot T)
  /\ In (2, TF_blank) (tt_cols_nolot T) /\ In (5, TF_blank) (tt_cols_nolot T).
Lemma us_columns_documented : columns_as_documented tax_tables_us.
Proof. unfold columns_as_documented. repeat split; in_list. Qed.
Lemma ie_columns_documented : columns_as_documented tax_tables_ie.
Proof. unfold columns_as_documented. repeat split; in_list. Qed.

(** ---------- finding F4: the replay corpus/C14/f4-ie-lost.json as the harness encodes it
    (IE, fifo, BTC: IN row 3 2020-01-01 BUY 2 @ 100; OUT row 9 2021-03-01 LOST 1 @ 200; one fraction 9 <- 3) *)
Definition f4_code : list Z :=
  [3; 9223372036854775807; 0; 2932896; 0; 1; 8; 67; 111; 105; 110; 98; 97; 115; 101; 1; 3; 66; 111; 98; 1; 1970; 0; 1; 3; 66; 84; 67;
   1; 3; 1577836800000000; 0; 0; 0; 1; 10000000000000; 200000000000; 0; 0; 0; 0; 0; 0; 0; 0;
   1; 9; 1614556800000000; 0; 0; 0; 8; 20000000000000; 100000000000; 0; 0; 0; 0; 0; 0; 0; 0; 1; 9; 1; 3; 100000000000].

(** if the IE map has no sheet for LOST, this valid one-disposal input yields no report at all;
    with the US tables the same history (as a US input) produces the Investment Expenses sheet *)
Lemma ie_lost_refuted : type_to_sheet tax_tables_ie LOST = None ->
  exists i, rd_rinput f4_code = Some (Ok i, []) /\ tax_report tax_tables_ie i = Err EInternal.
Proof.
  intro H. remember (rd_rinput f4_code) as r eqn:E. vm_compute in E. subst r.
  eexists. split; [reflexivity|].
  first [ (* the map lacks LOST: the model computes the KeyError *)
          vm_compute; reflexivity
        | (* the map has LOST: the hypothesis is false *)
          exfalso; vm_compute in H; discriminate ].
Qed.

Example f4_input_is_wellformed : exists i, rd_rinput f4_code = Some (Ok i, []) /\ exists out, tax_report tax_tables_us i = Ok out
  /\ map sw_name out = [s_Legend; n_investment_expenses].
Proof.
  remember (rd_rinput f4_code) as r eqn:E. vm_compute in E. subst r.
  eexists. split; [reflexivity|]. eexists. split; [vm_compute; reflexivity|]. vm_compute. reflexivity.
Qed.

(** ---------- capacity: the rows appended per asset cover the rows written *)
Section Counting.
Variable T : trtables.

Lemma filter_length_le {A} (p : A -> bool) l : (length (filter p l) <= length l)%nat.
Proof. induction l as [|x l IH]; cbn [filter length]; [lia|]. destruct (p x); cbn [length]; lia. Qed.

Lemma filter_filter_le {A} (p q : A -> bool) l : (length (filter p (filter q l)) <= length (filter p l))%nat.
Proof.
  induction l as [|x l IH]; cbn [filter]; [lia|]. destruct (q x), (p x) eqn:E; cbn [filter length]; rewrite ?E; cbn [length]; lia.
Qed.

Lemma filter_map_length {A B} (f : A -> B) (p : B -> bool) l : length (filter p (map f l)) = length (filter (fun x => p (f x)) l).
Proof. induction l as [|x l IH]; cbn [map filter]; [reflexivity|]. destruct (p (f x)); cbn [length]; rewrite IH; reflexivity. Qed.

Lemma Forall2_filter_length {A B} (R : A -> B -> Prop) (p : A -> bool) (q : B -> bool) l l' :
  Forall2 R l l' -> (forall x y, R x y -> p x = q y) -> length (filter p l) = length (filter q l').
Proof.
  intros F E. induction F as [|a b l l' Hab F IH]; [reflexivity|]. cbn [filter]. rewrite (E a b Hab).
  destruct (q b); cbn [length]; rewrite IH; reflexivity.
Qed.

Definition routed_ty (n : str) (ty : ttype) : bool :=
  match type_to_sheet T ty with Some m => str_eqb m n | None => false end.

Lemma type_to_sheet_Some ty n : type_to_sheet T ty = Some n ->
  exists tys, In (n, tys) (tt_sheet_to_types T) /\ ttype_in ty tys = true.
Proof.
  unfold type_to_sheet.
  assert (G : forall l acc, fold_left (fun acc st => if ttype_in ty (snd st) then Some (fst st) else acc) l acc = Some n ->
              acc = Some n \/ exists tys, In (n, tys) l /\ ttype_in ty tys = true).
  { induction l as [|[m tys] l IH]; intros acc H; cbn [fold_left] in H; [left; exact H|].
    destruct (IH _ H) as [E|[tys' [I1 I2]]].
    - cbn [fst snd] in E. destruct (ttype_in ty tys) eqn:Et.
      + inversion E; subst. right. exists tys. split; [left; reflexivity | exact Et].
      + left. exact E.
    - right. exists tys'. split; [right; exact I1 | exact I2]. }
  intro H. destruct (G _ _ H) as [E|E]; [discriminate | exact E].
Qed.

Lemma routed_ty_in n ty tys : NoDup (map fst (tt_sheet_to_types T)) -> sheet_types T n = Some tys ->
  routed_ty n ty = true -> ttype_in ty tys = true.
Proof.
  intros ND Hs Hr. unfold routed_ty in Hr. destruct (type_to_sheet T ty) as [m|] eqn:E; [|discriminate].
  apply str_eqb_eq in Hr. subst m. destruct (type_to_sheet_Some ty n E) as [tys' [I1 I2]].
  unfold sheet_types in Hs. rewrite (In_sget n tys' _ ND I1) in Hs. inversion Hs; subst. exact I2.
Qed.

Lemma filter_or_length {A} (p q : A -> bool) l :
  (length (filter (fun x => p x || q x) l) <= length (filter p l) + length (filter q l))%nat.
Proof. induction l as [|x l IH]; cbn [filter length]; [lia|]. destruct (p x), (q x); cbn [orb length]; lia. Qed.

Lemma in_types_sum {A} (ty_of : A -> ttype) (l : list A) : forall tys,
  Z.of_nat (length (filter (fun g => ttype_in (ty_of g) tys) l))
  <= fold_right (fun ty acc => Z.of_nat (length (filter (fun g => ttype_eqb (ty_of g) ty) l)) + acc) 0 tys.
Proof.
  induction tys as [|ty tys IH]; cbn [fold_right].
  - rewrite (filter_nil_above _ l); [cbn; lia|]. apply Forall_forall. intros. reflexivity.
  - pose proof (filter_or_length (fun g => ttype_eqb (ty_of g) ty) (fun g => ttype_in (ty_of g) tys) l) as H.
    rewrite (filter_ext (fun g => ttype_in (ty_of g) (ty :: tys)) (fun g => ttype_eqb (ty_of g) ty || ttype_in (ty_of g) tys)) by (intro; reflexivity).
    lia.
Qed.

Lemma appended_ge count tys : append_ok T -> (forall ty, 0 <= count ty) ->
  fold_right (fun ty acc => count ty + acc) 0 tys <= appended T count tys.
Proof.
  intros A C. unfold appended.
  assert (G : forall l acc, acc + fold_right (fun ty a => count ty + a) 0 l
                            <= fold_left (fun a ty => a + tt_append_rows T (tt_min_rows T) (count ty)) l acc).
  { induction l as [|ty l IH]; intro acc; cbn [fold_right fold_left]; [lia|].
    specialize (IH (acc + tt_append_rows T (tt_min_rows T) (count ty))). pose proof (A (count ty) (C ty)). lia. }
  specialize (G tys 0). lia.
Qed.

(** fractions of one asset routed to sheet [n] (window) vs the rows appended to it for that asset *)
Lemma routed_le_appended i c n tys : append_ok T -> NoDup (map fst (tt_sheet_to_types T)) -> sheet_types T n = Some tys ->
  cd_gls c = iter_window g_day (rp_from i) (rp_to i) (cd_all_gls c) ->
  Z.of_nat (length (filter (fun g => routed_ty n (t_type (g_ev g))) (cd_gls c))) <= appended T (type_count i c) tys.
Proof.
  intros A ND Hs Hg.
  eapply Z.le_trans; [|apply (appended_ge (type_count i c) tys A); intro; unfold type_count; lia].
  rewrite Hg, iter_window_take_until.
  set (tu := take_until g_day (rp_to i) (cd_all_gls c)).
  eapply Z.le_trans; [|exact (in_types_sum (fun g => t_type (g_ev g)) tu tys)].
  apply Nat2Z.inj_le. eapply Nat.le_trans; [|apply filter_filter_le with (q := fun x => rp_from i <=? g_day x)].
  (* routed to n implies the type is one of the sheet's types *)
  generalize (filter (fun x => rp_from i <=? g_day x) tu). intro l.
  induction l as [|g l IH]; cbn [filter length]; [lia|].
  destruct (routed_ty n (t_type (g_ev g))) eqn:E.
  - rewrite (routed_ty_in n _ tys ND Hs E). cbn [length]. lia.
  - destruct (ttype_in (t_type (g_ev g)) tys); cbn [length]; lia.
Qed.

End Counting.

(** ---------- totality: with consistent tables and [append_ok] no lookup fails and no row lies outside its sheet *)
Lemma compute_gls p f t a e h txs fs c : compute p f t a e h txs fs = Ok c -> cd_gls c = iter_window g_day f t (cd_all_gls c).
Proof.
  intro H. unfold compute in H.
  repeat match type of H with (match ?x with _ => _ end = Ok _) => destruct x; try discriminate end.
  inversion H. reflexivity.
Qed.

Lemma computed_all_gls i : forall l acs, computed_all i l = Ok acs ->
  forall ac, In ac acs -> cd_gls (snd ac) = iter_window g_day (rp_from i) (rp_to i) (cd_all_gls (snd ac)).
Proof.
  induction l as [|a l IH]; intros acs H ac Hac; cbn [computed_all] in H.
  - inversion H; subst. contradiction.
  - destruct (computed_of i a) as [c|] eqn:E; [|discriminate]. destruct (computed_all i l) as [r|]; [|discriminate].
    inversion H; subst. destruct Hac as [<-|Hac]; [|exact (IH r eq_refl ac Hac)].
    cbn [snd]. unfold computed_of in E. exact (compute_gls _ _ _ _ _ _ _ _ _ E).
Qed.

Section Total.
Variable T : trtables.
Hypothesis G : tables_good T.
Hypothesis A : append_ok T.

Lemma find_sheet_name n l s : find_sheet n l = Some s -> sw_name s = n /\ In s l.
Proof. unfold find_sheet. intro H. apply find_some in H. destruct H as [H1 H2]. apply str_eqb_eq in H2. tauto. Qed.

Lemma find_sheet_In n : forall l, In n (map sw_name l) -> exists s, find_sheet n l = Some s.
Proof.
  induction l as [|s l IH]; cbn [map]; intro H; [contradiction|]. unfold find_sheet. cbn [find].
  destruct (str_eqb (sw_name s) n) eqn:E; [exists s; reflexivity|]. destruct H as [H|H]; [subst n; rewrite str_eqb_refl in E; discriminate|].
  exact (IH H).
Qed.

Lemma find_sheet_add_writes n m ws : forall l,
  find_sheet n (add_writes m ws l)
  = match find_sheet n l with Some s => Some (if str_eqb (sw_name s) m then app_writes s ws else s) | None => None end.
Proof.
  induction l as [|s l IH]; cbn [add_writes]; [reflexivity|].
  destruct (str_eqb (sw_name s) m) eqn:E.
  - unfold find_sheet. cbn [find app_writes sw_name]. destruct (str_eqb (sw_name s) n) eqn:En.
    + rewrite E. reflexivity.
    + fold (find_sheet n l). destruct (find_sheet n l) as [s'|] eqn:Ef; [|reflexivity].
      destruct (find_sheet_name _ _ _ Ef) as [Hn _]. rewrite Hn.
      destruct (str_eqb n m) eqn:Enm; [|reflexivity]. apply str_eqb_eq in Enm. apply str_eqb_eq in E. rewrite Enm, <- E, str_eqb_refl in En. discriminate.
  - unfold find_sheet. cbn [find]. destruct (str_eqb (sw_name s) n) eqn:En; [rewrite E; reflexivity|]. exact IH.
Qed.

Definition ready (st : tstate) (l : list item) (n : str) : Prop :=
  exists s r, find_sheet n (ts_sheets st) = Some s /\ sget n (ts_rows st) = Some r /\ 0 <= r /\ r + nrouted T n l <= sw_rows s
    /\ forall it, In it l -> routed T n it = true -> Forall (fun cv => 0 <= fst cv < sw_cols s) (it_cells it).

Lemma place_all_ok : forall l st,
  (forall it, In it l -> exists n, type_to_sheet T (it_type it) = Some n /\ ready st l n) ->
  exists st', place_all T st l = Ok st'.
Proof.
  induction l as [|it l IH]; intros st H; [exists st; reflexivity|].
  destruct (H it (or_introl eq_refl)) as [m [Hm [s [r [Hf [Hg [Hr0 [Hcap Hcols]]]]]]]].
  assert (Rm : routed T m it = true) by (unfold routed; rewrite Hm; apply str_eqb_refl).
  rewrite nrouted_cons, Rm in Hcap. pose proof (nrouted_nonneg T m l) as Hnn.
  assert (Hcapw : forallb (in_capacity s) (row_writes r it) = true).
  { apply forallb_forall. intros w Hw. unfold row_writes in Hw. apply in_map_iff in Hw. destruct Hw as [[c v] [Ew Hc]]. subst w.
    specialize (Hcols it (or_introl eq_refl) Rm). rewrite Forall_forall in Hcols. specialize (Hcols (c, v) Hc). cbn [fst] in Hcols.
    unfold in_capacity. cbn [cw cw_row cw_col fst snd]. apply andb_true_iff. split; [apply andb_true_iff; split; [apply andb_true_iff; split|]|];
      first [apply Z.leb_le | apply Z.ltb_lt]; lia. }
  cbn [place_all]. unfold place. rewrite Hm, Hf, Hg, Hcapw.
  apply IH. intros it' Hit'. destruct (H it' (or_intror Hit')) as [n' [Hn' [s' [r' [Hf' [Hg' [Hr0' [Hcap' Hcols']]]]]]]].
  exists n'. split; [exact Hn'|]. unfold ready. cbn [ts_rows ts_sheets]. rewrite find_sheet_add_writes, Hf', sget_sset, (tg_step T G).
  destruct (find_sheet_name _ _ _ Hf') as [Hname' _].
  rewrite nrouted_cons, (routed_target T n' it m Hm) in Hcap'.
  destruct (str_eqb n' m) eqn:E.
  - apply str_eqb_eq in E. rewrite E in *. assert (s' = s) by congruence. subst s'. assert (r' = r) by congruence. subst r'.
    rewrite Hname', str_eqb_refl in *. eexists. eexists. split; [reflexivity|]. split; [reflexivity|]. cbn [app_writes sw_rows sw_cols].
    split; [lia|]. split; [lia|]. intros it'' Hi'' R''. exact (Hcols' it'' (or_intror Hi'') R'').
  - rewrite Hname', E. rewrite (str_eqb_sym m n'), E in Hcap'. eexists. eexists. split; [reflexivity|]. split; [exact Hg'|].
    split; [exact Hr0'|]. split; [lia|]. intros it'' Hi'' R''. exact (Hcols' it'' (or_intror Hi'') R'').
Qed.

Lemma size_sheets_ok count : forall l, (forall s, In s l -> is_legend s = false -> sheet_types T (sw_name s) <> None) ->
  exists l', size_sheets T count l = Ok l'.
Proof.
  induction l as [|s l IH]; intro H; [exists []; reflexivity|]. cbn [size_sheets].
  destruct IH as [r Hr]; [intros s' Hs'; apply H; right; exact Hs'|]. rewrite Hr.
  destruct (is_legend s) eqn:E; [eexists; reflexivity|].
  specialize (H s (or_introl eq_refl) E). destruct (sheet_types T (sw_name s)); [eexists; reflexivity | congruence].
Qed.

Lemma prune_ok rows : forall l, (forall s, In s l -> is_legend s = false -> sget (sw_name s) rows <> None) ->
  exists out, prune T rows l = Ok out.
Proof.
  induction l as [|s l IH]; intro H; [exists []; reflexivity|]. cbn [prune].
  destruct IH as [r Hr]; [intros s' Hs'; apply H; right; exact Hs'|]. rewrite Hr.
  destruct (is_legend s) eqn:E; [eexists; reflexivity|].
  specialize (H s (or_introl eq_refl) E). destruct (sget (sw_name s) rows); [eexists; reflexivity | congruence].
Qed.

Lemma data_name_not_legend n : In n (data_sheet_names T) -> str_eqb n s_Legend = false.
Proof.
  unfold data_sheet_names, data_sheets0. intro H. apply in_map_iff in H. destruct H as [s [E H]]. apply filter_In in H.
  destruct H as [_ H]. unfold is_legend in H. rewrite E in H. apply negb_true_iff in H. exact H.
Qed.

Lemma data_name_in_init n : In n (data_sheet_names T) -> In n (map sw_name (init0 T)).
Proof.
  unfold data_sheet_names, data_sheets0. intro H. apply in_map_iff in H. destruct H as [s [E H]]. apply filter_In in H.
  apply in_map_iff. exists s. tauto.
Qed.

(** the state between two assets *)
Definition Inv (st : tstate) : Prop :=
  map sw_name (ts_sheets st) = map sw_name (init0 T) /\
  forall s, In s (ts_sheets st) -> is_legend s = false ->
    exists r s0, sget (sw_name s) (ts_rows st) = Some r /\ 0 <= r <= sw_rows s
                 /\ In s0 (data_sheets0 T) /\ sw_name s0 = sw_name s /\ sw_cols s = sw_cols s0.

Lemma nrouted_items i ac items n : mk_items T (asset_sources i ac) = Ok items ->
  nrouted T n items = Z.of_nat (length (filter (fun g => routed_ty T n (t_type (g_ev g))) (cd_gls (snd ac)))).
Proof.
  intro H. unfold nrouted. f_equal. pose proof (mk_items_Forall2 T _ _ H) as F.
  rewrite <- (sources_gls (cd_gls (snd ac)) O (ra_name (fst ac)) (rp_period i) (cd_evfrac (snd ac)) (cd_lotfrac (snd ac))).
  fold (asset_sources i ac). rewrite filter_map_length. symmetry.
  apply (Forall2_filter_length _ _ _ _ _ F). intros src it Hmk. unfold routed, routed_ty. rewrite (mk_item_type T _ _ Hmk). reflexivity.
Qed.

Lemma dsize_covers i ac items n : mk_items T (asset_sources i ac) = Ok items ->
  cd_gls (snd ac) = iter_window g_day (rp_from i) (rp_to i) (cd_all_gls (snd ac)) ->
  In n (data_sheet_names T) -> nrouted T n items <= dsize T (type_count i (snd ac)) n.
Proof.
  intros Hmk Hg Hn. rewrite (nrouted_items i ac items n Hmk). unfold dsize. rewrite (data_name_not_legend n Hn).
  destruct (tg_keys T G n Hn) as [_ Hk]. destruct (sheet_types T n) as [tys|] eqn:E; [|congruence].
  exact (routed_le_appended T i (snd ac) n tys A (tg_fun_keys T G) E Hg).
Qed.

Lemma gen_asset_ok i st ac : Inv st ->
  (exists items, mk_items T (asset_sources i ac) = Ok items) ->
  (forall g, In g (cd_gls (snd ac)) -> type_to_sheet T (t_type (g_ev g)) <> None) ->
  cd_gls (snd ac) = iter_window g_day (rp_from i) (rp_to i) (cd_all_gls (snd ac)) ->
  exists st', gen_asset T i st ac = Ok st' /\ Inv st'.
Proof.
  intros [I1 I2] [items Hmk] Hty Hg.
  assert (HK : forall s, In s (ts_sheets st) -> is_legend s = false -> sheet_types T (sw_name s) <> None).
  { intros s Hs Hl. destruct (I2 s Hs Hl) as [r [s0 [_ [_ [H0 [N0 _]]]]]]. rewrite <- N0.
    exact (proj2 (tg_keys T G _ (In_data_name T s0 H0))). }
  destruct (size_sheets_ok (type_count i (snd ac)) _ HK) as [sized Hsz].
  destruct (size_sheets_spec T _ _ _ Hsz) as [Esz _].
  assert (Nsz : map sw_name sized = map sw_name (init0 T)) by (rewrite Esz, names_ext; exact I1).
  (* every sheet of the sized file that is not the legend: row index, capacity, columns *)
  assert (HS : forall s1, In s1 sized -> is_legend s1 = false ->
             exists r s0, sget (sw_name s1) (ts_rows st) = Some r /\ 0 <= r /\ r + nrouted T (sw_name s1) items <= sw_rows s1
                          /\ In s0 (data_sheets0 T) /\ sw_name s0 = sw_name s1 /\ sw_cols s1 = sw_cols s0).
  { intros s1 Hs1 Hl1. rewrite Esz in Hs1. apply in_map_iff in Hs1. destruct Hs1 as [s [Es Hs]]. subst s1.
    unfold is_legend in Hl1. cbn [ext sw_name sw_rows sw_cols] in *.
    destruct (I2 s Hs Hl1) as [r [s0 [R1 [R2 [H0 [N0 C0]]]]]]. exists r, s0. split; [exact R1|]. split; [lia|].
    assert (Hdn : In (sw_name s) (data_sheet_names T)) by (rewrite <- N0; apply In_data_name; exact H0).
    pose proof (dsize_covers i ac items (sw_name s) Hmk Hg Hdn). split; [lia|]. tauto. }
  assert (HP : exists st', place_all T {| ts_rows := ts_rows st; ts_sheets := sized |} items = Ok st').
  { apply place_all_ok. intros it Hit.
    pose proof (mk_items_Forall2 T _ _ Hmk) as F.
    assert (Hsrc : exists src, In src (asset_sources i ac) /\ mk_item T src = Ok it).
    { clear -F Hit. induction F as [|a b l l' Hab F IH]; [contradiction|]. destruct Hit as [<-|Hit].
      - exists a. split; [left; reflexivity | exact Hab].
      - destruct (IH Hit) as [src [S1 S2]]. exists src. split; [right; exact S1 | exact S2]. }
    destruct Hsrc as [src [Hsrc Hmi]].
    assert (Hgl : In (rs_gl src) (cd_gls (snd ac))).
    { rewrite <- (sources_gls (cd_gls (snd ac)) O (ra_name (fst ac)) (rp_period i) (cd_evfrac (snd ac)) (cd_lotfrac (snd ac))).
      apply in_map. exact Hsrc. }
    specialize (Hty _ Hgl). rewrite <- (mk_item_type T _ _ Hmi) in Hty.
    destruct (type_to_sheet T (it_type it)) as [n|] eqn:En; [|congruence]. exists n. split; [reflexivity|].
    assert (Hdn : In n (data_sheet_names T)) by exact (tg_targets T G _ _ En).
    assert (Hin : In n (map sw_name sized)) by (rewrite Nsz; apply data_name_in_init; exact Hdn).
    destruct (find_sheet_In n sized Hin) as [s1 Hf]. destruct (find_sheet_name _ _ _ Hf) as [Hn1 Hi1].
    assert (Hl1 : is_legend s1 = false) by (unfold is_legend; rewrite Hn1; exact (data_name_not_legend n Hdn)).
    destruct (HS s1 Hi1 Hl1) as [r [s0 [R1 [R2 [R3 [H0 [N0 C0]]]]]]]. rewrite Hn1 in *.
    exists s1, r. cbn [ts_rows ts_sheets]. split; [exact Hf|]. split; [exact R1|]. split; [exact R2|]. split; [exact R3|].
    intros it' Hit' _. apply Forall_forall. intros [c v] Hcv. cbn [fst].
    assert (Hsrc' : exists src', mk_item T src' = Ok it').
    { clear -F Hit'. induction F as [|a b l l' Hab F IH]; [contradiction|]. destruct Hit' as [<-|Hit']; [exists a; exact Hab | exact (IH Hit')]. }
    destruct Hsrc' as [src' Hmi']. destruct (mk_item_spec T src' it' G Hmi') as [_ [_ _]].
    unfold mk_item in Hmi'. destruct (cells_of (tt_datefmt T) src' (row_cols T src')) as [cs|] eqn:Ec; [|discriminate].
    inversion Hmi'; subst it'. cbn [it_cells] in Hcv. destruct (cells_of_spec _ _ _ _ Ec) as [C1 _].
    assert (Hc : In c (map fst (row_cols T src'))) by (rewrite <- C1; apply in_map_iff; exists (c, v); split; [reflexivity | exact Hcv]).
    apply in_map_iff in Hc. destruct Hc as [[c' fld] [E1 Hc]]. cbn [fst] in E1. subst c'.
    destruct (tg_sheet T G s0 H0) as [_ [_ [_ S4]]]. specialize (S4 (c, fld) (row_cols_incl T src' _ Hc)). cbn [fst] in S4. rewrite C0. exact S4. }
  destruct HP as [st' HP]. exists st'. split; [unfold gen_asset; rewrite Hsz, Hmk; exact HP|].
  assert (NDsz : NoDup (map sw_name (ts_sheets {| ts_rows := ts_rows st; ts_sheets := sized |}))) by (cbn [ts_sheets]; rewrite Nsz; exact (tg_nodup T G)).
  destruct (place_all_spec T items _ st' NDsz HP) as [Hr [Hs _]]. cbn [ts_rows ts_sheets] in *. split.
  - rewrite Hs, map_map. rewrite <- Nsz. apply map_ext. reflexivity.
  - intros s' Hs' Hl'. rewrite Hs in Hs'. apply in_map_iff in Hs'. destruct Hs' as [s1 [E1 Hs1]]. subst s'.
    unfold is_legend in Hl'. cbn [app_writes sw_name sw_rows sw_cols] in *.
    destruct (HS s1 Hs1 Hl') as [r [s0 [R1 [R2 [R3 [H0 [N0 C0]]]]]]].
    exists (r + nrouted T (sw_name s1) items), s0. rewrite Hr, R1, (tg_step T G).
    pose proof (nrouted_nonneg T (sw_name s1) items). split; [f_equal; ring|]. split; [lia|]. tauto.
Qed.

Lemma gen_assets_ok i : forall acs st, Inv st ->
  (forall ac, In ac acs -> exists items, mk_items T (asset_sources i ac) = Ok items) ->
  (forall ac g, In ac acs -> In g (cd_gls (snd ac)) -> type_to_sheet T (t_type (g_ev g)) <> None) ->
  (forall ac, In ac acs -> cd_gls (snd ac) = iter_window g_day (rp_from i) (rp_to i) (cd_all_gls (snd ac))) ->
  exists st', gen_assets T i st acs = Ok st' /\ Inv st'.
Proof.
  induction acs as [|ac acs IH]; intros st I H1 H2 H3; [exists st; split; [reflexivity | exact I]|].
  destruct (gen_asset_ok i st ac I (H1 ac (or_introl eq_refl)) (fun g => H2 ac g (or_introl eq_refl)) (H3 ac (or_introl eq_refl))) as [st1 [E1 I1]].
  destruct (IH st1 I1 (fun a Ha => H1 a (or_intror Ha)) (fun a g Ha => H2 a g (or_intror Ha)) (fun a Ha => H3 a (or_intror Ha))) as [st' [E' I']].
  exists st'. split; [cbn [gen_assets]; rewrite E1; exact E' | exact I'].
Qed.

(** With consistent tables and a sizing expression that appends at least one row per fraction, the report
    is produced for every input whose fractions all have a sheet: no dictionary lookup fails and no row
    lies beyond the rows appended to its sheet, however many assets share it. *)
Theorem tax_report_total i acs : computed_all i (rp_assets i) = Ok acs ->
  (exists m, legend_method (tt_legend_single_by_value T) (rp_sched i) = Ok m) ->
  (forall ac, In ac acs -> exists items, mk_items T (asset_sources i ac) = Ok items) ->
  (forall ac g, In ac acs -> In g (cd_gls (snd ac)) -> type_to_sheet T (t_type (g_ev g)) <> None) ->
  exists out, tax_report T i = Ok out.
Proof.
  intros HC [m Hm] H1 H2. unfold tax_report. rewrite HC.
  unfold init_sheets. rewrite (tg_legend T G). cbn [negb]. unfold legend_writes.
  pose proof (tg_legend_row T G) as Hlr. destruct (tt_legend_method_row T) as [lr|]; [|congruence]. rewrite Hm.
  set (lw := [cw lr 1 (PStr m); cw (lr + 1) 1 (day_cell MIN_DAY (rp_from i)); cw (lr + 2) 1 (day_cell MAX_DAY (rp_to i))]).
  assert (I0 : Inv {| ts_rows := init_rows T; ts_sheets := omap_filter (init_sheet T lw) (tt_template T) |}).
  { split; cbn [ts_rows ts_sheets]; [apply init_names|]. intros s Hs Hl.
    assert (H0 : In s (data_sheets0 T)).
    { unfold data_sheets0, init0. rewrite <- (init_data T lw). apply filter_In. split; [exact Hs | rewrite Hl; reflexivity]. }
    exists (tt_first_row T), s. rewrite (init_rows_get T _ (proj1 (tg_keys T G _ (In_data_name T s H0)))).
    destruct (tg_sheet T G s H0) as [_ [S2 _]]. pose proof (tg_first T G). split; [reflexivity|]. split; [lia|]. tauto. }
  destruct (gen_assets_ok i acs _ I0 H1 H2 (computed_all_gls i _ _ HC)) as [st [EG [_ I2]]]. rewrite EG.
  destruct (prune_ok (ts_rows st) (ts_sheets st)) as [out Ho].
  - intros s Hs Hl. destruct (I2 s Hs Hl) as [r [_ [R _]]]. congruence.
  - rewrite Ho. exists out. reflexivity.
Qed.

End Total.

(** ---------- every write of a produced report lies inside its sheet *)
Section WithinCapacity.
Variable T : trtables.
Hypothesis G : tables_good T.
Hypothesis A : append_ok T.

Lemma Forall2_In_r {X Y} (R : X -> Y -> Prop) l l' y : Forall2 R l l' -> In y l' -> exists x, In x l /\ R x y.
Proof.
  intro F. induction F as [|a b l l' Hab F IH]; intro H; [contradiction|]. destruct H as [<-|H].
  - exists a. split; [left; reflexivity | exact Hab].
  - destruct (IH H) as [x [X1 X2]]. exists x. split; [right; exact X1 | exact X2].
Qed.

Lemma mk_item_cols src it : mk_item T src = Ok it -> forall cv, In cv (it_cells it) -> exists fld, In (fst cv, fld) (row_cols T src).
Proof.
  unfold mk_item. destruct (cells_of (tt_datefmt T) src (row_cols T src)) as [cs|] eqn:Ec; [|discriminate].
  intro H. inversion H; subst it. cbn [it_cells]. intros [c v] Hcv. destruct (cells_of_spec _ _ _ _ Ec) as [C1 _].
  assert (Hc : In c (map fst (row_cols T src))) by (rewrite <- C1; apply in_map_iff; exists (c, v); split; [reflexivity | exact Hcv]).
  apply in_map_iff in Hc. destruct Hc as [[c' fld] [E1 Hc]]. cbn [fst] in *. subst c'. exists fld. exact Hc.
Qed.

(** a successful asset step satisfies the premises of [gen_asset_ok], hence preserves the invariant *)
Lemma gen_asset_inv i st ac st' : Inv T st -> gen_asset T i st ac = Ok st' ->
  cd_gls (snd ac) = iter_window g_day (rp_from i) (rp_to i) (cd_all_gls (snd ac)) -> Inv T st'.
Proof.
  intros I H Hg. pose proof H as H0. unfold gen_asset in H0.
  destruct (size_sheets T (type_count i (snd ac)) (ts_sheets st)) as [sized|]; [|discriminate].
  destruct (mk_items T (asset_sources i ac)) as [items|] eqn:Hmk; [|discriminate].
  pose proof (place_all_routed T _ _ _ H0) as R.
  assert (Hty : forall g, In g (cd_gls (snd ac)) -> type_to_sheet T (t_type (g_ev g)) <> None).
  { intros g Hgl. rewrite <- (sources_gls (cd_gls (snd ac)) O (ra_name (fst ac)) (rp_period i) (cd_evfrac (snd ac)) (cd_lotfrac (snd ac))) in Hgl.
    fold (asset_sources i ac) in Hgl. apply in_map_iff in Hgl. destruct Hgl as [src [E Hsrc]]. subst g.
    apply In_nth_error in Hsrc. destruct Hsrc as [k Hk].
    destruct (Forall2_nth _ _ _ _ _ (mk_items_Forall2 T _ _ Hmk) Hk) as [it [Hit Hmi]].
    rewrite <- (mk_item_type T _ _ Hmi). rewrite Forall_forall in R. exact (R it (nth_error_In _ _ Hit)). }
  destruct (gen_asset_ok T G A i st ac I (ex_intro _ items Hmk) Hty Hg) as [st1 [E1 I1]].
  rewrite H in E1. inversion E1; subst. exact I1.
Qed.

Lemma gen_assets_inv i : forall acs st st', Inv T st -> gen_assets T i st acs = Ok st' ->
  (forall ac, In ac acs -> cd_gls (snd ac) = iter_window g_day (rp_from i) (rp_to i) (cd_all_gls (snd ac))) -> Inv T st'.
Proof.
  induction acs as [|ac acs IH]; intros st st' I H Hw; cbn [gen_assets] in H; [inversion H; subst; exact I|].
  destruct (gen_asset T i st ac) as [st1|] eqn:E; [|discriminate].
  apply (IH st1 st' (gen_asset_inv i st ac st1 I E (Hw ac (or_introl eq_refl))) H). intros a Ha. apply Hw. right. exact Ha.
Qed.

(** every data sheet of a produced report passes [sheet_ok]: template cells and all fraction rows lie inside
    the sheet as sized by the [append_rows] calls *)
Theorem data_sheets_within_capacity i out : tax_report T i = Ok out ->
  forall s, In s out -> is_legend s = false -> sheet_ok s = true.
Proof.
  intros H s Hs Hl. unfold tax_report in H.
  destruct (computed_all i (rp_assets i)) as [acs|] eqn:EC; [|discriminate].
  destruct (init_sheets T i) as [sheets|] eqn:EI; [|discriminate].
  destruct (gen_assets T i {| ts_rows := init_rows T; ts_sheets := sheets |} acs) as [st|] eqn:EG; [|discriminate].
  destruct (prune T (ts_rows st) (ts_sheets st)) as [out'|] eqn:EP; [|discriminate]. inversion H; subst out'. clear H.
  unfold init_sheets in EI. destruct (negb _) in EI; [discriminate|].
  destruct (legend_writes T i) as [lw|] eqn:EL; [|discriminate]. inversion EI; subst sheets. clear EI.
  assert (I0 : Inv T {| ts_rows := init_rows T; ts_sheets := omap_filter (init_sheet T lw) (tt_template T) |}).
  { split; cbn [ts_rows ts_sheets]; [apply init_names|]. intros s1 Hs1 Hl1.
    assert (H0 : In s1 (data_sheets0 T)).
    { unfold data_sheets0, init0. rewrite <- (init_data T lw). apply filter_In. split; [exact Hs1 | rewrite Hl1; reflexivity]. }
    exists (tt_first_row T), s1. rewrite (init_rows_get T _ (proj1 (tg_keys T G _ (In_data_name T s1 H0)))).
    destruct (tg_sheet T G s1 H0) as [_ [S2 _]]. pose proof (tg_first T G). split; [reflexivity|]. split; [lia|]. tauto. }
  pose proof (gen_assets_inv i acs _ st I0 EG (computed_all_gls i _ _ EC)) as [_ I2].
  assert (ND : NoDup (map sw_name (ts_sheets {| ts_rows := init_rows T; ts_sheets := omap_filter (init_sheet T lw) (tt_template T) |})))
    by (cbn [ts_sheets]; rewrite init_names; exact (tg_nodup T G)).
  destruct (gen_assets_spec T i acs _ st ND EG) as [items [Hitems [Hrows [[dr Hsheets] _]]]]. cbn [ts_rows ts_sheets] in *.
  rewrite (prune_spec T _ _ _ EP) in Hs. apply filter_In in Hs. destruct Hs as [Hs _].
  destruct (I2 s Hs Hl) as [r [s0' [R1 [R2 _]]]].
  rewrite Hsheets in Hs. apply in_map_iff in Hs. destruct Hs as [s1 [Es Hs1]].
  assert (H0 : In s1 (data_sheets0 T)).
  { unfold data_sheets0, init0. rewrite <- (init_data T lw). apply filter_In. split; [exact Hs1|].
    subst s. unfold is_legend in *. cbn [ext sw_name] in Hl. rewrite Hl. reflexivity. }
  pose proof (init_rows_get T _ (proj1 (tg_keys T G _ (In_data_name T s1 H0)))) as Hfirst.
  assert (Hn : sw_name s = sw_name s1) by (subst s; reflexivity).
  rewrite Hn, Hrows, Hfirst in R1.
  change (Some (tt_first_row T + tt_row_step T * nrouted T (sw_name s1) items) = Some r) in R1. injection R1 as Er. rewrite (tg_step T G), Z.mul_1_l in Er.
  destruct (tg_sheet T G s1 H0) as [S1 [S2 [S3 S4]]].
  unfold sheet_ok. apply forallb_forall. intros w Hw.
  assert (Hcap : sw_rows s >= tt_first_row T + nrouted T (sw_name s1) items /\ sw_cols s = sw_cols s1) by (split; [lia | subst s; reflexivity]).
  destruct Hcap as [Hcr Hcc]. pose proof (nrouted_nonneg T (sw_name s1) items) as Hnn. pose proof (tg_first T G) as Hf0.
  assert (Hin : (0 <= cw_row w < sw_rows s) /\ (0 <= cw_col w < sw_cols s)).
  { subst s. cbn [ext sw_writes sw_rows sw_cols sw_name] in *. apply in_app_or in Hw. destruct Hw as [Hw|Hw].
    - specialize (S3 w Hw). lia.
    - unfold rowd in Hw. rewrite Hfirst in Hw.
      destruct (In_spec_writes T _ _ _ _ Hw) as [j [it' [Hj [Rj Hin]]]].
      unfold row_of in Hin. rewrite (tg_step T G), Z.mul_1_l in Hin.
      unfold row_writes in Hin. apply in_map_iff in Hin. destruct Hin as [cv [Ew Hcv]]. subst w. cbn [cw cw_row cw_col].
      assert (Hlt : nrouted T (sw_name s1) (firstn j items) < nrouted T (sw_name s1) items).
      { assert (Hjl : (j < length items)%nat) by (apply nth_error_Some; congruence).
        pose proof (nrouted_firstn_lt T (sw_name s1) items j (length items) it' Hjl Hj Rj) as L. rewrite firstn_all in L. exact L. }
      pose proof (nrouted_nonneg T (sw_name s1) (firstn j items)).
      destruct (Forall2_In_r _ _ _ _ (all_items_Forall2 T i acs items Hitems) (nth_error_In _ _ Hj)) as [src [_ Hmi]].
      destruct (mk_item_cols src it' Hmi cv Hcv) as [fld Hfld]. specialize (S4 _ (row_cols_incl T src _ Hfld)). cbn [fst] in S4. lia. }
  unfold in_capacity. destruct Hin as [[a1 a2] [a3 a4]].
  apply andb_true_iff. split; [apply andb_true_iff; split; [apply andb_true_iff; split|]|]; first [apply Z.leb_le | apply Z.ltb_lt]; assumption.
Qed.

End WithinCapacity.

Lemma report_produced_of_total T : tables_ok T = true -> append_ok T -> routing_total T = true -> forall i acs,
  computed_all i (rp_assets i) = Ok acs ->
  (exists m, legend_method (tt_legend_single_by_value T) (rp_sched i) = Ok m) ->
  (forall ac, In ac acs -> exists items, mk_items T (asset_sources i ac) = Ok items) ->
  (forall ac g, In ac acs -> In g (cd_gls (snd ac)) -> In (t_type (g_ev g)) taxable_types) ->
  exists out, tax_report T i = Ok out.
Proof.
  intros H A R i acs HC HL HM HT. apply (tax_report_total T (tables_ok_good T H) A i acs HC HL HM).
  intros ac g Hac Hg. destruct (routing_total_spec T R _ (HT ac g Hac Hg)) as [n Hn]. congruence.
Qed.
Lemma us_report_produced : forall i acs,
  computed_all i (rp_assets i) = Ok acs ->
  (exists m, legend_method (tt_legend_single_by_value tax_tables_us) (rp_sched i) = Ok m) ->
  (forall ac, In ac acs -> exists items, mk_items tax_tables_us (asset_sources i ac) = Ok items) ->
  (forall ac g, In ac acs -> In g (cd_gls (snd ac)) -> In (t_type (g_ev g)) taxable_types) ->
  exists out, tax_report tax_tables_us i = Ok out.
Proof. exact (report_produced_of_total tax_tables_us us_tables_ok us_append_ok us_routing_total). Qed.

(** ---------- non-vacuity: concrete inputs meeting the hypotheses of the theorems above *)
(** US, fifo, two assets sharing the Capital Gains sheet (the integers are what the harness sends):
    AAA: IN row 3 2020-01-01 BUY 2 @ 100, OUT row 9 2021-03-01 SELL 1 @ 200
    BBB: the same plus IN row 4 2021-02-01 INTEREST 0.5 @ 150
    fractions as the implementation matched them: AAA 9<-3; BBB 4 (income), 9<-3 *)
Definition ex2_code : list Z :=
  [0; 365; 0; 2932896; 0; 1; 8; 67; 111; 105; 110; 98; 97; 115; 101; 1; 3; 66; 111; 98; 1; 1970; 0; 2; 3; 65; 65; 65; 1; 3; 1577836800000000; 0; 0; 0; 1; 10000000000000; 200000000000; 0; 0; 0; 0; 0; 0; 0; 0; 1; 9; 1614556800000000; 0; 0; 0; 11; 20000000000000; 100000000000; 0; 0; 0; 0; 0; 0; 0; 0; 1; 9; 1; 3; 100000000000; 3; 66; 66; 66; 2; 3; 1577836800000000; 0; 0; 0; 1; 10000000000000; 200000000000; 0; 0; 0; 0; 0; 0; 0; 0; 4; 1612137600000000; 0; 0; 0; 7; 15000000000000; 50000000000; 0; 0; 0; 0; 0; 0; 0; 0; 1; 9; 1614556800000000; 0; 0; 0; 11; 20000000000000; 100000000000; 0; 0; 0; 0; 0; 0; 0; 0; 2; 4; 0; 0; 50000000000; 9; 1; 3; 100000000000].

Example ex2_report : exists i acs out,
  rd_rinput ex2_code = Some (Ok i, []) /\ computed_all i (rp_assets i) = Ok acs /\ tax_report tax_tables_us i = Ok out
  /\ map sw_name out = [s_Legend; n_capital_gains; n_interest]
  /\ map (fun s => (rs_asset s, t_type (g_ev (rs_gl s)))) (all_sources i acs) = [([65; 65; 65], SELL); ([66; 66; 66], INTEREST); ([66; 66; 66], SELL)]
  /\ exists s, In s out /\ sw_name s = n_capital_gains
       /\ cell_at (sw_writes s) 7 1 = PStr [65; 65; 65] /\ cell_at (sw_writes s) 8 1 = PStr [66; 66; 66]
       /\ cell_at (sw_writes s) 8 14 = PStr s_LONG /\ cell_at (sw_writes s) 9 1 = PEmpty
       /\ sw_rows s = 102 + 22 + 22.
Proof.
  remember (rd_rinput ex2_code) as r eqn:E. vm_compute in E. subst r.
  eexists. eexists. eexists. split; [reflexivity|]. split; [vm_compute; reflexivity|]. split; [vm_compute; reflexivity|].
  split; [vm_compute; reflexivity|]. split; [vm_compute; reflexivity|].
  eexists. split; [right; left; reflexivity|]. vm_compute. repeat split.
Qed.

(** the US tables with LOST taken off every sheet: the shape of the IE map before the repair *)
Definition us_without_lost : trtables :=
  let U := tax_tables_us in
  {| tt_plugin := tt_plugin U; tt_sheet_names := tt_sheet_names U;
     tt_sheet_to_types := map (fun st => (fst st, filter (fun t => negb (ttype_eqb t LOST)) (snd st))) (tt_sheet_to_types U);
     tt_header_rows := tt_header_rows U; tt_min_rows := tt_min_rows U; tt_first_row := tt_first_row U; tt_empty_mark := tt_empty_mark U;
     tt_row_step := tt_row_step U; tt_append_rows := tt_append_rows U; tt_cols_always := tt_cols_always U; tt_cols_lot := tt_cols_lot U;
     tt_cols_nolot := tt_cols_nolot U; tt_datefmt := tt_datefmt U; tt_template_name := tt_template_name U; tt_output_file := tt_output_file U;
     tt_template := tt_template U; tt_legend_method_row := tt_legend_method_row U;
     tt_legend_single_by_value := tt_legend_single_by_value U |}.

Example missing_type_nonvacuous : exists i acs,
  rd_rinput f4_code = Some (Ok i, []) /\ computed_all i (rp_assets i) = Ok acs
  /\ (exists src, In src (all_sources i acs) /\ type_to_sheet us_without_lost (t_type (g_ev (rs_gl src))) = None)
  /\ tables_ok us_without_lost = true /\ routing_total us_without_lost = false
  /\ tax_report us_without_lost i = Err EInternal.
Proof.
  remember (rd_rinput f4_code) as r eqn:E. vm_compute in E. subst r.
  eexists. eexists. split; [reflexivity|]. split; [vm_compute; reflexivity|].
  split; [eexists; split; [left; reflexivity | vm_compute; reflexivity]|].
  split; [vm_compute; reflexivity|]. split; vm_compute; reflexivity.
Qed.

(** ---------- last on purpose: everything above is checked even when this fails *)
(** holds only when every type that can be a taxable event has a sheet in the IE map: with LOST missing
    (finding F4) this proof does not compile *)
Lemma ie_routing_total : routing_total tax_tables_ie = true.
Proof. vm_compute. reflexivity. Qed.
Lemma ie_routing_documented : routing_as_documented tax_tables_ie.
Proof. vm_compute. repeat split. Qed.
Lemma ie_report_produced : forall i acs,
  computed_all i (rp_assets i) = Ok acs ->
  (exists m, legend_method (tt_legend_single_by_value tax_tables_ie) (rp_sched i) = Ok m) ->
  (forall ac, In ac acs -> exists items, mk_items tax_tables_ie (asset_sources i ac) = Ok items) ->
  (forall ac g, In ac acs -> In g (cd_gls (snd ac)) -> In (t_type (g_ev g)) taxable_types) ->
  exists out, tax_report tax_tables_ie i = Ok out.
Proof. exact (report_produced_of_total tax_tables_ie ie_tables_ok ie_append_ok ie_routing_total). Qed.
