(** Proofs about the tax-report model (Model/TaxReport.v): row arithmetic of the fraction loop
    (per-sheet row indexes shared by all assets), the resulting cell contents, removal of empty
    sheets, capacity.  Finite facts about the generated tables are in the second half. *)
From Coq Require Import List ZArith Bool Lia Permutation.
From RP2V Require Import Base.Prelude Base.Time Base.Dec Base.Sorting Base.Assoc Model.Types Model.Generated Model.Txn
  Model.Matcher Model.Pipeline Model.Computed Model.Grid Model.ReportInput Model.TaxReport Proofs.AssocProofs Proofs.FilterProofs.
Import ListNotations.
Open Scope Z_scope.

(** ---------- strings and string-keyed dictionaries *)
Lemma str_eqb_eq : forall a b, str_eqb a b = true <-> a = b.
Proof.
  induction a as [|x a IH]; intros [|y b]; cbn [str_eqb]; split; intro H; try reflexivity; try discriminate.
  - apply andb_true_iff in H. destruct H as [H1 H2]. apply Z.eqb_eq in H1. apply IH in H2. congruence.
  - inversion H; subst. apply andb_true_iff. split; [apply Z.eqb_refl | apply IH; reflexivity].
Qed.
Lemma str_eqb_refl a : str_eqb a a = true.
Proof. apply str_eqb_eq. reflexivity. Qed.
Lemma str_eqb_neq a b : str_eqb a b = false <-> a <> b.
Proof.
  split; intro H.
  - intro E. apply str_eqb_eq in E. congruence.
  - destruct (str_eqb a b) eqn:E; [apply str_eqb_eq in E; contradiction | reflexivity].
Qed.
Lemma str_eqb_sym a b : str_eqb a b = str_eqb b a.
Proof.
  destruct (str_eqb a b) eqn:E.
  - apply str_eqb_eq in E. subst. symmetry. apply str_eqb_refl.
  - symmetry. apply str_eqb_neq. apply str_eqb_neq in E. congruence.
Qed.

Lemma smem_In k l : smem k l = true <-> In k l.
Proof.
  unfold smem. rewrite existsb_exists. split.
  - intros [x [H1 H2]]. apply str_eqb_eq in H2. subst. exact H1.
  - intro H. exists k. split; [exact H | apply str_eqb_refl].
Qed.

Lemma str_nodup_NoDup l : str_nodup l = true -> NoDup l.
Proof.
  induction l as [|x l IH]; cbn [str_nodup]; intro H; [constructor|].
  apply andb_true_iff in H. destruct H as [H1 H2]. constructor; [|apply IH; exact H2].
  intro HI. apply smem_In in HI. rewrite HI in H1. discriminate.
Qed.

Lemma z_nodup_NoDup l : z_nodup l = true -> NoDup l.
Proof.
  induction l as [|x l IH]; cbn [z_nodup]; intro H; [constructor|].
  apply andb_true_iff in H. destruct H as [H1 H2]. constructor; [|apply IH; exact H2].
  intro HI. apply negb_true_iff in H1. rewrite <- not_true_iff_false in H1. apply H1.
  apply existsb_exists. exists x. split; [exact HI | apply Z.eqb_refl].
Qed.

Section SDict.
Context {V : Type}.
Lemma sget_sset (n k : str) (v : V) m : sget n (sset k v m) = if str_eqb n k then Some v else sget n m.
Proof.
  induction m as [|[k' v'] m IH]; cbn [sset sget].
  - reflexivity.
  - destruct (str_eqb k k') eqn:E; cbn [sget].
    + apply str_eqb_eq in E. subst k'. destruct (str_eqb n k); reflexivity.
    + rewrite IH. destruct (str_eqb n k') eqn:E2; [|reflexivity].
      apply str_eqb_eq in E2. subst k'. rewrite (str_eqb_sym n k), E. reflexivity.
Qed.
Lemma sget_In (k : str) (v : V) m : sget k m = Some v -> In (k, v) m.
Proof.
  induction m as [|[k' v'] m IH]; cbn [sget]; [discriminate|].
  destruct (str_eqb k k') eqn:E; intro H.
  - apply str_eqb_eq in E. inversion H; subst. left. reflexivity.
  - right. apply IH. exact H.
Qed.
Lemma In_sget (k : str) (v : V) m : NoDup (map fst m) -> In (k, v) m -> sget k m = Some v.
Proof.
  induction m as [|[k' v'] m IH]; cbn [sget map fst]; intros ND HI; [contradiction|].
  inversion ND as [|? ? Hn ND']; subst. destruct HI as [HI|HI].
  - inversion HI; subst. rewrite str_eqb_refl. reflexivity.
  - destruct (str_eqb k k') eqn:E.
    + apply str_eqb_eq in E. subst k'. exfalso. apply Hn. apply in_map_iff. exists (k, v). split; [reflexivity|exact HI].
    + apply IH; assumption.
Qed.
Lemma sget_map_const (k : str) (v : V) l : sget k (map (fun n => (n, v)) l) = if smem k l then Some v else None.
Proof.
  induction l as [|x l IH]; cbn [map sget smem existsb]; [reflexivity|].
  destruct (str_eqb k x); [reflexivity|]. exact IH.
Qed.
End SDict.

(** ---------- the last write to a cell wins *)
Lemma final_cells_app ws w :
  final_cells (ws ++ [w]) = aset (cell_key (cw_row w) (cw_col w)) (cw_val w) (final_cells ws).
Proof. unfold final_cells. rewrite fold_left_app. reflexivity. Qed.

Lemma cell_at_unique : forall ws r c v,
  In (cw r c v) ws ->
  (forall w, In w ws -> cell_key (cw_row w) (cw_col w) = cell_key r c -> cw_val w = v) ->
  cell_at ws r c = v.
Proof.
  intros ws r c v. induction ws as [|w ws IH] using rev_ind; intros HI HU; [contradiction|].
  unfold cell_at. rewrite final_cells_app. rewrite aget_d_aset.
  destruct (cell_key r c =? cell_key (cw_row w) (cw_col w)) eqn:E.
  - apply Z.eqb_eq in E. apply HU; [apply in_or_app; right; left; reflexivity | symmetry; exact E].
  - apply in_app_or in HI. destruct HI as [HI|[HI|[]]].
    + apply IH; [exact HI|]. intros w' Hw'. apply HU. apply in_or_app. left. exact Hw'.
    + subst w. cbn in E. rewrite Z.eqb_refl in E. discriminate.
Qed.

Lemma cell_key_inj r c r' c' : 0 <= c < 1024 -> 0 <= c' < 1024 -> cell_key r c = cell_key r' c' -> r = r' /\ c = c'.
Proof. unfold cell_key. intros. lia. Qed.

(** ---------- the fraction loop *)
Section Loop.
Variable T : trtables.
Notation step := (tt_row_step T).

Definition app_writes (s : sheetw) (ws : list cellw) : sheetw :=
  {| sw_name := sw_name s; sw_rows := sw_rows s; sw_cols := sw_cols s; sw_writes := sw_writes s ++ ws |}.
Lemma app_writes_nil s : app_writes s [] = s.
Proof. destruct s. unfold app_writes. cbn. rewrite app_nil_r. reflexivity. Qed.
Lemma app_writes_app s a b : app_writes (app_writes s a) b = app_writes s (a ++ b).
Proof. unfold app_writes. cbn. rewrite app_assoc. reflexivity. Qed.

Definition rowd (rows : list (str * Z)) (n : str) : Z := match sget n rows with Some r => r | None => 0 end.

Lemma add_writes_names n ws l : map sw_name (add_writes n ws l) = map sw_name l.
Proof.
  induction l as [|s l IH]; cbn [add_writes map]; [reflexivity|].
  destruct (str_eqb (sw_name s) n); cbn [map sw_name]; [reflexivity|]. rewrite IH. reflexivity.
Qed.

Lemma add_writes_map n ws l : NoDup (map sw_name l) ->
  add_writes n ws l = map (fun s => if str_eqb (sw_name s) n then app_writes s ws else s) l.
Proof.
  induction l as [|s l IH]; cbn [add_writes map]; intro ND; [reflexivity|].
  inversion ND as [|? ? Hn ND']; subst.
  destruct (str_eqb (sw_name s) n) eqn:E.
  - f_equal. apply str_eqb_eq in E. subst n.
    clear IH ND ND'. induction l as [|s' l IH]; [reflexivity|]. cbn [map].
    destruct (str_eqb (sw_name s') (sw_name s)) eqn:E.
    + exfalso. apply Hn. left. apply str_eqb_eq in E. exact E.
    + f_equal. apply IH. intro H. apply Hn. right. exact H.
  - f_equal. apply IH. exact ND'.
Qed.

Lemma routed_target n it m : type_to_sheet T (it_type it) = Some m -> routed T n it = str_eqb m n.
Proof. unfold routed. intros ->. reflexivity. Qed.

Lemma nrouted_cons n it l : nrouted T n (it :: l) = (if routed T n it then 1 else 0) + nrouted T n l.
Proof. unfold nrouted. cbn [filter]. destruct (routed T n it); cbn [length]; lia. Qed.
Lemma nrouted_app n a b : nrouted T n (a ++ b) = nrouted T n a + nrouted T n b.
Proof. unfold nrouted. rewrite filter_app, app_length, Nat2Z.inj_add. reflexivity. Qed.
Lemma nrouted_nil n : nrouted T n [] = 0.
Proof. reflexivity. Qed.
Lemma nrouted_nonneg n l : 0 <= nrouted T n l.
Proof. unfold nrouted. lia. Qed.

Lemma spec_writes_app n : forall a r b,
  spec_writes T n r (a ++ b) = spec_writes T n r a ++ spec_writes T n (r + step * nrouted T n a) b.
Proof.
  induction a as [|it a IH]; intros r b; cbn [app spec_writes].
  - replace (r + step * nrouted T n []) with r by (unfold nrouted; cbn; ring). reflexivity.
  - rewrite nrouted_cons. destruct (routed T n it).
    + rewrite IH, <- app_assoc. replace (r + step * (1 + nrouted T n a)) with (r + step + step * nrouted T n a) by ring. reflexivity.
    + rewrite IH. replace (r + step * (0 + nrouted T n a)) with (r + step * nrouted T n a) by ring. reflexivity.
Qed.

Lemma spec_writes_none n : forall l r, nrouted T n l = 0 -> spec_writes T n r l = [].
Proof.
  induction l as [|it l IH]; intros r H; cbn [spec_writes]; [reflexivity|].
  rewrite nrouted_cons in H. pose proof (nrouted_nonneg n l). destruct (routed T n it); [lia|]. apply IH. lia.
Qed.

(** inversion of one iteration *)
Lemma place_inv st it st' : place T st it = Ok st' ->
  exists n s r, type_to_sheet T (it_type it) = Some n /\ find_sheet n (ts_sheets st) = Some s /\ sget n (ts_rows st) = Some r
    /\ forallb (in_capacity s) (row_writes r it) = true
    /\ st' = {| ts_rows := sset n (r + step) (ts_rows st); ts_sheets := add_writes n (row_writes r it) (ts_sheets st) |}.
Proof.
  unfold place. destruct (type_to_sheet T (it_type it)) as [n|] eqn:E1; [|discriminate].
  destruct (find_sheet n (ts_sheets st)) as [s|] eqn:E2; [|discriminate].
  destruct (sget n (ts_rows st)) as [r|] eqn:E3; [|discriminate].
  destruct (forallb (in_capacity s) (row_writes r it)) eqn:E; [|discriminate].
  intro H. injection H as H. subst st'. exists n, s, r. split; [reflexivity|]. split; [exact E2|]. split; [exact E3|].
  split; [exact E | reflexivity].
Qed.

(** the loop over a list of fractions: every row index advances by the number of fractions routed to
    its sheet; every sheet receives exactly [spec_writes] after what it held *)
Lemma place_all_spec : forall l st st', NoDup (map sw_name (ts_sheets st)) -> place_all T st l = Ok st' ->
  (forall n, sget n (ts_rows st') = match sget n (ts_rows st) with Some r => Some (r + step * nrouted T n l) | None => None end)
  /\ ts_sheets st' = map (fun s => app_writes s (spec_writes T (sw_name s) (rowd (ts_rows st) (sw_name s)) l)) (ts_sheets st).
Proof.
  induction l as [|it l IH]; intros st st' ND H; cbn [place_all] in H.
  - inversion H; subst. split.
    + intro n. destruct (sget n (ts_rows st')); [f_equal; unfold nrouted; cbn; lia | reflexivity].
    + cbn [spec_writes]. rewrite <- (map_id (ts_sheets st')) at 1. apply map_ext. intro s. symmetry. apply app_writes_nil.
  - destruct (place T st it) as [st1|] eqn:HP; [|discriminate].
    destruct (place_inv _ _ _ HP) as [m [s [r [Hm [Hs [Hr [_ Hst1]]]]]]].
    assert (ND1 : NoDup (map sw_name (ts_sheets st1))) by (subst st1; cbn [ts_sheets]; rewrite add_writes_names; exact ND).
    destruct (IH st1 st' ND1 H) as [IHr IHs]. split.
    + intro n. rewrite IHr. subst st1. cbn [ts_rows]. rewrite sget_sset, nrouted_cons, (routed_target n it m Hm).
      destruct (str_eqb n m) eqn:E.
      * apply str_eqb_eq in E. subst n. rewrite Hr, str_eqb_refl. f_equal. lia.
      * rewrite (str_eqb_sym m n), E. destruct (sget n (ts_rows st)); [f_equal; lia | reflexivity].
    + rewrite IHs. subst st1. cbn [ts_sheets ts_rows]. rewrite (add_writes_map _ _ _ ND), map_map. apply map_ext. intro s0.
      cbn [spec_writes]. rewrite (routed_target (sw_name s0) it m Hm).
      destruct (str_eqb (sw_name s0) m) eqn:E.
      * assert (Hn : sw_name s0 = m) by (apply str_eqb_eq; exact E).
        rewrite app_writes_app. cbn [app_writes sw_name]. rewrite Hn, str_eqb_refl. unfold rowd.
        rewrite sget_sset, str_eqb_refl, Hr. reflexivity.
      * rewrite (str_eqb_sym m (sw_name s0)), E. unfold rowd. rewrite sget_sset, E. reflexivity.
Qed.

(** ---------- where a fraction lands *)
Lemma split_nth {A} : forall (l : list A) k x, nth_error l k = Some x -> l = firstn k l ++ x :: skipn (S k) l.
Proof.
  induction l as [|y l IH]; intros [|k] x H; cbn in H; try discriminate.
  - inversion H. reflexivity.
  - cbn [firstn skipn app]. f_equal. apply IH. exact H.
Qed.
Lemma firstn_S_nth {A} : forall (l : list A) k x, nth_error l k = Some x -> firstn (S k) l = firstn k l ++ [x].
Proof.
  induction l as [|y l IH]; intros [|k] x H; cbn in H; try discriminate.
  - inversion H. reflexivity.
  - cbn [firstn app]. f_equal. apply IH. exact H.
Qed.

(** row of the k-th fraction of the list on sheet [n], when the sheet's row index starts at [r] *)
Definition row_of (n : str) (r : Z) (l : list item) (k : nat) : Z := r + step * nrouted T n (firstn k l).

Lemma spec_writes_at n r l k it : nth_error l k = Some it -> routed T n it = true ->
  spec_writes T n r l = spec_writes T n r (firstn k l) ++ row_writes (row_of n r l k) it
                        ++ spec_writes T n (row_of n r l k + step) (skipn (S k) l).
Proof.
  intros Hk Hr. rewrite (split_nth l k it Hk) at 1. rewrite spec_writes_app. cbn [spec_writes]. rewrite Hr. reflexivity.
Qed.

Lemma In_spec_writes n : forall l r w, In w (spec_writes T n r l) ->
  exists j it, nth_error l j = Some it /\ routed T n it = true /\ In w (row_writes (row_of n r l j) it).
Proof.
  unfold row_of. induction l as [|it l IH]; intros r w H; cbn [spec_writes] in H; [contradiction|].
  destruct (routed T n it) eqn:E.
  - apply in_app_or in H. destruct H as [H|H].
    + exists O, it. split; [reflexivity|]. split; [exact E|]. cbn [firstn].
      replace (r + step * nrouted T n []) with r by (unfold nrouted; cbn; ring). exact H.
    + destruct (IH _ _ H) as [j [it' [H1 [H2 H3]]]]. exists (S j), it'. split; [exact H1|]. split; [exact H2|].
      cbn [firstn]. rewrite nrouted_cons, E.
      replace (r + step * (1 + nrouted T n (firstn j l))) with (r + step + step * nrouted T n (firstn j l)) by ring. exact H3.
  - destruct (IH _ _ H) as [j [it' [H1 [H2 H3]]]]. exists (S j), it'. split; [exact H1|]. split; [exact H2|].
    cbn [firstn]. rewrite nrouted_cons, E.
    replace (r + step * (0 + nrouted T n (firstn j l))) with (r + step * nrouted T n (firstn j l)) by ring. exact H3.
Qed.

Lemma nrouted_firstn_mono n : forall l a b, (a <= b)%nat -> nrouted T n (firstn a l) <= nrouted T n (firstn b l).
Proof.
  induction l as [|x l IH]; intros a b H.
  - rewrite !firstn_nil. lia.
  - destruct a as [|a]; [cbn [firstn]; rewrite nrouted_nil; apply nrouted_nonneg|].
    destruct b as [|b]; [lia|]. cbn [firstn]. rewrite !nrouted_cons. specialize (IH a b). lia.
Qed.

Lemma nrouted_firstn_lt n l j k it : (j < k)%nat -> nth_error l j = Some it -> routed T n it = true ->
  nrouted T n (firstn j l) < nrouted T n (firstn k l).
Proof.
  intros Hjk Hj Hr. pose proof (nrouted_firstn_mono n l (S j) k Hjk) as H.
  rewrite (firstn_S_nth l j it Hj), nrouted_app, nrouted_cons, Hr, nrouted_nil in H. lia.
Qed.

(** two different fractions of one sheet never share a row *)
Lemma rows_distinct n r l j k itj itk : 0 < step -> j <> k ->
  nth_error l j = Some itj -> nth_error l k = Some itk -> routed T n itj = true -> routed T n itk = true ->
  row_of n r l j <> row_of n r l k.
Proof.
  intros Hs Hne Hj Hk Rj Rk. unfold row_of.
  destruct (Nat.lt_ge_cases j k) as [L|L].
  - pose proof (nrouted_firstn_lt n l j k itj L Hj Rj). nia.
  - assert (L' : (k < j)%nat) by lia. pose proof (nrouted_firstn_lt n l k j itk L' Hk Rk). nia.
Qed.

Lemma NoDup_fst_inj {A B} (l : list (A * B)) a b b' : NoDup (map fst l) -> In (a, b) l -> In (a, b') l -> b = b'.
Proof.
  induction l as [|[x y] l IH]; cbn [map fst]; intros ND H1 H2; [contradiction|].
  inversion ND as [|? ? Hn ND']; subst.
  destruct H1 as [H1|H1], H2 as [H2|H2].
  - congruence.
  - inversion H1; subst. exfalso. apply Hn. apply in_map_iff. exists (a, b'). split; [reflexivity|exact H2].
  - inversion H2; subst. exfalso. apply Hn. apply in_map_iff. exists (a, b). split; [reflexivity|exact H1].
  - apply IH; assumption.
Qed.

Definition item_wf (it : item) : Prop :=
  NoDup (map fst (it_cells it)) /\ Forall (fun cv => 0 <= fst cv < 1024) (it_cells it).

(** the cell (row of the fraction, column) holds the fraction's value at the end: nothing written
    before (template cells above the first row) or after (other fractions) replaces it *)
Lemma cell_at_spec n pre r l k it c v :
  0 < step ->
  (forall w, In w pre -> cw_row w < r /\ 0 <= cw_col w < 1024) ->
  Forall item_wf l ->
  nth_error l k = Some it -> routed T n it = true -> In (c, v) (it_cells it) ->
  cell_at (pre ++ spec_writes T n r l) (row_of n r l k) c = v.
Proof.
  intros Hs Hpre Hwf Hk Hr Hc.
  assert (Hit : item_wf it) by (rewrite Forall_forall in Hwf; apply Hwf; eapply nth_error_In; exact Hk).
  assert (Hcr : 0 <= c < 1024) by (destruct Hit as [_ F]; rewrite Forall_forall in F; apply (F (c, v) Hc)).
  apply cell_at_unique.
  - apply in_or_app. right. rewrite (spec_writes_at n r l k it Hk Hr). apply in_or_app. right. apply in_or_app. left.
    unfold row_writes. apply in_map_iff. exists (c, v). split; [reflexivity | exact Hc].
  - intros w Hw Hkey. apply in_app_or in Hw. destruct Hw as [Hw|Hw].
    + destruct (Hpre w Hw) as [H1 H2]. destruct (cell_key_inj _ _ _ _ H2 Hcr Hkey) as [E _].
      exfalso. unfold row_of in E. pose proof (nrouted_nonneg n (firstn k l)). nia.
    + destruct (In_spec_writes n l r w Hw) as [j [it' [Hj [Rj Hin]]]].
      unfold row_writes in Hin. apply in_map_iff in Hin. destruct Hin as [[c' v'] [Ew Hc']]. subst w. cbn [cw cw_row cw_col cw_val fst snd] in *.
      assert (Hit' : item_wf it') by (rewrite Forall_forall in Hwf; apply Hwf; eapply nth_error_In; exact Hj).
      assert (Hcr' : 0 <= c' < 1024) by (destruct Hit' as [_ F]; rewrite Forall_forall in F; apply (F (c', v') Hc')).
      destruct (cell_key_inj _ _ _ _ Hcr' Hcr Hkey) as [Er Ec]. subst c'.
      destruct (Nat.eq_dec j k) as [Ejk|Ejk].
      * subst j. rewrite Hk in Hj. inversion Hj; subst it'. destruct Hit as [ND _]. exact (NoDup_fst_inj _ _ _ _ ND Hc' Hc).
      * exfalso. exact (rows_distinct n r l j k it' it Hs Ejk Hj Hk Rj Hr Er).
Qed.

End Loop.
