(** Proofs about the tax-report model (Model/TaxReport.v). *)
From RP2V Require Import Base.Prelude Base.Time Base.Dec Base.Sorting Base.Assoc Model.Types Model.Generated Model.Txn
  Model.Computed Model.Grid Model.ReportInput Model.TaxReport.
Open Scope Z_scope.

Lemma stub_us_sell : type_to_sheet tax_tables_us SELL = Some [67; 97; 112; 105; 116; 97; 108; 32; 71; 97; 105; 110; 115].
Proof. vm_compute. reflexivity. Qed.
