(** C12, sheet level: a single faulty cell in a data row, a broken table structure, a missing / empty IN table or an
    unknown asset make [parse_sheet] fail -- at every position (any accepted prefix, any rest of the sheet). *)
From RP2V Require Import Base.Prelude Base.Time Base.Dec Base.Sorting Model.Types Model.Generated Model.Txn Model.Parser Model.Render
  Proofs.ParserLookup Proofs.ParserRows Proofs.ParserSheet Proofs.FaultsCtor.
Open Scope Z_scope.

Ltac contra :=
  match goal with
  | H : is_err (Ok _) |- _ => destruct H
  | H : is_err ?x, E : ?x = Ok _ |- _ => rewrite E in H; exact H
  | H : ?x = false, E : negb ?x = false |- _ => rewrite H in E; discriminate
  | H : ?x = true, E : ?x = false |- _ => rewrite H in E; discriminate
  | H : ?x = false, E : ?x = true |- _ => rewrite H in E; discriminate
  end.

(** ---------- bad cells *)
Lemma ts_arg_not_aware cfg s : res_ts cfg s = None -> is_err (ts_arg cfg (ACell (CStr s))).
Proof. unfold res_ts, ts_arg. simpl. destruct (ts_lookup s (pc_ts cfg)); simpl; auto; discriminate. Qed.

Lemma ts_naive_or_bad cfg s : ts_lookup s (pc_ts cfg) = TsNaive \/ ts_lookup s (pc_ts cfg) = TsBad -> res_ts cfg s = None.
Proof. unfold res_ts. intros [-> | ->]; reflexivity. Qed.

Lemma str_arg_nonstring c : (forall s, c <> CStr s) -> is_err (str_arg (ACell c)).
Proof. destruct c; simpl; auto. intro H. exfalso. apply (H s). reflexivity. Qed.

Lemma ts_arg_nonstring cfg c : (forall s, c <> CStr s) -> is_err (ts_arg cfg (ACell c)).
Proof. intro H. unfold ts_arg. pose proof (str_arg_nonstring c H). destruct (str_arg (ACell c)); simpl in *; [contradiction|exact I]. Qed.

Lemma member_arg_unknown s l : str_index s l 0 = None -> is_err (member_arg (ACell (CStr s)) l).
Proof. unfold member_arg. simpl. intros ->. exact I. Qed.

Lemma member_arg_nonstring c l : (forall s, c <> CStr s) -> is_err (member_arg (ACell c) l).
Proof. intro H. unfold member_arg. pose proof (str_arg_nonstring c H). destruct (str_arg (ACell c)); simpl in *; [contradiction|exact I]. Qed.

Lemma ttype_arg_unknown s : ttype_of_str s = None -> is_err (ttype_arg (ACell (CStr s))).
Proof. unfold ttype_arg. simpl. intros ->. exact I. Qed.

Lemma mandatory_num_nonnumeric s : is_err (mandatory_num (ACell (CStr s))).
Proof. exact I. Qed.
Lemma mandatory_num_empty : is_err (mandatory_num (ACell CEmpty)).
Proof. exact I. Qed.
Lemma mandatory_num_absent : is_err (mandatory_num ANone).
Proof. exact I. Qed.
Lemma optional_num_nonnumeric s : is_err (optional_num (ACell (CStr s))).
Proof. exact I. Qed.

(** ---------- a bad argument for any field makes row construction fail *)
Definition arg_bad_in (cfg : pcfg) (f : Z) (a : arg) : Prop :=
  (f = 0 /\ is_err (ts_arg cfg a)) \/ (f = 1 /\ is_err (member_arg a (pc_assets cfg))) \/
  (f = 2 /\ is_err (member_arg a (pc_exchanges cfg))) \/ (f = 3 /\ is_err (member_arg a (pc_holders cfg))) \/
  (f = 4 /\ is_err (ttype_arg a)) \/ (f = 5 /\ is_err (mandatory_num a)) \/ (f = 6 /\ is_err (mandatory_num a)) \/
  (f = 7 /\ is_err (optional_num a)) \/ (f = 8 /\ is_err (optional_num a)) \/ (f = 9 /\ is_err (optional_num a)) \/
  (f = 10 /\ is_err (optional_num a)) \/ (f = 12 /\ notes_ok a = false).
Definition arg_bad_out (cfg : pcfg) (f : Z) (a : arg) : Prop :=
  (f = 0 /\ is_err (ts_arg cfg a)) \/ (f = 1 /\ is_err (member_arg a (pc_assets cfg))) \/
  (f = 2 /\ is_err (member_arg a (pc_exchanges cfg))) \/ (f = 3 /\ is_err (member_arg a (pc_holders cfg))) \/
  (f = 4 /\ is_err (ttype_arg a)) \/ (f = 5 /\ is_err (mandatory_num a)) \/ (f = 6 /\ is_err (mandatory_num a)) \/
  (f = 7 /\ is_err (mandatory_num a)) \/ (f = 8 /\ is_err (optional_num a)) \/ (f = 9 /\ is_err (optional_num a)) \/
  (f = 10 /\ is_err (optional_num a)) \/ (f = 12 /\ notes_ok a = false).
Definition arg_bad_intra (cfg : pcfg) (f : Z) (a : arg) : Prop :=
  (f = 0 /\ is_err (ts_arg cfg a)) \/ (f = 1 /\ is_err (member_arg a (pc_assets cfg))) \/
  (f = 2 /\ is_err (member_arg a (pc_exchanges cfg))) \/ (f = 3 /\ is_err (member_arg a (pc_holders cfg))) \/
  (f = 4 /\ is_err (member_arg a (pc_exchanges cfg))) \/ (f = 5 /\ is_err (member_arg a (pc_holders cfg))) \/
  (f = 6 /\ (a = ANone \/ is_err (optional_num a))) \/ (f = 7 /\ is_err (mandatory_num a)) \/ (f = 8 /\ is_err (mandatory_num a)) \/
  (f = 10 /\ notes_ok a = false).

Ltac cases H := repeat (destruct H as [[-> H]|H]; [|]); [..|destruct H as [-> H]].

Lemma create_in_args_bad cfg rowno ga f : arg_bad_in cfg f (ga f) -> is_err (create_in_args cfg rowno ga).
Proof. intro H. unfold arg_bad_in in H. cases H; unfold create_in_args; chase; contra. Qed.

Lemma create_out_args_bad cfg rowno ga f : arg_bad_out cfg f (ga f) -> is_err (create_out_args cfg rowno ga).
Proof. intro H. unfold arg_bad_out in H. cases H; unfold create_out_args; chase; contra. Qed.

Lemma create_intra_args_bad cfg rowno ga f : arg_bad_intra cfg f (ga f) -> is_err (create_intra_args cfg rowno ga).
Proof.
  intro H. unfold arg_bad_intra in H. cases H; unfold create_intra_args; chase; try contra.
  destruct H as [H|H]; [discriminate|]. destruct c; simpl in *; try contradiction; try discriminate; try contra.
Qed.

Definition create_err (cfg : pcfg) (t : table) (rowno : Z) (row : list cell) : Prop :=
  match t with
  | TabIn => is_err (create_in cfg rowno row) \/ (exists r, create_in cfg rowno row = Ok r /\ is_err (mk_in r))
  | TabOut => is_err (create_out cfg rowno row) \/ (exists r, create_out cfg rowno row = Ok r /\ is_err (mk_out r))
  | TabIntra => is_err (create_intra cfg rowno row) \/ (exists r, create_intra cfg rowno row = Ok r /\ is_err (mk_intra r))
  end.

(** a data row that does not construct, or whose asset is not the sheet's, is an error (never skipped) *)
Lemma data_row_fault cfg asset s t rowno row :
  create_err cfg t rowno row \/ asset_is cfg (header_of cfg t) row asset = false ->
  is_err (data_row cfg asset s t rowno row).
Proof.
  intros [H|H]; destruct t; simpl in H; unfold data_row.
  1-3: destruct H as [H|[r [H1 H2]]]; [chase; contra | rewrite H1; simpl bind; chase; contra].
  all: chase; contra.
Qed.

(** a cell injected into a row at column [col] is what the parser reads for the field mapped to that column *)
Lemma get_arg_upd h row col c f : lookup_col f h = Some (Z.of_nat col) -> (col < length row)%nat ->
  get_arg h (upd row col c) f = ACell c.
Proof. intros L B. unfold get_arg. rewrite L, Nat2Z.id, nth_upd_same by assumption. reflexivity. Qed.

Lemma row_too_short_upd h row col c : row_too_short h (upd row col c) = row_too_short h row.
Proof. unfold row_too_short. rewrite upd_length. reflexivity. Qed.

(** ---------- row_step on faulty rows *)
Lemma step_data_fault cfg asset s t rowno row :
  ps_cur s = Some t -> ps_count s <> 1 -> first_ok (nth 0 row CEmpty) = true ->
  is_err (data_row cfg asset s t rowno row) -> is_err (row_step cfg asset s rowno row).
Proof.
  intros C N F D. destruct (first_ok_facts _ F) as [E1 [E2 E3]].
  unfold row_step, row_step_gen. rewrite C, E3, E1, E2. simpl.
  destruct (ps_count s =? 1) eqn:K; [apply Z.eqb_eq in K; contradiction|].
  destruct (data_row cfg asset s t rowno row); [contradiction|exact I].
Qed.

Lemma step_nested cfg asset s t t' rowno row :
  ps_cur s = Some t -> table_of_cell (nth 0 row CEmpty) = Some t' -> is_err (row_step cfg asset s rowno row).
Proof. intros C K. unfold row_step, row_step_gen. rewrite C, K. simpl. exact I. Qed.

Lemma step_blank_in_table cfg asset s t rowno row :
  ps_cur s = Some t -> is_empty_cell (nth 0 row CEmpty) = true -> is_err (row_step cfg asset s rowno row).
Proof. intros C K. unfold row_step, row_step_gen. rewrite C, K. rewrite orb_true_r. exact I. Qed.

Lemma step_table_end_outside cfg asset s rowno row :
  ps_cur s = None -> is_table_end (nth 0 row CEmpty) = true -> is_err (row_step cfg asset s rowno row).
Proof. intros C K. unfold row_step, row_step_gen. rewrite C, K. simpl. exact I. Qed.

Lemma step_data_outside cfg asset s rowno row :
  ps_cur s = None -> first_ok (nth 0 row CEmpty) = true -> is_err (row_step cfg asset s rowno row).
Proof.
  intros C F. destruct (first_ok_facts _ F) as [E1 [E2 E3]].
  unfold row_step, row_step_gen. rewrite C, E3, E1, E2. simpl. exact I.
Qed.

Lemma step_repeated cfg asset s t rowno row :
  ps_cur s = None -> table_of_cell (nth 0 row CEmpty) = Some t -> repeated_table gen_parser_remembers_tables s t = true ->
  is_err (row_step cfg asset s rowno row).
Proof.
  intros C K SE. destruct (kw_facts _ _ K) as [E1 E2].
  unfold row_step, row_step_gen. cbv zeta. rewrite C, K, E1, E2. cbn [orb andb negb]. rewrite SE. exact I.
Qed.

(** whichever test the code uses, a table type whose set already holds transactions counts as repeated ... *)
Lemma repeated_if_set_nonempty s t : set_empty s t = false -> seen_has t (ps_seen s) = true -> repeated_table gen_parser_remembers_tables s t = true.
Proof. intros H1 H2. unfold repeated_table. destruct gen_parser_remembers_tables; [exact H2|rewrite H1; reflexivity]. Qed.

(** ---------- propagation: an error at any row is the result of the whole sheet *)
Lemma parse_rows_app cfg asset : forall l1 l2 s n,
  parse_rows cfg asset s n (l1 ++ l2)
  = match parse_rows cfg asset s n l1 with Err e => Err e | Ok s' => parse_rows cfg asset s' (n + Z.of_nat (length l1)) l2 end.
Proof.
  induction l1 as [|r l1 IH]; intros l2 s n.
  - simpl. rewrite Z.add_0_r. reflexivity.
  - rewrite <- app_comm_cons, !parse_rows_cons. destruct (row_step cfg asset s n r); [|reflexivity].
    rewrite IH. simpl length. rewrite Nat2Z.inj_succ. replace (n + 1 + Z.of_nat (length l1)) with (n + Z.succ (Z.of_nat (length l1))) by lia.
    reflexivity.
Qed.

Lemma parse_rows_fault cfg asset pre row post s0 n s :
  parse_rows cfg asset s0 n pre = Ok s -> is_err (row_step cfg asset s (n + Z.of_nat (length pre)) row) ->
  is_err (parse_rows cfg asset s0 n (pre ++ row :: post)).
Proof.
  intros P R. rewrite parse_rows_app, P, parse_rows_cons.
  destruct (row_step cfg asset s (n + Z.of_nat (length pre)) row); [contradiction|exact I].
Qed.

Definition init_state (counter : Z) : pstate :=
  {| ps_cur := None; ps_count := 0; ps_ins := []; ps_outs := []; ps_intras := []; ps_art := []; ps_counter := counter; ps_meta := [];
     ps_seen := [] |}.

Lemma parse_sheet_rows_err cfg asset counter rows :
  is_err (parse_rows cfg asset (init_state counter) 1 rows) -> is_err (parse_sheet cfg asset counter rows).
Proof.
  intro H. unfold parse_sheet, parse_sheet_gen. destruct (str_index asset (pc_assets cfg) 0); [|exact I].
  fold (init_state counter). change (parse_rows_gen gen_parser_remembers_tables) with parse_rows.
  destruct (parse_rows cfg asset (init_state counter) 1 rows); [contradiction|exact I].
Qed.

(** a single faulty row after ANY accepted prefix, followed by ANYTHING *)
Theorem fault_at_any_position cfg asset counter pre row post s :
  parse_rows cfg asset (init_state counter) 1 pre = Ok s ->
  is_err (row_step cfg asset s (1 + Z.of_nat (length pre)) row) ->
  is_err (parse_sheet cfg asset counter (pre ++ row :: post)).
Proof. intros P R. apply parse_sheet_rows_err. eapply parse_rows_fault; eauto. Qed.

(** missing TABLE END: the sheet ends inside a table *)
Theorem unterminated_table cfg asset counter rows s t :
  parse_rows cfg asset (init_state counter) 1 rows = Ok s -> ps_cur s = Some t -> is_err (parse_sheet cfg asset counter rows).
Proof.
  intros P C. unfold parse_sheet, parse_sheet_gen. destruct (str_index asset (pc_assets cfg) 0); [|exact I].
  fold (init_state counter). change (parse_rows_gen gen_parser_remembers_tables) with parse_rows. rewrite P, C. exact I.
Qed.

(** missing or empty IN table *)
Theorem no_in_transactions cfg asset counter rows s :
  parse_rows cfg asset (init_state counter) 1 rows = Ok s -> ps_ins s = [] -> is_err (parse_sheet cfg asset counter rows).
Proof.
  intros P C. unfold parse_sheet, parse_sheet_gen. destruct (str_index asset (pc_assets cfg) 0); [|exact I].
  fold (init_state counter). change (parse_rows_gen gen_parser_remembers_tables) with parse_rows. rewrite P, C. destruct (ps_cur s); exact I.
Qed.

(** a sheet that is otherwise valid (any tables, any order) but has no IN table, or an IN table without data rows *)
Theorem missing_or_empty_in_table cfg asset ai counter blocks trailing p :
  str_index asset (pc_assets cfg) 0 = Some ai ->
  wf_blocks cfg asset 1 blocks ->
  NoDup (map (fun b => tab_code (b_tab b)) blocks) ->
  (forall r, In r trailing -> is_blank_row r = true) ->
  expected cfg counter blocks = Ok p -> pa_ins p = [] ->
  is_err (parse_sheet cfg asset counter (render_sheet cfg asset blocks trailing)).
Proof.
  intros A W ND TR E NE. unfold expected in E.
  destruct (expect_blocks cfg (acc0 counter) 1 blocks) as [a|] eqn:EB; [|discriminate]. inversion E; subst p; clear E.
  unfold parse_sheet, parse_sheet_gen. rewrite A. unfold render_sheet.
  change (parse_rows_gen gen_parser_remembers_tables) with parse_rows.
  change {| ps_cur := None; ps_count := 0; ps_ins := []; ps_outs := []; ps_intras := []; ps_art := []; ps_counter := counter; ps_meta := [];
            ps_seen := [] |}
    with (st_of None 0 [] (acc0 counter)).
  destruct (blocks_parse cfg asset ai blocks 0 [] (acc0 counter) a 1 trailing W A ND) as [c P]; auto.
  { intros b _. split; [destruct (b_tab b); reflexivity | reflexivity]. }
  rewrite P.
  rewrite <- (app_nil_r trailing), rows_blank by assumption.
  unfold parse_rows. simpl parse_rows_gen. unfold st_of. simpl. simpl in NE. rewrite NE. exact I.
Qed.

Theorem unknown_asset cfg asset counter rows : str_index asset (pc_assets cfg) 0 = None -> is_err (parse_sheet cfg asset counter rows).
Proof. intro H. unfold parse_sheet, parse_sheet_gen. rewrite H. exact I. Qed.
