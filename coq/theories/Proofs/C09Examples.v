(** Non-vacuity examples and the F9 refutation witness for C09 on the aggregation layer (C09Proofs.v), on the
    histories of L4Examples.v.  Evaluated by the kernel. *)
From Coq Require Import List ZArith Bool Lia ZifyBool.
From RP2V Require Import Base.Prelude Base.Assoc Base.Sorting Base.Dec Base.Time Model.Types Model.Generated Model.Txn
  Model.Matcher Model.MatchSpec Model.MatchWf Model.FracSpec Model.Pipeline Model.Computed Model.ComputedSpec Model.StabilitySpec
  Proofs.PipelineWf Proofs.ComputedProofs Proofs.C10Proofs Proofs.C09Proofs Proofs.L4Examples Proofs.NumberingExamples.
Import ListNotations.
Open Scope Z_scope.

(** * history A, truncated after 2020-08-26 (day 18500): the 2021 sale (row 8) is dropped *)
Definition hA' : hist := {| h_ins := h_ins hA; h_outs := firstn 3 (h_outs hA); h_intras := h_intras hA |}.
Definition tA' : txs := trunc_txs 18500 tA.
Example tA'_built : build hA' = Ok tA'.
Proof. vm_compute. reflexivity. Qed.
Definition evsA' : list txn := filter (fun x => txn_day x <=? 18500) evsA.
Example evsA'_ok : taxable_events tA' = Ok evsA'.
Proof. exact (taxable_events_trunc 18500 tA evsA evsA_ok). Qed.

Example wf_A : wf (t_ins tA) schedA (map event_of evsA).
Proof.
  destruct (hA_events_ok evsA evsA_ok) as [H1 H2].
  apply (pipeline_wf hA schedA tA evsA tA_built evsA_ok hA_rows_increasing hA_amounts_positive H1 H2). repeat constructor. intros [].
Qed.
Example wf_A' : wf (t_ins tA') schedA (map event_of evsA').
Proof.
  apply (pipeline_wf hA' schedA tA' evsA' tA'_built evsA'_ok).
  - exact hA_rows_increasing.
  - exact hA_amounts_positive.
  - apply same_year_check. vm_compute. reflexivity.
  - intros e He. exists 1970, Fifo. split; [left; reflexivity|]. vm_compute in He.
    repeat (destruct He as [<-|He]; [vm_compute; discriminate|]). try destruct He.
  - repeat constructor. intros [].
Qed.

(** ** "a run limited by to-date T reports the same figures as a run on the history truncated at T" *)
Definition cdA_500 : computed := Eval vm_compute in match compute_tax 365 18383 18500 false exsA hosA schedA tA with Ok c => c | Err _ => cdA_dflt end.
Example cdA_500_ok : compute_tax 365 18383 18500 false exsA hosA schedA tA = Ok cdA_500.
Proof. vm_compute. reflexivity. Qed.
Example to_date_instance : compute_tax 365 18383 2932896 false exsA hosA schedA tA' = Ok (restrict 18500 tA cdA_500).
Proof.
  exact (compute_tax_to_date_equiv 365 18383 18500 2932896 false exsA hosA schedA tA evsA cdA_500 tA_time_sorted tA_dates_monotone evsA_ok
           wf_A wf_A' ltac:(lia) cdA_500_ok).
Qed.
(** the cut is real: 6 of 7 fractions, 5 shown in the window *)
Example to_date_cut : length (cd_all_gls cdA_500) = 7%nat /\ length (cd_all_gls (restrict 18500 tA cdA_500)) = 6%nat /\ length (cd_gls cdA_500) = 6%nat.
Proof. vm_compute. repeat split; reflexivity. Qed.

(** ** "adding transactions dated after T never changes anything computed for events at or before T" *)
Definition T500 : Z := 18500 * DAY + DAY / 2.
Example tA_extends_tA' : extends_after T500 tA' tA.
Proof.
  exists [], (skipn 3 (t_outs tA)), []. repeat split; try reflexivity; intros a Ha; vm_compute in Ha;
    repeat (destruct Ha as [<-|Ha]; [vm_compute; try reflexivity; discriminate|]); try destruct Ha.
Qed.
Definition cdA'_all : computed := Eval vm_compute in match compute_tax 365 (-100000) 100000 false exsA hosA schedA tA' with Ok c => c | Err _ => cdA_dflt end.
Example cdA'_all_ok : compute_tax 365 (-100000) 100000 false exsA hosA schedA tA' = Ok cdA'_all.
Proof. vm_compute. reflexivity. Qed.
Example extension_instance :=
  later_transactions_change_nothing T500 365 (-100000) 100000 false false exsA hosA schedA tA' tA evsA' evsA cdA'_all cdA
    tA_extends_tA' evsA'_ok evsA_ok wf_A' wf_A cdA'_all_ok cdA_tax.
(** 2020 is closed by the extension (the added sale is dated 2021): its four lines are identical, the later run has a fifth *)
Example extension_closed_year :
  filter (fun L => y_year L <=? 2020) (cd_yearly cdA'_all) = filter (fun L => y_year L <=? 2020) (cd_yearly cdA) /\
  length (cd_yearly cdA'_all) = 4%nat /\ length (cd_yearly cdA) = 5%nat /\ length (cd_all_gls cdA'_all) = 6%nat.
Proof. vm_compute. repeat split; reflexivity. Qed.

(** * finding F9: without monotone dates the to-date run and the truncated-history run differ.
    History [t9]: row 9 (instant 2020-12-31 10:30 UTC, written at +14:00, dated 2021-01-01) precedes row 10 (instant
    2021-01-01 11:00 UTC, written at -12:00, dated 2020-12-31).  With to-date 2020-12-31 the run stops at row 9 and shows
    nothing; the history truncated at 2020-12-31 contains row 10 and its sale is reported. *)
Theorem c09_to_date_refuted : exists period from_day D D' exs hos sched t cd cd',
  time_sorted t /\ D <= D' /\
  compute_tax period from_day D false exs hos sched t = Ok cd /\
  compute_tax period from_day D' false exs hos sched (trunc_txs D t) = Ok cd' /\
  cd_gls cd = [] /\ length (cd_gls cd') = 1%nat /\ cd_outs cd = [] /\ length (cd_outs cd') = 1%nat /\ cd_yearly cd = [] /\ length (cd_yearly cd') = 1%nat.
Proof.
  exists 365, (-100000), 18627, 2932896, exsA, hosA, schedA, t9.
  eexists. eexists. split; [exact (build_time_sorted h9 t9 t9_built)|]. split; [lia|].
  split; [vm_compute; reflexivity|]. split; [vm_compute; reflexivity|]. vm_compute. repeat split; reflexivity.
Qed.
Example t9_not_monotone : ~ dates_monotone t9.
Proof.
  intros H. specialize (H (TOut (nth 0 (t_outs t9) outtx_dflt)) (TOut o9_hidden)).
  assert (18628 <= 18627); [|lia]. apply H; vm_compute; try (intros; discriminate); auto.
Qed.
