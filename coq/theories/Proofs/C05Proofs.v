(** C05: long-term vs short-term classification. *)
From RP2V Require Import Base.Prelude Base.Time Base.Dec Model.Types Model.Generated Proofs.TimeProofs.
From Coq Require Import ZifyBool.
Open Scope Z_scope.
Ltac Zify.zify_post_hook ::= Z.to_euclidean_division_equations.

(** Whole days elapsed between acquisition and disposal reach the threshold
    iff the elapsed time is at least [period] times 24h (instants only). *)
Lemma is_long_iff period ev lot :
  gl_is_long period ev (Some lot) = true <->
  period * US_PER_DAY <= utc_us (t_ts ev) - utc_us (i_ts lot).
Proof.
  unfold gl_is_long. rewrite Z.geb_le. apply days_between_ge.
Qed.

Lemma is_long_earn period ev : gl_is_long period ev None = false.
Proof. reflexivity. Qed.

(** The flag depends on the two instants only (not on the UTC offsets, not on
    any other field of the two transactions). *)
Lemma is_long_instants_only period ev ev' lot lot' :
  utc_us (t_ts ev) = utc_us (t_ts ev') -> utc_us (i_ts lot) = utc_us (i_ts lot') ->
  gl_is_long period ev (Some lot) = gl_is_long period ev' (Some lot').
Proof.
  intros He Hl. unfold gl_is_long.
  rewrite (days_between_instants (i_ts lot) (i_ts lot') (t_ts ev) (t_ts ev')); auto.
Qed.

Lemma period_us_es env : country_period US env = 365 /\ country_period ES env = 365.
Proof. split; reflexivity. Qed.

Lemma period_generic env : country_period GENERIC env = env.
Proof. reflexivity. Qed.

(** JP and IE: never long-term for any two timestamps Python can represent. *)
Lemma never_long_jp_ie c env ev lot :
  c = JP \/ c = IE -> ts_in_range (t_ts ev) -> ts_in_range (i_ts lot) ->
  gl_is_long (country_period c env) ev (Some lot) = false.
Proof.
  intros Hc [He _] [Hl _].
  destruct (gl_is_long (country_period c env) ev (Some lot)) eqn:E; auto.
  apply is_long_iff in E. unfold US_PER_DAY in E.
  destruct Hc as [-> | ->]; cbn [country_period] in E; lia.
Qed.

(** Boundary examples (non-vacuity): exactly 365 days is long, one microsecond less is short;
    offsets do not matter. *)
Definition mk_sell (us off : Z) : txn :=
  TOut {| o_row := 2; o_ts := {| utc_us := us; off_s := off |}; o_exch := 0; o_holder := 0; o_type := SELL;
          o_spot := 1; o_crypto_out_no_fee := 1; o_crypto_fee := 0; o_crypto_out_with_fee := 1;
          o_fiat_out_no_fee := dzero; o_fiat_fee := dzero; o_fiat_out_with_fee := dzero |}.
Definition mk_buy (us off : Z) : intx :=
  {| i_row := 1; i_ts := {| utc_us := us; off_s := off |}; i_exch := 0; i_holder := 0; i_type := BUY;
     i_spot := 1; i_crypto_in := 1; i_crypto_fee := 0;
     i_fiat_in_no_fee := dzero; i_fiat_in_with_fee := dzero; i_fiat_fee := dzero |}.
Example boundary_365 :
  gl_is_long 365 (mk_sell (365 * US_PER_DAY) 3600) (Some (mk_buy 0 (-7200))) = true /\
  gl_is_long 365 (mk_sell (365 * US_PER_DAY - 1) 0) (Some (mk_buy 0 0)) = false.
Proof. vm_compute. split; reflexivity. Qed.
