(** The transfer-fee rule (repair of finding F8).

    IntraTransaction.is_taxable decides which transfers between own accounts are taxable events.
    Before the repair it was `self.fiat_fee > ZERO` (RP2Decimal's comparison, quantised to 13
    decimals): a non-zero fee whose fiat value is below 5e-14 (1e-11 units at price 1e-8) was not a
    taxable event, the matcher never took it from a lot, and the lots kept an amount the balances
    had lost.  The repaired rule is `self.crypto_fee > ZERO`: crypto amounts live on the 1e-11 grid,
    on which the 13-decimal comparison is exact.

    [code_intra_taxable_iff_fee] reads the rule off the definition the translator generates from
    the source on every run.  It is proved by [reflexivity]: on a tree without the repair this file
    stops compiling, and with it the positive theorems of C03, C07 and C15 that go through it.
    The refutation witnesses are stated on the explicit old rule ([intra_is_taxable_fiat],
    [taxable_events_by], [fractions_of_by] of Model/Pipeline.v) and compile on every tree. *)
From Coq Require Import List ZArith Bool Lia Permutation.
From RP2V Require Import Base.Prelude Base.Time Base.Dec Base.Sorting Model.Types Model.Generated Model.Txn
  Model.Matcher Model.MatchSpec Model.Pipeline Model.Computed Model.ComputedSpec
  Proofs.SortingProofs Proofs.C03Proofs Proofs.PipelineWf Proofs.L4Examples.
Import ListNotations.
Open Scope Z_scope.

(** * the rule of the source as it is now *)
Lemma code_intra_taxable_iff_fee : forall a, intra_is_taxable a = (x_crypto_fee a >? 0).
Proof. reflexivity. Qed.

Lemma code_intra_rule : forall a, intra_is_taxable a = intra_is_taxable_fee a.
Proof. reflexivity. Qed.

Lemma intra_taxable_iff a : intra_is_taxable a = true <-> 0 < x_crypto_fee a.
Proof. rewrite code_intra_taxable_iff_fee. split; intro H; lia. Qed.

(** the pipeline under the repaired rule is the pipeline of the source *)
Lemma taxable_events_by_code t : taxable_events_by intra_is_taxable_fee t = taxable_events t.
Proof. reflexivity. Qed.
Lemma fractions_of_by_code b sched t : fractions_of_by intra_is_taxable_fee b sched t = fractions_of b sched t.
Proof. reflexivity. Qed.

(** * C03: the taxable events, with the transfer clause as the property text has it *)
Theorem taxable_events_exact (t : txs) evs (e : txn) :
  taxable_events t = Ok evs ->
  (In e evs <->
   (exists a, e = TIn a /\ In a (t_ins t) /\ is_earn_type (i_type a) = true) \/
   (exists a, e = TOut a /\ In a (t_outs t)) \/
   (exists a, e = TIntra a /\ In a (t_intras t) /\ 0 < x_crypto_fee a)).
Proof.
  intros H. rewrite (taxable_events_iff t evs e H).
  split; (intros [H1|[H2|[a [E [Hi HT]]]]]; [left; exact H1|right; left; exact H2|right; right; exists a; repeat split; auto; apply intra_taxable_iff; exact HT]).
Qed.

(** the constructor guarantees sent >= received: a fee is never negative, "non-zero" is "positive" *)
Lemma built_fee_nonneg h t : build h = Ok t -> fees_nonneg t.
Proof.
  intros Hb a Ha. destruct (in_intra_raw h t Hb a Ha) as (r & _ & Hr).
  destruct (mk_intra_fee r a Hr) as [Hge _]. exact Hge.
Qed.

(** for histories that went through the constructors: "every transfer between own accounts whose fee is non-zero" *)
Theorem taxable_events_exact_built (h : hist) (t : txs) evs (e : txn) :
  build h = Ok t -> taxable_events t = Ok evs ->
  (In e evs <->
   (exists a, e = TIn a /\ In a (t_ins t) /\ is_earn_type (i_type a) = true) \/
   (exists a, e = TOut a /\ In a (t_outs t)) \/
   (exists a, e = TIntra a /\ In a (t_intras t) /\ x_crypto_fee a <> 0)).
Proof.
  intros Hb H. rewrite (taxable_events_exact t evs e H).
  split; (intros [H1|[H2|[a [E [Hi HT]]]]]; [left; exact H1|right; left; exact H2|right; right; exists a; repeat split; auto]).
  - lia.
  - pose proof (built_fee_nonneg h t Hb a Hi). lia.
Qed.

(** a fee-less transfer is never a taxable event *)
Lemma feeless_transfer_not_taxed (t : txs) evs a :
  taxable_events t = Ok evs -> x_crypto_fee a = 0 -> ~ In (TIntra a) evs.
Proof.
  intros H Hz Hin. apply (taxable_events_exact t evs _ H) in Hin.
  destruct Hin as [[b [E _]]|[[b [E _]]|[b [E [_ Hp]]]]]; try discriminate E. injection E as <-. lia.
Qed.

(** * C07: no transfer fee escapes the matcher any more ([no_dust_fee] of Model/ComputedSpec.v is a theorem) *)
Lemma no_dust_fee_of_nonneg t : fees_nonneg t -> no_dust_fee t.
Proof. intros Hn a Ha Hnz. apply intra_taxable_iff. pose proof (Hn a Ha). lia. Qed.

Lemma built_no_dust_fee h t : build h = Ok t -> no_dust_fee t.
Proof. intros Hb. apply no_dust_fee_of_nonneg. exact (built_fee_nonneg h t Hb). Qed.

(** * the old rule: refutation witness of C03 (finding F8), stated on [taxable_events_by intra_is_taxable_fiat]
    BUY 1 coin; MOVE 1 -> 0.99999999999 at price 1e-8: the fee of 1e-11 coins is worth 1e-19 < 5e-14 *)
Definition hDust : hist :=
  {| h_ins := [ r_in 1 18000 0 0 BUY 1000 (1 * U) ]; h_outs := [];
     h_intras := [ r_intra 2 18010 0 0 1 0 1000 (1 * U) (1 * U - 1) ] |}.

Definition tDust : txs :=
  Eval vm_compute in match build hDust with Ok t => t | Err _ => {| t_ins := []; t_outs := []; t_intras := [] |} end.

Theorem c03_refuted_dust_fee_old_rule : exists h t evs a,
  build h = Ok t /\ taxable_events_by intra_is_taxable_fiat t = Ok evs /\
  In a (t_intras t) /\ x_crypto_fee a = 1 /\ ~ In (TIntra a) evs.
Proof.
  exists hDust, tDust. eexists [], _. split; [vm_compute; reflexivity|]. split; [vm_compute; reflexivity|].
  split; [cbn; left; reflexivity|]. split; [reflexivity|]. intros [].
Qed.

(** ... and the same history under the rule of the source: the fee is a taxable event for its full amount *)
Example dust_fee_taxed_now : exists evs a,
  build hDust = Ok tDust /\ taxable_events tDust = Ok evs /\ t_intras tDust = [a] /\ x_crypto_fee a = 1 /\ evs = [TIntra a] /\
  e_amt (event_of (TIntra a)) = 1.
Proof. do 2 eexists. split; [vm_compute; reflexivity|]. split; [vm_compute; reflexivity|]. vm_compute. repeat split; reflexivity. Qed.
