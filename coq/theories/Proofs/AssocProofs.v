(** Elementary facts on the insertion-ordered association lists of Base/Assoc.v. *)
From Coq Require Import List ZArith Bool Lia Permutation ZifyBool.
From RP2V Require Import Base.Prelude Base.Assoc.
Import ListNotations.
Open Scope Z_scope.

Section AssocProofs.
Context {V : Type}.
Implicit Types (m : assoc V) (k : Z) (v : V).

Lemma aget_aset_same k v m : aget k (aset k v m) = Some v.
Proof.
  induction m as [|[k' v'] m IH]; cbn [aset aget].
  - rewrite Z.eqb_refl. reflexivity.
  - destruct (k =? k') eqn:E; cbn [aget].
    + rewrite Z.eqb_refl. reflexivity.
    + rewrite E. exact IH.
Qed.

Lemma aget_aset_other k k' v m : k <> k' -> aget k (aset k' v m) = aget k m.
Proof.
  intros Hne. induction m as [|[k2 v2] m IH]; cbn [aset aget].
  - destruct (k =? k') eqn:E; [lia|reflexivity].
  - destruct (k' =? k2) eqn:E; cbn [aget].
    + assert (k' = k2) by lia. subst k2.
      destruct (k =? k') eqn:E2; [lia|reflexivity].
    + destruct (k =? k2); [reflexivity|exact IH].
Qed.

Lemma aget_aset k k' v m : aget k (aset k' v m) = if k =? k' then Some v else aget k m.
Proof.
  destruct (k =? k') eqn:E.
  - assert (k = k') by lia. subst. apply aget_aset_same.
  - apply aget_aset_other. lia.
Qed.

Lemma aget_None_iff k m : aget k m = None <-> ~ In k (map fst m).
Proof.
  induction m as [|[k' v'] m IH]; cbn [aget map fst In].
  - tauto.
  - destruct (k =? k') eqn:E.
    + split; [discriminate|]. intros H. exfalso. apply H. left. lia.
    + rewrite IH. split; intros H; [intros [H1|H1]; [lia|tauto]|tauto].
Qed.

Lemma amem_true_iff k m : amem k m = true <-> In k (map fst m).
Proof.
  unfold amem. destruct (aget k m) eqn:E.
  - split; [intros _|reflexivity].
    destruct (in_dec Z.eq_dec k (map fst m)) as [H|H]; [exact H|].
    apply aget_None_iff in H. congruence.
  - split; [discriminate|]. intros H. apply aget_None_iff in E. tauto.
Qed.

Lemma amem_false_iff k m : amem k m = false <-> ~ In k (map fst m).
Proof.
  rewrite <- amem_true_iff. destruct (amem k m); split; congruence.
Qed.

Lemma amem_aset k k' v m : amem k (aset k' v m) = (k =? k') || amem k m.
Proof.
  unfold amem. rewrite aget_aset. destruct (k =? k'); reflexivity.
Qed.

Lemma aget_d_aset d k k' v m : aget_d d k (aset k' v m) = if k =? k' then v else aget_d d k m.
Proof.
  unfold aget_d. rewrite aget_aset. destruct (k =? k'); reflexivity.
Qed.

(** keys after an assignment: unchanged when the key is present, appended otherwise *)
Lemma aset_keys k v m :
  map fst (aset k v m) = if amem k m then map fst m else map fst m ++ [k].
Proof.
  induction m as [|[k' v'] m IH]; cbn [aset map fst]; [reflexivity|].
  unfold amem in *. cbn [aget].
  destruct (k =? k') eqn:E; cbn [map fst].
  - f_equal. lia.
  - rewrite IH. destruct (aget k m); reflexivity.
Qed.

Lemma aset_keys_cases k v m :
  (amem k m = true /\ map fst (aset k v m) = map fst m) \/
  (amem k m = false /\ map fst (aset k v m) = map fst m ++ [k]).
Proof. rewrite aset_keys. destruct (amem k m); auto. Qed.

Lemma aset_NoDup k v m : NoDup (map fst m) -> NoDup (map fst (aset k v m)).
Proof.
  intros H. rewrite aset_keys. destruct (amem k m) eqn:E; [exact H|].
  apply amem_false_iff in E.
  apply (Permutation_NoDup (l := k :: map fst m)).
  - apply Permutation_cons_append.
  - constructor; assumption.
Qed.

Lemma aset_in_keys k k' v m : In k (map fst (aset k' v m)) <-> k = k' \/ In k (map fst m).
Proof.
  rewrite <- !amem_true_iff, amem_aset. split.
  - intros H. apply orb_true_iff in H. destruct H as [H|H]; [left; lia|right; exact H].
  - intros [H|H]; apply orb_true_iff; [left; lia|right; exact H].
Qed.

(** the values after an assignment: replaced in place or appended *)
Lemma aset_present k v m : amem k m = true ->
  exists m1 v0 m2, m = m1 ++ (k, v0) :: m2 /\ aset k v m = m1 ++ (k, v) :: m2 /\ aget k m = Some v0.
Proof.
  induction m as [|[k' v'] m IH]; unfold amem; cbn [aget aset]; [discriminate|].
  destruct (k =? k') eqn:E.
  - intros _. exists [], v', m. assert (k = k') by lia. subst. auto.
  - intros H. destruct (IH H) as (m1 & v0 & m2 & H1 & H2 & H3).
    exists ((k', v') :: m1), v0, m2. cbn [app]. rewrite <- H1, <- H2. auto.
Qed.

Lemma aset_absent k v m : amem k m = false -> aset k v m = m ++ [(k, v)].
Proof.
  induction m as [|[k' v'] m IH]; unfold amem; cbn [aget aset app]; [reflexivity|].
  destruct (k =? k') eqn:E; [discriminate|].
  intros H. f_equal. apply IH. exact H.
Qed.

Lemma aget_In k v m : aget k m = Some v -> In (k, v) m.
Proof.
  induction m as [|[k' v'] m IH]; cbn [aget]; [discriminate|].
  destruct (k =? k') eqn:E.
  - intros H. left. f_equal; [lia|congruence].
  - intros H. right. apply IH. exact H.
Qed.

Lemma In_aget k v m : NoDup (map fst m) -> In (k, v) m -> aget k m = Some v.
Proof.
  induction m as [|[k' v'] m IH]; cbn [aget map fst]; intros Hnd Hin; [destruct Hin|].
  inversion Hnd as [|? ? Hni Hnd']; subst.
  destruct Hin as [Hin|Hin].
  - inversion Hin; subst. rewrite Z.eqb_refl. reflexivity.
  - destruct (k =? k') eqn:E.
    + exfalso. apply Hni. assert (k = k') by lia. subst.
      change k' with (fst (k', v)). apply in_map. exact Hin.
    + apply IH; assumption.
Qed.
(** sum of an integer figure over the values after an assignment *)
Lemma sum_aset (f : V -> Z) k v m :
  sumZ (map (fun kv => f (snd kv)) (aset k v m)) =
  sumZ (map (fun kv => f (snd kv)) m) - (match aget k m with Some v0 => f v0 | None => 0 end) + f v.
Proof.
  induction m as [|[k' v'] m IH]; cbn [aset aget map sumZ snd].
  - lia.
  - destruct (k =? k') eqn:E; cbn [map sumZ snd].
    + lia.
    + rewrite IH. lia.
Qed.
Lemma In_aset kv k v m : In kv (aset k v m) -> kv = (k, v) \/ In kv m.
Proof.
  induction m as [|[k' v'] m IH]; cbn [aset In].
  - intros [H|[]]. left. congruence.
  - destruct (k =? k') eqn:E; cbn [In].
    + intros [H|H]; [left; congruence|right; right; exact H].
    + intros [H|H]; [right; left; exact H|]. destruct (IH H) as [H1|H1]; auto.
Qed.
End AssocProofs.

